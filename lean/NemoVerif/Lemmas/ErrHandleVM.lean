/-
  C10 on CoreVM — the three repaired raise sites (fixes/C10-handle-match-error-contained.diff,
  fixes/C10-head-advance-inside-try.diff, fixes/C10-startflow-requires-flow-id.diff):

    * `_handle_event_matching` (`handleEventMatching`): the work per matched head (`handleMatch`: `_create_event_reference`, `_start_flow`,
      the scope registration for `FlowStarted`) runs inside a try block.  `Ext` through the whole function; the heads handed back are matched
      heads, each with a `ColangError` queued; NO Python-level exception of the per-head work leaves the function (provenance: only the
      look-up of the flow state in front of the try block can raise); the except branch as an equation for one head.
    * `slide`, `send StartFlow(...)` without `flow_id`: the SENDER raises `ColangRuntimeError` inside `slide` (hence inside the try block of
      `_advance_head_front`), nothing is queued — `_process_internal_events_without_default_matchers` never sees such an event from a `send`.
    * `head.position += 1`: inside the try block — covered by `advance_error_path` (Lemmas/ErrContainVM.lean), whose raise hypothesis now
      starts with `setHeadPos`.
-/
import NemoVerif.Lemmas.ErrExtVM
set_option linter.unusedSimpArgs false
set_option linter.unusedVariables false
namespace NemoVerif.CoreVM
open NemoVerif NemoVerif.CoreIndex

/-! ### `Ext` through `_handle_event_matching` -/

theorem Ext.argStr (a : List (String × Val)) (k : String) : Pres Ext (argStr a k) := by
  unfold CoreVM.argStr; pres_search Ext extPO (ext2_leaf)
theorem Ext.actionFromEvent (e : Match.Ev) (u : String) : Pres Ext (actionFromEvent e u) := by
  unfold CoreVM.actionFromEvent; pres_search Ext extPO (ext2_leaf)
theorem Ext.createEventReference (f : FUid) (sp : Spec) (r : String) (e : Event) : Pres Ext (createEventReference f sp r e) := by
  unfold CoreVM.createEventReference
  pres_search Ext extPO (first | ext2_leaf | exact Ext.actionFromEvent _ _)
theorem Ext.startFlow (f : FUid) (a : List (String × Val)) : Pres Ext (startFlow f a) := by
  unfold CoreVM.startFlow
  pres_search Ext extPO (first | ext2_leaf | exact Ext.argStr _ _)
theorem Ext.handleMatch (event : Event) (k : Key) (cfg : FlowCfg) (hd : Head) : Pres Ext (handleMatch event k cfg hd) := by
  unfold CoreVM.handleMatch
  pres_search Ext extPO (first | ext2_leaf | exact Ext.createEventReference _ _ _ _ | exact Ext.startFlow _ _)

/-- **`_handle_event_matching` loses nothing that is queued, removes no instance, keeps the program** — in every outcome -/
theorem Ext.handleEventMatching (event : Event) (heads : List Key) : Pres Ext (handleEventMatching event heads) := by
  unfold CoreVM.handleEventMatching
  pres_search Ext extPO (first | ext2_leaf | exact Ext.handleMatch _ _ _ _)

theorem Ext.mem_queue {s s' : VM} (h : Ext s s') {e : Event} (he : e ∈ s.r.queue) : e ∈ s'.r.queue := by
  obtain ⟨pre, post, hq⟩ := h.queue
  rw [hq]; simp [he]

/-! ### the loop of `_handle_event_matching` -/

theorem pure_ok_inv {α : Type} {a b : α} {s s' : VM} (h : (pure a : M α) s = .ok b s') : b = a ∧ s' = s := by
  simp only [pure, EStateM.pure] at h; cases h; exact ⟨rfl, rfl⟩

/-- value of a loop step -/
def stepValue {β : Type} : ForInStep β → β
  | .done b => b
  | .yield b => b

/-- loop invariant relating the accumulated value and the CURRENT state of a `for` loop in `M` (normal returns) -/
theorem forInSt_inv {α β : Type} (I : β → VM → Prop) (body : α → β → M (ForInStep β)) : ∀ (xs : List α) (init : β) (s : VM), I init s →
    (∀ a ∈ xs, ∀ b s, I b s → ∀ r s', body a b s = .ok r s' → I (stepValue r) s') →
    ∀ r s', (forIn xs init body : M β) s = .ok r s' → I r s'
  | [], init, s, h0, _, r, s', h => by
    simp only [List.forIn_nil, pure, EStateM.pure] at h
    cases h; exact h0
  | a :: as, init, s, h0, hb, r, s', h => by
    simp only [List.forIn_cons] at h
    obtain ⟨st, s1, h1, h2⟩ := bind_ok h
    have hst := hb a List.mem_cons_self init s h0 st s1 h1
    cases st with
    | done b =>
      simp only [pure, EStateM.pure] at h2
      cases h2; exact hst
    | yield b =>
      exact forInSt_inv I body as b s1 hst (fun a' ha' => hb a' (List.mem_cons_of_mem _ ha')) r s' h2

/-- whatever leaves a `for` loop in `M` abnormally left one of its iterations -/
theorem forIn_error {α β : Type} (body : α → β → M (ForInStep β)) : ∀ (xs : List α) (init : β) (s : VM) (e : VMErr) (s' : VM),
    (forIn xs init body : M β) s = .error e s' → ∃ a ∈ xs, ∃ b s0, body a b s0 = .error e s'
  | [], init, s, e, s', h => by simp only [List.forIn_nil, pure, EStateM.pure] at h; cases h
  | a :: as, init, s, e, s', h => by
    simp only [List.forIn_cons] at h
    rcases bind_err h with h | ⟨st, s1, h1, h2⟩
    · exact ⟨a, List.mem_cons_self, init, s, h⟩
    · cases st with
      | done b => simp only [pure, EStateM.pure] at h2; cases h2
      | yield b =>
        obtain ⟨a', ha', b', s0, hb'⟩ := forIn_error body as b s1 e s' h2
        exact ⟨a', List.mem_cons_of_mem _ ha', b', s0, hb'⟩

/-- the state after the `except` branch of `_handle_event_matching` for one head: `ColangError` pushed, the exception logged -/
def handleErrState (c m : String) (s2 : VM) : VM :=
  { s2 with r := { s2.r with queue := s2.r.queue ++ [colangErrorEvent c m],
                              caught := s2.r.caught ++ [s!"handle: {c}: {m}"] } }

/-- one iteration of the loop of `_handle_event_matching` -/
def handleStep (event : Event) (k : Key) (acc : List Key) : M (ForInStep (List Key)) := do
  let cfg ← cfgOfInst k.1
  let some hd ← getHead? k | unsupported "matching head vanished"
  match ← attemptPy (handleMatch event k cfg hd) with
  | .ok _ => pure (.yield acc)
  | .error (c, m) =>
    pushEvent (colangErrorEvent c m)
    modifyRest fun r => { r with caught := r.caught ++ [s!"handle: {c}: {m}"] }
    pure (.yield (acc ++ [k]))

theorem handleEventMatching_eq (event : Event) (heads : List Key) :
    handleEventMatching event heads = forIn heads [] (handleStep event) := by
  unfold handleEventMatching handleStep
  simp only [bind_pure]
  rfl

/-- a normally returning iteration: the accumulator is kept or extended by the head, and then `ColangError` is queued -/
theorem handleStep_ok (event : Event) (k : Key) (acc : List Key) (s s' : VM) (r : ForInStep (List Key))
    (h : handleStep event k acc s = .ok r s') :
    Ext s s' ∧ (stepValue r = acc ∨ (stepValue r = acc ++ [k] ∧ ∃ c m, colangErrorEvent c m ∈ s'.r.queue)) := by
  have hext : Ext s s' := by
    have hp : Pres Ext (handleStep event k acc) := by
      unfold CoreVM.handleStep
      pres_search Ext extPO (first | ext2_leaf | exact Ext.handleMatch _ _ _ _)
    exact ok_of_pres hp h
  refine ⟨hext, ?_⟩
  unfold handleStep at h
  obtain ⟨cfg, s2, g1, g2⟩ := bind_ok h
  obtain ⟨ohd, s3, g3, g4⟩ := bind_ok g2
  cases ohd with
  | none => cases g4
  | some hd =>
    simp only at g4
    obtain ⟨out, s4, g5, g6⟩ := bind_ok g4
    cases out with
    | ok u => obtain ⟨e1, e2⟩ := pure_ok_inv g6; rw [e1]; exact Or.inl rfl
    | error cm =>
      obtain ⟨c, m⟩ := cm
      simp only at g6
      obtain ⟨_, s5, g7, g8⟩ := bind_ok g6
      obtain ⟨_, s6, g9, g10⟩ := bind_ok g8
      obtain ⟨e1, e2⟩ := pure_ok_inv g10
      rw [e1]
      refine Or.inr ⟨rfl, c, m, ?_⟩
      have h5 : colangErrorEvent c m ∈ s5.r.queue := by
        have : s5 = { s4 with r := { s4.r with queue := s4.r.queue ++ [colangErrorEvent c m] } } := by cases g7; rfl
        rw [this]; simp
      have h6 : s6.r.queue = s5.r.queue := by cases g9; rfl
      rw [e2, h6]; exact h5

/-- **`_handle_event_matching`, normal return**: the heads handed back are heads it was given (the caller moves exactly these from
    `heads_matching` to `heads_erroring` and fails their flows), for each of them a `ColangError` event is in the queue, nothing
    that was queued is lost and no instance disappeared. -/
theorem handleEventMatching_ok (event : Event) (heads : List Key) (s s' : VM) (errs : List Key)
    (h : handleEventMatching event heads s = .ok errs s') :
    (∀ k ∈ errs, k ∈ heads) ∧ Ext s s' ∧ (errs ≠ [] → ∃ c m, colangErrorEvent c m ∈ s'.r.queue) ∧
    (∀ e ∈ s.r.queue, e ∈ s'.r.queue) := by
  have hext : Ext s s' := ok_of_pres (Ext.handleEventMatching event heads) h
  rw [handleEventMatching_eq] at h
  have hI := forInSt_inv (fun acc st => (∀ k ∈ acc, k ∈ heads) ∧ (acc ≠ [] → ∃ c m, colangErrorEvent c m ∈ st.r.queue))
    (handleStep event) heads [] s ⟨fun _ hk => (by cases hk), fun hne => absurd rfl hne⟩ ?_ errs s' h
  · exact ⟨hI.1, hext, hI.2, fun e he => hext.mem_queue he⟩
  · intro a ha b s0 hb r s1 hr
    obtain ⟨hx, hv⟩ := handleStep_ok event a b s0 s1 r hr
    rcases hv with hv | ⟨hv, c, m, hq⟩
    · rw [hv]
      exact ⟨hb.1, fun hne => by obtain ⟨c, m, hq⟩ := hb.2 hne; exact ⟨c, m, hx.mem_queue hq⟩⟩
    · rw [hv]
      refine ⟨fun k hk => ?_, fun _ => ⟨c, m, hq⟩⟩
      rcases List.mem_append.1 hk with hk | hk
      · exact hb.1 k hk
      · rw [List.mem_singleton.1 hk]; exact ha

/-- **no Python-level exception of the per-head work leaves `_handle_event_matching`** (the repaired region of the finding
    `error-raised-while-handling-match`).  PROVENANCE of anything Python-level that still leaves it: it was raised by the look-up of
    the flow state / flow configuration of a matched head in FRONT of the try block (`get_flow_state_from_head`: the instance of a
    matched head does not exist) — never by `_create_event_reference`, `_start_flow` or the scope registration. -/
theorem handleEventMatching_py_provenance (event : Event) (heads : List Key) (s s' : VM) (c m : String)
    (h : handleEventMatching event heads s = .error (.py c m) s') :
    ∃ k ∈ heads, ∃ s0, cfgOfInst k.1 s0 = .error (.py c m) s' := by
  rw [handleEventMatching_eq] at h
  obtain ⟨k, hk, b, s0, hb⟩ := forIn_error (handleStep event) heads [] s _ s' h
  refine ⟨k, hk, s0, ?_⟩
  unfold handleStep at hb
  rcases bind_err hb with hb | ⟨cfg, s2, g1, g2⟩
  · exact hb
  · exfalso
    rcases bind_err g2 with g2 | ⟨ohd, s3, g3, g4⟩
    · cases g2
    · cases ohd with
      | none => cases g4
      | some hd =>
        simp only at g4
        rcases bind_err g4 with g4 | ⟨out, s4, g5, g6⟩
        · exact attemptPy_never_py _ _ _ _ _ g4
        · cases out with
          | ok u => cases g6
          | error cm =>
            obtain ⟨c', m'⟩ := cm
            simp only at g6
            rcases bind_err g6 with g6 | ⟨_, s5, g7, g8⟩
            · cases g6
            · rcases bind_err g8 with g8 | ⟨_, s6, g9, g10⟩
              · cases g8
              · cases g10

/-- **the `except` branch of `_handle_event_matching`, as an equation** (one matched head `k`): the per-head work raises `c: m` in
    state `s2`; then the call returns normally, hands `k` back, and the final state is `s2` with `ColangError(type=c, error=m)`
    appended to the queue (and the exception logged) — nothing else. -/
theorem handleEventMatching_error_path (event : Event) (k : Key) (cfg : FlowCfg) (hd : Head) (s s2 : VM) (c m : String)
    (hcfg : cfgOfInst k.1 s = .ok cfg s) (hhd : getHead? k s = .ok (some hd) s)
    (hraise : handleMatch event k cfg hd s = .error (.py c m) s2) :
    handleEventMatching event [k] s = .ok [k] (handleErrState c m s2) := by
  rw [handleEventMatching_eq]
  simp only [List.forIn_cons, List.forIn_nil]
  have hstep : handleStep event k [] s = .ok (.yield [k]) (handleErrState c m s2) := by
    unfold handleStep
    rw [bind_ok_eq hcfg, bind_ok_eq hhd]
    simp only
    rw [bind_ok_eq (attemptPy_of_py hraise)]
    rfl
  rw [bind_ok_eq hstep]
  rfl

/-! ### `send StartFlow(...)` without `flow_id` -/

/-- **the sender of a `StartFlow` event without `flow_id` fails inside `slide`** (the repaired region of the finding
    `error-raised-while-processing-internal-event`): the head stands on a `send` element whose event evaluates — in state `s1` — to
    an internal `StartFlow` event without a `flow_id` argument.  Then the slide iteration raises `ColangRuntimeError` in exactly
    that state: nothing was queued, the head did not move.  (`slide` runs inside the try block of `_advance_head_front`:
    `advance_error_path` / `vm_error_contained` apply.  Conversely every `StartFlow` event a `send` puts into the queue carries a
    `flow_id`, so the `KeyError` of `_process_internal_events_without_default_matchers` cannot be caused by a flow's `send`.) -/
theorem slideStep_startflow_requires_flow_id (fuel : Nat) (f : FUid) (h : HUid) (s s1 : VM) (cfg : FlowCfg) (hd : Head) (spec : Spec)
    (e : Match.Ev)
    (hcfg : cfgOfInst f s = .ok cfg s) (hhd : getHead? (f, h) s = .ok (some hd) s)
    (hlt : hd.pos < cfg.elements.size) (hlive : hd.status ≠ .inactive)
    (hel : cfg.elements[hd.pos]! = .sendOp spec)
    (hev : getEvent f spec false s = .ok e s1) (hname : e.name = "StartFlow") (hnoid : lookupArg "flow_id" e.args = none) :
    slideStep fuel f h s = .error (.py "ColangRuntimeError" "Event 'StartFlow' needs a 'flow_id' parameter!") s1 := by
  unfold slideStep
  simp only [bind, EStateM.bind, hcfg, hhd]
  have hp : (decide (hd.pos ≥ cfg.elements.size) || decide (hd.status = HeadStatus.inactive)) = false := by
    simp [hlt, hlive]
  rw [hp, hel]
  simp only [Bool.false_eq_true, if_false, EStateM.bind, hev]
  have hint : internalEvents.contains e.name = true := by rw [hname]; decide
  simp only [hint, Bool.not_true, Bool.false_eq_true, if_false, hname, if_true, hnoid, Option.isNone_none]
  rfl

end NemoVerif.CoreVM
