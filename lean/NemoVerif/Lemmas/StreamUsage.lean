/-
  C18 — the single-call usage (`Models/StreamUsage.lean`, repaired variant fx = true, stop assigned before
  `disable_buffering()`) reduces to one run of the pattern machine on the rest of the LLM text.
-/
import NemoVerif.Lemmas.StreamPipe
import NemoVerif.Models.StreamUsage
set_option linter.unusedSimpArgs false
namespace NemoVerif.StreamUsage
open NemoVerif.Stream

theorem dropTopK_append : ∀ (t : Str) (k : Nat) (first : Option Char) (r x : Str),
    dropTopK k first t = some r → dropTopK k first (t ++ x) = some (r ++ x)
  | [], _, _, _, _, h => by simp [dropTopK] at h
  | c :: t, k, first, r, x, h => by
    simp only [dropTopK, List.cons_append] at h ⊢
    by_cases hc : c = '\n'
    · simp only [hc, if_true] at h ⊢
      by_cases hq : qualifies first = true
      · simp only [hq, if_true] at h ⊢
        by_cases hk : k ≤ 1
        · simp only [hk, if_true] at h ⊢
          cases h; rfl
        · simp only [hk, if_false] at h ⊢
          exact dropTopK_append t _ _ r x h
      · simp only [hq, if_false] at h ⊢
        exact dropTopK_append t _ _ r x h
    · simp only [hc, if_false] at h ⊢
      exact dropTopK_append t _ _ r x h

/-! #### not buffering: the handler is the pattern machine -/

theorem pushBodyH_eq (h : H) (hb : h.buffering = false) (chunk : Option Str) :
    pushBodyH h chunk = { h with st := pushBody (cfgOf h) h.st chunk } := by
  unfold pushBodyH pushBody
  by_cases hm : h.suffix ≠ [] ∨ h.stop ≠ []
  · have hm' : (cfgOf h).suffix ≠ [] ∨ (cfgOf h).stop ≠ [] := hm
    simp only [hm, hm', if_true]
    split
    · rfl
    · simp [releaseH, release, procH, hb, process]
  · have hm' : ¬ ((cfgOf h).suffix ≠ [] ∨ (cfgOf h).stop ≠ []) := hm
    simp only [hm, hm', if_false]
    simp [procH, hb]

theorem pushH_eq (fx : Bool) (h : H) (hb : h.buffering = false) (chunk : Option Str) :
    pushH fx h chunk = { h with st := push (cfgOf h) h.st chunk } := by
  obtain ⟨⟨spfx, scur, scomp, sout, sfin⟩, sfx, stp, buf, bfr, k, topk, ft, pf, eb⟩ := h
  simp only at hb
  subst hb
  unfold pushH push
  cases sfin with
  | true => simp
  | false =>
    simp only [Bool.false_eq_true, and_false, if_false]
    by_cases hp : spfx = []
    · subst hp
      simp only [ne_eq, not_true_eq_false, if_false]
      exact pushBodyH_eq _ rfl chunk
    · simp only [hp, ne_eq, not_false_eq_true, if_true]
      split
      · rfl
      · split
        · rfl
        · exact pushBodyH_eq _ rfl _

theorem generationEndH_st (h : H) (hb : h.buffering = false) : (generationEndH h).st = endLlm (cfgOf h) h.st := by
  unfold generationEndH endLlm
  by_cases hc : h.st.cur = []
  · simp [hc, procH, hb, process]
  · simp [hc, releaseH, release, procH, hb, process, cfgOf]

theorem generationEndH_fields (h : H) (hb : h.buffering = false) :
    (generationEndH h).pipeFrom = h.pipeFrom ∧ (generationEndH h).buffering = false := by
  unfold generationEndH
  by_cases hc : h.st.cur = [] <;> simp [hc, procH, hb, releaseH]

/-! #### tokens -/

theorem token_buffering (h : H) (hb : h.buffering = true) (hf : h.st.finished = false) {c : Str} (hc : c ≠ []) :
    execOp true h (Op.token c) =
      { h with buffer := h.buffer ++ c, topk := (h.topk || (decide (qualCount none (h.buffer ++ c) > h.k) && decide (h.k > 0))), firstToken := false } := by
  obtain ⟨⟨spfx, scur, scomp, sout, sfin⟩, sfx, stp, buf, bfr, k, topk, ft, pf, eb⟩ := h
  simp only at hb hf
  subst hb hf
  cases ft <;> simp [execOp, tokenH, hc, pushH, procH]

theorem tokens_buffering : ∀ (cs : List Str) (h : H), h.buffering = true → h.st.finished = false → (∀ c ∈ cs, c ≠ []) →
    ∃ t f, execOps true (cs.map Op.token) h = { h with buffer := h.buffer ++ cs.flatten, topk := t, firstToken := f }
  | [], h, _, _, _ => ⟨h.topk, h.firstToken, by simp [execOps]⟩
  | c :: cs, h, hb, hf, hne => by
    have hc : c ≠ [] := hne c (by simp)
    have e := token_buffering h hb hf hc
    obtain ⟨t', f', e'⟩ := tokens_buffering cs (execOp true h (Op.token c)) (by rw [e]; exact hb) (by rw [e]; exact hf)
      (fun c' hc' => hne c' (by simp [hc']))
    refine ⟨t', f', ?_⟩
    simp only [List.map_cons, execOps, List.foldl_cons] at e' ⊢
    rw [e', e]
    simp [List.append_assoc]

theorem token_streaming (h : H) (hb : h.buffering = false) {c : Str} (hc : c ≠ []) :
    execOp true h (Op.token c) = { h with st := push (cfgOf h) h.st (some c), firstToken := false } := by
  obtain ⟨st, sfx, stp, buf, bfr, k, topk, ft, pf, eb⟩ := h
  simp only at hb
  subst hb
  cases ft <;> simp [execOp, tokenH, hc, pushH_eq, cfgOf]

theorem tokens_streaming : ∀ (cs : List Str) (h : H), h.buffering = false → (∀ c ∈ cs, c ≠ []) →
    ∃ f, execOps true (cs.map Op.token) h = { h with st := feed (cfgOf h) h.st cs, firstToken := f }
  | [], h, _, _ => ⟨h.firstToken, by simp [execOps, feed]⟩
  | c :: cs, h, hb, hne => by
    have hc : c ≠ [] := hne c (by simp)
    have e := token_streaming h hb hc
    obtain ⟨f', e'⟩ := tokens_streaming cs (execOp true h (Op.token c)) (by rw [e]; exact hb)
      (fun c' hc' => hne c' (by simp [hc']))
    refine ⟨f', ?_⟩
    simp only [List.map_cons, execOps, List.foldl_cons] at e' ⊢
    rw [e', e]
    simp [feed, cfgOf]

/-! #### the whole single-call sequence -/

theorem execOps_append (fx : Bool) (xs ys : List Op) (h : H) : execOps fx (xs ++ ys) h = execOps fx ys (execOps fx xs h) := by
  simp [execOps, List.foldl_append]

/-- state after `enable_buffering(); wait_top_k_nonempty_lines(k)`, `a` tokens, [on_llm_end], the waiter resuming,
    `set_pattern`, `b` more tokens, [on_llm_end], `set_pipe_to`, `.stop = [...]` -/
def opsBefore (site : Site) (cs : List Str) (a b : Nat) (e2 e1 : Bool) : List Op :=
  [Op.enableBuf, Op.waitBegin site.k] ++ (cs.take a).map Op.token ++ (if e2 then [Op.llmEnd] else [])
    ++ [Op.waitResume, Op.setPattern site.pfx site.suffix] ++ ((cs.drop a).take b).map Op.token
    ++ (if e1 then [Op.llmEnd] else []) ++ [Op.setPipe] ++ [Op.setStop site.stop]

theorem usage_before_disable (site : Site) (cs : List Str) (a b : Nat) (e2 e1 : Bool) (r0 : Str)
    (hne : ∀ c ∈ cs, c ≠ []) (hsplit : dropTopK site.k none (cs.take a).flatten = some r0) :
    ∃ t f, execOps true (opsBefore site cs a b e2 e1) H0 =
      { st := { pfx := site.pfx, cur := [], completion := [], out := [], finished := false }, suffix := site.suffix,
        stop := site.stop, buffering := true, buffer := r0 ++ ((cs.drop a).take b).flatten, k := site.k, topk := t,
        firstToken := f, pipeFrom := some 0, endedBuf := e2 || e1 } := by
  have hne1 : ∀ c ∈ cs.take a, c ≠ [] := fun c hc => hne c (List.mem_of_mem_take hc)
  have hne2 : ∀ c ∈ (cs.drop a).take b, c ≠ [] := fun c hc => hne c (List.mem_of_mem_drop (List.mem_of_mem_take hc))
  simp only [opsBefore, execOps_append]
  have hA : execOps true [Op.enableBuf, Op.waitBegin site.k] H0 =
      ⟨⟨[], [], [], [], false⟩, [], [], true, [], site.k, false, true, none, false⟩ := rfl
  rw [hA]
  obtain ⟨t1, f1, e⟩ := tokens_buffering (cs.take a) ⟨⟨[], [], [], [], false⟩, [], [], true, [], site.k, false, true, none, false⟩ rfl rfl hne1
  rw [e]
  simp only [List.nil_append]
  have hB : ∀ (h : H) (e : Bool), h.buffering = true → execOps true (if e then [Op.llmEnd] else []) h = { h with endedBuf := h.endedBuf || e } := by
    intro h e hb
    cases e
    · cases h; simp [execOps]
    · simp [execOps, execOp, endLlmH, hb]
  rw [hB _ e2 rfl]
  have hC : ∀ (h : H), execOps true [Op.waitResume, Op.setPattern site.pfx site.suffix] h =
      { h with buffer := (dropTopK h.k none h.buffer).getD [], st := { h.st with pfx := site.pfx }, suffix := site.suffix } := by
    intro h; rfl
  rw [hC]
  simp only [hsplit, Option.getD_some]
  obtain ⟨t2, f2, e'⟩ := tokens_buffering ((cs.drop a).take b)
    ⟨⟨site.pfx, [], [], [], false⟩, site.suffix, [], true, r0, site.k, t1, f1, none, false || e2⟩ rfl rfl hne2
  rw [e']
  rw [hB _ e1 rfl]
  refine ⟨t2, f2, ?_⟩
  simp [execOps, execOp]

theorem usageOps_split (site : Site) (cs : List Str) (a b endPos : Nat) :
    usageOps true site cs a b endPos = opsBefore site cs a b (endPos == 2) (endPos == 1) ++ [Op.disableBuf]
      ++ (cs.drop (a + b)).map Op.token ++ (if endPos = 0 then [Op.llmEnd] else []) := by
  by_cases h2 : endPos = 2
  · subst h2; simp [usageOps, opsBefore, List.append_assoc]
  · by_cases h1 : endPos = 1
    · subst h1; simp [usageOps, opsBefore, List.append_assoc]
    · simp [usageOps, opsBefore, List.append_assoc, h1, h2]

/-- The single-call mode, repaired: whatever the chunking and the schedule, the inner handler ends in the state
    of ONE plain run of the pattern machine over the rest of the LLM text — first chunk = what was in the buffer
    when `disable_buffering()` was called, then the remaining tokens, then `on_llm_end`. -/
theorem usageRun_st (site : Site) (cs : List Str) (a b endPos : Nat) (r0 : Str)
    (hne : ∀ c ∈ cs, c ≠ [])
    (hend : endPos = 0 ∨ ((endPos = 1 ∨ endPos = 2) ∧ cs.drop (a + b) = []))
    (hsplit : dropTopK site.k none (cs.take a).flatten = some r0) :
    (usageRun true true site cs a b endPos).st =
        run site.cfg ((r0 ++ ((cs.drop a).take b).flatten) :: cs.drop (a + b)) .llmEnd ∧
      (usageRun true true site cs a b endPos).pipeFrom = some 0 := by
  have hne3 : ∀ c ∈ cs.drop (a + b), c ≠ [] := fun c hc => hne c (List.mem_of_mem_drop hc)
  obtain ⟨t, f, e⟩ := usage_before_disable site cs a b (endPos == 2) (endPos == 1) r0 hne hsplit
  unfold usageRun
  rw [usageOps_split]
  simp only [execOps_append]
  rw [e]
  generalize r0 ++ ((cs.drop a).take b).flatten = buf
  -- disable_buffering()
  have hpush := pushH_eq true
    ⟨⟨site.pfx, [], [], [], false⟩, site.suffix, site.stop, false, buf, site.k, t, f, some 0, (endPos == 2) || (endPos == 1)⟩ rfl (some buf)
  rcases hend with h0 | ⟨h12, hnil⟩
  · subst h0
    have hD : execOps true [Op.disableBuf]
        ⟨⟨site.pfx, [], [], [], false⟩, site.suffix, site.stop, true, buf, site.k, t, f, some 0, (0 == 2) || (0 == 1)⟩ =
        ⟨push site.cfg (init site.cfg) (some buf), site.suffix, site.stop, false, [], site.k, t, f, some 0, false⟩ := by
      simp only [execOps, List.foldl_cons, List.foldl_nil, execOp, disableBufferingH]
      rw [hpush]
      simp [cfgOf, Site.cfg, init]
      rfl
    rw [hD]
    obtain ⟨f', e'⟩ := tokens_streaming (cs.drop (a + b))
      ⟨push site.cfg (init site.cfg) (some buf), site.suffix, site.stop, false, [], site.k, t, f, some 0, false⟩ rfl hne3
    rw [e']
    simp only [if_true, execOps, List.foldl_cons, List.foldl_nil, execOp, endLlmH, Bool.false_eq_true, and_false, if_false]
    constructor
    · rw [generationEndH_st _ rfl]
      simp only [run, finish, feed, List.foldl_cons]
      rfl
    · exact (generationEndH_fields _ rfl).1
  · have hD : execOps true [Op.disableBuf]
        ⟨⟨site.pfx, [], [], [], false⟩, site.suffix, site.stop, true, buf, site.k, t, f, some 0, (endPos == 2) || (endPos == 1)⟩ =
        generationEndH ⟨push site.cfg (init site.cfg) (some buf), site.suffix, site.stop, false, [], site.k, t, f, some 0, false⟩ := by
      have hb : ((endPos == 2) || (endPos == 1)) = true := by rcases h12 with h | h <;> simp [h]
      simp only [execOps, List.foldl_cons, List.foldl_nil, execOp, disableBufferingH]
      rw [hpush]
      simp [cfgOf, Site.cfg, init, hb]
      rfl
    have hne0 : ¬ endPos = 0 := by rcases h12 with h | h <;> omega
    rw [hD, hnil]
    simp only [List.map_nil, execOps, List.foldl_nil, hne0, if_false]
    constructor
    · rw [generationEndH_st _ rfl]
      simp only [run, finish, feed, List.foldl_cons, List.foldl_nil]
      rfl
    · exact (generationEndH_fields _ rfl).1

theorem endLlm_finished (cfg : Cfg) (s : St) : (endLlm cfg s).finished = true := by
  unfold endLlm
  generalize (if s.cur ≠ [] then release cfg s (removeSuffixAtEnd cfg s.completion s.cur) else s) = s1
  show (processStr cfg s1 []).finished = true
  rcases processStr_cases cfg s1 [] with ⟨h, _⟩ | ⟨_, _, h⟩
  · exact h
  · rw [h]; simp

/-- the direct mode of generate_bot_message is one plain run; the utterance pushed again afterwards is ignored -/
theorem directRun_st (site : Site) (cs : List Str) (again : Str) (hne : ∀ c ∈ cs, c ≠ []) :
    (execOps true (directOps site cs again) H0).st = run ⟨site.pfx, site.suffix, []⟩ cs .llmEnd := by
  unfold directOps
  simp only [execOps_append]
  have hP : execOps true [Op.setPattern site.pfx site.suffix] H0 =
      ⟨⟨site.pfx, [], [], [], false⟩, site.suffix, [], false, [], 0, false, true, none, false⟩ := rfl
  rw [hP]
  obtain ⟨f, e⟩ := tokens_streaming cs ⟨⟨site.pfx, [], [], [], false⟩, site.suffix, [], false, [], 0, false, true, none, false⟩ rfl hne
  rw [e]
  simp only [execOps, List.foldl_cons, List.foldl_nil, execOp, endLlmH, Bool.false_eq_true, and_false, if_false]
  have hfin : (generationEndH ⟨feed (cfgOf ⟨⟨site.pfx, [], [], [], false⟩, site.suffix, [], false, [], 0, false, true, none, false⟩)
      ⟨site.pfx, [], [], [], false⟩ cs, site.suffix, [], false, [], 0, false, f, none, false⟩).st.finished = true := by
    rw [generationEndH_st _ rfl]; exact endLlm_finished _ _
  simp only [pushH, hfin, if_true]
  rw [generationEndH_st _ rfl]
  rfl

end NemoVerif.StreamUsage
