/-
  C07 (T2') — composition: PHASE 1 of `GroupVM` on an and-clause of ARBITRARY size is what CoreVM does.

  `GroupVM.p1Members e need [] ms` (Models/GroupVM.lean) advances, left to right, every member head of one and-clause that waits on
  `match e`; a member passes the `WaitForHeads` element iff `countWait … + 1 ≥ need`.  Here the same is proved of CoreVM
  (Models/CoreVM, the whole-interpreter model): advancing the matching member heads one after the other with
  `advanceMember` (= `head.position += 1; slide`, the first thing `_advance_head_front` does with an ACTIVE head) turns the
  heads of the flow instance — seen as (uid, position, status) — from `others ++ renderU wp us ms` into
  `others ++ renderU wp us (p1Members e need [] ms)`, for every clause size, every `need`, every program that has the
  and-template's elements at the positions involved (`ClauseShape`, `MembersShape`).  Nothing outside the index component changes.

  Not covered here (tied by execution on every run: real interpreter = GroupVM = CoreVM at head level): the fork segment
  (`ForkHead` creating the member heads), the merge segment (`MergeHeads` on a MERGING head: candidates, `random.choice`,
  deletion of the losers), and the event loop around them (`runToCompletion`: matching heads through the index, the
  merging loop).
-/
import NemoVerif.Lemmas.GroupCoreVM
import NemoVerif.Models.GroupVM
set_option linter.unusedSimpArgs false
namespace NemoVerif.CoreVM
open NemoVerif NemoVerif.CoreIndex
open NemoVerif.GroupVM (MLoc countWait p1Members)

/-- where a member head is, as (position, status): `mp` = its match element, `wp` = the `WaitForHeads` element -/
def mlocCore (mp wp : Nat) : MLoc → Nat × HeadStatus
  | .atMatch => (mp, .active)
  | .atWait => (wp, .active)
  | .merging => (wp + 1, .merging)
  | .lost => (wp + 1, .inactive)

/-- the member heads of one and-clause: `us` = (uid, position of its match element) per member -/
def renderU (wp : Nat) (us : List (HUid × Nat)) (ms : List (Nat × MLoc)) : List HCore :=
  List.zipWith (fun u m => (u.1, mlocCore u.2 wp m.2)) us ms

/-- the uids of the members that wait on `match e` -/
def matchingU (e : Nat) : List (HUid × Nat) → List (Nat × MLoc) → List HUid
  | u :: us, (a, .atMatch) :: ms => if a == e then u.1 :: matchingU e us ms else matchingU e us ms
  | _ :: us, _ :: ms => matchingU e us ms
  | _, _ => []

/-- advance the given heads one after the other -/
def runMembers (fuel : Nat) (f : FUid) : List HUid → M Unit
  | [] => pure ()
  | h :: hs => do
    let _ ← advanceMember fuel f h
    runMembers fuel f hs

/-- every member's `match` is followed by `goto l` and lies before the end label -/
def MembersShape (cfg : FlowCfg) (l : String) (pe : Nat) (us : List (HUid × Nat)) : Prop :=
  ∀ u ∈ us, cfg.elements[u.2 + 1]! = .goto (.lit (.bool true)) l ∧ u.2 + 1 < pe + 1

def liveAt (q : Nat) (t : HCore) : Bool := t.2.2 ≠ .inactive && t.2.1 = q

theorem countWait_append (a b : List (Nat × MLoc)) : countWait (a ++ b) = countWait a + countWait b := by
  simp [countWait, List.filter_append]

/-- the heads of the clause that are parked on the wait element are GroupVM's `atWait` members -/
theorem count_renderU (wp : Nat) : ∀ (us : List (HUid × Nat)) (ms : List (Nat × MLoc)),
    (∀ u ∈ us, u.2 ≠ wp) → ((renderU wp us ms).filter (liveAt wp)).length = countWait (ms.take us.length) := by
  intro us
  induction us with
  | nil => intro ms _; simp [renderU, countWait]
  | cons u us ih =>
    intro ms hne
    cases ms with
    | nil => simp [renderU, countWait]
    | cons m ms =>
      have hu : u.2 ≠ wp := hne u (by simp)
      have ih' := ih ms (fun v hv => hne v (by simp [hv]))
      simp only [renderU, List.zipWith_cons_cons, List.length_cons, List.take_succ_cons] at ih' ⊢
      obtain ⟨a, loc⟩ := m
      cases loc <;>
        simp [liveAt, mlocCore, countWait, List.filter_cons, hu] at ih' ⊢ <;> omega

theorem map_setCore_of_not_mem (h : HUid) (q : Nat) (st : HeadStatus) (l : List HCore) (hn : h ∉ l.map (·.1)) :
    l.map (setCore h q st) = l := by
  induction l with
  | nil => rfl
  | cons t l ih =>
    have h1 : t.1 ≠ h := fun e => hn (by simp [e])
    have h2 : h ∉ l.map (·.1) := fun e => hn (by simp only [List.map_cons, List.mem_cons]; exact Or.inr e)
    simp only [List.map_cons, ih h2, setCore, h1, if_false]

theorem renderU_fst (wp : Nat) : ∀ (us : List (HUid × Nat)) (ms : List (Nat × MLoc)), us.length = ms.length →
    (renderU wp us ms).map (·.1) = us.map (·.1) := by
  intro us
  induction us with
  | nil => intro ms _; simp [renderU]
  | cons u us ih =>
    intro ms hl
    cases ms with
    | nil => simp at hl
    | cons m ms =>
      have := ih ms (by simpa using hl)
      simp only [renderU, List.zipWith_cons_cons, List.map_cons] at this ⊢
      rw [this]

theorem renderU_append (wp : Nat) (us1 us2 : List (HUid × Nat)) (ms1 ms2 : List (Nat × MLoc)) (hl : us1.length = ms1.length) :
    renderU wp (us1 ++ us2) (ms1 ++ ms2) = renderU wp us1 ms1 ++ renderU wp us2 ms2 := by
  simp only [renderU]
  exact List.zipWith_append hl

/-- rewriting the entry of member `u` = changing that member's location -/
theorem map_setCore_render (wp : Nat) (others : List HCore) (usPre ur : List (HUid × Nat)) (u : HUid × Nat)
    (pre r : List (Nat × MLoc)) (m : Nat × MLoc) (loc' : MLoc)
    (hl : usPre.length = pre.length) (hlr : ur.length = r.length)
    (ho : u.1 ∉ others.map (·.1)) (hp : u.1 ∉ usPre.map (·.1)) (hr : u.1 ∉ ur.map (·.1)) :
    (others ++ renderU wp (usPre ++ u :: ur) (pre ++ m :: r)).map
        (setCore u.1 (mlocCore u.2 wp loc').1 (mlocCore u.2 wp loc').2)
      = others ++ renderU wp (usPre ++ u :: ur) (pre ++ (m.1, loc') :: r) := by
  rw [renderU_append wp usPre (u :: ur) pre (m :: r) hl, renderU_append wp usPre (u :: ur) pre ((m.1, loc') :: r) hl]
  simp only [List.map_append]
  rw [map_setCore_of_not_mem _ _ _ others ho,
    map_setCore_of_not_mem _ _ _ (renderU wp usPre pre) (by rw [renderU_fst wp usPre pre hl]; exact hp)]
  congr 2
  simp only [renderU, List.zipWith_cons_cons, List.map_cons, setCore, if_true]
  congr 1
  have := map_setCore_of_not_mem u.1 (mlocCore u.2 wp loc').1 (mlocCore u.2 wp loc').2 (renderU wp ur r)
    (by rw [renderU_fst wp ur r hlr]; exact hr)
  simpa only [renderU] using this

/-- with unique uids an entry of the view determines the head -/
theorem findHead_of_mem_hview (i : Inst) (hnd : ((hview i).map (·.1)).Nodup) (u : HUid) (p : Nat) (st : HeadStatus)
    (hmem : (u, p, st) ∈ hview i) : ∃ hd, i.findHead u = some hd ∧ hd.pos = p ∧ hd.status = st := by
  simp only [hview, List.mem_map] at hmem
  obtain ⟨hd0, hm0, he0⟩ := hmem
  have hu0 : hd0.uid = u := by cases he0; rfl
  cases hf : i.findHead u with
  | none =>
    unfold Inst.findHead at hf
    have := List.find?_eq_none.1 hf hd0 hm0
    simp [hu0] at this
  | some hd =>
    refine ⟨hd, rfl, ?_⟩
    have hm : hd ∈ i.heads := List.mem_of_find?_eq_some hf
    have hu := findHead_uid hf
    have h1 : (hd.uid, hd.pos, hd.status) ∈ hview i := by simp only [hview, List.mem_map]; exact ⟨hd, hm, rfl⟩
    have h2 : (hd0.uid, hd0.pos, hd0.status) ∈ hview i := by simp only [hview, List.mem_map]; exact ⟨hd0, hm0, rfl⟩
    have := eq_of_mem_of_nodup_map (fun (t : HCore) => t.1) (hview i) hnd _ h1 _ h2 (by simp [hu, hu0])
    cases he0
    simp only [Prod.mk.injEq] at this
    exact ⟨this.2.1, this.2.2⟩

theorem append_cons_assoc {α : Type} (a : List α) (x : α) (b : List α) : a ++ x :: b = (a ++ [x]) ++ b := by simp

theorem runMembers_cons (fuel : Nat) (f : FUid) (h : HUid) (hs : List HUid) (s s1 : VM) (r : List Key)
    (h1 : advanceMember fuel f h s = .ok r s1) : runMembers fuel f (h :: hs) s = runMembers fuel f hs s1 := by
  simp only [runMembers, bind, EStateM.bind, h1]

/-- invariant form: the members `pre` have been handled, `rest` are still to be visited -/
theorem and_clause_phase1_aux (fuel : Nat) (f : FUid) (x : InstX) (cfg : FlowCfg) (l mu : String) (pe n e : Nat)
    (others : List HCore) (hown : x.ctxOwner = none) (C : ClauseShape cfg l mu pe n)
    (hoth : others.filter (liveAt (pe + 1)) = []) :
    ∀ (rest : List (Nat × MLoc)) (ur : List (HUid × Nat)) (pre : List (Nat × MLoc)) (usPre : List (HUid × Nat)) (s : VM) (i : Inst),
      ur.length = rest.length → usPre.length = pre.length →
      MembersShape cfg l pe (usPre ++ ur) →
      (others.map (·.1) ++ (usPre ++ ur).map (·.1)).Nodup →
      FlowAt s f i x cfg → hview i = others ++ renderU (pe + 1) (usPre ++ ur) (pre ++ rest) →
      ∃ s' i', runMembers (fuel + 3) f (matchingU e ur rest) s = .ok () s' ∧ FlowAt s' f i' x cfg ∧ s'.r = s.r ∧
        hview i' = others ++ renderU (pe + 1) (usPre ++ ur) (p1Members e n pre rest) := by
  intro rest
  induction rest with
  | nil =>
    intro ur pre usPre s i hlr hlp _ _ F hv
    have : ur = [] := List.eq_nil_of_length_eq_zero (by simpa using hlr)
    subst this
    refine ⟨s, i, ?_, F, rfl, ?_⟩
    · simp [matchingU, runMembers, pure, EStateM.pure]
    · simpa [p1Members] using hv
  | cons m r ih =>
    intro ur pre usPre s i hlr hlp hshape hnd F hv
    cases ur with
    | nil => simp at hlr
    | cons u ur' =>
      have hlr' : ur'.length = r.length := by simpa using hlr
      obtain ⟨a, loc⟩ := m
      -- the generic "not advanced" step: the member is passed over on both sides
      have skip : (matchingU e (u :: ur') ((a, loc) :: r) = matchingU e ur' r) →
          (p1Members e n pre ((a, loc) :: r) = p1Members e n (pre ++ [(a, loc)]) r) →
          ∃ s' i', runMembers (fuel + 3) f (matchingU e (u :: ur') ((a, loc) :: r)) s = .ok () s' ∧ FlowAt s' f i' x cfg ∧ s'.r = s.r ∧
            hview i' = others ++ renderU (pe + 1) (usPre ++ u :: ur') (p1Members e n pre ((a, loc) :: r)) := by
        intro hm hp
        rw [hm, hp, append_cons_assoc usPre u ur']
        apply ih ur' (pre ++ [(a, loc)]) (usPre ++ [u]) s i hlr' (by simp [hlp])
        · rw [← append_cons_assoc]; exact hshape
        · rw [← append_cons_assoc]; exact hnd
        · exact F
        · rw [← append_cons_assoc, ← append_cons_assoc]; exact hv
      by_cases hmatch : loc = MLoc.atMatch ∧ (a == e) = true
      · obtain ⟨hloc, hae⟩ := hmatch
        subst hloc
        -- the head of member `u`
        have hshape_u := hshape u (by simp)
        have hndv : ((hview i).map (·.1)).Nodup := by
          rw [hv, List.map_append, renderU_fst _ _ _ (by simp [hlp, hlr'])]; exact hnd
        have hmem : (u.1, u.2, HeadStatus.active) ∈ hview i := by
          rw [hv, renderU_append _ _ _ _ _ hlp]
          simp [renderU, mlocCore]
        obtain ⟨hd, hfh, hpos, hstat⟩ := findHead_of_mem_hview i hndv u.1 u.2 .active hmem
        have hsz := C.hsize
        have H : HeadAt s f u.1 i x cfg hd :=
          { hi := F.hi, hx := F.hx, hc := F.hc, hh := hfh, hlt := by rw [hpos]; omega, hst := by rw [hstat]; decide }
        obtain ⟨s1, i1, hadv, F1, hr1, hv1, _⟩ := advanceMember_spec fuel s f u.1 i x cfg hd l mu pe n H hown hstat C
          (by rw [hpos]; exact hshape_u.1) (by rw [hpos]; exact hshape_u.2) hndv
        -- the count of parked heads is GroupVM's
        have hcount : ((hview i).filter fun t => t.2.2 ≠ .inactive && t.2.1 = pe + 1).length = countWait pre + countWait r := by
          have hne : ∀ v ∈ usPre ++ u :: ur', v.2 ≠ pe + 1 := fun v hvm => by have := (hshape v hvm).2; omega
          have := count_renderU (pe + 1) (usPre ++ u :: ur') (pre ++ (a, MLoc.atMatch) :: r) hne
          rw [show (fun (t : HCore) => decide (t.2.2 ≠ HeadStatus.inactive) && decide (t.2.1 = pe + 1)) = liveAt (pe + 1) from rfl,
            hv, List.filter_append, hoth, List.nil_append, this]
          rw [List.take_of_length_le (by simp [hlp, hlr'])]
          simp [countWait_append, countWait, List.filter_cons]
        rw [hcount] at hv1
        -- GroupVM's step on this member
        have hp : p1Members e n pre ((a, MLoc.atMatch) :: r)
            = p1Members e n (pre ++ [(a, if countWait pre + countWait r + 1 ≥ n then MLoc.merging else MLoc.atWait)]) r := by
          simp only [p1Members, hae, if_true]
        have hm : matchingU e (u :: ur') ((a, MLoc.atMatch) :: r) = u.1 :: matchingU e ur' r := by
          simp only [matchingU, hae, if_true]
        rw [hm, hp, runMembers_cons _ _ _ _ _ _ _ hadv, append_cons_assoc usPre u ur']
        have hv1' : hview i1 = others ++ renderU (pe + 1) (usPre ++ u :: ur')
            (pre ++ (a, if countWait pre + countWait r + 1 ≥ n then MLoc.merging else MLoc.atWait) :: r) := by
          have hnd' := hnd
          rw [List.map_append, List.map_cons] at hnd'
          have ho : u.1 ∉ others.map (·.1) := by
            intro hmem'
            have := (List.nodup_append.1 hnd').2.2 u.1 hmem' u.1 (by simp)
            exact this rfl
          have hnd2 := (List.nodup_append.1 hnd').2.1
          have hpre : u.1 ∉ usPre.map (·.1) := by
            intro hmem'
            have := (List.nodup_append.1 hnd2).2.2 u.1 hmem' u.1 (by simp)
            exact this rfl
          have hur : u.1 ∉ ur'.map (·.1) := (List.nodup_cons.1 (List.nodup_append.1 hnd2).2.1).1
          rw [hv1, hv]
          by_cases hc : countWait pre + countWait r + 1 ≥ n
          · rw [if_pos hc, if_pos hc]
            exact map_setCore_render (pe + 1) others usPre ur' u pre r (a, MLoc.atMatch) MLoc.merging hlp hlr' ho hpre hur
          · rw [if_neg hc, if_neg hc]
            exact map_setCore_render (pe + 1) others usPre ur' u pre r (a, MLoc.atMatch) MLoc.atWait hlp hlr' ho hpre hur
        obtain ⟨s', i', hrun, F', hr', hv'⟩ := ih ur' (pre ++ [(a, if countWait pre + countWait r + 1 ≥ n then MLoc.merging else MLoc.atWait)])
          (usPre ++ [u]) s1 i1 hlr' (by simp [hlp])
          (by rw [← append_cons_assoc]; exact hshape) (by rw [← append_cons_assoc]; exact hnd) F1
          (by rw [← append_cons_assoc, ← append_cons_assoc]; exact hv1')
        exact ⟨s', i', hrun, F', by rw [hr', hr1], hv'⟩
      · apply skip
        · cases loc with
          | atMatch =>
            have : (a == e) = false := by
              cases h : (a == e) with
              | false => rfl
              | true => exact absurd ⟨rfl, h⟩ hmatch
            simp only [matchingU, this, Bool.false_eq_true, if_false]
          | atWait => simp only [matchingU]
          | merging => simp only [matchingU]
          | lost => simp only [matchingU]
        · cases loc with
          | atMatch =>
            have : (a == e) = false := by
              cases h : (a == e) with
              | false => rfl
              | true => exact absurd ⟨rfl, h⟩ hmatch
            simp only [p1Members, this, Bool.false_eq_true, if_false]
          | atWait => simp only [p1Members]
          | merging => simp only [p1Members]
          | lost => simp only [p1Members]

/-- **PHASE 1 of an and-clause at CoreVM level, any size.**  The flow instance's heads are `others` (e.g. the forking root head,
    none of them parked on the wait element) followed by the member heads of the clause as `GroupVM` sees them (`ms`).
    Advancing, in order, the member heads that wait on `match e` (CoreVM: `head.position += 1; slide`) yields exactly the
    member states `GroupVM.p1Members e n [] ms`; the other heads and everything outside the index component are unchanged. -/
theorem and_clause_phase1 (fuel : Nat) (s : VM) (f : FUid) (i : Inst) (x : InstX) (cfg : FlowCfg) (l mu : String) (pe n e : Nat)
    (others : List HCore) (us : List (HUid × Nat)) (ms : List (Nat × MLoc))
    (F : FlowAt s f i x cfg) (hown : x.ctxOwner = none) (C : ClauseShape cfg l mu pe n) (S : MembersShape cfg l pe us)
    (hlen : us.length = ms.length) (hnd : (others.map (·.1) ++ us.map (·.1)).Nodup)
    (hoth : others.filter (liveAt (pe + 1)) = [])
    (hv : hview i = others ++ renderU (pe + 1) us ms) :
    ∃ s' i', runMembers (fuel + 3) f (matchingU e us ms) s = .ok () s' ∧ FlowAt s' f i' x cfg ∧ s'.r = s.r ∧
      hview i' = others ++ renderU (pe + 1) us (p1Members e n [] ms) := by
  have := and_clause_phase1_aux fuel f x cfg l mu pe n e others hown C hoth ms us [] [] s i hlen rfl
    (by simpa using S) (by simpa using hnd) F (by simpa using hv)
  simpa using this

/-! ### or-group whose clauses are single atoms (any number of them) -/

open NemoVerif.GroupVM (Br p1Brs) in
/-- where a branch head is: `mp` = its match element, `mg` = the or-level `MergeHeads` -/
def brCore (mp mg : Nat) : Br → Nat × HeadStatus
  | .single _ => (mp, .active)
  | .merging => (mg, .merging)
  | .lost => (mg, .inactive)
  | .multi _ _ => (mp, .inactive)

open NemoVerif.GroupVM (Br) in
def renderB (mg : Nat) (us : List (HUid × Nat)) (brs : List Br) : List HCore :=
  List.zipWith (fun u b => (u.1, brCore u.2 mg b)) us brs

open NemoVerif.GroupVM (Br) in
def matchingB (e : Nat) : List (HUid × Nat) → List Br → List HUid
  | u :: us, .single a :: bs => if a == e then u.1 :: matchingB e us bs else matchingB e us bs
  | _ :: us, _ :: bs => matchingB e us bs
  | _, _ => []

open NemoVerif.GroupVM (Br) in
def noMulti : List Br → Bool
  | [] => true
  | .multi _ _ :: _ => false
  | _ :: bs => noMulti bs

/-- where the end of the or-template is: `label l` at `pe`, then `MergeHeads u` -/
structure OrShape (cfg : FlowCfg) (l u : String) (pe : Nat) : Prop where
  hl : cfg.label l = some pe
  hsize : pe + 1 < cfg.elements.size
  hm : cfg.elements[pe + 1]! = .merge u

/-- one branch head of an or-group (clause = one atom): it ends MERGING on the or-level `MergeHeads`; only its entry changes -/
theorem advanceBranch_spec (fuel : Nat) (s : VM) (f : FUid) (h : HUid) (i : Inst) (x : InstX) (cfg : FlowCfg) (hd : Head)
    (l u : String) (pe : Nat)
    (H : HeadAt s f h i x cfg hd) (hown : x.ctxOwner = none) (hact : hd.status = .active)
    (C : OrShape cfg l u pe)
    (hgoto : cfg.elements[hd.pos + 1]! = .goto (.lit (.bool true)) l) (hlt : hd.pos + 1 < pe + 1) :
    ∃ s' i', advanceMember (fuel + 2) f h s = .ok [] s' ∧ FlowAt s' f i' x cfg ∧ s'.r = s.r ∧
      hview i' = (hview i).map (setCore h (pe + 1) .merging) ∧ i'.status = i.status := by
  have hsz := C.hsize
  have hnm0 : NotMatchAt cfg (hd.pos + 1) := notMatchAt_of cfg (hd.pos + 1) _ (by omega) hgoto rfl
  obtain ⟨hg0, h0⟩ := setHeadPos_ok s f h i x cfg hd (hd.pos + 1) H.toFlowAt H.hh (by omega) hnm0
  have H0 := headAt_setPos s f h i x cfg hd (hd.pos + 1) H (by omega) (by omega) hg0
  obtain ⟨hg1, hg2, hsl⟩ := branch_segment_merges fuel _ f h _ x cfg _ l u pe H0 hown hact hgoto C.hl C.hsize C.hm (by simp; omega)
  have H1 := headAt_setPos _ f h _ x cfg _ (pe + 1) H0 (by simp; omega) C.hsize hg1
  have H2 := headAt_setStatus _ f h _ x cfg _ .merging H1 (by simp [hact]) (by decide) hg2
  refine ⟨_, _, ?_, H2.toFlowAt, rfl, ?_, rfl⟩
  · simp only [advanceMember, bind, EStateM.bind, getHead?, getIx, get, getThe, MonadStateOf.get, EStateM.get, pure, EStateM.pure,
      H.hi, Option.bind, H.hh, h0, hsl]
  · rw [hview_setStatus, hview_setPos, hview_setPos]
    simp only [List.map_map]
    apply List.map_congr_left
    intro t _
    simp only [Function.comp, setPosCore, setStCore, setCore]
    split <;> simp_all

open NemoVerif.GroupVM (Br p1Brs p1Br) in
theorem renderB_fst (mg : Nat) : ∀ (us : List (HUid × Nat)) (bs : List Br), us.length = bs.length →
    (renderB mg us bs).map (·.1) = us.map (·.1) := by
  intro us
  induction us with
  | nil => intro bs _; simp [renderB]
  | cons u us ih =>
    intro bs hl
    cases bs with
    | nil => simp at hl
    | cons b bs =>
      have := ih bs (by simpa using hl)
      simp only [renderB, List.zipWith_cons_cons, List.map_cons] at this ⊢
      rw [this]

open NemoVerif.GroupVM (Br) in
theorem renderB_append (mg : Nat) (us1 us2 : List (HUid × Nat)) (b1 b2 : List Br) (hl : us1.length = b1.length) :
    renderB mg (us1 ++ us2) (b1 ++ b2) = renderB mg us1 b1 ++ renderB mg us2 b2 := by
  simp only [renderB]
  exact List.zipWith_append hl

open NemoVerif.GroupVM (Br p1Brs p1Br) in
/-- invariant form for the branches of an or-group -/
theorem or_group_phase1_aux (fuel : Nat) (f : FUid) (x : InstX) (cfg : FlowCfg) (l mu : String) (pe e : Nat)
    (others : List HCore) (hown : x.ctxOwner = none) (C : OrShape cfg l mu pe) :
    ∀ (rest : List Br) (ur : List (HUid × Nat)) (pre : List Br) (usPre : List (HUid × Nat)) (k : Nat) (s : VM) (i : Inst),
      ur.length = rest.length → usPre.length = pre.length → noMulti rest = true →
      MembersShape cfg l pe (usPre ++ ur) →
      (others.map (·.1) ++ (usPre ++ ur).map (·.1)).Nodup →
      FlowAt s f i x cfg → hview i = others ++ renderB (pe + 1) (usPre ++ ur) (pre ++ rest) →
      ∃ s' i', runMembers (fuel + 2) f (matchingB e ur rest) s = .ok () s' ∧ FlowAt s' f i' x cfg ∧ s'.r = s.r ∧
        hview i' = others ++ renderB (pe + 1) (usPre ++ ur) (pre ++ (p1Brs e k rest).1) ∧ i'.status = i.status := by
  intro rest
  induction rest with
  | nil =>
    intro ur pre usPre k s i hlr hlp _ _ _ F hv
    have : ur = [] := List.eq_nil_of_length_eq_zero (by simpa using hlr)
    subst this
    refine ⟨s, i, ?_, F, rfl, ?_, rfl⟩
    · simp [matchingB, runMembers, pure, EStateM.pure]
    · simpa [p1Brs] using hv
  | cons b r ih =>
    intro ur pre usPre k s i hlr hlp hnm hshape hnd F hv
    cases ur with
    | nil => simp at hlr
    | cons u ur' =>
      have hlr' : ur'.length = r.length := by simpa using hlr
      have skip : ∀ b' : Br, (matchingB e (u :: ur') (b :: r) = matchingB e ur' r) → ((p1Br e k b).1 = b') → b' = b → noMulti r = true →
          ∃ s' i', runMembers (fuel + 2) f (matchingB e (u :: ur') (b :: r)) s = .ok () s' ∧ FlowAt s' f i' x cfg ∧ s'.r = s.r ∧
            hview i' = others ++ renderB (pe + 1) (usPre ++ u :: ur') (pre ++ (p1Brs e k (b :: r)).1) ∧ i'.status = i.status := by
        intro b' hm hp hb hnr
        subst hb
        obtain ⟨s', i', hrun, F', hr', hv', hst'⟩ := ih ur' (pre ++ [b']) (usPre ++ [u]) (k + 1) s i hlr' (by simp [hlp]) hnr
          (by rw [← append_cons_assoc]; exact hshape) (by rw [← append_cons_assoc]; exact hnd) F
          (by rw [← append_cons_assoc, ← append_cons_assoc]; exact hv)
        refine ⟨s', i', by rw [hm]; exact hrun, F', hr', ?_, hst'⟩
        rw [hv']
        simp only [p1Brs, hp, List.append_assoc, List.singleton_append]
      cases b with
      | multi ms need => simp [noMulti] at hnm
      | merging => exact skip _ (by simp only [matchingB]) (by simp only [p1Br]) rfl (by simpa [noMulti] using hnm)
      | lost => exact skip _ (by simp only [matchingB]) (by simp only [p1Br]) rfl (by simpa [noMulti] using hnm)
      | single a =>
        have hnr : noMulti r = true := by simpa [noMulti] using hnm
        by_cases hae : (a == e) = true
        · have hshape_u := hshape u (by simp)
          have hndv : ((hview i).map (·.1)).Nodup := by
            rw [hv, List.map_append, renderB_fst _ _ _ (by simp [hlp, hlr'])]; exact hnd
          have hmem : (u.1, u.2, HeadStatus.active) ∈ hview i := by
            rw [hv, renderB_append _ _ _ _ _ hlp]
            simp [renderB, brCore]
          obtain ⟨hd, hfh, hpos, hstat⟩ := findHead_of_mem_hview i hndv u.1 u.2 .active hmem
          have hsz := C.hsize
          have H : HeadAt s f u.1 i x cfg hd :=
            { hi := F.hi, hx := F.hx, hc := F.hc, hh := hfh, hlt := by rw [hpos]; omega, hst := by rw [hstat]; decide }
          obtain ⟨s1, i1, hadv, F1, hr1, hv1, hst1⟩ := advanceBranch_spec fuel s f u.1 i x cfg hd l mu pe H hown hstat C
            (by rw [hpos]; exact hshape_u.1) (by rw [hpos]; exact hshape_u.2)
          have hm : matchingB e (u :: ur') (Br.single a :: r) = u.1 :: matchingB e ur' r := by
            simp only [matchingB, hae, if_true]
          have hp : (p1Br e k (Br.single a)).1 = Br.merging := by simp only [p1Br, hae, if_true]
          have hv1' : hview i1 = others ++ renderB (pe + 1) (usPre ++ u :: ur') (pre ++ Br.merging :: r) := by
            have hnd' := hnd
            rw [List.map_append, List.map_cons] at hnd'
            have ho : u.1 ∉ others.map (·.1) := by
              intro hmem'
              exact (List.nodup_append.1 hnd').2.2 u.1 hmem' u.1 (by simp) rfl
            have hnd2 := (List.nodup_append.1 hnd').2.1
            have hpre : u.1 ∉ usPre.map (·.1) := by
              intro hmem'
              exact (List.nodup_append.1 hnd2).2.2 u.1 hmem' u.1 (by simp) rfl
            have hur : u.1 ∉ ur'.map (·.1) := (List.nodup_cons.1 (List.nodup_append.1 hnd2).2.1).1
            rw [hv1, hv, renderB_append _ usPre (u :: ur') pre (Br.single a :: r) hlp,
              renderB_append _ usPre (u :: ur') pre (Br.merging :: r) hlp]
            simp only [List.map_append]
            rw [map_setCore_of_not_mem _ _ _ others ho,
              map_setCore_of_not_mem _ _ _ (renderB (pe + 1) usPre pre) (by rw [renderB_fst _ usPre pre hlp]; exact hpre)]
            congr 2
            simp only [renderB, List.zipWith_cons_cons, List.map_cons, setCore, if_true]
            have := map_setCore_of_not_mem u.1 (pe + 1) HeadStatus.merging (renderB (pe + 1) ur' r)
              (by rw [renderB_fst _ ur' r hlr']; exact hur)
            simp only [renderB] at this
            rw [this]
            rfl
          obtain ⟨s', i', hrun, F', hr', hv', hst'⟩ := ih ur' (pre ++ [Br.merging]) (usPre ++ [u]) (k + 1) s1 i1 hlr' (by simp [hlp]) hnr
            (by rw [← append_cons_assoc]; exact hshape) (by rw [← append_cons_assoc]; exact hnd) F1
            (by rw [← append_cons_assoc, ← append_cons_assoc]; exact hv1')
          refine ⟨s', i', by rw [hm, runMembers_cons _ _ _ _ _ _ _ hadv]; exact hrun, F', by rw [hr', hr1], ?_, by rw [hst', hst1]⟩
          rw [hv']
          simp only [p1Brs, hp, List.append_assoc, List.singleton_append]
        · have hae' : (a == e) = false := by simpa using hae
          exact skip _ (by simp only [matchingB, hae', Bool.false_eq_true, if_false])
            (by simp only [p1Br, hae', Bool.false_eq_true, if_false]) rfl hnr

open NemoVerif.GroupVM (Br p1Brs) in
/-- **PHASE 1 of an or-group of single atoms at CoreVM level, any number of branches.**  The branch heads that wait on
    `match e` are advanced in order (`head.position += 1; slide`: `goto end → MergeHeads`, ACTIVE → MERGING); the heads of the
    instance then are exactly `GroupVM.p1Brs e 0 brs`. -/
theorem or_group_phase1 (fuel : Nat) (s : VM) (f : FUid) (i : Inst) (x : InstX) (cfg : FlowCfg) (l mu : String) (pe e : Nat)
    (others : List HCore) (us : List (HUid × Nat)) (brs : List Br)
    (F : FlowAt s f i x cfg) (hown : x.ctxOwner = none) (C : OrShape cfg l mu pe) (S : MembersShape cfg l pe us)
    (hlen : us.length = brs.length) (hnm : noMulti brs = true) (hnd : (others.map (·.1) ++ us.map (·.1)).Nodup)
    (hv : hview i = others ++ renderB (pe + 1) us brs) :
    ∃ s' i', runMembers (fuel + 2) f (matchingB e us brs) s = .ok () s' ∧ FlowAt s' f i' x cfg ∧ s'.r = s.r ∧
      hview i' = others ++ renderB (pe + 1) us (p1Brs e 0 brs).1 ∧ i'.status = i.status := by
  have := or_group_phase1_aux fuel f x cfg l mu pe e others hown C brs us [] [] 0 s i hlen rfl hnm
    (by simpa using S) (by simpa using hnd) F (by simpa using hv)
  simpa using this

end NemoVerif.CoreVM
