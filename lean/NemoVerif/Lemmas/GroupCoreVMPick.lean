/-
  C07 (T2') — `MergeHeads` with SEVERAL MERGING candidates over CoreVM's `slide`: the candidates `MH` (the MERGING children in
  `get_child_head_uids` order) have equal scores, so the stable sort keeps their order and `random.choice` ranges over all of them;
  the recorded outcome `c` selects `MH[c]`.
    * `slideStep_merge_pick`: this head is the only candidate, or it is the one picked → it wins: the forking head continues, EVERY
      child head (also INACTIVE losers of earlier picks: their index guard comes from the by-construction invariant `IndexOK`) is deleted;
    * `slideStep_merge_lose`: another head is picked → this head becomes INACTIVE, nothing else changes (one choice consumed).
-/
import NemoVerif.Lemmas.GroupCoreVMEvent
import NemoVerif.Lemmas.CoreVM
set_option linter.unusedSimpArgs false
namespace NemoVerif.CoreVM
open NemoVerif NemoVerif.CoreIndex

theorem Score.lt_irrefl (a : Score) : a.lt a = false := by
  simp [Score.lt]

theorem scoresLt_irrefl : ∀ a : List Score, scoresLt a a = false
  | [] => rfl
  | x :: xs => by simp [scoresLt, Score.lt_irrefl, scoresLt_irrefl xs]

/-- with equal keys the stable descending sort keeps the input order -/
theorem sortDesc_const {α : Type} (key : α → List Score) (k0 : List Score) :
    ∀ (xs : List α), (∀ x ∈ xs, key x = k0) → sortDesc key xs = xs := by
  intro xs hk
  have hins : ∀ (x : α) (acc : List α), key x = k0 → (∀ y ∈ acc, key y = k0) → sortDesc.ins key x acc = acc ++ [x] := by
    intro x acc hx
    induction acc with
    | nil => intro _; rfl
    | cons y ys ih =>
      intro hy
      have h1 : key y = k0 := hy y (by simp)
      simp only [sortDesc.ins, h1, hx, scoresLt_irrefl, Bool.false_eq_true, if_false, List.cons_append]
      rw [ih (fun z hz => hy z (by simp [hz]))]
  have hfold : ∀ (l acc : List α), (∀ x ∈ l, key x = k0) → (∀ y ∈ acc, key y = k0) →
      l.foldl (fun acc x => sortDesc.ins key x acc) acc = acc ++ l := by
    intro l
    induction l with
    | nil => intro acc _ _; simp
    | cons x l ih =>
      intro acc hl hacc
      simp only [List.foldl_cons]
      rw [hins x acc (hl x (by simp)) hacc, ih _ (fun z hz => hl z (by simp [hz]))]
      · simp
      · intro y hy
        rcases List.mem_append.1 hy with h | h
        · exact hacc y h
        · simp at h; rw [h]; exact hl x (by simp)
  simp only [sortDesc]
  rw [hfold xs [] hk (by intro y hy; cases hy)]
  simp

theorem equalPrefixLen_const (scoresOf : Key → List Score) (k0 : List Score) :
    ∀ (xs : List Key), (∀ x ∈ xs, scoresOf x = k0) → equalPrefixLen scoresOf xs = xs.length := by
  intro xs hk
  cases xs with
  | nil => rfl
  | cons x rest =>
    simp only [equalPrefixLen, List.length_cons]
    have hall : ∀ (l : List Key), (∀ y ∈ l, scoresOf y = k0) → (l.takeWhile fun k => scoresEq (scoresOf k) (scoresOf x)) = l := by
      intro l
      induction l with
      | nil => intro _; rfl
      | cons y l ih =>
        intro hl
        have : scoresEq (scoresOf y) (scoresOf x) = true := by
          rw [hl y (by simp), hk x (by simp)]; simp [scoresEq, scoresLt_irrefl]
        simp only [List.takeWhile_cons, this, if_true, ih (fun z hz => hl z (by simp [hz]))]
    rw [hall rest (fun y hy => hk y (by simp [hy]))]; omega

theorem pickChoice_ok (n c : Nat) (rest : List Nat) (s : VM) (hch : s.r.choices = c :: rest) (hlt : c < n) :
    pickChoice n s = .ok c { s with r := { s.r with choices := rest, choiceLog := s.r.choiceLog ++ [(n, c)] } } := by
  simp only [pickChoice, bind, EStateM.bind, getRest, get, getThe, MonadStateOf.get, EStateM.get, pure, EStateM.pure, hch, modifyRest,
    modify, modifyGet, MonadStateOf.modifyGet, EStateM.modifyGet, hlt, if_true]

theorem getElem!_map_key (f : FUid) (MH : List HUid) (c : Nat) (h : HUid) (hc : MH[c]? = some h) :
    (MH.map fun k => ((f, k) : Key))[c]! = (f, h) := by
  simp [getElem!_def, List.getElem?_map, hc]

theorem slideStep_merge_pick (fuel : Nat) (s : VM) (f : FUid) (h : HUid) (i : Inst) (x : InstX) (cfg : FlowCfg) (hd rd : Head)
    (u : String) (r : HUid) (cs : List HUid)
    (H : HeadAt s f h i x cfg hd) (hel : cfg.elements[hd.pos]! = .merge u) (hm : hd.status = .merging)
    (hfu : OMap.lookup u x.forkUids = some r) (hroot : i.findHead r = some rd)
    (hcs : ((OMap.lookup (f, r) s.r.hx).getD {}).childHeadUids = cs)
    (hleaf : ∀ c ∈ cs, ((OMap.lookup (f, c) s.r.hx).getD {}).childHeadUids = [])
    (hex : ∀ c ∈ cs, ∃ cd, i.findHead c = some cd)
    (MH : List HUid) (hMH : cs.filter (fun c => (i.findHead c).map (·.status) == some HeadStatus.merging) = MH)
    (hpick : MH = [h] ∨ ∃ c rest sc0, s.r.choices = c :: rest ∧ c < MH.length ∧ MH[c]? = some h ∧ 1 < MH.length ∧
      ∀ k ∈ MH, ((OMap.lookup (f, k) s.r.hx).getD {}).scores = sc0)
    (hnd : cs.Nodup) (hmem : h ∈ cs)
    (hrh : r ≠ h) (hrpos : rd.pos ≠ hd.pos) (hrst : rd.status = .inactive) (hrcs : r ∉ cs) (hucs : u ∉ cs)
    (hns : i.status ≠ .stopping) :
    ∃ s' i' x', slideStep (fuel + 2) f h s = .ok (false, [(f, r)]) s' ∧ FlowAt s' f i' x' cfg ∧ x'.ctxOwner = x.ctxOwner ∧
      hview i' = ((hview i).map (setCore r hd.pos .active)).filter (fun t => !cs.contains t.1) ∧
      s'.r.nextUid = s.r.nextUid := by
  have hge : decide (hd.pos ≥ cfg.elements.size) = false := by simp; exact H.hlt
  unfold slideStep
  simp only [bind, EStateM.bind, cfgOfInst, getInstX, getInstX?, getRest, get, getThe, MonadStateOf.get, EStateM.get, pure, EStateM.pure,
    H.hx, getCfg, H.hc, getHead?, getIx, H.hi, Option.bind, H.hh, hge, Bool.false_or, hel,
    hm, show decide (HeadStatus.merging = HeadStatus.inactive) = false from by decide, Bool.false_eq_true, if_false,
    show (HeadStatus.merging = HeadStatus.active) = False from by simp, hfu, hroot, Option.isNone_some,
    childHeadUids_flat fuel s f r cs hcs hleaf, getHeadX, hcs, if_true]
  -- loop 1: the scope uids of the children (read-only)
  generalize hL1 : (forIn cs ([] : List String) _ : M (List String)) s = R1
  have h1 : ∃ sc, R1 = EStateM.Result.ok sc s := by
    rw [← hL1]
    apply forIn_readonly
    intro c hc acc
    obtain ⟨cd, hcd⟩ := hex c hc
    simp only [bind, EStateM.bind, get, getThe, MonadStateOf.get, EStateM.get, pure, EStateM.pure, H.hi, hcd, Option.isNone_some,
      Bool.false_eq_true, if_false]
    obtain ⟨v, hv⟩ := forIn_readonly (fun (sc : String) (__s : List String) =>
        (if (!__s.contains sc) = true then EStateM.pure (ForInStep.yield (__s ++ [sc])) else EStateM.pure (ForInStep.yield __s) : M _)) s
      ((OMap.lookup (f, c) s.r.hx).getD {}).scopeUids acc (by
        intro a _ b
        by_cases hb : (!b.contains a) = true
        · exact ⟨_, by simp only [hb, if_true]; rfl⟩
        · exact ⟨_, by simp only [hb, if_false]; rfl⟩)
    exact ⟨v, by rw [hv]⟩
  obtain ⟨sc, rfl⟩ := h1
  clear hL1
  simp only []
  -- loop 2: every other child head exists (read-only)
  generalize hL2 : (forIn cs PUnit.unit _ : M PUnit) s = R2
  have h2 : ∃ v, R2 = EStateM.Result.ok v s := by
    rw [← hL2]
    apply forIn_readonly
    intro c hc acc
    obtain ⟨cd, hcd⟩ := hex c hc
    by_cases e : c ≠ h
    · exact ⟨PUnit.unit, by
        simp only [e, if_true, bind, EStateM.bind, get, getThe, MonadStateOf.get, EStateM.get, pure, EStateM.pure, H.hi, hcd,
          Option.isNone_some, Bool.false_eq_true, if_false, ne_eq, not_false_eq_true]⟩
    · exact ⟨PUnit.unit, by simp only [e, if_false, pure, EStateM.pure]⟩
  obtain ⟨v2, rfl⟩ := h2
  clear hL2
  simp only []
  -- loop 3: the MERGING heads among the children, in `get_child_head_uids` order
  generalize hL3 : (forIn cs ([] : List Key) _ : M (List Key)) s = R3
  have h3 : R3 = EStateM.Result.ok (MH.map fun c => (f, c)) s := by
    rw [← hL3]
    rw [forIn_readonly_fold _ (fun acc c => if ((i.findHead c).map (·.status) == some HeadStatus.merging) = true then acc ++ [(f, c)] else acc) s cs []]
    · congr 1
      rw [← hMH]
      have : ∀ (l : List HUid) (acc : List Key),
          l.foldl (fun acc c => if ((i.findHead c).map (·.status) == some HeadStatus.merging) = true then acc ++ [(f, c)] else acc) acc
            = acc ++ (l.filter fun c => (i.findHead c).map (·.status) == some HeadStatus.merging).map fun c => (f, c) := by
        intro l
        induction l with
        | nil => intro acc; simp
        | cons a l ih =>
          intro acc
          simp only [List.foldl_cons, ih, List.filter_cons]
          split <;> simp
      rw [this]; simp
    · intro c hc acc
      obtain ⟨cd, hcd⟩ := hex c hc
      simp only [bind, EStateM.bind, get, getThe, MonadStateOf.get, EStateM.get, pure, EStateM.pure, H.hi, hcd, Option.map_some]
      by_cases e : cd.status = HeadStatus.merging
      · simp only [e, if_true, beq_self_eq_true]; rfl
      · have : (some cd.status == some HeadStatus.merging) = false := by simpa using e
        simp only [e, if_false, this, Bool.false_eq_true]; rfl
  subst h3
  clear hL3
  simp only []
  rcases hpick with hone | ⟨c, rest, sc0, hch, hclt, hcget, hlen1, hsc⟩
  · -- one candidate: `random.choice` is not called
    subst hone
    simp only [List.map_cons, List.map_nil, List.length_singleton, gt_iff_lt, Nat.lt_irrefl, if_false]
    obtain ⟨s0, hs0⟩ : ∃ s0, s0 = s := ⟨s, rfl⟩
    have H0 : HeadAt s0 f h i x cfg hd := by rw [hs0]; exact H
    have hn0 : s0.r.nextUid = s.r.nextUid := by rw [hs0]
    rw [← hs0]
    -- the head gives up: INACTIVE
    obtain ⟨hg8, h8⟩ := setHeadStatus_inactive_ok s0 f h i hd H0.hi H0.hh (by rw [hm]; decide)
    simp only [bind, EStateM.bind, h8, if_true, pure, EStateM.pure, get, getThe, MonadStateOf.get, EStateM.get]
    have hnm : NotMatchAt cfg hd.pos := notMatchAt_of cfg hd.pos _ H0.hlt hel rfl
    -- the states and instances along the way
    have hi8 := findInst_setStatus s0.ixs.ix f h i hd .inactive none H0.hi H0.hh (by rw [hm]; decide)
    have F8 : FlowAt { s0 with ixs := s0.ixs.apply (.setStatus f h .inactive none) hg8 } f
        (i.modifyHead h fun y => { y with status := .inactive, elem := none }) x cfg := { hi := hi8, hx := H0.hx, hc := H0.hc }
    have hr8 : (i.modifyHead h fun y => { y with status := HeadStatus.inactive, elem := none }).findHead r = some rd := by
      rw [findHead_other i h r (fun y => { y with status := HeadStatus.inactive, elem := none }) (fun _ => rfl) hrh]; exact hroot
    -- the forking head takes over at the position of the merged head
    obtain ⟨hg9, h9⟩ := setHeadPos_ok _ f r _ x cfg rd hd.pos F8 hr8 hrpos hnm
    have hi9 := findInst_setPos _ f r _ rd hd.pos none hi8 hr8 hrpos
    have F9 : FlowAt { ixs := IxS.apply (s0.ixs.apply (.setStatus f h .inactive none) hg8) (.setPos f r hd.pos none) hg9, r := s0.r } f
        ((i.modifyHead h fun y => { y with status := .inactive, elem := none }).modifyHead r fun y => { y with pos := hd.pos, elem := none })
        x cfg := { hi := hi9, hx := H0.hx, hc := H0.hc }
    have hr9 := findHead_moved (i.modifyHead h fun y => { y with status := HeadStatus.inactive, elem := none }) r rd
      (fun y => { y with pos := hd.pos, elem := none }) (fun _ => rfl) hr8
    obtain ⟨hg10, h10⟩ := setHeadStatus_ok _ f r _ x cfg _ .active F9 hr9 (by simp [hrst]) hnm
    have hi10 := findInst_setStatus _ f r _ _ .active none hi9 hr9 (by simp [hrst])
    rw [h9]
    simp only []
    rw [h10]
    simp only [modHeadX, modifyRest, modify, modifyGet, MonadStateOf.modifyGet, EStateM.modifyGet]
    generalize hbody : (fun (u : HUid) (__s : PUnit) => _) = body
    have hiter : DelIter body f cfg := by
      intro c t it xt cd Ft hcd hreg
      rw [← hbody]
      simp only [bind, EStateM.bind, get, getThe, MonadStateOf.get, EStateM.get, pure, EStateM.pure, Ft.hi, hcd, Option.isNone_some,
        Bool.false_eq_true, if_false]
      by_cases hin : cd.status = HeadStatus.inactive
      · -- already INACTIVE: no index operation for the status
        rw [setHeadStatus_noop t f c it cd .inactive Ft.hi hcd hin]
        have hgd : (Op.delHead f c).guard t.ixs.ix = true := by simp [Op.guard, hreg hin]
        simp only []
        rw [applyOp_ok _ t hgd]
        simp only [modInstX, modifyRest, modify, modifyGet, MonadStateOf.modifyGet, EStateM.modifyGet]
        refine ⟨_, { xt with forkUids := OMap.erase c xt.forkUids }, rfl, ?_, rfl, rfl, ?_, rfl, rfl,
        fun k hk => by simp only [OMap.lookup_erase, hk, if_false], rfl, rfl⟩
        · exact { hi := findInst_delHead t.ixs.ix f c it Ft.hi, hx := lookup_modify_self f _ t.r.fx xt Ft.hx, hc := Ft.hc }
        · intro k _; rfl
      · obtain ⟨hgs, hss⟩ := setHeadStatus_inactive_ok t f c it cd Ft.hi hcd hin
        have hregs := reg_setStatus_inactive t.ixs.ix f c it cd Ft.hi hcd hin
        have his := findInst_setStatus t.ixs.ix f c it cd .inactive none Ft.hi hcd hin
        rw [hss]
        have hgd : (Op.delHead f c).guard ({ t with ixs := t.ixs.apply (.setStatus f c .inactive none) hgs } : VM).ixs.ix = true := by
          show (Op.delHead f c).guard (step t.ixs.ix (.setStatus f c .inactive none)) = true
          simp [Op.guard, hregs.1]
        simp only []
        rw [applyOp_ok _ _ hgd]
        simp only [modInstX, modifyRest, modify, modifyGet, MonadStateOf.modifyGet, EStateM.modifyGet]
        refine ⟨_, { xt with forkUids := OMap.erase c xt.forkUids }, rfl, ?_, rfl, rfl, ?_, rfl, rfl,
        fun k hk => by simp only [OMap.lookup_erase, hk, if_false], rfl, rfl⟩
        · refine { hi := ?_, hx := lookup_modify_self f _ t.r.fx xt Ft.hx, hc := Ft.hc }
          have := findInst_delHead _ f c _ his
          rw [filter_modifyHead it c (fun y => { y with status := HeadStatus.inactive, elem := none }) (fun _ => rfl)] at this
          exact this
        · intro k hk
          show reg (step (step t.ixs.ix (.setStatus f c .inactive none)) (.delHead f c)) k = reg t.ixs.ix k
          simp only [step, reg_modifyInst]
          exact hregs.2 k hk
    generalize hs11 : (VM.mk _ _) = s11
    have e1 : s11.ixs.ix = step (step (step s0.ixs.ix (.setStatus f h .inactive none)) (.setPos f r hd.pos none)) (.setStatus f r .active none) := by
      rw [← hs11]; rfl
    have e2 : s11.r.fx = s0.r.fx := by rw [← hs11]
    have e3 : s11.r.prog = s0.r.prog := by rw [← hs11]
    have e4 : s11.r.nextUid = s0.r.nextUid := by rw [← hs11]
    have F11 : FlowAt s11 f _ x cfg := { hi := by rw [e1]; exact hi10, hx := by rw [e2]; exact H0.hx, hc := by rw [e3]; exact H0.hc }
    -- the children as the deletion loop finds them
    have hchildren : ∀ c ∈ cs, ∃ cd, (((i.modifyHead h fun y => { y with status := HeadStatus.inactive, elem := none }).modifyHead r
          fun y => { y with pos := hd.pos, elem := none }).modifyHead r fun y => { y with status := HeadStatus.active, elem := none }).findHead c = some cd ∧
        (cd.status = .inactive → reg s11.ixs.ix (f, c) = none) := by
      intro c hc
      have hcr : c ≠ r := fun e => hrcs (e ▸ hc)
      rw [findHead_other _ r c (fun y => { y with status := HeadStatus.active, elem := none }) (fun _ => rfl) hcr,
        findHead_other _ r c (fun y => { y with pos := hd.pos, elem := none }) (fun _ => rfl) hcr]
      by_cases hch : c = h
      · subst hch
        refine ⟨_, findHead_moved i c hd _ (fun _ => rfl) H0.hh, fun _ => ?_⟩
        rw [e1, reg_setStatus_other _ f r _ _ _ (by simp [hrh.symm]), reg_setPos_other _ f r _ _ _ (by simp [hrh.symm])]
        exact (reg_setStatus_inactive s0.ixs.ix f c i hd H0.hi H0.hh (by rw [hm]; decide)).1
      · obtain ⟨cd, hcd⟩ := hex c hc
        rw [findHead_other i h c (fun y => { y with status := HeadStatus.inactive, elem := none }) (fun _ => rfl) hch]
        refine ⟨cd, hcd, fun hin => ?_⟩
        rw [e1, reg_setStatus_other _ f r _ _ _ (by simp [hcr]), reg_setPos_other _ f r _ _ _ (by simp [hcr]),
          reg_setStatus_other _ f h _ _ _ (by simp [hch])]
        have hex0 := (indexOK_of_vm s0).exact (f, c) (by simp [instStatus, H0.hi, hns])
        rw [hex0]
        simp [want, H0.hi, Inst.want, hcd, hin]
    obtain ⟨s12, x12, hrun, F12, ho12, hf12, hn12, hfu12, hhx12, hcl12⟩ := delLoop_spec body f cfg hiter cs s11 _ x hnd F11 hchildren
    rw [hrun]
    have hlk : OMap.lookup u x12.forkUids = some r := by rw [hfu12, lookup_eraseAll u cs _ hucs]; exact hfu
    simp only [getInstX, getInstX?, getRest, bind, EStateM.bind, get, getThe, MonadStateOf.get, EStateM.get, pure, EStateM.pure, F12.hx, hlk,
      Option.isNone_some, Bool.false_eq_true, if_false, modInstX, modifyRest, modify, modifyGet, MonadStateOf.modifyGet, EStateM.modifyGet]
    refine ⟨_, _, { x12 with forkUids := OMap.erase u x12.forkUids }, rfl,
      { hi := F12.hi, hx := lookup_modify_self f _ s12.r.fx x12 F12.hx, hc := F12.hc }, ho12, ?_, by first | (rw [← e4]; exact hn12) | (rw [← hn0, ← e4]; exact hn12)⟩
    rw [hview_filter, hview_setStatus, hview_setPos, hview_setStatus, List.map_map, List.map_map]
    apply filter_map_congr_uid
    · intro t; simp only [Function.comp, setStCore_fst, setPosCore_fst]
    · intro t; exact setCore_fst _ _ _ t
    · intro t ht
      have hth : t.1 ≠ h := by
        intro e
        have : cs.contains t.1 = true := by rw [e]; simpa using hmem
        rw [ht] at this; cases this
      simp only [Function.comp, setStCore, setPosCore, setCore, hth, if_false]
      split <;> simp_all


  · -- several MERGING candidates with equal scores: `random.choice` (the recorded outcome `c`) picks this head
    have hlen' : (List.map (fun c => ((f, c) : Key)) MH).length > 1 := by simpa using hlen1
    simp only [hlen', if_true, bind, EStateM.bind, get, getThe, MonadStateOf.get, EStateM.get, pure, EStateM.pure]
    generalize hML : List.foldl (fun m (kk : Key) => max m ((OMap.lookup kk s.r.hx).getD {}).scores.length) 0 (List.map (fun c => ((f, c) : Key)) MH) = ML
    have hkey : ∀ kk ∈ List.map (fun c => ((f, c) : Key)) MH, padScores ((OMap.lookup kk s.r.hx).getD {}).scores ML = padScores sc0 ML := by
      intro kk hkk
      obtain ⟨k, hk, rfl⟩ := List.mem_map.1 hkk
      rw [hsc k hk]
    have hraw : ∀ kk ∈ List.map (fun c => ((f, c) : Key)) MH, ((OMap.lookup kk s.r.hx).getD {}).scores = sc0 := by
      intro kk hkk
      obtain ⟨k, hk, rfl⟩ := List.mem_map.1 hkk
      exact hsc k hk
    rw [sortDesc_const _ (padScores sc0 ML) _ hkey, equalPrefixLen_const _ sc0 _ hraw, List.length_map,
      pickChoice_ok MH.length c rest s hch hclt]
    simp only [getElem!_map_key f MH c h hcget, if_true]
    generalize hs0 : (VM.mk s.ixs _) = s0
    have H0 : HeadAt s0 f h i x cfg hd := by
      rw [← hs0]; exact { hi := H.hi, hx := H.hx, hc := H.hc, hh := H.hh, hlt := H.hlt, hst := H.hst }
    have hn0 : s0.r.nextUid = s.r.nextUid := by rw [← hs0]
    -- the head gives up: INACTIVE
    obtain ⟨hg8, h8⟩ := setHeadStatus_inactive_ok s0 f h i hd H0.hi H0.hh (by rw [hm]; decide)
    simp only [bind, EStateM.bind, h8, if_true, pure, EStateM.pure, get, getThe, MonadStateOf.get, EStateM.get]
    have hnm : NotMatchAt cfg hd.pos := notMatchAt_of cfg hd.pos _ H0.hlt hel rfl
    -- the states and instances along the way
    have hi8 := findInst_setStatus s0.ixs.ix f h i hd .inactive none H0.hi H0.hh (by rw [hm]; decide)
    have F8 : FlowAt { s0 with ixs := s0.ixs.apply (.setStatus f h .inactive none) hg8 } f
        (i.modifyHead h fun y => { y with status := .inactive, elem := none }) x cfg := { hi := hi8, hx := H0.hx, hc := H0.hc }
    have hr8 : (i.modifyHead h fun y => { y with status := HeadStatus.inactive, elem := none }).findHead r = some rd := by
      rw [findHead_other i h r (fun y => { y with status := HeadStatus.inactive, elem := none }) (fun _ => rfl) hrh]; exact hroot
    -- the forking head takes over at the position of the merged head
    obtain ⟨hg9, h9⟩ := setHeadPos_ok _ f r _ x cfg rd hd.pos F8 hr8 hrpos hnm
    have hi9 := findInst_setPos _ f r _ rd hd.pos none hi8 hr8 hrpos
    have F9 : FlowAt { ixs := IxS.apply (s0.ixs.apply (.setStatus f h .inactive none) hg8) (.setPos f r hd.pos none) hg9, r := s0.r } f
        ((i.modifyHead h fun y => { y with status := .inactive, elem := none }).modifyHead r fun y => { y with pos := hd.pos, elem := none })
        x cfg := { hi := hi9, hx := H0.hx, hc := H0.hc }
    have hr9 := findHead_moved (i.modifyHead h fun y => { y with status := HeadStatus.inactive, elem := none }) r rd
      (fun y => { y with pos := hd.pos, elem := none }) (fun _ => rfl) hr8
    obtain ⟨hg10, h10⟩ := setHeadStatus_ok _ f r _ x cfg _ .active F9 hr9 (by simp [hrst]) hnm
    have hi10 := findInst_setStatus _ f r _ _ .active none hi9 hr9 (by simp [hrst])
    rw [h9]
    simp only []
    rw [h10]
    simp only [modHeadX, modifyRest, modify, modifyGet, MonadStateOf.modifyGet, EStateM.modifyGet]
    generalize hbody : (fun (u : HUid) (__s : PUnit) => _) = body
    have hiter : DelIter body f cfg := by
      intro c t it xt cd Ft hcd hreg
      rw [← hbody]
      simp only [bind, EStateM.bind, get, getThe, MonadStateOf.get, EStateM.get, pure, EStateM.pure, Ft.hi, hcd, Option.isNone_some,
        Bool.false_eq_true, if_false]
      by_cases hin : cd.status = HeadStatus.inactive
      · -- already INACTIVE: no index operation for the status
        rw [setHeadStatus_noop t f c it cd .inactive Ft.hi hcd hin]
        have hgd : (Op.delHead f c).guard t.ixs.ix = true := by simp [Op.guard, hreg hin]
        simp only []
        rw [applyOp_ok _ t hgd]
        simp only [modInstX, modifyRest, modify, modifyGet, MonadStateOf.modifyGet, EStateM.modifyGet]
        refine ⟨_, { xt with forkUids := OMap.erase c xt.forkUids }, rfl, ?_, rfl, rfl, ?_, rfl, rfl,
        fun k hk => by simp only [OMap.lookup_erase, hk, if_false], rfl, rfl⟩
        · exact { hi := findInst_delHead t.ixs.ix f c it Ft.hi, hx := lookup_modify_self f _ t.r.fx xt Ft.hx, hc := Ft.hc }
        · intro k _; rfl
      · obtain ⟨hgs, hss⟩ := setHeadStatus_inactive_ok t f c it cd Ft.hi hcd hin
        have hregs := reg_setStatus_inactive t.ixs.ix f c it cd Ft.hi hcd hin
        have his := findInst_setStatus t.ixs.ix f c it cd .inactive none Ft.hi hcd hin
        rw [hss]
        have hgd : (Op.delHead f c).guard ({ t with ixs := t.ixs.apply (.setStatus f c .inactive none) hgs } : VM).ixs.ix = true := by
          show (Op.delHead f c).guard (step t.ixs.ix (.setStatus f c .inactive none)) = true
          simp [Op.guard, hregs.1]
        simp only []
        rw [applyOp_ok _ _ hgd]
        simp only [modInstX, modifyRest, modify, modifyGet, MonadStateOf.modifyGet, EStateM.modifyGet]
        refine ⟨_, { xt with forkUids := OMap.erase c xt.forkUids }, rfl, ?_, rfl, rfl, ?_, rfl, rfl,
        fun k hk => by simp only [OMap.lookup_erase, hk, if_false], rfl, rfl⟩
        · refine { hi := ?_, hx := lookup_modify_self f _ t.r.fx xt Ft.hx, hc := Ft.hc }
          have := findInst_delHead _ f c _ his
          rw [filter_modifyHead it c (fun y => { y with status := HeadStatus.inactive, elem := none }) (fun _ => rfl)] at this
          exact this
        · intro k hk
          show reg (step (step t.ixs.ix (.setStatus f c .inactive none)) (.delHead f c)) k = reg t.ixs.ix k
          simp only [step, reg_modifyInst]
          exact hregs.2 k hk
    generalize hs11 : (VM.mk _ _) = s11
    have e1 : s11.ixs.ix = step (step (step s0.ixs.ix (.setStatus f h .inactive none)) (.setPos f r hd.pos none)) (.setStatus f r .active none) := by
      rw [← hs11]; rfl
    have e2 : s11.r.fx = s0.r.fx := by rw [← hs11]
    have e3 : s11.r.prog = s0.r.prog := by rw [← hs11]
    have e4 : s11.r.nextUid = s0.r.nextUid := by rw [← hs11]
    have F11 : FlowAt s11 f _ x cfg := { hi := by rw [e1]; exact hi10, hx := by rw [e2]; exact H0.hx, hc := by rw [e3]; exact H0.hc }
    -- the children as the deletion loop finds them
    have hchildren : ∀ c ∈ cs, ∃ cd, (((i.modifyHead h fun y => { y with status := HeadStatus.inactive, elem := none }).modifyHead r
          fun y => { y with pos := hd.pos, elem := none }).modifyHead r fun y => { y with status := HeadStatus.active, elem := none }).findHead c = some cd ∧
        (cd.status = .inactive → reg s11.ixs.ix (f, c) = none) := by
      intro c hc
      have hcr : c ≠ r := fun e => hrcs (e ▸ hc)
      rw [findHead_other _ r c (fun y => { y with status := HeadStatus.active, elem := none }) (fun _ => rfl) hcr,
        findHead_other _ r c (fun y => { y with pos := hd.pos, elem := none }) (fun _ => rfl) hcr]
      by_cases hch : c = h
      · subst hch
        refine ⟨_, findHead_moved i c hd _ (fun _ => rfl) H0.hh, fun _ => ?_⟩
        rw [e1, reg_setStatus_other _ f r _ _ _ (by simp [hrh.symm]), reg_setPos_other _ f r _ _ _ (by simp [hrh.symm])]
        exact (reg_setStatus_inactive s0.ixs.ix f c i hd H0.hi H0.hh (by rw [hm]; decide)).1
      · obtain ⟨cd, hcd⟩ := hex c hc
        rw [findHead_other i h c (fun y => { y with status := HeadStatus.inactive, elem := none }) (fun _ => rfl) hch]
        refine ⟨cd, hcd, fun hin => ?_⟩
        rw [e1, reg_setStatus_other _ f r _ _ _ (by simp [hcr]), reg_setPos_other _ f r _ _ _ (by simp [hcr]),
          reg_setStatus_other _ f h _ _ _ (by simp [hch])]
        have hex0 := (indexOK_of_vm s0).exact (f, c) (by simp [instStatus, H0.hi, hns])
        rw [hex0]
        simp [want, H0.hi, Inst.want, hcd, hin]
    obtain ⟨s12, x12, hrun, F12, ho12, hf12, hn12, hfu12, hhx12, hcl12⟩ := delLoop_spec body f cfg hiter cs s11 _ x hnd F11 hchildren
    rw [hrun]
    have hlk : OMap.lookup u x12.forkUids = some r := by rw [hfu12, lookup_eraseAll u cs _ hucs]; exact hfu
    simp only [getInstX, getInstX?, getRest, bind, EStateM.bind, get, getThe, MonadStateOf.get, EStateM.get, pure, EStateM.pure, F12.hx, hlk,
      Option.isNone_some, Bool.false_eq_true, if_false, modInstX, modifyRest, modify, modifyGet, MonadStateOf.modifyGet, EStateM.modifyGet]
    refine ⟨_, _, { x12 with forkUids := OMap.erase u x12.forkUids }, rfl,
      { hi := F12.hi, hx := lookup_modify_self f _ s12.r.fx x12 F12.hx, hc := F12.hc }, ho12, ?_, by first | (rw [← e4]; exact hn12) | (rw [← hn0, ← e4]; exact hn12)⟩
    rw [hview_filter, hview_setStatus, hview_setPos, hview_setStatus, List.map_map, List.map_map]
    apply filter_map_congr_uid
    · intro t; simp only [Function.comp, setStCore_fst, setPosCore_fst]
    · intro t; exact setCore_fst _ _ _ t
    · intro t ht
      have hth : t.1 ≠ h := by
        intro e
        have : cs.contains t.1 = true := by rw [e]; simpa using hmem
        rw [ht] at this; cases this
      simp only [Function.comp, setStCore, setPosCore, setCore, hth, if_false]
      split <;> simp_all



theorem slideStep_merge_lose (fuel : Nat) (s : VM) (f : FUid) (h : HUid) (i : Inst) (x : InstX) (cfg : FlowCfg) (hd rd : Head)
    (u : String) (r : HUid) (cs : List HUid)
    (H : HeadAt s f h i x cfg hd) (hel : cfg.elements[hd.pos]! = .merge u) (hm : hd.status = .merging)
    (hfu : OMap.lookup u x.forkUids = some r) (hroot : i.findHead r = some rd)
    (hcs : ((OMap.lookup (f, r) s.r.hx).getD {}).childHeadUids = cs)
    (hleaf : ∀ c ∈ cs, ((OMap.lookup (f, c) s.r.hx).getD {}).childHeadUids = [])
    (hex : ∀ c ∈ cs, ∃ cd, i.findHead c = some cd)
    (MH : List HUid) (hMH : cs.filter (fun c => (i.findHead c).map (·.status) == some HeadStatus.merging) = MH)
    (c : Nat) (rest : List Nat) (sc0 : List Score) (h' : HUid)
    (hch : s.r.choices = c :: rest) (hclt : c < MH.length) (hcget : MH[c]? = some h') (hne : h' ≠ h) (hlen1 : 1 < MH.length)
    (hsc : ∀ k ∈ MH, ((OMap.lookup (f, k) s.r.hx).getD {}).scores = sc0)
    (hnd : cs.Nodup) (hmem : h ∈ cs)
    (hrh : r ≠ h) (hrpos : rd.pos ≠ hd.pos) (hrst : rd.status = .inactive) (hrcs : r ∉ cs) (hucs : u ∉ cs)
    (hns : i.status ≠ .stopping) :
    ∃ s' hg, slideStep (fuel + 2) f h s = .ok (false, []) s' ∧
      s'.ixs = s.ixs.apply (.setStatus f h .inactive none) hg ∧ s'.r.choices = rest ∧ s'.r.hx = s.r.hx ∧ s'.r.fx = s.r.fx ∧
      s'.r.prog = s.r.prog ∧ s'.r.nextUid = s.r.nextUid := by
  have hge : decide (hd.pos ≥ cfg.elements.size) = false := by simp; exact H.hlt
  unfold slideStep
  simp only [bind, EStateM.bind, cfgOfInst, getInstX, getInstX?, getRest, get, getThe, MonadStateOf.get, EStateM.get, pure, EStateM.pure,
    H.hx, getCfg, H.hc, getHead?, getIx, H.hi, Option.bind, H.hh, hge, Bool.false_or, hel,
    hm, show decide (HeadStatus.merging = HeadStatus.inactive) = false from by decide, Bool.false_eq_true, if_false,
    show (HeadStatus.merging = HeadStatus.active) = False from by simp, hfu, hroot, Option.isNone_some,
    childHeadUids_flat fuel s f r cs hcs hleaf, getHeadX, hcs, if_true]
  -- loop 1: the scope uids of the children (read-only)
  generalize hL1 : (forIn cs ([] : List String) _ : M (List String)) s = R1
  have h1 : ∃ sc, R1 = EStateM.Result.ok sc s := by
    rw [← hL1]
    apply forIn_readonly
    intro c hc acc
    obtain ⟨cd, hcd⟩ := hex c hc
    simp only [bind, EStateM.bind, get, getThe, MonadStateOf.get, EStateM.get, pure, EStateM.pure, H.hi, hcd, Option.isNone_some,
      Bool.false_eq_true, if_false]
    obtain ⟨v, hv⟩ := forIn_readonly (fun (sc : String) (__s : List String) =>
        (if (!__s.contains sc) = true then EStateM.pure (ForInStep.yield (__s ++ [sc])) else EStateM.pure (ForInStep.yield __s) : M _)) s
      ((OMap.lookup (f, c) s.r.hx).getD {}).scopeUids acc (by
        intro a _ b
        by_cases hb : (!b.contains a) = true
        · exact ⟨_, by simp only [hb, if_true]; rfl⟩
        · exact ⟨_, by simp only [hb, if_false]; rfl⟩)
    exact ⟨v, by rw [hv]⟩
  obtain ⟨sc, rfl⟩ := h1
  clear hL1
  simp only []
  -- loop 2: every other child head exists (read-only)
  generalize hL2 : (forIn cs PUnit.unit _ : M PUnit) s = R2
  have h2 : ∃ v, R2 = EStateM.Result.ok v s := by
    rw [← hL2]
    apply forIn_readonly
    intro c hc acc
    obtain ⟨cd, hcd⟩ := hex c hc
    by_cases e : c ≠ h
    · exact ⟨PUnit.unit, by
        simp only [e, if_true, bind, EStateM.bind, get, getThe, MonadStateOf.get, EStateM.get, pure, EStateM.pure, H.hi, hcd,
          Option.isNone_some, Bool.false_eq_true, if_false, ne_eq, not_false_eq_true]⟩
    · exact ⟨PUnit.unit, by simp only [e, if_false, pure, EStateM.pure]⟩
  obtain ⟨v2, rfl⟩ := h2
  clear hL2
  simp only []
  -- loop 3: the MERGING heads among the children, in `get_child_head_uids` order
  generalize hL3 : (forIn cs ([] : List Key) _ : M (List Key)) s = R3
  have h3 : R3 = EStateM.Result.ok (MH.map fun c => (f, c)) s := by
    rw [← hL3]
    rw [forIn_readonly_fold _ (fun acc c => if ((i.findHead c).map (·.status) == some HeadStatus.merging) = true then acc ++ [(f, c)] else acc) s cs []]
    · congr 1
      rw [← hMH]
      have : ∀ (l : List HUid) (acc : List Key),
          l.foldl (fun acc c => if ((i.findHead c).map (·.status) == some HeadStatus.merging) = true then acc ++ [(f, c)] else acc) acc
            = acc ++ (l.filter fun c => (i.findHead c).map (·.status) == some HeadStatus.merging).map fun c => (f, c) := by
        intro l
        induction l with
        | nil => intro acc; simp
        | cons a l ih =>
          intro acc
          simp only [List.foldl_cons, ih, List.filter_cons]
          split <;> simp
      rw [this]; simp
    · intro c hc acc
      obtain ⟨cd, hcd⟩ := hex c hc
      simp only [bind, EStateM.bind, get, getThe, MonadStateOf.get, EStateM.get, pure, EStateM.pure, H.hi, hcd, Option.map_some]
      by_cases e : cd.status = HeadStatus.merging
      · simp only [e, if_true, beq_self_eq_true]; rfl
      · have : (some cd.status == some HeadStatus.merging) = false := by simpa using e
        simp only [e, if_false, this, Bool.false_eq_true]; rfl
  subst h3
  clear hL3
  simp only []
  have hlen' : (List.map (fun c => ((f, c) : Key)) MH).length > 1 := by simpa using hlen1
  simp only [hlen', if_true, bind, EStateM.bind, get, getThe, MonadStateOf.get, EStateM.get, pure, EStateM.pure]
  generalize hML : List.foldl (fun m (kk : Key) => max m ((OMap.lookup kk s.r.hx).getD {}).scores.length) 0 (List.map (fun c => ((f, c) : Key)) MH) = ML
  have hkey : ∀ kk ∈ List.map (fun c => ((f, c) : Key)) MH, padScores ((OMap.lookup kk s.r.hx).getD {}).scores ML = padScores sc0 ML := by
    intro kk hkk
    obtain ⟨k, hk, rfl⟩ := List.mem_map.1 hkk
    rw [hsc k hk]
  have hraw : ∀ kk ∈ List.map (fun c => ((f, c) : Key)) MH, ((OMap.lookup kk s.r.hx).getD {}).scores = sc0 := by
    intro kk hkk
    obtain ⟨k, hk, rfl⟩ := List.mem_map.1 hkk
    exact hsc k hk
  rw [sortDesc_const _ (padScores sc0 ML) _ hkey, equalPrefixLen_const _ sc0 _ hraw, List.length_map,
    pickChoice_ok MH.length c rest s hch hclt]
  have hneq : ((f, h') : Key) ≠ (f, h) := by simp [hne]
  simp only [getElem!_map_key f MH c h' hcget, hneq, if_false]
  generalize hs0 : (VM.mk s.ixs _) = s0
  have e1 : s0.ixs = s.ixs := by rw [← hs0]
  have e2 : s0.r.choices = rest := by rw [← hs0]
  have e3 : s0.r.hx = s.r.hx := by rw [← hs0]
  have e4 : s0.r.fx = s.r.fx := by rw [← hs0]
  have e5 : s0.r.prog = s.r.prog := by rw [← hs0]
  have e6 : s0.r.nextUid = s.r.nextUid := by rw [← hs0]
  obtain ⟨hg8, h8⟩ := setHeadStatus_inactive_ok s0 f h i hd (by rw [e1]; exact H.hi) H.hh (by rw [hm]; decide)
  rw [h8]
  exact ⟨_, by rw [← e1]; exact hg8, rfl, by simp only [e1], e2, e3, e4, e5, e6⟩


end NemoVerif.CoreVM
