/-
  C06, clause (iii) of T2 — the counting invariant.

  `holders s a` = number of occurrences of action `a` in the `action_uids` of the instances that are listening or
  STOPPING (= executing `abort`).  `CountInv`: for every STARTING/STARTED action that has not been sent a `Stop`,
  `flow_scope_count ≤ holders`.  (Equality does NOT hold: `EndScope` decrements without removing the action from
  `action_uids`, `count_eq_as_is_counterexample`.)  The inequality is carried through the whole recursion by the
  generic skeleton of Lemmas/LifetimeGen.lean: in the straight-line tails the stop-actions loop decrements the count
  once per occurrence in `action_uids` (`stopActions_bound`, credit argument) BEFORE the instance stops contributing
  to `holders` at its STOPPED/FINISHED mark (`Bound.markEnd`).
-/
import NemoVerif.Lemmas.LifetimeGen
namespace NemoVerif.Lifetime

/-! ### finite sums over the iteration order -/

theorem sum_map_update {l : List Nat} (g g' : Nat → Nat) (u : Nat) (hn : l.Nodup) (hu : u ∈ l)
    (h : ∀ v, v ≠ u → g' v = g v) : (l.map g').sum + g u = (l.map g).sum + g' u := by
  induction l with
  | nil => cases hu
  | cons w l ih =>
    simp only [List.map_cons, List.sum_cons]
    rw [List.nodup_cons] at hn
    by_cases hw : w = u
    · subst hw
      have : l.map g' = l.map g := List.map_congr_left (fun v hv => h v (fun e => hn.1 (e ▸ hv)))
      rw [this]; omega
    · have hu' : u ∈ l := by
        cases hu with
        | head => exact absurd rfl hw
        | tail _ h' => exact h'
      have := ih hn.2 hu'
      rw [h w hw]; omega

theorem sum_map_mono {l : List Nat} (g g' : Nat → Nat) (h : ∀ v, v ∈ l → g v ≤ g' v) : (l.map g).sum ≤ (l.map g').sum := by
  induction l with
  | nil => simp
  | cons w l ih =>
    simp only [List.map_cons, List.sum_cons]
    have := ih (fun v hv => h v (List.mem_cons_of_mem _ hv))
    have := h w (List.mem_cons_self ..)
    omega

theorem le_sum_map {l : List Nat} (g : Nat → Nat) (u : Nat) (hu : u ∈ l) : g u ≤ (l.map g).sum := by
  induction l with
  | nil => cases hu
  | cons w l ih =>
    simp only [List.map_cons, List.sum_cons]
    cases hu with
    | head => omega
    | tail _ h' => have := ih h'; omega

/-! ### holders -/

/-- occurrences of `a` in the `action_uids` of a record that is listening or STOPPING -/
def fc (f : Flow) (a : Nat) : Nat :=
  if f.status.listening || f.status == .stopping then f.actionUids.count a else 0

/-- contribution of instance `v` to the holders of action `a` -/
def contrib (s : State) (a v : Nat) : Nat :=
  match s.flows v with
  | some f => fc f a
  | none => 0

/-- number of occurrences of action `a` in the `action_uids` of instances that are listening or STOPPING -/
def holders (s : State) (a : Nat) : Nat := (s.order.map (contrib s a)).sum

/-- the fields `holders` reads -/
def hk (f : Flow) : FStatus × List Nat := (f.status, f.actionUids)

/-- same (status, action_uids) for every instance -/
def HkEq (s s' : State) : Prop := ∀ v, (s'.flows v).map hk = (s.flows v).map hk

theorem HkEq.refl (s : State) : HkEq s s := fun _ => rfl
theorem HkEq.trans {s1 s2 s3 : State} (a : HkEq s1 s2) (b : HkEq s2 s3) : HkEq s1 s3 := fun v => (b v).trans (a v)
theorem HkEq.of_flows_eq {s s' : State} (h : s'.flows = s.flows) : HkEq s s' := fun v => by rw [h]

theorem contrib_congr {s s' : State} (a v : Nat) (h : (s'.flows v).map hk = (s.flows v).map hk) :
    contrib s' a v = contrib s a v := by
  unfold contrib
  cases h1 : s'.flows v with
  | none =>
    cases h2 : s.flows v with
    | none => rfl
    | some f => rw [h1, h2] at h; cases h
  | some f' =>
    cases h2 : s.flows v with
    | none => rw [h1, h2] at h; cases h
    | some f =>
      rw [h1, h2] at h
      simp only [Option.map_some, Option.some.injEq, hk, Prod.mk.injEq] at h
      simp only [fc, h.1, h.2]

theorem HkEq.holders {s s' : State} (h : HkEq s s') (ho : s'.order = s.order) (a : Nat) : holders s' a = holders s a := by
  unfold Lifetime.holders
  rw [ho]
  exact congrArg List.sum (List.map_congr_left (fun v _ => contrib_congr a v (h v)))

theorem HkEq.isSome {s s' : State} (h : HkEq s s') (v : Nat) : (s'.flows v).isSome = (s.flows v).isSome := by
  have := h v
  cases h1 : s'.flows v <;> cases h2 : s.flows v <;> rw [h1, h2] at this <;> simp at this ⊢

theorem hk_setFlow (s : State) (u : Nat) (f f' : Flow) (hf : s.flows u = some f) (hc : hk f' = hk f) : HkEq s (setFlow s u f') := by
  intro v
  rw [setFlow_flows]; split
  · next e => subst e; rw [hf]; simp [hc]
  · rfl

theorem hk_modFlow (s : State) (u : Nat) (g : Flow → Flow) (hg : ∀ f, hk (g f) = hk f) : HkEq s (modFlow s u g) := by
  cases hf : s.flows u with
  | none => rw [modFlow_none _ _ _ hf]; exact HkEq.refl s
  | some f => rw [modFlow_some _ _ _ _ hf]; exact hk_setFlow s u f (g f) hf (hg f)

theorem removeFromParent_hk (s : State) (u : Nat) (s' : State) (h : removeFromParent s u = .ok s') : HkEq s s' := by
  intro v
  rcases (removeFromParent_flows s u s' h).2.2.2 v with e | ⟨pf, e1, e2⟩
  · rw [e]
  · rw [e1, e2]; rfl

theorem removeFromParent_order (s : State) (u : Nat) (s' : State) (h : removeFromParent s u = .ok s') : s'.order = s.order := by
  unfold removeFromParent at h
  split at h
  · cases h
  · split at h
    · split at h
      · cases h; rfl
      · split at h
        · cases h; rfl
        · split at h
          · cases h; rfl
          · cases h
    · cases h; rfl

theorem restart_hk (s : State) (u : Nat) (d : Bool) (s' : State) (h : restart s u d = .ok s') : HkEq s s' := by
  intro v
  obtain ⟨f, hf, h1 | h1⟩ := restart_spec s u d s' h
  · obtain ⟨_, _, _, _, hu, hne⟩ := h1
    by_cases hv : v = u
    · subst hv; rw [hu, hf]; rfl
    · rw [hne v hv]
  · rw [h1.2]

theorem holders_setFlow_le (s : State) (u : Nat) (f f' : Flow) (hf : s.flows u = some f) (a : Nat) (h : fc f a ≤ fc f' a) :
    holders s a ≤ holders (setFlow s u f') a := by
  unfold holders
  rw [setFlow_order]
  apply sum_map_mono
  intro v _
  by_cases e : v = u
  · subst e; simp only [contrib, setFlow_flows_same, hf]; exact h
  · simp only [contrib, setFlow_flows_ne _ _ _ _ e]; exact Nat.le_refl _

/-! ### the order / domain part -/

structure OrdInv (s : State) : Prop where
  nodup : s.order.Nodup
  live : ∀ v, v ∈ s.order → (s.flows v).isSome = true
  dom : ∀ v, (s.flows v).isSome = true → v ∈ s.order

theorem OrdInv.of_dom {s s' : State} (hi : OrdInv s) (ho : s'.order = s.order)
    (hd : ∀ v, (s'.flows v).isSome = (s.flows v).isSome) : OrdInv s' :=
  ⟨by rw [ho]; exact hi.nodup, fun v hv => by rw [hd]; exact hi.live v (by rw [← ho]; exact hv),
   fun v hv => by rw [ho]; exact hi.dom v (by rw [← hd]; exact hv)⟩

theorem OrdInv.mem {s : State} (hi : OrdInv s) {u : Nat} {f : Flow} (hf : s.flows u = some f) : u ∈ s.order :=
  hi.dom u (by rw [hf]; rfl)

/-! ### the bound, with a credit for decrements that have already happened -/

/-- every running action without a `Stop` has `count + credit ≤ holders` -/
def Bound (s : State) (cr : Nat → Nat) : Prop :=
  ∀ a x, s.actions a = some x → x.status.running = true → stops a s.out = 0 → x.count + (cr a : Int) ≤ (holders s a : Int)

/-- the general transfer lemma: a running unstopped action afterwards was one before, and the slack did not shrink -/
theorem Bound.transfer {s s' : State} {cr cr' : Nat → Nat} (hb : Bound s cr)
    (hact : ∀ a x', s'.actions a = some x' → x'.status.running = true → stops a s'.out = 0 →
      ∃ x, s.actions a = some x ∧ x.status.running = true ∧ stops a s.out = 0 ∧
        x'.count + (cr' a : Int) + (holders s a : Int) ≤ x.count + (cr a : Int) + (holders s' a : Int)) : Bound s' cr' := by
  intro a x' hx' hr h0
  obtain ⟨x, hx, hr0, h00, hle⟩ := hact a x' hx' hr h0
  have := hb a x hx hr0 h00
  omega

/-- nothing relevant changes -/
theorem Bound.of_hk {s s' : State} {cr : Nat → Nat} (hb : Bound s cr) (h : HkEq s s') (ho : s'.order = s.order)
    (ha : s'.actions = s.actions) (hout : s'.out = s.out) : Bound s' cr := by
  refine hb.transfer ?_
  intro a x' hx' hr h0
  rw [ha] at hx'; rw [hout] at h0
  exact ⟨x', hx', hr, h0, by rw [h.holders ho a]; omega⟩

theorem stopAction1_bound {s t : State} {b : Nat} {cr : Nat → Nat} (hb : Bound s cr) (h : stopAction1 s b = .ok t) :
    Bound t (fun a => cr a + if a = b then 1 else 0) := by
  obtain ⟨x, hx, hfl, _, hord, hoth, hcase⟩ := stopAction1_spec s b t h
  have hh : ∀ a, holders t a = holders s a := (HkEq.of_flows_eq hfl).holders hord
  refine hb.transfer ?_
  intro a y hy hr h0
  by_cases hab : a = b
  · subst hab
    rcases hcase with ⟨hnr, hta, _⟩ | ⟨hrun, _, hta, hout⟩ | ⟨_, _, hta, _⟩
    · rw [hta] at hy; cases hy; rw [hnr] at hr; cases hr
    · rw [hta] at hy; cases hy
      rw [hout] at h0
      refine ⟨x, hx, hrun, h0, ?_⟩
      rw [hh]; simp only [if_true]; push_cast; omega
    · rw [hta] at hy; cases hy; simp [AStatus.running] at hr
  · rw [hoth a hab] at hy
    have hst : stops a t.out = stops a s.out := by
      rcases hcase with ⟨_, _, ho⟩ | ⟨_, _, _, ho⟩ | ⟨_, _, _, ho⟩
      · rw [ho]
      · rw [ho]
      · rw [ho, stops_append_stop]; simp [Ne.symm hab]
    rw [hst] at h0
    refine ⟨y, hy, hr, h0, ?_⟩
    rw [hh]; simp [hab]

theorem stopActions_bound : ∀ (l : List Nat) (s s' : State) (cr : Nat → Nat), Bound s cr → stopActions s l = .ok s' →
    Bound s' (fun a => cr a + l.count a)
  | [], s, s', cr, hb, h => by
    simp only [stopActions] at h; cases h
    simpa using hb
  | b :: l, s, s', cr, hb, h => by
    simp only [stopActions] at h
    split at h
    · next s1 h1 =>
      have := stopActions_bound l s1 s' _ (stopAction1_bound hb h1) h
      intro a x hx hr h0
      have := this a x hx hr h0
      simp only [List.count_cons, beq_iff_eq] at this ⊢
      by_cases hab : a = b
      · subst hab; simp only [if_true] at this ⊢; push_cast at this ⊢; omega
      · have hba : ¬ b = a := fun e => hab e.symm
        simp only [hab, hba, if_false] at this ⊢; push_cast at this ⊢; omega
    · cases h

theorem Bound.weaken {s : State} {cr cr' : Nat → Nat} (hb : Bound s cr) (h : ∀ a, cr' a ≤ cr a) : Bound s cr' := by
  intro a x hx hr h0
  have := hb a x hx hr h0
  have := h a
  omega

/-- the STOPPED / FINISHED mark: the instance stops contributing; its occurrences are covered by the credit -/
theorem Bound.markEnd {s : State} {cr : Nat → Nat} (hb : Bound s cr) (ho : OrdInv s) (u : Nat) (f : Flow)
    (hf : s.flows u = some f) (hcr : ∀ a, f.actionUids.count a ≤ cr a) (st : FStatus)
    (hst : (st.listening || st == .stopping) = false) :
    Bound (modFlow s u fun g => { g with status := st }) (fun _ => 0) := by
  rw [modFlow_some _ _ _ _ hf]
  refine hb.transfer ?_
  intro a x hx hr h0
  refine ⟨x, hx, hr, h0, ?_⟩
  have hsum := sum_map_update (contrib s a) (contrib (setFlow s u { f with status := st }) a) u ho.nodup (ho.mem hf)
    (fun v hv => by unfold contrib; rw [setFlow_flows_ne _ _ _ _ hv])
  have hnew : contrib (setFlow s u { f with status := st }) a u = 0 := by
    simp only [contrib, setFlow_flows_same, fc, hst]; rfl
  have hold : contrib s a u ≤ f.actionUids.count a := by
    simp only [contrib, hf, fc]; split <;> omega
  have h1 : holders (setFlow s u { f with status := st }) a + contrib s a u = holders s a := by
    unfold holders; rw [setFlow_order]; rw [hnew] at hsum; omega
  have := hcr a
  push_cast
  omega

/-! ### the invariant -/

structure CountInv (s : State) : Prop where
  ord : OrdInv s
  le : Bound s (fun _ => 0)

theorem CountInv.of_hk {s s' : State} (hi : CountInv s) (h : HkEq s s') (ho : s'.order = s.order)
    (ha : s'.actions = s.actions) (hout : s'.out = s.out) : CountInv s' :=
  ⟨hi.ord.of_dom ho h.isSome, hi.le.of_hk h ho ha hout⟩

theorem markNoRestart_hk (s : State) (u : Nat) : HkEq s (markNoRestart s u) := by
  unfold markNoRestart
  split
  · next f hf =>
    split
    · exact hk_setFlow s u f { f with nis := true } hf rfl
    · exact HkEq.refl s
  · exact HkEq.refl s

theorem stopActions_out_frame : ∀ (l : List Nat) (s s' : State), stopActions s l = .ok s' → s'.order = s.order ∧ s'.flows = s.flows :=
  fun l s s' h => ⟨(stopActions_frame l s s' h).2.2, (stopActions_frame l s s' h).1⟩

theorem stopActions_countInv (s : State) (l : List Nat) (s' : State) (hi : CountInv s) (h : stopActions s l = .ok s') : CountInv s' := by
  obtain ⟨ho, hf⟩ := stopActions_out_frame l s s' h
  exact ⟨hi.ord.of_dom ho (fun v => by rw [hf]), (stopActions_bound l s s' _ hi.le h).weaken (fun _ => Nat.zero_le _)⟩

theorem restart_countParts (s : State) (u : Nat) (d : Bool) (s' : State) (h : restart s u d = .ok s') :
    HkEq s s' ∧ s'.order = s.order ∧ s'.actions = s.actions ∧ s'.out = s.out :=
  ⟨restart_hk s u d s' h, (restart_frame s u d s' h).2.2, (restart_frame s u d s' h).1, (restart_frame s u d s' h).2.1⟩

theorem abortTail_countInv (s : State) (u : Nat) (d : Bool) (s' : State) (hi : CountInv s) (h : abortTail s u d = .ok s') :
    CountInv s' := by
  unfold abortTail at h
  split at h
  · cases h
  · next f1 hf1 =>
    split at h
    · cases h
    · next s2 h2 =>
      dsimp only at h
      split at h
      · cases h
      · next s4 h4 =>
        obtain ⟨ho2, hf2⟩ := stopActions_out_frame _ _ _ h2
        have o2 : OrdInv s2 := hi.ord.of_dom ho2 (fun v => by rw [hf2])
        have b2 : Bound s2 (fun a => 0 + f1.actionUids.count a) := stopActions_bound _ _ _ _ hi.le h2
        -- s2 → s3 → s4: same (status, action_uids) everywhere
        have k3 : HkEq s2 (modFlow s2 u fun f => { f with heads := 0 }) := hk_modFlow _ _ _ (fun _ => rfl)
        have k4 : HkEq s2 s4 := k3.trans (removeFromParent_hk _ _ _ h4)
        have ho4 : s4.order = s2.order := by rw [removeFromParent_order _ _ _ h4, modFlow_order]
        have ha4 : s4.actions = s2.actions := by rw [(removeFromParent_flows _ _ _ h4).2.1, modFlow_actions]
        have hout4 : s4.out = s2.out := by rw [(removeFromParent_flows _ _ _ h4).2.2.1, modFlow_out]
        have o4 : OrdInv s4 := o2.of_dom ho4 k4.isSome
        have b4 : Bound s4 (fun a => 0 + f1.actionUids.count a) := b2.of_hk k4 ho4 ha4 hout4
        -- the record of u in s4 has the action list of f1
        have hu4 : ∃ f4, s4.flows u = some f4 ∧ f4.actionUids = f1.actionUids := by
          have := k4 u
          rw [hf2, hf1] at this
          cases h4u : s4.flows u with
          | none => rw [h4u] at this; cases this
          | some f4 =>
            rw [h4u] at this
            simp only [Option.map_some, Option.some.injEq, hk, Prod.mk.injEq] at this
            exact ⟨f4, rfl, this.2⟩
        obtain ⟨f4, hf4, hact4⟩ := hu4
        have b5 := b4.markEnd o4 u f4 hf4 (fun a => by rw [hact4]; omega) .stopped rfl
        have o5 : OrdInv (modFlow s4 u fun g => { g with status := .stopped }) := by
          refine o4.of_dom (modFlow_order _ _ _) (fun v => ?_)
          by_cases hv : v = u
          · subst hv; rw [modFlow_flows_same, hf4]; rfl
          · rw [modFlow_flows_ne _ _ _ _ hv]
        have i6 : CountInv (push (modFlow s4 u fun g => { g with status := .stopped }) (.flowFailed u)) :=
          ⟨o5.of_dom rfl (fun _ => rfl), b5.of_hk (HkEq.refl _) rfl rfl rfl⟩
        obtain ⟨r1, r2, r3, r4⟩ := restart_countParts _ _ _ _ h
        exact i6.of_hk r1 r2 r3 r4

theorem finishTail_countInv (s : State) (u : Nat) (d : Bool) (s' : State) (hi : CountInv s) (h : finishTail s u d = .ok s') :
    CountInv s' := by
  unfold finishTail at h
  split at h
  · cases h
  · next f1 hf1 =>
    split at h
    · cases h
    · next s2 h2 =>
      dsimp only at h
      obtain ⟨ho2, hf2⟩ := stopActions_out_frame _ _ _ h2
      have i2 : CountInv s2 := stopActions_countInv s _ s2 hi h2
      have b2 : Bound s2 (fun a => 0 + f1.actionUids.count a) := stopActions_bound _ _ _ _ hi.le h2
      have hf3 : (modFlow s2 u fun f => { f with heads := 0 }).flows u = some { f1 with heads := 0 } := by
        rw [modFlow_flows_same, hf2, hf1]; rfl
      have k3 : HkEq s2 (modFlow s2 u fun f => { f with heads := 0 }) := hk_modFlow _ _ _ (fun _ => rfl)
      have o3 : OrdInv (modFlow s2 u fun f => { f with heads := 0 }) := i2.ord.of_dom (modFlow_order _ _ _) k3.isSome
      have b3 : Bound (modFlow s2 u fun f => { f with heads := 0 }) (fun a => 0 + f1.actionUids.count a) :=
        b2.of_hk k3 (modFlow_order _ _ _) (modFlow_actions _ _ _) (modFlow_out _ _ _)
      split at h
      · -- main flow: back to WAITING (keeps contributing)
        cases h
        rw [modFlow_some _ _ _ _ hf3]
        refine ⟨o3.of_dom rfl (fun v => ?_), ?_⟩
        · rw [setFlow_flows]; split
          · next e => rw [e, hf3]; rfl
          · rfl
        · refine (b3.weaken (fun _ => Nat.zero_le _)).transfer ?_
          intro a x hx hr h0
          refine ⟨x, hx, hr, h0, ?_⟩
          have := holders_setFlow_le (modFlow s2 u fun f => { f with heads := 0 }) u _
            { ({ f1 with heads := 0 } : Flow) with heads := 1, status := .waiting } hf3 a
            (by
              have e1 : fc ({ ({ f1 with heads := 0 } : Flow) with heads := 1, status := .waiting }) a = f1.actionUids.count a := by
                simp [fc, FStatus.listening]
              rw [e1]; simp only [fc]; split <;> omega)
          dsimp only at this ⊢
          omega
      · split at h
        · cases h
        · next s5 h5 =>
          have b4 := b3.markEnd o3 u _ hf3 (fun a => by show f1.actionUids.count a ≤ _; omega) .finished rfl
          have o4 : OrdInv (modFlow (modFlow s2 u fun f => { f with heads := 0 }) u fun g => { g with status := .finished }) := by
            refine o3.of_dom (modFlow_order _ _ _) (fun v => ?_)
            by_cases hv : v = u
            · subst hv; rw [modFlow_flows_same, hf3]; rfl
            · rw [modFlow_flows_ne _ _ _ _ hv]
          have k5 := removeFromParent_hk _ _ _ h5
          have ho5 := removeFromParent_order _ _ _ h5
          have i5 : CountInv s5 :=
            ⟨o4.of_dom ho5 k5.isSome, b4.of_hk k5 ho5 (removeFromParent_flows _ _ _ h5).2.1 (removeFromParent_flows _ _ _ h5).2.2.1⟩
          have i6 : CountInv (push s5 (.flowFinished u)) := i5.of_hk (HkEq.refl _) rfl rfl rfl
          obtain ⟨r1, r2, r3, r4⟩ := restart_countParts _ _ _ _ h
          exact i6.of_hk r1 r2 r3 r4

/-- `CountInv` is preserved by every piece of the recursion -/
theorem countInv_closed : Closed CountInv where
  decr := fun s u f hi hf => hi.of_hk (hk_setFlow s u f { f with activated := f.activated - 1 } hf rfl) rfl rfl rfl
  zero := fun _ _ hi => hi.of_hk (hk_modFlow _ _ _ (fun _ => rfl)) (modFlow_order _ _ _) (modFlow_actions _ _ _) (modFlow_out _ _ _)
  mark := fun s u hi => hi.of_hk (markNoRestart_hk s u) (markNoRestart_frame s u).2.2.2.1 (markNoRestart_frame s u).1 (markNoRestart_frame s u).2.1
  abortTail := fun s u d s' hi h => abortTail_countInv s u d s' hi h
  finishTail := fun s u d s' hi h => finishTail_countInv s u d s' hi h
  scopes := fun s u f sc hi hf => hi.of_hk (hk_setFlow s u f { f with scopes := sc } hf rfl) rfl rfl rfl
  stopActions := fun s l s' hi h => stopActions_countInv s l s' hi h

theorem countInv_busy : ClosedBusy CountInv :=
  ⟨fun s u hi => hi.of_hk (s' := markBusy s u) (HkEq.of_flows_eq rfl) rfl rfl rfl,
   fun s l hi => hi.of_hk (s' := { s with busy := l }) (HkEq.of_flows_eq rfl) rfl rfl rfl⟩

/-! ### the operations of the operation-sequence semantics -/

theorem holders_setFlow_eq (s : State) (u : Nat) (f f' : Flow) (hf : s.flows u = some f) (a : Nat) (h : fc f' a = fc f a) :
    holders (setFlow s u f') a = holders s a := by
  unfold holders
  rw [setFlow_order]
  exact congrArg List.sum (List.map_congr_left (fun v _ => by
    by_cases e : v = u
    · subst e; simp only [contrib, setFlow_flows_same, hf, h]
    · simp only [contrib, setFlow_flows_ne _ _ _ _ e]))

theorem OrdInv.setFlow {s : State} (hi : OrdInv s) (u : Nat) (f f' : Flow) (hf : s.flows u = some f) : OrdInv (setFlow s u f') := by
  refine hi.of_dom rfl (fun v => ?_)
  rw [setFlow_flows]; split
  · next e => rw [e, hf]; rfl
  · rfl

/-- a record update under which the instance contributes at least as much as before -/
theorem CountInv.setFlow_mono {s : State} (hi : CountInv s) (u : Nat) (f f' : Flow) (hf : s.flows u = some f)
    (h : ∀ a, fc f a ≤ fc f' a) : CountInv (setFlow s u f') := by
  refine ⟨hi.ord.setFlow u f f' hf, hi.le.transfer ?_⟩
  intro a x hx hr h0
  refine ⟨x, hx, hr, h0, ?_⟩
  have := holders_setFlow_le s u f f' hf a (h a)
  omega

theorem CountInv.setAction_idle {s : State} (hi : CountInv s) (a : Nat) (x : Action) (hx : x.status.running = false) :
    CountInv (setAction s a x) := by
  refine ⟨hi.ord.of_dom rfl (fun _ => rfl), hi.le.transfer ?_⟩
  intro b y hy hr h0
  by_cases hb : b = a
  · subst hb; rw [setAction_actions_same] at hy; cases hy; rw [hx] at hr; cases hr
  · rw [setAction_actions_ne _ _ _ _ hb] at hy
    exact ⟨y, hy, hr, h0, by
      have : holders (setAction s a x) b = holders s b := (HkEq.of_flows_eq rfl).holders rfl b
      rw [this]; omega⟩

/-- an action whose record is changed by `_update_action_status_by_event` is held by a listening instance -/
theorem updActs_touched (e : AEv) : ∀ (l : List Nat) (s : State) (b : Nat), (updActs e s l).actions b = s.actions b ∨ b ∈ l
  | [], s, b => by simp [updActs]
  | a :: as, s, b => by
    simp only [updActs]
    split
    · split
      · rcases updActs_touched e as (setAction s a _) b with h | h
        · by_cases hb : b = a
          · exact Or.inr (hb ▸ List.mem_cons_self ..)
          · rw [setAction_actions_ne _ _ _ _ hb] at h; exact Or.inl h
        · exact Or.inr (List.mem_cons_of_mem _ h)
      · rcases updActs_touched e as s b with h | h
        · exact Or.inl h
        · exact Or.inr (List.mem_cons_of_mem _ h)
    · rcases updActs_touched e as s b with h | h
      · exact Or.inl h
      · exact Or.inr (List.mem_cons_of_mem _ h)

theorem updActs_flows (e : AEv) (s : State) (l : List Nat) : (updActs e s l).flows = s.flows :=
  (updActs_rel e s l s (UpdRel.refl e s)).1

theorem updFlows_touched (e : AEv) : ∀ (l : List Nat) (s : State) (b : Nat),
    (updFlows e s l).actions b = s.actions b ∨
      ∃ v f, v ∈ l ∧ s.flows v = some f ∧ f.status.listening = true ∧ b ∈ f.actionUids
  | [], s, b => by simp [updFlows]
  | u :: us, s, b => by
    simp only [updFlows]
    split
    · next f hf =>
      split
      · next hl =>
        rcases updFlows_touched e us (updActs e s f.actionUids) b with h | ⟨v, g, hv, hg, hgl, hb⟩
        · rcases updActs_touched e f.actionUids s b with h' | h'
          · exact Or.inl (h.trans h')
          · exact Or.inr ⟨u, f, List.mem_cons_self .., hf, hl, h'⟩
        · rw [updActs_flows] at hg
          exact Or.inr ⟨v, g, List.mem_cons_of_mem _ hv, hg, hgl, hb⟩
      · rcases updFlows_touched e us s b with h | ⟨v, g, hv, hg, hgl, hb⟩
        · exact Or.inl h
        · exact Or.inr ⟨v, g, List.mem_cons_of_mem _ hv, hg, hgl, hb⟩
    · rcases updFlows_touched e us s b with h | ⟨v, g, hv, hg, hgl, hb⟩
      · exact Or.inl h
      · exact Or.inr ⟨v, g, List.mem_cons_of_mem _ hv, hg, hgl, hb⟩

theorem update_touched (e : AEv) (s : State) (b : Nat) :
    (updateActionStatusByEvent s e).actions b = s.actions b ∨
      ∃ v f, v ∈ s.order ∧ s.flows v = some f ∧ f.status.listening = true ∧ b ∈ f.actionUids :=
  updFlows_touched e s.order s b

theorem holders_pos_of_held {s : State} {a v : Nat} {f : Flow} (hv : v ∈ s.order) (hf : s.flows v = some f)
    (hl : f.status.listening = true ∨ f.status = .stopping) (ha : a ∈ f.actionUids) : 1 ≤ holders s a := by
  have h1 : 1 ≤ contrib s a v := by
    simp only [contrib, hf, fc]
    have : (f.status.listening || f.status == .stopping) = true := by
      rcases hl with h | h
      · simp [h]
      · simp [h]
    simp only [this, if_true]
    exact List.count_pos_iff.2 ha
  have := le_sum_map (contrib s a) v hv
  unfold holders; omega

theorem processEvent_startOf (x : Action) (a : Nat) : processEvent x a (AEv.startOf a) = ⟨.starting, 1⟩ := by
  simp [processEvent, AEv.startOf]

theorem startAction_countInv {s : State} (hi : CountInv s) (a : Nat) (x : Action) (hx : s.actions a = some x)
    (hini : x.status = .initialized) : CountInv (generateUmim s (.start a) (AEv.startOf a)) := by
  unfold generateUmim
  obtain ⟨hfl, hout, _, hord, hact⟩ := update_rel (AEv.startOf a) (emit s (.start a))
  have hst : ∀ b, stops b (updateActionStatusByEvent (emit s (.start a)) (AEv.startOf a)).out = stops b s.out := by
    intro b; rw [hout, emit_out, stops_append_start]
  have hh : ∀ b, holders (updateActionStatusByEvent (emit s (.start a)) (AEv.startOf a)) b = holders s b :=
    fun b => (HkEq.of_flows_eq (s := s) (by rw [hfl]; rfl)).holders (by rw [hord]; rfl) b
  refine ⟨hi.ord.of_dom (by rw [hord]; rfl) (fun v => by rw [hfl]; rfl), ?_⟩
  intro b y hy hr h0
  rw [hst] at h0; rw [hh]
  by_cases hb : b = a
  · subst hb
    rcases update_touched (AEv.startOf b) (emit s (.start b)) b with h | ⟨v, f, hv, hf, hl, hmem⟩
    · rw [h] at hy
      have : (emit s (.start b)).actions b = s.actions b := rfl
      rw [this, hx] at hy; cases hy
      rw [hini] at hr; cases hr
    · rcases hact b with h | ⟨x', hx', _, ht⟩
      · rw [h] at hy
        have : (emit s (.start b)).actions b = s.actions b := rfl
        rw [this, hx] at hy; cases hy
        rw [hini] at hr; cases hr
      · rw [ht, processEvent_startOf] at hy; cases hy
        have := holders_pos_of_held (s := s) (a := b) hv hf (Or.inl hl) hmem
        simp; omega
  · rcases hact b with h | ⟨x', hx', _, ht⟩
    · rw [h] at hy
      exact hi.le b y hy hr h0
    · rw [ht, processEvent_other _ _ _ (by simpa [AEv.startOf] using fun h => hb h.symm)] at hy
      cases hy
      exact hi.le b _ hx' hr h0

theorem event_countInv {s : State} (hi : CountInv s) (ha : ActInv s) (e : AEv) (he : (e.started || e.updated || e.finished) = true)
    (hni : ∀ x, s.actions e.uid = some x → x.status ≠ .initialized) : CountInv (updateActionStatusByEvent s e) := by
  obtain ⟨hfl, hout, _, hord, hact⟩ := update_rel e s
  have hh : ∀ b, holders (updateActionStatusByEvent s e) b = holders s b :=
    fun b => (HkEq.of_flows_eq hfl).holders hord b
  refine ⟨hi.ord.of_dom hord (fun v => by rw [hfl]), ?_⟩
  intro b y hy hr h0
  rw [hout] at h0; rw [hh]
  rcases hact b with e1 | ⟨x, hx, hxf, ht⟩
  · rw [e1] at hy; exact hi.le b y hy hr h0
  · rw [ht] at hy; cases hy
    by_cases hb : e.uid = b
    · subst hb
      rcases processEvent_ext x e.uid e he with h | h | h
      · rw [h] at hr ⊢; exact hi.le _ x hx hr h0
      · rw [h]
        show x.count + _ ≤ _
        cases hs : x.status with
        | initialized => exact absurd hs (hni x hx)
        | starting => exact hi.le _ x hx (by simp [hs, AStatus.running]) h0
        | started => exact hi.le _ x hx (by simp [hs, AStatus.running]) h0
        | stopping => have := ha.act0 _ x hx hs; omega
        | finished => exact absurd hs hxf
      · rw [h] at hr; simp [AStatus.running] at hr
    · rw [processEvent_other _ _ _ hb] at hr ⊢; exact hi.le b x hx hr h0

theorem count_map_replace (a b : Nat) (hab : a ≠ b) : ∀ (l : List Nat),
    (l.map fun y => if y == b then a else y).count a = l.count a + l.count b
  | [] => by simp
  | y :: l => by
    have ih := count_map_replace a b hab l
    simp only [List.map_cons, List.count_cons]
    rw [ih]
    by_cases h1 : y = b
    · subst h1
      have : ¬ y = a := fun e => hab e.symm
      simp [this] <;> omega
    · by_cases h2 : y = a
      · subst h2; simp [h1] <;> omega
      · simp [h1, h2]

theorem count_map_replace_other (a b c : Nat) (hca : c ≠ a) (hcb : c ≠ b) : ∀ (l : List Nat),
    (l.map fun y => if y == b then a else y).count c = l.count c
  | [] => by simp
  | y :: l => by
    have ih := count_map_replace_other a b c hca hcb l
    simp only [List.map_cons, List.count_cons]
    rw [ih]
    by_cases h1 : y = b
    · subst h1
      have h3 : ¬ a = c := fun e => hca e.symm
      have h4 : ¬ y = c := fun e => hcb e.symm
      simp [h3, h4]
    · simp [h1]

theorem coWin_countInv {s : State} (hi : CountInv s) (loser a b : Nat) (f : Flow) (x : Action) (hf : s.flows loser = some f)
    (hx : s.actions a = some x) (hab : a ≠ b) (hl : f.status.listening = true) (hb : b ∈ f.actionUids) :
    CountInv { setAction (setFlow s loser { f with actionUids := f.actionUids.map fun y => if y == b then a else y }) a { x with count := x.count + 1 } with
      actions := fun v => if v = b then none else
        (setAction (setFlow s loser { f with actionUids := f.actionUids.map fun y => if y == b then a else y }) a { x with count := x.count + 1 }).actions v } := by
  have hlis : (f.status.listening || f.status == .stopping) = true := by simp [hl]
  refine ⟨hi.ord.of_dom rfl (fun v => ?_), ?_⟩
  · show ((setFlow s loser _).flows v).isSome = _
    rw [setFlow_flows]; split
    · next e => rw [e, hf]; rfl
    · rfl
  · intro c y hy hr h0
    have hout : stops c s.out = 0 := h0
    have hy' : (if c = b then none else (setAction (setFlow s loser { f with actionUids := f.actionUids.map fun y => if y == b then a else y }) a
        { x with count := x.count + 1 }).actions c) = some y := hy
    have hhold : ∀ c, holders { setAction (setFlow s loser { f with actionUids := f.actionUids.map fun y => if y == b then a else y }) a { x with count := x.count + 1 } with
        actions := fun v => if v = b then none else
          (setAction (setFlow s loser { f with actionUids := f.actionUids.map fun y => if y == b then a else y }) a { x with count := x.count + 1 }).actions v } c =
        holders (setFlow s loser { f with actionUids := f.actionUids.map fun y => if y == b then a else y }) c := fun _ => rfl
    rw [hhold]
    by_cases hcb : c = b
    · simp [hcb] at hy'
    · simp only [hcb, if_false] at hy'
      by_cases hca : c = a
      · subst hca
        rw [setAction_actions_same] at hy'; cases hy'
        have hsum := sum_map_update (contrib s c)
          (contrib (setFlow s loser { f with actionUids := f.actionUids.map fun y => if y == b then c else y }) c) loser hi.ord.nodup (hi.ord.mem hf)
          (fun v hv => by simp only [contrib, setFlow_flows_ne _ _ _ _ hv])
        have hnew : contrib (setFlow s loser { f with actionUids := f.actionUids.map fun y => if y == b then c else y }) c loser =
            f.actionUids.count c + f.actionUids.count b := by
          simp only [contrib, setFlow_flows_same, fc, hlis, if_true]
          exact count_map_replace c b hab f.actionUids
        have hold : contrib s c loser = f.actionUids.count c := by
          simp only [contrib, hf, fc, hlis, if_true]
        have hbpos : 1 ≤ f.actionUids.count b := List.count_pos_iff.2 hb
        have hle := hi.le c x hx hr hout
        have hsum' : holders (setFlow s loser { f with actionUids := f.actionUids.map fun y => if y == b then c else y }) c + contrib s c loser =
            holders s c + contrib (setFlow s loser { f with actionUids := f.actionUids.map fun y => if y == b then c else y }) c loser := by
          unfold holders; rw [setFlow_order]; exact hsum
        show x.count + 1 + _ ≤ _
        push_cast at hle ⊢
        omega
      · rw [setAction_actions_ne _ _ _ _ hca] at hy'
        have hy0 : s.actions c = some y := hy'
        have heq : holders (setFlow s loser { f with actionUids := f.actionUids.map fun y => if y == b then a else y }) c = holders s c :=
          holders_setFlow_eq s loser f _ hf c (by
            simp only [fc]
            rw [count_map_replace_other a b c hca hcb])
        rw [heq]
        exact hi.le c y hy0 hr hout

theorem labelRestart_hk (s : State) (u : Nat) (s' : State) (h : labelRestart s u = .ok s') :
    HkEq s s' ∧ s'.order = s.order ∧ s'.actions = s.actions ∧ s'.out = s.out := by
  unfold labelRestart at h
  split at h
  · cases h
  · next f hf =>
    split at h
    · cases h; exact ⟨HkEq.refl s, rfl, rfl, rfl⟩
    · cases h
      have hf' : (pushLeft s (.startFlow f.flowId u f.activated u)).flows u = some f := hf
      rw [modFlow_some _ _ _ _ hf']
      exact ⟨hk_setFlow (pushLeft s (.startFlow f.flowId u f.activated u)) u f { f with nis := true } hf' rfl, rfl, rfl, rfl⟩

theorem CountInv.init : CountInv initState := by
  refine ⟨⟨by simp [initState], ?_, ?_⟩, ?_⟩
  · intro v hv
    simp only [initState, List.mem_singleton] at hv
    subst hv; simp [initState]
  · intro v hv
    simp only [initState] at hv ⊢
    split at hv
    · next e => subst e; simp
    · cases hv
  · intro a x hx; simp [initState] at hx

/-- every operation of the operation-sequence semantics preserves the counting invariant -/
theorem CountInv.step (s : State) (op : IOp) (ha : ActInv s) (hc : CountInv s) : CountInv (applyOp s op) := by
  cases op with
  | abort n u d =>
    simp only [applyOp]
    cases h : abortFlow n s u d with
    | error e => exact hc
    | ok s' => exact abortFlow_closed countInv_closed n s u d s' hc h
  | finish n u d =>
    simp only [applyOp]
    cases h : finishFlow n s u d with
    | error e => exact hc
    | ok s' => exact finishFlow_closed countInv_closed n s u d s' hc h
  | endScope n u nm =>
    simp only [applyOp]
    cases h : endScope n s u nm with
    | error e => exact hc
    | ok s' => exact endScope_closed countInv_closed n s u nm s' hc h
  | startChild c fid p k =>
    simp only [applyOp]
    split
    · next hcn hp =>
      rename_i pf
      split
      · next hg =>
        simp only [Bool.and_eq_true, bne_iff_ne, ne_eq] at hg
        have hcp : c ≠ p := hg.1.2
        have hcno : c ∉ s.order := fun h => by have := hc.ord.live c h; rw [hcn] at this; cases this
        have hnew : ∀ v, (setFlow { setFlow s c { freshFlow fid with parent := some p, activated := k } with order := s.order ++ [c] } p
            { pf with children := pf.children ++ [c] }).flows v =
            if v = p then some { pf with children := pf.children ++ [c] }
            else if v = c then some { freshFlow fid with parent := some p, activated := k } else s.flows v := by
          intro v; rw [setFlow_flows]; split
          · rfl
          · show (setFlow s c _).flows v = _
            rw [setFlow_flows]
        have hcon : ∀ a v, v ∈ s.order → contrib (setFlow { setFlow s c { freshFlow fid with parent := some p, activated := k } with order := s.order ++ [c] } p
            { pf with children := pf.children ++ [c] }) a v = contrib s a v := by
          intro a v hv
          have hvc : v ≠ c := fun e => hcno (e ▸ hv)
          simp only [contrib, hnew]
          by_cases hvp : v = p
          · subst hvp; simp only [if_true, hp]; rfl
          · simp only [hvp, hvc, if_false]
        have hconc : ∀ a, contrib (setFlow { setFlow s c { freshFlow fid with parent := some p, activated := k } with order := s.order ++ [c] } p
            { pf with children := pf.children ++ [c] }) a c = 0 := by
          intro a
          simp only [contrib, hnew, hcp, if_false, if_true]
          simp [fc, freshFlow]
        refine ⟨⟨?_, ?_, ?_⟩, ?_⟩
        · show (s.order ++ [c]).Nodup
          rw [List.nodup_append]
          refine ⟨hc.ord.nodup, by simp, ?_⟩
          intro x hx y hy
          simp only [List.mem_singleton] at hy
          subst hy
          exact fun e => hcno (e ▸ hx)
        · intro v hv
          have hv' : v ∈ s.order ++ [c] := hv
          rw [hnew]
          by_cases hvp : v = p
          · simp [hvp]
          · by_cases hvc : v = c
            · simp [hvc, hcp]
            · simp only [hvp, hvc, if_false]
              rcases List.mem_append.1 hv' with h | h
              · exact hc.ord.live v h
              · simp only [List.mem_singleton] at h; exact absurd h hvc
        · intro v hv
          show v ∈ s.order ++ [c]
          rw [hnew] at hv
          by_cases hvp : v = p
          · subst hvp; exact List.mem_append_left _ (hc.ord.mem hp)
          · by_cases hvc : v = c
            · subst hvc; simp
            · simp only [hvp, hvc, if_false] at hv
              exact List.mem_append_left _ (hc.ord.dom v hv)
        · refine hc.le.transfer ?_
          intro a x hx hr h0
          refine ⟨x, hx, hr, h0, ?_⟩
          have : holders (setFlow { setFlow s c { freshFlow fid with parent := some p, activated := k } with order := s.order ++ [c] } p
              { pf with children := pf.children ++ [c] }) a = holders s a := by
            unfold holders
            show ((s.order ++ [c]).map _).sum = _
            rw [List.map_append, List.sum_append, List.map_cons, List.map_nil, List.sum_cons, List.sum_nil, hconc,
              List.map_congr_left (fun v hv => hcon a v hv)]
            omega
          rw [this]; omega
      · exact hc
    · exact hc
  | reactivate fid known act hasInst source pm =>
    simp only [applyOp]
    split
    · next s' r h =>
      rcases processStartFlow_effect s fid known act hasInst source _ s' r h with e | ⟨q, rf, sf, hrf, hsf, _, _, _, e⟩
      · rw [e]; exact hc
      · rw [e]
        have k1 : HkEq s (setFlow s q { rf with activated := rf.activated + 1 }) := hk_setFlow s q rf _ hrf rfl
        have k2 := k1.trans (hk_modFlow (setFlow s q { rf with activated := rf.activated + 1 }) source
          (fun f => { f with children := f.children ++ [q] }) (fun _ => rfl))
        exact hc.of_hk (s' := push _ _) k2 (by simp) (by simp) (by simp)
    · exact hc
  | status u st =>
    simp only [applyOp]
    split
    · next f hf =>
      split
      · next hok =>
        refine hc.setFlow_mono u f _ hf (fun a => ?_)
        apply Nat.le_of_eq
        cases hs : f.status <;> cases st <;> simp [statusStepOk, hs, fc, FStatus.listening] at hok ⊢
      · exact hc
    · exact hc
  | newAction u a =>
    simp only [applyOp]
    split
    · next f hf hna =>
      split
      · refine CountInv.setAction_idle (hc.setFlow_mono u f { f with actionUids := f.actionUids ++ [a] } hf (fun b => ?_)) a _ rfl
        simp only [fc]
        split
        · rw [List.count_append]; omega
        · exact Nat.le_refl _
      · exact hc
    · exact hc
  | startAction a =>
    simp only [applyOp]
    split
    · next x hx =>
      split
      · next hini => exact startAction_countInv hc a x hx (by simpa using hini)
      · exact hc
    · exact hc
  | coWin loser a b =>
    simp only [applyOp]
    split
    · next f x hf hx =>
      split
      · next hg =>
        simp only [Bool.and_eq_true, bne_iff_ne, ne_eq, List.contains_iff_mem] at hg
        exact coWin_countInv hc loser a b f x hf hx hg.1.1.1 hg.1.1.2 (by simpa using hg.1.2)
      · exact hc
    · exact hc
  | event e =>
    by_cases hg : eventOk s e = true
    · have happ : applyOp s (.event e) = updateActionStatusByEvent s e := by simp only [applyOp, hg, if_true]
      rw [happ]
      simp only [eventOk, Bool.and_eq_true] at hg
      refine event_countInv hc ha e hg.1 ?_
      intro x hx
      have := hg.2
      rw [hx] at this
      simpa using this
    · have happ : applyOp s (.event e) = s := by simp only [applyOp, hg]; rfl
      rw [happ]; exact hc
  | label u =>
    simp only [applyOp]
    cases h : labelRestart s u with
    | error e => exact hc
    | ok s' =>
      obtain ⟨k, ho, hact, hout⟩ := labelRestart_hk s u s' h
      exact hc.of_hk k ho hact hout
  | frame u heads scopes =>
    simp only [applyOp]
    split
    · next f hf => exact hc.of_hk (hk_setFlow s u f { f with heads := heads, scopes := scopes } hf rfl) rfl rfl rfl
    · exact hc
  | noRestart u =>
    simp only [applyOp]
    exact hc.of_hk (hk_modFlow _ _ _ (fun _ => rfl)) (modFlow_order _ _ _) (modFlow_actions _ _ _) (modFlow_out _ _ _)

theorem exists_pos_of_sum_pos {l : List Nat} (g : Nat → Nat) (h : 1 ≤ (l.map g).sum) : ∃ v, v ∈ l ∧ 1 ≤ g v := by
  induction l with
  | nil => simp at h
  | cons w l ih =>
    simp only [List.map_cons, List.sum_cons] at h
    by_cases hw : 1 ≤ g w
    · exact ⟨w, List.mem_cons_self .., hw⟩
    · obtain ⟨v, hv, hg⟩ := ih (by omega)
      exact ⟨v, List.mem_cons_of_mem _ hv, hg⟩

/-- clause (iii): a STARTING/STARTED action that has not been sent a `Stop` is in the `action_uids` of an instance
    that is listening or STOPPING (= executing `abort`) -/
theorem count_has_holder {s : State} (hc : CountInv s) (ha : ActInv s) (a : Nat) (x : Action) (hx : s.actions a = some x)
    (hr : x.status.running = true) (h0 : stops a s.out = 0) :
    ∃ v f, v ∈ s.order ∧ s.flows v = some f ∧ (f.status.listening = true ∨ f.status = .stopping) ∧ a ∈ f.actionUids := by
  have h1 := ha.act1 a x hx hr h0
  have h2 := hc.le a x hx hr h0
  have hpos : 1 ≤ holders s a := by omega
  obtain ⟨v, hv, hg⟩ := exists_pos_of_sum_pos (contrib s a) hpos
  unfold contrib at hg
  cases hf : s.flows v with
  | none => rw [hf] at hg; simp at hg
  | some f =>
    rw [hf] at hg
    simp only [fc] at hg
    split at hg
    · next hl =>
      refine ⟨v, f, hv, hf, ?_, List.count_pos_iff.1 hg⟩
      simp only [Bool.or_eq_true, beq_iff_eq] at hl
      exact hl
    · omega

end NemoVerif.Lifetime
