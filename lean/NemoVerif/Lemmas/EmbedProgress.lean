/-
  Progress side of the batching transition system of `Models/Embed.lean`:
  the invariant `PInv` (no task faults, no busy loop, every waiting task has somebody who will wake it),
  deadlock freedom, and a natural-number measure that strictly decreases on every step.
-/
import NemoVerif.Lemmas.Embed
set_option linter.unusedSectionVars false
set_option linter.unusedSimpArgs false
set_option linter.unusedVariables false
namespace NemoVerif.Embed

/-! ### more dict facts -/
namespace Dict
variable {κ ν : Type} [DecidableEq κ]

theorem mem_keys_set_self (d : Dict κ ν) (k : κ) (v : ν) : k ∈ (d.set k v).keys := by
  induction d with
  | nil => simp [set, keys]
  | cons q r ih =>
    obtain ⟨k0, v0⟩ := q
    simp only [set]
    by_cases h : k0 = k
    · simp [h, keys]
    · simp only [h, if_false, keys, List.map_cons, List.mem_cons]
      exact Or.inr ih

theorem mem_keys_set_of_mem {d : Dict κ ν} {k' : κ} (k : κ) (v : ν) (h : k' ∈ d.keys) : k' ∈ (d.set k v).keys := by
  induction d with
  | nil => simp [keys] at h
  | cons q r ih =>
    obtain ⟨k0, v0⟩ := q
    simp only [set]
    by_cases hk : k0 = k
    · simp only [hk, if_true]
      simp only [keys, List.map_cons, List.mem_cons] at h ⊢
      rcases h with h | h
      · exact Or.inl (by rw [h, hk])
      · exact Or.inr h
    · simp only [hk, if_false]
      simp only [keys, List.map_cons, List.mem_cons] at h ⊢
      rcases h with h | h
      · exact Or.inl h
      · exact Or.inr (ih h)

theorem get?_isSome_of_mem_keys {d : Dict κ ν} {k : κ} (h : k ∈ d.keys) : (d.get? k).isSome = true := by
  simp only [keys, List.mem_map] at h
  obtain ⟨q, hq, rfl⟩ := h
  exact get?_isSome_of_mem (v := q.2) hq

theorem mem_keys_erase {d : Dict κ ν} {k k' : κ} (h : k' ∈ d.keys) (hne : k' ≠ k) : k' ∈ (d.erase k).keys := by
  simp only [keys, List.mem_map, erase, List.mem_filter] at h ⊢
  obtain ⟨q, hq, rfl⟩ := h
  exact ⟨q, ⟨hq, by simpa using hne⟩, rfl⟩

theorem keys_length (d : Dict κ ν) : d.keys.length = d.vals.length := by simp [keys, vals]

end Dict

section Progress
variable {α κ β : Type} [DecidableEq α] [DecidableEq κ]

theorem mem_keys_writeResults_of_mem (ids : List Nat) (embs : List (Option β)) :
    ∀ (res : Dict Nat (Option β)) k, k ∈ res.keys → k ∈ (writeResults res ids embs).keys := by
  unfold writeResults
  generalize ids.zip embs = z
  induction z with
  | nil => intro res k h; exact h
  | cons a r ih =>
    intro res k h
    simp only [List.foldl_cons]
    exact ih _ k (Dict.mem_keys_set_of_mem _ _ h)

theorem mem_keys_writeResults (ids : List Nat) :
    ∀ (embs : List (Option β)) (res : Dict Nat (Option β)), ids.length ≤ embs.length →
      ∀ k ∈ ids, k ∈ (writeResults res ids embs).keys := by
  induction ids with
  | nil => intro _ _ _ k hk; simp at hk
  | cons a r ih =>
    intro embs res hl k hk
    cases embs with
    | nil => simp at hl
    | cons e es =>
      have hstep : writeResults res (a :: r) (e :: es) = writeResults (res.set a e) r es := by
        simp [writeResults]
      rw [hstep]
      rcases List.mem_cons.1 hk with h | h
      · subst h
        exact mem_keys_writeResults_of_mem r es _ _ (Dict.mem_keys_set_self _ _ _)
      · exact ih es _ (by simpa using hl) k h

theorem beginCall_texts (cfg : CacheCfg) (g : α → κ) (store : Dict κ β) (texts : List α) :
    (beginCall cfg g store texts).texts = texts := by
  unfold beginCall; split <;> rfl

theorem endCall_length (cfg : CacheCfg) (g : α → κ) (f : α → β) (store : Dict κ β) (p : Pending α β)
    (hsh : PendingShape cfg p) : (endCall cfg g store p (p.uncached.map f)).2.length = p.texts.length := by
  unfold endCall
  by_cases he : cfg.enabled
  · simp [he, callEnd]
  · have := hsh (by simpa using he)
    simp [he, this]

/-- batch task has not yet emptied the queue -/
def BPc.isPre : BPc α β → Bool
  | .created => true
  | .waiting _ => true
  | _ => false

/-- where the request id `id` that was handed to batch number `b` currently lives -/
def Stage (s : State α κ β) (b id : Nat) : Prop :=
  (∃ bp, s.batches[b]? = some bp ∧ bp.isPre = true ∧ id ∈ s.queue.keys) ∨
  (∃ ev ids p, s.batches[b]? = some (.running ev ids p) ∧ id ∈ ids) ∨
  (s.batches[b]? = some .done ∧ id ∈ s.results.keys)

def RInv (s : State α κ β) (r : Req α β) : Prop :=
  match r.pc with
  | .ready => True
  | .waitSub => s.submitted = false ∧ s.finEv.isSome = true
  | .waitFin ev id => id < s.idx ∧ ∃ b, ev = 2 * b ∧ Stage s b id
  | .done _ => True
  | .spin => False
  | .crashed => False

/-- the progress invariant (the finished event of batch number `b` is the Event object number `2*b`) -/
structure PInv (cfg : CacheCfg) (s : State α κ β) : Prop where
  nextEv : s.nextEv = 2 * s.batches.length
  finPre : ∀ e, s.finEv = some e → ∃ b bp, e = 2 * b ∧ s.batches[b]? = some bp ∧ bp.isPre = true
  preFin : ∀ b bp, s.batches[b]? = some bp → bp.isPre = true → s.finEv = some (2 * b)
  running : ∀ b ev ids p, s.batches[b]? = some (.running ev ids p) →
    ev = some (2 * b) ∧ ids.length = p.texts.length ∧ PendingShape cfg p
  finSetDone : ∀ e, e ∈ s.finSet → ∃ b, e = 2 * b ∧ s.batches[b]? = some .done
  doneFinSet : ∀ b, s.batches[b]? = some .done → 2 * b ∈ s.finSet
  noCrashB : ∀ b : Nat, s.batches[b]? ≠ some (BPc.crashed : BPc α β)
  full : s.finEv.isSome = true → s.fullEv.isSome = true
  subm : s.submitted = true → s.finEv = none
  qempty : s.finEv = none → s.queue = []
  reqs : ∀ (j : Nat) (rj : Req α β), s.reqs[j]? = some rj → RInv s rj
  uniq : ∀ (i j : Nat) (ri rj : Req α β) (evi evj id : Nat), s.reqs[i]? = some ri → s.reqs[j]? = some rj →
    ri.pc = RPc.waitFin evi id → rj.pc = RPc.waitFin evj id → i = j

/-- `Stage`/`RInv` only look at these fields -/
theorem Stage.frame {s s' : State α κ β} {b id : Nat}
    (hb : ∀ bp, s.batches[b]? = some bp → s'.batches[b]? = some bp)
    (hq : id ∈ s.queue.keys → id ∈ s'.queue.keys)
    (hr : id ∈ s.results.keys → id ∈ s'.results.keys)
    (h : Stage s b id) : Stage s' b id := by
  rcases h with ⟨bp, h1, h2, h3⟩ | ⟨ev, ids, p, h1, h2⟩ | ⟨h1, h2⟩
  · exact Or.inl ⟨bp, hb _ h1, h2, hq h3⟩
  · exact Or.inr (Or.inl ⟨ev, ids, p, hb _ h1, h2⟩)
  · exact Or.inr (Or.inr ⟨hb _ h1, hr h2⟩)

theorem RInv.frame {s s' : State α κ β} {r : Req α β}
    (hsub : s.submitted = false ∧ s.finEv.isSome = true → s'.submitted = false ∧ s'.finEv.isSome = true)
    (hidx : s.idx ≤ s'.idx)
    (hst : ∀ ev id, r.pc = .waitFin ev id → ∀ b, Stage s b id → Stage s' b id)
    (h : RInv s r) : RInv s' r := by
  unfold RInv at *
  split
  · trivial
  · rename_i hpc; rw [hpc] at h; exact hsub h
  · rename_i ev id hpc
    rw [hpc] at h
    obtain ⟨h1, b, h2, h3⟩ := h
    exact ⟨Nat.lt_of_lt_of_le h1 hidx, b, h2, hst ev id hpc b h3⟩
  · trivial
  · rename_i hpc; rw [hpc] at h; exact h
  · rename_i hpc; rw [hpc] at h; exact h

theorem lt_of_getElem?_some {γ : Type} {l : List γ} {i : Nat} {x : γ} (h : l[i]? = some x) : i < l.length := by
  rcases Nat.lt_or_ge i l.length with h' | h'
  · exact h'
  · rw [List.getElem?_eq_none h'] at h; cases h

theorem pinv_init (cfg : CacheCfg) (reqTexts : List α) (directTexts : List (List α)) (store0 : Dict κ β) :
    PInv cfg (init reqTexts directTexts store0) := by
  refine ⟨by simp [init], ?_, ?_, ?_, ?_, ?_, ?_, ?_, ?_, ?_, ?_, ?_⟩ <;> simp only [init]
  · intro e h; cases h
  · intro b bp h; simp at h
  · intro b ev ids p h; simp at h
  · intro e h; simp at h
  · intro b h; simp at h
  · intro b h; simp at h
  · intro h; simp at h
  · intro h; cases h
  · intro _; trivial
  · intro j rj hj
    obtain ⟨t, _, rfl⟩ := List.mem_map.1 (List.mem_of_getElem? hj)
    simp [RInv]
  · intro i j ri rj evi evj id hi _ hpi _
    rw [List.getElem?_map] at hi
    cases hx : reqTexts[i]? with
    | none => rw [hx] at hi; simp at hi
    | some t => rw [hx] at hi; simp at hi; subst hi; simp at hpi

/-- updating one request task, shared state untouched -/
theorem pinv_setReq {cfg : CacheCfg} {s : State α κ β} (hP : PInv cfg s) (i : Nat) (r : Req α β) (pc : RPc β)
    (hr : s.reqs[i]? = some r) (hok : RInv s { r with pc := pc })
    (hu : ∀ ev id, pc = .waitFin ev id → ∀ j rj evj, s.reqs[j]? = some rj → rj.pc = .waitFin evj id → j = i) :
    PInv cfg (setReq s i r pc) := by
  have hlt : i < s.reqs.length := lt_of_getElem?_some hr
  refine { hP with reqs := ?_, uniq := ?_ }
  · intro j rj hj
    simp only [setReq, List.getElem?_set, hlt, if_true] at hj
    by_cases hji : i = j
    · simp only [hji, if_true] at hj; cases hj; exact hok
    · simp only [hji, if_false] at hj; exact hP.reqs j rj hj
  · intro a b ra rb eva evb id ha hb hpa hpb
    simp only [setReq, List.getElem?_set, hlt, if_true] at ha hb
    by_cases hai : i = a
    · by_cases hbi : i = b
      · rw [← hai, ← hbi]
      · simp only [hai, if_true] at ha
        simp only [hbi, if_false] at hb
        cases ha
        have := hu eva id hpa b rb evb hb hpb
        rw [← hai]; exact this.symm
    · simp only [hai, if_false] at ha
      by_cases hbi : i = b
      · simp only [hbi, if_true] at hb
        cases hb
        have := hu evb id hpb a ra eva ha hpa
        rw [← hbi]; exact this
      · simp only [hbi, if_false] at hb
        exact hP.uniq a b ra rb eva evb id ha hb hpa hpb

/-- a request whose finished event is set finds its result (no KeyError) and returns -/
theorem pinv_collectAt {cfg : CacheCfg} {s : State α κ β} (hP : PInv cfg s) (i : Nat) (r : Req α β) (ev id : Nat)
    (hr : s.reqs[i]? = some r) (hpc : r.pc = .waitFin ev id) (hset : ev ∈ s.finSet) :
    PInv cfg (collectAt s i r id) := by
  have hlt : i < s.reqs.length := lt_of_getElem?_some hr
  have hri := hP.reqs i r hr
  simp only [RInv, hpc] at hri
  obtain ⟨_, b, hev, hst⟩ := hri
  obtain ⟨b', hev', hdone⟩ := hP.finSetDone ev hset
  have hbb : b' = b := by omega
  subst hbb
  have hin : id ∈ s.results.keys := by
    rcases hst with ⟨bp, h1, h2, _⟩ | ⟨ev2, ids, p, h1, _⟩ | ⟨_, h2⟩
    · rw [hdone] at h1; cases h1; simp [BPc.isPre] at h2
    · rw [hdone] at h1; cases h1
    · exact h2
  have hsome := Dict.get?_isSome_of_mem_keys hin
  unfold collectAt
  cases hg : s.results.get? id with
  | none => rw [hg] at hsome; simp at hsome
  | some v =>
    simp only []
    refine { hP with reqs := ?_, uniq := ?_ }
    · intro j rj hj
      simp only [setReq, List.getElem?_set, hlt, if_true] at hj
      by_cases hji : i = j
      · simp only [hji, if_true] at hj; cases hj; simp [RInv]
      · simp only [hji, if_false] at hj
        refine RInv.frame (s := s) (fun h => h) (Nat.le_refl _) ?_ (hP.reqs j rj hj)
        intro evj idj hpj b2 hs2
        have hne : idj ≠ id := by
          intro e; subst e
          exact hji (hP.uniq i j r rj ev evj idj hr hj hpc hpj)
        exact Stage.frame (s := s) (fun bp h => h) (fun h => h) (fun h => Dict.mem_keys_erase h hne) hs2
    · intro a b2 ra rb eva evb id2 ha hb hpa hpb
      simp only [setReq, List.getElem?_set, hlt, if_true] at ha hb
      by_cases hai : i = a
      · simp only [hai, if_true] at ha; cases ha; cases hpa
      · simp only [hai, if_false] at ha
        by_cases hbi : i = b2
        · simp only [hbi, if_true] at hb; cases hb; cases hpb
        · simp only [hbi, if_false] at hb
          exact hP.uniq a b2 ra rb eva evb id2 ha hb hpa hpb

/-- enqueue (lines 238-246): the shared state after the request filed itself and possibly started a batch -/
theorem pinv_enq12 {cfg : CacheCfg} {s : State α κ β} (hP : PInv cfg s) (t : α) :
    PInv cfg (enq2 (enq1 s t)) ∧ (enq2 (enq1 s t)).reqs = s.reqs ∧ (enq2 (enq1 s t)).idx = s.idx + 1 ∧
    s.idx ∈ (enq2 (enq1 s t)).queue.keys ∧ (enq2 (enq1 s t)).finEv.isSome = true ∧
    (enq2 (enq1 s t)).finSet = s.finSet := by
  unfold enq2
  by_cases hn : s.finEv.isNone = true
  · -- a new batch task, number `s.batches.length`
    have hfn : s.finEv = none := by simpa using hn
    have hnopre : ∀ (b : Nat) (bp : BPc α β), s.batches[b]? = some bp → bp.isPre = true → False := by
      intro b bp h1 h2
      have := hP.preFin b bp h1 h2
      rw [hfn] at this; cases this
    have hq : s.queue = [] := hP.qempty hfn
    have hcond : (enq1 s t).finEv.isNone = true := hn
    rw [if_pos hcond]
    refine ⟨?_, rfl, rfl, ?_, rfl, rfl⟩
    · refine ⟨?_, ?_, ?_, ?_, ?_, ?_, ?_, ?_, ?_, ?_, ?_, ?_⟩
      · simp only [enq1, List.length_append, List.length_singleton]; rw [hP.nextEv]; omega
      · intro e he
        simp only [enq1] at he
        refine ⟨s.batches.length, .created, ?_, ?_, rfl⟩
        · rw [hP.nextEv] at he; cases he; rfl
        · simp [enq1]
      · intro b bp hb hpre
        simp only [enq1] at hb ⊢
        rcases Nat.lt_or_ge b s.batches.length with hlt | hge
        · rw [List.getElem?_append_left hlt] at hb
          exact False.elim (hnopre b bp hb hpre)
        · rw [List.getElem?_append_right hge] at hb
          have : b - s.batches.length = 0 := by
            rcases Nat.eq_zero_or_pos (b - s.batches.length) with h | h
            · exact h
            · rw [List.getElem?_eq_none (by simp; omega)] at hb; cases hb
          have hb' : b = s.batches.length := by omega
          rw [hb', hP.nextEv]
      · intro b ev ids p hb
        simp only [enq1] at hb
        rcases Nat.lt_or_ge b s.batches.length with hlt | hge
        · rw [List.getElem?_append_left hlt] at hb
          exact hP.running b ev ids p hb
        · rw [List.getElem?_append_right hge] at hb
          rcases Nat.eq_zero_or_pos (b - s.batches.length) with h | h
          · rw [h] at hb; simp at hb
          · rw [List.getElem?_eq_none (by simp; omega)] at hb; cases hb
      · intro e he
        obtain ⟨b, h1, h2⟩ := hP.finSetDone e he
        refine ⟨b, h1, ?_⟩
        simp only [enq1]
        rw [List.getElem?_append_left (lt_of_getElem?_some h2)]; exact h2
      · intro b hb
        simp only [enq1] at hb
        rcases Nat.lt_or_ge b s.batches.length with hlt | hge
        · rw [List.getElem?_append_left hlt] at hb
          exact hP.doneFinSet b hb
        · rw [List.getElem?_append_right hge] at hb
          rcases Nat.eq_zero_or_pos (b - s.batches.length) with h | h
          · rw [h] at hb; simp at hb
          · rw [List.getElem?_eq_none (by simp; omega)] at hb; cases hb
      · intro b hb
        simp only [enq1] at hb
        rcases Nat.lt_or_ge b s.batches.length with hlt | hge
        · rw [List.getElem?_append_left hlt] at hb
          exact hP.noCrashB b hb
        · rw [List.getElem?_append_right hge] at hb
          rcases Nat.eq_zero_or_pos (b - s.batches.length) with h | h
          · rw [h] at hb; simp at hb
          · rw [List.getElem?_eq_none (by simp; omega)] at hb; cases hb
      · intro _; rfl
      · intro h; cases h
      · intro h; cases h
      · intro j rj hj
        simp only [enq1] at hj
        refine RInv.frame (s := s) ?_ (Nat.le_succ _) ?_ (hP.reqs j rj hj)
        · intro _; exact ⟨rfl, rfl⟩
        · intro evj idj _ b2 hs2
          refine Stage.frame (s := s) ?_ ?_ (fun h => h) hs2
          · intro bp h
            simp only [enq1]
            rw [List.getElem?_append_left (lt_of_getElem?_some h)]; exact h
          · intro h; exact Dict.mem_keys_set_of_mem _ _ h
      · intro a b ra rb eva evb id ha hb hpa hpb
        exact hP.uniq a b ra rb eva evb id ha hb hpa hpb
    · exact Dict.mem_keys_set_self _ _ _
  · -- joins the batch that is collecting
    have hcond : ¬ (enq1 s t).finEv.isNone = true := hn
    rw [if_neg hcond]
    have hsome : s.finEv.isSome = true := by
      cases h : s.finEv with
      | none => rw [h] at hn; simp at hn
      | some e => rfl
    refine ⟨?_, rfl, rfl, Dict.mem_keys_set_self _ _ _, hsome, rfl⟩
    refine { hP with qempty := ?_, reqs := ?_ }
    · intro h
      have : s.finEv = none := h
      rw [this] at hsome; cases hsome
    · intro j rj hj
      refine RInv.frame (s := s) (fun h => h) (Nat.le_succ _) ?_ (hP.reqs j rj hj)
      intro evj idj _ b2 hs2
      exact Stage.frame (s := s) (fun bp h => h) (fun h => Dict.mem_keys_set_of_mem _ _ h) (fun h => h) hs2

theorem pinv_enq3 {cfg : CacheCfg} {s : State α κ β} (max : Nat) (hP : PInv cfg s) (hf : s.finEv.isSome = true) :
    PInv cfg (enq3 max s).1 ∧ (enq3 max s).2 = s.finEv ∧ (enq3 max s).1.reqs = s.reqs ∧
    (enq3 max s).1.idx = s.idx ∧ (enq3 max s).1.queue = s.queue ∧ (enq3 max s).1.finSet = s.finSet ∧
    (enq3 max s).1.finEv = s.finEv ∧ (enq3 max s).1.batches = s.batches := by
  have hfull := hP.full hf
  unfold enq3
  split
  · split
    · exact ⟨{ hP with }, rfl, rfl, rfl, rfl, rfl, rfl, rfl⟩
    · rename_i hnone; rw [hnone] at hfull; cases hfull
  · exact ⟨hP, rfl, rfl, rfl, rfl, rfl, rfl, rfl⟩

theorem wake_waitFin {r : Req α β} {ev id : Nat} (h : (wake r).pc = .waitFin ev id) : r.pc = .waitFin ev id := by
  unfold wake at h
  split at h
  · cases h
  · exact h

theorem set_get_ne {γ : Type} {l : List γ} {b b' : Nat} {x y : γ} (hne : b ≠ b') (h : (l.set b x)[b']? = some y) :
    l[b']? = some y := by
  rw [List.getElem?_set_ne hne] at h; exact h

theorem set_get_ne' {γ : Type} {l : List γ} {b b' : Nat} {x y : γ} (hne : b ≠ b') (h : l[b']? = some y) :
    (l.set b x)[b']? = some y := by
  rw [List.getElem?_set_ne hne]; exact h

/-- `_run_batch` first section: created → waiting (both "pre-take") -/
theorem pinv_setBatch_pre {cfg : CacheCfg} {s : State α κ β} (hP : PInv cfg s) (b : Nat) (bp bp' : BPc α β)
    (hb : s.batches[b]? = some bp) (hpre : bp.isPre = true) (hpre' : bp'.isPre = true) :
    PInv cfg { s with batches := s.batches.set b bp' } := by
  have hlt : b < s.batches.length := lt_of_getElem?_some hb
  have hself : (s.batches.set b bp')[b]? = some bp' := List.getElem?_set_self hlt
  refine { hP with nextEv := ?_, finPre := ?_, preFin := ?_, running := ?_, finSetDone := ?_, doneFinSet := ?_,
                   noCrashB := ?_, reqs := ?_ }
  · simp only [List.length_set]; exact hP.nextEv
  · intro e he
    obtain ⟨b0, bp0, h1, h2, h3⟩ := hP.finPre e he
    by_cases hbb : b = b0
    · subst hbb; exact ⟨b, bp', h1, hself, hpre'⟩
    · exact ⟨b0, bp0, h1, set_get_ne' hbb h2, h3⟩
  · intro b' bq hq hqpre
    by_cases hbb : b = b'
    · subst hbb; exact hP.preFin b bp hb hpre
    · exact hP.preFin b' bq (set_get_ne hbb hq) hqpre
  · intro b' ev ids p hq
    by_cases hbb : b = b'
    · subst hbb; rw [hself] at hq; cases hq; simp [BPc.isPre] at hpre'
    · exact hP.running b' ev ids p (set_get_ne hbb hq)
  · intro e he
    obtain ⟨b0, h1, h2⟩ := hP.finSetDone e he
    by_cases hbb : b = b0
    · subst hbb; rw [hb] at h2; cases h2; simp [BPc.isPre] at hpre
    · exact ⟨b0, h1, set_get_ne' hbb h2⟩
  · intro b' hq
    by_cases hbb : b = b'
    · subst hbb; rw [hself] at hq; cases hq; simp [BPc.isPre] at hpre'
    · exact hP.doneFinSet b' (set_get_ne hbb hq)
  · intro b' hq
    by_cases hbb : b = b'
    · subst hbb; rw [hself] at hq; cases hq; simp [BPc.isPre] at hpre'
    · exact hP.noCrashB b' (set_get_ne hbb hq)
  · intro j rj hj
    refine RInv.frame (s := s) (fun h => h) (Nat.le_refl _) ?_ (hP.reqs j rj hj)
    intro evj idj _ b2 hs2
    by_cases hbb : b = b2
    · subst hbb
      rcases hs2 with ⟨bq, h1, h2, h3⟩ | ⟨ev2, ids, p, h1, _⟩ | ⟨h1, _⟩
      · exact Or.inl ⟨bp', hself, hpre', h3⟩
      · rw [hb] at h1; cases h1; simp [BPc.isPre] at hpre
      · rw [hb] at h1; cases h1; simp [BPc.isPre] at hpre
    · exact Stage.frame (s := s) (fun bq h => set_get_ne' hbb h) (fun h => h) (fun h => h) hs2

theorem pinv_take {cfg : CacheCfg} {s : State α κ β} (g : α → κ) (hP : PInv cfg s) (b fe : Nat)
    (hb : s.batches[b]? = some (.waiting fe)) :
    PInv cfg { s with finEv := none, queue := [], submitted := true, reqs := s.reqs.map wake, batches := s.batches.set b (.running s.finEv s.queue.keys (beginCall cfg g s.store s.queue.vals)) } := by
  have hlt : b < s.batches.length := lt_of_getElem?_some hb
  have hfin : s.finEv = some (2 * b) := hP.preFin b _ hb rfl
  have hself : (s.batches.set b (.running s.finEv s.queue.keys (beginCall cfg g s.store s.queue.vals)))[b]?
      = some (.running s.finEv s.queue.keys (beginCall cfg g s.store s.queue.vals)) := List.getElem?_set_self hlt
  have hreq : ∀ (j : Nat) (rj : Req α β), (s.reqs.map wake)[j]? = some rj → ∃ r0 : Req α β, s.reqs[j]? = some r0 ∧ rj = wake r0 := by
    intro j rj hj
    rw [List.getElem?_map] at hj
    cases h0 : s.reqs[j]? with
    | none => rw [h0] at hj; cases hj
    | some r0 => rw [h0] at hj; simp at hj; exact ⟨r0, rfl, hj.symm⟩
  refine ⟨?_, ?_, ?_, ?_, ?_, ?_, ?_, ?_, ?_, ?_, ?_, ?_⟩
  · simp only [List.length_set]; exact hP.nextEv
  · intro e he; cases he
  · intro b' bq hq hqpre
    by_cases hbb : b = b'
    · subst hbb; rw [hself] at hq; cases hq; simp [BPc.isPre] at hqpre
    · have := hP.preFin b' bq (set_get_ne hbb hq) hqpre
      rw [hfin] at this
      exact absurd (by have := Option.some.inj this; omega) hbb
  · intro b' ev ids p hq
    by_cases hbb : b = b'
    · subst hbb
      rw [hself] at hq; cases hq
      exact ⟨hfin, by rw [beginCall_texts]; exact Dict.keys_length _, beginCall_shape cfg g s.store _⟩
    · exact hP.running b' ev ids p (set_get_ne hbb hq)
  · intro e he
    obtain ⟨b0, h1, h2⟩ := hP.finSetDone e he
    by_cases hbb : b = b0
    · subst hbb; rw [hb] at h2; cases h2
    · exact ⟨b0, h1, set_get_ne' hbb h2⟩
  · intro b' hq
    by_cases hbb : b = b'
    · subst hbb; rw [hself] at hq; cases hq
    · exact hP.doneFinSet b' (set_get_ne hbb hq)
  · intro b' hq
    by_cases hbb : b = b'
    · subst hbb; rw [hself] at hq; cases hq
    · exact hP.noCrashB b' (set_get_ne hbb hq)
  · intro h; cases h
  · intro _; rfl
  · intro _; rfl
  · intro j rj hj
    obtain ⟨r0, h0, rfl⟩ := hreq j rj hj
    have hold := hP.reqs j r0 h0
    unfold wake
    split
    · simp [RInv]
    · rename_i hnw
      unfold RInv at hold ⊢
      split
      · trivial
      · rename_i hpc; exact absurd hpc hnw
      · rename_i evj idj hpc
        rw [hpc] at hold
        obtain ⟨h1, b2, h2, h3⟩ := hold
        refine ⟨h1, b2, h2, ?_⟩
        rcases h3 with ⟨bq, h4, h5, h6⟩ | ⟨ev2, ids, p, h4, h5⟩ | ⟨h4, h5⟩
        · have := hP.preFin b2 bq h4 h5
          rw [hfin] at this
          have hbb : b2 = b := by have := Option.some.inj this; omega
          subst hbb
          exact Or.inr (Or.inl ⟨_, _, _, hself, h6⟩)
        · have hbb : b ≠ b2 := by
            intro e; subst e; rw [hb] at h4; cases h4
          exact Or.inr (Or.inl ⟨ev2, ids, p, set_get_ne' hbb h4, h5⟩)
        · have hbb : b ≠ b2 := by
            intro e; subst e; rw [hb] at h4; cases h4
          exact Or.inr (Or.inr ⟨set_get_ne' hbb h4, h5⟩)
      · trivial
      · rename_i hpc; rw [hpc] at hold; exact hold
      · rename_i hpc; rw [hpc] at hold; exact hold
  · intro a c ra rc eva evc id ha hc hpa hpc
    obtain ⟨ra0, ha0, rfl⟩ := hreq a ra ha
    obtain ⟨rc0, hc0, rfl⟩ := hreq c rc hc
    exact hP.uniq a c ra0 rc0 eva evc id ha0 hc0 (wake_waitFin hpa) (wake_waitFin hpc)

theorem pinv_finish {cfg : CacheCfg} {s : State α κ β} (g : α → κ) (f : α → β) (hP : PInv cfg s) (b : Nat)
    (ev : Option Nat) (ids : List Nat) (p : Pending α β) (hb : s.batches[b]? = some (.running ev ids p)) :
    ev = some (2 * b) ∧
    PInv cfg { s with store := (endCall cfg g s.store p (p.uncached.map f)).1, results := writeResults s.results ids (endCall cfg g s.store p (p.uncached.map f)).2, finSet := (2 * b) :: s.finSet, batches := s.batches.set b .done } := by
  have hlt : b < s.batches.length := lt_of_getElem?_some hb
  obtain ⟨hev, hlen, hsh⟩ := hP.running b ev ids p hb
  have hself : (s.batches.set b (.done : BPc α β))[b]? = some .done := List.getElem?_set_self hlt
  refine ⟨hev, ?_⟩
  refine { hP with nextEv := ?_, finPre := ?_, preFin := ?_, running := ?_, finSetDone := ?_, doneFinSet := ?_,
                   noCrashB := ?_, reqs := ?_ }
  · simp only [List.length_set]; exact hP.nextEv
  · intro e he
    obtain ⟨b0, bp0, h1, h2, h3⟩ := hP.finPre e he
    have hbb : b ≠ b0 := by
      intro e'; subst e'; rw [hb] at h2; cases h2; simp [BPc.isPre] at h3
    exact ⟨b0, bp0, h1, set_get_ne' hbb h2, h3⟩
  · intro b' bq hq hqpre
    by_cases hbb : b = b'
    · subst hbb; rw [hself] at hq; cases hq; simp [BPc.isPre] at hqpre
    · exact hP.preFin b' bq (set_get_ne hbb hq) hqpre
  · intro b' ev' ids' p' hq
    by_cases hbb : b = b'
    · subst hbb; rw [hself] at hq; cases hq
    · exact hP.running b' ev' ids' p' (set_get_ne hbb hq)
  · intro e he
    rcases List.mem_cons.1 he with h | h
    · exact ⟨b, h, hself⟩
    · obtain ⟨b0, h1, h2⟩ := hP.finSetDone e h
      by_cases hbb : b = b0
      · subst hbb; exact ⟨b, h1, hself⟩
      · exact ⟨b0, h1, set_get_ne' hbb h2⟩
  · intro b' hq
    by_cases hbb : b = b'
    · subst hbb; exact List.mem_cons_self
    · exact List.mem_cons_of_mem _ (hP.doneFinSet b' (set_get_ne hbb hq))
  · intro b' hq
    by_cases hbb : b = b'
    · subst hbb; rw [hself] at hq; cases hq
    · exact hP.noCrashB b' (set_get_ne hbb hq)
  · intro j rj hj
    refine RInv.frame (s := s) (fun h => h) (Nat.le_refl _) ?_ (hP.reqs j rj hj)
    intro evj idj _ b2 hs2
    by_cases hbb : b = b2
    · subst hbb
      rcases hs2 with ⟨bq, h1, h2, _⟩ | ⟨ev2, ids2, p2, h1, h2⟩ | ⟨h1, _⟩
      · rw [hb] at h1; cases h1; simp [BPc.isPre] at h2
      · rw [hb] at h1; cases h1
        refine Or.inr (Or.inr ⟨hself, ?_⟩)
        apply mem_keys_writeResults
        · rw [endCall_length cfg g f s.store p hsh]; omega
        · exact h2
      · rw [hb] at h1; cases h1
    · exact Stage.frame (s := s) (fun bq h => set_get_ne' hbb h) (fun h => h)
        (fun h => mem_keys_writeResults_of_mem _ _ _ _ h) hs2

/-- **preservation** of the progress invariant by every step, for `1 ≤ max_batch_size` -/
theorem pinv_step {cfg : CacheCfg} {max : Nat} (hmax : 1 ≤ max) (g : α → κ) (f : α → β) {s s' : State α κ β}
    (l : Label) (hP : PInv cfg s) (hs : step cfg max g f s l = some s') : PInv cfg s' := by
  cases l with
  | enter i =>
    simp only [step, stepEnter] at hs
    cases hr : s.reqs[i]? with
    | none => simp [hr] at hs
    | some r =>
      simp only [hr] at hs
      cases hpc : r.pc <;> simp only [hpc] at hs <;> try (cases hs)
      split at hs
      · -- queue full: wait for `submitted`; the event cannot be set (no busy loop)
        rename_i hfullq
        cases hs
        have hqne : s.queue ≠ [] := by
          intro e; rw [e] at hfullq; simp at hfullq; omega
        have hfin : s.finEv.isSome = true := by
          cases h : s.finEv with
          | none => exact absurd (hP.qempty h) hqne
          | some e => rfl
        have hsub : s.submitted = false := by
          cases h : s.submitted with
          | false => rfl
          | true => have := hP.subm h; rw [this] at hfin; cases hfin
        refine pinv_setReq hP i r _ hr ?_ ?_
        · simp [RInv, hsub, hfin]
        · intro ev id h; rw [hsub] at h; cases h
      · obtain ⟨hP2, hreqs2, hidx2, hkey2, hfin2, hfs2⟩ := pinv_enq12 hP r.text
        obtain ⟨hP3, hret, hreqs3, hidx3, hq3, hfs3, hfin3, hb3⟩ := pinv_enq3 max hP2 hfin2
        cases hfe : (enq2 (enq1 s r.text)).finEv with
        | none => rw [hfe] at hfin2; cases hfin2
        | some e =>
          have heq : enqueue max s r.text = ((enq3 max (enq2 (enq1 s r.text))).1, some e) := by
            unfold enqueue
            rw [← hfe, ← hret]
          rw [heq] at hs
          simp only [] at hs
          cases hs
          have hr3 : (enq3 max (enq2 (enq1 s r.text))).1.reqs[i]? = some r := by rw [hreqs3, hreqs2]; exact hr
          have hfin3' : (enq3 max (enq2 (enq1 s r.text))).1.finEv = some e := by rw [hfin3]; exact hfe
          obtain ⟨b, bp, he, hbb, hbpre⟩ := hP3.finPre e hfin3'
          unfold awaitFin
          split
          · rename_i hin
            obtain ⟨b', he', hdone⟩ := hP3.finSetDone e hin
            have : b' = b := by omega
            subst this
            rw [hbb] at hdone; cases hdone; simp [BPc.isPre] at hbpre
          · refine pinv_setReq hP3 i r _ hr3 ?_ ?_
            · simp only [RInv]
              refine ⟨by rw [hidx3, hidx2]; omega, b, he, Or.inl ⟨bp, hbb, hbpre, by rw [hq3]; exact hkey2⟩⟩
            · intro ev id h j rj evj hj hpj
              cases h
              rw [hreqs3, hreqs2] at hj
              have := hP.reqs j rj hj
              simp only [RInv, hpj] at this
              omega
  | collect i =>
    simp only [step, stepCollect] at hs
    cases hr : s.reqs[i]? with
    | none => simp [hr] at hs
    | some r =>
      simp only [hr] at hs
      cases hpc : r.pc <;> simp only [hpc] at hs <;> try (cases hs)
      rename_i ev id
      split at hs
      · rename_i hin
        cases hs
        exact pinv_collectAt hP i r ev id hr hpc hin
      · cases hs
  | bstart b =>
    simp only [step, stepBstart] at hs
    split at hs
    · rename_i hb
      have hfin := hP.preFin b _ hb rfl
      have hfull := hP.full (by rw [hfin]; rfl)
      split at hs
      · cases hs
        exact pinv_setBatch_pre hP b _ _ hb rfl rfl
      · rename_i hnone; rw [hnone] at hfull; cases hfull
    · cases hs
  | take b timeout =>
    simp only [step, stepTake] at hs
    split at hs
    · rename_i fe hb
      split at hs
      · cases hs
        exact pinv_take g hP b fe hb
      · cases hs
    · cases hs
  | finish b =>
    simp only [step, stepFinish] at hs
    split at hs
    · rename_i ev ids p hb
      obtain ⟨hev, hP'⟩ := pinv_finish g f hP b ev ids p hb
      subst hev
      simp only [] at hs
      cases hs
      exact hP'
    · cases hs
  | dbegin d =>
    simp only [step, stepDbegin] at hs
    cases hd : s.directs[d]? with
    | none => simp [hd] at hs
    | some dt =>
      simp only [hd] at hs
      cases hpc : dt.pc <;> simp only [hpc] at hs <;> try (cases hs)
      exact { hP with }
  | dend d =>
    simp only [step, stepDend] at hs
    cases hd : s.directs[d]? with
    | none => simp [hd] at hs
    | some dt =>
      simp only [hd] at hs
      cases hpc : dt.pc <;> simp only [hpc] at hs <;> try (cases hs)
      exact { hP with }

theorem pinv_reachable {cfg : CacheCfg} {max : Nat} (hmax : 1 ≤ max) {g : α → κ} {f : α → β} {reqTexts : List α}
    {directTexts : List (List α)} {store0 : Dict κ β} {s : State α κ β}
    (h : Reachable cfg max g f reqTexts directTexts store0 s) : PInv cfg s := by
  induction h with
  | init => exact pinv_init cfg reqTexts directTexts store0
  | step l _ hstep ih => exact pinv_step hmax g f l ih hstep

/-! ### deadlock freedom -/

/-- every request task and every direct call has returned -/
def AllDone (s : State α κ β) : Prop :=
  (∀ r ∈ s.reqs, ∃ v, r.pc = .done v) ∧ (∀ d ∈ s.directs, ∃ res, d.pc = .done res)

theorem pre_enabled {cfg : CacheCfg} {max : Nat} (g : α → κ) (f : α → β) {s : State α κ β} {b : Nat} {bp : BPc α β}
    (hb : s.batches[b]? = some bp) (hpre : bp.isPre = true) : ∃ l s', step cfg max g f s l = some s' := by
  cases bp with
  | created =>
    refine ⟨.bstart b, ?_⟩
    simp only [step, stepBstart, hb]
    cases s.fullEv <;> exact ⟨_, rfl⟩
  | waiting fe =>
    exact ⟨.take b true, _, by simp only [step, stepTake, hb, Bool.true_or, if_true]; rfl⟩
  | running _ _ _ => simp [BPc.isPre] at hpre
  | done => simp [BPc.isPre] at hpre
  | crashed => simp [BPc.isPre] at hpre

theorem deadlock_free {cfg : CacheCfg} {max : Nat} (g : α → κ) (f : α → β) {s : State α κ β} (hP : PInv cfg s)
    (hstuck : ∀ l, step cfg max g f s l = none) : AllDone s := by
  have hno : ∀ l s', step cfg max g f s l = some s' → False := by
    intro l s' h; rw [hstuck l] at h; cases h
  constructor
  · intro r hr
    obtain ⟨i, hi⟩ := List.mem_iff_getElem?.1 hr
    have hri := hP.reqs i r hi
    cases hpc : r.pc with
    | done v => exact ⟨v, rfl⟩
    | spin => simp [RInv, hpc] at hri
    | crashed => simp [RInv, hpc] at hri
    | ready =>
      exfalso
      have : ∃ s', step cfg max g f s (.enter i) = some s' := by
        simp only [step, stepEnter, hi, hpc]
        split
        · exact ⟨_, rfl⟩
        · split <;> exact ⟨_, rfl⟩
      obtain ⟨s', h⟩ := this
      exact hno _ _ h
    | waitSub =>
      exfalso
      simp only [RInv, hpc] at hri
      cases hf : s.finEv with
      | none => rw [hf] at hri; simp at hri
      | some e =>
        obtain ⟨b, bp, _, hb, hpre⟩ := hP.finPre e hf
        obtain ⟨l, s', h⟩ := pre_enabled (cfg := cfg) (max := max) g f hb hpre
        exact hno _ _ h
    | waitFin ev id =>
      exfalso
      simp only [RInv, hpc] at hri
      obtain ⟨_, b, hev, hst⟩ := hri
      rcases hst with ⟨bp, hb, hpre, _⟩ | ⟨ev2, ids, p, hb, _⟩ | ⟨hb, _⟩
      · obtain ⟨l, s', h⟩ := pre_enabled (cfg := cfg) (max := max) g f hb hpre
        exact hno _ _ h
      · have : ∃ s', step cfg max g f s (.finish b) = some s' := by
          simp only [step, stepFinish, hb]
          cases ev2 <;> exact ⟨_, rfl⟩
        obtain ⟨s', h⟩ := this
        exact hno _ _ h
      · have hin := hP.doneFinSet b hb
        have : ∃ s', step cfg max g f s (.collect i) = some s' := by
          simp only [step, stepCollect, hi, hpc, hev, hin, if_true]
          exact ⟨_, rfl⟩
        obtain ⟨s', h⟩ := this
        exact hno _ _ h
  · intro d hd
    obtain ⟨j, hj⟩ := List.mem_iff_getElem?.1 hd
    cases hpc : d.pc with
    | done res => exact ⟨res, rfl⟩
    | ready =>
      exfalso
      exact hno (.dbegin j) _ (by simp only [step, stepDbegin, hj, hpc]; rfl)
    | running p =>
      exfalso
      exact hno (.dend j) _ (by simp only [step, stepDend, hj, hpc]; rfl)

/-! ### a measure that decreases on every step -/

def wR (B : Nat) : RPc β → Nat
  | .ready => 3 * B + 2
  | .waitSub => 3 * B + 1
  | .waitFin _ _ => 1
  | _ => 0

def wB (B : Nat) : BPc α β → Nat
  | .created => 3 * B
  | .waiting _ => 2 * B
  | .running _ _ _ => B
  | _ => 0

def wD : DPc α β → Nat
  | .ready => 2
  | .running _ => 1
  | .done _ => 0

def measureOf (reqs : List (Req α β)) (batches : List (BPc α β)) (directs : List (Direct α β)) : Nat :=
  (reqs.map (fun r => wR (reqs.length + 1) r.pc)).sum + (batches.map (wB (reqs.length + 1))).sum
    + (directs.map (fun d => wD d.pc)).sum

/-- number of atomic sections the system can still execute, at most -/
def measure (s : State α κ β) : Nat := measureOf s.reqs s.batches s.directs

theorem sum_map_set {γ : Type} (w : γ → Nat) : ∀ (l : List γ) (i : Nat) (x y : γ), l[i]? = some x →
    ((l.set i y).map w).sum + w x = (l.map w).sum + w y := by
  intro l
  induction l with
  | nil => intro i x y h; simp at h
  | cons a r ih =>
    intro i x y h
    cases i with
    | zero => simp at h; subst h; simp; omega
    | succ n =>
      simp at h
      have := ih n x y h
      simp only [List.set_cons_succ, List.map_cons, List.sum_cons]
      omega

theorem sum_map_wake_le (B : Nat) : ∀ (l : List (Req α β)),
    ((l.map wake).map (fun r => wR B r.pc)).sum ≤ (l.map (fun r => wR B r.pc)).sum + l.length := by
  intro l
  induction l with
  | nil => simp
  | cons a r ih =>
    simp only [List.map_cons, List.sum_cons, List.length_cons]
    have : wR B (wake a).pc ≤ wR B a.pc + 1 := by
      unfold wake
      split
      · rename_i h; rw [h]; simp [wR]
      · omega
    omega

theorem enqueue_shape (max : Nat) (s : State α κ β) (t : α) :
    (enqueue max s t).1.reqs = s.reqs ∧ (enqueue max s t).1.directs = s.directs ∧
    ((enqueue max s t).1.batches = s.batches ∨ (enqueue max s t).1.batches = s.batches ++ [.created]) := by
  unfold enqueue enq3 enq2 enq1
  split <;> split <;> (try split) <;> simp

theorem collectAt_shape (s : State α κ β) (i : Nat) (r : Req α β) (id : Nat) (B : Nat) :
    ∃ pc', wR B pc' = 0 ∧ (collectAt s i r id).reqs = s.reqs.set i { r with pc := pc' } ∧
      (collectAt s i r id).batches = s.batches ∧ (collectAt s i r id).directs = s.directs := by
  unfold collectAt
  split
  · exact ⟨_, rfl, rfl, rfl, rfl⟩
  · exact ⟨_, rfl, rfl, rfl, rfl⟩

theorem awaitFin_shape (s : State α κ β) (i : Nat) (r : Req α β) (ev id : Nat) (B : Nat) :
    ∃ pc', wR B pc' ≤ 1 ∧ (awaitFin s i r ev id).reqs = s.reqs.set i { r with pc := pc' } ∧
      (awaitFin s i r ev id).batches = s.batches ∧ (awaitFin s i r ev id).directs = s.directs := by
  unfold awaitFin
  split
  · obtain ⟨pc', h1, h2, h3, h4⟩ := collectAt_shape s i r id B
    exact ⟨pc', by omega, h2, h3, h4⟩
  · exact ⟨_, by simp [wR], rfl, rfl, rfl⟩

theorem measure_step {cfg : CacheCfg} {max : Nat} (g : α → κ) (f : α → β) {s s' : State α κ β} (l : Label)
    (hs : step cfg max g f s l = some s') : measure s' < measure s := by
  unfold measure measureOf
  cases l with
  | enter i =>
    simp only [step, stepEnter] at hs
    cases hr : s.reqs[i]? with
    | none => simp [hr] at hs
    | some r =>
      simp only [hr] at hs
      cases hpc : r.pc <;> simp only [hpc] at hs <;> try (cases hs)
      have hw : wR (β := β) (s.reqs.length + 1) r.pc = 3 * (s.reqs.length + 1) + 2 := by rw [hpc]; rfl
      split at hs
      · cases hs
        have := sum_map_set (fun r : Req α β => wR (s.reqs.length + 1) r.pc) s.reqs i r
          { r with pc := if s.submitted then .spin else .waitSub } hr
        simp only [setReq, List.length_set]
        have h2 : wR (β := β) (s.reqs.length + 1) (if s.submitted then .spin else .waitSub) ≤ 3 * (s.reqs.length + 1) + 1 := by
          split <;> simp [wR]
        simp only at this
        omega
      · obtain ⟨hreqs, hdir, hbat⟩ := enqueue_shape max s r.text
        have key : ∀ S : State α κ β, S.reqs = s.reqs → S.directs = s.directs →
            (S.batches = s.batches ∨ S.batches = s.batches ++ [.created]) → ∀ pc', wR (s.reqs.length + 1) pc' ≤ 1 →
            ∀ S' : State α κ β, S'.reqs = S.reqs.set i { r with pc := pc' } → S'.batches = S.batches → S'.directs = S.directs →
            (S'.reqs.map (fun r => wR (S'.reqs.length + 1) r.pc)).sum + (S'.batches.map (wB (S'.reqs.length + 1))).sum
              + (S'.directs.map (fun d => wD d.pc)).sum
            < (s.reqs.map (fun r => wR (s.reqs.length + 1) r.pc)).sum + (s.batches.map (wB (s.reqs.length + 1))).sum
              + (s.directs.map (fun d => wD d.pc)).sum := by
          intro S h1 h2 h3 pc' hpc' S' h4 h5 h6
          rw [h4, h5, h6, h1, h2]
          simp only [List.length_set]
          have := sum_map_set (fun r : Req α β => wR (s.reqs.length + 1) r.pc) s.reqs i r { r with pc := pc' } hr
          simp only at this
          rcases h3 with h3 | h3
          · rw [h3]; omega
          · rw [h3]; simp only [List.map_append, List.sum_append, List.map_cons, List.map_nil, List.sum_cons, List.sum_nil, wB]
            omega
        split at hs
        · rename_i s2 ev heq
          cases hs
          have hs2 : s2 = (enqueue max s r.text).1 := by rw [heq]
          obtain ⟨pc', h1, h2, h3, h4⟩ := awaitFin_shape s2 i r ev s.idx (s.reqs.length + 1)
          exact key s2 (by rw [hs2]; exact hreqs) (by rw [hs2]; exact hdir) (by rw [hs2]; exact hbat) pc' h1 _ h2 h3 h4
        · rename_i s2 heq
          cases hs
          have hs2 : s2 = (enqueue max s r.text).1 := by rw [heq]
          exact key s2 (by rw [hs2]; exact hreqs) (by rw [hs2]; exact hdir) (by rw [hs2]; exact hbat) .crashed (by simp [wR]) _ rfl rfl rfl
  | collect i =>
    simp only [step, stepCollect] at hs
    cases hr : s.reqs[i]? with
    | none => simp [hr] at hs
    | some r =>
      simp only [hr] at hs
      cases hpc : r.pc <;> simp only [hpc] at hs <;> try (cases hs)
      rename_i ev id
      split at hs
      · cases hs
        obtain ⟨pc', h1, h2, h3, h4⟩ := collectAt_shape s i r id (s.reqs.length + 1)
        rw [h2, h3, h4]
        simp only [List.length_set]
        have := sum_map_set (fun r : Req α β => wR (s.reqs.length + 1) r.pc) s.reqs i r { r with pc := pc' } hr
        have hw : wR (β := β) (s.reqs.length + 1) r.pc = 1 := by rw [hpc]; rfl
        simp only at this
        omega
      · cases hs
  | bstart b =>
    simp only [step, stepBstart] at hs
    split at hs
    · rename_i hb
      split at hs <;> cases hs
      · rename_i fe _
        have := sum_map_set (wB (α := α) (β := β) (s.reqs.length + 1)) s.batches b .created (.waiting fe) hb
        simp only [wB] at this ⊢
        omega
      · have := sum_map_set (wB (α := α) (β := β) (s.reqs.length + 1)) s.batches b .created .crashed hb
        simp only [wB] at this ⊢
        omega
    · cases hs
  | take b timeout =>
    simp only [step, stepTake] at hs
    split at hs
    · rename_i fe hb
      split at hs
      · cases hs
        have h1 := sum_map_set (wB (α := α) (β := β) (s.reqs.length + 1)) s.batches b (.waiting fe)
          (.running s.finEv s.queue.keys (beginCall cfg g s.store s.queue.vals)) hb
        have h2 := sum_map_wake_le (s.reqs.length + 1) s.reqs
        simp only [wB] at h1
        simp only [List.length_map]
        omega
      · cases hs
    · cases hs
  | finish b =>
    simp only [step, stepFinish] at hs
    split at hs
    · rename_i ev ids p hb
      split at hs <;> cases hs
      · have := sum_map_set (wB (α := α) (β := β) (s.reqs.length + 1)) s.batches b (.running _ ids p) .done hb
        simp only [wB] at this ⊢
        omega
      · have := sum_map_set (wB (α := α) (β := β) (s.reqs.length + 1)) s.batches b (.running _ ids p) .crashed hb
        simp only [wB] at this ⊢
        omega
    · cases hs
  | dbegin d =>
    simp only [step, stepDbegin] at hs
    cases hd : s.directs[d]? with
    | none => simp [hd] at hs
    | some dt =>
      simp only [hd] at hs
      cases hpc : dt.pc <;> simp only [hpc] at hs <;> try (cases hs)
      have := sum_map_set (fun d : Direct α β => wD d.pc) s.directs d dt
        { dt with pc := .running (beginCall cfg g s.store dt.texts) } hd
      simp only [hpc, wD] at this ⊢
      omega
  | dend d =>
    simp only [step, stepDend] at hs
    cases hd : s.directs[d]? with
    | none => simp [hd] at hs
    | some dt =>
      simp only [hd] at hs
      cases hpc : dt.pc <;> simp only [hpc] at hs <;> try (cases hs)
      rename_i p
      have := sum_map_set (fun d : Direct α β => wD d.pc) s.directs d dt
        { dt with pc := .done (endCall cfg g s.store p (p.uncached.map f)).2 } hd
      simp only [hpc, wD] at this ⊢
      omega

theorem measure_run {cfg : CacheCfg} {max : Nat} (g : α → κ) (f : α → β) (ls : List Label) :
    ∀ (s s' : State α κ β), run cfg max g f s ls = some s' → ls.length + measure s' ≤ measure s := by
  induction ls with
  | nil => intro s s' h; simp only [run] at h; cases h; simp
  | cons l rest ih =>
    intro s s' h
    simp only [run] at h
    cases hstep : step cfg max g f s l with
    | none => rw [hstep] at h; cases h
    | some s1 =>
      rw [hstep] at h
      have h1 := measure_step g f l hstep
      have h2 := ih s1 s' h
      simp only [List.length_cons]
      omega

theorem reachable_run {cfg : CacheCfg} {max : Nat} {g : α → κ} {f : α → β} {reqTexts : List α}
    {directTexts : List (List α)} {store0 : Dict κ β} (ls : List Label) :
    ∀ (s s' : State α κ β), Reachable cfg max g f reqTexts directTexts store0 s → run cfg max g f s ls = some s' →
      Reachable cfg max g f reqTexts directTexts store0 s' := by
  induction ls with
  | nil => intro s s' h hr; simp only [run] at hr; cases hr; exact h
  | cons l rest ih =>
    intro s s' h hr
    simp only [run] at hr
    cases hstep : step cfg max g f s l with
    | none => rw [hstep] at hr; cases hr
    | some s1 => rw [hstep] at hr; exact ih s1 s' (.step l h hstep) hr


theorem sum_map_const {γ : Type} (c : Nat) : ∀ (l : List γ), (l.map (fun _ => c)).sum = l.length * c := by
  intro l
  induction l with
  | nil => simp
  | cons a r ih => simp only [List.map_cons, List.sum_cons, List.length_cons, ih, Nat.succ_mul]; omega

theorem measure_init (reqTexts : List α) (directTexts : List (List α)) (store0 : Dict κ β) :
    measure (init reqTexts directTexts store0)
      = reqTexts.length * (3 * (reqTexts.length + 1) + 2) + 2 * directTexts.length := by
  simp only [measure, measureOf, init, List.map_map, List.length_map, List.map_nil, List.sum_nil, Nat.add_zero]
  have h1 : ((fun r : Req α β => wR (reqTexts.length + 1) r.pc) ∘ fun t => ({ text := t, pc := RPc.ready } : Req α β))
      = fun _ => 3 * (reqTexts.length + 1) + 2 := by
    funext t; simp [wR]
  have h2 : ((fun d : Direct α β => wD d.pc) ∘ fun ts => ({ texts := ts, pc := DPc.ready } : Direct α β))
      = fun _ => 2 := by
    funext t; simp [wD]
  rw [h1, h2, sum_map_const, sum_map_const]
  omega

end Progress
end NemoVerif.Embed
