/-
  C06, clause (iv) of T2 — the parent-pointer form of the lifetime clause.

  `LinkInv`: a listening instance is listed in the `child_flow_uids` of its parent (`linked`), parent pointers
  point to live instances, the main flow has no parent.  Carried through the whole `_abort_flow` / `_finish_flow` /
  `EndScope` recursion by the generic skeleton of Lemmas/LifetimeGen.lean (`linkInv_closed`): the only places
  where an instance is removed from a children list are the straight-line tails, where the removal is adjacent to
  the STOPPED mark (`_abort_flow`: removal BEFORE the mark; `_finish_flow`: after the FINISHED mark).
-/
import NemoVerif.Lemmas.LifetimeGen
namespace NemoVerif.Lifetime

structure LinkInv (s : State) : Prop where
  /-- a listening instance is in its parent's `child_flow_uids` (activated instances included) -/
  linked : ∀ c cf p pf, s.flows c = some cf → cf.status.listening = true → cf.parent = some p → s.flows p = some pf →
    c ∈ pf.children
  parentLive : ∀ c cf p, s.flows c = some cf → cf.parent = some p → ∃ pf, s.flows p = some pf
  mainRoot : ∀ v f, s.flows v = some f → f.isMain = true → f.parent = none

/-- General transfer lemma: no instance disappears, parent / isMain are kept, an instance that is listening
    afterwards was listening before (or has no parent), and a listed child that is listening afterwards is still listed. -/
theorem LinkInv.transfer {s s' : State} (hi : LinkInv s)
    (hdom : ∀ v f', s'.flows v = some f' → ∃ f, s.flows v = some f ∧ f'.parent = f.parent ∧ f'.isMain = f.isMain ∧
      (f'.status.listening = true → f.status.listening = true ∨ f.parent = none))
    (hlive : ∀ v f, s.flows v = some f → ∃ f', s'.flows v = some f')
    (hch : ∀ p pf pf' c cf', s.flows p = some pf → s'.flows p = some pf' → c ∈ pf.children → s'.flows c = some cf' →
      cf'.status.listening = true → c ∈ pf'.children) : LinkInv s' := by
  refine ⟨?_, ?_, ?_⟩
  · intro c cf' p pf' hc hl hpar hp
    obtain ⟨cf, hc0, e1, _, e3⟩ := hdom c cf' hc
    obtain ⟨pf, hp0, _, _, _⟩ := hdom p pf' hp
    rw [e1] at hpar
    rcases e3 hl with h | h
    · exact hch p pf pf' c cf' hp0 hp (hi.linked c cf p pf hc0 h hpar hp0) hc hl
    · rw [h] at hpar; cases hpar
  · intro c cf' p hc hpar
    obtain ⟨cf, hc0, e1, _, _⟩ := hdom c cf' hc
    rw [e1] at hpar
    obtain ⟨pf, hp0⟩ := hi.parentLive c cf p hc0 hpar
    exact hlive p pf hp0
  · intro v f' hv hm
    obtain ⟨f, h0, e1, e2, _⟩ := hdom v f' hv
    rw [e1]; exact hi.mainRoot v f h0 (by rw [← e2]; exact hm)

/-- the fields `LinkInv` reads -/
def lk (f : Flow) : Option Nat × List Nat × FStatus × Bool := (f.parent, f.children, f.status, f.isMain)

theorem lk_back {s s' : State} (hc : ∀ v, (s'.flows v).map lk = (s.flows v).map lk) (v : Nat) (f' : Flow)
    (hv : s'.flows v = some f') : ∃ f, s.flows v = some f ∧ lk f = lk f' := by
  have := hc v
  rw [hv] at this
  cases h : s.flows v with
  | none => rw [h] at this; cases this
  | some f => rw [h] at this; simp at this; exact ⟨f, rfl, this.symm⟩

theorem lk_fwd {s s' : State} (hc : ∀ v, (s'.flows v).map lk = (s.flows v).map lk) (v : Nat) (f : Flow)
    (hv : s.flows v = some f) : ∃ f', s'.flows v = some f' ∧ lk f = lk f' := by
  have := hc v
  rw [hv] at this
  cases h : s'.flows v with
  | none => rw [h] at this; cases this
  | some f' => rw [h] at this; simp at this; exact ⟨f', rfl, this.symm⟩

theorem LinkInv.of_lk {s s' : State} (hi : LinkInv s) (hc : ∀ v, (s'.flows v).map lk = (s.flows v).map lk) : LinkInv s' := by
  refine hi.transfer ?_ ?_ ?_
  · intro v f' hv
    obtain ⟨f, h0, e⟩ := lk_back hc v f' hv
    simp only [lk, Prod.mk.injEq] at e
    exact ⟨f, h0, e.1.symm, e.2.2.2.symm, fun h => Or.inl (by rw [e.2.2.1]; exact h)⟩
  · intro v f hv
    obtain ⟨f', h', _⟩ := lk_fwd hc v f hv
    exact ⟨f', h'⟩
  · intro p pf pf' c cf' hp hp' hcm _ _
    obtain ⟨g, hg, e⟩ := lk_back hc p pf' hp'
    rw [hp] at hg; cases hg
    simp only [lk, Prod.mk.injEq] at e
    rw [← e.2.1]; exact hcm

theorem LinkInv.of_flows_eq {s s' : State} (hi : LinkInv s) (hf : s'.flows = s.flows) : LinkInv s' :=
  hi.of_lk (fun v => by rw [hf])

theorem lk_setFlow (s : State) (u : Nat) (f f' : Flow) (hf : s.flows u = some f) (hc : lk f' = lk f) (v : Nat) :
    ((setFlow s u f').flows v).map lk = (s.flows v).map lk := by
  rw [setFlow_flows]; split
  · next e => subst e; rw [hf]; simp [hc]
  · rfl

theorem lk_modFlow (s : State) (u : Nat) (g : Flow → Flow) (hg : ∀ f, lk (g f) = lk f) (v : Nat) :
    ((modFlow s u g).flows v).map lk = (s.flows v).map lk := by
  cases hf : s.flows u with
  | none => rw [modFlow_none _ _ _ hf]
  | some f => rw [modFlow_some _ _ _ _ hf]; exact lk_setFlow s u f (g f) hf (hg f) v

/-- the instance `u` ends (status `st`, not listening) and is possibly erased from children lists:
    `s4` differs from `s` by erasing `u` from some children lists; then `u` is marked. -/
theorem LinkInv.unlink_mark {s s4 : State} (u : Nat) (st : FStatus) (hst : st.listening = false) (hi : LinkInv s)
    (hrel : ∀ v, s4.flows v = s.flows v ∨ ∃ pf, s.flows v = some pf ∧ s4.flows v = some { pf with children := pf.children.erase u }) :
    LinkInv (modFlow s4 u fun f => { f with status := st }) := by
  -- description of the final record of every `v`
  have key : ∀ v f', (modFlow s4 u fun f => { f with status := st }).flows v = some f' →
      ∃ f, s.flows v = some f ∧ f'.parent = f.parent ∧ f'.isMain = f.isMain ∧
        (f'.children = f.children ∨ f'.children = f.children.erase u) ∧
        (v = u → f'.status = st) ∧ (v ≠ u → f'.status = f.status) := by
    intro v f' hv
    by_cases hvu : v = u
    · subst hvu
      rw [modFlow_flows_same] at hv
      cases h4 : s4.flows v with
      | none => rw [h4] at hv; cases hv
      | some f4 =>
        rw [h4] at hv; simp at hv; subst hv
        rcases hrel v with e | ⟨pf, e1, e2⟩
        · rw [h4] at e
          exact ⟨f4, e.symm, rfl, rfl, Or.inl rfl, fun _ => rfl, fun h => absurd rfl h⟩
        · rw [h4] at e2; cases e2
          exact ⟨pf, e1, rfl, rfl, Or.inr rfl, fun _ => rfl, fun h => absurd rfl h⟩
    · rw [modFlow_flows_ne _ _ _ _ hvu] at hv
      rcases hrel v with e | ⟨pf, e1, e2⟩
      · rw [hv] at e
        exact ⟨f', e.symm, rfl, rfl, Or.inl rfl, fun h => absurd h hvu, fun _ => rfl⟩
      · rw [hv] at e2; cases e2
        exact ⟨pf, e1, rfl, rfl, Or.inr rfl, fun h => absurd h hvu, fun _ => rfl⟩
  refine hi.transfer ?_ ?_ ?_
  · intro v f' hv
    obtain ⟨f, h0, e1, e2, _, e4, e5⟩ := key v f' hv
    refine ⟨f, h0, e1, e2, ?_⟩
    intro hl
    by_cases hvu : v = u
    · rw [e4 hvu, hst] at hl; cases hl
    · left; rw [← e5 hvu]; exact hl
  · intro v f hv
    have h4 : ∃ f4, s4.flows v = some f4 := by
      rcases hrel v with e | ⟨pf, _, e2⟩
      · exact ⟨f, by rw [e, hv]⟩
      · exact ⟨_, e2⟩
    obtain ⟨f4, h4⟩ := h4
    by_cases hvu : v = u
    · subst hvu; rw [modFlow_flows_same, h4]; exact ⟨_, rfl⟩
    · rw [modFlow_flows_ne _ _ _ _ hvu]; exact ⟨f4, h4⟩
  · intro p pf pf' c cf' hp hp' hcm hc hl
    obtain ⟨g, hg, _, _, e3, _, _⟩ := key p pf' hp'
    rw [hp] at hg; cases hg
    obtain ⟨cf, _, _, _, _, e4, _⟩ := key c cf' hc
    have hcu : c ≠ u := by
      intro e
      rw [e4 e, hst] at hl; cases hl
    rcases e3 with e | e
    · rw [e]; exact hcm
    · rw [e]; exact (List.mem_erase_of_ne hcu).2 hcm

theorem restart_lk (s : State) (u : Nat) (d : Bool) (s' : State) (h : restart s u d = .ok s') (v : Nat) :
    (s'.flows v).map lk = (s.flows v).map lk := by
  obtain ⟨f, hf, h1 | h1⟩ := restart_spec s u d s' h
  · obtain ⟨_, _, _, _, hu, hne⟩ := h1
    by_cases hv : v = u
    · subst hv; rw [hu, hf]; rfl
    · rw [hne v hv]
  · rw [h1.2]

theorem abortTail_linkInv (s : State) (u : Nat) (d : Bool) (s' : State) (hi : LinkInv s) (h : abortTail s u d = .ok s') :
    LinkInv s' := by
  unfold abortTail at h
  split at h
  · cases h
  · next f1 hf1 =>
    split at h
    · cases h
    · next s2 h2 =>
      dsimp only at h
      split at h
      · cases h
      · next s4 h4 =>
        have i2 : LinkInv s2 := hi.of_flows_eq (stopActions_frame _ _ _ h2).1
        have i3 : LinkInv (modFlow s2 u fun f => { f with heads := 0 }) := i2.of_lk (lk_modFlow _ _ _ (fun _ => rfl))
        have i5 := i3.unlink_mark u .stopped rfl (removeFromParent_flows _ _ _ h4).2.2.2
        have i6 : LinkInv (push (modFlow s4 u fun f => { f with status := .stopped }) (.flowFailed u)) := i5.of_flows_eq rfl
        exact i6.of_lk (restart_lk _ _ _ _ h)

theorem removeFromParent_status (s : State) (u : Nat) (s' : State) (h : removeFromParent s u = .ok s') (v : Nat) (f' : Flow)
    (hv : s'.flows v = some f') : ∃ f, s.flows v = some f ∧ f'.status = f.status := by
  rcases (removeFromParent_flows s u s' h).2.2.2 v with e | ⟨pf, e1, e2⟩
  · exact ⟨f', by rw [← e, hv], rfl⟩
  · rw [hv] at e2; cases e2; exact ⟨pf, e1, rfl⟩

/-- `_finish_flow`: status := FINISHED first, then the removal from the parent's list -/
theorem LinkInv.mark_unlink {s3 s5 : State} (u : Nat) (i3 : LinkInv s3)
    (h5 : removeFromParent (modFlow s3 u fun f => { f with status := .finished }) u = .ok s5) : LinkInv s5 := by
  obtain ⟨s4, hs4⟩ : ∃ s4, s4 = modFlow s3 u fun f => { f with status := .finished } := ⟨_, rfl⟩
  rw [← hs4] at h5
  have hrel := (removeFromParent_flows s4 u s5 h5).2.2.2
  refine i3.transfer ?_ ?_ ?_
  · intro v f' hv
    rcases hrel v with e | ⟨pf, e1, e2⟩
    · rw [hv] at e
      by_cases hvu : v = u
      · subst hvu
        rw [hs4, modFlow_flows_same] at e
        cases h3 : s3.flows v with
        | none => rw [h3] at e; cases e
        | some f3 =>
          rw [h3] at e; simp at e; subst e
          exact ⟨f3, rfl, rfl, rfl, fun h => by simp [FStatus.listening] at h⟩
      · rw [hs4, modFlow_flows_ne _ _ _ _ hvu] at e
        exact ⟨f', e.symm, rfl, rfl, fun h => Or.inl h⟩
    · rw [hv] at e2; cases e2
      by_cases hvu : v = u
      · subst hvu
        rw [hs4, modFlow_flows_same] at e1
        cases h3 : s3.flows v with
        | none => rw [h3] at e1; cases e1
        | some f3 =>
          rw [h3] at e1; simp at e1; subst e1
          exact ⟨f3, rfl, rfl, rfl, fun h => by simp [FStatus.listening] at h⟩
      · rw [hs4, modFlow_flows_ne _ _ _ _ hvu] at e1
        exact ⟨pf, e1, rfl, rfl, fun h => Or.inl h⟩
  · intro v f hv
    have h4 : ∃ f4, s4.flows v = some f4 := by
      by_cases hvu : v = u
      · subst hvu; rw [hs4, modFlow_flows_same, hv]; exact ⟨_, rfl⟩
      · rw [hs4, modFlow_flows_ne _ _ _ _ hvu]; exact ⟨f, hv⟩
    obtain ⟨f4, h4⟩ := h4
    rcases hrel v with e | ⟨pf, _, e2⟩
    · exact ⟨f4, by rw [e, h4]⟩
    · exact ⟨_, e2⟩
  · intro p pf pf' c cf' hp hp' hcm hc hl
    -- c is listening in s5 ⇒ c ≠ u
    have hcu : c ≠ u := by
      intro e; subst e
      obtain ⟨g, hg, est⟩ := removeFromParent_status s4 c s5 h5 c cf' hc
      rw [hs4, modFlow_flows_same] at hg
      cases h3 : s3.flows c with
      | none => rw [h3] at hg; cases hg
      | some f3 =>
        rw [h3] at hg; simp at hg; subst hg
        rw [est] at hl; simp [FStatus.listening] at hl
    -- children of p in s5: those of s3 possibly with u erased
    have hp4 : ∃ pf4, s4.flows p = some pf4 ∧ pf4.children = pf.children := by
      by_cases hpu : p = u
      · subst hpu; rw [hs4, modFlow_flows_same, hp]; exact ⟨_, rfl, rfl⟩
      · rw [hs4, modFlow_flows_ne _ _ _ _ hpu]; exact ⟨pf, hp, rfl⟩
    obtain ⟨pf4, hp4, ech⟩ := hp4
    rcases hrel p with e | ⟨q, e1, e2⟩
    · rw [hp', hp4] at e; cases e; rw [ech]; exact hcm
    · rw [hp4] at e1; cases e1
      rw [hp'] at e2; cases e2
      show c ∈ pf4.children.erase u
      rw [ech]; exact (List.mem_erase_of_ne hcu).2 hcm

theorem finishTail_linkInv (s : State) (u : Nat) (d : Bool) (s' : State) (hi : LinkInv s) (h : finishTail s u d = .ok s') :
    LinkInv s' := by
  unfold finishTail at h
  split at h
  · cases h
  · next f1 hf1 =>
    split at h
    · cases h
    · next s2 h2 =>
      dsimp only at h
      have e2 := (stopActions_frame _ _ _ h2).1
      have i2 : LinkInv s2 := hi.of_flows_eq e2
      have i3 : LinkInv (modFlow s2 u fun f => { f with heads := 0 }) := i2.of_lk (lk_modFlow _ _ _ (fun _ => rfl))
      split at h
      · next hm =>
        -- main flow: back to WAITING; it has no parent
        cases h
        have hf3 : (modFlow s2 u fun f => { f with heads := 0 }).flows u = some { f1 with heads := 0 } := by
          rw [modFlow_flows_same, e2, hf1]; rfl
        rw [modFlow_some _ _ _ _ hf3]
        have hroot : f1.parent = none := hi.mainRoot u f1 hf1 hm
        refine i3.transfer ?_ ?_ ?_
        · intro v f' hv
          rw [setFlow_flows] at hv
          split at hv
          · next e => subst e; cases hv; exact ⟨_, hf3, rfl, rfl, fun _ => Or.inr hroot⟩
          · exact ⟨f', hv, rfl, rfl, fun h => Or.inl h⟩
        · intro v f hv
          rw [setFlow_flows]; split
          · exact ⟨_, rfl⟩
          · exact ⟨f, hv⟩
        · intro p pf pf' c cf' hp hp' hcm _ _
          rw [setFlow_flows] at hp'
          split at hp'
          · next e => subst e; rw [hf3] at hp; cases hp; cases hp'; exact hcm
          · rw [hp] at hp'; cases hp'; exact hcm
      · split at h
        · cases h
        · next s5 h5 =>
          have i6 : LinkInv (push s5 (.flowFinished u)) :=
            LinkInv.of_flows_eq (i3.mark_unlink u h5) (rfl : (push s5 (.flowFinished u)).flows = s5.flows)
          exact i6.of_lk (restart_lk _ _ _ _ h)

theorem markNoRestart_lk (s : State) (u : Nat) (v : Nat) : ((markNoRestart s u).flows v).map lk = (s.flows v).map lk := by
  unfold markNoRestart
  split
  · next f hf =>
    split
    · exact lk_setFlow s u f { f with nis := true } hf rfl v
    · rfl
  · rfl

/-- `LinkInv` is preserved by every piece of the recursion -/
theorem linkInv_closed : Closed LinkInv where
  decr := fun s u f hi hf => hi.of_lk (lk_setFlow s u f { f with activated := f.activated - 1 } hf rfl)
  zero := fun _ _ hi => hi.of_lk (lk_modFlow _ _ _ (fun _ => rfl))
  mark := fun s u hi => hi.of_lk (markNoRestart_lk s u)
  abortTail := fun s u d s' hi h => abortTail_linkInv s u d s' hi h
  finishTail := fun s u d s' hi h => finishTail_linkInv s u d s' hi h
  scopes := fun s u f sc hi hf => hi.of_lk (lk_setFlow s u f { f with scopes := sc } hf rfl)
  stopActions := fun _ _ _ hi h => hi.of_flows_eq (stopActions_frame _ _ _ h).1

theorem linkInv_busy : ClosedBusy LinkInv :=
  ⟨fun _ _ hi => hi.of_flows_eq rfl, fun _ _ hi => hi.of_flows_eq rfl⟩

theorem abortFlow_linked (n : Nat) (s : State) (u : Nat) (d : Bool) (s' : State) (hi : LinkInv s)
    (h : abortFlow n s u d = .ok s') : LinkInv s' := abortFlow_closed linkInv_closed n s u d s' hi h

theorem finishFlow_linked (n : Nat) (s : State) (u : Nat) (d : Bool) (s' : State) (hi : LinkInv s)
    (h : finishFlow n s u d = .ok s') : LinkInv s' := finishFlow_closed linkInv_closed n s u d s' hi h

theorem endScope_linked (n : Nat) (s : State) (u nm : Nat) (s' : State) (hi : LinkInv s)
    (h : endScope n s u nm = .ok s') : LinkInv s' := endScope_closed linkInv_closed n s u nm s' hi h

theorem LinkInv.init : LinkInv initState := by
  refine ⟨?_, ?_, ?_⟩
  · intro c cf p pf hc _ hpar _
    simp only [initState] at hc
    split at hc
    · cases hc; simp [freshFlow] at hpar
    · cases hc
  · intro c cf p hc hpar
    simp only [initState] at hc
    split at hc
    · cases hc; simp [freshFlow] at hpar
    · cases hc
  · intro v f hv _
    simp only [initState] at hv
    split at hv
    · cases hv; rfl
    · cases hv

theorem labelRestart_lk (s : State) (u : Nat) (s' : State) (h : labelRestart s u = .ok s') (v : Nat) :
    (s'.flows v).map lk = (s.flows v).map lk := by
  unfold labelRestart at h
  split at h
  · cases h
  · next f hf =>
    split at h
    · cases h; rfl
    · cases h
      have hf' : (pushLeft s (.startFlow f.flowId u f.activated u)).flows u = some f := hf
      rw [modFlow_some _ _ _ _ hf']
      exact lk_setFlow (pushLeft s (.startFlow f.flowId u f.activated u)) u f { f with nis := true } hf' rfl v

/-- every operation of the operation-sequence semantics preserves `LinkInv` -/
theorem LinkInv.step (s : State) (op : IOp) (hi : LinkInv s) : LinkInv (applyOp s op) := by
  cases op with
  | abort n u d =>
    simp only [applyOp]
    cases h : abortFlow n s u d with
    | error e => exact hi
    | ok s' => exact abortFlow_linked n s u d s' hi h
  | finish n u d =>
    simp only [applyOp]
    cases h : finishFlow n s u d with
    | error e => exact hi
    | ok s' => exact finishFlow_linked n s u d s' hi h
  | endScope n u nm =>
    simp only [applyOp]
    cases h : endScope n s u nm with
    | error e => exact hi
    | ok s' => exact endScope_linked n s u nm s' hi h
  | startChild c fid p k =>
    simp only [applyOp]
    split
    · next hc hp =>
      rename_i pf
      split
      · next hg =>
        simp only [Bool.and_eq_true, bne_iff_ne, ne_eq] at hg
        have hcp : c ≠ p := hg.1.2
        have hpc : p ≠ c := fun e => hcp e.symm
        -- records of the new state
        have hnew : ∀ v, (setFlow { setFlow s c { freshFlow fid with parent := some p, activated := k } with order := s.order ++ [c] } p
            { pf with children := pf.children ++ [c] }).flows v =
            if v = p then some { pf with children := pf.children ++ [c] }
            else if v = c then some { freshFlow fid with parent := some p, activated := k } else s.flows v := by
          intro v; rw [setFlow_flows]; split
          · rfl
          · show (setFlow s c _).flows v = _
            rw [setFlow_flows]
        refine ⟨?_, ?_, ?_⟩
        · intro x xf q qf hx hl hpar hq
          rw [hnew] at hx hq
          by_cases hxp : x = p
          · subst hxp
            simp only [if_true] at hx; cases hx
            -- x = p: its parent q is an old instance ≠ c (parentLive)
            have hqc : q ≠ c := by
              intro e; subst e
              obtain ⟨g, hg'⟩ := hi.parentLive x pf q hp hpar
              rw [hc] at hg'; cases hg'
            by_cases hqp : q = x
            · subst hqp
              simp only [if_true] at hq; cases hq
              exact List.mem_append_left _ (hi.linked q pf q pf hp hl hpar hp)
            · simp only [hqp, hqc, if_false] at hq
              exact hi.linked x pf q qf hp hl hpar hq
          · simp only [hxp, if_false] at hx
            by_cases hxc : x = c
            · subst hxc
              simp only [if_true] at hx; cases hx
              simp only at hpar; cases hpar
              simp only [if_true] at hq; cases hq
              exact List.mem_append_right _ (List.mem_singleton.2 rfl)
            · simp only [hxc, if_false] at hx
              have hqc : q ≠ c := by
                intro e; subst e
                obtain ⟨g, hg'⟩ := hi.parentLive x xf q hx hpar
                rw [hc] at hg'; cases hg'
              by_cases hqp : q = p
              · subst hqp
                simp only [if_true] at hq; cases hq
                exact List.mem_append_left _ (hi.linked x xf q pf hx hl hpar hp)
              · simp only [hqp, hqc, if_false] at hq
                exact hi.linked x xf q qf hx hl hpar hq
        · intro x xf q hx hpar
          rw [hnew] at hx
          have hold : ∀ g, s.flows q = some g → ∃ qf, (setFlow { setFlow s c { freshFlow fid with parent := some p, activated := k } with order := s.order ++ [c] } p
              { pf with children := pf.children ++ [c] }).flows q = some qf := by
            intro g hg'
            rw [hnew]
            by_cases hqp : q = p
            · simp [hqp]
            · by_cases hqc : q = c
              · simp [hqc, hcp]
              · simp only [hqp, hqc, if_false]; exact ⟨g, hg'⟩
          by_cases hxp : x = p
          · subst hxp
            simp only [if_true] at hx; cases hx
            obtain ⟨g, hg'⟩ := hi.parentLive x pf q hp hpar
            exact hold g hg'
          · simp only [hxp, if_false] at hx
            by_cases hxc : x = c
            · subst hxc
              simp only [if_true] at hx; cases hx
              simp only at hpar; cases hpar
              exact hold pf hp
            · simp only [hxc, if_false] at hx
              obtain ⟨g, hg'⟩ := hi.parentLive x xf q hx hpar
              exact hold g hg'
        · intro x xf hx hm
          rw [hnew] at hx
          by_cases hxp : x = p
          · subst hxp
            simp only [if_true] at hx; cases hx
            exact hi.mainRoot x pf hp hm
          · simp only [hxp, if_false] at hx
            by_cases hxc : x = c
            · subst hxc
              simp only [if_true] at hx; cases hx
              simp [freshFlow] at hm
            · simp only [hxc, if_false] at hx
              exact hi.mainRoot x xf hx hm
      · exact hi
    · exact hi
  | reactivate fid known act hasInst source pm =>
    simp only [applyOp]
    split
    · next s' r h =>
      rcases processStartFlow_effect s fid known act hasInst source _ s' r h with e | ⟨q, rf, sf, hrf, hsf, _, _, _, e⟩
      · rw [e]; exact hi
      · rw [e]
        suffices hsuf : LinkInv (modFlow (setFlow s q { rf with activated := rf.activated + 1 }) source
            (fun f => { f with children := f.children ++ [q] })) from hsuf.of_flows_eq rfl
        have i1 : LinkInv (setFlow s q { rf with activated := rf.activated + 1 }) := hi.of_lk (lk_setFlow s q rf _ hrf rfl)
        -- the source's children list grows
        cases hs1 : (setFlow s q { rf with activated := rf.activated + 1 }).flows source with
        | none => rw [modFlow_none _ _ _ hs1]; exact i1
        | some sf1 =>
          rw [modFlow_some _ _ _ _ hs1]
          refine i1.transfer ?_ ?_ ?_
          · intro v f' hv
            rw [setFlow_flows] at hv
            split at hv
            · next e' => subst e'; cases hv; exact ⟨sf1, hs1, rfl, rfl, fun h => Or.inl h⟩
            · exact ⟨f', hv, rfl, rfl, fun h => Or.inl h⟩
          · intro v f hv
            rw [setFlow_flows]; split
            · exact ⟨_, rfl⟩
            · exact ⟨f, hv⟩
          · intro p pf pf' c cf' hp hp' hcm _ _
            rw [setFlow_flows] at hp'
            split at hp'
            · next e' => subst e'; rw [hs1] at hp; cases hp; cases hp'; exact List.mem_append_left _ hcm
            · rw [hp] at hp'; cases hp'; exact hcm
    · exact hi
  | status u st =>
    simp only [applyOp]
    split
    · next f hf =>
      split
      · next hok =>
        refine hi.transfer ?_ ?_ ?_
        · intro v f' hv
          rw [setFlow_flows] at hv
          split at hv
          · next e =>
            subst e; cases hv
            refine ⟨f, hf, rfl, rfl, fun _ => Or.inl ?_⟩
            cases hs : f.status <;> cases st <;> simp [statusStepOk, hs, FStatus.listening] at hok ⊢
          · exact ⟨f', hv, rfl, rfl, fun h => Or.inl h⟩
        · intro v g hv
          rw [setFlow_flows]; split
          · exact ⟨_, rfl⟩
          · exact ⟨g, hv⟩
        · intro p pf pf' c cf' hp hp' hcm _ _
          rw [setFlow_flows] at hp'
          split at hp'
          · next e => subst e; rw [hf] at hp; cases hp; cases hp'; exact hcm
          · rw [hp] at hp'; cases hp'; exact hcm
      · exact hi
    · exact hi
  | newAction u a =>
    simp only [applyOp]
    split
    · next f hf ha =>
      split
      · exact hi.of_lk (fun v => by
          show ((setFlow s u _).flows v).map lk = _
          exact lk_setFlow s u f { f with actionUids := f.actionUids ++ [a] } hf rfl v)
      · exact hi
    · exact hi
  | startAction a =>
    simp only [applyOp]
    split
    · split
      · obtain ⟨hf, _, _, _, _⟩ := update_rel (AEv.startOf a) (emit s (.start a))
        exact hi.of_flows_eq hf
      · exact hi
    · exact hi
  | coWin loser a b =>
    simp only [applyOp]
    split
    · next f x hf hx =>
      split
      · exact hi.of_lk (fun v => by
          show ((setFlow s loser _).flows v).map lk = _
          exact lk_setFlow s loser f { f with actionUids := f.actionUids.map fun y => if y == b then a else y } hf rfl v)
      · exact hi
    · exact hi
  | event e =>
    by_cases hg : eventOk s e = true
    · have happ : applyOp s (.event e) = updateActionStatusByEvent s e := by simp only [applyOp, hg, if_true]
      rw [happ]
      obtain ⟨hf, _, _, _, _⟩ := update_rel e s
      exact hi.of_flows_eq hf
    · have happ : applyOp s (.event e) = s := by simp only [applyOp, hg]; rfl
      rw [happ]; exact hi
  | label u =>
    simp only [applyOp]
    cases h : labelRestart s u with
    | error e => exact hi
    | ok s' => exact hi.of_lk (labelRestart_lk s u s' h)
  | frame u heads scopes =>
    simp only [applyOp]
    split
    · next f hf => exact hi.of_lk (lk_setFlow s u f _ hf rfl)
    · exact hi
  | noRestart u =>
    simp only [applyOp]
    exact hi.of_lk (lk_modFlow _ _ _ (fun _ => rfl))

theorem linkInv_run (ops : List IOp) : LinkInv (run ops) := by
  unfold run
  suffices h : ∀ (l : List IOp) (s : State), LinkInv s → LinkInv (l.foldl applyOp s) from h ops _ LinkInv.init
  intro l
  induction l with
  | nil => intro s hs; exact hs
  | cons op l ih => intro s hs; exact ih _ (LinkInv.step s op hs)

/-- parent-pointer form of the lifetime clause, from the children form (`FlowInv.dc`) and `LinkInv.linked` -/
theorem parent_pointer_form (s : State) (hf : FlowInv s) (hl : LinkInv s) (c p : Nat) (cf pf : Flow)
    (hc : s.flows c = some cf) (hp : s.flows p = some pf) (hpar : cf.parent = some p)
    (hlis : cf.status.listening = true) (hact : cf.activated = 0) :
    pf.status.listening = true ∨ pf.status = .stopping :=
  hf.dc p pf c cf hp (hl.linked c cf p pf hc hlis hpar hp) hc (fun h => h) hact hlis

end NemoVerif.Lifetime
