/-
  C06 / refinement CoreVM → Lifetime, part 8b: two more branches of `slideStep`:
  * `BeginScope` IS `IOp.frame` (the scope dict of the instance gets the entry `name ↦ ([], [])` unless it has one),
  * an element without effect on the flow hierarchy (`.other`) only moves the head: invisible to `absVM`.
-/
import NemoVerif.Lemmas.LifetimeCoreVM8
namespace NemoVerif.Lifetime.Refine
open NemoVerif NemoVerif.CoreVM NemoVerif.CoreIndex NemoVerif.Lifetime

/-- the `.beginScope name` branch of `slideStep` -/
def vmBeginScope (f : FUid) (h : HUid) (name : String) (pos : Nat) : M Unit := do
  let hx ← getHeadX (f, h)
  if hx.scopeUids.contains name then pyRaise "ColangRuntimeError" s!"Scope with name {name} already opened in this head!"
  modHeadX (f, h) fun y => { y with scopeUids := y.scopeUids ++ [name] }
  let x ← getInstX f
  if (OMap.lookup name x.scopes).isNone then
    modInstX f fun x => { x with scopes := x.scopes ++ [(name, ([], []))] }
  setHeadPos (f, h) (pos + 1)

theorem slideStep_beginScope (fuel : Nat) (f : FUid) (h : HUid) (vm : VM) (cfg : FlowCfg) (hd : Head) (name : String)
    (hcfg : cfgOfInst f vm = .ok cfg vm) (hhd : getHead? (f, h) vm = .ok (some hd) vm)
    (hpos : ¬ (hd.pos ≥ cfg.elements.size ∨ hd.status = .inactive))
    (hel : cfg.elements[hd.pos]! = .beginScope name) :
    slideStep fuel f h vm = (do vmBeginScope f h name hd.pos; return (false, [])) vm := by
  unfold slideStep
  simp only [bind, EStateM.bind, hcfg, hhd]
  have hp : (decide (hd.pos ≥ cfg.elements.size) || decide (hd.status = HeadStatus.inactive)) = false := by
    cases hb : (decide (hd.pos ≥ cfg.elements.size) || decide (hd.status = HeadStatus.inactive)) with
    | false => rfl
    | true => exact absurd (by simpa using hb) hpos
  rw [hp, hel]
  simp only [Bool.false_eq_true, if_false]
  unfold vmBeginScope
  show _ = EStateM.bind _ (fun _ => pure (false, [])) vm
  simp only [bind, ebind_ite, ebind_assoc]

theorem slideStep_other (fuel : Nat) (f : FUid) (h : HUid) (vm : VM) (cfg : FlowCfg) (hd : Head)
    (hcfg : cfgOfInst f vm = .ok cfg vm) (hhd : getHead? (f, h) vm = .ok (some hd) vm)
    (hpos : ¬ (hd.pos ≥ cfg.elements.size ∨ hd.status = .inactive))
    (hel : cfg.elements[hd.pos]! = .other) :
    slideStep fuel f h vm = (do setHeadPos (f, h) (hd.pos + 1); return (false, [])) vm := by
  unfold slideStep
  simp only [bind, EStateM.bind, hcfg, hhd]
  have hp : (decide (hd.pos ≥ cfg.elements.size) || decide (hd.status = HeadStatus.inactive)) = false := by
    cases hb : (decide (hd.pos ≥ cfg.elements.size) || decide (hd.status = HeadStatus.inactive)) with
    | false => rfl
    | true => exact absurd (by simpa using hb) hpos
  rw [hp, hel]
  simp only [Bool.false_eq_true, if_false]
  rfl


variable (ν φ : String → Nat)

/-- **`BeginScope` IS `IOp.frame`**: the instance's scope dict gets `name ↦ ([], [])` unless the name is present; everything else
    (head scope list, head position) is invisible to `absVM` -/
theorem corevm_beginScope_is_op (hν : Function.Injective ν) (f : FUid) (h : HUid) (name : String) (pos : Nat) (vm vm' : VM) (hw : WF vm)
    (hro : NameRO f (pos + 1)) (hrun : vmBeginScope f h name pos vm = .ok () vm') :
    ∃ x, OMap.lookup f vm.r.fx = some x ∧ WF vm' ∧
      absVM ν φ vm' = cs (applyOp (absVM ν φ vm) (.frame (ν f) (absFlow ν φ vm f x).heads
        (if (OMap.lookup name x.scopes).isNone then (absFlow ν φ vm f x).scopes ++ [(ν name, [], [])] else (absFlow ν φ vm f x).scopes))) := by
  unfold vmBeginScope at hrun
  simp only [bind, EStateM.bind] at hrun
  obtain ⟨hx0, hhx⟩ : ∃ hx0, getHeadX (f, h) vm = .ok hx0 vm := ⟨_, rfl⟩
  rw [hhx] at hrun
  simp only at hrun
  split at hrun
  · cases hrun
  · simp only [EStateM.bind, pure, EStateM.pure] at hrun
    obtain ⟨vmA, hA, hAe⟩ : ∃ vmA : VM, modHeadX (f, h) (fun y => { y with scopeUids := y.scopeUids ++ [name] }) vm = .ok () vmA ∧
        (vmA.ixs = vm.ixs ∧ vmA.r.fx = vm.r.fx ∧ vmA.r.actions = vm.r.actions) := ⟨_, rfl, ⟨rfl, rfl, rfl⟩⟩
    rw [hA] at hrun
    simp only at hrun
    have wA : WF vmA := hw.of_same hAe.1 hAe.2.1 hAe.2.2
    have absA : absVM ν φ vmA = absVM ν φ vm := absVM_of_same ν φ vm vmA (fun u => by rw [hAe.1]) hAe.2.1 hAe.2.2
    cases hx : OMap.lookup f vm.r.fx with
    | none =>
      have : OMap.lookup f vmA.r.fx = none := by rw [hAe.2.1]; exact hx
      rw [getInstX_run_none f vmA this] at hrun; cases hrun
    | some x =>
      have hxA : OMap.lookup f vmA.r.fx = some x := by rw [hAe.2.1]; exact hx
      rw [getInstX_run_some f vmA x hxA] at hrun
      simp only at hrun
      refine ⟨x, rfl, ?_⟩
      have hfl : (absVM ν φ vm).flows (ν f) = some (absFlow ν φ vm f x) := by rw [absVM_flows ν φ hν, hx]; rfl
      by_cases hn : (OMap.lookup name x.scopes).isNone = true
      · simp only [hn, if_true, EStateM.bind, modInstX_run] at hrun ⊢
        have wB : WF (vmMod vmA f fun x => { x with scopes := x.scopes ++ [(name, ([], []))] }) := wA.vmMod f _ (fun _ h => h)
        obtain ⟨a4, w4⟩ := setHeadPos_abs ν φ (f, h) (pos + 1) _ vm' wB hro hrun
        refine ⟨w4, ?_⟩
        rw [a4, absVM_vmMod ν φ hν vmA f _ (fun fl => { fl with scopes := fl.scopes ++ [(ν name, [], [])] })
          (fun u x => by simp only [absFlow, List.map_append, List.map_cons, List.map_nil]), absA]
        simp only [applyOp, hfl]
        unfold modFlow
        rw [hfl]
        rfl
      · simp only [hn, Bool.false_eq_true, if_false] at hrun ⊢
        obtain ⟨a4, w4⟩ := setHeadPos_abs ν φ (f, h) (pos + 1) vmA vm' wA hro hrun
        refine ⟨w4, ?_⟩
        rw [a4, absA]
        simp only [applyOp, hfl]
        have : setFlow (absVM ν φ vm) (ν f) { absFlow ν φ vm f x with heads := (absFlow ν φ vm f x).heads, scopes := (absFlow ν φ vm f x).scopes }
            = absVM ν φ vm := by
          apply state_ext
          · funext v
            simp only [setFlow_flows]
            split
            · next e => rw [e]; exact hfl.symm
            · rfl
          all_goals rfl
        rw [this]; rfl

/-- an element without effect on the hierarchy only moves the head -/
theorem corevm_other_frame (f : FUid) (h : HUid) (pos : Nat) (vm vm' : VM) (hw : WF vm) (hro : NameRO f (pos + 1))
    (hrun : setHeadPos (f, h) (pos + 1) vm = .ok () vm') : absVM ν φ vm' = absVM ν φ vm ∧ WF vm' :=
  setHeadPos_abs ν φ (f, h) (pos + 1) vm vm' hw hro hrun

end NemoVerif.Lifetime.Refine
