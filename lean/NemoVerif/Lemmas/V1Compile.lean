/-
  Lemmas for C12 (Colang 1.0 part): checker correctness and the size / offset lemmas per construct of
  `_extract_elements`, `_resolve_gotos`, `_process_ellipsis`.
-/
import NemoVerif.Models.V1Compile
namespace NemoVerif.V1Compile

/-! ### checker correctness -/

theorem inB_iff (len i : Nat) (off : Int) : inB len i off = true ↔ InB len i off := by
  simp [inB, InB]

theorem optAll_iff (o : Option Int) (f : Int → Bool) (P : Int → Prop) (h : ∀ x, f x = true ↔ P x) :
    optAll o f = true ↔ ∀ x, o = some x → P x := by
  cases o <;> simp [optAll, h]

theorem okAt_iff (len i : Nat) (e : Elem) : okAt len i e = true ↔ OkAt len i e := by
  unfold okAt
  simp only [Bool.and_eq_true]
  rw [optAll_iff e.next _ (fun off => if e.absolute then (off = -1 ∨ (0 ≤ off ∧ off ≤ (len : Int))) else InB len i off)
        (by intro x; cases e.absolute <;> simp [inB_iff]),
      optAll_iff e.nextElse _ (InB len i) (inB_iff len i),
      optAll_iff e.onBreak _ (InB len i) (inB_iff len i),
      optAll_iff e.onContinue _ (InB len i) (inB_iff len i)]
  have k1 : ((e.kind != Kind.ifK || e.nextElse.isSome) = true) ↔ (e.kind = .ifK → e.nextElse.isSome = true) := by
    by_cases h : e.kind = .ifK <;> simp [h]
  have k2 : ((e.kind != Kind.whileK || e.onBreak.isSome) = true) ↔ (e.kind = .whileK → e.onBreak.isSome = true) := by
    by_cases h : e.kind = .whileK <;> simp [h]
  have k3 : ((e.kind != Kind.jump || e.next.isSome) = true) ↔ (e.kind = .jump → e.next.isSome = true) := by
    by_cases h : e.kind = .jump <;> simp [h]
  have k4 : ((!e.absolute || e.kind == Kind.jump) = true) ↔ (e.absolute = true → e.kind = .jump) := by
    cases e.absolute <;> simp
  rw [k1, k2, k3, k4]
  constructor
  · rintro ⟨⟨⟨⟨⟨⟨⟨⟨⟨h1, h2⟩, h3⟩, h4⟩, h5⟩, h6⟩, h7⟩, h8⟩, h9⟩, h10⟩
    exact ⟨h1, h2, h3, h4, by simpa [List.all_eq_true] using h5, h6, h7, h8, by simpa using h9, h10⟩
  · intro h
    exact ⟨⟨⟨⟨⟨⟨⟨⟨⟨h.next, h.nextElse⟩, h.onBreak⟩, h.onContinue⟩, by simpa [List.all_eq_true] using h.heads⟩,
      h.reqIf⟩, h.reqWhile⟩, h.reqJump⟩, by simpa using h.noRaw⟩, h.absJump⟩

theorem okIn_nil (len s : Nat) : OkIn len s [] := by
  intro j e h; simp at h

theorem okIn_cons (len s : Nat) (e : Elem) (r : List Elem) :
    OkIn len s (e :: r) ↔ OkAt len s e ∧ OkIn len (s + 1) r := by
  constructor
  · intro h
    refine ⟨by simpa using h 0 e (by simp), ?_⟩
    intro j x hx
    have := h (j + 1) x (by simpa using hx)
    have e1 : s + (j + 1) = s + 1 + j := by omega
    rwa [e1] at this
  · rintro ⟨h0, h⟩ j x hx
    cases j with
    | zero => simp at hx; subst hx; simpa using h0
    | succ j' =>
      have := h j' x (by simpa using hx)
      have e1 : s + (j' + 1) = s + 1 + j' := by omega
      rwa [e1]

theorem okIn_singleton (len s : Nat) (e : Elem) : OkIn len s [e] ↔ OkAt len s e := by
  rw [okIn_cons]; exact ⟨fun h => h.1, fun h => ⟨h, okIn_nil _ _⟩⟩

theorem okIn_append (len : Nat) : ∀ (a : List Elem) (s : Nat) (b : List Elem),
    OkIn len s (a ++ b) ↔ OkIn len s a ∧ OkIn len (s + a.length) b := by
  intro a
  induction a with
  | nil => intro s b; simp [okIn_nil]
  | cons e r ih =>
    intro s b
    rw [List.cons_append, okIn_cons, okIn_cons, ih]
    have e1 : s + 1 + r.length = s + (e :: r).length := by simp; omega
    rw [e1]
    exact ⟨fun ⟨h1, h2, h3⟩ => ⟨⟨h1, h2⟩, h3⟩, fun ⟨⟨h1, h2⟩, h3⟩ => ⟨h1, h2, h3⟩⟩

theorem okFrom_iff (len : Nat) : ∀ (es : List Elem) (i : Nat), okFrom len i es = true ↔ OkIn len i es := by
  intro es
  induction es with
  | nil => intro i; simp [okFrom, okIn_nil]
  | cons e r ih => intro i; simp only [okFrom, Bool.and_eq_true, okIn_cons, okAt_iff, ih]

theorem offsetsInBounds_iff (es : List Elem) : offsetsInBounds es = true ↔ OffsetsInBounds es :=
  okFrom_iff es.length es 0

theorem resolved_iff (es : List Elem) : resolved es = true ↔ Resolved es := by
  simp [resolved, Resolved, List.all_eq_true]

theorem v1Closed_iff (es : List Elem) : v1Closed es = true ↔ OffsetsInBounds es ∧ Resolved es := by
  simp [v1Closed, offsetsInBounds_iff, resolved_iff]

/-! ### relocation: offsets are relative, so a well-formed segment stays well-formed inside a larger flow -/

theorem okAt_shift (n i : Nat) (e : Elem) (h : OkAt n i e) (a len : Nat) (hl : a + n ≤ len) :
    OkAt len (a + i) e := by
  refine ⟨?_, ?_, ?_, ?_, ?_, h.reqIf, h.reqWhile, h.reqJump, h.noRaw, h.absJump⟩
  · intro off ho
    have := h.next off ho
    cases hab : e.absolute with
    | true =>
      rw [hab] at this; simp at this ⊢
      rcases this with h1 | ⟨h1, h2⟩
      · exact Or.inl h1
      · exact Or.inr ⟨h1, by omega⟩
    | false =>
      rw [hab] at this; simp [InB] at this ⊢
      omega
  · intro off ho; have := h.nextElse off ho; simp [InB] at this ⊢; omega
  · intro off ho; have := h.onBreak off ho; simp [InB] at this ⊢; omega
  · intro off ho; have := h.onContinue off ho; simp [InB] at this ⊢; omega
  · intro off ho; have := h.heads off ho; omega

theorem okIn_shift (seg : List Elem) (n s0 : Nat) (h : OkIn n s0 seg) (a len : Nat) (hl : a + n ≤ len) :
    OkIn len (a + s0) seg := by
  intro j e he
  have := okAt_shift n (s0 + j) e (h j e he) a len hl
  have e1 : a + (s0 + j) = a + s0 + j := by omega
  rwa [e1] at this

theorem okIn_place (seg : List Elem) (h : OffsetsInBounds seg) (s len : Nat) (hl : s + seg.length ≤ len) :
    OkIn len s seg := by
  have := okIn_shift seg seg.length 0 h s len hl
  simpa using this

theorem offsetsInBounds_append (a b : List Elem) (ha : OffsetsInBounds a) (hb : OffsetsInBounds b) :
    OffsetsInBounds (a ++ b) := by
  unfold OffsetsInBounds
  rw [okIn_append]
  refine ⟨okIn_place a ha 0 _ (by simp), ?_⟩
  have := okIn_place b hb a.length (a ++ b).length (by simp)
  simpa using this

/-- an element without any offset is well-formed anywhere -/
theorem okAt_plain (len i : Nat) (k : String) (el : Bool) (nm : Option String) :
    OkAt len i { kind := .simple k, ellipsis := el, name := nm } := by
  refine ⟨?_, ?_, ?_, ?_, ?_, ?_, ?_, ?_, rfl, ?_⟩ <;> simp

theorem okAt_named (len i : Nat) (kd : Kind) (nm : Option String) (h1 : kd ≠ .ifK) (h2 : kd ≠ .whileK) (h3 : kd ≠ .jump) :
    OkAt len i { kind := kd, name := nm } := by
  refine ⟨?_, ?_, ?_, ?_, ?_, ?_, ?_, ?_, rfl, ?_⟩ <;> simp [h1, h2, h3]

theorem okAt_jump (len i : Nat) (off : Int) (h : InB len i off) : OkAt len i (jump off) := by
  refine ⟨?_, ?_, ?_, ?_, ?_, ?_, ?_, ?_, rfl, ?_⟩ <;> simp [jump]
  exact h

/-! ### one size / offset lemma per construct -/

theorem markLoop_length (n : Nat) : ∀ (r : List Elem) (j : Nat), (markLoop n j r).length = r.length := by
  intro r
  induction r with
  | nil => intro j; rfl
  | cons e r ih => intro j; simp [markLoop, ih]

theorem markLoop_ok (n : Nat) : ∀ (r : List Elem) (j : Nat), j + r.length = n → OkIn n j r →
    OkIn (n + 2) (1 + j) (markLoop n j r) := by
  intro r
  induction r with
  | nil => intro j _ _; exact okIn_nil _ _
  | cons e r ih =>
    intro j hj h
    rw [okIn_cons] at h
    simp only [markLoop]
    rw [okIn_cons]
    refine ⟨?_, ?_⟩
    · have hs := okAt_shift n j e h.1 1 (n + 2) (by omega)
      simp only [List.length_cons] at hj
      by_cases hb : e.onBreak.isNone = true
      · rw [if_pos hb]
        refine ⟨hs.next, hs.nextElse, ?_, ?_, hs.heads, hs.reqIf, ?_, hs.reqJump, hs.noRaw, hs.absJump⟩
        · intro off ho
          simp at ho; subst ho
          simp [InB]; omega
        · intro off ho
          simp at ho; subst ho
          simp [InB]; omega
        · intro _; simp
      · rw [if_neg hb]; exact hs
    · have := ih (j + 1) (by simp at hj; omega) h.2
      have e1 : 1 + (j + 1) = 1 + j + 1 := by omega
      rwa [e1] at this

theorem whileBlock_ok (d : List Elem) (hd : OffsetsInBounds d) : OffsetsInBounds (whileBlock d) := by
  unfold OffsetsInBounds whileBlock
  have hlen : ({ kind := .whileK, onBreak := some ((d.length : Int) + 2) } ::
      markLoop d.length 0 d ++ [jump (-((d.length : Int) + 1))] : List Elem).length = d.length + 2 := by
    simp [markLoop_length]
  rw [hlen, List.cons_append, okIn_cons, okIn_append, okIn_singleton]
  refine ⟨?_, ?_, ?_⟩
  · refine ⟨?_, ?_, ?_, ?_, ?_, ?_, ?_, ?_, rfl, ?_⟩ <;> simp [InB]
    omega
  · have := markLoop_ok d.length d 0 (by simp) hd
    simpa using this
  · apply okAt_jump
    simp [InB, markLoop_length]
    omega

theorem ifBlock_ok (te fe : List Elem) (ht : OffsetsInBounds te) (hf : OffsetsInBounds fe) :
    OffsetsInBounds (ifBlock te fe) := by
  unfold ifBlock
  by_cases hfe : fe.isEmpty = true
  · rw [if_pos hfe]
    unfold OffsetsInBounds
    rw [okIn_cons]
    refine ⟨?_, ?_⟩
    · refine ⟨?_, ?_, ?_, ?_, ?_, ?_, ?_, ?_, rfl, ?_⟩ <;> simp [InB]
      omega
    · exact okIn_place te ht 1 _ (by simp; omega)
  · rw [if_neg hfe]
    unfold OffsetsInBounds
    have hlen : ({ kind := .ifK, nextElse := some ((te.length : Int) + 2) } :: te ++ [jump ((fe.length : Int) + 1)] ++ fe : List Elem).length
        = te.length + fe.length + 2 := by simp; omega
    rw [hlen, List.cons_append, List.cons_append, okIn_cons, List.append_assoc, okIn_append, okIn_append, okIn_singleton]
    refine ⟨?_, ?_, ?_, ?_⟩
    · refine ⟨?_, ?_, ?_, ?_, ?_, ?_, ?_, ?_, rfl, ?_⟩ <;> simp [InB]
      omega
    · exact okIn_place te ht _ _ (by omega)
    · apply okAt_jump; simp [InB]; omega
    · exact okIn_place fe hf _ _ (by simp; omega)

theorem branchTail_ok : ∀ (paths : List (List Elem)) (s len : Nat), (∀ p ∈ paths, OffsetsInBounds p) →
    s + (branchTail paths).length ≤ len → OkIn len s (branchTail paths) := by
  intro paths
  induction paths with
  | nil => intro s len _ _; exact okIn_nil _ _
  | cons p ps ih =>
    intro s len hp hl
    simp only [branchTail] at hl ⊢
    simp only [List.length_append, List.length_cons, List.length_nil] at hl
    rw [okIn_append, okIn_append, okIn_singleton]
    refine ⟨⟨?_, ?_⟩, ?_⟩
    · exact okIn_place p (hp p (by simp)) s len (by omega)
    · apply okAt_jump; simp [InB]; omega
    · apply ih _ _ (fun q hq => hp q (List.mem_cons_of_mem _ hq))
      simp; omega

theorem branchHeads_bound : ∀ (paths : List (List Elem)) (pos : Nat), ∀ h ∈ branchHeadsFrom pos paths,
    (pos : Int) ≤ h ∧ h < (pos : Int) + ((branchTail paths).length : Int) := by
  intro paths
  induction paths with
  | nil => intro pos h hh; simp [branchHeadsFrom] at hh
  | cons p ps ih =>
    intro pos h hh
    simp only [branchHeadsFrom, List.mem_cons] at hh
    simp only [branchTail, List.length_append, List.length_cons, List.length_nil]
    rcases hh with hh | hh
    · subst hh; omega
    · have := ih (pos + p.length + 1) h hh
      omega

theorem branchBlock_ok (paths : List (List Elem)) (hp : ∀ p ∈ paths, OffsetsInBounds p) :
    OffsetsInBounds (branchBlock paths) := by
  unfold OffsetsInBounds branchBlock
  rw [okIn_cons]
  refine ⟨?_, ?_⟩
  · refine ⟨?_, ?_, ?_, ?_, ?_, ?_, ?_, ?_, rfl, ?_⟩ <;> simp
    intro off ho
    have := branchHeads_bound paths 1 off ho
    omega
  · exact branchTail_ok paths 1 _ hp (by simp; omega)

theorem plainList_ok (len : Nat) : ∀ (cs : List String) (s : Nat),
    OkIn len s (cs.map fun k => ({ kind := .simple k } : Elem)) := by
  intro cs
  induction cs with
  | nil => intro s; exact okIn_nil _ _
  | cons c cs ih => intro s; rw [List.map_cons, okIn_cons]; exact ⟨okAt_plain len s c false none, ih _⟩

mutual
  theorem compile_ok : ∀ (items : List Item), OffsetsInBounds (compile items)
    | [] => by unfold compile; exact okIn_nil _ _
    | it :: rest => by
      unfold compile
      exact offsetsInBounds_append _ _ (compileItem_ok it) (compile_ok rest)
  theorem compileItem_ok : ∀ (it : Item), OffsetsInBounds (compileItem it)
    | .simple k => by
      unfold compileItem OffsetsInBounds; rw [okIn_singleton]; exact okAt_plain _ _ k false none
    | .setEllipsis => by
      unfold compileItem OffsetsInBounds; rw [okIn_singleton]; exact okAt_plain _ _ "set" true none
    | .ret => by
      unfold compileItem OffsetsInBounds; rw [okIn_singleton]
      refine ⟨?_, ?_, ?_, ?_, ?_, ?_, ?_, ?_, rfl, ?_⟩ <;> simp
    | .label n => by
      unfold compileItem OffsetsInBounds; rw [okIn_singleton]
      exact okAt_named _ _ .label (some n) (by simp) (by simp) (by simp)
    | .goto n => by
      unfold compileItem OffsetsInBounds; rw [okIn_singleton]
      exact okAt_named _ _ .goto (some n) (by simp) (by simp) (by simp)
    | .ifS t f => by
      unfold compileItem
      exact ifBlock_ok _ _ (compile_ok t) (compile_ok f)
    | .whileS b => by
      unfold compileItem
      exact whileBlock_ok _ (compile_ok b)
    | .anyS cs => by
      unfold compileItem OffsetsInBounds
      rw [okIn_cons]
      exact ⟨okAt_plain _ _ "any" false none, plainList_ok _ cs _⟩
    | .branches bs => by
      unfold compileItem
      exact branchBlock_ok _ (compileBranches_ok bs)
  theorem compileBranches_ok : ∀ (bs : List (List Item)), ∀ p ∈ compileBranches bs, OffsetsInBounds p
    | [] => by unfold compileBranches; simp
    | b :: bs => by
      unfold compileBranches
      intro p hp
      rcases List.mem_cons.1 hp with hp | hp
      · subst hp; exact compile_ok b
      · exact compileBranches_ok bs p hp
end

/-! ### `_resolve_gotos` and `_process_ellipsis` -/

theorem lookup_mem {α β : Type} [BEq α] [LawfulBEq α] : ∀ (tbl : List (α × β)) (n : α) (k : β),
    tbl.lookup n = some k → (n, k) ∈ tbl := by
  intro tbl
  induction tbl with
  | nil => intro n k h; simp [List.lookup] at h
  | cons a r ih =>
    intro n k h
    obtain ⟨a1, a2⟩ := a
    simp only [List.lookup] at h
    by_cases hn : (n == a1) = true
    · simp [hn] at h
      have : n = a1 := by simpa using hn
      subst this; subst h; simp
    · have hn' : (n == a1) = false := by simpa using hn
      simp [hn'] at h
      exact List.mem_cons_of_mem _ (ih n k h)

theorem checkpoints_bound (bound : Nat) : ∀ (es : List Elem) (i : Nat) (acc tbl : List (String × Nat)),
    checkpoints i es acc = .ok tbl → i + es.length ≤ bound → (∀ x ∈ acc, x.2 < bound) → ∀ x ∈ tbl, x.2 < bound := by
  intro es
  induction es with
  | nil => intro i acc tbl h _ ha; simp [checkpoints] at h; subst h; exact ha
  | cons e r ih =>
    intro i acc tbl h hb ha
    simp only [checkpoints] at h
    simp only [List.length_cons] at hb
    by_cases hk : e.kind = .label
    · rw [if_pos hk] at h
      cases hn : e.name with
      | none => rw [hn] at h; cases h
      | some n =>
        rw [hn] at h
        simp only at h
        by_cases hd : (List.lookup n acc).isSome = true
        · rw [if_pos hd] at h; cases h
        · rw [if_neg hd] at h
          apply ih (i + 1) _ tbl h (by omega)
          intro x hx
          rcases List.mem_cons.1 hx with hx | hx
          · subst hx; simp; omega
          · exact ha x hx
    · rw [if_neg hk] at h
      exact ih (i + 1) acc tbl h (by omega) ha

theorem resolveFrom_ok (len : Nat) (tbl : List (String × Nat)) (htbl : ∀ x ∈ tbl, x.2 < len) :
    ∀ (es : List Elem) (i : Nat) (es' : List Elem), resolveFrom tbl i es = .ok es' → i + es.length ≤ len →
      OkIn len i es → OkIn len i es' ∧ es'.length = es.length ∧ Resolved es' := by
  intro es
  induction es with
  | nil =>
    intro i es' h _ _
    simp [resolveFrom] at h; subst h
    exact ⟨okIn_nil _ _, rfl, by intro e he; simp at he⟩
  | cons e r ih =>
    intro i es' h hb hok
    simp only [List.length_cons] at hb
    rw [okIn_cons] at hok
    simp only [resolveFrom] at h
    cases hr : resolveFrom tbl (i + 1) r with
    | error m => rw [hr] at h; cases h
    | ok r' =>
      rw [hr] at h
      simp only at h
      obtain ⟨ih1, ih2, ih3⟩ := ih (i + 1) r' hr (by omega) hok.2
      have hcons : ∀ (x : Elem), OkAt len i x → x.kind ≠ .label → x.kind ≠ .goto →
          OkIn len i (x :: r') ∧ (x :: r').length = r.length + 1 ∧ Resolved (x :: r') := by
        intro x hx h1 h2
        refine ⟨(okIn_cons _ _ _ _).2 ⟨hx, ih1⟩, by simp [ih2], ?_⟩
        intro y hy
        rcases List.mem_cons.1 hy with hy | hy
        · subst hy; exact ⟨h1, h2⟩
        · exact ih3 y hy
      by_cases hk : e.kind = .label
      · rw [if_pos hk] at h
        cases h
        apply hcons
        · refine ⟨?_, hok.1.nextElse, hok.1.onBreak, hok.1.onContinue, hok.1.heads, ?_, ?_, ?_, hok.1.noRaw, ?_⟩
          · intro off ho
            simp at ho; subst ho
            cases hab : e.absolute with
            | true => simp; omega
            | false => simp [InB]; omega
          · intro hc; cases hc
          · intro hc; cases hc
          · intro _; simp
          · intro _; rfl
        · simp
        · simp
      · rw [if_neg hk] at h
        by_cases hg : e.kind = .goto
        · rw [if_pos hg] at h
          cases hl : e.name.bind (fun n => List.lookup n tbl) with
          | none => rw [hl] at h; cases h
          | some k =>
            rw [hl] at h
            cases h
            have hk' : k < len := by
              cases hn : e.name with
              | none => rw [hn] at hl; simp at hl
              | some n =>
                rw [hn] at hl
                simp at hl
                exact htbl (n, k) (lookup_mem tbl n k hl)
            apply hcons
            · refine ⟨?_, hok.1.nextElse, hok.1.onBreak, hok.1.onContinue, hok.1.heads, ?_, ?_, ?_, hok.1.noRaw, ?_⟩
              · intro off ho
                simp at ho; subst ho
                cases hab : e.absolute with
                | true =>
                  have := hok.1.absJump hab
                  rw [hg] at this; cases this
                | false => simp [InB]; omega
              · intro hc; cases hc
              · intro hc; cases hc
              · intro _; simp
              · intro _; rfl
            · simp
            · simp
        · rw [if_neg hg] at h
          cases h
          exact hcons e hok.1 hk hg

theorem resolveGotos_ok (es es' : List Elem) (h : resolveGotos es = .ok es') (hok : OffsetsInBounds es) :
    OffsetsInBounds es' ∧ Resolved es' := by
  unfold resolveGotos at h
  cases hc : checkpoints 0 es [] with
  | error m => rw [hc] at h; cases h
  | ok tbl =>
    rw [hc] at h
    simp only at h
    have htbl := checkpoints_bound es.length es 0 [] tbl hc (by simp) (by simp)
    obtain ⟨h1, h2, h3⟩ := resolveFrom_ok es.length tbl htbl es 0 es' h (by simp) hok
    unfold OffsetsInBounds
    rw [h2]
    exact ⟨h1, h3⟩

theorem processEllipsis_ok (es : List Elem) (hok : OffsetsInBounds es) (hr : Resolved es) :
    OffsetsInBounds (processEllipsis es) ∧ Resolved (processEllipsis es) := by
  unfold processEllipsis
  constructor
  · unfold OffsetsInBounds
    intro j e he
    simp only [List.length_map]
    rw [List.getElem?_map] at he
    cases hj : es[j]? with
    | none => rw [hj] at he; simp at he
    | some x =>
      rw [hj] at he
      simp only [Option.map_some, Option.some.injEq] at he
      subst he
      by_cases hc : x.kind = Kind.simple "set" ∧ x.ellipsis = true
      · rw [if_pos hc]; exact okAt_plain _ _ _ false none
      · rw [if_neg hc]; exact hok j x hj
  · intro e he
    rw [List.mem_map] at he
    obtain ⟨x, hx, rfl⟩ := he
    by_cases hc : x.kind = Kind.simple "set" ∧ x.ellipsis = true
    · rw [if_pos hc]; simp
    · rw [if_neg hc]; exact hr x hx

end NemoVerif.V1Compile

namespace NemoVerif.V1Compile

/-! ### `_resolve_gotos`: every goto lands on its label -/

/-- every entry of `checkpoint_idx` that was not there before points at a `label` element of that name -/
theorem checkpoints_sound : ∀ (r : List Elem) (i : Nat) (acc tbl : List (String × Nat)),
    checkpoints i r acc = .ok tbl →
    ∀ x ∈ tbl, x ∈ acc ∨ (i ≤ x.2 ∧ ∃ lab, r[x.2 - i]? = some lab ∧ lab.kind = .label ∧ lab.name = some x.1) := by
  intro r
  induction r with
  | nil => intro i acc tbl h x hx; simp [checkpoints] at h; subst h; exact Or.inl hx
  | cons e r ih =>
    intro i acc tbl h x hx
    simp only [checkpoints] at h
    have lift : ∀ acc', checkpoints (i + 1) r acc' = .ok tbl → (x ∈ acc' → x ∈ acc ∨ (x.2 = i ∧ e.kind = .label ∧ e.name = some x.1)) →
        x ∈ acc ∨ (i ≤ x.2 ∧ ∃ lab, (e :: r)[x.2 - i]? = some lab ∧ lab.kind = .label ∧ lab.name = some x.1) := by
      intro acc' h' hacc
      rcases ih (i + 1) acc' tbl h' x hx with h1 | ⟨h1, lab, h2, h3, h4⟩
      · rcases hacc h1 with h1 | ⟨h1, h2, h3⟩
        · exact Or.inl h1
        · exact Or.inr ⟨by omega, e, by simp [h1], h2, h3⟩
      · refine Or.inr ⟨by omega, lab, ?_, h3, h4⟩
        have e1 : x.2 - i = (x.2 - (i + 1)) + 1 := by omega
        rw [e1]; simpa using h2
    by_cases hk : e.kind = .label
    · rw [if_pos hk] at h
      cases hn : e.name with
      | none => rw [hn] at h; cases h
      | some n =>
        rw [hn] at h
        simp only at h
        by_cases hd : (List.lookup n acc).isSome = true
        · rw [if_pos hd] at h; cases h
        · rw [if_neg hd] at h
          apply lift _ h
          intro hx'
          rcases List.mem_cons.1 hx' with hx' | hx'
          · subst hx'; exact Or.inr ⟨rfl, hk, hn⟩
          · exact Or.inl hx'
    · rw [if_neg hk] at h
      exact lift acc h (fun hx' => Or.inl hx')

theorem resolveFrom_goto (tbl : List (String × Nat)) : ∀ (r : List Elem) (i : Nat) (r' : List Elem),
    resolveFrom tbl i r = .ok r' → ∀ j e, r[j]? = some e → e.kind = .goto →
      ∃ n k e', e.name = some n ∧ tbl.lookup n = some k ∧ r'[j]? = some e' ∧ e'.kind = .jump ∧
        e'.next = some ((k : Int) - ((i + j : Nat) : Int)) := by
  intro r
  induction r with
  | nil => intro i r' _ j e hj; simp at hj
  | cons a r ih =>
    intro i r' h j e hj hg
    simp only [resolveFrom] at h
    cases hr : resolveFrom tbl (i + 1) r with
    | error m => rw [hr] at h; cases h
    | ok r0 =>
      rw [hr] at h
      simp only at h
      cases j with
      | succ j' =>
        have hj' : r[j']? = some e := by simpa using hj
        obtain ⟨n, k, e', h1, h2, h3, h4, h5⟩ := ih (i + 1) r0 hr j' e hj' hg
        have e1 : ((i + 1 + j' : Nat) : Int) = ((i + (j' + 1) : Nat) : Int) := by omega
        have tail : ∀ x, r' = x :: r0 → ∃ n k e', e.name = some n ∧ tbl.lookup n = some k ∧ r'[j' + 1]? = some e' ∧
            e'.kind = .jump ∧ e'.next = some ((k : Int) - ((i + (j' + 1) : Nat) : Int)) := by
          intro x hx; subst hx
          exact ⟨n, k, e', h1, h2, by simpa using h3, h4, by rw [← e1]; exact h5⟩
        by_cases hk : a.kind = .label
        · rw [if_pos hk] at h; cases h; exact tail _ rfl
        · rw [if_neg hk] at h
          by_cases hga : a.kind = .goto
          · rw [if_pos hga] at h
            cases hl : a.name.bind (fun n => List.lookup n tbl) with
            | none => rw [hl] at h; cases h
            | some k0 => rw [hl] at h; cases h; exact tail _ rfl
          · rw [if_neg hga] at h; cases h; exact tail _ rfl
      | zero =>
        simp at hj; subst hj
        have hk : ¬ a.kind = .label := by rw [hg]; simp
        rw [if_neg hk, if_pos hg] at h
        cases hl : a.name.bind (fun n => List.lookup n tbl) with
        | none => rw [hl] at h; cases h
        | some k =>
          rw [hl] at h
          cases h
          cases hn : a.name with
          | none => rw [hn] at hl; simp at hl
          | some n =>
            rw [hn] at hl
            simp at hl
            exact ⟨n, k, { a with kind := .jump, next := some ((k : Int) - (i : Int)) }, rfl, hl, by simp [hn], rfl, by simp⟩

/-- `_resolve_gotos`: an accepted flow has, for every `goto n` at index `i`, a `label n` at some index `k`, and the goto
    became the relative jump `k - i` (so `i + _next = k`: it lands exactly on its label) -/
theorem resolveGotos_lands (es es' : List Elem) (h : resolveGotos es = .ok es') (i : Nat) (e : Elem)
    (hi : es[i]? = some e) (hg : e.kind = .goto) :
    ∃ (n : String) (k : Nat) (e' lab : Elem), e.name = some n ∧ es'[i]? = some e' ∧ e'.kind = .jump ∧ e'.next = some ((k : Int) - (i : Int)) ∧
      es[k]? = some lab ∧ lab.kind = .label ∧ lab.name = some n := by
  unfold resolveGotos at h
  cases hc : checkpoints 0 es [] with
  | error m => rw [hc] at h; cases h
  | ok tbl =>
    rw [hc] at h
    simp only at h
    obtain ⟨n, k, e', h1, h2, h3, h4, h5⟩ := resolveFrom_goto tbl es 0 es' h i e hi hg
    rcases checkpoints_sound es 0 [] tbl hc (n, k) (lookup_mem tbl n k h2) with hx | ⟨_, lab, hl1, hl2, hl3⟩
    · simp at hx
    · exact ⟨n, k, e', lab, h1, h3, h4, by simpa using h5, by simpa using hl1, hl2, hl3⟩

theorem processEllipsis_keeps_jump (es : List Elem) (i : Nat) (e : Elem) (h : es[i]? = some e) (hk : e.kind = .jump) :
    (processEllipsis es)[i]? = some e := by
  unfold processEllipsis
  rw [List.getElem?_map, h]
  simp [hk]

end NemoVerif.V1Compile

namespace NemoVerif.V1Compile

theorem resolveFrom_flag (tbl : List (String × Nat)) : ∀ (r : List Elem) (i : Nat) (r' : List Elem),
    resolveFrom tbl i r = .ok r' → ∀ (j : Nat) (e e' : Elem), r[j]? = some e → r'[j]? = some e' → e'.absolute = e.absolute := by
  intro r
  induction r with
  | nil => intro i r' _ j e e' hj; simp at hj
  | cons a r ih =>
    intro i r' h j e e' hj hj'
    simp only [resolveFrom] at h
    cases hr : resolveFrom tbl (i + 1) r with
    | error m => rw [hr] at h; cases h
    | ok r0 =>
      rw [hr] at h
      simp only at h
      have key : ∀ x, x.absolute = a.absolute → r' = x :: r0 → e'.absolute = e.absolute := by
        intro x hx hr'
        subst hr'
        cases j with
        | zero => simp at hj hj'; subst hj; subst hj'; exact hx
        | succ j' => exact ih (i + 1) r0 hr j' e e' (by simpa using hj) (by simpa using hj')
      by_cases hk : a.kind = .label
      · rw [if_pos hk] at h; cases h; exact key { a with kind := .jump, next := some 1 } rfl rfl
      · rw [if_neg hk] at h
        by_cases hga : a.kind = .goto
        · rw [if_pos hga] at h
          cases hl : a.name.bind (fun n => List.lookup n tbl) with
          | none => rw [hl] at h; cases h
          | some k0 => rw [hl] at h; cases h; exact key { a with kind := .jump, next := some ((k0 : Int) - (i : Int)) } rfl rfl
        · rw [if_neg hga] at h; cases h; exact key a rfl rfl

theorem resolveGotos_flag (es es' : List Elem) (h : resolveGotos es = .ok es') (i : Nat) (e e' : Elem)
    (hi : es[i]? = some e) (hi' : es'[i]? = some e') : e'.absolute = e.absolute := by
  unfold resolveGotos at h
  cases hc : checkpoints 0 es [] with
  | error m => rw [hc] at h; cases h
  | ok tbl => rw [hc] at h; exact resolveFrom_flag tbl es 0 es' h i e e' hi hi'

theorem prepend_plain_ok (es : List Elem) (h : OffsetsInBounds es) (hr : Resolved es) :
    OffsetsInBounds (startFlowElem :: es) ∧ Resolved (startFlowElem :: es) := by
  constructor
  · have h1 : OffsetsInBounds [startFlowElem] := by
      intro j e hj
      cases j with
      | zero => simp at hj; subst hj; exact okAt_plain _ _ "start_flow" false none
      | succ j => simp at hj
    exact offsetsInBounds_append [startFlowElem] es h1 h
  · intro e he
    rcases List.mem_cons.1 he with he | he
    · subst he; simp [startFlowElem]
    · exact hr e he
end NemoVerif.V1Compile
