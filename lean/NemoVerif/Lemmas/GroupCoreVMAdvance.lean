/-
  C07 (T2') — the interpreter model's REAL `_advance_head_front` (`CoreVM.advanceHeadFront`: position += 1, flow-status bookkeeping,
  try/except around `slide`, the "all heads are waiting" scan, finished / aborted handling, the final filter) on ONE matching head is the
  stand-in `advanceMember` used by the segment theorems: `advanceHeadFront_one`; instantiated for a member head of an and-clause:
  `advanceHeadFront_member`.  On a LIST of heads (the loop with its `actionable` accumulator and the final filter):
  `advanceHeadFront_chain` (generic, over a chain of `AdvStep`s), `advanceHeadFront_members` (all matching member heads of an and-clause:
  = `runMembers`, returns the heads that are MERGING afterwards), `and_clause_phase1_real` (phase 1 of GroupVM through the real function); the same for the branch heads of an or-group of single atoms:
  `advStep_branch`, `advanceHeadFront_branches`, `or_group_phase1_real` (every matching branch head ends MERGING and is handed back).  A head that ends on an action (`send`):
  `forIn_readonly_false`, `advanceHeadFront_one_action`, `group_exit_real` (the forking head leaves the group and is handed back as actionable).  The merging loop's call on the MERGING member
  head of an and-group, with the nested call on the forking head: `and_group_merge_real`; the same for ONE MERGING branch head of an
  or-group of single atoms: `or_group_merge_real`.  Both calls composed for one event on a pure and-group: `and_group_event_real`;
  on a pure or-group of single atoms with one branch matching: `or_group_event_real`.  CoreVM's `mergeLoop` (`while heads_are_merging`)
  around call 2: `mergeLoop_active`, `and_group_mergeLoop_real`, `or_group_mergeLoop_real`.
-/
import NemoVerif.Lemmas.GroupCoreVMMirror
set_option linter.unusedSimpArgs false
namespace NemoVerif.CoreVM
open NemoVerif NemoVerif.CoreIndex

/-- **CoreVM's `_advance_head_front` on ONE matching head is `advanceMember`.**  A flow instance in status STARTED, an ACTIVE head `h`;
    advancing it the way the stand-in `advanceMember` does (`position += 1`, `slide`) ends in a state `s'` in which the head sits on an
    element that is not an action and every head of the instance is inside the program.  Then the interpreter model's real
    `advanceHeadFront` on `[h]` does exactly that and nothing else (no flow-status change, no event, nothing finished or aborted), and it
    returns `[h]` iff the head is now MERGING (the merging loop will advance it again). -/
theorem advanceHeadFront_one (fuel : Nat) (s : VM) (f : FUid) (h : HUid) (i i' : Inst) (x : InstX) (cfg : FlowCfg) (hd hd' : Head) (s' : VM)
    (H : HeadAt s f h i x cfg hd) (hact : hd.status = .active) (hstarted : i.status = .started)
    (hadv : advanceMember fuel f h s = .ok [] s')
    (hi0 : ∀ s0, setHeadPos (f, h) (hd.pos + 1) s = .ok () s0 → ∃ i0, findInst s0.ixs.ix f = some i0 ∧ i0.status = .started)
    (F' : FlowAt s' f i' x cfg) (hh' : i'.findHead h = some hd') (hlt' : hd'.pos < cfg.elements.size) (hst' : i'.status = .started)
    (hrange : ∀ o ∈ i'.heads, o.pos < cfg.elements.size)
    (hnoact : (cfg.elements[hd'.pos]!).isActionOp = false) (hlive : hd'.status ≠ .inactive) :
    advanceHeadFront (fuel + 1) [(f, h)] s = .ok (if hd'.status = .merging then [(f, h)] else []) s' := by
  -- split `advanceMember` into its two steps
  have hsplit : ∃ s0, setHeadPos (f, h) (hd.pos + 1) s = .ok () s0 ∧ slide fuel f h s0 = .ok [] s' := by
    simp only [advanceMember, bind, EStateM.bind, getHead?, getIx, get, getThe, MonadStateOf.get, EStateM.get, pure, EStateM.pure,
      H.hi, Option.bind, H.hh] at hadv
    cases h0 : setHeadPos (f, h) (hd.pos + 1) s with
    | ok u s0 => rw [h0] at hadv; exact ⟨s0, rfl, hadv⟩
    | error e s0 => rw [h0] at hadv; cases hadv
  obtain ⟨s0, h0, hsl⟩ := hsplit
  obtain ⟨i0, hi0', hst0⟩ := hi0 s0 h0
  unfold advanceHeadFront
  simp only [List.forIn_cons, List.forIn_nil, bind, EStateM.bind, pure, EStateM.pure, getInst?, getIx, get, getThe, MonadStateOf.get,
    EStateM.get, H.hi, cfgOfInst, getInstX, getInstX?, getRest, H.hx, getCfg, H.hc, getHead?, Option.bind, H.hh, hact,
    show decide (HeadStatus.active = HeadStatus.inactive) = false from by decide, hstarted, FlowStatus.listening, Bool.not_true, Bool.or_false,
    Bool.false_eq_true, if_false, show decide (HeadStatus.active = HeadStatus.merging) = false from by decide, Bool.false_and, if_true, h0,
    getInst, hi0', hst0, show (FlowStatus.started = FlowStatus.waiting) = False from by simp,
    attemptPy, tryCatch, tryCatchThe, MonadExceptOf.tryCatch, EStateM.tryCatch, decide_true, hsl, List.isEmpty_nil,
    F'.hi, hh', Option.isSome_some, Bool.true_and, show decide (hd'.pos ≥ cfg.elements.size) = false from by simp; exact hlt', hst',
    show (FlowStatus.started = FlowStatus.stopping) = False from by simp, show (FlowStatus.started = FlowStatus.starting) = False from by simp,
    Bool.not_false, Bool.and_self]
  generalize hL : (forIn i'.heads true _ : M Bool) s' = R
  have hR : ∃ b, R = EStateM.Result.ok b s' := by
    rw [← hL]
    apply forIn_readonly
    intro o ho acc
    by_cases hin : o.status ≠ HeadStatus.inactive
    · simp only [hin, if_true, ne_eq, not_false_eq_true]
      have hlt := hrange o ho
      have hsome : cfg.elements[o.pos]? = some cfg.elements[o.pos] := by simp [hlt]
      rw [hsome]
      cases cfg.elements[o.pos] <;> first
        | exact ⟨_, rfl⟩
        | (simp only []; split <;> exact ⟨_, rfl⟩)
    · simp only [hin, if_false]
      exact ⟨_, rfl⟩
  obtain ⟨b, rfl⟩ := hR
  clear hL
  have hel' : cfg.elements[hd'.pos]? = some cfg.elements[hd'.pos]! := by
    simp [getElem!_pos, hlt']
  simp only [Bool.false_or, hel', hnoact, Bool.false_eq_true, if_false]
  cases b with
  | true =>
    simp only [if_true, bind, EStateM.bind, get, getThe, MonadStateOf.get, EStateM.get, pure, EStateM.pure, F'.hi, hst',
      show (FlowStatus.started = FlowStatus.starting) = False from by simp, if_false]
    by_cases hmg : hd'.status = HeadStatus.merging
    · simp only [hmg, decide_true, if_true, Bool.false_eq_true, if_false, pure, EStateM.pure, List.nil_append, List.filter_cons,
        List.filter_nil, F'.hi, hh', show decide (HeadStatus.merging ≠ HeadStatus.inactive) = true from by decide]
    · simp only [hmg, decide_false, Bool.false_eq_true, if_false, pure, EStateM.pure, List.filter_nil]
  | false =>
    simp only [Bool.false_eq_true, if_false, pure, EStateM.pure]
    by_cases hmg : hd'.status = HeadStatus.merging
    · simp only [hmg, decide_true, if_true, Bool.false_eq_true, if_false, pure, EStateM.pure, List.nil_append, List.filter_cons,
        List.filter_nil, F'.hi, hh', show decide (HeadStatus.merging ≠ HeadStatus.inactive) = true from by decide]
    · simp only [hmg, decide_false, Bool.false_eq_true, if_false, pure, EStateM.pure, List.filter_nil]


theorem pos_lt_of_modifyHead (i : Inst) (h : HUid) (g : Head → Head) (n : Nat)
    (hr : ∀ o ∈ i.heads, o.pos < n) (hg : ∀ o, (g o).pos < n) : ∀ o ∈ (i.modifyHead h g).heads, o.pos < n := by
  intro o ho
  simp only [Inst.modifyHead, List.mem_map] at ho
  obtain ⟨o0, ho0, rfl⟩ := ho
  split
  · exact hg o0
  · exact hr o0 ho0

/-- **CoreVM's `_advance_head_front` on a matching member head of an and-clause** (flow STARTED, every head inside the program): exactly
    the stand-in's step — the head parks on `WaitForHeads n` or ends MERGING on `MergeHeads` according to the count of parked heads —
    and it is handed back as actionable iff it is MERGING. -/
theorem advanceHeadFront_member (fuel : Nat) (s : VM) (f : FUid) (h : HUid) (i : Inst) (x : InstX) (cfg : FlowCfg) (hd : Head)
    (l u : String) (pe n : Nat)
    (H : HeadAt s f h i x cfg hd) (hown : x.ctxOwner = none) (hact : hd.status = .active) (hstarted : i.status = .started)
    (C : ClauseShape cfg l u pe n)
    (hgoto : cfg.elements[hd.pos + 1]! = .goto (.lit (.bool true)) l) (hlt : hd.pos + 1 < pe + 1)
    (hnd : ((hview i).map (·.1)).Nodup) (hrange : ∀ o ∈ i.heads, o.pos < cfg.elements.size) :
    ∃ s' i', advanceHeadFront (fuel + 4) [(f, h)] s
        = .ok (if ((hview i).filter fun t => t.2.2 ≠ .inactive && t.2.1 = pe + 1).length + 1 ≥ n then [(f, h)] else []) s' ∧
      FlowAt s' f i' x cfg ∧ s'.r = s.r ∧
      hview i' = (hview i).map
        (if ((hview i).filter fun t => t.2.2 ≠ .inactive && t.2.1 = pe + 1).length + 1 ≥ n
          then setCore h (pe + 2) .merging else setCore h (pe + 1) .active) := by
  have hsz := C.hsize
  obtain ⟨s', i', hadv, F', hr', hv', hst'⟩ := advanceMember_spec fuel s f h i x cfg hd l u pe n H hown hact C hgoto hlt hnd
  -- the head in the result state
  have hmem := mem_hview_of_findHead i h hd H.hh
  have hfst : ∀ (g : HCore → HCore), (∀ t, (g t).1 = t.1) → ((fun (t : HCore) => t.1) ∘ g) = fun t => t.1 := by
    intro g hg; funext t; exact hg t
  have hndv' : ((hview i').map (·.1)).Nodup := by
    rw [hv', List.map_map]
    split
    · rw [hfst _ (fun t => setCore_fst _ _ _ t)]; exact hnd
    · rw [hfst _ (fun t => setCore_fst _ _ _ t)]; exact hnd
  -- every head of the result instance is inside the program
  have hrange' : ∀ o ∈ i'.heads, o.pos < cfg.elements.size := by
    intro o ho
    have hmo : (o.uid, o.pos, o.status) ∈ hview i' := by simp only [hview, List.mem_map]; exact ⟨o, ho, rfl⟩
    rw [hv'] at hmo
    obtain ⟨t, ht, e⟩ := List.mem_map.1 hmo
    simp only [hview, List.mem_map] at ht
    obtain ⟨o0, ho0, rfl⟩ := ht
    have h0 := hrange o0 ho0
    split at e <;> simp only [setCore] at e <;> split at e <;> simp only [Prod.mk.injEq] at e <;> omega
  -- the instance after `head.position += 1` is still STARTED
  have hi0 : ∀ s0, setHeadPos (f, h) (hd.pos + 1) s = .ok () s0 → ∃ i0, findInst s0.ixs.ix f = some i0 ∧ i0.status = .started := by
    intro s0 h0
    have hnm0 : NotMatchAt cfg (hd.pos + 1) := notMatchAt_of cfg (hd.pos + 1) _ (by omega) hgoto rfl
    obtain ⟨hg0, h0'⟩ := setHeadPos_ok s f h i x cfg hd (hd.pos + 1) H.toFlowAt H.hh (by omega) hnm0
    rw [h0'] at h0
    cases h0
    exact ⟨_, findInst_setPos s.ixs.ix f h i hd (hd.pos + 1) none H.hi H.hh (by omega), hstarted⟩
  by_cases hc : ((hview i).filter fun t => t.2.2 ≠ .inactive && t.2.1 = pe + 1).length + 1 ≥ n
  · rw [if_pos hc] at hv' ⊢
    have hmem' : (h, pe + 2, HeadStatus.merging) ∈ hview i' := by
      rw [hv']; exact List.mem_map.2 ⟨_, hmem, by simp [setCore]⟩
    obtain ⟨hd', hh', hp', hs'⟩ := findHead_of_mem_hview i' hndv' h (pe + 2) .merging hmem'
    have := advanceHeadFront_one (fuel + 3) s f h i i' x cfg hd hd' s' H hact hstarted hadv hi0 F' hh' (by rw [hp']; exact hsz)
      (by rw [hst']; exact hstarted) hrange' (by rw [hp', C.hm]; rfl) (by rw [hs']; decide)
    rw [hs', if_pos rfl] at this
    exact ⟨s', i', this, F', hr', by rw [if_pos hc]; exact hv'⟩
  · rw [if_neg hc] at hv' ⊢
    have hmem' : (h, pe + 1, HeadStatus.active) ∈ hview i' := by
      rw [hv']; exact List.mem_map.2 ⟨_, hmem, by simp [setCore]⟩
    obtain ⟨hd', hh', hp', hs'⟩ := findHead_of_mem_hview i' hndv' h (pe + 1) .active hmem'
    have := advanceHeadFront_one (fuel + 3) s f h i i' x cfg hd hd' s' H hact hstarted hadv hi0 F' hh' (by rw [hp']; omega)
      (by rw [hst']; exact hstarted) hrange' (by rw [hp', C.hw]; rfl) (by rw [hs']; decide)
    rw [hs', if_neg (by decide)] at this
    exact ⟨s', i', this, F', hr', by rw [if_neg hc]; exact hv'⟩

/-! ### a LIST of heads: the loop of `_advance_head_front` -/

/-- one head advanced the way `advanceMember` does, with everything `_advance_head_front` looks at afterwards -/
structure AdvStep (fuel : Nat) (f : FUid) (x : InstX) (cfg : FlowCfg) (h : HUid) (s s' : VM) (mg : Bool) : Prop where
  ex : ∃ (i i' : Inst) (hd hd' : Head), HeadAt s f h i x cfg hd ∧ hd.status = .active ∧ i.status = .started ∧
    advanceMember fuel f h s = .ok [] s' ∧
    (∀ s0, setHeadPos (f, h) (hd.pos + 1) s = .ok () s0 → ∃ i0, findInst s0.ixs.ix f = some i0 ∧ i0.status = .started) ∧
    FlowAt s' f i' x cfg ∧ i'.findHead h = some hd' ∧ hd'.pos < cfg.elements.size ∧ i'.status = .started ∧
    (∀ o ∈ i'.heads, o.pos < cfg.elements.size) ∧ (cfg.elements[hd'.pos]!).isActionOp = false ∧ hd'.status ≠ .inactive ∧
    mg = decide (hd'.status = .merging)

inductive AdvChain (fuel : Nat) (f : FUid) (x : InstX) (cfg : FlowCfg) : List HUid → VM → List HUid → VM → Prop
  | nil (s : VM) : AdvChain fuel f x cfg [] s [] s
  | cons {h : HUid} {hs : List HUid} {s s1 s' : VM} {acts : List HUid} {mg : Bool} :
      AdvStep fuel f x cfg h s s1 mg → AdvChain fuel f x cfg hs s1 acts s' →
      AdvChain fuel f x cfg (h :: hs) s (if mg then h :: acts else acts) s'

theorem advanceHeadFront_chain (fuel : Nat) (f : FUid) (x : InstX) (cfg : FlowCfg) (hs acts : List HUid) (s s' : VM)
    (hc : AdvChain fuel f x cfg hs s acts s')
    (halive : ∀ h ∈ acts, ∃ i hd, findInst s'.ixs.ix f = some i ∧ i.findHead h = some hd ∧ hd.status ≠ .inactive) :
    advanceHeadFront (fuel + 1) (hs.map fun h => (f, h)) s = .ok (acts.map fun h => (f, h)) s' := by
  unfold advanceHeadFront
  simp only [bind, EStateM.bind]
  generalize hbody : (fun (k : Key) (r : List Key) => _) = body
  have key : ∀ (hs acts : List HUid) (s s' : VM), AdvChain fuel f x cfg hs s acts s' →
      ∀ acc : List Key, forIn (hs.map fun h => (f, h)) acc body s = .ok (acc ++ acts.map fun h => (f, h)) s' := by
    intro hs acts s s' hc
    induction hc with
    | nil s => intro acc; simp [pure, EStateM.pure]
    | @cons h hs s s1 s' acts mg st _ ih =>
      intro acc
      obtain ⟨i, i', hd, hd', H, hact, hstarted, hadv, hi0, F', hh', hlt', hst', hrange, hnoact, hlive, hmg⟩ := st.ex
      have hsplit : ∃ s0, setHeadPos (f, h) (hd.pos + 1) s = .ok () s0 ∧ slide fuel f h s0 = .ok [] s1 := by
        simp only [advanceMember, bind, EStateM.bind, getHead?, getIx, get, getThe, MonadStateOf.get, EStateM.get, pure, EStateM.pure,
          H.hi, Option.bind, H.hh] at hadv
        cases h0 : setHeadPos (f, h) (hd.pos + 1) s with
        | ok u s0 => rw [h0] at hadv; exact ⟨s0, rfl, hadv⟩
        | error e s0 => rw [h0] at hadv; cases hadv
      obtain ⟨s0, h0, hsl⟩ := hsplit
      obtain ⟨i0, hi0', hst0⟩ := hi0 s0 h0
      have hstep : body (f, h) acc s = .ok (.yield (acc ++ if mg then [(f, h)] else [])) s1 := by
        rw [← hbody]
        simp only [List.forIn_cons, List.forIn_nil, bind, EStateM.bind, pure, EStateM.pure, getInst?, getIx, get, getThe, MonadStateOf.get,
          EStateM.get, H.hi, cfgOfInst, getInstX, getInstX?, getRest, H.hx, getCfg, H.hc, getHead?, Option.bind, H.hh, hact,
          show decide (HeadStatus.active = HeadStatus.inactive) = false from by decide, hstarted, show FlowStatus.started.listening = true from rfl, Bool.not_true, Bool.or_false,
          Bool.false_eq_true, if_false, show decide (HeadStatus.active = HeadStatus.merging) = false from by decide, Bool.false_and, if_true, h0,
          getInst, hi0', hst0, show (FlowStatus.started = FlowStatus.waiting) = False from by simp,
          attemptPy, tryCatch, tryCatchThe, MonadExceptOf.tryCatch, EStateM.tryCatch, decide_true, hsl, List.isEmpty_nil,
          F'.hi, hh', Option.isSome_some, Bool.true_and, show decide (hd'.pos ≥ cfg.elements.size) = false from by simp; exact hlt', hst',
          show (FlowStatus.started = FlowStatus.stopping) = False from by simp, show (FlowStatus.started = FlowStatus.starting) = False from by simp,
          Bool.not_false, Bool.and_self]
        generalize hL : (forIn i'.heads true _ : M Bool) s1 = R
        have hR : ∃ b, R = EStateM.Result.ok b s1 := by
          rw [← hL]
          apply forIn_readonly
          intro o ho acc
          by_cases hin : o.status ≠ HeadStatus.inactive
          · simp only [hin, if_true, ne_eq, not_false_eq_true]
            have hlt := hrange o ho
            have hsome : cfg.elements[o.pos]? = some cfg.elements[o.pos] := by simp [hlt]
            rw [hsome]
            cases cfg.elements[o.pos] <;> first
              | exact ⟨_, rfl⟩
              | (simp only []; split <;> exact ⟨_, rfl⟩)
          · simp only [hin, if_false]
            exact ⟨_, rfl⟩
        obtain ⟨b, rfl⟩ := hR
        clear hL
        have hel' : cfg.elements[hd'.pos]? = some cfg.elements[hd'.pos]! := by
          simp [getElem!_pos, hlt']
        simp only [Bool.false_or, hel', hnoact, Bool.false_eq_true, if_false]
        cases b with
        | true =>
          simp only [if_true, bind, EStateM.bind, get, getThe, MonadStateOf.get, EStateM.get, pure, EStateM.pure, F'.hi, hst',
            show (FlowStatus.started = FlowStatus.starting) = False from by simp, if_false]
          by_cases hm : hd'.status = HeadStatus.merging
          · simp only [hmg, hm, decide_true, if_true, Bool.false_eq_true, if_false, pure, EStateM.pure]
          · simp only [hmg, hm, decide_false, Bool.false_eq_true, if_false, pure, EStateM.pure, List.append_nil]
        | false =>
          simp only [Bool.false_eq_true, if_false, pure, EStateM.pure]
          by_cases hm : hd'.status = HeadStatus.merging
          · simp only [hmg, hm, decide_true, if_true, Bool.false_eq_true, if_false, pure, EStateM.pure]
          · simp only [hmg, hm, decide_false, Bool.false_eq_true, if_false, pure, EStateM.pure, List.append_nil]
      simp only [List.map_cons, List.forIn_cons, bind, EStateM.bind, hstep]
      rw [ih]
      cases mg <;> simp
  rw [key hs acts s s' hc []]
  simp only [getIx, get, getThe, MonadStateOf.get, EStateM.get, bind, EStateM.bind, pure, EStateM.pure, List.nil_append]
  congr 1
  rw [List.filter_eq_self]
  intro k hk
  obtain ⟨h, hh, rfl⟩ := List.mem_map.1 hk
  obtain ⟨i, hd, hi, hfh, hl⟩ := halive h hh
  simp [hi, hfh, hl]

/-- a member head of an and-clause: its `AdvStep`, and what the heads of the instance look like afterwards -/
theorem advStep_member (fuel : Nat) (s : VM) (f : FUid) (h : HUid) (i : Inst) (x : InstX) (cfg : FlowCfg) (hd : Head)
    (l u : String) (pe n : Nat)
    (H : HeadAt s f h i x cfg hd) (hown : x.ctxOwner = none) (hact : hd.status = .active) (hstarted : i.status = .started)
    (C : ClauseShape cfg l u pe n)
    (hgoto : cfg.elements[hd.pos + 1]! = .goto (.lit (.bool true)) l) (hlt : hd.pos + 1 < pe + 1)
    (hnd : ((hview i).map (·.1)).Nodup) (hrange : ∀ o ∈ i.heads, o.pos < cfg.elements.size) :
    ∃ s' i', AdvStep (fuel + 3) f x cfg h s s'
        (decide (((hview i).filter fun t => t.2.2 ≠ .inactive && t.2.1 = pe + 1).length + 1 ≥ n)) ∧
      advanceMember (fuel + 3) f h s = .ok [] s' ∧
      FlowAt s' f i' x cfg ∧ s'.r = s.r ∧ i'.status = .started ∧ (∀ o ∈ i'.heads, o.pos < cfg.elements.size) ∧
      ((hview i').map (·.1)).Nodup ∧
      hview i' = (hview i).map
        (if ((hview i).filter fun t => t.2.2 ≠ .inactive && t.2.1 = pe + 1).length + 1 ≥ n
          then setCore h (pe + 2) .merging else setCore h (pe + 1) .active) := by
  have hsz := C.hsize
  obtain ⟨s', i', hadv, F', hr', hv', hst'⟩ := advanceMember_spec fuel s f h i x cfg hd l u pe n H hown hact C hgoto hlt hnd
  have hmem := mem_hview_of_findHead i h hd H.hh
  have hfst : ∀ (g : HCore → HCore), (∀ t, (g t).1 = t.1) → ((fun (t : HCore) => t.1) ∘ g) = fun t => t.1 := by
    intro g hg; funext t; exact hg t
  have hndv' : ((hview i').map (·.1)).Nodup := by
    rw [hv', List.map_map]
    split
    · rw [hfst _ (fun t => setCore_fst _ _ _ t)]; exact hnd
    · rw [hfst _ (fun t => setCore_fst _ _ _ t)]; exact hnd
  have hrange' : ∀ o ∈ i'.heads, o.pos < cfg.elements.size := by
    intro o ho
    have hmo : (o.uid, o.pos, o.status) ∈ hview i' := by simp only [hview, List.mem_map]; exact ⟨o, ho, rfl⟩
    rw [hv'] at hmo
    obtain ⟨t, ht, e⟩ := List.mem_map.1 hmo
    simp only [hview, List.mem_map] at ht
    obtain ⟨o0, ho0, rfl⟩ := ht
    have h0 := hrange o0 ho0
    split at e <;> simp only [setCore] at e <;> split at e <;> simp only [Prod.mk.injEq] at e <;> omega
  have hi0 : ∀ s0, setHeadPos (f, h) (hd.pos + 1) s = .ok () s0 → ∃ i0, findInst s0.ixs.ix f = some i0 ∧ i0.status = .started := by
    intro s0 h0
    have hnm0 : NotMatchAt cfg (hd.pos + 1) := notMatchAt_of cfg (hd.pos + 1) _ (by omega) hgoto rfl
    obtain ⟨hg0, h0'⟩ := setHeadPos_ok s f h i x cfg hd (hd.pos + 1) H.toFlowAt H.hh (by omega) hnm0
    rw [h0'] at h0
    cases h0
    exact ⟨_, findInst_setPos s.ixs.ix f h i hd (hd.pos + 1) none H.hi H.hh (by omega), hstarted⟩
  have hst'' : i'.status = .started := by rw [hst']; exact hstarted
  refine ⟨s', i', ?_, hadv, F', hr', hst'', hrange', hndv', hv'⟩
  by_cases hc : ((hview i).filter fun t => t.2.2 ≠ .inactive && t.2.1 = pe + 1).length + 1 ≥ n
  · rw [if_pos hc] at hv'
    have hmem' : (h, pe + 2, HeadStatus.merging) ∈ hview i' := by
      rw [hv']; exact List.mem_map.2 ⟨_, hmem, by simp [setCore]⟩
    obtain ⟨hd', hh', hp', hs'⟩ := findHead_of_mem_hview i' hndv' h (pe + 2) .merging hmem'
    exact ⟨i, i', hd, hd', H, hact, hstarted, hadv, hi0, F', hh', by rw [hp']; exact hsz, hst'', hrange', by rw [hp', C.hm]; rfl,
      by rw [hs']; decide, by rw [hs']; exact (decide_eq_true hc).trans (decide_eq_true rfl).symm⟩
  · rw [if_neg hc] at hv'
    have hmem' : (h, pe + 1, HeadStatus.active) ∈ hview i' := by
      rw [hv']; exact List.mem_map.2 ⟨_, hmem, by simp [setCore]⟩
    obtain ⟨hd', hh', hp', hs'⟩ := findHead_of_mem_hview i' hndv' h (pe + 1) .active hmem'
    exact ⟨i, i', hd, hd', H, hact, hstarted, hadv, hi0, F', hh', by rw [hp']; omega, hst'', hrange', by rw [hp', C.hw]; rfl,
      by rw [hs']; decide, by rw [hs', decide_eq_false hc]; exact (decide_eq_false (by decide)).symm⟩

theorem hview_fst_unique (i : Inst) (hnd : ((hview i).map (·.1)).Nodup) (a b : HCore) (ha : a ∈ hview i) (hb : b ∈ hview i)
    (e : a.1 = b.1) : a = b := by
  generalize hview i = L at hnd ha hb
  induction L with
  | nil => cases ha
  | cons t L ih =>
    simp only [List.map_cons, List.nodup_cons] at hnd
    rcases List.mem_cons.1 ha with rfl | ha' <;> rcases List.mem_cons.1 hb with rfl | hb'
    · rfl
    · exact absurd (List.mem_map.2 ⟨b, hb', e.symm⟩) hnd.1
    · exact absurd (List.mem_map.2 ⟨a, ha', e⟩) hnd.1
    · exact ih hnd.2 ha' hb'

/-- **CoreVM's `_advance_head_front` on the LIST of matching member heads of an and-clause** (what `runToCompletion` hands it for one
    event): it is `runMembers` — every head advanced by `position += 1; slide`, one after the other — and it returns exactly the
    heads that are MERGING afterwards, in order. -/
theorem advanceHeadFront_members (fuel : Nat) (f : FUid) (x : InstX) (cfg : FlowCfg) (l u : String) (pe n : Nat)
    (hown : x.ctxOwner = none) (C : ClauseShape cfg l u pe n) :
    ∀ (hs : List HUid) (s : VM) (i : Inst), FlowAt s f i x cfg → i.status = .started →
      (∀ o ∈ i.heads, o.pos < cfg.elements.size) → ((hview i).map (·.1)).Nodup → hs.Nodup →
      (∀ h ∈ hs, ∃ p, (h, p, HeadStatus.active) ∈ hview i ∧ cfg.elements[p + 1]! = .goto (.lit (.bool true)) l ∧ p + 1 < pe + 1) →
      ∃ s' i', advanceHeadFront (fuel + 4) (hs.map fun h => (f, h)) s
          = .ok ((hs.filter fun h => decide ((h, pe + 2, HeadStatus.merging) ∈ hview i')).map fun h => (f, h)) s' ∧
        runMembers (fuel + 3) f hs s = .ok () s' ∧ FlowAt s' f i' x cfg ∧ s'.r = s.r ∧ i'.status = .started ∧
        (∀ o ∈ i'.heads, o.pos < cfg.elements.size) ∧ ((hview i').map (·.1)).Nodup ∧
        (∀ t ∈ hview i, t.1 ∉ hs → t ∈ hview i') := by
  have key : ∀ (hs : List HUid) (s : VM) (i : Inst), FlowAt s f i x cfg → i.status = .started →
      (∀ o ∈ i.heads, o.pos < cfg.elements.size) → ((hview i).map (·.1)).Nodup → hs.Nodup →
      (∀ h ∈ hs, ∃ p, (h, p, HeadStatus.active) ∈ hview i ∧ cfg.elements[p + 1]! = .goto (.lit (.bool true)) l ∧ p + 1 < pe + 1) →
      ∃ s' i', AdvChain (fuel + 3) f x cfg hs s (hs.filter fun h => decide ((h, pe + 2, HeadStatus.merging) ∈ hview i')) s' ∧
        runMembers (fuel + 3) f hs s = .ok () s' ∧ FlowAt s' f i' x cfg ∧ s'.r = s.r ∧ i'.status = .started ∧
        (∀ o ∈ i'.heads, o.pos < cfg.elements.size) ∧ ((hview i').map (·.1)).Nodup ∧
        (∀ t ∈ hview i, t.1 ∉ hs → t ∈ hview i') := by
    intro hs
    induction hs with
    | nil =>
      intro s i F hst hr hnd _ _
      exact ⟨s, i, AdvChain.nil s, by simp [runMembers, pure, EStateM.pure], F, rfl, hst, hr, hnd, fun t ht _ => ht⟩
    | cons h hs ih =>
      intro s i F hst hr hnd hnds hall
      obtain ⟨p, hmem, hgoto, hlt⟩ := hall h (by simp)
      obtain ⟨hd, hfh, hpos, hstat⟩ := findHead_of_mem_hview i hnd h p .active hmem
      have hsz := C.hsize
      have H : HeadAt s f h i x cfg hd :=
        { hi := F.hi, hx := F.hx, hc := F.hc, hh := hfh, hlt := by rw [hpos]; omega, hst := by rw [hstat]; decide }
      obtain ⟨s1, i1, st, hadv, F1, hr1, hst1, hrange1, hnd1, hv1⟩ := advStep_member fuel s f h i x cfg hd l u pe n H hown hstat hst C
        (by rw [hpos]; exact hgoto) (by rw [hpos]; exact hlt) hnd hr
      have hnds' := (List.nodup_cons.1 hnds)
      -- entries of other heads are untouched by this step
      have hkeep : ∀ t ∈ hview i, t.1 ≠ h → t ∈ hview i1 := by
        intro t ht hne
        rw [hv1]
        refine List.mem_map.2 ⟨t, ht, ?_⟩
        split <;> simp [setCore, hne]
      obtain ⟨s', i', hch, hrun, F', hr', hst', hrange', hnd', hkeep'⟩ := ih s1 i1 F1 hst1 hrange1 hnd1 hnds'.2 (by
        intro h2 hh2
        obtain ⟨p2, hm2, hg2, hl2⟩ := hall h2 (by simp [hh2])
        exact ⟨p2, hkeep _ hm2 (fun (e : h2 = h) => hnds'.1 (e ▸ hh2)), hg2, hl2⟩)
      refine ⟨s', i', ?_, ?_, F', by rw [hr', hr1], hst', hrange', hnd', ?_⟩
      · -- the chain, and what is handed back
        have hc := AdvChain.cons st hch
        have hiff : decide (((hview i).filter fun t => t.2.2 ≠ .inactive && t.2.1 = pe + 1).length + 1 ≥ n)
            = decide ((h, pe + 2, HeadStatus.merging) ∈ hview i') := by
          by_cases hcn : ((hview i).filter fun t => t.2.2 ≠ .inactive && t.2.1 = pe + 1).length + 1 ≥ n
          · have : (h, pe + 2, HeadStatus.merging) ∈ hview i1 := by
              rw [hv1, if_pos hcn]; exact List.mem_map.2 ⟨_, hmem, by simp [setCore]⟩
            rw [decide_eq_true hcn, decide_eq_true (hkeep' _ this hnds'.1)]
          · have h1 : (h, pe + 1, HeadStatus.active) ∈ hview i1 := by
              rw [hv1, if_neg hcn]; exact List.mem_map.2 ⟨_, hmem, by simp [setCore]⟩
            have h2 := hkeep' _ h1 hnds'.1
            have : (h, pe + 2, HeadStatus.merging) ∉ hview i' := by
              intro h3
              have := hview_fst_unique i' hnd' _ _ h2 h3 rfl
              simp at this
            rw [decide_eq_false hcn, decide_eq_false this]
        rw [hiff] at hc
        simpa [List.filter_cons] using hc
      · rw [runMembers_cons _ _ _ _ _ _ _ hadv]; exact hrun
      · intro t ht hnot
        have hne : t.1 ≠ h := fun e => hnot (by simp [e])
        exact hkeep' t (hkeep t ht hne) (fun hm => hnot (by simp [hm]))
  intro hs s i F hst hr hnd hnds hall
  obtain ⟨s', i', hch, hrun, F', hr', hst', hrange', hnd', hkeep⟩ := key hs s i F hst hr hnd hnds hall
  refine ⟨s', i', ?_, hrun, F', hr', hst', hrange', hnd', hkeep⟩
  apply advanceHeadFront_chain (fuel + 3) f x cfg hs _ s s' hch
  intro h hh
  have hm := (List.mem_filter.1 hh).2
  have hm' : (h, pe + 2, HeadStatus.merging) ∈ hview i' := by simpa using hm
  obtain ⟨hd', hh', _, hs'⟩ := findHead_of_mem_hview i' hnd' h (pe + 2) .merging hm'
  exact ⟨i', hd', F'.hi, hh', by rw [hs']; decide⟩

/-! ### phase 1 of `GroupVM` through the real function -/

open NemoVerif.GroupVM (MLoc countWait p1Members)

theorem matchingU_mem (e wp : Nat) : ∀ (us : List (HUid × Nat)) (ms : List (Nat × MLoc)) (h : HUid), h ∈ matchingU e us ms →
    ∃ u ∈ us, u.1 = h ∧ (u.1, u.2, HeadStatus.active) ∈ renderU wp us ms := by
  intro us
  induction us with
  | nil => intro ms h hh; cases ms <;> simp [matchingU] at hh
  | cons u us ih =>
    intro ms h hh
    cases ms with
    | nil => simp [matchingU] at hh
    | cons m ms =>
      obtain ⟨a, loc⟩ := m
      have lift : h ∈ matchingU e us ms → ∃ u' ∈ u :: us, u'.1 = h ∧ (u'.1, u'.2, HeadStatus.active) ∈ renderU wp (u :: us) ((a, loc) :: ms) := by
        intro hh'
        obtain ⟨u', hu', e1, hm⟩ := ih ms h hh'
        exact ⟨u', List.mem_cons_of_mem _ hu', e1, by simp only [renderU, List.zipWith_cons_cons]; exact List.mem_cons_of_mem _ hm⟩
      cases loc with
      | atMatch =>
        by_cases hae : (a == e) = true
        · simp only [matchingU, hae, if_true, List.mem_cons] at hh
          rcases hh with rfl | hh
          · exact ⟨u, by simp, rfl, by simp [renderU, mlocCore]⟩
          · exact lift hh
        · simp only [matchingU, hae, if_false] at hh
          exact lift hh
      | atWait => exact lift (by simpa [matchingU] using hh)
      | merging => exact lift (by simpa [matchingU] using hh)
      | lost => exact lift (by simpa [matchingU] using hh)

theorem matchingU_sublist (e : Nat) : ∀ (us : List (HUid × Nat)) (ms : List (Nat × MLoc)), (matchingU e us ms).Sublist (us.map (·.1)) := by
  intro us
  induction us with
  | nil => intro ms; cases ms <;> simp [matchingU]
  | cons u us ih =>
    intro ms
    cases ms with
    | nil => simp [matchingU]
    | cons m ms =>
      obtain ⟨a, loc⟩ := m
      cases loc with
      | atMatch =>
        by_cases hae : (a == e) = true
        · simp only [matchingU, hae, if_true, List.map_cons]; exact (ih ms).cons_cons _
        · simp only [matchingU, hae, if_false, List.map_cons]; exact (ih ms).cons _
      | atWait => simp only [matchingU, List.map_cons]; exact (ih ms).cons _
      | merging => simp only [matchingU, List.map_cons]; exact (ih ms).cons _
      | lost => simp only [matchingU, List.map_cons]; exact (ih ms).cons _

/-- **phase 1 of `GroupVM` on an and-clause through CoreVM's REAL `_advance_head_front`**: called with the list of member heads that
    wait on `match e` (flow STARTED, every head inside the program), it ends in the state `GroupVM.p1Members e n [] ms` describes and
    returns exactly the heads that are MERGING then (the input of the merging loop of `runToCompletion`). -/
theorem and_clause_phase1_real (fuel : Nat) (s : VM) (f : FUid) (i : Inst) (x : InstX) (cfg : FlowCfg) (l mu : String) (pe n e : Nat)
    (others : List HCore) (us : List (HUid × Nat)) (ms : List (Nat × MLoc))
    (F : FlowAt s f i x cfg) (hown : x.ctxOwner = none) (C : ClauseShape cfg l mu pe n) (S : MembersShape cfg l pe us)
    (hlen : us.length = ms.length) (hnd : (others.map (·.1) ++ us.map (·.1)).Nodup)
    (hoth : others.filter (liveAt (pe + 1)) = [])
    (hv : hview i = others ++ renderU (pe + 1) us ms)
    (hstarted : i.status = .started) (hrange : ∀ o ∈ i.heads, o.pos < cfg.elements.size) :
    ∃ s' i', advanceHeadFront (fuel + 4) ((matchingU e us ms).map fun h => (f, h)) s
        = .ok (((matchingU e us ms).filter fun h => decide ((h, pe + 2, HeadStatus.merging) ∈ hview i')).map fun h => (f, h)) s' ∧
      FlowAt s' f i' x cfg ∧ s'.r = s.r ∧
      hview i' = others ++ renderU (pe + 1) us (p1Members e n [] ms) ∧ i'.status = .started ∧
      (∀ t ∈ hview i, t.1 ∉ matchingU e us ms → t ∈ hview i') := by
  have hndv : ((hview i).map (·.1)).Nodup := by
    rw [hv, List.map_append, renderU_fst _ _ _ hlen]; exact hnd
  have hndu : (us.map (·.1)).Nodup := (List.nodup_append.1 hnd).2.1
  obtain ⟨s1, i1, hreal, hrun1, F1, _, hst1, _, _, hkeep1⟩ := advanceHeadFront_members fuel f x cfg l mu pe n hown C (matchingU e us ms) s i F hstarted
    hrange hndv ((matchingU_sublist e us ms).nodup hndu) (by
      intro h hh
      obtain ⟨u, hu, e1, hm⟩ := matchingU_mem e (pe + 1) us ms h hh
      have hs := S u hu
      exact ⟨u.2, by rw [hv, ← e1]; exact List.mem_append_right _ hm, hs.1, hs.2⟩)
  obtain ⟨s2, i2, hrun2, F2, hr2, hv2⟩ := and_clause_phase1 fuel s f i x cfg l mu pe n e others us ms F hown C S hlen hnd hoth hv
  have es : s1 = s2 := by
    have := hrun1.symm.trans hrun2
    injection this
  subst es
  have ei : i1 = i2 := Option.some.inj (F1.hi.symm.trans F2.hi)
  subst ei
  exact ⟨s1, i1, hreal, F2, hr2, hv2, hst1, hkeep1⟩

open NemoVerif.GroupVM (Br p1Brs)

/-! ### the branch heads of an or-group of single atoms through the real function -/

/-- a branch head of an or-group (clause = one atom): its `AdvStep` (it always ends MERGING), and the heads afterwards -/
theorem advStep_branch (fuel : Nat) (s : VM) (f : FUid) (h : HUid) (i : Inst) (x : InstX) (cfg : FlowCfg) (hd : Head)
    (l u : String) (pe : Nat)
    (H : HeadAt s f h i x cfg hd) (hown : x.ctxOwner = none) (hact : hd.status = .active) (hstarted : i.status = .started)
    (C : OrShape cfg l u pe)
    (hgoto : cfg.elements[hd.pos + 1]! = .goto (.lit (.bool true)) l) (hlt : hd.pos + 1 < pe + 1)
    (hnd : ((hview i).map (·.1)).Nodup) (hrange : ∀ o ∈ i.heads, o.pos < cfg.elements.size) :
    ∃ s' i', AdvStep (fuel + 2) f x cfg h s s' true ∧
      advanceMember (fuel + 2) f h s = .ok [] s' ∧
      FlowAt s' f i' x cfg ∧ s'.r = s.r ∧ i'.status = .started ∧ (∀ o ∈ i'.heads, o.pos < cfg.elements.size) ∧
      ((hview i').map (·.1)).Nodup ∧
      hview i' = (hview i).map (setCore h (pe + 1) .merging) := by
  have hsz := C.hsize
  obtain ⟨s', i', hadv, F', hr', hv', hst'⟩ := advanceBranch_spec fuel s f h i x cfg hd l u pe H hown hact C hgoto hlt
  have hmem := mem_hview_of_findHead i h hd H.hh
  have hndv' : ((hview i').map (·.1)).Nodup := by
    rw [hv', List.map_map]
    have : ((fun (t : HCore) => t.1) ∘ setCore h (pe + 1) HeadStatus.merging) = fun t => t.1 := by
      funext t; exact setCore_fst _ _ _ t
    rw [this]; exact hnd
  have hrange' : ∀ o ∈ i'.heads, o.pos < cfg.elements.size := by
    intro o ho
    have hmo : (o.uid, o.pos, o.status) ∈ hview i' := by simp only [hview, List.mem_map]; exact ⟨o, ho, rfl⟩
    rw [hv'] at hmo
    obtain ⟨t, ht, e⟩ := List.mem_map.1 hmo
    simp only [hview, List.mem_map] at ht
    obtain ⟨o0, ho0, rfl⟩ := ht
    have h0 := hrange o0 ho0
    simp only [setCore] at e; split at e <;> simp only [Prod.mk.injEq] at e <;> omega
  have hi0 : ∀ s0, setHeadPos (f, h) (hd.pos + 1) s = .ok () s0 → ∃ i0, findInst s0.ixs.ix f = some i0 ∧ i0.status = .started := by
    intro s0 h0
    have hnm0 : NotMatchAt cfg (hd.pos + 1) := notMatchAt_of cfg (hd.pos + 1) _ (by omega) hgoto rfl
    obtain ⟨hg0, h0'⟩ := setHeadPos_ok s f h i x cfg hd (hd.pos + 1) H.toFlowAt H.hh (by omega) hnm0
    rw [h0'] at h0
    cases h0
    exact ⟨_, findInst_setPos s.ixs.ix f h i hd (hd.pos + 1) none H.hi H.hh (by omega), hstarted⟩
  have hst'' : i'.status = .started := by rw [hst']; exact hstarted
  refine ⟨s', i', ?_, hadv, F', hr', hst'', hrange', hndv', hv'⟩
  have hmem' : (h, pe + 1, HeadStatus.merging) ∈ hview i' := by
    rw [hv']; exact List.mem_map.2 ⟨_, hmem, by simp [setCore]⟩
  obtain ⟨hd', hh', hp', hs'⟩ := findHead_of_mem_hview i' hndv' h (pe + 1) .merging hmem'
  exact ⟨i, i', hd, hd', H, hact, hstarted, hadv, hi0, F', hh', by rw [hp']; exact hsz, hst'', hrange', by rw [hp', C.hm]; rfl,
    by rw [hs']; decide, by rw [hs']; exact (decide_eq_true rfl).symm⟩

/-- **CoreVM's `_advance_head_front` on the LIST of matching branch heads of an or-group of single atoms**: it is `runMembers`, every
    head ends MERGING on the or-level `MergeHeads`, and all of them are handed back, in order. -/
theorem advanceHeadFront_branches (fuel : Nat) (f : FUid) (x : InstX) (cfg : FlowCfg) (l u : String) (pe : Nat)
    (hown : x.ctxOwner = none) (C : OrShape cfg l u pe) :
    ∀ (hs : List HUid) (s : VM) (i : Inst), FlowAt s f i x cfg → i.status = .started →
      (∀ o ∈ i.heads, o.pos < cfg.elements.size) → ((hview i).map (·.1)).Nodup → hs.Nodup →
      (∀ h ∈ hs, ∃ p, (h, p, HeadStatus.active) ∈ hview i ∧ cfg.elements[p + 1]! = .goto (.lit (.bool true)) l ∧ p + 1 < pe + 1) →
      ∃ s' i', advanceHeadFront (fuel + 3) (hs.map fun h => (f, h)) s = .ok (hs.map fun h => (f, h)) s' ∧
        runMembers (fuel + 2) f hs s = .ok () s' ∧ FlowAt s' f i' x cfg ∧ s'.r = s.r ∧ i'.status = .started := by
  have key : ∀ (hs : List HUid) (s : VM) (i : Inst), FlowAt s f i x cfg → i.status = .started →
      (∀ o ∈ i.heads, o.pos < cfg.elements.size) → ((hview i).map (·.1)).Nodup → hs.Nodup →
      (∀ h ∈ hs, ∃ p, (h, p, HeadStatus.active) ∈ hview i ∧ cfg.elements[p + 1]! = .goto (.lit (.bool true)) l ∧ p + 1 < pe + 1) →
      ∃ s' i', AdvChain (fuel + 2) f x cfg hs s hs s' ∧
        runMembers (fuel + 2) f hs s = .ok () s' ∧ FlowAt s' f i' x cfg ∧ s'.r = s.r ∧ i'.status = .started ∧
        ((hview i').map (·.1)).Nodup ∧
        (∀ t ∈ hview i, t.1 ∉ hs → t ∈ hview i') ∧ (∀ h ∈ hs, (h, pe + 1, HeadStatus.merging) ∈ hview i') := by
    intro hs
    induction hs with
    | nil =>
      intro s i F hst hr hnd _ _
      exact ⟨s, i, AdvChain.nil s, by simp [runMembers, pure, EStateM.pure], F, rfl, hst, hnd, fun t ht _ => ht, fun _ hh => by cases hh⟩
    | cons h hs ih =>
      intro s i F hst hr hnd hnds hall
      obtain ⟨p, hmem, hgoto, hlt⟩ := hall h (by simp)
      obtain ⟨hd, hfh, hpos, hstat⟩ := findHead_of_mem_hview i hnd h p .active hmem
      have hsz := C.hsize
      have H : HeadAt s f h i x cfg hd :=
        { hi := F.hi, hx := F.hx, hc := F.hc, hh := hfh, hlt := by rw [hpos]; omega, hst := by rw [hstat]; decide }
      obtain ⟨s1, i1, st, hadv, F1, hr1, hst1, hrange1, hnd1, hv1⟩ := advStep_branch fuel s f h i x cfg hd l u pe H hown hstat hst C
        (by rw [hpos]; exact hgoto) (by rw [hpos]; exact hlt) hnd hr
      have hnds' := (List.nodup_cons.1 hnds)
      have hkeep : ∀ t ∈ hview i, t.1 ≠ h → t ∈ hview i1 := by
        intro t ht hne
        rw [hv1]
        exact List.mem_map.2 ⟨t, ht, by simp [setCore, hne]⟩
      obtain ⟨s', i', hch, hrun, F', hr', hst', hnd', hkeep', hmg'⟩ := ih s1 i1 F1 hst1 hrange1 hnd1 hnds'.2 (by
        intro h2 hh2
        obtain ⟨p2, hm2, hg2, hl2⟩ := hall h2 (by simp [hh2])
        exact ⟨p2, hkeep _ hm2 (fun (e : h2 = h) => hnds'.1 (e ▸ hh2)), hg2, hl2⟩)
      have hmine : (h, pe + 1, HeadStatus.merging) ∈ hview i1 := by
        rw [hv1]; exact List.mem_map.2 ⟨_, hmem, by simp [setCore]⟩
      refine ⟨s', i', ?_, ?_, F', by rw [hr', hr1], hst', hnd', ?_, ?_⟩
      · have hc := AdvChain.cons st hch
        simpa using hc
      · rw [runMembers_cons _ _ _ _ _ _ _ hadv]; exact hrun
      · intro t ht hnot
        have hne : t.1 ≠ h := fun e => hnot (by simp [e])
        exact hkeep' t (hkeep t ht hne) (fun hm => hnot (by simp [hm]))
      · intro h2 hh2
        rcases List.mem_cons.1 hh2 with rfl | hh2
        · exact hkeep' _ hmine hnds'.1
        · exact hmg' h2 hh2
  intro hs s i F hst hr hnd hnds hall
  obtain ⟨s', i', hch, hrun, F', hr', hst', hnd', _, hmg'⟩ := key hs s i F hst hr hnd hnds hall
  refine ⟨s', i', ?_, hrun, F', hr', hst'⟩
  apply advanceHeadFront_chain (fuel + 2) f x cfg hs _ s s' hch
  intro h hh
  obtain ⟨hd', hh', _, hs'⟩ := findHead_of_mem_hview i' hnd' h (pe + 1) .merging (hmg' h hh)
  exact ⟨i', hd', F'.hi, hh', by rw [hs']; decide⟩

theorem matchingB_mem (e mg : Nat) : ∀ (us : List (HUid × Nat)) (bs : List Br) (h : HUid), h ∈ matchingB e us bs →
    ∃ u ∈ us, u.1 = h ∧ (u.1, u.2, HeadStatus.active) ∈ renderB mg us bs := by
  intro us
  induction us with
  | nil => intro bs h hh; cases bs <;> simp [matchingB] at hh
  | cons u us ih =>
    intro bs h hh
    cases bs with
    | nil => simp [matchingB] at hh
    | cons b bs =>
      have lift : h ∈ matchingB e us bs → ∃ u' ∈ u :: us, u'.1 = h ∧ (u'.1, u'.2, HeadStatus.active) ∈ renderB mg (u :: us) (b :: bs) := by
        intro hh'
        obtain ⟨u', hu', e1, hm⟩ := ih bs h hh'
        exact ⟨u', List.mem_cons_of_mem _ hu', e1, by simp only [renderB, List.zipWith_cons_cons]; exact List.mem_cons_of_mem _ hm⟩
      cases b with
      | single a =>
        by_cases hae : (a == e) = true
        · simp only [matchingB, hae, if_true, List.mem_cons] at hh
          rcases hh with rfl | hh
          · exact ⟨u, by simp, rfl, by simp [renderB, brCore]⟩
          · exact lift hh
        · simp only [matchingB, hae, if_false] at hh
          exact lift hh
      | multi _ _ => exact lift (by simpa [matchingB] using hh)
      | merging => exact lift (by simpa [matchingB] using hh)
      | lost => exact lift (by simpa [matchingB] using hh)

theorem matchingB_sublist (e : Nat) : ∀ (us : List (HUid × Nat)) (bs : List Br), (matchingB e us bs).Sublist (us.map (·.1)) := by
  intro us
  induction us with
  | nil => intro bs; cases bs <;> simp [matchingB]
  | cons u us ih =>
    intro bs
    cases bs with
    | nil => simp [matchingB]
    | cons b bs =>
      cases b with
      | single a =>
        by_cases hae : (a == e) = true
        · simp only [matchingB, hae, if_true, List.map_cons]; exact (ih bs).cons_cons _
        · simp only [matchingB, hae, if_false, List.map_cons]; exact (ih bs).cons _
      | multi _ _ => simp only [matchingB, List.map_cons]; exact (ih bs).cons _
      | merging => simp only [matchingB, List.map_cons]; exact (ih bs).cons _
      | lost => simp only [matchingB, List.map_cons]; exact (ih bs).cons _

/-- **phase 1 of `GroupVM` on an or-group of single atoms through CoreVM's REAL `_advance_head_front`**: called with the list of branch
    heads that wait on `match e`, it ends in the state `GroupVM.p1Brs e 0 brs` describes and hands ALL of them back (they are MERGING:
    the merging loop of `runToCompletion` will advance them again, one by one). -/
theorem or_group_phase1_real (fuel : Nat) (s : VM) (f : FUid) (i : Inst) (x : InstX) (cfg : FlowCfg) (l mu : String) (pe e : Nat)
    (others : List HCore) (us : List (HUid × Nat)) (brs : List Br)
    (F : FlowAt s f i x cfg) (hown : x.ctxOwner = none) (C : OrShape cfg l mu pe) (S : MembersShape cfg l pe us)
    (hlen : us.length = brs.length) (hnm : noMulti brs = true) (hnd : (others.map (·.1) ++ us.map (·.1)).Nodup)
    (hv : hview i = others ++ renderB (pe + 1) us brs)
    (hstarted : i.status = .started) (hrange : ∀ o ∈ i.heads, o.pos < cfg.elements.size) :
    ∃ s' i', advanceHeadFront (fuel + 3) ((matchingB e us brs).map fun h => (f, h)) s
        = .ok ((matchingB e us brs).map fun h => (f, h)) s' ∧
      FlowAt s' f i' x cfg ∧ s'.r = s.r ∧
      hview i' = others ++ renderB (pe + 1) us (p1Brs e 0 brs).1 ∧ i'.status = .started := by
  have hndv : ((hview i).map (·.1)).Nodup := by
    rw [hv, List.map_append, renderB_fst _ _ _ hlen]; exact hnd
  have hndu : (us.map (·.1)).Nodup := (List.nodup_append.1 hnd).2.1
  obtain ⟨s1, i1, hreal, hrun1, F1, _, _⟩ := advanceHeadFront_branches fuel f x cfg l mu pe hown C (matchingB e us brs) s i F hstarted
    hrange hndv ((matchingB_sublist e us brs).nodup hndu) (by
      intro h hh
      obtain ⟨u, hu, e1, hm⟩ := matchingB_mem e (pe + 1) us brs h hh
      have hs := S u hu
      exact ⟨u.2, by rw [hv, ← e1]; exact List.mem_append_right _ hm, hs.1, hs.2⟩)
  obtain ⟨s2, i2, hrun2, F2, hr2, hv2, hst2⟩ := or_group_phase1 fuel s f i x cfg l mu pe e others us brs F hown C S hlen hnm hnd hv
  have es : s1 = s2 := by
    have := hrun1.symm.trans hrun2
    injection this
  subst es
  have ei : i1 = i2 := Option.some.inj (F1.hi.symm.trans F2.hi)
  subst ei
  exact ⟨s1, i1, hreal, F2, hr2, hv2, by rw [hst2]; exact hstarted⟩

/-! ### a head that ends on an action: the exit segment through the real function -/

/-- a read-only loop over a Bool accumulator for which `false` is absorbing and that one element sets to `false` -/
theorem forIn_readonly_false {α : Type} (body : α → Bool → M (ForInStep Bool)) (s : VM) :
    ∀ (l : List α), (∀ a ∈ l, body a false s = .ok (.yield false) s) → (∀ a ∈ l, ∀ b, ∃ b', body a b s = .ok (.yield b') s) →
      forIn l false body s = .ok false s ∧
      ∀ w ∈ l, (∀ b, body w b s = .ok (.yield false) s) → ∀ b, forIn l b body s = .ok false s := by
  intro l
  induction l with
  | nil => intro _ _; exact ⟨rfl, fun w hw => by cases hw⟩
  | cons a l ih =>
    intro habs hro
    obtain ⟨ih1, ih2⟩ := ih (fun a' ha' => habs a' (by simp [ha'])) (fun a' ha' => hro a' (by simp [ha']))
    refine ⟨by simp only [List.forIn_cons, bind, EStateM.bind, habs a (by simp), ih1], ?_⟩
    intro w hw hwf b
    rcases List.mem_cons.1 hw with rfl | hw'
    · simp only [List.forIn_cons, bind, EStateM.bind, hwf b, ih1]
    · obtain ⟨b1, h1⟩ := hro a (by simp) b
      simp only [List.forIn_cons, bind, EStateM.bind, h1, ih2 w hw' hwf b1]

/-- **CoreVM's `_advance_head_front` on ONE head that ends on an action** (`send` of a non-internal event): like `advanceHeadFront_one`,
    but the head — still ACTIVE — is handed back as actionable (`_resolve_action_conflicts` gets it next). -/
theorem advanceHeadFront_one_action (fuel : Nat) (s : VM) (f : FUid) (h : HUid) (i i' : Inst) (x : InstX) (cfg : FlowCfg) (hd hd' : Head) (s' : VM)
    (spec : Spec)
    (H : HeadAt s f h i x cfg hd) (hact : hd.status = .active) (hstarted : i.status = .started)
    (hadv : advanceMember fuel f h s = .ok [] s')
    (hi0 : ∀ s0, setHeadPos (f, h) (hd.pos + 1) s = .ok () s0 → ∃ i0, findInst s0.ixs.ix f = some i0 ∧ i0.status = .started)
    (F' : FlowAt s' f i' x cfg) (hh' : i'.findHead h = some hd') (hlt' : hd'.pos < cfg.elements.size)
    (hrange : ∀ o ∈ i'.heads, o.pos < cfg.elements.size)
    (hsend : cfg.elements[hd'.pos]! = .sendOp spec) (hisact : (Prim.sendOp spec).isActionOp = true) (hlive : hd'.status = .active) :
    advanceHeadFront (fuel + 1) [(f, h)] s = .ok [(f, h)] s' := by
  have hsplit : ∃ s0, setHeadPos (f, h) (hd.pos + 1) s = .ok () s0 ∧ slide fuel f h s0 = .ok [] s' := by
    simp only [advanceMember, bind, EStateM.bind, getHead?, getIx, get, getThe, MonadStateOf.get, EStateM.get, pure, EStateM.pure,
      H.hi, Option.bind, H.hh] at hadv
    cases h0 : setHeadPos (f, h) (hd.pos + 1) s with
    | ok u s0 => rw [h0] at hadv; exact ⟨s0, rfl, hadv⟩
    | error e s0 => rw [h0] at hadv; cases hadv
  obtain ⟨s0, h0, hsl⟩ := hsplit
  obtain ⟨i0, hi0', hst0⟩ := hi0 s0 h0
  have hel' : cfg.elements[hd'.pos]? = some (.sendOp spec) := by
    rw [← hsend]; simp [getElem!_pos, hlt']
  unfold advanceHeadFront
  simp only [List.forIn_cons, List.forIn_nil, bind, EStateM.bind, pure, EStateM.pure, getInst?, getIx, get, getThe, MonadStateOf.get,
    EStateM.get, H.hi, cfgOfInst, getInstX, getInstX?, getRest, H.hx, getCfg, H.hc, getHead?, Option.bind, H.hh, hact,
    show decide (HeadStatus.active = HeadStatus.inactive) = false from by decide, hstarted, show FlowStatus.started.listening = true from rfl,
    Bool.not_true, Bool.or_false,
    Bool.false_eq_true, if_false, show decide (HeadStatus.active = HeadStatus.merging) = false from by decide, Bool.false_and, if_true, h0,
    getInst, hi0', hst0, show (FlowStatus.started = FlowStatus.waiting) = False from by simp,
    attemptPy, tryCatch, tryCatchThe, MonadExceptOf.tryCatch, EStateM.tryCatch, decide_true, hsl, List.isEmpty_nil,
    F'.hi, hh', Option.isSome_some, Bool.true_and, show decide (hd'.pos ≥ cfg.elements.size) = false from by simp; exact hlt',
    show (FlowStatus.started = FlowStatus.stopping) = False from by simp, show (FlowStatus.started = FlowStatus.starting) = False from by simp,
    Bool.not_false, Bool.and_self]
  generalize hbody : (fun (o : Head) (r : Bool) => _) = body
  have hmemh : hd' ∈ i'.heads := List.mem_of_find?_eq_some hh'
  have hscan : forIn i'.heads true body s' = .ok false s' := by
    refine (forIn_readonly_false body s' i'.heads ?_ ?_).2 hd' hmemh ?_ true
    · intro o ho
      rw [← hbody]
      by_cases hin : o.status ≠ HeadStatus.inactive
      · simp only [hin, if_true, ne_eq, not_false_eq_true]
        have hlt := hrange o ho
        have hsome : cfg.elements[o.pos]? = some cfg.elements[o.pos] := by simp [hlt]
        rw [hsome]
        cases cfg.elements[o.pos] <;> first
          | rfl
          | (simp only []; split <;> rfl)
      · simp only [hin, if_false]; rfl
    · intro o ho acc
      rw [← hbody]
      by_cases hin : o.status ≠ HeadStatus.inactive
      · simp only [hin, if_true, ne_eq, not_false_eq_true]
        have hlt := hrange o ho
        have hsome : cfg.elements[o.pos]? = some cfg.elements[o.pos] := by simp [hlt]
        rw [hsome]
        cases cfg.elements[o.pos] <;> first
          | exact ⟨_, rfl⟩
          | (simp only []; split <;> exact ⟨_, rfl⟩)
      · simp only [hin, if_false]
        exact ⟨_, rfl⟩
    · intro b
      rw [← hbody]
      simp only [hlive, show (HeadStatus.active ≠ HeadStatus.inactive) = True from by simp, if_true, hel']
      rfl
  rw [hscan]
  simp only [Bool.false_or, Bool.or_false, hel', hisact, Bool.false_eq_true, if_false, if_true, pure, EStateM.pure, hlive,
    show decide (HeadStatus.active = HeadStatus.merging) = false from by decide, List.nil_append, List.filter_cons, List.filter_nil,
    F'.hi, hh', show decide (HeadStatus.active ≠ HeadStatus.inactive) = true from by decide, Bool.not_false, Bool.and_true, Bool.true_and,
    bind, EStateM.bind]

/-- **Exit segment through CoreVM's real `_advance_head_front`.**  The forking head, back ACTIVE on the group's last `MergeHeads`, is
    advanced over `CatchPatternFailure(None)` onto the element after the group statement (here the marker `send`) and handed back as
    actionable: the statement after the group is what the interpreter does next. -/
theorem group_exit_real (fuel : Nat) (s : VM) (f : FUid) (h : HUid) (i : Inst) (x : InstX) (cfg : FlowCfg) (hd : Head)
    (spec : Spec) (n : String)
    (H : HeadAt s f h i x cfg hd) (hsz : hd.pos + 2 < cfg.elements.size)
    (hc1 : cfg.elements[hd.pos + 1]! = .catchFail none) (hc2 : cfg.elements[hd.pos + 2]! = .sendOp spec)
    (hp : PlainSpec spec n) (hargs : spec.args = []) (hint : internalEvents.contains n = false)
    (hcl : ((OMap.lookup (f, h) s.r.hx).getD {}).catchLabels.isEmpty = false)
    (hact : hd.status = .active) (hstarted : i.status = .started)
    (hnd : ((hview i).map (·.1)).Nodup) (hrange : ∀ o ∈ i.heads, o.pos < cfg.elements.size) :
    ∃ s' i', advanceHeadFront (fuel + 3) [(f, h)] s = .ok [(f, h)] s' ∧ FlowAt s' f i' x cfg ∧
      hview i' = (hview i).map (setPosCore h (hd.pos + 2)) ∧ s'.r.cleared = s.r.cleared ∧ s'.r.queue = s.r.queue := by
  obtain ⟨s', i', hadv, F', hv', hclr', hq'⟩ := group_exit fuel s f h i x cfg hd spec n H hsz hc1 hc2 hp hargs hint hcl
  have hmem := mem_hview_of_findHead i h hd H.hh
  have hndv' : ((hview i').map (·.1)).Nodup := by
    rw [hv', List.map_map]
    have : ((fun (t : HCore) => t.1) ∘ setPosCore h (hd.pos + 2)) = fun t => t.1 := by
      funext t; exact setPosCore_fst _ _ t
    rw [this]; exact hnd
  have hrange' : ∀ o ∈ i'.heads, o.pos < cfg.elements.size := by
    intro o ho
    have hmo : (o.uid, o.pos, o.status) ∈ hview i' := by simp only [hview, List.mem_map]; exact ⟨o, ho, rfl⟩
    rw [hv'] at hmo
    obtain ⟨t, ht, e⟩ := List.mem_map.1 hmo
    simp only [hview, List.mem_map] at ht
    obtain ⟨o0, ho0, rfl⟩ := ht
    have h0 := hrange o0 ho0
    simp only [setPosCore] at e; split at e <;> simp only [Prod.mk.injEq] at e <;> omega
  have hi0 : ∀ s0, setHeadPos (f, h) (hd.pos + 1) s = .ok () s0 → ∃ i0, findInst s0.ixs.ix f = some i0 ∧ i0.status = .started := by
    intro s0 h0
    have hnm0 : NotMatchAt cfg (hd.pos + 1) := notMatchAt_of cfg (hd.pos + 1) _ (by omega) hc1 rfl
    obtain ⟨hg0, h0'⟩ := setHeadPos_ok s f h i x cfg hd (hd.pos + 1) H.toFlowAt H.hh (by omega) hnm0
    rw [h0'] at h0
    cases h0
    exact ⟨_, findInst_setPos s.ixs.ix f h i hd (hd.pos + 1) none H.hi H.hh (by omega), hstarted⟩
  have hmem' : (h, hd.pos + 2, HeadStatus.active) ∈ hview i' := by
    rw [hv']; exact List.mem_map.2 ⟨_, hmem, by simp [setPosCore, hact]⟩
  obtain ⟨hd', hh', hp', hs'⟩ := findHead_of_mem_hview i' hndv' h (hd.pos + 2) .active hmem'
  have hia : (Prim.sendOp spec).isActionOp = true := by
    simp only [Prim.isActionOp, hp.2.2, hint, Bool.not_false]
  exact ⟨s', i', advanceHeadFront_one_action (fuel + 2) s f h i i' x cfg hd hd' s' spec H hact hstarted hadv hi0 F' hh'
    (by rw [hp']; exact hsz) hrange' (by rw [hp']; exact hc2) hia hs', F', hv', hclr', hq'⟩

/-! ### the merging loop's call: the MERGING member head of an and-group -/

/-- **The merging loop's call of CoreVM's real `_advance_head_front` on the MERGING member head of an and-group** (the head phase 1
    handed back): `slide` merges — the forking head takes over, every member head is deleted —, the forking head comes back as a new
    head and the NESTED call of `_advance_head_front` moves it over `CatchPatternFailure(None)` onto the statement after the group (the
    marker `send`), where it is actionable; back in the outer call the merged head is gone (detached, not cleared), nothing is finished or
    aborted, and the forking head is what is handed to the interpreter's main loop. -/
theorem and_group_merge_real (fuel : Nat) (s : VM) (f : FUid) (i : Inst) (x : InstX) (cfg : FlowCfg) (l mu : String) (pe n fp : Nat)
    (r : HUid) (us : List (HUid × Nat)) (ms : List (Nat × MLoc)) (j : Nat) (uj : HUid × Nat) (a : Nat)
    (spec : Spec) (nm : String)
    (F : FlowAt s f i x cfg) (C : ClauseShape cfg l mu pe n)
    (hv : hview i = (r, fp, HeadStatus.inactive) :: renderU (pe + 1) us ms)
    (hlen : us.length = ms.length) (hndu : (r :: us.map (·.1)).Nodup)
    (hju : us[j]? = some uj) (hjm : ms[j]? = some (a, MLoc.merging))
    (hone : ∀ j' m', ms[j']? = some m' → j' ≠ j → m'.2 = MLoc.atWait ∨ m'.2 = MLoc.atMatch)
    (hfu : OMap.lookup mu x.forkUids = some r)
    (hhx : ((OMap.lookup (f, r) s.r.hx).getD {}).childHeadUids = us.map (·.1))
    (hleaf : ∀ c ∈ us.map (·.1), ((OMap.lookup (f, c) s.r.hx).getD {}).childHeadUids = [])
    (hmu : mu ∉ us.map (·.1)) (hfp : fp ≠ pe + 2)
    (hstarted : i.status = .started) (hq : s.r.queue = []) (hclr : s.r.cleared.contains (f, uj.1) = false)
    (hsz4 : pe + 4 < cfg.elements.size) (hc1 : cfg.elements[pe + 3]! = .catchFail none) (hc2 : cfg.elements[pe + 4]! = .sendOp spec)
    (hp : PlainSpec spec nm) (hargs : spec.args = []) (hint : internalEvents.contains nm = false)
    (hcl : ((OMap.lookup (f, uj.1) s.r.hx).getD {}).catchLabels.isEmpty = false) :
    ∃ s' i' x', advanceHeadFront (fuel + 5) [(f, uj.1)] s = .ok [(f, r)] s' ∧ FlowAt s' f i' x' cfg ∧
      hview i' = [(r, pe + 4, HeadStatus.active)] ∧ s'.r.queue = s.r.queue := by
  have hndv : ((hview i).map (·.1)).Nodup := by
    rw [hv, List.map_cons, renderU_fst _ _ _ hlen]; exact hndu
  have hmem_h : (uj.1, pe + 2, HeadStatus.merging) ∈ hview i := by
    rw [hv]; exact List.mem_cons_of_mem _ (mem_renderU (pe + 1) us ms j uj (a, MLoc.merging) hju hjm)
  obtain ⟨hd, hfh, hpos, hstat⟩ := findHead_of_mem_hview i hndv uj.1 (pe + 2) .merging hmem_h
  have hujmem : uj.1 ∈ us.map (·.1) := List.mem_map.2 ⟨uj, List.mem_of_getElem? hju, rfl⟩
  have hrh : r ≠ uj.1 := fun e => (List.nodup_cons.1 hndu).1 (e ▸ hujmem)
  -- the merge
  obtain ⟨s1, i1, x1, hsl, F1, ho1, hv1, _, hst1, hclr1, ⟨y', hy1, hy2⟩, hq1⟩ :=
    and_clause_completes fuel s f i x cfg l mu pe n fp r us ms j uj a F C hv hlen hndu hju hjm hone hfu hhx hleaf hmu hfp
  -- the nested call: the forking head leaves the group
  have hndv1 : ((hview i1).map (·.1)).Nodup := by rw [hv1]; simp
  obtain ⟨rd1, hfr1, hrp1, hrs1⟩ := findHead_of_mem_hview i1 hndv1 r (pe + 2) .active (by rw [hv1]; simp)
  have hrange1 : ∀ o ∈ i1.heads, o.pos < cfg.elements.size := by
    intro o ho
    have hmo : (o.uid, o.pos, o.status) ∈ hview i1 := by simp only [hview, List.mem_map]; exact ⟨o, ho, rfl⟩
    rw [hv1] at hmo
    simp only [List.mem_singleton, Prod.mk.injEq] at hmo
    omega
  have H1 : HeadAt s1 f r i1 x1 cfg rd1 :=
    { hi := F1.hi, hx := F1.hx, hc := F1.hc, hh := hfr1, hlt := by rw [hrp1]; omega, hst := by rw [hrs1]; decide }
  obtain ⟨s2, i2, hnest, F2, hv2, hclr2, hq2⟩ := group_exit_real (fuel + 1) s1 f r i1 x1 cfg rd1 spec nm H1 (by rw [hrp1]; exact hsz4)
    (by rw [hrp1]; exact hc1) (by rw [hrp1]; exact hc2) hp hargs hint
    (by rw [hy1]; simp only [Option.getD_some]; rw [hy2]; exact hcl) hrs1 (by rw [hst1]; exact hstarted) hndv1 hrange1
  have hv2' : hview i2 = [(r, pe + 4, HeadStatus.active)] := by
    rw [hv2, hv1, hrp1]; simp [setPosCore]
  have hndv2 : ((hview i2).map (·.1)).Nodup := by rw [hv2']; simp
  obtain ⟨rd2, hfr2, hrp2, hrs2⟩ := findHead_of_mem_hview i2 hndv2 r (pe + 4) .active (by rw [hv2']; simp)
  have hgone2 : i2.findHead uj.1 = none := by
    cases hf : i2.findHead uj.1 with
    | none => rfl
    | some cd =>
      have := mem_hview_of_findHead i2 uj.1 cd hf
      rw [hv2'] at this
      simp only [List.mem_singleton, Prod.mk.injEq] at this
      exact absurd this.1.symm hrh
  have hrange2 : ∀ o ∈ i2.heads, o.pos < cfg.elements.size := by
    intro o ho
    have hmo : (o.uid, o.pos, o.status) ∈ hview i2 := by simp only [hview, List.mem_map]; exact ⟨o, ho, rfl⟩
    rw [hv2'] at hmo
    simp only [List.mem_singleton, Prod.mk.injEq] at hmo
    omega
  have hclr2' : s2.r.cleared.contains (f, uj.1) = false := by rw [hclr2, hclr1]; exact hclr
  have hel2 : cfg.elements[rd2.pos]? = some (.sendOp spec) := by
    rw [hrp2, ← hc2]; simp [getElem!_pos, hsz4]
  refine ⟨s2, i2, x1, ?_, F2, hv2', by rw [hq2, hq1]⟩
  unfold advanceHeadFront
  simp only [List.forIn_cons, List.forIn_nil, bind, EStateM.bind, pure, EStateM.pure, getInst?, getIx, get, getThe, MonadStateOf.get,
    EStateM.get, F.hi, cfgOfInst, getInstX, getInstX?, getRest, F.hx, getCfg, F.hc, getHead?, Option.bind, hfh, hstat,
    show decide (HeadStatus.merging = HeadStatus.inactive) = false from by decide, hstarted, show FlowStatus.started.listening = true from rfl,
    Bool.not_true, Bool.or_false, Bool.false_eq_true, if_false, hq, List.isEmpty_nil, Bool.and_false,
    show (HeadStatus.merging = HeadStatus.active) = False from by simp,
    getInst, show (FlowStatus.started = FlowStatus.waiting) = False from by simp,
    attemptPy, tryCatch, tryCatchThe, MonadExceptOf.tryCatch, EStateM.tryCatch, decide_true, decide_false, hsl, List.isEmpty_cons, hnest,
    List.contains_nil, Bool.not_false, if_true, List.nil_append,
    F2.hi, hgone2, hclr2', Option.isSome_none, Bool.false_and,
    show decide (HeadStatus.inactive = HeadStatus.merging) = false from by decide,
    show (FlowStatus.started = FlowStatus.stopping) = False from by simp, show (FlowStatus.started = FlowStatus.starting) = False from by simp,
    Bool.and_self]
  generalize hbody : (fun (o : Head) (r : Bool) => _) = body
  have hmemh : rd2 ∈ i2.heads := List.mem_of_find?_eq_some hfr2
  have hscan : forIn i2.heads true body s2 = .ok false s2 := by
    refine (forIn_readonly_false body s2 i2.heads ?_ ?_).2 rd2 hmemh ?_ true
    · intro o ho
      rw [← hbody]
      by_cases hin : o.status ≠ HeadStatus.inactive
      · simp only [hin, if_true, ne_eq, not_false_eq_true]
        have hlt := hrange2 o ho
        have hsome : cfg.elements[o.pos]? = some cfg.elements[o.pos] := by simp [hlt]
        rw [hsome]
        cases cfg.elements[o.pos] <;> first
          | rfl
          | (simp only []; split <;> rfl)
      · simp only [hin, if_false]; rfl
    · intro o ho acc
      rw [← hbody]
      by_cases hin : o.status ≠ HeadStatus.inactive
      · simp only [hin, if_true, ne_eq, not_false_eq_true]
        have hlt := hrange2 o ho
        have hsome : cfg.elements[o.pos]? = some cfg.elements[o.pos] := by simp [hlt]
        rw [hsome]
        cases cfg.elements[o.pos] <;> first
          | exact ⟨_, rfl⟩
          | (simp only []; split <;> exact ⟨_, rfl⟩)
      · simp only [hin, if_false]
        exact ⟨_, rfl⟩
    · intro b
      rw [← hbody]
      simp only [hrs2, show (HeadStatus.active ≠ HeadStatus.inactive) = True from by simp, if_true, hel2]
      rfl
  rw [hscan]
  simp only [Bool.or_false, Bool.false_eq_true, if_false]
  cases cfg.elements[0]? <;>
    simp only [pure, EStateM.pure, Bool.false_eq_true, if_false, List.filter_cons, List.filter_nil, F2.hi, hfr2, hrs2,
      show decide (HeadStatus.active ≠ HeadStatus.inactive) = true from by decide, if_true, bind, EStateM.bind]

/-! ### the merging loop's call: the MERGING branch head of an or-group of single atoms (one branch matched) -/

/-- **The merging loop's call of CoreVM's real `_advance_head_front` on the MERGING branch head of an or-group of single atoms** (one
    branch matched; the head phase 1 handed back): `slide` merges — the forking head takes over, every branch head is deleted —, the forking head comes back as a new
    head and the NESTED call of `_advance_head_front` moves it over `CatchPatternFailure(None)` onto the statement after the group (the
    marker `send`), where it is actionable; back in the outer call the merged head is gone (detached, not cleared), nothing is finished or
    aborted, and the forking head is what is handed to the interpreter's main loop. -/
theorem or_group_merge_real (fuel : Nat) (s : VM) (f : FUid) (i : Inst) (x : InstX) (cfg : FlowCfg) (l mu : String) (pe fp : Nat)
    (r : HUid) (us : List (HUid × Nat)) (ms : List Br) (j : Nat) (uj : HUid × Nat)
    (spec : Spec) (nm : String)
    (F : FlowAt s f i x cfg) (C : OrShape cfg l mu pe)
    (hv : hview i = (r, fp, HeadStatus.inactive) :: renderB (pe + 1) us ms)
    (hlen : us.length = ms.length) (hndu : (r :: us.map (·.1)).Nodup)
    (hju : us[j]? = some uj) (hjm : ms[j]? = some Br.merging)
    (hone : ∀ j' m', ms[j']? = some m' → j' ≠ j → ∃ a, m' = Br.single a)
    (hfu : OMap.lookup mu x.forkUids = some r)
    (hhx : ((OMap.lookup (f, r) s.r.hx).getD {}).childHeadUids = us.map (·.1))
    (hleaf : ∀ c ∈ us.map (·.1), ((OMap.lookup (f, c) s.r.hx).getD {}).childHeadUids = [])
    (hmu : mu ∉ us.map (·.1)) (hfp : fp ≠ pe + 1)
    (hstarted : i.status = .started) (hq : s.r.queue = []) (hclr : s.r.cleared.contains (f, uj.1) = false)
    (hsz4 : pe + 3 < cfg.elements.size) (hc1 : cfg.elements[pe + 2]! = .catchFail none) (hc2 : cfg.elements[pe + 3]! = .sendOp spec)
    (hp : PlainSpec spec nm) (hargs : spec.args = []) (hint : internalEvents.contains nm = false)
    (hcl : ((OMap.lookup (f, uj.1) s.r.hx).getD {}).catchLabels.isEmpty = false) :
    ∃ s' i' x', advanceHeadFront (fuel + 5) [(f, uj.1)] s = .ok [(f, r)] s' ∧ FlowAt s' f i' x' cfg ∧
      hview i' = [(r, pe + 3, HeadStatus.active)] ∧ s'.r.queue = s.r.queue := by
  have hndv : ((hview i).map (·.1)).Nodup := by
    rw [hv, List.map_cons, renderB_fst _ _ _ hlen]; exact hndu
  have hmem_h : (uj.1, pe + 1, HeadStatus.merging) ∈ hview i := by
    rw [hv]; exact List.mem_cons_of_mem _ (mem_renderB (pe + 1) us ms j uj Br.merging hju hjm)
  obtain ⟨hd, hfh, hpos, hstat⟩ := findHead_of_mem_hview i hndv uj.1 (pe + 1) .merging hmem_h
  have hujmem : uj.1 ∈ us.map (·.1) := List.mem_map.2 ⟨uj, List.mem_of_getElem? hju, rfl⟩
  have hrh : r ≠ uj.1 := fun e => (List.nodup_cons.1 hndu).1 (e ▸ hujmem)
  -- the merge
  obtain ⟨s1, i1, x1, hsl, F1, ho1, hv1, _, hst1, hclr1, ⟨y', hy1, hy2⟩, hq1⟩ :=
    or_branch_completes fuel s f i x cfg l mu pe fp r us ms j uj F C hv hlen hndu hju hjm hone hfu hhx hleaf hmu hfp
  -- the nested call: the forking head leaves the group
  have hndv1 : ((hview i1).map (·.1)).Nodup := by rw [hv1]; simp
  obtain ⟨rd1, hfr1, hrp1, hrs1⟩ := findHead_of_mem_hview i1 hndv1 r (pe + 1) .active (by rw [hv1]; simp)
  have hrange1 : ∀ o ∈ i1.heads, o.pos < cfg.elements.size := by
    intro o ho
    have hmo : (o.uid, o.pos, o.status) ∈ hview i1 := by simp only [hview, List.mem_map]; exact ⟨o, ho, rfl⟩
    rw [hv1] at hmo
    simp only [List.mem_singleton, Prod.mk.injEq] at hmo
    omega
  have H1 : HeadAt s1 f r i1 x1 cfg rd1 :=
    { hi := F1.hi, hx := F1.hx, hc := F1.hc, hh := hfr1, hlt := by rw [hrp1]; omega, hst := by rw [hrs1]; decide }
  obtain ⟨s2, i2, hnest, F2, hv2, hclr2, hq2⟩ := group_exit_real (fuel + 1) s1 f r i1 x1 cfg rd1 spec nm H1 (by rw [hrp1]; exact hsz4)
    (by rw [hrp1]; exact hc1) (by rw [hrp1]; exact hc2) hp hargs hint
    (by rw [hy1]; simp only [Option.getD_some]; rw [hy2]; exact hcl) hrs1 (by rw [hst1]; exact hstarted) hndv1 hrange1
  have hv2' : hview i2 = [(r, pe + 3, HeadStatus.active)] := by
    rw [hv2, hv1, hrp1]; simp [setPosCore]
  have hndv2 : ((hview i2).map (·.1)).Nodup := by rw [hv2']; simp
  obtain ⟨rd2, hfr2, hrp2, hrs2⟩ := findHead_of_mem_hview i2 hndv2 r (pe + 3) .active (by rw [hv2']; simp)
  have hgone2 : i2.findHead uj.1 = none := by
    cases hf : i2.findHead uj.1 with
    | none => rfl
    | some cd =>
      have := mem_hview_of_findHead i2 uj.1 cd hf
      rw [hv2'] at this
      simp only [List.mem_singleton, Prod.mk.injEq] at this
      exact absurd this.1.symm hrh
  have hrange2 : ∀ o ∈ i2.heads, o.pos < cfg.elements.size := by
    intro o ho
    have hmo : (o.uid, o.pos, o.status) ∈ hview i2 := by simp only [hview, List.mem_map]; exact ⟨o, ho, rfl⟩
    rw [hv2'] at hmo
    simp only [List.mem_singleton, Prod.mk.injEq] at hmo
    omega
  have hclr2' : s2.r.cleared.contains (f, uj.1) = false := by rw [hclr2, hclr1]; exact hclr
  have hel2 : cfg.elements[rd2.pos]? = some (.sendOp spec) := by
    rw [hrp2, ← hc2]; simp [getElem!_pos, hsz4]
  refine ⟨s2, i2, x1, ?_, F2, hv2', by rw [hq2, hq1]⟩
  unfold advanceHeadFront
  simp only [List.forIn_cons, List.forIn_nil, bind, EStateM.bind, pure, EStateM.pure, getInst?, getIx, get, getThe, MonadStateOf.get,
    EStateM.get, F.hi, cfgOfInst, getInstX, getInstX?, getRest, F.hx, getCfg, F.hc, getHead?, Option.bind, hfh, hstat,
    show decide (HeadStatus.merging = HeadStatus.inactive) = false from by decide, hstarted, show FlowStatus.started.listening = true from rfl,
    Bool.not_true, Bool.or_false, Bool.false_eq_true, if_false, hq, List.isEmpty_nil, Bool.and_false,
    show (HeadStatus.merging = HeadStatus.active) = False from by simp,
    getInst, show (FlowStatus.started = FlowStatus.waiting) = False from by simp,
    attemptPy, tryCatch, tryCatchThe, MonadExceptOf.tryCatch, EStateM.tryCatch, decide_true, decide_false, hsl, List.isEmpty_cons, hnest,
    List.contains_nil, Bool.not_false, if_true, List.nil_append,
    F2.hi, hgone2, hclr2', Option.isSome_none, Bool.false_and,
    show decide (HeadStatus.inactive = HeadStatus.merging) = false from by decide,
    show (FlowStatus.started = FlowStatus.stopping) = False from by simp, show (FlowStatus.started = FlowStatus.starting) = False from by simp,
    Bool.and_self]
  generalize hbody : (fun (o : Head) (r : Bool) => _) = body
  have hmemh : rd2 ∈ i2.heads := List.mem_of_find?_eq_some hfr2
  have hscan : forIn i2.heads true body s2 = .ok false s2 := by
    refine (forIn_readonly_false body s2 i2.heads ?_ ?_).2 rd2 hmemh ?_ true
    · intro o ho
      rw [← hbody]
      by_cases hin : o.status ≠ HeadStatus.inactive
      · simp only [hin, if_true, ne_eq, not_false_eq_true]
        have hlt := hrange2 o ho
        have hsome : cfg.elements[o.pos]? = some cfg.elements[o.pos] := by simp [hlt]
        rw [hsome]
        cases cfg.elements[o.pos] <;> first
          | rfl
          | (simp only []; split <;> rfl)
      · simp only [hin, if_false]; rfl
    · intro o ho acc
      rw [← hbody]
      by_cases hin : o.status ≠ HeadStatus.inactive
      · simp only [hin, if_true, ne_eq, not_false_eq_true]
        have hlt := hrange2 o ho
        have hsome : cfg.elements[o.pos]? = some cfg.elements[o.pos] := by simp [hlt]
        rw [hsome]
        cases cfg.elements[o.pos] <;> first
          | exact ⟨_, rfl⟩
          | (simp only []; split <;> exact ⟨_, rfl⟩)
      · simp only [hin, if_false]
        exact ⟨_, rfl⟩
    · intro b
      rw [← hbody]
      simp only [hrs2, show (HeadStatus.active ≠ HeadStatus.inactive) = True from by simp, if_true, hel2]
      rfl
  rw [hscan]
  simp only [Bool.or_false, Bool.false_eq_true, if_false]
  cases cfg.elements[0]? <;>
    simp only [pure, EStateM.pure, Bool.false_eq_true, if_false, List.filter_cons, List.filter_nil, F2.hi, hfr2, hrs2,
      show decide (HeadStatus.active ≠ HeadStatus.inactive) = true from by decide, if_true, bind, EStateM.bind]

/-! ### one event on a pure and-group through both calls of the real function -/

open NemoVerif.GroupVM (QMs remMs mergingFrom QItem p1Members_spec mem_mergingFrom)

theorem filter_eq_singleton' (h : HUid) (P : HUid → Bool) (l : List HUid) (hnd : l.Nodup) (hm : h ∈ l)
    (hP : ∀ c ∈ l, P c = decide (c = h)) : l.filter P = [h] := by
  rw [List.filter_congr hP]; exact filter_eq_singleton h l hnd hm

/-- **One event on a pure and-group through the TWO calls of CoreVM's real `_advance_head_front`** that `runToCompletion` makes for it
    (any size).  Between two events the member heads are on their `match` elements or parked (`QMs ms`), the forking head is INACTIVE,
    the flow STARTED.  Call 1 (from the event's handling, with the member heads that wait on `match e`): the state of
    `GroupVM.p1Members`; it returns `[]`, or — when the event completes the clause — exactly the one MERGING head.  Call 2 (from the
    merging loop, with what call 1 returned, queue empty): the group is merged, the forking head is the only head left, ACTIVE on the
    statement after the group, and is what the main loop gets. -/
theorem and_group_event_real (fuel : Nat) (s : VM) (f : FUid) (i : Inst) (x : InstX) (cfg : FlowCfg) (l mu : String) (pe fp e : Nat)
    (r : HUid) (us : List (HUid × Nat)) (ms : List (Nat × MLoc)) (spec : Spec) (nm : String)
    (F : FlowAt s f i x cfg) (hown : x.ctxOwner = none) (C : ClauseShape cfg l mu pe ms.length) (S : MembersShape cfg l pe us)
    (hlen : us.length = ms.length) (hndu : (r :: us.map (·.1)).Nodup) (hq : QMs ms)
    (hv : hview i = (r, fp, HeadStatus.inactive) :: renderU (pe + 1) us ms)
    (hfu : OMap.lookup mu x.forkUids = some r)
    (hhx : ((OMap.lookup (f, r) s.r.hx).getD {}).childHeadUids = us.map (·.1))
    (hleaf : ∀ c ∈ us.map (·.1), ((OMap.lookup (f, c) s.r.hx).getD {}).childHeadUids = [])
    (hmu : mu ∉ us.map (·.1)) (hfp : fp ≠ pe + 2)
    (hstarted : i.status = .started) (hrange : ∀ o ∈ i.heads, o.pos < cfg.elements.size)
    (hqueue : s.r.queue = []) (hclr : s.r.cleared = [])
    (hsz4 : pe + 4 < cfg.elements.size) (hc1 : cfg.elements[pe + 3]! = .catchFail none) (hc2 : cfg.elements[pe + 4]! = .sendOp spec)
    (hp : PlainSpec spec nm) (hargs : spec.args = []) (hint : internalEvents.contains nm = false)
    (hcl : ∀ c ∈ us.map (·.1), ((OMap.lookup (f, c) s.r.hx).getD {}).catchLabels.isEmpty = false) :
    ∃ s1 i1 acts, advanceHeadFront (fuel + 4) ((matchingU e us ms).map fun h => (f, h)) s = .ok acts s1 ∧ FlowAt s1 f i1 x cfg ∧
      s1.r = s.r ∧ hview i1 = (r, fp, HeadStatus.inactive) :: renderU (pe + 1) us (p1Members e ms.length [] ms) ∧
      (remMs (p1Members e ms.length [] ms) = [] → remMs ms ≠ [] →
        ∃ (j : Nat) (uj : HUid × Nat) (a : Nat), us[j]? = some uj ∧ (p1Members e ms.length [] ms)[j]? = some (a, MLoc.merging) ∧
          acts = [(f, uj.1)] ∧
          ∃ s2 i2 x2, advanceHeadFront (fuel + 5) acts s1 = .ok [(f, r)] s2 ∧ FlowAt s2 f i2 x2 cfg ∧
            hview i2 = [(r, pe + 4, HeadStatus.active)]) := by
  obtain ⟨s1, i1, hreal, F1, hr1, hv1, hst1, hkeep⟩ := and_clause_phase1_real fuel s f i x cfg l mu pe ms.length e
    [(r, fp, HeadStatus.inactive)] us ms F hown C S hlen (by simpa using hndu) (by simp [liveAt]) (by simpa using hv) hstarted hrange
  have hv1' : hview i1 = (r, fp, HeadStatus.inactive) :: renderU (pe + 1) us (p1Members e ms.length [] ms) := by simpa using hv1
  refine ⟨s1, i1, _, hreal, F1, hr1, hv1', ?_⟩
  intro hdone hsome
  have hspec := p1Members_spec e ms.length 0 ms [] hq (by intro m hm; cases hm) (by simp)
  obtain ⟨j, a, hjm, hmf⟩ := hspec.2.2.2 hdone hsome
  have hl' : (p1Members e ms.length [] ms).length = ms.length := hspec.2.1
  have hjlt : j < us.length := by
    rcases Nat.lt_or_ge j (p1Members e ms.length [] ms).length with h | h
    · omega
    · rw [List.getElem?_eq_none h] at hjm; cases hjm
  have hju : us[j]? = some us[j] := List.getElem?_eq_getElem hjlt
  have hnl := p1Members_not_lost e ms.length ms []
    (by intro m hm; rcases hq m hm with h | h <;> (rw [h]; decide)) (by intro m hm; cases hm)
  -- only entry `j` is MERGING
  have honly : ∀ j' m', (p1Members e ms.length [] ms)[j']? = some m' → j' ≠ j → m'.2 ≠ MLoc.merging := by
    intro j' m' hm' hne hmg
    have : QItem.member 0 (0 + j') ∈ mergingFrom 0 0 (p1Members e ms.length [] ms) :=
      (mem_mergingFrom 0 _ 0 _).2 ⟨j', m'.1, rfl, by rw [hm']; cases m'; simp_all⟩
    rw [hmf] at this
    simp at this
    exact hne this
  have hndv1 : ((hview i1).map (·.1)).Nodup := by
    rw [hv1', List.map_cons, renderU_fst _ _ _ (by rw [hl']; exact hlen)]; exact hndu
  have hmemj : (us[j].1, pe + 2, HeadStatus.merging) ∈ hview i1 := by
    rw [hv1']; exact List.mem_cons_of_mem _ (mem_renderU (pe + 1) us _ j us[j] (a, MLoc.merging) hju hjm)
  have hndm : (matchingU e us ms).Nodup := (matchingU_sublist e us ms).nodup (List.nodup_cons.1 hndu).2
  -- the head that completed the clause was among the advanced ones
  have hin : us[j].1 ∈ matchingU e us ms := by
    apply Classical.byContradiction
    intro hnot
    have hjms : j < ms.length := by omega
    have hold : (us[j].1, mlocCore us[j].2 (pe + 1) ms[j].2) ∈ hview i := by
      rw [hv]; exact List.mem_cons_of_mem _ (mem_renderU (pe + 1) us ms j us[j] ms[j] hju (List.getElem?_eq_getElem hjms))
    have hk := hkeep _ hold hnot
    have := hview_fst_unique i1 hndv1 _ _ hk hmemj rfl
    rcases hq ms[j] (List.getElem_mem hjms) with h | h <;> (rw [h] at this; simp [mlocCore] at this)
  have hacts : (matchingU e us ms).filter (fun h => decide ((h, pe + 2, HeadStatus.merging) ∈ hview i1)) = [us[j].1] := by
    apply filter_eq_singleton' us[j].1 _ _ hndm hin
    intro c _
    by_cases hc : c = us[j].1
    · subst hc; simp [hmemj]
    · have : (c, pe + 2, HeadStatus.merging) ∉ hview i1 := by
        intro hm
        rw [hv1'] at hm
        rcases List.mem_cons.1 hm with h | h
        · simp at h
        · obtain ⟨j', u', m', h1, h2, h3⟩ := of_mem_renderU (pe + 1) us _ _ h
          have hmg : m'.2 = MLoc.merging := by
            cases hm2 : m'.2 <;> first | rfl | (rw [hm2] at h3; simp [mlocCore] at h3)
          have hjj : j' = j := Classical.byContradiction fun hne => honly j' m' h2 hne hmg
          subst hjj
          rw [hju] at h1; cases h1
          simp at h3; exact hc h3.1
      simp [this, hc]
  refine ⟨j, us[j], a, hju, hjm, by rw [hacts]; rfl, ?_⟩
  rw [hacts]
  have hujmem : us[j].1 ∈ us.map (·.1) := List.mem_map.2 ⟨us[j], List.getElem_mem hjlt, rfl⟩
  have hfin := and_group_merge_real fuel s1 f i1 x cfg l mu pe ms.length fp r us (p1Members e ms.length [] ms) j us[j] a spec nm F1 C hv1'
    (by rw [hl']; exact hlen) hndu hju hjm
    (by
      intro j' m' hm' hne
      have h1 : m'.2 ≠ MLoc.lost := hnl m' (List.mem_of_getElem? hm')
      have h2 := honly j' m' hm' hne
      cases hm2 : m'.2 <;> simp_all)
    hfu (by rw [hr1]; exact hhx) (by rw [hr1]; exact hleaf) hmu hfp hst1 (by rw [hr1]; exact hqueue) (by rw [hr1, hclr]; rfl)
    hsz4 hc1 hc2 hp hargs hint (by rw [hr1]; exact hcl _ hujmem)
  obtain ⟨s2, i2, x2, h1, h2, h3, _⟩ := hfin
  exact ⟨s2, i2, x2, h1, h2, h3⟩

/-! ### one event on a pure or-group of single atoms (one branch matching) through both calls of the real function -/

/-- **One event on a pure or-group of single atoms through the TWO calls of CoreVM's real `_advance_head_front`**, when exactly one
    branch head `uj` waits on `match e` (any number of branches): call 1 (event handling, `[uj]`) = `GroupVM.p1Brs`, hands `[uj]` back
    MERGING; call 2 (merging loop, `[uj]`, queue empty): the group is merged, the forking head is the only head left, ACTIVE on the
    statement after the group. -/
theorem or_group_event_real (fuel : Nat) (s : VM) (f : FUid) (i : Inst) (x : InstX) (cfg : FlowCfg) (l mu : String) (pe fp e : Nat)
    (r : HUid) (us : List (HUid × Nat)) (brs : List Br) (j : Nat) (uj : HUid × Nat) (spec : Spec) (nm : String)
    (F : FlowAt s f i x cfg) (hown : x.ctxOwner = none) (C : OrShape cfg l mu pe) (S : MembersShape cfg l pe us)
    (hlen : us.length = brs.length) (hnm : noMulti brs = true) (hndu : (r :: us.map (·.1)).Nodup)
    (hv : hview i = (r, fp, HeadStatus.inactive) :: renderB (pe + 1) us brs)
    (hju : us[j]? = some uj) (hjm : (p1Brs e 0 brs).1[j]? = some Br.merging)
    (hone : ∀ j' m', (p1Brs e 0 brs).1[j']? = some m' → j' ≠ j → ∃ a, m' = Br.single a)
    (hl1 : (p1Brs e 0 brs).1.length = brs.length)
    (hmb : matchingB e us brs = [uj.1])
    (hfu : OMap.lookup mu x.forkUids = some r)
    (hhx : ((OMap.lookup (f, r) s.r.hx).getD {}).childHeadUids = us.map (·.1))
    (hleaf : ∀ c ∈ us.map (·.1), ((OMap.lookup (f, c) s.r.hx).getD {}).childHeadUids = [])
    (hmu : mu ∉ us.map (·.1)) (hfp : fp ≠ pe + 1)
    (hstarted : i.status = .started) (hrange : ∀ o ∈ i.heads, o.pos < cfg.elements.size)
    (hqueue : s.r.queue = []) (hclr : s.r.cleared = [])
    (hsz4 : pe + 3 < cfg.elements.size) (hc1 : cfg.elements[pe + 2]! = .catchFail none) (hc2 : cfg.elements[pe + 3]! = .sendOp spec)
    (hp : PlainSpec spec nm) (hargs : spec.args = []) (hint : internalEvents.contains nm = false)
    (hcl : ((OMap.lookup (f, uj.1) s.r.hx).getD {}).catchLabels.isEmpty = false) :
    ∃ s1 i1 s2 i2 x2, advanceHeadFront (fuel + 3) [(f, uj.1)] s = .ok [(f, uj.1)] s1 ∧ FlowAt s1 f i1 x cfg ∧
      hview i1 = (r, fp, HeadStatus.inactive) :: renderB (pe + 1) us (p1Brs e 0 brs).1 ∧
      advanceHeadFront (fuel + 5) [(f, uj.1)] s1 = .ok [(f, r)] s2 ∧ FlowAt s2 f i2 x2 cfg ∧
      hview i2 = [(r, pe + 3, HeadStatus.active)] := by
  obtain ⟨s1, i1, hreal, F1, hr1, hv1, hst1⟩ := or_group_phase1_real fuel s f i x cfg l mu pe e [(r, fp, HeadStatus.inactive)] us brs
    F hown C S hlen hnm (by simpa using hndu) (by simpa using hv) hstarted hrange
  rw [hmb] at hreal
  have hv1' : hview i1 = (r, fp, HeadStatus.inactive) :: renderB (pe + 1) us (p1Brs e 0 brs).1 := by simpa using hv1
  obtain ⟨s2, i2, x2, hreal2, F2, hv2⟩ := or_group_merge_real fuel s1 f i1 x cfg l mu pe fp r us (p1Brs e 0 brs).1 j uj spec nm
    F1 C hv1' (by rw [hl1]; exact hlen) hndu hju hjm hone hfu (by rw [hr1]; exact hhx) (by rw [hr1]; exact hleaf) hmu hfp hst1
    (by rw [hr1]; exact hqueue) (by rw [hr1, hclr]; rfl) hsz4 hc1 hc2 hp hargs hint (by rw [hr1]; exact hcl)
  exact ⟨s1, i1, s2, i2, x2, by simpa using hreal, F1, hv1', hreal2, F2, hv2.1⟩

/-! ### `while heads_are_merging:` -/

/-- `while heads_are_merging:` with an empty event queue and one pending head that is ACTIVE: the loop ends and hands the head on -/
theorem mergeLoop_active (fuel : Nat) (s : VM) (f : FUid) (h : HUid) (i : Inst) (hd : Head)
    (hi : findInst s.ixs.ix f = some i) (hh : i.findHead h = some hd) (hst : hd.status = .active) (hq : s.r.queue = []) :
    mergeLoop (fuel + 2) [(f, h)] s = .ok [(f, h)] s := by
  have hso : headStatusOf s.ixs.ix (f, h) = some HeadStatus.active := by
    simp only [headStatusOf, hi, Option.bind, hh, Option.map, hst]
  unfold mergeLoop
  simp only [drainEvents, bind, EStateM.bind, getRest, get, getThe, MonadStateOf.get, EStateM.get, pure, EStateM.pure, hq,
    pendingDetachedBad, List.any_cons, List.any_nil, hso, Option.isNone_some, Bool.false_and, Bool.or_false, Bool.false_eq_true, if_false,
    List.filter_cons, List.filter_nil, show (some HeadStatus.active = some HeadStatus.merging) = False from by simp, decide_false,
    decide_true, if_true, List.isEmpty_nil]

/-- **`while heads_are_merging:` (CoreVM's `mergeLoop`) on the MERGING member head of an and-group**: the event queue is empty, the one
    pending head is MERGING: `_advance_head_front` is called with it (`and_group_merge_real`), hands back the forking head — ACTIVE on the
    statement after the group —, and the next round of the loop finds nothing MERGING and ends: the forking head goes to the main loop
    (`_resolve_action_conflicts`, then the marker is sent). -/
theorem and_group_mergeLoop_real (fuel : Nat) (s : VM) (f : FUid) (i : Inst) (x : InstX) (cfg : FlowCfg) (l mu : String) (pe n fp : Nat)
    (r : HUid) (us : List (HUid × Nat)) (ms : List (Nat × MLoc)) (j : Nat) (uj : HUid × Nat) (a : Nat)
    (spec : Spec) (nm : String)
    (F : FlowAt s f i x cfg) (C : ClauseShape cfg l mu pe n)
    (hv : hview i = (r, fp, HeadStatus.inactive) :: renderU (pe + 1) us ms)
    (hlen : us.length = ms.length) (hndu : (r :: us.map (·.1)).Nodup)
    (hju : us[j]? = some uj) (hjm : ms[j]? = some (a, MLoc.merging))
    (hone : ∀ j' m', ms[j']? = some m' → j' ≠ j → m'.2 = MLoc.atWait ∨ m'.2 = MLoc.atMatch)
    (hfu : OMap.lookup mu x.forkUids = some r)
    (hhx : ((OMap.lookup (f, r) s.r.hx).getD {}).childHeadUids = us.map (·.1))
    (hleaf : ∀ c ∈ us.map (·.1), ((OMap.lookup (f, c) s.r.hx).getD {}).childHeadUids = [])
    (hmu : mu ∉ us.map (·.1)) (hfp : fp ≠ pe + 2)
    (hstarted : i.status = .started) (hq : s.r.queue = []) (hclr : s.r.cleared.contains (f, uj.1) = false)
    (hsz4 : pe + 4 < cfg.elements.size) (hc1 : cfg.elements[pe + 3]! = .catchFail none) (hc2 : cfg.elements[pe + 4]! = .sendOp spec)
    (hp : PlainSpec spec nm) (hargs : spec.args = []) (hint : internalEvents.contains nm = false)
    (hcl : ((OMap.lookup (f, uj.1) s.r.hx).getD {}).catchLabels.isEmpty = false) :
    ∃ s' i' x', mergeLoop (fuel + 6) [(f, uj.1)] s = .ok [(f, r)] s' ∧ FlowAt s' f i' x' cfg ∧
      hview i' = [(r, pe + 4, HeadStatus.active)] := by
  have hndv : ((hview i).map (·.1)).Nodup := by
    rw [hv, List.map_cons, renderU_fst _ _ _ hlen]; exact hndu
  have hmem_h : (uj.1, pe + 2, HeadStatus.merging) ∈ hview i := by
    rw [hv]; exact List.mem_cons_of_mem _ (mem_renderU (pe + 1) us ms j uj (a, MLoc.merging) hju hjm)
  obtain ⟨hd, hfh, _, hstat⟩ := findHead_of_mem_hview i hndv uj.1 (pe + 2) .merging hmem_h
  obtain ⟨s2, i2, x2, hreal, F2, hv2, hq2⟩ := and_group_merge_real fuel s f i x cfg l mu pe n fp r us ms j uj a spec nm F C hv hlen hndu
    hju hjm hone hfu hhx hleaf hmu hfp hstarted hq hclr hsz4 hc1 hc2 hp hargs hint hcl
  have hndv2 : ((hview i2).map (·.1)).Nodup := by rw [hv2]; simp
  obtain ⟨rd2, hfr2, _, hrs2⟩ := findHead_of_mem_hview i2 hndv2 r (pe + 4) .active (by rw [hv2]; simp)
  have hnext := mergeLoop_active (fuel + 3) s2 f r i2 rd2 F2.hi hfr2 hrs2 (by rw [hq2]; exact hq)
  have hso : headStatusOf s.ixs.ix (f, uj.1) = some HeadStatus.merging := by
    simp only [headStatusOf, F.hi, Option.bind, hfh, Option.map, hstat]
  refine ⟨s2, i2, x2, ?_, F2, hv2⟩
  unfold mergeLoop
  simp only [drainEvents, bind, EStateM.bind, getRest, get, getThe, MonadStateOf.get, EStateM.get, pure, EStateM.pure, hq,
    pendingDetachedBad, List.any_cons, List.any_nil, hso, Option.isNone_some, Bool.false_and, Bool.or_false, Bool.false_eq_true, if_false,
    List.filter_cons, List.filter_nil, show (some HeadStatus.merging = some HeadStatus.active) = False from by simp, decide_false,
    decide_true, if_true, List.isEmpty_cons, hreal, List.nil_append, hnext]

/-- **`while heads_are_merging:` (CoreVM's `mergeLoop`) on the MERGING branch head of an or-group of single atoms (one branch matched)**: the event queue is empty, the one
    pending head is MERGING: `_advance_head_front` is called with it (`or_group_merge_real`), hands back the forking head — ACTIVE on the
    statement after the group —, and the next round of the loop finds nothing MERGING and ends: the forking head goes to the main loop
    (`_resolve_action_conflicts`, then the marker is sent). -/
theorem or_group_mergeLoop_real (fuel : Nat) (s : VM) (f : FUid) (i : Inst) (x : InstX) (cfg : FlowCfg) (l mu : String) (pe fp : Nat)
    (r : HUid) (us : List (HUid × Nat)) (ms : List Br) (j : Nat) (uj : HUid × Nat)
    (spec : Spec) (nm : String)
    (F : FlowAt s f i x cfg) (C : OrShape cfg l mu pe)
    (hv : hview i = (r, fp, HeadStatus.inactive) :: renderB (pe + 1) us ms)
    (hlen : us.length = ms.length) (hndu : (r :: us.map (·.1)).Nodup)
    (hju : us[j]? = some uj) (hjm : ms[j]? = some Br.merging)
    (hone : ∀ j' m', ms[j']? = some m' → j' ≠ j → ∃ a, m' = Br.single a)
    (hfu : OMap.lookup mu x.forkUids = some r)
    (hhx : ((OMap.lookup (f, r) s.r.hx).getD {}).childHeadUids = us.map (·.1))
    (hleaf : ∀ c ∈ us.map (·.1), ((OMap.lookup (f, c) s.r.hx).getD {}).childHeadUids = [])
    (hmu : mu ∉ us.map (·.1)) (hfp : fp ≠ pe + 1)
    (hstarted : i.status = .started) (hq : s.r.queue = []) (hclr : s.r.cleared.contains (f, uj.1) = false)
    (hsz4 : pe + 3 < cfg.elements.size) (hc1 : cfg.elements[pe + 2]! = .catchFail none) (hc2 : cfg.elements[pe + 3]! = .sendOp spec)
    (hp : PlainSpec spec nm) (hargs : spec.args = []) (hint : internalEvents.contains nm = false)
    (hcl : ((OMap.lookup (f, uj.1) s.r.hx).getD {}).catchLabels.isEmpty = false) :
    ∃ s' i' x', mergeLoop (fuel + 6) [(f, uj.1)] s = .ok [(f, r)] s' ∧ FlowAt s' f i' x' cfg ∧
      hview i' = [(r, pe + 3, HeadStatus.active)] := by
  have hndv : ((hview i).map (·.1)).Nodup := by
    rw [hv, List.map_cons, renderB_fst _ _ _ hlen]; exact hndu
  have hmem_h : (uj.1, pe + 1, HeadStatus.merging) ∈ hview i := by
    rw [hv]; exact List.mem_cons_of_mem _ (mem_renderB (pe + 1) us ms j uj Br.merging hju hjm)
  obtain ⟨hd, hfh, _, hstat⟩ := findHead_of_mem_hview i hndv uj.1 (pe + 1) .merging hmem_h
  obtain ⟨s2, i2, x2, hreal, F2, hv2, hq2⟩ := or_group_merge_real fuel s f i x cfg l mu pe fp r us ms j uj spec nm F C hv hlen hndu
    hju hjm hone hfu hhx hleaf hmu hfp hstarted hq hclr hsz4 hc1 hc2 hp hargs hint hcl
  have hndv2 : ((hview i2).map (·.1)).Nodup := by rw [hv2]; simp
  obtain ⟨rd2, hfr2, _, hrs2⟩ := findHead_of_mem_hview i2 hndv2 r (pe + 3) .active (by rw [hv2]; simp)
  have hnext := mergeLoop_active (fuel + 3) s2 f r i2 rd2 F2.hi hfr2 hrs2 (by rw [hq2]; exact hq)
  have hso : headStatusOf s.ixs.ix (f, uj.1) = some HeadStatus.merging := by
    simp only [headStatusOf, F.hi, Option.bind, hfh, Option.map, hstat]
  refine ⟨s2, i2, x2, ?_, F2, hv2⟩
  unfold mergeLoop
  simp only [drainEvents, bind, EStateM.bind, getRest, get, getThe, MonadStateOf.get, EStateM.get, pure, EStateM.pure, hq,
    pendingDetachedBad, List.any_cons, List.any_nil, hso, Option.isNone_some, Bool.false_and, Bool.or_false, Bool.false_eq_true, if_false,
    List.filter_cons, List.filter_nil, show (some HeadStatus.merging = some HeadStatus.active) = False from by simp, decide_false,
    decide_true, if_true, List.isEmpty_cons, hreal, List.nil_append, hnext]

end NemoVerif.CoreVM
