/-
  C07 (T2') — the interpreter model's REAL `_advance_head_front` (`CoreVM.advanceHeadFront`: position += 1, flow-status bookkeeping,
  try/except around `slide`, the "all heads are waiting" scan, finished / aborted handling, the final filter) on ONE matching head is the
  stand-in `advanceMember` used by the segment theorems: `advanceHeadFront_one`; instantiated for a member head of an and-clause:
  `advanceHeadFront_member`.
-/
import NemoVerif.Lemmas.GroupCoreVMMirror
set_option linter.unusedSimpArgs false
namespace NemoVerif.CoreVM
open NemoVerif NemoVerif.CoreIndex

/-- **CoreVM's `_advance_head_front` on ONE matching head is `advanceMember`.**  A flow instance in status STARTED, an ACTIVE head `h`;
    advancing it the way the stand-in `advanceMember` does (`position += 1`, `slide`) ends in a state `s'` in which the head sits on an
    element that is not an action and every head of the instance is inside the program.  Then the interpreter model's real
    `advanceHeadFront` on `[h]` does exactly that and nothing else (no flow-status change, no event, nothing finished or aborted), and it
    returns `[h]` iff the head is now MERGING (the merging loop will advance it again). -/
theorem advanceHeadFront_one (fuel : Nat) (s : VM) (f : FUid) (h : HUid) (i i' : Inst) (x : InstX) (cfg : FlowCfg) (hd hd' : Head) (s' : VM)
    (H : HeadAt s f h i x cfg hd) (hact : hd.status = .active) (hstarted : i.status = .started)
    (hadv : advanceMember fuel f h s = .ok [] s')
    (hi0 : ∀ s0, setHeadPos (f, h) (hd.pos + 1) s = .ok () s0 → ∃ i0, findInst s0.ixs.ix f = some i0 ∧ i0.status = .started)
    (F' : FlowAt s' f i' x cfg) (hh' : i'.findHead h = some hd') (hlt' : hd'.pos < cfg.elements.size) (hst' : i'.status = .started)
    (hrange : ∀ o ∈ i'.heads, o.pos < cfg.elements.size)
    (hnoact : (cfg.elements[hd'.pos]!).isActionOp = false) (hlive : hd'.status ≠ .inactive) :
    advanceHeadFront (fuel + 1) [(f, h)] s = .ok (if hd'.status = .merging then [(f, h)] else []) s' := by
  -- split `advanceMember` into its two steps
  have hsplit : ∃ s0, setHeadPos (f, h) (hd.pos + 1) s = .ok () s0 ∧ slide fuel f h s0 = .ok [] s' := by
    simp only [advanceMember, bind, EStateM.bind, getHead?, getIx, get, getThe, MonadStateOf.get, EStateM.get, pure, EStateM.pure,
      H.hi, Option.bind, H.hh] at hadv
    cases h0 : setHeadPos (f, h) (hd.pos + 1) s with
    | ok u s0 => rw [h0] at hadv; exact ⟨s0, rfl, hadv⟩
    | error e s0 => rw [h0] at hadv; cases hadv
  obtain ⟨s0, h0, hsl⟩ := hsplit
  obtain ⟨i0, hi0', hst0⟩ := hi0 s0 h0
  unfold advanceHeadFront
  simp only [List.forIn_cons, List.forIn_nil, bind, EStateM.bind, pure, EStateM.pure, getInst?, getIx, get, getThe, MonadStateOf.get,
    EStateM.get, H.hi, cfgOfInst, getInstX, getInstX?, getRest, H.hx, getCfg, H.hc, getHead?, Option.bind, H.hh, hact,
    show decide (HeadStatus.active = HeadStatus.inactive) = false from by decide, hstarted, FlowStatus.listening, Bool.not_true, Bool.or_false,
    Bool.false_eq_true, if_false, show decide (HeadStatus.active = HeadStatus.merging) = false from by decide, Bool.false_and, if_true, h0,
    getInst, hi0', hst0, show (FlowStatus.started = FlowStatus.waiting) = False from by simp,
    attemptPy, tryCatch, tryCatchThe, MonadExceptOf.tryCatch, EStateM.tryCatch, hsl, List.isEmpty_nil,
    F'.hi, hh', Option.isSome_some, Bool.true_and, show decide (hd'.pos ≥ cfg.elements.size) = false from by simp; exact hlt', hst',
    show (FlowStatus.started = FlowStatus.stopping) = False from by simp, show (FlowStatus.started = FlowStatus.starting) = False from by simp,
    Bool.not_false, Bool.and_self]
  generalize hL : (forIn i'.heads true _ : M Bool) s' = R
  have hR : ∃ b, R = EStateM.Result.ok b s' := by
    rw [← hL]
    apply forIn_readonly
    intro o ho acc
    by_cases hin : o.status ≠ HeadStatus.inactive
    · simp only [hin, if_true, ne_eq, not_false_eq_true]
      have hlt := hrange o ho
      have hsome : cfg.elements[o.pos]? = some cfg.elements[o.pos] := by simp [hlt]
      rw [hsome]
      cases cfg.elements[o.pos] <;> first
        | exact ⟨_, rfl⟩
        | (simp only []; split <;> exact ⟨_, rfl⟩)
    · simp only [hin, if_false]
      exact ⟨_, rfl⟩
  obtain ⟨b, rfl⟩ := hR
  clear hL
  have hel' : cfg.elements[hd'.pos]? = some cfg.elements[hd'.pos]! := by
    simp [getElem!_pos, hlt']
  simp only [Bool.false_or, hel', hnoact, Bool.false_eq_true, if_false]
  cases b with
  | true =>
    simp only [if_true, bind, EStateM.bind, get, getThe, MonadStateOf.get, EStateM.get, pure, EStateM.pure, F'.hi, hst',
      show (FlowStatus.started = FlowStatus.starting) = False from by simp, if_false]
    by_cases hmg : hd'.status = HeadStatus.merging
    · simp only [hmg, decide_true, if_true, Bool.false_eq_true, if_false, pure, EStateM.pure, List.nil_append, List.filter_cons,
        List.filter_nil, F'.hi, hh', show decide (HeadStatus.merging ≠ HeadStatus.inactive) = true from by decide]
    · simp only [hmg, decide_false, Bool.false_eq_true, if_false, pure, EStateM.pure, List.filter_nil]
  | false =>
    simp only [Bool.false_eq_true, if_false, pure, EStateM.pure]
    by_cases hmg : hd'.status = HeadStatus.merging
    · simp only [hmg, decide_true, if_true, Bool.false_eq_true, if_false, pure, EStateM.pure, List.nil_append, List.filter_cons,
        List.filter_nil, F'.hi, hh', show decide (HeadStatus.merging ≠ HeadStatus.inactive) = true from by decide]
    · simp only [hmg, decide_false, Bool.false_eq_true, if_false, pure, EStateM.pure, List.filter_nil]


theorem pos_lt_of_modifyHead (i : Inst) (h : HUid) (g : Head → Head) (n : Nat)
    (hr : ∀ o ∈ i.heads, o.pos < n) (hg : ∀ o, (g o).pos < n) : ∀ o ∈ (i.modifyHead h g).heads, o.pos < n := by
  intro o ho
  simp only [Inst.modifyHead, List.mem_map] at ho
  obtain ⟨o0, ho0, rfl⟩ := ho
  split
  · exact hg o0
  · exact hr o0 ho0

/-- **CoreVM's `_advance_head_front` on a matching member head of an and-clause** (flow STARTED, every head inside the program): exactly
    the stand-in's step — the head parks on `WaitForHeads n` or ends MERGING on `MergeHeads` according to the count of parked heads —
    and it is handed back as actionable iff it is MERGING. -/
theorem advanceHeadFront_member (fuel : Nat) (s : VM) (f : FUid) (h : HUid) (i : Inst) (x : InstX) (cfg : FlowCfg) (hd : Head)
    (l u : String) (pe n : Nat)
    (H : HeadAt s f h i x cfg hd) (hown : x.ctxOwner = none) (hact : hd.status = .active) (hstarted : i.status = .started)
    (C : ClauseShape cfg l u pe n)
    (hgoto : cfg.elements[hd.pos + 1]! = .goto (.lit (.bool true)) l) (hlt : hd.pos + 1 < pe + 1)
    (hnd : ((hview i).map (·.1)).Nodup) (hrange : ∀ o ∈ i.heads, o.pos < cfg.elements.size) :
    ∃ s' i', advanceHeadFront (fuel + 4) [(f, h)] s
        = .ok (if ((hview i).filter fun t => t.2.2 ≠ .inactive && t.2.1 = pe + 1).length + 1 ≥ n then [(f, h)] else []) s' ∧
      FlowAt s' f i' x cfg ∧ s'.r = s.r ∧
      hview i' = (hview i).map
        (if ((hview i).filter fun t => t.2.2 ≠ .inactive && t.2.1 = pe + 1).length + 1 ≥ n
          then setCore h (pe + 2) .merging else setCore h (pe + 1) .active) := by
  have hsz := C.hsize
  obtain ⟨s', i', hadv, F', hr', hv', hst'⟩ := advanceMember_spec fuel s f h i x cfg hd l u pe n H hown hact C hgoto hlt hnd
  -- the head in the result state
  have hmem := mem_hview_of_findHead i h hd H.hh
  have hfst : ∀ (g : HCore → HCore), (∀ t, (g t).1 = t.1) → ((fun (t : HCore) => t.1) ∘ g) = fun t => t.1 := by
    intro g hg; funext t; exact hg t
  have hndv' : ((hview i').map (·.1)).Nodup := by
    rw [hv', List.map_map]
    split
    · rw [hfst _ (fun t => setCore_fst _ _ _ t)]; exact hnd
    · rw [hfst _ (fun t => setCore_fst _ _ _ t)]; exact hnd
  -- every head of the result instance is inside the program
  have hrange' : ∀ o ∈ i'.heads, o.pos < cfg.elements.size := by
    intro o ho
    have hmo : (o.uid, o.pos, o.status) ∈ hview i' := by simp only [hview, List.mem_map]; exact ⟨o, ho, rfl⟩
    rw [hv'] at hmo
    obtain ⟨t, ht, e⟩ := List.mem_map.1 hmo
    simp only [hview, List.mem_map] at ht
    obtain ⟨o0, ho0, rfl⟩ := ht
    have h0 := hrange o0 ho0
    split at e <;> simp only [setCore] at e <;> split at e <;> simp only [Prod.mk.injEq] at e <;> omega
  -- the instance after `head.position += 1` is still STARTED
  have hi0 : ∀ s0, setHeadPos (f, h) (hd.pos + 1) s = .ok () s0 → ∃ i0, findInst s0.ixs.ix f = some i0 ∧ i0.status = .started := by
    intro s0 h0
    have hnm0 : NotMatchAt cfg (hd.pos + 1) := notMatchAt_of cfg (hd.pos + 1) _ (by omega) hgoto rfl
    obtain ⟨hg0, h0'⟩ := setHeadPos_ok s f h i x cfg hd (hd.pos + 1) H.toFlowAt H.hh (by omega) hnm0
    rw [h0'] at h0
    cases h0
    exact ⟨_, findInst_setPos s.ixs.ix f h i hd (hd.pos + 1) none H.hi H.hh (by omega), hstarted⟩
  by_cases hc : ((hview i).filter fun t => t.2.2 ≠ .inactive && t.2.1 = pe + 1).length + 1 ≥ n
  · rw [if_pos hc] at hv' ⊢
    have hmem' : (h, pe + 2, HeadStatus.merging) ∈ hview i' := by
      rw [hv']; exact List.mem_map.2 ⟨_, hmem, by simp [setCore]⟩
    obtain ⟨hd', hh', hp', hs'⟩ := findHead_of_mem_hview i' hndv' h (pe + 2) .merging hmem'
    have := advanceHeadFront_one (fuel + 3) s f h i i' x cfg hd hd' s' H hact hstarted hadv hi0 F' hh' (by rw [hp']; exact hsz)
      (by rw [hst']; exact hstarted) hrange' (by rw [hp', C.hm]; rfl) (by rw [hs']; decide)
    rw [hs', if_pos rfl] at this
    exact ⟨s', i', this, F', hr', by rw [if_pos hc]; exact hv'⟩
  · rw [if_neg hc] at hv' ⊢
    have hmem' : (h, pe + 1, HeadStatus.active) ∈ hview i' := by
      rw [hv']; exact List.mem_map.2 ⟨_, hmem, by simp [setCore]⟩
    obtain ⟨hd', hh', hp', hs'⟩ := findHead_of_mem_hview i' hndv' h (pe + 1) .active hmem'
    have := advanceHeadFront_one (fuel + 3) s f h i i' x cfg hd hd' s' H hact hstarted hadv hi0 F' hh' (by rw [hp']; omega)
      (by rw [hst']; exact hstarted) hrange' (by rw [hp', C.hw]; rfl) (by rw [hs']; decide)
    rw [hs', if_neg (by decide)] at this
    exact ⟨s', i', this, F', hr', by rw [if_neg hc]; exact hv'⟩

end NemoVerif.CoreVM
