/-
  Lemmas about uid allocation (Models/V1Uid.lean):
  * the interpreter over the allocation policy `counterAlloc` IS `V1Interp` (`…U_counter`);
  * `slideWS_fresh`: what `_slide_with_subflows` / `_call_subflow` do to uids (every flow state they add carries a uid
    from the counter interval, the caller keeps its uid, a new `interrupted_by` names one of the added flow states);
  * `slideWS_map … replay_map`, `computeNextSteps_inj`: the interpreter over `injAlloc g` (uids = an injective naming `g` of the counter)
    is the image of `V1Interp` under the renaming `mapSt g`, function by function; its decisions are the same;
  * `computeNextState_uids` / `replay_uids`: `UidsOK` is an invariant of `compute_next_state` for ALL flow configs, events
    and states (advance loop, start loop, re-activation, marking, extension interrupt, resume fix-point).
-/
import NemoVerif.Models.V1Uid
import NemoVerif.Lemmas.V1Follow
import NemoVerif.Lemmas.V1Stack
namespace NemoVerif.V1UidL
open NemoVerif.V1Interp NemoVerif.V1Uid



theorem slideWithSubflowsU_counter (r : Bool) : ∀ (f : Nat) (cfgs : Cfgs) (ns : State) (fs : FS),
    slideWithSubflowsU counterAlloc r f cfgs ns fs = slideWithSubflows r f cfgs ns fs := by
  intro f
  induction f with
  | zero => intro cfgs ns fs; rfl
  | succ f ih =>
    intro cfgs ns fs
    simp only [slideWithSubflowsU, slideWithSubflows, ih] <;> rfl

theorem advanceOneU_counter (r : Bool) (cfgs : Cfgs) (ev : Event) (ns : State) (ext : Bool) (fs : FS) :
    advanceOneU counterAlloc r cfgs ev ns ext fs = advanceOne r cfgs ev ns ext fs := by
  simp only [advanceOneU, advanceOne, slideWithSubflowsU_counter] <;> rfl

theorem advanceAllU_counter (r : Bool) (cfgs : Cfgs) (ev : Event) : ∀ (l : List FS) (ns : State) (ext : Bool),
    advanceAllU counterAlloc r cfgs ev l ns ext = advanceAll r cfgs ev l ns ext := by
  intro l
  induction l with
  | nil => intro ns ext; rfl
  | cons a l ih => intro ns ext; simp only [advanceAllU, advanceAll, advanceOneU_counter, ih] <;> rfl

theorem startOneU_counter (r : Bool) (cfgs : Cfgs) (ev : Event) (ns : State) (cfg : FlowCfg) :
    startOneU counterAlloc r cfgs ev ns cfg = startOne r cfgs ev ns cfg := by
  simp only [startOneU, startOne, slideWithSubflowsU_counter] <;> rfl

theorem startNewU_counter (r : Bool) (cfgs : Cfgs) (ev : Event) : ∀ (l : List FlowCfg) (ns : State),
    startNewU counterAlloc r cfgs ev l ns = startNew r cfgs ev l ns := by
  intro l
  induction l with
  | nil => intro ns; rfl
  | cons a l ih => intro ns; simp only [startNewU, startNew, startOneU_counter, ih] <;> rfl

theorem resumePassU_counter (r : Bool) : ∀ (f : Nat) (cfgs : Cfgs) (ns : State) (i : Nat) (ch : Bool),
    resumePassU counterAlloc r f cfgs ns i ch = resumePass r f cfgs ns i ch := by
  intro f
  induction f with
  | zero => intro cfgs ns i ch; rfl
  | succ f ih => intro cfgs ns i ch; simp only [resumePassU, resumePass, slideWithSubflowsU_counter, ih] <;> rfl

theorem resumeLoopU_counter (r : Bool) : ∀ (f : Nat) (cfgs : Cfgs) (ns : State),
    resumeLoopU counterAlloc r f cfgs ns = resumeLoop r f cfgs ns := by
  intro f
  induction f with
  | zero => intro cfgs ns; rfl
  | succ f ih => intro cfgs ns; simp only [resumeLoopU, resumeLoop, resumePassU_counter, ih] <;> rfl

theorem computeNextStateU_counter (r : Bool) (cfgs : Cfgs) (st : State) (ev : Event) :
    computeNextStateU counterAlloc r cfgs st ev = computeNextState r cfgs st ev := by
  simp only [computeNextStateU, computeNextState, advanceAllU_counter, startNewU_counter, resumeLoopU_counter] <;> rfl

theorem replayU_counter (r : Bool) (cfgs : Cfgs) : ∀ (h : List Event) (st : State),
    replayU counterAlloc r cfgs h st = replay r cfgs h st := by
  intro h
  induction h with
  | nil => intro st; rfl
  | cons e h ih => intro st; simp only [replayU, replay, computeNextStateU_counter, ih] <;> rfl

theorem computeNextStepsU_counter (r : Bool) (cfgs : Cfgs) (h : List Event) (config : Ctx) :
    computeNextStepsU counterAlloc r cfgs h config = computeNextSteps r cfgs h config := by
  simp only [computeNextStepsU, computeNextSteps, replayU_counter] <;> rfl


/-- `ns'` extends `ns` by flow states with fresh uids (from the counter interval `[ns.ctr, ns'.ctr)`) -/
def Ext (ns ns' : State) : Prop :=
  ns.ctr ≤ ns'.ctr ∧ ∃ new : List FS, ns'.flows = ns.flows ++ new ∧ (new.map (·.uid)).Nodup ∧
    ∀ x ∈ new, ns.ctr ≤ x.uid ∧ x.uid < ns'.ctr

theorem Ext.same {ns ns' : State} (hf : ns'.flows = ns.flows) (hc : ns'.ctr = ns.ctr) : Ext ns ns' :=
  ⟨by omega, [], by simp [hf], by simp, by simp⟩

theorem Ext.trans {a b c : State} (h1 : Ext a b) (h2 : Ext b c) : Ext a c := by
  obtain ⟨l1, n1, e1, d1, r1⟩ := h1
  obtain ⟨l2, n2, e2, d2, r2⟩ := h2
  refine ⟨by omega, n1 ++ n2, by rw [e2, e1, List.append_assoc], ?_, ?_⟩
  · rw [List.map_append, List.nodup_append]
    refine ⟨d1, d2, ?_⟩
    intro u hu v hv huv
    obtain ⟨x, hx, rfl⟩ := List.mem_map.1 hu
    obtain ⟨y, hy, rfl⟩ := List.mem_map.1 hv
    have := r1 x hx; have := r2 y hy; omega
  · intro x hx
    rcases List.mem_append.1 hx with hx | hx
    · have := r1 x hx; omega
    · have := r2 x hx; omega

/-- the callee's own flow state (uid = the counter value taken before the call) is appended after everything the
    callee's slide created -/
theorem Ext.snoc_low {a a1 b b' : State} {x : FS} (ha : a1.flows = a.flows) (hc : a1.ctr = a.ctr + 1) (h : Ext a1 b)
    (hx : x.uid = a.ctr) (hf : b'.flows = b.flows ++ [x]) (hbc : b'.ctr = b.ctr) : Ext a b' := by
  obtain ⟨l, n, e, d, r⟩ := h
  refine ⟨by omega, n ++ [x], by rw [hf, e, ha, List.append_assoc], ?_, ?_⟩
  · rw [List.map_append, List.nodup_append]
    refine ⟨d, by simp, ?_⟩
    intro u hu v hv huv
    obtain ⟨y, hy, rfl⟩ := List.mem_map.1 hu
    simp at hv
    have := r y hy; omega
  · intro y hy
    rcases List.mem_append.1 hy with hy | hy
    · have := r y hy; omega
    · simp at hy; subst hy; omega

theorem recordNextStep_flows (ns : State) (fs : FS) (cfg : FlowCfg) (m : Bool) : (recordNextStep ns fs cfg m).flows = ns.flows := by
  exact (NemoVerif.V1Follow.record_fields ns fs cfg m).2.1

theorem recordNextStep_ctr (ns : State) (fs : FS) (cfg : FlowCfg) (m : Bool) : (recordNextStep ns fs cfg m).ctr = ns.ctr := by
  exact (NemoVerif.V1Follow.record_fields ns fs cfg m).2.2.2

/-- what `_slide_with_subflows` does to uids -/
structure Fresh (ns ns' : State) (fs fs' : FS) : Prop where
  ext : Ext ns ns'
  uid : fs'.uid = fs.uid
  by_new : ∀ u, fs'.interruptedBy = some u → fs.interruptedBy = some u ∨ (ns.ctr ≤ u ∧ u < ns'.ctr ∧ ∃ x ∈ ns'.flows, x.uid = u)

/-- the common continuation of the two `do` cases of `_slide_with_subflows` (`_call_subflow`) -/
theorem call_fresh (r : Bool) (f : Nat) (cfgs : Cfgs)
    (ih : ∀ (ns : State) (fs : FS) (ns' : State) (fs' : FS), slideWithSubflows r f cfgs ns fs = .ok (ns', fs') → Fresh ns ns' fs fs')
    (ns0 ns : State) (fs0 fs : FS) (name : String) (ns' : State) (fs' : FS)
    (hfl : ns.flows = ns0.flows) (hctr : ns.ctr = ns0.ctr) (hu : fs.uid = fs0.uid) (hb : fs.interruptedBy = fs0.interruptedBy)
    (h : (match slideWithSubflows r f cfgs { ns with ctr := ns.ctr + 1 } { uid := ns.ctr, flowId := name, head := 0 } with
          | .error e => .error e
          | .ok (ns2, sub) =>
            if sub.head < 0 then slideWithSubflows r f cfgs ns2 { fs with head := fs.head + 1 }
            else
              match cfgs.find sub.flowId with
              | Option.none => .error .key
              | some scfg =>
                if r && sub.status != .active then .ok ({ ns2 with flows := ns2.flows ++ [sub] }, { fs with head := fs.head + 1, status := .interrupted, interruptedBy := some sub.uid })
                else .ok (recordNextStep { ns2 with flows := ns2.flows ++ [sub] } sub scfg false, { fs with head := fs.head + 1, status := .interrupted, interruptedBy := some sub.uid })) = Except.ok (ns', fs')) :
    Fresh ns0 ns' fs0 fs' := by
  split at h
  · exact absurd h (by simp)
  · rename_i ns2 sub h1
    have i1 := ih _ _ _ _ h1
    have hsub : sub.uid = ns0.ctr := by rw [i1.uid, hctr]
    have hlt : ns0.ctr < ns2.ctr := by have := i1.ext.1; simp at this; omega
    split at h
    · have i2 := ih _ _ _ _ h
      have e01 : Ext ns0 { ns with ctr := ns.ctr + 1 } := ⟨by show ns0.ctr ≤ ns.ctr + 1; omega, [], by simp [hfl], by simp, by simp⟩
      have e02 : Ext ns0 ns2 := e01.trans i1.ext
      refine ⟨e02.trans i2.ext, by rw [i2.uid, hu], ?_⟩
      intro u hu'
      rcases i2.by_new u hu' with h' | h'
      · left; rw [← hb]; exact h'
      · right; have := e02.1; exact ⟨by omega, h'.2.1, h'.2.2⟩
    · have key : ∀ ns3 : State, ns3.flows = ns2.flows ++ [sub] → ns3.ctr = ns2.ctr →
          Fresh ns0 ns3 fs0 { fs with head := fs.head + 1, status := .interrupted, interruptedBy := some sub.uid } := by
        intro ns3 h3f h3c
        refine ⟨Ext.snoc_low (a1 := { ns with ctr := ns.ctr + 1 }) (by simp [hfl]) (by simp [hctr]) i1.ext hsub h3f h3c, by simp [hu], ?_⟩
        intro u hu'
        simp at hu'
        right
        refine ⟨by omega, by omega, sub, ?_, hu'⟩
        rw [h3f]; simp
      split at h
      · exact absurd h (by simp)
      · split at h
        · injection h with h; injection h with ha hb'; subst ha; subst hb'
          exact key _ rfl rfl
        · injection h with h; injection h with ha hb'; subst ha; subst hb'
          exact key _ (by rw [recordNextStep_flows]) (by rw [recordNextStep_ctr])

theorem slideWS_fresh (r : Bool) : ∀ (f : Nat) (cfgs : Cfgs) (ns : State) (fs : FS) (ns' : State) (fs' : FS),
    slideWithSubflows r f cfgs ns fs = .ok (ns', fs') → Fresh ns ns' fs fs' := by
  intro f
  induction f with
  | zero => intro cfgs ns fs ns' fs' h; simp [slideWithSubflows] at h
  | succ f ih =>
    intro cfgs ns fs ns' fs' h
    simp only [slideWithSubflows] at h
    split at h
    · exact absurd h (by simp)
    · rename_i cfg hcfg
      split at h
      · exact absurd h (by simp)
      · exact absurd h (by simp)
      · injection h with h; injection h with ha hb; subst ha; subst hb
        exact ⟨Ext.same rfl rfl, rfl, fun u hu => .inl hu⟩
      · rename_i st hd hsl
        split at h
        · exact call_fresh r f cfgs (ih cfgs) ns { ns with ctx := st.ctx, upd := st.upd } fs { fs with head := hd } _ ns' fs' rfl rfl rfl rfl h
        · split at h
          · exact call_fresh r f cfgs (ih cfgs) ns { ns with ctx := st.ctx, upd := st.upd } fs { fs with head := hd } _ ns' fs' rfl rfl rfl rfl h
          · exact absurd h (by simp)
        · injection h with h; injection h with ha hb; subst ha; subst hb
          exact ⟨Ext.same (by rw [recordNextStep_flows]) (by rw [recordNextStep_ctr]), rfl, fun u hu => .inl hu⟩

/-! ### `UidsOK` is an invariant of `compute_next_state` -/

/-- uids pairwise distinct and below the counter, on a plain list of uids -/
def U (us : List Nat) (c : Nat) : Prop := us.Nodup ∧ ∀ u ∈ us, u < c

def uidsOf (l : List FS) : List Nat := l.map (·.uid)

/-- the invariant while the advance loop runs: flow states already copied to the new state + those still to process -/
def UidsR (ns : State) (rest : List FS) : Prop := U (uidsOf (ns.flows ++ rest)) ns.ctr

theorem uidsOK_iff (st : State) : UidsOK st ↔ UidsR st [] := by
  simp only [UidsOK, UidsR, U, uidsOf, List.append_nil, List.mem_map]
  constructor
  · rintro ⟨h1, h2⟩; exact ⟨h1, by rintro u ⟨x, hx, rfl⟩; exact h2 x hx⟩
  · rintro ⟨h1, h2⟩; exact ⟨h1, fun x hx => h2 _ ⟨x, hx, rfl⟩⟩

theorem uidsR_ext {ns ns' : State} {rest : List FS} (h : UidsR ns rest) (e : Ext ns ns') : UidsR ns' rest := by
  obtain ⟨hc, new, hf, hd, hr⟩ := e
  obtain ⟨h1, h2⟩ := h
  simp only [UidsR, U, uidsOf, hf, List.map_append] at *
  have hold : ∀ u, u ∈ List.map (·.uid) ns.flows ∨ u ∈ List.map (·.uid) rest → u < ns.ctr := by
    intro u hu; exact h2 u (by simpa using hu)
  have hnew : ∀ u ∈ List.map (·.uid) new, ns.ctr ≤ u ∧ u < ns'.ctr := by
    intro u hu; obtain ⟨x, hx, rfl⟩ := List.mem_map.1 hu; exact hr x hx
  rw [List.nodup_append] at h1
  obtain ⟨da, db, dab⟩ := h1
  refine ⟨?_, ?_⟩
  · rw [List.nodup_append, List.nodup_append]
    refine ⟨⟨da, hd, ?_⟩, db, ?_⟩
    · intro a ha b hb hab; have := hold a (.inl ha); have := hnew b hb; omega
    · intro a ha b hb hab
      rcases List.mem_append.1 ha with ha | ha
      · exact dab a ha b hb hab
      · have := hold b (.inr hb); have := hnew a ha; omega
  · intro u hu
    simp only [List.mem_append] at hu
    rcases hu with (hu | hu) | hu
    · have := hold u (.inl hu); omega
    · exact (hnew u hu).2
    · have := hold u (.inr hu); omega

/-- the flow state being processed is moved (possibly modified, same uid) from `rest` to the new state -/
theorem uidsR_move {ns ns' : State} {fs fs' : FS} {rest : List FS} (h : UidsR ns (fs :: rest))
    (hu : fs'.uid = fs.uid) (hf : ns'.flows = ns.flows ++ [fs']) (hc : ns'.ctr = ns.ctr) : UidsR ns' rest := by
  simp only [UidsR, uidsOf, hf, hc] at *
  simpa [hu] using h

theorem uidsR_drop {ns : State} {fs : FS} {rest : List FS} (h : UidsR ns (fs :: rest)) : UidsR ns rest := by
  obtain ⟨h1, h2⟩ := h
  simp only [UidsR, U, uidsOf, List.map_append, List.map_cons] at *
  rw [List.nodup_append] at h1 ⊢
  obtain ⟨da, db, dab⟩ := h1
  refine ⟨⟨da, (List.nodup_cons.1 db).2, fun a ha b hb => dab a ha b (List.mem_cons_of_mem _ hb)⟩, ?_⟩
  intro u hu
  apply h2
  simp only [List.mem_append, List.mem_cons] at hu ⊢
  rcases hu with hu | hu
  · exact .inl hu
  · exact .inr (.inr hu)

theorem uidsR_congr {ns ns' : State} {rest : List FS} (h : UidsR ns rest) (hf : ns'.flows = ns.flows) (hc : ns'.ctr = ns.ctr) :
    UidsR ns' rest := by
  simp only [UidsR, hf, hc] at *; exact h

theorem advanceOne_uids (r : Bool) (cfgs : Cfgs) (ev : Event) (ns : State) (ext : Bool) (fs : FS) (rest : List FS)
    (ns' : State) (ext' : Bool) (h : advanceOne r cfgs ev ns ext fs = .ok (ns', ext')) (hU : UidsR ns (fs :: rest)) :
    UidsR ns' rest := by
  simp only [advanceOne] at h
  split at h
  · exact absurd h (by simp)
  · rename_i cfg hcfg
    split at h
    · injection h with h; injection h with ha hb; subst ha
      exact uidsR_drop hU
    · split at h
      · injection h with h; injection h with ha hb; subst ha
        exact uidsR_move hU rfl rfl rfl
      · split at h
        · exact absurd h (by simp)
        · split at h
          · injection h with h; injection h with ha hb; subst ha
            exact uidsR_move hU (fs' := fs) rfl (by rw [recordNextStep_flows]) (by rw [recordNextStep_ctr])
          · split at h
            · split at h
              · exact absurd h (by simp)
              · rename_i ns2 fs2 hs
                have fr := slideWS_fresh r _ _ _ _ _ _ hs
                have hU2 : UidsR ns2 (fs :: rest) := uidsR_ext hU fr.ext
                split at h
                · injection h with h; injection h with ha hb; subst ha
                  exact uidsR_move hU2 (by simp [fr.uid]) rfl rfl
                · injection h with h; injection h with ha hb; subst ha
                  exact uidsR_move hU2 (by simp [fr.uid]) rfl rfl
            · split at h
              · injection h with h; injection h with ha hb; subst ha
                refine uidsR_move hU ?_ rfl rfl; rfl
              · injection h with h; injection h with ha hb; subst ha
                refine uidsR_move hU ?_ rfl rfl; rfl

theorem advanceAll_uids (r : Bool) (cfgs : Cfgs) (ev : Event) : ∀ (l : List FS) (ns : State) (ext : Bool) (ns' : State) (ext' : Bool),
    advanceAll r cfgs ev l ns ext = .ok (ns', ext') → UidsR ns l → UidsR ns' [] := by
  intro l
  induction l with
  | nil => intro ns ext ns' ext' h hU; simp [advanceAll] at h; rw [← h.1]; exact hU
  | cons a l ih =>
    intro ns ext ns' ext' h hU
    simp only [advanceAll] at h
    split at h
    · exact absurd h (by simp)
    · rename_i ns1 ext1 h1
      exact ih _ _ _ _ h (advanceOne_uids r cfgs ev ns ext a l ns1 ext1 h1 hU)

theorem set_self : ∀ (l : List Nat) (i : Nat) (a : Nat), l[i]? = some a → l.set i a = l := by
  intro l
  induction l with
  | nil => intro i a h; simp
  | cons b l ih =>
    intro i a h
    cases i with
    | zero => simp at h; simp [h]
    | succ i => simp at h; simp [ih i a h]

theorem uidsR_set {ns : State} {i : Nat} {x : FS} (h : UidsR ns []) (hi : (uidsOf ns.flows)[i]? = some x.uid)
    (ns' : State) (hf : ns'.flows = setAt ns.flows i x) (hc : ns'.ctr = ns.ctr) : UidsR ns' [] := by
  simp only [UidsR, uidsOf, hf, hc, List.append_nil, setAt] at *
  rw [List.map_set, set_self _ _ _ hi]; exact h

/-- a change of the flow states that keeps the list of uids (status / `interrupted_by` updates) -/
theorem uidsR_same_uids {ns ns' : State} (h : UidsR ns []) (hf : uidsOf ns'.flows = uidsOf ns.flows) (hc : ns'.ctr = ns.ctr) : UidsR ns' [] := by
  simp only [UidsR, List.append_nil, hf, hc] at *; exact h

theorem uidsR_push {ns ns1 : State} {x : FS} (h : UidsR ns []) (hf : ns1.flows = ns.flows ++ [x]) (hc : ns1.ctr = ns.ctr + 1)
    (hx : x.uid = ns.ctr) : UidsR ns1 [] :=
  uidsR_ext h ⟨by omega, [x], hf, by simp, by intro y hy; simp at hy; subst hy; omega⟩

theorem startOne_uids (r : Bool) (cfgs : Cfgs) (ev : Event) (ns : State) (cfg : FlowCfg) (ns' : State)
    (h : startOne r cfgs ev ns cfg = .ok ns') (hU : UidsR ns []) : UidsR ns' [] := by
  simp only [startOne] at h
  split at h
  · injection h with h; subst h; exact hU
  · split at h
    · injection h with h; subst h; exact hU
    · split at h
      · exact absurd h (by simp)
      · exact absurd h (by simp)
      · rename_i rr hne1 hne2
        split at h
        · exact absurd h (by simp)
        · rename_i el hel
          split at h
          · split at h
            · exact absurd h (by simp)
            · rename_i ns2 fs2 hs
              have fr := slideWS_fresh r _ _ _ _ _ _ hs
              injection h with h; subst h
              have hU2 := uidsR_ext (uidsR_push hU rfl rfl rfl) fr.ext
              obtain ⟨_, new, hfl, _, _⟩ := fr.ext
              refine uidsR_set hU2 (i := ns.flows.length) ?_ _ rfl rfl
              have : (if (r && decide (fs2.head < 0)) = true then { fs2 with status := Status.completed } else fs2).uid = ns.ctr := by
                split <;> simp [fr.uid]
              rw [this, hfl]; simp [uidsOf]
          · injection h with h; subst h
            exact uidsR_congr hU rfl rfl

theorem startNew_uids (r : Bool) (cfgs : Cfgs) (ev : Event) : ∀ (l : List FlowCfg) (ns ns' : State),
    startNew r cfgs ev l ns = .ok ns' → UidsR ns [] → UidsR ns' [] := by
  intro l
  induction l with
  | nil => intro ns ns' h hU; simp [startNew] at h; subst h; exact hU
  | cons c l ih =>
    intro ns ns' h hU
    simp only [startNew] at h
    split at h
    · exact absurd h (by simp)
    · rename_i ns1 h1
      exact ih _ _ h (startOne_uids r cfgs ev ns c ns1 h1 hU)

theorem reactivate_uids (cfgs : Cfgs) : ∀ (l acc : List FS) (ns : State),
    uidsOf (reactivateAborted cfgs l acc ns).flows = uidsOf (acc ++ l) ∧ (reactivateAborted cfgs l acc ns).ctr = ns.ctr := by
  intro l
  induction l with
  | nil => intro acc ns; simp [reactivateAborted]
  | cons a l ih =>
    intro acc ns
    simp only [reactivateAborted]
    split
    · refine ⟨(ih _ _).1.trans (by simp [uidsOf]), (ih _ _).2.trans ?_⟩
      split
      · rw [recordNextStep_ctr]
      · rfl
    · have := ih (acc ++ [a]) ns
      exact ⟨by rw [this.1]; simp [uidsOf], this.2⟩

theorem markInterrupted_uids (ns : State) : uidsOf (markInterrupted ns).flows = uidsOf ns.flows ∧ (markInterrupted ns).ctr = ns.ctr := by
  refine ⟨?_, rfl⟩
  simp only [markInterrupted, uidsOf, List.map_map]
  apply List.map_congr_left
  intro x _
  simp only [Function.comp]
  split <;> rfl

theorem extensionInterrupt_uids (cfgs : Cfgs) (ns : State) :
    uidsOf (extensionInterrupt cfgs ns).flows = uidsOf ns.flows ∧ (extensionInterrupt cfgs ns).ctr = ns.ctr := by
  simp only [extensionInterrupt]
  split
  · exact ⟨rfl, rfl⟩
  · split
    · exact ⟨rfl, rfl⟩
    · split
      · exact ⟨rfl, rfl⟩
      · split
        · refine ⟨?_, rfl⟩
          simp only [uidsOf, List.map_map]
          apply List.map_congr_left
          intro x _
          simp only [Function.comp]
          split <;> rfl
        · exact ⟨rfl, rfl⟩

theorem uid_completed_if (fs : FS) (g : FS) (hg : g.uid = fs.uid) :
    (if g.head < 0 then { g with status := Status.completed } else g).uid = fs.uid := by
  split <;> simp [hg]

theorem resumePass_uids (r : Bool) : ∀ (f : Nat) (cfgs : Cfgs) (ns : State) (i : Nat) (ch : Bool) (ns' : State) (ch' : Bool),
    resumePass r f cfgs ns i ch = .ok (ns', ch') → UidsR ns [] → UidsR ns' [] := by
  intro f
  induction f with
  | zero => intro cfgs ns i ch ns' ch' h; simp [resumePass] at h
  | succ f ih =>
    intro cfgs ns i ch ns' ch' h hU
    simp only [resumePass] at h
    cases hi : ns.flows[i]? with
    | none => simp only [hi] at h; injection h with h; injection h with ha hb; subst ha; exact hU
    | some fs =>
      simp only [hi] at h
      have hiu : (uidsOf ns.flows)[i]? = some fs.uid := by simp [uidsOf, hi]
      have hlt : i < ns.flows.length := (List.getElem?_eq_some_iff.1 hi).1
      repeat' (split at h)
      all_goals first
        | exact absurd h (by simp)
        | exact ih _ _ _ _ _ _ h hU
        | exact ih _ _ _ _ _ _ h (uidsR_set hU (i := i) (by simpa using hiu) _ rfl rfl)
        | (have fr := slideWS_fresh r _ _ _ _ _ _ (by assumption)
           have hU2 := uidsR_ext hU fr.ext
           obtain ⟨_, new, hfl, _, _⟩ := fr.ext
           refine ih _ _ _ _ _ _ h (uidsR_set hU2 (i := i) ?_ _ rfl rfl)
           rw [hfl]
           have e : (uidsOf (ns.flows ++ new))[i]? = some fs.uid := by
             simp only [uidsOf, List.map_append]
             rw [List.getElem?_append_left (by simpa using hlt)]
             simpa [uidsOf] using hiu
           exact e.trans (congrArg some fr.uid.symm))

theorem resumeLoop_uids (r : Bool) : ∀ (f : Nat) (cfgs : Cfgs) (ns ns' : State),
    resumeLoop r f cfgs ns = .ok ns' → UidsR ns [] → UidsR ns' [] := by
  intro f
  induction f with
  | zero => intro cfgs ns ns' h; simp [resumeLoop] at h
  | succ f ih =>
    intro cfgs ns ns' h hU
    simp only [resumeLoop] at h
    split at h
    · exact absurd h (by simp)
    · rename_i ns1 ch h1
      have hU1 := resumePass_uids r _ _ _ _ _ _ _ h1 hU
      split at h
      · exact ih _ _ _ h hU1
      · injection h with h; subst h; exact hU1

/-- **`UidsOK` is an invariant of `compute_next_state`**, for all flow configs, events and states -/
theorem computeNextState_uids (r : Bool) (cfgs : Cfgs) (st : State) (ev : Event) (st' : State)
    (h : computeNextState r cfgs st ev = .ok st') (hU : UidsOK st) : UidsOK st' := by
  rw [uidsOK_iff] at hU ⊢
  have main : ∀ (ns0 : State), ns0.flows = [] → ns0.ctr = st.ctr →
      (match advanceAll r cfgs ev st.flows ns0 false with
        | .error e => .error e
        | .ok (ns, ext) =>
          match startNew r cfgs ev cfgs ns with
          | .error e => .error e
          | .ok ns =>
            resumeLoop r 100 cfgs (extensionInterrupt cfgs (markInterrupted (if ext then reactivateAborted cfgs ns.flows [] ns else ns)))) = Except.ok st' →
      UidsR st' [] := by
    intro ns0 hf hc h
    have hU0 : UidsR ns0 st.flows := by simpa [UidsR, hf, hc] using hU
    split at h
    · exact absurd h (by simp)
    · rename_i ns1 ext h1
      have hU1 := advanceAll_uids r cfgs ev _ _ _ _ _ h1 hU0
      split at h
      · exact absurd h (by simp)
      · rename_i ns2 h2
        have hU2 := startNew_uids r cfgs ev _ _ _ h2 hU1
        refine resumeLoop_uids r _ _ _ _ h ?_
        have e1 := extensionInterrupt_uids cfgs (markInterrupted (if ext then reactivateAborted cfgs ns2.flows [] ns2 else ns2))
        have e2 := markInterrupted_uids (if ext then reactivateAborted cfgs ns2.flows [] ns2 else ns2)
        have e3 : uidsOf (if ext then reactivateAborted cfgs ns2.flows [] ns2 else ns2).flows = uidsOf ns2.flows ∧
            (if ext then reactivateAborted cfgs ns2.flows [] ns2 else ns2).ctr = ns2.ctr := by
          split
          · have := reactivate_uids cfgs ns2.flows [] ns2; simpa using this
          · exact ⟨rfl, rfl⟩
        exact uidsR_same_uids hU2 (by rw [e1.1, e2.1, e3.1]) (by rw [e1.2, e2.2, e3.2])
  cases ev with
  | startAction => simp [computeNextState] at h; subst h; exact hU
  | contextUpdate d => simp [computeNextState] at h; subst h; exact uidsR_congr hU rfl rfl
  | _ => simp only [computeNextState] at h; exact main _ (by rfl) (by rfl) h

theorem replay_uids (r : Bool) (cfgs : Cfgs) : ∀ (h : List Event) (st st' : State),
    replay r cfgs h st = .ok st' → UidsOK st → UidsOK st' := by
  intro h
  induction h with
  | nil => intro st st' e hU; simp [replay] at e; subst e; exact hU
  | cons ev h ih =>
    intro st st' e hU
    simp only [replay] at e
    split at e
    · exact absurd e (by simp)
    · rename_i st1 h1
      have hU1 := computeNextState_uids r cfgs st ev st1 h1 hU
      refine ih _ _ e ?_
      split
      · exact ⟨by simp, by simp⟩
      · exact hU1

/-! ### the NAMES of the uids do not matter: renaming by an injective `g` commutes with every function of the interpreter -/

def mapRes (g : Nat → Nat) : Except Err (State × FS) → Except Err (State × FS)
  | .ok (ns, fs) => .ok (mapSt g ns, mapFS g fs)
  | .error e => .error e

theorem recordNextStep_map (g : Nat → Nat) (ns : State) (fs : FS) (cfg : FlowCfg) (m : Bool) :
    recordNextStep (mapSt g ns) (mapFS g fs) cfg m = mapSt g (recordNextStep ns fs cfg m) := by
  obtain ⟨ctx, flows, next, upd, ctr⟩ := ns
  cases next <;> cases hp : pyIndex cfg.elems fs.head <;> simp [recordNextStep, mapSt, mapFS, mapNext, hp]
  all_goals (split <;> simp [mapNext])

theorem mapSt_snoc (g : Nat → Nat) (ns : State) (x : FS) :
    ({ mapSt g ns with flows := (mapSt g ns).flows ++ [mapFS g x] } : State) = mapSt g { ns with flows := ns.flows ++ [x] } := by
  simp [mapSt]

/-- the common continuation of the two `do` cases, under renaming -/
theorem call_map (g : Nat → Nat) (r : Bool) (f : Nat) (cfgs : Cfgs)
    (ih : ∀ (ns : State) (fs : FS), slideWithSubflowsU (injAlloc g) r f cfgs (mapSt g ns) (mapFS g fs) = mapRes g (slideWithSubflows r f cfgs ns fs))
    (ns : State) (fs : FS) (name : String) :
    (match slideWithSubflowsU (injAlloc g) r f cfgs { mapSt g ns with ctr := (mapSt g ns).ctr + 1 } { uid := g (mapSt g ns).ctr, flowId := name, head := 0 } with
      | .error e => .error e
      | .ok (ns2, sub) =>
        if sub.head < 0 then slideWithSubflowsU (injAlloc g) r f cfgs ns2 { mapFS g fs with head := (mapFS g fs).head + 1 }
        else
          match cfgs.find sub.flowId with
          | Option.none => .error .key
          | some scfg =>
            if r && sub.status != .active then .ok ({ ns2 with flows := ns2.flows ++ [sub] }, { mapFS g fs with head := (mapFS g fs).head + 1, status := .interrupted, interruptedBy := some sub.uid })
            else .ok (recordNextStep { ns2 with flows := ns2.flows ++ [sub] } sub scfg false, { mapFS g fs with head := (mapFS g fs).head + 1, status := .interrupted, interruptedBy := some sub.uid }))
    = mapRes g (match slideWithSubflows r f cfgs { ns with ctr := ns.ctr + 1 } { uid := ns.ctr, flowId := name, head := 0 } with
      | .error e => .error e
      | .ok (ns2, sub) =>
        if sub.head < 0 then slideWithSubflows r f cfgs ns2 { fs with head := fs.head + 1 }
        else
          match cfgs.find sub.flowId with
          | Option.none => .error .key
          | some scfg =>
            if r && sub.status != .active then .ok ({ ns2 with flows := ns2.flows ++ [sub] }, { fs with head := fs.head + 1, status := .interrupted, interruptedBy := some sub.uid })
            else .ok (recordNextStep { ns2 with flows := ns2.flows ++ [sub] } sub scfg false, { fs with head := fs.head + 1, status := .interrupted, interruptedBy := some sub.uid })) := by
  have e1 : ({ mapSt g ns with ctr := (mapSt g ns).ctr + 1 } : State) = mapSt g { ns with ctr := ns.ctr + 1 } := rfl
  have e2 : ({ uid := g (mapSt g ns).ctr, flowId := name, head := 0 } : FS) = mapFS g { uid := ns.ctr, flowId := name, head := 0 } := rfl
  rw [e1, e2, ih]
  cases h : slideWithSubflows r f cfgs { ns with ctr := ns.ctr + 1 } { uid := ns.ctr, flowId := name, head := 0 } with
  | error e => rfl
  | ok p =>
    obtain ⟨ns2, sub⟩ := p
    simp only [mapRes]
    have hh : (mapFS g sub).head = sub.head := rfl
    have hf : (mapFS g sub).flowId = sub.flowId := rfl
    have hs : (mapFS g sub).status = sub.status := rfl
    have hu : (mapFS g sub).uid = g sub.uid := rfl
    rw [hh, hf, hs, hu]
    by_cases hneg : sub.head < 0
    · simp only [hneg, if_true]
      exact ih ns2 { fs with head := fs.head + 1 }
    · simp only [hneg, if_false]
      cases cfgs.find sub.flowId with
      | none => rfl
      | some scfg =>
        simp only []
        by_cases hc : (r && sub.status != .active) = true
        · simp only [hc, if_true, mapSt_snoc]; rfl
        · simp only [hc, mapSt_snoc, recordNextStep_map]; rfl

theorem slideWS_map (g : Nat → Nat) (r : Bool) : ∀ (f : Nat) (cfgs : Cfgs) (ns : State) (fs : FS),
    slideWithSubflowsU (injAlloc g) r f cfgs (mapSt g ns) (mapFS g fs) = mapRes g (slideWithSubflows r f cfgs ns fs) := by
  intro f
  induction f with
  | zero => intro cfgs ns fs; rfl
  | succ f ih =>
    intro cfgs ns fs
    simp only [slideWithSubflowsU, slideWithSubflows]
    have hfid : (mapFS g fs).flowId = fs.flowId := rfl
    have hhead : (mapFS g fs).head = fs.head := rfl
    have hctx : (mapSt g ns).ctx = ns.ctx := rfl
    have hupd : (mapSt g ns).upd = ns.upd := rfl
    rw [hfid, hhead, hctx, hupd]
    cases cfgs.find fs.flowId with
    | none => rfl
    | some cfg =>
      simp only []
      cases slide SLIDE_FUEL cfg.elems ⟨ns.ctx, ns.upd⟩ fs.head (initPrev cfg.elems fs.head) with
      | oof => rfl
      | err => rfl
      | fin st h => rfl
      | «at» st h =>
        simp only []
        cases hel : cfg.elems[h.toNat]? with
        | none => simp only [mapRes]; rw [← recordNextStep_map]; rfl
        | some el =>
          cases el with
          | flow name =>
            exact call_map g r f cfgs (ih cfgs) { ns with ctx := st.ctx, upd := st.upd } { fs with head := h } name
          | flowE e =>
            simp only []
            have : (mapSt g { ns with ctx := st.ctx, upd := st.upd }).ctx = st.ctx := rfl
            cases hev : eval st.ctx e with
            | none => simp [mapRes]
            | some v =>
              cases v with
              | str name =>
                simp only [mapSt]
                exact call_map g r f cfgs (ih cfgs) { ns with ctx := st.ctx, upd := st.upd } { fs with head := h } name
              | _ => simp [mapRes]
          | _ => simp only [mapRes]; rw [← recordNextStep_map]; rfl

def mapResB (g : Nat → Nat) : Except Err (State × Bool) → Except Err (State × Bool)
  | .ok (ns, b) => .ok (mapSt g ns, b)
  | .error e => .error e

def mapResS (g : Nat → Nat) : Except Err State → Except Err State
  | .ok ns => .ok (mapSt g ns)
  | .error e => .error e

theorem advanceOne_map (g : Nat → Nat) (r : Bool) (cfgs : Cfgs) (ev : Event) (ns : State) (ext : Bool) (fs : FS) :
    advanceOneU (injAlloc g) r cfgs ev (mapSt g ns) ext (mapFS g fs) = mapResB g (advanceOne r cfgs ev ns ext fs) := by
  simp only [advanceOneU, advanceOne]
  have hfid : (mapFS g fs).flowId = fs.flowId := rfl
  have hhead : (mapFS g fs).head = fs.head := rfl
  have hst : (mapFS g fs).status = fs.status := rfl
  rw [hfid, hhead, hst]
  cases cfgs.find fs.flowId with
  | none => rfl
  | some cfg =>
    simp only []
    split
    · rfl
    · split
      · simp only [mapResB, mapSt_snoc]
      · cases pyIndex cfg.elems fs.head with
        | none => rfl
        | some headEl =>
          simp only []
          split
          · simp only [mapResB, mapSt_snoc, recordNextStep_map]
          · split
            · have := slideWS_map g r SUB_FUEL cfgs ns { fs with head := fs.head + 1 }
              have e : ({ uid := (mapFS g fs).uid, flowId := fs.flowId, head := fs.head + 1, status := fs.status, interruptedBy := (mapFS g fs).interruptedBy } : FS) = mapFS g { fs with head := fs.head + 1 } := rfl
              rw [e, this]
              cases slideWithSubflows r SUB_FUEL cfgs ns { fs with head := fs.head + 1 } with
              | error e => rfl
              | ok p =>
                obtain ⟨ns2, fs2⟩ := p
                simp only [mapRes]
                have hh : (mapFS g fs2).head = fs2.head := rfl
                rw [hh]
                split
                · simp only [mapResB]; rw [← mapSt_snoc]; rfl
                · simp only [mapResB, mapSt_snoc]
            · split
              · simp only [mapResB]; rw [← mapSt_snoc]; rfl
              · simp only [mapResB]; rw [← mapSt_snoc]; rfl

theorem advanceAll_map (g : Nat → Nat) (r : Bool) (cfgs : Cfgs) (ev : Event) : ∀ (l : List FS) (ns : State) (ext : Bool),
    advanceAllU (injAlloc g) r cfgs ev (l.map (mapFS g)) (mapSt g ns) ext = mapResB g (advanceAll r cfgs ev l ns ext) := by
  intro l
  induction l with
  | nil => intro ns ext; rfl
  | cons a l ih =>
    intro ns ext
    simp only [List.map_cons, advanceAllU, advanceAll, advanceOne_map]
    cases advanceOne r cfgs ev ns ext a with
    | error e => rfl
    | ok p => obtain ⟨ns1, e1⟩ := p; simp only [mapResB]; exact ih ns1 e1

theorem mapSt_setAt (g : Nat → Nat) (ns : State) (i : Nat) (x : FS) :
    ({ mapSt g ns with flows := setAt (mapSt g ns).flows i (mapFS g x) } : State) = mapSt g { ns with flows := setAt ns.flows i x } := by
  simp [mapSt, setAt, List.map_set]

theorem startOne_map (g : Nat → Nat) (r : Bool) (cfgs : Cfgs) (ev : Event) (ns : State) (cfg : FlowCfg) :
    startOneU (injAlloc g) r cfgs ev (mapSt g ns) cfg = mapResS g (startOne r cfgs ev ns cfg) := by
  simp only [startOneU, startOne]
  have hfl : ((mapSt g ns).flows.map (·.flowId)) = ns.flows.map (·.flowId) := by
    simp [mapSt, mapFS, Function.comp_def]
  have hctx : (mapSt g ns).ctx = ns.ctx := rfl
  have hupd : (mapSt g ns).upd = ns.upd := rfl
  have hlen : (mapSt g ns).flows.length = ns.flows.length := by simp [mapSt]
  have hctr : (mapSt g ns).ctr = ns.ctr := rfl
  rw [hfl, hctx, hupd, hlen, hctr]
  split
  · rfl
  · split
    · rfl
    · cases hsl : slide SLIDE_FUEL cfg.elems ⟨ns.ctx, ns.upd⟩ 0 (initPrev cfg.elems 0) with
      | oof => rfl
      | err => rfl
      | fin st h =>
        simp only []
        cases pyIndex cfg.elems h with
        | none => rfl
        | some el =>
          simp only []
          split
          · have key := slideWS_map g r SUB_FUEL cfgs { ns with ctx := st.ctx, upd := st.upd, ctr := ns.ctr + 1, flows := ns.flows ++ [{ uid := ns.ctr, flowId := cfg.id, head := h + 1 }] } { uid := ns.ctr, flowId := cfg.id, head := h + 1 }
            have e1 : mapSt g { ns with ctx := st.ctx, upd := st.upd, ctr := ns.ctr + 1, flows := ns.flows ++ [{ uid := ns.ctr, flowId := cfg.id, head := h + 1 }] }
                = { ctx := st.ctx, flows := (mapSt g ns).flows ++ [{ uid := (injAlloc g).flow ns.ctr, flowId := cfg.id, head := h + 1 }], next := (mapSt g ns).next, upd := st.upd, ctr := ns.ctr + 1 } := by
              simp [mapSt, mapFS, injAlloc]
            have e2 : mapFS g { uid := ns.ctr, flowId := cfg.id, head := h + 1 } = { uid := (injAlloc g).flow ns.ctr, flowId := cfg.id, head := h + 1 } := rfl
            rw [e1, e2] at key
            rw [key]
            cases slideWithSubflows r SUB_FUEL cfgs { ns with ctx := st.ctx, upd := st.upd, ctr := ns.ctr + 1, flows := ns.flows ++ [{ uid := ns.ctr, flowId := cfg.id, head := h + 1 }] } { uid := ns.ctr, flowId := cfg.id, head := h + 1 } with
            | error e => rfl
            | ok p =>
              obtain ⟨ns2, fs2⟩ := p
              simp only [mapRes, mapResS]
              rw [← mapSt_setAt]
              congr 2
              have hh : (mapFS g fs2).head = fs2.head := rfl
              rw [hh]
              split <;> rfl
          · rfl
      | «at» st h =>
        simp only []
        cases pyIndex cfg.elems h with
        | none => rfl
        | some el =>
          simp only []
          split
          · have key := slideWS_map g r SUB_FUEL cfgs { ns with ctx := st.ctx, upd := st.upd, ctr := ns.ctr + 1, flows := ns.flows ++ [{ uid := ns.ctr, flowId := cfg.id, head := h + 1 }] } { uid := ns.ctr, flowId := cfg.id, head := h + 1 }
            have e1 : mapSt g { ns with ctx := st.ctx, upd := st.upd, ctr := ns.ctr + 1, flows := ns.flows ++ [{ uid := ns.ctr, flowId := cfg.id, head := h + 1 }] }
                = { ctx := st.ctx, flows := (mapSt g ns).flows ++ [{ uid := (injAlloc g).flow ns.ctr, flowId := cfg.id, head := h + 1 }], next := (mapSt g ns).next, upd := st.upd, ctr := ns.ctr + 1 } := by
              simp [mapSt, mapFS, injAlloc]
            have e2 : mapFS g { uid := ns.ctr, flowId := cfg.id, head := h + 1 } = { uid := (injAlloc g).flow ns.ctr, flowId := cfg.id, head := h + 1 } := rfl
            rw [e1, e2] at key
            rw [key]
            cases slideWithSubflows r SUB_FUEL cfgs { ns with ctx := st.ctx, upd := st.upd, ctr := ns.ctr + 1, flows := ns.flows ++ [{ uid := ns.ctr, flowId := cfg.id, head := h + 1 }] } { uid := ns.ctr, flowId := cfg.id, head := h + 1 } with
            | error e => rfl
            | ok p =>
              obtain ⟨ns2, fs2⟩ := p
              simp only [mapRes, mapResS]
              rw [← mapSt_setAt]
              congr 2
              have hh : (mapFS g fs2).head = fs2.head := rfl
              rw [hh]
              split <;> rfl
          · rfl

theorem startNew_map (g : Nat → Nat) (r : Bool) (cfgs : Cfgs) (ev : Event) : ∀ (l : List FlowCfg) (ns : State),
    startNewU (injAlloc g) r cfgs ev l (mapSt g ns) = mapResS g (startNew r cfgs ev l ns) := by
  intro l
  induction l with
  | nil => intro ns; rfl
  | cons c l ih =>
    intro ns
    simp only [startNewU, startNew, startOne_map]
    cases startOne r cfgs ev ns c with
    | error e => rfl
    | ok ns1 => simp only [mapResS]; exact ih ns1

theorem reactivate_map (g : Nat → Nat) (cfgs : Cfgs) : ∀ (l acc : List FS) (ns : State),
    reactivateAborted cfgs (l.map (mapFS g)) (acc.map (mapFS g)) (mapSt g ns) = mapSt g (reactivateAborted cfgs l acc ns) := by
  intro l
  induction l with
  | nil => intro acc ns; simp [reactivateAborted, mapSt]
  | cons a l ih =>
    intro acc ns
    simp only [List.map_cons, reactivateAborted]
    have hs : (mapFS g a).status = a.status := rfl
    have hf : (mapFS g a).flowId = a.flowId := rfl
    rw [hs]
    split
    · have e : ({ mapFS g a with status := Status.active } : FS) = mapFS g { a with status := .active } := rfl
      rw [e]
      have e2 : acc.map (mapFS g) ++ [mapFS g { a with status := .active }] = (acc ++ [{ a with status := .active }]).map (mapFS g) := by simp
      rw [e2]
      rw [hf]
      cases cfgs.find a.flowId with
      | none => exact ih _ _
      | some cfg => simp only []; rw [recordNextStep_map]; exact ih _ _
    · have e2 : acc.map (mapFS g) ++ [mapFS g a] = (acc ++ [a]).map (mapFS g) := by simp
      rw [e2]
      exact ih _ _

theorem markInterrupted_map (g : Nat → Nat) (ns : State) : markInterrupted (mapSt g ns) = mapSt g (markInterrupted ns) := by
  simp only [markInterrupted, mapSt, List.map_map]
  congr 1
  apply List.map_congr_left
  intro x _
  simp only [Function.comp]
  have hs : (mapFS g x).status = x.status := rfl
  have hb : (mapFS g x).interruptedBy.isNone = x.interruptedBy.isNone := by simp [mapFS]
  rw [hs, hb]
  split
  · cases ns.next <;> simp [mapFS, mapNext]
  · rfl

theorem find_map (g : Nat → Nat) (hg : Function.Injective g) (l : List FS) (u : Nat) :
    (l.map (mapFS g)).find? (fun x => x.uid == g u) = (l.find? (fun x => x.uid == u)).map (mapFS g) := by
  induction l with
  | nil => rfl
  | cons a l ih =>
    have : ((mapFS g a).uid == g u) = (a.uid == u) := by
      show (g a.uid == g u) = (a.uid == u)
      by_cases h : a.uid = u
      · rw [h]; simp
      · have h2 : g a.uid ≠ g u := fun e => h (hg e)
        rw [beq_eq_false_iff_ne.2 h, beq_eq_false_iff_ne.2 h2]
    simp only [List.map_cons, List.find?_cons, this]
    cases a.uid == u <;> simp [ih]

theorem filter_map (g : Nat → Nat) (hg : Function.Injective g) (l : List FS) (u : Nat) :
    (l.map (mapFS g)).filter (fun x => x.uid == g u) = (l.filter (fun x => x.uid == u)).map (mapFS g) := by
  induction l with
  | nil => rfl
  | cons a l ih =>
    have : ((mapFS g a).uid == g u) = (a.uid == u) := by
      show (g a.uid == g u) = (a.uid == u)
      by_cases h : a.uid = u
      · rw [h]; simp
      · have h2 : g a.uid ≠ g u := fun e => h (hg e)
        rw [beq_eq_false_iff_ne.2 h, beq_eq_false_iff_ne.2 h2]
    simp only [List.map_cons, List.filter_cons, this]
    cases a.uid == u <;> simp [ih]

theorem extensionInterrupt_map (g : Nat → Nat) (hg : Function.Injective g) (cfgs : Cfgs) (ns : State) :
    extensionInterrupt cfgs (mapSt g ns) = mapSt g (extensionInterrupt cfgs ns) := by
  simp only [extensionInterrupt]
  cases hn : ns.next with
  | none => simp [mapSt, hn]
  | some n =>
    have hn' : (mapSt g ns).next = some (mapNext g n) := by simp [mapSt, hn]
    simp only [hn']
    have hf : (mapSt g ns).flows = ns.flows.map (mapFS g) := rfl
    have hu : (mapNext g n).uid = g n.uid := rfl
    rw [hf, hu, filter_map g hg, List.getLast?_map]
    cases (ns.flows.filter (fun fs => fs.uid == n.uid)).getLast? with
    | none => rfl
    | some d =>
      simp only [Option.map_some]
      have hd : (mapFS g d).flowId = d.flowId := rfl
      have hh : (mapFS g d).head = d.head := rfl
      rw [hd, hh]
      cases cfgs.find d.flowId with
      | none => rfl
      | some dcfg =>
        simp only []
        split
        · simp only [mapSt, List.map_map, hn]
          congr 1
          apply List.map_congr_left
          intro x _
          simp only [Function.comp]
          have hs : (mapFS g x).status = x.status := rfl
          have hfx : (mapFS g x).flowId = x.flowId := rfl
          rw [hs, hfx]
          split <;> rfl
        · rfl

theorem resumePass_map (g : Nat → Nat) (hg : Function.Injective g) (r : Bool) : ∀ (f : Nat) (cfgs : Cfgs) (ns : State) (i : Nat) (ch : Bool),
    resumePassU (injAlloc g) r f cfgs (mapSt g ns) i ch = mapResB g (resumePass r f cfgs ns i ch) := by
  intro f
  induction f with
  | zero => intro cfgs ns i ch; rfl
  | succ f ih =>
    intro cfgs ns i ch
    have hget : (mapSt g ns).flows[i]? = (ns.flows[i]?).map (mapFS g) := by simp [mapSt]
    cases hi : ns.flows[i]? with
    | none =>
      simp only [resumePassU, resumePass, hget, hi, Option.map_none]; rfl
    | some fs =>
      -- the branch that resumes `fs`
      have slideBranch : (match slideWithSubflowsU (injAlloc g) r SUB_FUEL cfgs (mapSt g ns) { mapFS g fs with status := .active, interruptedBy := Option.none } with
            | .error e => .error e
            | .ok (ns2, fs2) =>
              resumePassU (injAlloc g) r f cfgs { ns2 with flows := setAt ns2.flows i (if fs2.head < 0 then { fs2 with status := .completed } else fs2) } (i + 1) true)
          = mapResB g (match slideWithSubflows r SUB_FUEL cfgs ns { fs with status := .active, interruptedBy := Option.none } with
            | .error e => .error e
            | .ok (ns2, fs2) =>
              resumePass r f cfgs { ns2 with flows := setAt ns2.flows i (if fs2.head < 0 then { fs2 with status := .completed } else fs2) } (i + 1) true) := by
        have e : ({ mapFS g fs with status := Status.active, interruptedBy := Option.none } : FS) = mapFS g { fs with status := .active, interruptedBy := Option.none } := rfl
        rw [e, slideWS_map]
        cases slideWithSubflows r SUB_FUEL cfgs ns { fs with status := .active, interruptedBy := Option.none } with
        | error e => rfl
        | ok p =>
          obtain ⟨ns2, fs2⟩ := p
          simp only [mapRes]
          show resumePassU (injAlloc g) r f cfgs { mapSt g ns2 with flows := setAt (mapSt g ns2).flows i (if fs2.head < 0 then mapFS g { fs2 with status := .completed } else mapFS g fs2) } (i + 1) true = _
          have e3 : (if fs2.head < 0 then mapFS g { fs2 with status := .completed } else mapFS g fs2) =
              mapFS g (if fs2.head < 0 then { fs2 with status := .completed } else fs2) := by split <;> rfl
          rw [e3, mapSt_setAt]
          exact ih _ _ _ _
      have abortBranch : resumePassU (injAlloc g) r f cfgs { mapSt g ns with flows := setAt (mapSt g ns).flows i { mapFS g fs with status := .aborted, interruptedBy := Option.none } } (i + 1) true
          = mapResB g (resumePass r f cfgs { ns with flows := setAt ns.flows i { fs with status := .aborted, interruptedBy := Option.none } } (i + 1) true) := by
        have e : ({ mapFS g fs with status := Status.aborted, interruptedBy := Option.none } : FS) = mapFS g { fs with status := .aborted, interruptedBy := Option.none } := rfl
        rw [e, mapSt_setAt]
        exact ih _ _ _ _
      simp only [resumePassU, resumePass, hget, hi, Option.map_some]
      have hs : (mapFS g fs).status = fs.status := rfl
      have hby : (mapFS g fs).interruptedBy = fs.interruptedBy.map g := rfl
      rw [hs, hby]
      by_cases hint : (fs.status == Status.interrupted) = true
      · simp only [hint, if_true]
        cases hb : fs.interruptedBy with
        | none =>
          simp only [Option.map_none, Option.isNone_none, Bool.true_or, if_true]
          exact slideBranch
        | some u =>
          simp only [Option.map_some, Option.isNone_some, Bool.false_or, Bool.not_false, Bool.true_and]
          have hfm : (mapSt g ns).flows.find? (fun x => x.uid == g u) = (ns.flows.find? (fun x => x.uid == u)).map (mapFS g) := find_map g hg ns.flows u
          rw [hfm]
          cases ns.flows.find? (fun x => x.uid == u) with
          | none =>
            simp only [Option.map_none]
            exact ih _ _ _ _
          | some t =>
            simp only [Option.map_some]
            by_cases hc : (t.status == Status.completed) = true
            · have hc' : ((mapFS g t).status == Status.completed) = true := hc
              simp only [hc, hc', if_true]; exact slideBranch
            · have hc' : ¬ ((mapFS g t).status == Status.completed) = true := hc
              simp only [hc, hc']
              by_cases ha : (t.status == Status.aborted) = true
              · have ha' : ((mapFS g t).status == Status.aborted) = true := ha
                simp only [ha, ha', if_true]; exact abortBranch
              · have ha' : ¬ ((mapFS g t).status == Status.aborted) = true := ha
                simp only [ha, ha']; exact ih _ _ _ _
      · simp only [hint]
        exact ih _ _ _ _

theorem resumeLoop_map (g : Nat → Nat) (hg : Function.Injective g) (r : Bool) : ∀ (f : Nat) (cfgs : Cfgs) (ns : State),
    resumeLoopU (injAlloc g) r f cfgs (mapSt g ns) = mapResS g (resumeLoop r f cfgs ns) := by
  intro f
  induction f with
  | zero => intro cfgs ns; rfl
  | succ f ih =>
    intro cfgs ns
    simp only [resumeLoopU, resumeLoop, resumePass_map g hg]
    cases resumePass r 1000 cfgs ns 0 false with
    | error e => rfl
    | ok p =>
      obtain ⟨ns1, c⟩ := p
      simp only [mapResB]
      split
      · exact ih _ _
      · rfl

theorem computeNextState_map (g : Nat → Nat) (hg : Function.Injective g) (r : Bool) (cfgs : Cfgs) (st : State) (ev : Event) :
    computeNextStateU (injAlloc g) r cfgs (mapSt g st) ev = mapResS g (computeNextState r cfgs st ev) := by
  have main : ∀ (ns0 : State), ns0.flows = [] → ns0.next = Option.none →
      (match advanceAllU (injAlloc g) r cfgs ev (mapSt g st).flows ns0 false with
        | .error e => .error e
        | .ok (ns, ext) =>
          match startNewU (injAlloc g) r cfgs ev cfgs ns with
          | .error e => .error e
          | .ok ns =>
            resumeLoopU (injAlloc g) r 100 cfgs (extensionInterrupt cfgs (markInterrupted (if ext then reactivateAborted cfgs ns.flows [] ns else ns))))
      = mapResS g (match advanceAll r cfgs ev st.flows ns0 false with
        | .error e => .error e
        | .ok (ns, ext) =>
          match startNew r cfgs ev cfgs ns with
          | .error e => .error e
          | .ok ns =>
            resumeLoop r 100 cfgs (extensionInterrupt cfgs (markInterrupted (if ext then reactivateAborted cfgs ns.flows [] ns else ns)))) := by
    intro ns0 hf hn
    have e0 : ns0 = mapSt g ns0 := by
      obtain ⟨c, fl, nx, u, k⟩ := ns0
      simp only at hf hn
      subst hf; subst hn; rfl
    have e1 : (mapSt g st).flows = st.flows.map (mapFS g) := rfl
    rw [e1]
    conv => lhs; rw [e0]
    rw [advanceAll_map]
    cases advanceAll r cfgs ev st.flows ns0 false with
    | error e => rfl
    | ok p =>
      obtain ⟨ns1, ext⟩ := p
      simp only [mapResB]
      rw [startNew_map]
      cases startNew r cfgs ev cfgs ns1 with
      | error e => rfl
      | ok ns2 =>
        simp only [mapResS]
        have e2 : (if ext = true then reactivateAborted cfgs (mapSt g ns2).flows [] (mapSt g ns2) else mapSt g ns2) =
            mapSt g (if ext = true then reactivateAborted cfgs ns2.flows [] ns2 else ns2) := by
          split
          · exact reactivate_map g cfgs ns2.flows [] ns2
          · rfl
        rw [e2, markInterrupted_map, extensionInterrupt_map g hg, resumeLoop_map g hg]
        rfl
  cases ev with
  | startAction => rfl
  | contextUpdate d => simp only [computeNextStateU, computeNextState, mapResS]; rfl
  | _ => simp only [computeNextStateU, computeNextState]; exact main _ rfl rfl

theorem replay_map (g : Nat → Nat) (hg : Function.Injective g) (r : Bool) (cfgs : Cfgs) : ∀ (h : List Event) (st : State),
    replayU (injAlloc g) r cfgs h (mapSt g st) = mapResS g (replay r cfgs h st) := by
  intro h
  induction h with
  | nil => intro st; rfl
  | cons ev h ih =>
    intro st
    simp only [replayU, replay, computeNextState_map g hg]
    cases computeNextState r cfgs st ev with
    | error e => rfl
    | ok st1 =>
      simp only [mapResS]
      have e : (if (ev == Event.botIntent "stop") = true then { mapSt g st1 with flows := [] } else mapSt g st1) =
          mapSt g (if (ev == Event.botIntent "stop") = true then { st1 with flows := [] } else st1) := by
        split <;> rfl
      rw [e]
      exact ih _

theorem decisionsOf_map (g : Nat → Nat) (st : State) : decisionsOf (mapSt g st) = decisionsOf st := by
  simp only [decisionsOf, mapSt]
  cases st.next <;> rfl

/-- the decisions do not depend on the NAMES of the uids: every injective naming of the allocation counter decides alike -/
theorem computeNextSteps_inj (g : Nat → Nat) (hg : Function.Injective g) (r : Bool) (cfgs : Cfgs) (h : List Event) (config : Ctx) :
    computeNextStepsU (injAlloc g) r cfgs h config = computeNextSteps r cfgs h config := by
  simp only [computeNextStepsU, computeNextSteps]
  cases applyHide h [] with
  | none => rfl
  | some actual =>
    simp only []
    rw [show replayU (injAlloc g) r cfgs actual { ctx := config } = mapResS g (replay r cfgs actual { ctx := config }) from
      replay_map g hg r cfgs actual { ctx := config }]
    cases replay r cfgs actual { ctx := config } with
    | error e => cases e <;> rfl
    | ok st => simp only [mapResS, decisionsOf_map]


end NemoVerif.V1UidL
