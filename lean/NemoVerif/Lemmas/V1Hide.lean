import NemoVerif.Lemmas.V1Follow
namespace NemoVerif.V1Hide
open NemoVerif.V1Interp NemoVerif.V1Follow

theorem applyHide_append : ∀ (H1 H2 acc : List Event),
    applyHide (H1 ++ H2) acc = (applyHide H1 acc).bind (fun a => applyHide H2 a) := by
  intro H1
  induction H1 with
  | nil => intro H2 acc; simp [applyHide]
  | cons e r ih =>
    intro H2 acc
    cases e with
    | hidePrevTurn =>
      simp only [List.cons_append, applyHide]
      cases cutAtLastUtterance acc with
      | none => rfl
      | some a => exact ih H2 a
    | userIntent i => simp only [List.cons_append, applyHide]; exact ih H2 _
    | botIntent i => simp only [List.cons_append, applyHide]; exact ih H2 _
    | actionFinished n ok => simp only [List.cons_append, applyHide]; exact ih H2 _
    | contextUpdate d => simp only [List.cons_append, applyHide]; exact ih H2 _
    | startAction => simp only [List.cons_append, applyHide]; exact ih H2 _
    | other ty ps => simp only [List.cons_append, applyHide]; exact ih H2 _

theorem cut_go_take : ∀ (n : Nat) (l H' : List Event), cutAtLastUtterance.go l n = some H' → ∃ k, H' = l.take k := by
  intro n
  induction n with
  | zero =>
    intro l H' h
    simp only [cutAtLastUtterance.go] at h
    split at h
    · exact ⟨0, by rw [← Option.some.inj h]⟩
    · cases h
  | succ n ih =>
    intro l H' h
    simp only [cutAtLastUtterance.go] at h
    split at h
    · exact ⟨n + 1, by rw [← Option.some.inj h]⟩
    · exact ih l H' h

theorem cut_take (H H' : List Event) (h : cutAtLastUtterance H = some H') : ∃ k, H' = H.take k := by
  cases H with
  | nil => simp [cutAtLastUtterance] at h
  | cons a r =>
    simp only [cutAtLastUtterance] at h
    exact cut_go_take _ _ _ h

/-- `hide_prev_turn` at the end of a history: the decision is the one for the history cut before the last user utterance -/
theorem hide_is_cut (r : Bool) (cfgs : Cfgs) (config : Ctx) (H H' : List Event)
    (hH : ∀ ev ∈ H, ev ≠ .hidePrevTurn) (hcut : cutAtLastUtterance H = some H') :
    computeNextSteps r cfgs (H ++ [.hidePrevTurn]) config = computeNextSteps r cfgs H' config := by
  obtain ⟨k, hk⟩ := cut_take H H' hcut
  have hH' : ∀ ev ∈ H', ev ≠ .hidePrevTurn := by
    intro ev hev
    rw [hk] at hev
    exact hH ev (List.mem_of_mem_take hev)
  have h1 := applyHide_nohide H [] hH
  have h2 := applyHide_nohide H' [] hH'
  simp only [List.nil_append] at h1 h2
  simp only [computeNextSteps, applyHide_append, h1, h2, Option.bind, applyHide, hcut]

end NemoVerif.V1Hide
