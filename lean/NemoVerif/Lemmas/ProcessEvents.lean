/-
  C10 (wave 6) — helper lemmas about `failInvalid` (the scan of `_fail_heads_with_invalid_action_event`, Models/ProcessEvents.lean).
-/
import NemoVerif.Models.ProcessEvents

namespace NemoVerif.ProcessEvents

theorem failInvalid_stopped_mono (build : AHead → Option Nat) (kills : Nat → List Nat) :
    ∀ (hs : List AHead) (st er : List Nat) (f : Nat), f ∈ st → f ∈ (failInvalid build kills hs st er).1 := by
  intro hs
  induction hs with
  | nil => intro st er f h; simpa [failInvalid] using h
  | cons h rest ih =>
    intro st er f hf
    simp only [failInvalid]
    split
    · exact ih st er f hf
    · split
      · exact ih st er f hf
      · exact ih _ _ f (by simp [hf])

/-- a head that is scanned while its flow is alive and whose event cannot be built has its flow stopped at the end -/
theorem failInvalid_invalid_stopped (build : AHead → Option Nat) (kills : Nat → List Nat) (hself : ∀ f, f ∈ kills f) :
    ∀ (hs : List AHead) (st er : List Nat) (h : AHead), h ∈ hs → build h ≠ none → h.flow ∈ (failInvalid build kills hs st er).1 := by
  intro hs
  induction hs with
  | nil => intro st er h hm; simp at hm
  | cons x rest ih =>
    intro st er h hm hb
    simp only [failInvalid]
    rcases List.mem_cons.mp hm with rfl | hm'
    · split
      · rename_i hc
        exact failInvalid_stopped_mono build kills rest st er _ (by simpa using hc)
      · split
        · rename_i hn; exact absurd hn hb
        · exact failInvalid_stopped_mono build kills rest _ _ _ (by simp [hself])
    · split
      · exact ih st er h hm' hb
      · split
        · exact ih st er h hm' hb
        · exact ih _ _ h hm' hb

/-- stopped flows come from the `kills` sets of flows with an invalid head (or were stopped before) -/
theorem failInvalid_stopped_origin (build : AHead → Option Nat) (kills : Nat → List Nat) :
    ∀ (hs : List AHead) (st er : List Nat) (f : Nat), f ∈ (failInvalid build kills hs st er).1 →
      f ∈ st ∨ ∃ h ∈ hs, build h ≠ none ∧ f ∈ kills h.flow := by
  intro hs
  induction hs with
  | nil => intro st er f h; left; simpa [failInvalid] using h
  | cons x rest ih =>
    intro st er f hf
    simp only [failInvalid] at hf
    split at hf
    · rcases ih st er f hf with h | ⟨h, hm, hb, hk⟩
      · exact .inl h
      · exact .inr ⟨h, List.mem_cons_of_mem _ hm, hb, hk⟩
    · split at hf
      · rcases ih st er f hf with h | ⟨h, hm, hb, hk⟩
        · exact .inl h
        · exact .inr ⟨h, List.mem_cons_of_mem _ hm, hb, hk⟩
      · rename_i e he
        rcases ih _ _ f hf with h | ⟨h, hm, hb, hk⟩
        · rcases List.mem_append.mp h with h1 | h2
          · exact .inl h1
          · exact .inr ⟨x, List.mem_cons_self, by simp [he], h2⟩
        · exact .inr ⟨h, List.mem_cons_of_mem _ hm, hb, hk⟩

/-- one report per failed head: at most as many reports as invalid heads -/
theorem failInvalid_errs_le (build : AHead → Option Nat) (kills : Nat → List Nat) :
    ∀ (hs : List AHead) (st er : List Nat), (failInvalid build kills hs st er).2.length ≤ er.length + (hs.filter fun h => (build h).isSome).length := by
  intro hs
  induction hs with
  | nil => intro st er; simp [failInvalid]
  | cons x rest ih =>
    intro st er
    simp only [failInvalid]
    split
    · have := ih st er
      simp only [List.filter_cons]
      split <;> simp <;> omega
    · split
      · rename_i he
        have := ih st er
        simp [he]; omega
      · rename_i e he
        have := ih (st ++ kills x.flow) (er ++ [e])
        simp [he] at this ⊢; omega

end NemoVerif.ProcessEvents
