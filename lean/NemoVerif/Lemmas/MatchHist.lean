/-
  C04 — lemmas about a waiting head over a history (`Models/MatchHist.lean`).
-/
import NemoVerif.Models.MatchHist
import NemoVerif.Lemmas.Match

namespace NemoVerif.Match
open NemoVerif
open NemoVerif.Generated.C04

variable (rx : Rx) (sa : String → Option (List (String × Val)))

/-- a step changes nothing of a head but (possibly) `waiting` -/
theorem stepHead_head (env : Env) (h : Head) (s : Step) :
    (stepHead rx sa env h s).2.1 = { h with waiting := (stepHead rx sa env h s).2.1.waiting } := by
  cases s with
  | set i v => simp [stepHead]
  | ev e =>
    simp only [stepHead]
    split
    · rfl
    · split <;> rfl

/-- the environment after a step does not depend on the head or on what was compared -/
theorem stepHead_env (env : Env) (h : Head) (s : Step) :
    (stepHead rx sa env h s).1 = envAfter env [s] := by
  cases s with
  | set i v => simp [stepHead, envAfter]
  | ev e =>
    simp only [stepHead, envAfter]
    split
    · rfl
    · split <;> rfl

theorem envAfter_cons (env : Env) (s : Step) (rest : List Step) :
    envAfter env (s :: rest) = envAfter (envAfter env [s]) rest := by
  cases s <;> simp [envAfter]

theorem envAfter_append (env : Env) (a b : List Step) :
    envAfter env (a ++ b) = envAfter (envAfter env a) b := by
  induction a generalizing env with
  | nil => simp [envAfter]
  | cons s rest ih =>
    rw [List.cons_append, envAfter_cons, ih, ← envAfter_cons]

/-- the environment a head sees after a history is determined by the `set` steps alone -/
theorem runState_env (env : Env) (h : Head) (steps : List Step) :
    (runState rx sa env h steps).1 = envAfter env steps := by
  induction steps generalizing env h with
  | nil => simp [runState, envAfter]
  | cons s rest ih =>
    simp only [runState]
    rw [ih, stepHead_env, ← envAfter_cons]

/-- after any history the head is the original one, up to `waiting` -/
theorem runState_head (env : Env) (h : Head) (steps : List Step) :
    (runState rx sa env h steps).2 = { h with waiting := (runState rx sa env h steps).2.waiting } := by
  induction steps generalizing env h with
  | nil => simp [runState]
  | cons s rest ih =>
    simp only [runState]
    rw [ih]
    have := stepHead_head rx sa env h s
    generalize (stepHead rx sa env h s).2.1 = h' at *
    rw [this]

/-- … so a head that is still waiting after a history is the original head (nothing was remembered) -/
theorem runState_head_waiting (env : Env) (h : Head) (steps : List Step) (h0 : h.waiting = true)
    (hw : (runState rx sa env h steps).2.waiting = true) :
    (runState rx sa env h steps).2 = h := by
  rw [runState_head, hw]
  cases h
  simp_all

theorem runHist_append (env : Env) (h : Head) (a b : List Step) :
    runHist rx sa env h (a ++ b) =
      runHist rx sa env h a ++ runHist rx sa (runState rx sa env h a).1 (runState rx sa env h a).2 b := by
  induction a generalizing env h with
  | nil => simp [runHist, runState]
  | cons s rest ih => simp [runHist, runState, ih]

theorem runHist_length (env : Env) (h : Head) (steps : List Step) :
    (runHist rx sa env h steps).length = steps.length := by
  induction steps generalizing env h with
  | nil => simp [runHist]
  | cons s rest ih => simp [runHist, ih]

/-- outcome of one event for a waiting head, spelled out -/
theorem stepHead_ev_hit (env : Env) (h : Head) (e : Ev) (hw : h.waiting = true) :
    (stepHead rx sa env h (.ev e)).2.2 = .hit ↔
      isCandidate h.evName e.name = true ∧
      ∃ ms ref k p, h.stmt env = some ms ∧ refEvent ms = some ref ∧ matchingScore rx sa e ref h.prio = .pos k p := by
  by_cases hc : isCandidate h.evName e.name = true
  · cases hs : h.stmt env with
    | none => simp [stepHead, hw, hc, headScore, hs, outcomeOf]
    | some ms =>
      cases hr : refEvent ms with
      | none => simp [stepHead, hw, hc, headScore, hs, hr, outcomeOf]
      | some ref =>
        cases hm : matchingScore rx sa e ref h.prio <;> simp [stepHead, hw, hc, headScore, hs, hr, hm, outcomeOf]
  · have hc' : isCandidate h.evName e.name = false := by simpa using hc
    simp [stepHead, hc']

/-- `Res` seen as an event-comparison result (no extra exponent, no priority) -/
def resToEv : Res → EvRes
  | .err => .err
  | .no => .zero
  | .ok k => .pos k none

/-- for a plain (UMIM) event statement whose name is not an internal event, the comparison is the dictionary score -/
theorem eventCore_plain (ev ref : Ev) (hk : ev.kind = .plain)
    (hi : ref.name ∉ internalEventsAll) :
    eventCore rx sa ev ref =
      if ref.name ≠ ev.name then .zero
      else resToEv (score argumentFilter rx (.dict ev.args) (.dict ref.args)) := by
  have h1 : ¬ (ev.name = evStartFlow ∧ ref.name = evStartFlow) := by
    rintro ⟨_, b⟩; apply hi; rw [b]; decide
  have h2 : ¬ (ev.name ∈ internalEventsAll ∧ ref.name ∈ internalEventsAll) := fun h => hi h.2
  by_cases hn : ref.name = ev.name
  · have hi' : ev.name ∉ internalEventsAll := hn ▸ hi
    have h1' : ¬ ev.name = evStartFlow := by
      intro b; apply hi'; rw [b]; decide
    cases hs : score argumentFilter rx (.dict ev.args) (.dict ref.args) <;>
      simp [eventCore, h1', hi', hk, hn, hs, resToEv]
  · simp [eventCore, h1, h2, hn]

theorem envAfter_setsOf (env : Env) (steps : List Step) : envAfter env (setsOf steps) = envAfter env steps := by
  induction steps generalizing env with
  | nil => rfl
  | cons s rest ih => cases s <;> simp [setsOf, envAfter, ih]

theorem runState_setsOf (env : Env) (h : Head) (steps : List Step) :
    (runState rx sa env h (setsOf steps)).2 = h := by
  induction steps generalizing env with
  | nil => rfl
  | cons s rest ih => cases s <;> simp [setsOf, runState, stepHead, ih]

/-- the last outcome of a history that ends with an event -/
theorem runHist_snoc_ev (env : Env) (h : Head) (pre : List Step) (e : Ev) :
    runHist rx sa env h (pre ++ [.ev e]) = runHist rx sa env h pre ++ [outcomeAfter rx sa env h pre e] := by
  rw [runHist_append]
  simp [runHist, outcomeAfter]

end NemoVerif.Match
