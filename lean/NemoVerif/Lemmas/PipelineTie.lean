/-
  C01–C03 — TESTS OF THE TIE (not the property proof).

  Kernel-evaluated facts about the flows that `harness/translate/c01.py` dumped from the current
  source (`Generated/C01.lean`).  Each fact is a structural assumption of the `Pipeline` model; if an
  edit to `llm_flows.co` / `guardrails.co` changes the discipline, the corresponding `example` no
  longer evaluates to `true` and the build of every C01–C03 theorem module fails.
-/
import NemoVerif.Models.FlowShape
import NemoVerif.Generated.C01

namespace NemoVerif.PipelineTie
open NemoVerif.FlowShape NemoVerif.Generated.C01

/-! Colang 1.0 (`llm_flows.co`) -/

/-- `process user input`: `do run input rails` comes before `create event UserMessage(text=$user_message)`. -/
example : processUserInputOk v1ProcessUserInput = true := by decide
/-- `run input rails`: one pass over `$config.rails.input.flows`, `$i` incremented once per iteration. -/
example : railLoopOk "input_flows" "$config.rails.input.flows" v1RunInputRails = true := by decide
/-- `run output rails`: the same for `$config.rails.output.flows`. -/
example : railLoopOk "output_flows" "$config.rails.output.flows" v1RunOutputRails = true := by decide
/-- `process bot message`: `$skip_output_rails` is reset where it is tested; output rails before the utterance of `$bot_message`. -/
example : processBotMessageOk v1ProcessBotMessage = true := by decide
/-- `generate bot message`: retrieval before generation. -/
example : generateBotMessageOk v1GenerateBotMessage = true := by decide
/-- `run dialog rails` starts from `UserMessage`. -/
example : runDialogRailsOk v1RunDialogRails = true := by decide
/-- `self check input` (1.0) stops after either way of blocking. -/
example : selfCheckInputStopsV1 = true := by decide
example : refuseBranchStops v1SelfCheckInput = true := by decide
example : refuseBranchStops v1SelfCheckOutput = true := by decide

/-! Colang 1.0: what the two-context model (`Models/PipelineCtx.lean`) assumes about the order of the steps -/

/-- `process bot message`: `$bot_message = $event.text` is the first step after `event BotMessage`, the only assignment of
    the variable, and precedes `do run output rails` (`outStageE`: `slideSet` first, then `railsE`). -/
example : setFirstThenCall "bot_message" "$event.text" "run output rails" v1ProcessBotMessage = true := by decide
/-- `process user input`: `$user_message = $event["final_transcript"]` first, then `do run input rails` (`turnE`). -/
example : setFirstThenCall "user_message" "$event[\"final_transcript\"]" "run input rails" v1ProcessUserInput = true := by decide
/-- the rail loops never assign the message variables themselves (`railsE` touches them only through the rails). -/
example : noSetOf ["user_message", "bot_message"] v1RunInputRails = true := by decide
example : noSetOf ["user_message", "bot_message"] v1RunOutputRails = true := by decide
/-- between the rails and `StartUtteranceBotAction(script=$bot_message)` / `UserMessage(text=$user_message)` there are
    marker events only: what is uttered / handed on is the variable as the rails left it. -/
example : onlyMarkersBetween "run output rails" "StartUtteranceBotAction" v1ProcessBotMessage = true := by decide
example : onlyMarkersBetween "run input rails" "UserMessage" v1ProcessUserInput = true := by decide
/-- the `$skip_output_rails` test comes after the assignment of `$bot_message` (a skipped message is uttered as assigned). -/
example : (match FlowShape.findIdx? (isSet "bot_message" "$event.text") v1ProcessBotMessage 0,
                 FlowShape.findIdx? (isIf "$skip_output_rails") v1ProcessBotMessage 0 with
           | some a, some b => decide (a < b)
           | _, _ => false) = true := by decide

/-! Colang 2.x (`guardrails.co`) -/

example : userSaidOk v2UserSaid = true := by decide
example : userSaidOk v2UserSaying = true := by decide
example : userSaidOk v2UserSaidUnexpected = true := by decide
/-- `_bot_say` awaits the output rails (unless they are in progress) before `UtteranceBotAction(script=$text)`. -/
example : botSayOk v2BotSay = true := by decide
/-- `run output rails` raises the flag before and lowers it after the rails. -/
example : runOutputRailsOk v2RunOutputRails = true := by decide
/-- `self check input` (2.x) aborts after either way of blocking. -/
example : selfCheckInputStopsV2 = true := by decide

/-! The checkers themselves are exercised on the shapes they must tell apart (fixed data). -/

/-- the as-shipped `run output rails` (no reset on failure) … -/
example : resetsFlagOnFailure
    [⟨0, .assign "output_rails_in_progress" "True"⟩, ⟨0, .ifE "$output_rails_exist"⟩, ⟨1, .await "output rails" "$0=$output_text" ""⟩,
     ⟨0, .assign "output_rails_in_progress" "False"⟩] = false := by decide
/-- … and the repaired one. -/
example : resetsFlagOnFailure
    [⟨0, .assign "output_rails_in_progress" "True"⟩, ⟨0, .ifE "$output_rails_exist"⟩, ⟨1, .whenFlow "output rails"⟩, ⟨2, .other "Log"⟩,
     ⟨1, .whenElse⟩, ⟨2, .assign "output_rails_in_progress" "False"⟩, ⟨2, .abort⟩,
     ⟨0, .assign "output_rails_in_progress" "False"⟩] = true := by decide
/-- a mutant of `process user input` that creates `UserMessage` first is rejected. -/
example : processUserInputOk
    [.matchEv "UtteranceUserActionFinished", .setVar "user_message" "$event[\"final_transcript\"]", .ifE "$config.rails.input.flows" 3,
     .createEvent "UserMessage" "text=$user_message", .callFlow "run input rails"] = false := by decide
/-- a `_user_said` that takes the transcript only in the `else` branch (so a literal / regex pattern
    stays in `$text` and is what the rails are shown) is rejected. -/
example : userSaidOk
    [⟨0, .matchSpec "StartFlow"⟩, ⟨0, .globalVar "$user_message"⟩, ⟨0, .ifE "$text"⟩, ⟨1, .matchSpec "UtteranceUserAction"⟩, ⟨0, .elseE⟩,
     ⟨1, .matchSpec "UtteranceUserAction"⟩, ⟨1, .assign "text" "$event.final_transcript"⟩, ⟨0, .assign "user_message" "$text"⟩,
     ⟨0, .await "run input rails" "$0=$user_message" ""⟩] = false := by decide
/-- a `process bot message` that runs the output rails BEFORE assigning `$bot_message` (the rails would inspect the
    previous turn's message) is rejected … -/
example : setFirstThenCall "bot_message" "$event.text" "run output rails"
    [.other "meta", .matchEv "BotMessage", .callFlow "run output rails", .setVar "bot_message" "$event.text",
     .createEvent "StartUtteranceBotAction" "script=$bot_message"] = false := by decide
/-- … as is one that re-assigns it from the event after the rails (a rewrite would be undone) … -/
example : onlyMarkersBetween "run output rails" "StartUtteranceBotAction"
    [.other "meta", .matchEv "BotMessage", .setVar "bot_message" "$event.text", .callFlow "run output rails",
     .setVar "bot_message" "$event.text", .createEvent "StartUtteranceBotAction" "script=$bot_message"] = false := by decide
/-- … and a rail loop that resets the message variable on every iteration. -/
example : noSetOf ["user_message", "bot_message"]
    [.setVar "i" "0", .whileE "$i < len($output_flows)", .setVar "bot_message" "$event.text", .callFlow "$output_flows[$i]",
     .setVar "i" "$i + 1", .jump (-4)] = false := by decide
/-- a rail loop that increments twice is rejected. -/
example : railLoopOk "input_flows" "$config.rails.input.flows"
    [.setVar "i" "0", .setVar "input_flows" "$config.rails.input.flows", .whileE "$i < len($input_flows)", .callFlow "$input_flows[$i]",
     .setVar "i" "$i + 1", .setVar "i" "$i + 1", .jump (-4)] = false := by decide

end NemoVerif.PipelineTie
