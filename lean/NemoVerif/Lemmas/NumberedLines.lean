/-
  Helper lemmas about the `NumberedLines` model (C13, Colang 1.0).  Property theorems are in Theorems/C13.lean.
-/
import NemoVerif.Models.NumberedLines
namespace NemoVerif.NumberedLines

theorem lstrip_allws (a b : Str) (h : ∀ c ∈ a, isPyWs c = true) : lstrip (a ++ b) = lstrip b := by
  induction a with
  | nil => rfl
  | cons c r ih =>
    have hc : isPyWs c = true := h c (by simp)
    simp only [List.cons_append, lstrip, hc, if_true]
    exact ih (fun c' h' => h c' (by simp [h']))

theorem lstrip_nil_iff (l : Str) : lstrip l = [] ↔ ∀ c ∈ l, isPyWs c = true := by
  induction l with
  | nil => simp [lstrip]
  | cons c r ih =>
    by_cases hc : isPyWs c = true
    · simp [lstrip, hc, ih]
    · simp [lstrip, hc]

theorem lstrip_append_of_ne (l ws : Str) (h : lstrip l ≠ []) : lstrip (l ++ ws) = lstrip l ++ ws := by
  induction l with
  | nil => simp [lstrip] at h
  | cons c r ih =>
    by_cases hc : isPyWs c = true
    · simp only [List.cons_append, lstrip, hc, if_true] at h ⊢
      exact ih h
    · simp [lstrip, hc]

theorem rstrip_append_ws (x ws : Str) (h : ∀ c ∈ ws, isPyWs c = true) : rstrip (x ++ ws) = rstrip x := by
  unfold rstrip
  rw [List.reverse_append, lstrip_allws _ _ (fun c hc => h c (by simpa using hc))]

theorem strip_append_ws (l ws : Str) (h : ∀ c ∈ ws, isPyWs c = true) : strip (l ++ ws) = strip l := by
  unfold strip
  by_cases hl : lstrip l = []
  · have hall := (lstrip_nil_iff l).1 hl
    have : lstrip (l ++ ws) = [] := (lstrip_nil_iff _).2 (by
      intro c hc
      rcases List.mem_append.1 hc with h1 | h2
      · exact hall c h1
      · exact h c h2)
    rw [this, hl]
  · rw [lstrip_append_of_ne l ws hl, rstrip_append_ws _ _ h]

theorem strip_cons_ws (c : Char) (r : Str) (hc : isPyWs c = true) : strip (c :: r) = strip r := by
  simp [strip, lstrip, hc]

theorem lead_append (l ws : Str) (h : strip l ≠ []) : lead (l ++ ws) = lead l := by
  induction l with
  | nil => simp [strip, lstrip, rstrip] at h
  | cons c r ih =>
    by_cases hc : c = ' '
    · subst hc
      have : strip (' ' :: r) = strip r := strip_cons_ws ' ' r (by decide)
      rw [this] at h
      simp [lead, ih h]
    · simp [lead, hc]


/-- `stepV` looks at the leading-space count only for non-empty lines and at the raw length only for the
    first line of a multi-line string. -/
theorem stepV_congr (st : St) (s : Str) (ld1 ld2 len1 len2 : Nat)
    (hld : s ≠ [] → ld1 = ld2) (hlen : isOpener s = true → len1 = len2) :
    stepV st s ld1 len1 = stepV st s ld2 len2 := by
  unfold stepV
  cases hp : st.pending with
  | some p => rfl
  | none =>
    cases hs : st.inString with
    | some q => rfl
    | none =>
      by_cases ho : isOpener s = true
      · simp [ho, hlen ho]
      · by_cases he : s = []
        · subst he; simp [ho]
        · have hf : isOpener s = false := by simpa using ho
          simp [hf, hld he]

theorem step_trailing (st : St) (l ws : Str) (hws : ∀ c ∈ ws, isPyWs c = true)
    (hno : isOpener (strip l) = false) : step st (l ++ ws) = step st l := by
  unfold step
  rw [strip_append_ws l ws hws]
  apply stepV_congr
  · intro h; exact lead_append l ws h
  · intro h; rw [hno] at h; cases h

theorem step_blank (st : St) (b : Str) (hb : strip b = []) (hB : st.atBoundary = true) :
    step st b = .ok (st, []) := by
  unfold step stepV
  simp only [St.atBoundary, Bool.and_eq_true, Option.isNone_iff_eq_none] at hB
  simp [hB.1, hB.2, hb, isOpener, startsWith, q1]

theorem run_append (pre X : List Str) : ∀ st : St,
    run st (pre ++ X) =
      match runPre st pre with
      | .error e => .error e
      | .ok (st', o) =>
        match run st' X with
        | .error e => .error e
        | .ok r => .ok (o ++ r) := by
  induction pre with
  | nil => intro st; simp only [List.nil_append, runPre]; cases run st X <;> simp
  | cons l ls ih =>
    intro st
    simp only [List.cons_append, run, runPre]
    cases step st l with
    | error e => rfl
    | ok p =>
      simp only [ih p.1]
      cases runPre p.1 ls with
      | error e => rfl
      | ok q =>
        simp only []
        cases run q.1 X with
        | error e => rfl
        | ok r => simp [List.append_assoc]

/-- two line lists related line by line -/
inductive Pointwise (R : Str → Str → Prop) : List Str → List Str → Prop where
  | nil : Pointwise R [] []
  | cons {a b : Str} {as bs : List Str} : R a b → Pointwise R as bs → Pointwise R (a :: as) (b :: bs)

/-- lines related one by one (`R`) with equal steps give equal runs -/
theorem run_pointwise (R : Str → Str → Prop) (hR : ∀ st a b, R a b → step st a = step st b) :
    ∀ (ls ls' : List Str), Pointwise R ls ls' → ∀ st, run st ls = run st ls' := by
  intro ls ls' h
  induction h with
  | nil => intro st; rfl
  | cons hab _ ih =>
    intro st
    simp only [run, hR st _ _ hab]
    cases step st _ with
    | error e => rfl
    | ok p => simp only [ih p.1]

theorem splitNL_ne_nil (s : Str) : splitNL s ≠ [] := by
  cases s with
  | nil => simp [splitNL]
  | cons c r =>
    simp only [splitNL]
    split
    · simp
    · split <;> simp

/-- `(x + "\n" + y).split("\n") == x.split("\n") + y.split("\n")` -/
theorem splitNL_append (x y : Str) : splitNL (x ++ '\n' :: y) = splitNL x ++ splitNL y := by
  induction x with
  | nil => simp [splitNL]
  | cons c r ih =>
    by_cases hc : c = '\n'
    · subst hc; simp [splitNL, ih]
    · simp only [List.cons_append, splitNL, hc, if_false, ih]
      cases h : splitNL r with
      | nil => exact absurd h (splitNL_ne_nil r)
      | cons l ls => simp

theorem splitNL_noNL (b : Str) (h : ∀ ch ∈ b, ch ≠ '\n') : splitNL b = [b] := by
  induction b with
  | nil => rfl
  | cons c r ih =>
    have hc : c ≠ '\n' := h c (by simp)
    simp [splitNL, hc, ih (fun ch hch => h ch (by simp [hch]))]

/-- one line with trailing whitespace appended, all others untouched -/
theorem pointwise_one (R : Str → Str → Prop) (hrefl : ∀ l, R l l) (A B : List Str) (l l' : Str) (h : R l l') :
    Pointwise R (A ++ l :: B) (A ++ l' :: B) := by
  induction A with
  | nil =>
    refine Pointwise.cons h ?_
    induction B with
    | nil => exact Pointwise.nil
    | cons b bs ih => exact Pointwise.cons (hrefl b) ih
  | cons a as ih => exact Pointwise.cons (hrefl a) ih

theorem splitNL_noNL_mem (s : Str) : ∀ l ∈ splitNL s, ∀ ch ∈ l, ch ≠ '\n' := by
  induction s with
  | nil => intro l hl; simp [splitNL] at hl; subst hl; simp
  | cons c r ih =>
    intro l hl
    by_cases hc : c = '\n'
    · subst hc
      simp only [splitNL, if_true, List.mem_cons] at hl
      rcases hl with rfl | h
      · simp
      · exact ih l h
    · simp only [splitNL, hc, if_false] at hl
      cases hs : splitNL r with
      | nil => exact absurd hs (splitNL_ne_nil r)
      | cons a as =>
        rw [hs] at hl ih
        simp only [List.mem_cons] at hl
        rcases hl with rfl | h
        · intro ch hch
          rcases List.mem_cons.1 hch with h1 | h1
          · rw [h1]; exact hc
          · exact ih a (by simp) ch h1
        · exact ih l (by simp [h])

theorem splitNL_joinNL : ∀ (ls : List Str), ls ≠ [] → (∀ l ∈ ls, ∀ ch ∈ l, ch ≠ '\n') → splitNL (joinNL ls) = ls
  | [], h, _ => absurd rfl h
  | [l], _, h => by simpa [joinNL] using splitNL_noNL l (h l (by simp))
  | l :: m :: ls, _, h => by
    have ih := splitNL_joinNL (m :: ls) (by simp) (fun x hx => h x (by simp [hx]))
    simp only [joinNL]
    rw [splitNL_append, splitNL_noNL l (h l (by simp)), ih]
    rfl

theorem scaleLine_noNL (k : Nat) (l : Str) (h : ∀ ch ∈ l, ch ≠ '\n') : ∀ ch ∈ scaleLine k l, ch ≠ '\n' := by
  intro ch hch
  unfold scaleLine at hch
  rcases List.mem_append.1 hch with h1 | h1
  · rw [(List.mem_replicate.1 h1).2]; decide
  · exact h ch (List.mem_of_mem_drop h1)

theorem step_plainStmt (st : St) (l : Str) (hB : st.atBoundary = true) (hml : st.mlComment = false) (hp : plainStmt (strip l) = true) :
    step st l = .ok ({ st with comment := none, pending := none },
      [{ text := firstPart (strip l), indentation := lead l, comment := st.comment }]) := by
  simp only [St.atBoundary, Bool.and_eq_true, Option.isNone_iff_eq_none] at hB
  simp only [plainStmt, Bool.and_eq_true, Bool.not_eq_true', List.isEmpty_eq_false_iff] at hp
  obtain ⟨⟨⟨⟨h1, h2⟩, h3⟩, h4⟩, h5⟩ := hp
  unfold step stepV
  simp [hB.1, hB.2, h2, h1, h3, h4, hml, settle, h5]

theorem step_hashLine (st : St) (l c : Str) (hB : st.atBoundary = true) (hl : strip l = '#' :: c) :
    step st l = .ok ({ st with comment := addComment st.comment (strip c) }, []) := by
  simp only [St.atBoundary, Bool.and_eq_true, Option.isNone_iff_eq_none] at hB
  unfold step stepV
  simp [hB.1, hB.2, hl, isOpener, startsWith, q1, q3]

theorem run_blanks (st : St) (blanks : List Str) (hb : ∀ b ∈ blanks, strip b = []) (hB : st.atBoundary = true) (X : List Str) :
    run st (blanks ++ X) = run st X := by
  induction blanks with
  | nil => rfl
  | cons b bs ih =>
    simp only [List.cons_append, run, step_blank st b (hb b (by simp)) hB]
    rw [ih (fun x hx => hb x (by simp [hx]))]
    cases run st X <;> simp

/-- Positive specification of what the comment above a statement means: a `# c` line, then any number of blank lines (any `str.isspace`
    characters), then an ordinary statement - the statement's record carries the comment `c` (stripped), and the comment is used up.
    (`$v = ...` below a comment gets the comment as `instructions`; a bot step gets it as generation instructions.) -/
theorem numbered_comment_attaches (pre post blanks : List Str) (cl c stmt : Str)
    (st' : St) (out : List Rec) (hpre : runPre St.init pre = .ok (st', out))
    (hB : st'.atBoundary = true) (hml : st'.mlComment = false) (hc0 : st'.comment = none)
    (hcl : strip cl = '#' :: c) (hb : ∀ b ∈ blanks, strip b = []) (hs : plainStmt (strip stmt) = true) :
    numbered (pre ++ cl :: (blanks ++ stmt :: post)) =
      (run { st' with comment := none, pending := none } post).map fun rest =>
        out ++ { text := firstPart (strip stmt), indentation := lead stmt, comment := some (strip c) } :: rest := by
  unfold numbered
  rw [run_append, hpre]
  have hB1 : ({ st' with comment := addComment st'.comment (strip c) } : St).atBoundary = true := by
    simpa [St.atBoundary] using hB
  have hstep := step_plainStmt { st' with comment := addComment st'.comment (strip c) } stmt hB1 hml hs
  simp only [run, step_hashLine st' cl c hB hcl]
  rw [run_blanks _ blanks hb hB1]
  simp only [run, hstep]
  simp only [hc0, addComment]
  cases run { st' with comment := none, pending := none } post <;> simp [Except.map]

theorem run_commentLines (ls : List Str) (h : ∀ l ∈ ls, strip l = [] ∨ ∃ c, strip l = '#' :: c) (X : List Str) : ∀ (st : St),
    st.atBoundary = true → run st (ls ++ X) = run { st with comment := commentOf st.comment ls } X := by
  induction ls with
  | nil => intro st _; rfl
  | cons l ls ih =>
    intro st hB
    have ih' := ih (fun x hx => h x (by simp [hx]))
    rcases h l (by simp) with hb | ⟨c, hc⟩
    · simp only [List.cons_append, run, step_blank st l hb hB]
      rw [ih' st hB]
      simp only [commentOf, hb]
      cases run _ X <;> simp
    · have hB1 : ({ st with comment := addComment st.comment (strip c) } : St).atBoundary = true := by
        simpa [St.atBoundary] using hB
      simp only [List.cons_append, run, step_hashLine st l c hB hc]
      rw [ih' _ hB1]
      simp only [commentOf, hc]
      cases run _ X <;> simp

/-- Positive specification, general form: a block of `# …` comment lines and blank lines in any order, then an ordinary statement - the
    statement's record carries the gathered comment (`commentOf`), wherever the blank lines are. -/
theorem numbered_comments_attach (pre post block : List Str) (stmt : Str)
    (st' : St) (out : List Rec) (hpre : runPre St.init pre = .ok (st', out))
    (hB : st'.atBoundary = true) (hml : st'.mlComment = false)
    (hblock : ∀ l ∈ block, strip l = [] ∨ ∃ c, strip l = '#' :: c) (hs : plainStmt (strip stmt) = true) :
    numbered (pre ++ (block ++ stmt :: post)) =
      (run { st' with comment := none, pending := none } post).map fun rest =>
        out ++ { text := firstPart (strip stmt), indentation := lead stmt, comment := commentOf st'.comment block } :: rest := by
  unfold numbered
  rw [run_append, hpre]
  have hB1 : ({ st' with comment := commentOf st'.comment block } : St).atBoundary = true := by
    simpa [St.atBoundary] using hB
  have hstep := step_plainStmt { st' with comment := commentOf st'.comment block } stmt hB1 hml hs
  simp only []
  rw [run_commentLines block hblock _ st' hB]
  simp only [run, hstep]
  cases run { st' with comment := none, pending := none } post <;> simp [Except.map]

/-- the blank lines of a block are irrelevant for the gathered comment -/
theorem commentOf_blank (cur : Option Str) (a b : List Str) (l : Str) (hl : strip l = []) :
    commentOf cur (a ++ l :: b) = commentOf cur (a ++ b) := by
  induction a generalizing cur with
  | nil => simp [commentOf, hl]
  | cons x xs ih =>
    simp only [List.cons_append, commentOf]
    split <;> exact ih _

theorem pointwise_map (R : Str → Str → Prop) (f : Str → Str) (h : ∀ l, R l (f l)) : ∀ ls : List Str, Pointwise R ls (ls.map f)
  | [] => Pointwise.nil
  | l :: ls => Pointwise.cons (h l) (pointwise_map R f h ls)

theorem step_oneLineBlock (st : St) (l body : Str) (hB : st.atBoundary = true) (hml : st.mlComment = false)
    (h : oneLineBlock (strip l) = some body) :
    step st l = .ok ({ st with comment := some body }, []) := by
  simp only [St.atBoundary, Bool.and_eq_true, Option.isNone_iff_eq_none] at hB
  unfold oneLineBlock at h
  simp only [] at h
  split at h
  · rename_i hc
    simp only [Bool.and_eq_true, Bool.not_eq_true', List.isEmpty_eq_false_iff, Bool.or_eq_false_iff] at hc
    obtain ⟨⟨⟨⟨h1, h2⟩, h3⟩, h4⟩, h5, h6⟩ := hc
    injection h with h
    unfold step stepV
    simp [hB.1, hB.2, h1, h2, h3, h4, hml, h5, h6, h]
  · cases h

theorem oneLineBlock_hash (c : Str) : oneLineBlock ('#' :: c) = none := by
  simp [oneLineBlock, startsWith]

theorem run_commentLinesB (ls : List Str)
    (h : ∀ l ∈ ls, strip l = [] ∨ (∃ c, strip l = '#' :: c) ∨ ∃ body, oneLineBlock (strip l) = some body) (X : List Str) : ∀ (st : St),
    st.atBoundary = true → st.mlComment = false → run st (ls ++ X) = run { st with comment := commentOfB st.comment ls } X := by
  induction ls with
  | nil => intro st _ _; rfl
  | cons l ls ih =>
    intro st hB hml
    have ih' := ih (fun x hx => h x (by simp [hx]))
    rcases h l (by simp) with hb | ⟨c, hc⟩ | ⟨body, hbody⟩
    · simp only [List.cons_append, run, step_blank st l hb hB]
      rw [ih' st hB hml]
      have : commentOfB st.comment (l :: ls) = commentOfB st.comment ls := by
        simp [commentOfB, hb, oneLineBlock]
      rw [this]
      cases run _ X <;> simp
    · have hB1 : ({ st with comment := addComment st.comment (strip c) } : St).atBoundary = true := by
        simpa [St.atBoundary] using hB
      simp only [List.cons_append, run, step_hashLine st l c hB hc]
      rw [ih' _ hB1 hml]
      simp only [commentOfB, hc]
      cases run _ X <;> simp
    · have hB1 : ({ st with comment := some body } : St).atBoundary = true := by
        simpa [St.atBoundary] using hB
      simp only [List.cons_append, run, step_oneLineBlock st l body hB hml hbody]
      rw [ih' _ hB1 hml]
      have : commentOfB st.comment (l :: ls) = commentOfB (some body) ls := by
        cases hs : strip l with
        | nil => rw [hs] at hbody; simp [oneLineBlock] at hbody
        | cons a r =>
          by_cases ha : a = '#'
          · subst ha; rw [hs, oneLineBlock_hash] at hbody; cases hbody
          · rw [hs] at hbody
            simp only [commentOfB, hs]
            split
            · rename_i c' heq; simp at heq; exact absurd heq.1 ha
            · simp [hbody]
      rw [this]
      cases run _ X <;> simp

theorem numbered_comment_block_attach (pre post block : List Str) (stmt : Str)
    (st' : St) (out : List Rec) (hpre : runPre St.init pre = .ok (st', out))
    (hB : st'.atBoundary = true) (hml : st'.mlComment = false)
    (hblock : ∀ l ∈ block, strip l = [] ∨ (∃ c, strip l = '#' :: c) ∨ ∃ body, oneLineBlock (strip l) = some body)
    (hs : plainStmt (strip stmt) = true) :
    numbered (pre ++ (block ++ stmt :: post)) =
      (run { st' with comment := none, pending := none } post).map fun rest =>
        out ++ { text := firstPart (strip stmt), indentation := lead stmt, comment := commentOfB st'.comment block } :: rest := by
  unfold numbered
  rw [run_append, hpre]
  have hB1 : ({ st' with comment := commentOfB st'.comment block } : St).atBoundary = true := by
    simpa [St.atBoundary] using hB
  have hstep := step_plainStmt { st' with comment := commentOfB st'.comment block } stmt hB1 hml hs
  simp only []
  rw [run_commentLinesB block hblock _ st' hB hml]
  simp only [run, hstep]
  cases run { st' with comment := none, pending := none } post <;> simp [Except.map]

theorem step_openLine (st : St) (l t : Str) (hB : st.atBoundary = true) (hml : st.mlComment = false) (h : openLine (strip l) = some t) :
    step st l = .ok ({ st with mlComment := true, comment := some t }, []) := by
  simp only [St.atBoundary, Bool.and_eq_true, Option.isNone_iff_eq_none] at hB
  unfold openLine at h
  simp only [] at h
  split at h
  · rename_i hc
    simp only [Bool.and_eq_true, Bool.not_eq_true', List.isEmpty_eq_false_iff] at hc
    obtain ⟨⟨⟨⟨h1, h2⟩, h3⟩, h4⟩, h5⟩ := hc
    injection h with h
    unfold step stepV
    simp [hB.1, hB.2, h1, h2, h3, h4, hml, h]
    intro h6
    simpa [h6] using h5
  · cases h

theorem step_midLine (st : St) (l c p : Str) (hB : st.atBoundary = true) (hml : st.mlComment = true) (hc : st.comment = some c)
    (h : midLine (strip l) = some p) :
    step st l = .ok ({ st with comment := some (c ++ '\n' :: p) }, []) := by
  simp only [St.atBoundary, Bool.and_eq_true, Option.isNone_iff_eq_none] at hB
  unfold midLine at h
  simp only [] at h
  split at h
  · rename_i hcnd
    simp only [Bool.and_eq_true, Bool.not_eq_true', List.isEmpty_eq_false_iff] at hcnd
    obtain ⟨⟨⟨h1, h2⟩, h3⟩, h4⟩ := hcnd
    injection h with h
    subst h
    unfold step stepV
    simp [hB.1, hB.2, h1, h2, h3, h4, hml, hc]
  · cases h

theorem step_closeLine (st : St) (l c t : Str) (hB : st.atBoundary = true) (hml : st.mlComment = true) (hc : st.comment = some c)
    (h : closeLine (strip l) = some t) :
    step st l = .ok ({ st with mlComment := false, comment := some (c ++ '\n' :: t) }, []) := by
  simp only [St.atBoundary, Bool.and_eq_true, Option.isNone_iff_eq_none] at hB
  unfold closeLine at h
  simp only [] at h
  split at h
  · rename_i hcnd
    simp only [Bool.and_eq_true, Bool.not_eq_true', List.isEmpty_eq_false_iff] at hcnd
    obtain ⟨⟨⟨h1, h2⟩, h3⟩, h4⟩ := hcnd
    injection h with h
    unfold step stepV
    simp [hB.1, hB.2, h1, h2, h3, h4, hml, hc, h]
  · cases h

theorem runPre_append (a b : List Str) : ∀ st : St,
    runPre st (a ++ b) =
      match runPre st a with
      | .error e => .error e
      | .ok (s1, o1) =>
        match runPre s1 b with
        | .error e => .error e
        | .ok (s2, o2) => .ok (s2, o1 ++ o2) := by
  induction a with
  | nil => intro st; simp only [List.nil_append, runPre]; cases runPre st b <;> simp
  | cons l ls ih =>
    intro st
    simp only [List.cons_append, runPre]
    cases step st l with
    | error e => rfl
    | ok p =>
      simp only [ih p.1]
      cases runPre p.1 ls with
      | error e => rfl
      | ok q =>
        simp only []
        cases runPre q.1 b with
        | error e => rfl
        | ok r => simp [List.append_assoc]

theorem runPre_mids (mids : List Str) (h : ∀ l ∈ mids, strip l = [] ∨ ∃ p, midLine (strip l) = some p) : ∀ (st : St) (c : Str),
    st.atBoundary = true → st.mlComment = true → st.comment = some c →
    runPre st mids = .ok ({ st with comment := some (blockBody c mids) }, []) := by
  induction mids with
  | nil => intro st c _ _ hc; simp [runPre, blockBody, ← hc]
  | cons l ls ih =>
    intro st c hB hml hc
    have ih' := ih (fun x hx => h x (by simp [hx]))
    rcases h l (by simp) with hb | ⟨p, hp⟩
    · simp only [runPre, step_blank st l hb hB]
      rw [ih' st c hB hml hc]
      simp [blockBody, hb, midLine]
    · have hB1 : ({ st with comment := some (c ++ '\n' :: p) } : St).atBoundary = true := by simpa [St.atBoundary] using hB
      simp only [runPre, step_midLine st l c p hB hml hc hp]
      rw [ih' _ (c ++ '\n' :: p) hB1 hml rfl]
      simp [blockBody, hp]

/-- a whole multi-line `\"\"\"` comment block: opener, middle lines (blank lines anywhere among them), closer -/
theorem runPre_mlBlock (st : St) (openL closeL t u : Str) (mids : List Str)
    (hB : st.atBoundary = true) (hml : st.mlComment = false)
    (ho : openLine (strip openL) = some t) (hm : ∀ l ∈ mids, strip l = [] ∨ ∃ p, midLine (strip l) = some p)
    (hc : closeLine (strip closeL) = some u) :
    runPre st (openL :: (mids ++ [closeL])) =
      .ok ({ st with mlComment := false, comment := some (blockBody t mids ++ '\n' :: u) }, []) := by
  have hB1 : ({ st with mlComment := true, comment := some t } : St).atBoundary = true := by simpa [St.atBoundary] using hB
  have hB2 : ({ st with mlComment := true, comment := some (blockBody t mids) } : St).atBoundary = true := by simpa [St.atBoundary] using hB
  simp only [runPre, step_openLine st openL t hB hml ho]
  rw [runPre_append, runPre_mids mids hm _ t hB1 rfl rfl]
  simp only [runPre, step_closeLine _ closeL (blockBody t mids) u hB2 rfl rfl hc]
  simp

end NemoVerif.NumberedLines
