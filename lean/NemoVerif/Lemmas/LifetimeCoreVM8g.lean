/-
  C06 / refinement CoreVM → Lifetime, part 8g: the `send` element of `slide` (`slideStep`, case `.sendOp spec`) is invisible to `absVM`:
  an internal event is pushed to the queue (which `absVM` does not abstract) and the head moves; for any other event the slide stops.
-/
import NemoVerif.Lemmas.LifetimeCoreVM8f
namespace NemoVerif.Lifetime.Refine
open NemoVerif NemoVerif.CoreVM NemoVerif.CoreIndex NemoVerif.Lifetime

/-- hypothesis: building the event object of a `send` element (expression evaluation, temporary `Action` / flow objects that burn
    uids) leaves index, instance table and action table alone -/
def EventFrame (f : FUid) (spec : Spec) : Prop :=
  ∀ vm e vm', getEvent f spec false vm = .ok e vm' → vm'.ixs = vm.ixs ∧ vm'.r.fx = vm.r.fx ∧ vm'.r.actions = vm.r.actions

variable (ν φ : String → Nat)

theorem slideStep_send_frame (fuel : Nat) (f : FUid) (h : HUid) (vm vm' : VM) (cfg : FlowCfg) (hd : Head) (spec : Spec)
    (r : Bool × List Key)
    (hcfg : cfgOfInst f vm = .ok cfg vm) (hhd : getHead? (f, h) vm = .ok (some hd) vm)
    (hpos : ¬ (hd.pos ≥ cfg.elements.size ∨ hd.status = .inactive))
    (hel : cfg.elements[hd.pos]! = .sendOp spec) (hw : WF vm) (hev : EventFrame f spec) (hro : NameRO f (hd.pos + 1))
    (hrun : slideStep fuel f h vm = .ok r vm') : absVM ν φ vm' = absVM ν φ vm ∧ WF vm' := by
  unfold slideStep at hrun
  simp only [bind, EStateM.bind, hcfg, hhd] at hrun
  have hp : (decide (hd.pos ≥ cfg.elements.size) || decide (hd.status = HeadStatus.inactive)) = false := by
    cases hb : (decide (hd.pos ≥ cfg.elements.size) || decide (hd.status = HeadStatus.inactive)) with
    | false => rfl
    | true => exact absurd (by simpa using hb) hpos
  rw [hp, hel] at hrun
  simp only [Bool.false_eq_true, if_false, EStateM.bind] at hrun
  cases hge : getEvent f spec false vm with
  | error e s => rw [hge] at hrun; cases hrun
  | ok e vm1 =>
    rw [hge] at hrun
    obtain ⟨e1, e2, e3⟩ := hev _ _ _ hge
    have w1 : WF vm1 := hw.of_same e1 e2 e3
    have a1 : absVM ν φ vm1 = absVM ν φ vm := absVM_of_same ν φ vm vm1 (fun _ => by rw [e1]) e2 e3
    simp only at hrun
    -- the two pushes differ only in the event arguments: a common tail
    have tail : ∀ (ev : Event) (vmS : VM), WF vmS → absVM ν φ vmS = absVM ν φ vm →
        (EStateM.bind (pushEvent ev) fun _ => EStateM.bind (setHeadPos (f, h) (hd.pos + 1)) fun _ => pure (false, [])) vmS = .ok r vm' →
        absVM ν φ vm' = absVM ν φ vm ∧ WF vm' := by
      intro ev vmS wS aS ht
      simp only [EStateM.bind] at ht
      obtain ⟨vmP, hpush, hP⟩ : ∃ vmP : VM, pushEvent ev vmS = .ok () vmP ∧
          (vmP.ixs = vmS.ixs ∧ vmP.r.fx = vmS.r.fx ∧ vmP.r.actions = vmS.r.actions) := ⟨_, rfl, ⟨rfl, rfl, rfl⟩⟩
      rw [hpush] at ht
      simp only at ht
      cases hsp : setHeadPos (f, h) (hd.pos + 1) vmP with
      | error e s => rw [hsp] at ht; cases ht
      | ok u vm2 =>
        rw [hsp] at ht
        cases ht
        have wP : WF vmP := wS.of_same hP.1 hP.2.1 hP.2.2
        obtain ⟨a2, w2⟩ := setHeadPos_abs ν φ (f, h) (hd.pos + 1) vmP vm' wP hro hsp
        refine ⟨?_, w2⟩
        rw [a2, absVM_of_same ν φ vmS vmP (fun _ => by rw [hP.1]) hP.2.1 hP.2.2, aS]
    split at hrun
    · cases hrun; exact ⟨a1, w1⟩
    · split at hrun
      · split at hrun
        · -- `StartFlow` without `flow_id`: the sending flow raises (fixes/C10-startflow-requires-flow-id.diff)
          simp only [EStateM.bind, pyRaise, throw, throwThe, MonadExceptOf.throw, EStateM.throw] at hrun
          cases hrun
        · simp only [EStateM.bind] at hrun
          cases hx : OMap.lookup f vm1.r.fx with
          | none => rw [getInstX_run_none f vm1 hx] at hrun; cases hrun
          | some x =>
            rw [getInstX_run_some f vm1 x hx] at hrun
            simp only at hrun
            obtain ⟨sc, hsc⟩ := headScores_run (f, h) vm1
            rw [hsc] at hrun
            exact tail _ vm1 w1 a1 hrun
      · simp only [EStateM.bind] at hrun
        obtain ⟨sc, hsc⟩ := headScores_run (f, h) vm1
        rw [hsc] at hrun
        exact tail _ vm1 w1 a1 hrun

end NemoVerif.Lifetime.Refine
