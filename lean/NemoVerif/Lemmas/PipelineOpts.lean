/-
  Lemmas about `PipelineOpts.turn`: the rail loops, what each phase may put into the trace, and the
  start/finish structure of the log each phase writes.
-/
import NemoVerif.Generated.C16
import NemoVerif.Models.PipelineOpts
import NemoVerif.Lemmas.GenLog

namespace NemoVerif.PipelineOpts
open NemoVerif.OptGuard NemoVerif.GenLog

/-! ### the rail loops -/

theorem runRails_outcome (c : Cat) : ∀ (rs : List Rail) (i : Nat) (t : String), (runRails c i rs t).2.2 = chain rs t
  | [], _, _ => rfl
  | r :: rs, i, t => by
    simp only [runRails, chain]
    cases hv : r.verdict t with
    | accept => simp only []; rw [← runRails_outcome c rs (i + 1) t]
    | rewrite t' => simp only []; rw [← runRails_outcome c rs (i + 1) t']
    | reject => rfl
    | fault => rfl

theorem runRails_trace (c : Cat) : ∀ (rs : List Rail) (i : Nat) (t : String),
    ∀ s ∈ (runRails c i rs t).1, ∃ j n x, s = Step.railCall c j n x
  | [], _, _ => by intro s hs; simp [runRails] at hs
  | r :: rs, i, t => by
    intro s hs
    simp only [runRails] at hs
    cases hv : r.verdict t with
    | accept =>
      rw [hv] at hs; simp only [List.mem_cons] at hs
      rcases hs with rfl | hs
      · exact ⟨_, _, _, rfl⟩
      · exact runRails_trace c rs (i + 1) t s hs
    | rewrite t' =>
      rw [hv] at hs; simp only [List.mem_cons] at hs
      rcases hs with rfl | hs
      · exact ⟨_, _, _, rfl⟩
      · exact runRails_trace c rs (i + 1) t' s hs
    | reject => rw [hv] at hs; simp at hs; exact ⟨_, _, _, hs⟩
    | fault => rw [hv] at hs; simp at hs; exact ⟨_, _, _, hs⟩

theorem runRetrieval_trace : ∀ (rs : List Rail) (i : Nat), ∀ s ∈ (runRetrieval i rs).1, ∃ j n x, s = Step.railCall .retrieval j n x
  | [], _ => by intro s hs; simp [runRetrieval] at hs
  | r :: rs, i => by
    intro s hs
    simp only [runRetrieval, List.mem_cons] at hs
    rcases hs with rfl | hs
    · exact ⟨_, _, _, rfl⟩
    · exact runRetrieval_trace rs (i + 1) s hs

/-! ### the log automaton: which rail is open at the end -/

def starts : List LogEv → List (RailType × String)
  | [] => []
  | e :: rest => match e.startOf with
    | some k => k :: starts rest
    | none => starts rest

/-- open/closed state after a log: a start opens, a finish closes -/
def openEnd : Bool → List LogEv → Bool
  | b, [] => b
  | b, e :: rest => match e with
    | .startIn _ => openEnd true rest
    | .startOut _ => openEnd true rest
    | .railFin => openEnd false rest
    | _ => openEnd b rest

theorem starts_append (a b : List LogEv) : starts (a ++ b) = starts a ++ starts b := by
  induction a with
  | nil => rfl
  | cons e rest ih => simp only [List.cons_append, starts]; split <;> simp [ih]

theorem openEnd_append (a c : List LogEv) : ∀ b, openEnd b (a ++ c) = openEnd (openEnd b a) c := by
  induction a with
  | nil => intro b; rfl
  | cons e rest ih => intro b; cases e <;> simp only [List.cons_append, openEnd, ih]

/-- no start / finish marker inside -/
def CleanLog (l : List LogEv) : Prop := l.any LogEv.isStartOrFin = false

theorem CleanLog.append {a b : List LogEv} (ha : CleanLog a) (hb : CleanLog b) : CleanLog (a ++ b) := by
  simp only [CleanLog, List.any_append, Bool.or_eq_false_iff] at *; exact ⟨ha, hb⟩

theorem CleanLog.cons_inv {e : LogEv} {l : List LogEv} (h : CleanLog (e :: l)) : e.isStartOrFin = false ∧ CleanLog l := by
  simpa [CleanLog, List.any_cons, Bool.or_eq_false_iff] using h

theorem clean_starts : ∀ l : List LogEv, CleanLog l → starts l = []
  | [], _ => rfl
  | e :: rest, h => by
    obtain ⟨h1, h2⟩ := h.cons_inv
    cases e <;> simp_all [starts, LogEv.startOf, LogEv.isStartOrFin, clean_starts rest]

theorem clean_openEnd : ∀ (l : List LogEv), CleanLog l → ∀ b, openEnd b l = b
  | [], _, _ => rfl
  | e :: rest, h, b => by
    obtain ⟨h1, h2⟩ := h.cons_inv
    cases e <;> simp_all [openEnd, LogEv.isStartOrFin, clean_openEnd rest]

theorem openEnd_any : ∀ (l : List LogEv), l.any LogEv.isStartOrFin = true → ∀ b b', openEnd b l = openEnd b' l
  | [], h, _, _ => by simp at h
  | e :: rest, h, b, b' => by
    cases e with
    | startIn _ => rfl
    | startOut _ => rfl
    | railFin => rfl
    | step f n => simp only [List.any_cons, LogEv.isStartOrFin, Bool.false_or] at h; exact openEnd_any rest h b b'
    | actStart n => simp only [List.any_cons, LogEv.isStartOrFin, Bool.false_or] at h; exact openEnd_any rest h b b'
    | actFin n => simp only [List.any_cons, LogEv.isStartOrFin, Bool.false_or] at h; exact openEnd_any rest h b b'
    | llm n => simp only [List.any_cons, LogEv.isStartOrFin, Bool.false_or] at h; exact openEnd_any rest h b b'
    | other => simp only [List.any_cons, LogEv.isStartOrFin, Bool.false_or] at h; exact openEnd_any rest h b b'

theorem starts_any : ∀ (l : List LogEv), starts l ≠ [] → l.any LogEv.isStartOrFin = true
  | [], h => by simp [starts] at h
  | e :: rest, h => by
    cases e <;> simp_all [starts, LogEv.startOf, LogEv.isStartOrFin, starts_any rest]

/-- with no start inside, the state stays open iff no finish comes -/
theorem openEnd_true_nostarts : ∀ (l : List LogEv), starts l = [] → openEnd true l = !(l.any LogEv.isStartOrFin)
  | [], _ => rfl
  | e :: rest, h => by
    cases e with
    | startIn _ => simp [starts, LogEv.startOf] at h
    | startOut _ => simp [starts, LogEv.startOf] at h
    | railFin =>
      have h' : starts rest = [] := by simpa [starts, LogEv.startOf] using h
      have hc : CleanLog rest ∨ rest.any LogEv.isStartOrFin = true := by
        cases hb : rest.any LogEv.isStartOrFin <;> simp [CleanLog, hb]
      simp only [openEnd, List.any_cons, LogEv.isStartOrFin, Bool.true_or, Bool.not_true]
      rcases hc with hc | hc
      · exact clean_openEnd rest hc false
      · rw [openEnd_any rest hc false true, openEnd_true_nostarts rest h', hc]; rfl
    | step f n => simpa [starts, LogEv.startOf, openEnd, LogEv.isStartOrFin] using openEnd_true_nostarts rest (by simpa [starts, LogEv.startOf] using h)
    | actStart n => simpa [starts, LogEv.startOf, openEnd, LogEv.isStartOrFin] using openEnd_true_nostarts rest (by simpa [starts, LogEv.startOf] using h)
    | actFin n => simpa [starts, LogEv.startOf, openEnd, LogEv.isStartOrFin] using openEnd_true_nostarts rest (by simpa [starts, LogEv.startOf] using h)
    | llm n => simpa [starts, LogEv.startOf, openEnd, LogEv.isStartOrFin] using openEnd_true_nostarts rest (by simpa [starts, LogEv.startOf] using h)
    | other => simpa [starts, LogEv.startOf, openEnd, LogEv.isStartOrFin] using openEnd_true_nostarts rest (by simpa [starts, LogEv.startOf] using h)

theorem markLast_cons2 (b : Bool) (k k' : RailType × String) (l : List (RailType × String)) :
    markLast b (k :: k' :: l) = ⟨k.1, k.2, false⟩ :: markLast b (k' :: l) := by
  obtain ⟨t, n⟩ := k; rfl

/-- `stopSpec` in automaton form: one key per start, `stop` on the last one iff a rail is open at the end. -/
theorem stopSpec_eq_markLast : ∀ (l : List LogEv) (b : Bool), (starts l ≠ [] ∨ b = false) → stopSpec l = markLast (openEnd b l) (starts l)
  | [], _, _ => rfl
  | e :: rest, b, hb => by
    cases hso : e.startOf with
    | some k =>
      obtain ⟨t, n⟩ := k
      have he : openEnd b (e :: rest) = openEnd true rest := by
        cases e <;> simp_all [LogEv.startOf, openEnd]
      simp only [stopSpec, starts, hso, he]
      cases hs : starts rest with
      | nil =>
        rw [openEnd_true_nostarts rest hs]
        have : stopSpec rest = [] := by
          have := stopSpec_eq_markLast rest false (Or.inr rfl); rw [hs] at this; simpa [markLast] using this
        simp [this, markLast]
      | cons k' l' =>
        have hne : starts rest ≠ [] := by simp [hs]
        have hany := starts_any rest hne
        have ih := stopSpec_eq_markLast rest true (Or.inl hne)
        rw [hs] at ih
        rw [markLast_cons2, ih, hany]; rfl
    | none =>
      have he : openEnd b (e :: rest) = openEnd (if e = .railFin then false else b) rest := by
        cases e <;> simp_all [LogEv.startOf, openEnd]
      have hs' : starts (e :: rest) = starts rest := by simp [starts, hso]
      simp only [stopSpec, hso, hs', he]
      apply stopSpec_eq_markLast rest
      rcases hb with hb | hb
      · left; rwa [hs'] at hb
      · right; subst hb; split <;> rfl

end NemoVerif.PipelineOpts

namespace NemoVerif.PipelineOpts
open NemoVerif.OptGuard NemoVerif.GenLog

/-! ### The guards of the current `llm_flows.co`, evaluated

  These nine facts are where an edit of a guard in `llm_flows.co` surfaces: `Gd` is regenerated from the file on
  every run and each fact is re-checked by the kernel. -/

abbrev Gd : Guards := NemoVerif.Generated.C16.guards

/-- is category `c` selected?  (`generate` without options selects everything) -/
def sel (opts : Option Opts) (c : Cat) : Bool :=
  match opts with
  | none => true
  | some o => o.get c

theorem guard_inputCfg (e : Env) : Gd.inputCfg.eval e = some (e.hasFlows .input) := rfl
theorem guard_retrievalCfg (e : Env) : Gd.retrievalCfg.eval e = some (e.hasFlows .retrieval) := rfl
theorem guard_outputCfg (e : Env) : Gd.outputCfg.eval e = some (e.hasFlows .output) := rfl
theorem guard_skipOut (e : Env) : Gd.skipOut.eval e = some e.skip := rfl
theorem guard_inputOpt (opts : Option Opts) (hf : Cat → Bool) (sk : Bool) :
    Gd.inputOpt.eval ⟨opts, hf, sk⟩ = some (sel opts .input) := by cases opts <;> rfl
theorem guard_retrievalOpt (opts : Option Opts) (hf : Cat → Bool) (sk : Bool) :
    Gd.retrievalOpt.eval ⟨opts, hf, sk⟩ = some (sel opts .retrieval) := by cases opts <;> rfl
theorem guard_outputOpt (opts : Option Opts) (hf : Cat → Bool) (sk : Bool) :
    Gd.outputOpt.eval ⟨opts, hf, sk⟩ = some (sel opts .output) := by cases opts <;> rfl
/-- `run dialog rails`, first test: options present and dialog not selected -/
theorem guard_dialogOff (opts : Option Opts) (hf : Cat → Bool) (sk : Bool) :
    Gd.dialogOff.eval ⟨opts, hf, sk⟩ = some (!sel opts .dialog) := by cases opts <;> rfl
/-- `run dialog rails`, second test (only reached with options present) -/
theorem guard_outputOff (o : Opts) (hf : Cat → Bool) (sk : Bool) :
    Gd.outputOff.eval ⟨some o, hf, sk⟩ = some (!o.output) := rfl

/-! ### `turn` with the guards resolved to booleans -/

def retrievalPartR (cfg : Cfg) (opts : Option Opts) : List Step × List LogEv :=
  if cfg.hasFlows .retrieval && sel opts .retrieval then runRetrieval 0 cfg.retrieval else ([], [])

def botIntentSegR (cfg : Cfg) (opts : Option Opts) (predefined : Bool) : List Step × List LogEv :=
  ((retrievalPartR cfg opts).1 ++ (if predefined then [] else [Step.llmCall]),
   [LogEv.step gbmFlow [.act "retrieve_relevant_chunks"], .actStart "retrieve_relevant_chunks", .actFin "retrieve_relevant_chunks"]
   ++ (retrievalPartR cfg opts).2 ++ [LogEv.step gbmFlow [.act "generate_bot_message"], .actStart "generate_bot_message"]
   ++ (if predefined then [] else [LogEv.llm "generate_bot_message"]) ++ [LogEv.actFin "generate_bot_message"])

def blockedTailR (cfg : Cfg) (opts : Option Opts) (c : Cat) (name : String) : Out :=
  if cfg.exceptions then { trace := [.exception c name], log := [], reply := .exception c, blocker := some (c, name), skipAfter := false }
  else { trace := (botIntentSegR cfg opts true).1 ++ [.utter cfg.refusal],
         log := LogEv.step name [.intent "refuse to respond"] :: (botIntentSegR cfg opts true).2,
         reply := .text cfg.refusal, blocker := some (c, name), skipAfter := false }

def outputPhaseR (cfg : Cfg) (opts : Option Opts) (bm : String) : Out :=
  match runRails .output 0 cfg.output bm with
  | (tr, lg, .passed t) => { trace := tr ++ [.utter t], log := lg, reply := .text t, blocker := none, skipAfter := false }
  | (tr, lg, .blocked n) => (blockedTailR cfg opts .output n).prepend tr lg
  | (tr, lg, .faulted n) => { trace := tr ++ [.utter cfg.internalError], log := lg, reply := .text cfg.internalError, blocker := some (.output, n), skipAfter := false }

def processBotMessageR (cfg : Cfg) (opts : Option Opts) (skip : Bool) (bm : String) : Out :=
  if skip then { trace := [.utter bm], log := [], reply := .text bm, blocker := none, skipAfter := false }
  else if cfg.hasFlows .output && sel opts .output then outputPhaseR cfg opts bm
  else { trace := [.utter bm], log := [], reply := .text bm, blocker := none, skipAfter := false }

def afterInputR (cfg : Cfg) (opts : Option Opts) (um : String) (bot : Option String) (dlg : Dialog) : Out :=
  if !sel opts .dialog then
    if !sel opts .output then { trace := [.utter um], log := [], reply := .text um, blocker := none, skipAfter := false }
    else match bot with
      | none => { trace := [], log := [], reply := .noBotMessage, blocker := none, skipAfter := false }
      | some b => processBotMessageR cfg opts false b
  else match dlg with
    | .general text => (processBotMessageR cfg opts false text).prepend [.llmCall] (guiSeg "general")
    | .intent flow bi predefined text =>
      (processBotMessageR cfg opts predefined text).prepend ([.llmCall] ++ (botIntentSegR cfg opts predefined).1)
        (guiSeg "generate_user_intent" ++ [LogEv.step flow [.intent bi]] ++ (botIntentSegR cfg opts predefined).2)

def turnCoreR (cfg : Cfg) (opts : Option Opts) (user : String) (bot : Option String) (dlg : Dialog) : Out :=
  match (if cfg.hasFlows .input && sel opts .input then runRails .input 0 cfg.input user else ([], [], .passed user)) with
  | (tr1, lg1, .blocked n) => (blockedTailR cfg opts .input n).prepend tr1 lg1
  | (tr1, lg1, .faulted n) => { trace := tr1 ++ [.utter cfg.internalError], log := lg1, reply := .text cfg.internalError, blocker := some (.input, n), skipAfter := false }
  | (tr1, lg1, .passed um) => (afterInputR cfg opts um bot dlg).prepend tr1 lg1

theorem retrievalPart_eq (cfg : Cfg) (opts : Option Opts) (sk : Bool) :
    retrievalPart Gd cfg ⟨opts, cfg.hasFlows, sk⟩ = some (retrievalPartR cfg opts) := by
  simp only [retrievalPart, guard_retrievalCfg, guard_retrievalOpt, retrievalPartR, bind, Option.bind, pure]
  cases cfg.hasFlows .retrieval <;> cases sel opts .retrieval <;> rfl

theorem botIntentSeg_eq (cfg : Cfg) (opts : Option Opts) (sk : Bool) (p : Bool) :
    botIntentSeg Gd cfg ⟨opts, cfg.hasFlows, sk⟩ p = some (botIntentSegR cfg opts p) := by
  simp only [botIntentSeg, retrievalPart_eq, bind, Option.bind, pure, botIntentSegR]

theorem blockedTail_eq (cfg : Cfg) (opts : Option Opts) (c : Cat) (n : String) :
    blockedTail Gd cfg ⟨opts, cfg.hasFlows, false⟩ c n = some (blockedTailR cfg opts c n) := by
  simp only [blockedTail, blockedTailR, botIntentSeg_eq, guard_skipOut, bind, Option.bind, pure]
  cases cfg.exceptions <;> simp

theorem processBotMessage_eq (cfg : Cfg) (opts : Option Opts) (sk : Bool) (bm : String) :
    processBotMessage Gd cfg ⟨opts, cfg.hasFlows, sk⟩ bm = some (processBotMessageR cfg opts sk bm) := by
  simp only [processBotMessage, processBotMessageR, guard_skipOut, guard_outputCfg, guard_outputOpt, bind, Option.bind, pure]
  cases sk
  · cases cfg.hasFlows .output <;> cases sel opts .output <;> simp [outputPhaseR]
    rcases runRails Cat.output 0 cfg.output bm with ⟨tr, lg, o⟩
    cases o <;> simp [blockedTail_eq]
  · simp

theorem afterInput_eq (cfg : Cfg) (opts : Option Opts) (um : String) (bot : Option String) (dlg : Dialog) :
    afterInput Gd cfg ⟨opts, cfg.hasFlows, false⟩ um bot dlg = some (afterInputR cfg opts um bot dlg) := by
  unfold afterInput afterInputR
  simp only [guard_dialogOff, bind, Option.bind, pure]
  cases opts with
  | none =>
    simp only [sel, Bool.not_true, Bool.false_eq_true, if_false]
    cases dlg <;> simp [processBotMessage_eq, botIntentSeg_eq]
  | some o =>
    obtain ⟨i, d, r, ou⟩ := o
    simp only [guard_outputOff, sel, Opts.get]
    cases d <;> cases ou <;> cases bot <;> cases dlg <;> simp [processBotMessage_eq, botIntentSeg_eq]

theorem turnCore_eq (cfg : Cfg) (opts : Option Opts) (user : String) (bot : Option String) (dlg : Dialog) :
    turnCore Gd cfg opts user bot dlg = some (turnCoreR cfg opts user bot dlg) := by
  unfold turnCore turnCoreFrom turnCoreR
  simp only [guard_inputCfg, guard_inputOpt, bind, Option.bind, pure]
  cases hf : cfg.hasFlows .input <;> cases hs : sel opts .input <;>
    simp only [Bool.and_true, Bool.and_false, Bool.false_and, if_true, if_false, Bool.false_eq_true, afterInput_eq, Option.map]
  rcases runRails Cat.input 0 cfg.input user with ⟨tr, lg, o⟩
  cases o <;> simp [blockedTail_eq, afterInput_eq]

/-- The model that evaluates the guards of the current `llm_flows.co` never hits a guard error and equals the
    boolean-resolved pipeline. -/
theorem turn_eq (cfg : Cfg) (opts : Option Opts) (user : String) (bot : Option String) (dlg : Dialog) :
    turn Gd cfg opts user bot dlg =
      some { turnCoreR cfg opts user bot dlg with log := LogEv.other :: ((turnCoreR cfg opts user bot dlg).log ++ [LogEv.other]) } := by
  simp [turn, turnCore_eq]


/-! ### which steps each phase may produce -/

theorem runRails_split (c : Cat) (rs : List Rail) (i : Nat) (t : String) :
    ∃ tr lg, runRails c i rs t = (tr, lg, chain rs t) := by
  have h := runRails_outcome c rs i t
  rcases hr : runRails c i rs t with ⟨tr, lg, o⟩
  rw [hr] at h
  exact ⟨tr, lg, by simp at h; rw [h]⟩

theorem retrievalPartR_allowed (cfg : Cfg) (o : Opts) : ∀ s ∈ (retrievalPartR cfg (some o)).1, Allowed o s := by
  intro s hs
  unfold retrievalPartR at hs
  split at hs
  · rename_i hc
    simp only [Bool.and_eq_true, sel] at hc
    obtain ⟨j, n, x, rfl⟩ := runRetrieval_trace _ _ s hs
    exact hc.2
  · simp at hs

theorem botIntentSegR_allowed (cfg : Cfg) (o : Opts) (p : Bool) (hp : p = true ∨ o.dialog = true) :
    ∀ s ∈ (botIntentSegR cfg (some o) p).1, Allowed o s := by
  intro s hs
  simp only [botIntentSegR, List.mem_append] at hs
  rcases hs with hs | hs
  · exact retrievalPartR_allowed cfg o s hs
  · cases p
    · simp at hs; subst hs; rcases hp with hp | hp
      · cases hp
      · exact hp
    · simp at hs

theorem blockedTailR_allowed (cfg : Cfg) (o : Opts) (c : Cat) (n : String) : ∀ s ∈ (blockedTailR cfg (some o) c n).trace, Allowed o s := by
  intro s hs
  unfold blockedTailR at hs
  split at hs
  · simp at hs; subst hs; trivial
  · simp only [List.mem_append, List.mem_singleton] at hs
    rcases hs with hs | hs
    · exact botIntentSegR_allowed cfg o true (Or.inl rfl) s hs
    · subst hs; trivial

theorem outputPhaseR_allowed (cfg : Cfg) (o : Opts) (bm : String) (ho : o.output = true) :
    ∀ s ∈ (outputPhaseR cfg (some o) bm).trace, Allowed o s := by
  intro s hs
  unfold outputPhaseR at hs
  have htr := runRails_trace .output cfg.output 0 bm
  rcases hr : runRails .output 0 cfg.output bm with ⟨tr, lg, oc⟩
  rw [hr] at hs htr
  have hrail : ∀ s ∈ tr, Allowed o s := by
    intro s hs; obtain ⟨j, n, x, rfl⟩ := htr s hs; exact ho
  cases oc with
  | passed t =>
    simp only [List.mem_append, List.mem_singleton] at hs
    rcases hs with hs | hs
    · exact hrail s hs
    · subst hs; trivial
  | blocked n =>
    simp only [Out.prepend, List.mem_append] at hs
    rcases hs with hs | hs
    · exact hrail s hs
    · exact blockedTailR_allowed cfg o .output n s hs
  | faulted n =>
    simp only [List.mem_append, List.mem_singleton] at hs
    rcases hs with hs | hs
    · exact hrail s hs
    · subst hs; trivial

theorem processBotMessageR_allowed (cfg : Cfg) (o : Opts) (sk : Bool) (bm : String) :
    ∀ s ∈ (processBotMessageR cfg (some o) sk bm).trace, Allowed o s := by
  intro s hs
  unfold processBotMessageR at hs
  split at hs
  · simp at hs; subst hs; trivial
  · split at hs
    · rename_i hc
      simp only [Bool.and_eq_true, sel] at hc
      exact outputPhaseR_allowed cfg o bm hc.2 s hs
    · simp at hs; subst hs; trivial

theorem afterInputR_allowed (cfg : Cfg) (o : Opts) (um : String) (bot : Option String) (dlg : Dialog) :
    ∀ s ∈ (afterInputR cfg (some o) um bot dlg).trace, Allowed o s := by
  intro s hs
  unfold afterInputR at hs
  split at hs
  · split at hs
    · simp at hs; subst hs; trivial
    · cases bot with
      | none => simp at hs
      | some b => exact processBotMessageR_allowed cfg o false b s hs
  · rename_i hd
    have hdia : o.dialog = true := by simpa [sel, Opts.get] using hd
    cases dlg with
    | general text =>
      simp only [Out.prepend, List.mem_append, List.mem_singleton] at hs
      rcases hs with hs | hs
      · subst hs; exact hdia
      · exact processBotMessageR_allowed cfg o false text s hs
    | intent flow bi p text =>
      simp only [Out.prepend, List.mem_append, List.mem_singleton] at hs
      rcases hs with (hs | hs) | hs
      · subst hs; exact hdia
      · exact botIntentSegR_allowed cfg o p (Or.inr hdia) s hs
      · exact processBotMessageR_allowed cfg o p text s hs

theorem turnCoreR_allowed (cfg : Cfg) (o : Opts) (user : String) (bot : Option String) (dlg : Dialog) :
    ∀ s ∈ (turnCoreR cfg (some o) user bot dlg).trace, Allowed o s := by
  intro s hs
  unfold turnCoreR at hs
  split at hs
  all_goals rename_i tr1 lg1 x heq
  all_goals
    have hrail : ∀ s' ∈ tr1, Allowed o s' := by
      intro s' hs'
      split at heq
      · rename_i hc
        simp only [Bool.and_eq_true, sel] at hc
        have htr := runRails_trace .input cfg.input 0 user
        rw [heq] at htr
        obtain ⟨j, n, y, rfl⟩ := htr s' hs'
        exact hc.2
      · cases heq <;> cases hs'
  · simp only [Out.prepend, List.mem_append] at hs
    rcases hs with hs | hs
    · exact hrail s hs
    · exact blockedTailR_allowed cfg o .input x s hs
  · simp only [List.mem_append, List.mem_singleton] at hs
    rcases hs with hs | hs
    · exact hrail s hs
    · subst hs; trivial
  · simp only [Out.prepend, List.mem_append] at hs
    rcases hs with hs | hs
    · exact hrail s hs
    · exact afterInputR_allowed cfg o x bot dlg s hs


/-! ### replies -/

theorem hasFlows_input (cfg : Cfg) (h : cfg.hasFlows .input = false) : cfg.input = [] := by
  simpa [Cfg.hasFlows] using h

theorem hasFlows_output (cfg : Cfg) (h : cfg.hasFlows .output = false) : cfg.output = [] := by
  simpa [Cfg.hasFlows] using h

/-- the input phase yields the outcome of the documented chain (nothing configured = nothing to consult) -/
theorem inputPhase_split (cfg : Cfg) (b : Bool) (user : String) :
    ∃ tr lg, (if cfg.hasFlows .input && b then runRails .input 0 cfg.input user else ([], [], Outcome.passed user))
      = (tr, lg, inOutcome cfg b user) := by
  cases hf : cfg.hasFlows .input <;> cases b <;> simp [inOutcome]
  · rw [hasFlows_input cfg hf]; rfl
  · exact runRails_split .input cfg.input 0 user

theorem blockedTailR_reply (cfg : Cfg) (opts : Option Opts) (c : Cat) (n : String) :
    (blockedTailR cfg opts c n).reply = replyOf cfg c (.blocked n) := by
  unfold blockedTailR replyOf; split <;> rfl

theorem outputPhaseR_reply (cfg : Cfg) (opts : Option Opts) (bm : String) :
    (outputPhaseR cfg opts bm).reply = replyOf cfg .output (chain cfg.output bm) := by
  unfold outputPhaseR
  obtain ⟨tr, lg, h⟩ := runRails_split .output cfg.output 0 bm
  rw [h]
  cases chain cfg.output bm <;> simp [replyOf, Out.prepend, blockedTailR_reply]

theorem processBotMessageR_reply (cfg : Cfg) (opts : Option Opts) (bm : String) :
    (processBotMessageR cfg opts false bm).reply = if sel opts .output then replyOf cfg .output (chain cfg.output bm) else .text bm := by
  unfold processBotMessageR
  cases hf : cfg.hasFlows .output <;> cases hs : sel opts .output <;> simp [outputPhaseR_reply]
  rw [hasFlows_output cfg hf]; rfl

theorem prepend_reply (tr : List Step) (lg : List LogEv) (o : Out) : (o.prepend tr lg).reply = o.reply := rfl
theorem prepend_trace (tr : List Step) (lg : List LogEv) (o : Out) : (o.prepend tr lg).trace = tr ++ o.trace := rfl
theorem prepend_log (tr : List Step) (lg : List LogEv) (o : Out) : (o.prepend tr lg).log = lg ++ o.log := rfl
theorem prepend_blocker (tr : List Step) (lg : List LogEv) (o : Out) : (o.prepend tr lg).blocker = o.blocker := rfl

theorem turnCoreR_reply_off (cfg : Cfg) (o : Opts) (hd : o.dialog = false) (user : String) (bot : Option String) (dlg : Dialog) :
    (turnCoreR cfg (some o) user bot dlg).reply = tableReply cfg o user bot := by
  obtain ⟨i, d, r, ou⟩ := o
  simp only at hd; subst hd
  unfold turnCoreR tableReply
  obtain ⟨tr, lg, h⟩ := inputPhase_split cfg (sel (some ⟨i, false, r, ou⟩) .input) user
  rw [h]
  simp only [sel, Opts.get]
  generalize inOutcome cfg i user = oc
  cases oc with
  | passed um =>
    simp only [prepend_reply, afterInputR, sel, Opts.get]
    cases ou <;> cases bot <;> simp [processBotMessageR_reply, sel, Opts.get]
  | blocked n => simp only [prepend_reply, blockedTailR_reply]
  | faulted n => simp only [replyOf]

theorem turnCoreR_reply_general (cfg : Cfg) (opts : Option Opts) (hd : sel opts .dialog = true) (user : String) (bot : Option String) (text : String) :
    (turnCoreR cfg opts user bot (.general text)).reply = generalReply cfg (sel opts .input) (sel opts .output) user text := by
  unfold turnCoreR generalReply
  obtain ⟨tr, lg, h⟩ := inputPhase_split cfg (sel opts .input) user
  rw [h]
  generalize inOutcome cfg (sel opts .input) user = oc
  cases oc with
  | passed um => simp [prepend_reply, afterInputR, hd, processBotMessageR_reply]
  | blocked n => simp only [prepend_reply, blockedTailR_reply]
  | faulted n => simp only [replyOf]


/-! ### the log `turn` writes vs. the rails it called -/

theorem ioCalls_append (a b : List Step) : ioCalls (a ++ b) = ioCalls a ++ ioCalls b := by
  induction a with
  | nil => rfl
  | cons s rest ih =>
    cases s with
    | railCall c i n x => simp only [List.cons_append, ioCalls]; split <;> simp [ih]
    | llmCall => simpa [ioCalls] using ih
    | utter t => simpa [ioCalls] using ih
    | exception c n => simpa [ioCalls] using ih

theorem ioCalls_retrieval : ∀ tr : List Step, (∀ s ∈ tr, ∃ j n x, s = Step.railCall .retrieval j n x) → ioCalls tr = []
  | [], _ => rfl
  | s :: rest, h => by
    obtain ⟨j, n, x, rfl⟩ := h s (List.mem_cons_self ..)
    simp only [ioCalls, catType]
    exact ioCalls_retrieval rest (fun s' hs' => h s' (List.mem_cons_of_mem _ hs'))

def Good (o : Out) : Prop := starts o.log = ioCalls o.trace ∧ openEnd false o.log = o.blocker.isSome
def Neutral (tr : List Step) (lg : List LogEv) : Prop := starts lg = ioCalls tr ∧ openEnd false lg = false
def BlockedSeg (tr : List Step) (lg : List LogEv) : Prop := starts lg = ioCalls tr ∧ ∀ b, openEnd b lg = true
def TailOk (o : Out) : Prop := CleanLog o.log ∧ ioCalls o.trace = [] ∧ o.blocker.isSome = true

theorem good_prepend_neutral {tr : List Step} {lg : List LogEv} {o : Out} (hn : Neutral tr lg) (ho : Good o) : Good (o.prepend tr lg) := by
  constructor
  · simp only [prepend_log, prepend_trace, starts_append, ioCalls_append, hn.1, ho.1]
  · simp only [prepend_log, prepend_blocker, openEnd_append, hn.2, ho.2]

theorem good_of_blocked_tail {tr : List Step} {lg : List LogEv} {o : Out} (hb : BlockedSeg tr lg) (ho : TailOk o) : Good (o.prepend tr lg) := by
  constructor
  · simp only [prepend_log, prepend_trace, starts_append, ioCalls_append, hb.1, clean_starts _ ho.1, ho.2.1]
  · simp only [prepend_log, prepend_blocker, openEnd_append, hb.2, clean_openEnd _ ho.1, ho.2.2]

theorem neutral_clean {tr : List Step} {lg : List LogEv} (hc : CleanLog lg) (ht : ioCalls tr = []) : Neutral tr lg :=
  ⟨by rw [clean_starts _ hc, ht], clean_openEnd _ hc false⟩

/-- the start/finish structure of a rail loop (input or output category, rails with marker-free bodies) -/
theorem runRails_log (c : Cat) (ty : RailType) (hc : catType c = some ty) : ∀ (rs : List Rail) (i : Nat) (t : String),
    (∀ r ∈ rs, r.clean) →
    starts (runRails c i rs t).2.1 = ioCalls (runRails c i rs t).1 ∧
      (match (runRails c i rs t).2.2 with
        | .passed _ => openEnd false (runRails c i rs t).2.1 = false
        | _ => ∀ b, openEnd b (runRails c i rs t).2.1 = true)
  | [], _, _, _ => by simp [runRails, starts, ioCalls, openEnd]
  | r :: rs, i, t, hcl => by
    have hr : CleanLog r.noise := hcl r (List.mem_cons_self ..)
    have hrest : ∀ r' ∈ rs, r'.clean := fun r' h' => hcl r' (List.mem_cons_of_mem _ h')
    have hstart : starts (startEv c r.name) = [(ty, r.name)] ∧ (∀ b, openEnd b (startEv c r.name) = true) := by
      cases c <;> simp_all [catType, startEv, starts, LogEv.startOf, openEnd]
    have hfin : starts (finEv c) = [] ∧ (∀ b, openEnd b (finEv c) = false) := by
      cases c <;> simp_all [catType, finEv, starts, LogEv.startOf, openEnd]
    simp only [runRails]
    cases hv : r.verdict t with
    | accept =>
      have ih := runRails_log c ty hc rs (i + 1) t hrest
      simp only [starts_append, hstart.1, hfin.1, clean_starts _ hr, ioCalls, hc, ih.1, openEnd_append, hstart.2, hfin.2,
        clean_openEnd _ hr, List.append_nil, List.cons_append, List.nil_append, true_and]
      cases ho : (runRails c (i + 1) rs t).2.2 <;> rw [ho] at ih <;> simp only [] at ih ⊢
      · exact ih.2
      · intro _; exact ih.2 false
      · intro _; exact ih.2 false
    | rewrite t' =>
      have ih := runRails_log c ty hc rs (i + 1) t' hrest
      simp only [starts_append, hstart.1, hfin.1, clean_starts _ hr, ioCalls, hc, ih.1, openEnd_append, hstart.2, hfin.2,
        clean_openEnd _ hr, List.append_nil, List.cons_append, List.nil_append, true_and]
      cases ho : (runRails c (i + 1) rs t').2.2 <;> rw [ho] at ih <;> simp only [] at ih ⊢
      · exact ih.2
      · intro _; exact ih.2 false
      · intro _; exact ih.2 false
    | reject =>
      simp only [starts_append, hstart.1, clean_starts _ hr, ioCalls, hc, openEnd_append, hstart.2, clean_openEnd _ hr,
        List.append_nil, implies_true, and_self]
    | fault =>
      simp only [starts_append, hstart.1, clean_starts _ hr, ioCalls, hc, openEnd_append, hstart.2, clean_openEnd _ hr,
        List.append_nil, implies_true, and_self]

theorem runRetrieval_clean : ∀ (rs : List Rail) (i : Nat), (∀ r ∈ rs, r.clean) → CleanLog (runRetrieval i rs).2
  | [], _, _ => rfl
  | r :: rs, i, h => by
    simp only [runRetrieval]
    exact CleanLog.append (h r (List.mem_cons_self ..)) (runRetrieval_clean rs (i + 1) (fun r' h' => h r' (List.mem_cons_of_mem _ h')))

/-- rails whose own log entries contain no rail start / finish marker -/
def Cfg.clean (cfg : Cfg) : Prop := (∀ r ∈ cfg.input, r.clean) ∧ (∀ r ∈ cfg.output, r.clean) ∧ (∀ r ∈ cfg.retrieval, r.clean)

theorem retrievalPartR_clean (cfg : Cfg) (hc : cfg.clean) (opts : Option Opts) :
    CleanLog (retrievalPartR cfg opts).2 ∧ ioCalls (retrievalPartR cfg opts).1 = [] := by
  unfold retrievalPartR
  split
  · exact ⟨runRetrieval_clean _ _ hc.2.2, ioCalls_retrieval _ (runRetrieval_trace _ _)⟩
  · exact ⟨rfl, rfl⟩

theorem botIntentSegR_clean (cfg : Cfg) (hc : cfg.clean) (opts : Option Opts) (p : Bool) :
    CleanLog (botIntentSegR cfg opts p).2 ∧ ioCalls (botIntentSegR cfg opts p).1 = [] := by
  obtain ⟨h1, h2⟩ := retrievalPartR_clean cfg hc opts
  constructor
  · simp only [botIntentSegR]
    refine CleanLog.append (CleanLog.append (CleanLog.append (CleanLog.append rfl h1) rfl) ?_) rfl
    cases p <;> rfl
  · simp only [botIntentSegR, ioCalls_append, h2]
    cases p <;> rfl

theorem blockedTailR_tail (cfg : Cfg) (hc : cfg.clean) (opts : Option Opts) (c : Cat) (n : String) : TailOk (blockedTailR cfg opts c n) := by
  unfold blockedTailR
  split
  · exact ⟨rfl, rfl, rfl⟩
  · obtain ⟨h1, h2⟩ := botIntentSegR_clean cfg hc opts true
    refine ⟨?_, ?_, rfl⟩
    · show CleanLog ([LogEv.step n [.intent "refuse to respond"]] ++ (botIntentSegR cfg opts true).2)
      exact CleanLog.append rfl h1
    · simp only [ioCalls_append, h2]; rfl

theorem good_utter (t : String) : Good { trace := [.utter t], log := [], reply := .text t, blocker := none, skipAfter := false } := ⟨rfl, rfl⟩

theorem outputPhaseR_good (cfg : Cfg) (hc : cfg.clean) (opts : Option Opts) (bm : String) : Good (outputPhaseR cfg opts bm) := by
  unfold outputPhaseR
  have hl := runRails_log .output .output rfl cfg.output 0 bm hc.2.1
  rcases hr : runRails .output 0 cfg.output bm with ⟨tr, lg, oc⟩
  rw [hr] at hl
  cases oc with
  | passed t =>
    have := @good_prepend_neutral tr lg _ ⟨hl.1, hl.2⟩ (good_utter t)
    simpa [Out.prepend] using this
  | blocked n => exact good_of_blocked_tail ⟨hl.1, hl.2⟩ (blockedTailR_tail cfg hc opts .output n)
  | faulted n =>
    have : TailOk { trace := [.utter cfg.internalError], log := [], reply := .text cfg.internalError, blocker := some (Cat.output, n), skipAfter := false } := ⟨rfl, rfl, rfl⟩
    have := @good_of_blocked_tail tr lg _ ⟨hl.1, hl.2⟩ this
    simpa [Out.prepend] using this

theorem processBotMessageR_good (cfg : Cfg) (hc : cfg.clean) (opts : Option Opts) (sk : Bool) (bm : String) :
    Good (processBotMessageR cfg opts sk bm) := by
  unfold processBotMessageR
  split
  · exact good_utter bm
  · split
    · exact outputPhaseR_good cfg hc opts bm
    · exact good_utter bm

theorem afterInputR_good (cfg : Cfg) (hc : cfg.clean) (opts : Option Opts) (um : String) (bot : Option String) (dlg : Dialog) :
    Good (afterInputR cfg opts um bot dlg) := by
  unfold afterInputR
  split
  · split
    · exact good_utter um
    · cases bot with
      | none => exact ⟨rfl, rfl⟩
      | some b => exact processBotMessageR_good cfg hc opts false b
  · cases dlg with
    | general text =>
      exact good_prepend_neutral (neutral_clean rfl rfl) (processBotMessageR_good cfg hc opts false text)
    | intent flow bi p text =>
      obtain ⟨h1, h2⟩ := botIntentSegR_clean cfg hc opts p
      refine good_prepend_neutral (neutral_clean ?_ ?_) (processBotMessageR_good cfg hc opts p text)
      · exact CleanLog.append (CleanLog.append rfl rfl) h1
      · simp only [ioCalls_append, h2]; rfl

theorem turnCoreR_good (cfg : Cfg) (hc : cfg.clean) (opts : Option Opts) (user : String) (bot : Option String) (dlg : Dialog) :
    Good (turnCoreR cfg opts user bot dlg) := by
  unfold turnCoreR
  have hl := runRails_log .input .input rfl cfg.input 0 user hc.1
  split
  all_goals rename_i tr1 lg1 x heq
  all_goals
    have hseg : starts lg1 = ioCalls tr1 ∧ (match (x : String), (tr1, lg1) with | _, _ => True) := ⟨by
      split at heq
      · rw [heq] at hl; exact hl.1
      · cases heq <;> rfl, trivial⟩
  · have hb : ∀ b, openEnd b lg1 = true := by
      split at heq
      · rw [heq] at hl; exact hl.2
      · cases heq
    exact good_of_blocked_tail ⟨hseg.1, hb⟩ (blockedTailR_tail cfg hc opts .input x)
  · have hb : ∀ b, openEnd b lg1 = true := by
      split at heq
      · rw [heq] at hl; exact hl.2
      · cases heq
    have ht : TailOk { trace := [.utter cfg.internalError], log := [], reply := .text cfg.internalError, blocker := some (Cat.input, x), skipAfter := false } := ⟨rfl, rfl, rfl⟩
    have := @good_of_blocked_tail tr1 lg1 _ ⟨hseg.1, hb⟩ ht
    simpa [Out.prepend] using this
  · have hb : openEnd false lg1 = false := by
      split at heq
      · rw [heq] at hl; exact hl.2
      · cases heq; rfl
    exact good_prepend_neutral ⟨hseg.1, hb⟩ (afterInputR_good cfg hc opts x bot dlg)

theorem mem_markLast (b : Bool) : ∀ (l : List (RailType × String)) (k : IOKey), k ∈ markLast b l → (k.type, k.name) ∈ l
  | [], _, h => by simp [markLast] at h
  | [(t, n)], k, h => by simp [markLast] at h; subst h; simp
  | (t, n) :: k' :: l, k, h => by
    rw [markLast_cons2] at h
    simp only [List.mem_cons] at h
    rcases h with rfl | h
    · simp
    · exact List.mem_cons_of_mem _ (mem_markLast b (k' :: l) k (by simpa using h))

theorem mem_ioCalls : ∀ (tr : List Step) (t : RailType) (n : String), (t, n) ∈ ioCalls tr → ∃ c i x, Step.railCall c i n x ∈ tr
  | [], _, _, h => by simp [ioCalls] at h
  | s :: rest, t, n, h => by
    cases s with
    | railCall c i n' x =>
      simp only [ioCalls] at h
      split at h
      · simp only [List.mem_cons, Prod.mk.injEq] at h
        rcases h with ⟨_, rfl⟩ | h
        · exact ⟨c, i, x, List.mem_cons_self ..⟩
        · obtain ⟨c', i', x', hm⟩ := mem_ioCalls rest t n h
          exact ⟨c', i', x', List.mem_cons_of_mem _ hm⟩
      · obtain ⟨c', i', x', hm⟩ := mem_ioCalls rest t n h
        exact ⟨c', i', x', List.mem_cons_of_mem _ hm⟩
    | llmCall => obtain ⟨c', i', x', hm⟩ := mem_ioCalls rest t n (by simpa [ioCalls] using h); exact ⟨c', i', x', List.mem_cons_of_mem _ hm⟩
    | utter u => obtain ⟨c', i', x', hm⟩ := mem_ioCalls rest t n (by simpa [ioCalls] using h); exact ⟨c', i', x', List.mem_cons_of_mem _ hm⟩
    | exception c m => obtain ⟨c', i', x', hm⟩ := mem_ioCalls rest t n (by simpa [ioCalls] using h); exact ⟨c', i', x', List.mem_cons_of_mem _ hm⟩

/-- `stopSpec` of the log of a whole turn, in terms of the trace -/
theorem turn_stopSpec (cfg : Cfg) (hc : cfg.clean) (opts : Option Opts) (user : String) (bot : Option String) (dlg : Dialog) (out : Out)
    (h : turn Gd cfg opts user bot dlg = some out) : stopSpec out.log = markLast out.blocker.isSome (ioCalls out.trace) := by
  rw [turn_eq] at h; cases h
  obtain ⟨h1, h2⟩ := turnCoreR_good cfg hc opts user bot dlg
  rw [stopSpec_eq_markLast _ false (Or.inr rfl)]
  have e1 : starts (LogEv.other :: ((turnCoreR cfg opts user bot dlg).log ++ [LogEv.other])) = starts (turnCoreR cfg opts user bot dlg).log := by
    simp [starts, LogEv.startOf, starts_append]
  have e2 : openEnd false (LogEv.other :: ((turnCoreR cfg opts user bot dlg).log ++ [LogEv.other])) = openEnd false (turnCoreR cfg opts user bot dlg).log := by
    simp [openEnd, openEnd_append]
  simp only [e1, e2, h1, h2]


/-! ### the blocking rail -/

theorem blockedTailR_blocker (cfg : Cfg) (opts : Option Opts) (c : Cat) (n : String) :
    (blockedTailR cfg opts c n).blocker = some (c, n) := by
  unfold blockedTailR; split <;> rfl

theorem outputPhaseR_blocker (cfg : Cfg) (opts : Option Opts) (bm : String) :
    (outputPhaseR cfg opts bm).blocker = blockerOf .output (chain cfg.output bm) := by
  unfold outputPhaseR
  obtain ⟨tr, lg, h⟩ := runRails_split .output cfg.output 0 bm
  rw [h]
  cases chain cfg.output bm <;> simp [blockerOf, Out.prepend, blockedTailR_blocker]

theorem processBotMessageR_blocker (cfg : Cfg) (opts : Option Opts) (bm : String) :
    (processBotMessageR cfg opts false bm).blocker = if sel opts .output then blockerOf .output (chain cfg.output bm) else none := by
  unfold processBotMessageR
  cases hf : cfg.hasFlows .output <;> cases hs : sel opts .output <;> simp [outputPhaseR_blocker]
  rw [hasFlows_output cfg hf]; rfl

theorem turnCoreR_blocker_off (cfg : Cfg) (o : Opts) (hd : o.dialog = false) (user : String) (bot : Option String) (dlg : Dialog) :
    (turnCoreR cfg (some o) user bot dlg).blocker = tableBlocker cfg o user bot := by
  obtain ⟨i, d, r, ou⟩ := o
  simp only at hd; subst hd
  unfold turnCoreR tableBlocker
  obtain ⟨tr, lg, h⟩ := inputPhase_split cfg (sel (some ⟨i, false, r, ou⟩) .input) user
  rw [h]
  simp only [sel, Opts.get]
  generalize inOutcome cfg i user = oc
  cases oc with
  | passed um =>
    simp only [prepend_blocker, afterInputR, sel, Opts.get]
    cases ou <;> cases bot <;> simp [processBotMessageR_blocker, sel, Opts.get]
  | blocked n => simp only [prepend_blocker, blockedTailR_blocker, blockerOf]
  | faulted n => simp only [blockerOf]

/-! ### several calls on one conversation: the carried `$skip_output_rails` flag -/

theorem prepend_skipAfter (tr : List Step) (lg : List LogEv) (o : Out) : (o.prepend tr lg).skipAfter = o.skipAfter := rfl

theorem blockedTailR_skipAfter (cfg : Cfg) (opts : Option Opts) (c : Cat) (n : String) : (blockedTailR cfg opts c n).skipAfter = false := by
  unfold blockedTailR; split <;> rfl

theorem outputPhaseR_skipAfter (cfg : Cfg) (opts : Option Opts) (bm : String) : (outputPhaseR cfg opts bm).skipAfter = false := by
  unfold outputPhaseR
  rcases runRails .output 0 cfg.output bm with ⟨tr, lg, oc⟩
  cases oc <;> simp [prepend_skipAfter, blockedTailR_skipAfter]

theorem processBotMessageR_skipAfter (cfg : Cfg) (opts : Option Opts) (sk : Bool) (bm : String) :
    (processBotMessageR cfg opts sk bm).skipAfter = false := by
  unfold processBotMessageR
  split
  · rfl
  · split
    · exact outputPhaseR_skipAfter cfg opts bm
    · rfl

theorem afterInputR_skipAfter (cfg : Cfg) (opts : Option Opts) (um : String) (bot : Option String) (dlg : Dialog) :
    (afterInputR cfg opts um bot dlg).skipAfter = false := by
  unfold afterInputR
  split
  · split
    · rfl
    · cases bot with
      | none => rfl
      | some b => exact processBotMessageR_skipAfter cfg opts false b
  · cases dlg <;> simp [prepend_skipAfter, processBotMessageR_skipAfter]

theorem turnCoreR_skipAfter (cfg : Cfg) (opts : Option Opts) (user : String) (bot : Option String) (dlg : Dialog) :
    (turnCoreR cfg opts user bot dlg).skipAfter = false := by
  unfold turnCoreR
  split <;> simp [prepend_skipAfter, blockedTailR_skipAfter, afterInputR_skipAfter]

theorem turnFrom_false (G : Guards) (cfg : Cfg) (opts : Option Opts) (user : String) (bot : Option String) (dlg : Dialog) :
    turnFrom G cfg false opts user bot dlg = turn G cfg opts user bot dlg := rfl

/-- a turn started with the flag unset leaves it unset (guards of the current llm_flows.co) -/
theorem turn_skipAfter (cfg : Cfg) (opts : Option Opts) (user : String) (bot : Option String) (dlg : Dialog) (out : Out)
    (h : turn Gd cfg opts user bot dlg = some out) : out.skipAfter = false := by
  rw [turn_eq] at h; cases h
  exact turnCoreR_skipAfter cfg opts user bot dlg

theorem session_eq (cfg : Cfg) : ∀ calls : List Call,
    session Gd cfg false calls = calls.mapM (fun c => turn Gd cfg c.opts c.user c.bot c.dlg)
  | [] => rfl
  | c :: cs => by
    simp only [session, turnFrom_false, List.mapM_cons]
    cases ht : turn Gd cfg c.opts c.user c.bot c.dlg with
    | none => simp
    | some o =>
      have hs := turn_skipAfter cfg c.opts c.user c.bot c.dlg o ht
      simp only [hs, session_eq cfg cs]
      cases List.mapM (fun c => turn Gd cfg c.opts c.user c.bot c.dlg) cs <;> simp

/-! ### a concrete configuration for the non-vacuity examples of Theorems/C16.lean -/

def exBody (n : String) : List LogEv := [.step n [.act "check"], .actStart "check", .actFin "check"]

/-- two input rails (the first rejects "bad" and otherwise appends "!"), one output rail (rejects "evil"), one retrieval rail -/
def exCfg : Cfg :=
  { input := [⟨"in0", fun t => if t == "bad" then .reject else .rewrite (t ++ "!"), exBody "in0"⟩, ⟨"in1", fun _ => .accept, exBody "in1"⟩],
    output := [⟨"out0", fun t => if t == "evil" then .reject else .accept, exBody "out0"⟩],
    retrieval := [⟨"ret0", fun _ => .accept, exBody "ret0"⟩], exceptions := false, refusal := "no", internalError := "ierr" }

/-- no rail call of the trace carries the name `nm` -/
def namesAvoid (nm : String) : List Step → Bool
  | [] => true
  | .railCall _ _ n _ :: rest => n != nm && namesAvoid nm rest
  | _ :: rest => namesAvoid nm rest

theorem exCfg_clean : exCfg.clean := by
  simp [Cfg.clean, exCfg, Rail.clean, exBody, LogEv.isStartOrFin]


/-! ### `compute_generation_log` returns on the log a turn writes -/

/-- the literal tables of the current `compute_generation_log` -/
abbrev Kg : Consts :=
  { ignoredActions := Generated.C16.ignoredActions, ignoredFlows := Generated.C16.ignoredFlows,
    generationFlows := Generated.C16.generationFlows, relabelName := Generated.C16.relabelName,
    relabelTask := Generated.C16.relabelTask }

/-- from "`activated_rail` set: `c`, no action running" the segment is accepted and ends in "`c'`, no action running" -/
def Seg (c : Bool) (L : List LogEv) (c' : Bool) : Prop := accepts Kg (c, false) L = some (c', false)

theorem Seg.append {c c1 c2 : Bool} {a b : List LogEv} (h1 : Seg c a c1) (h2 : Seg c1 b c2) : Seg c (a ++ b) c2 := by
  unfold Seg at *
  rw [accepts_append, h1]; exact h2

theorem Seg.nil (c : Bool) : Seg c [] c := rfl

/-- the rail's own log entries are accepted inside an open rail and leave no action running
    (e.g. `step`, `StartInternalSystemAction x`, optional `llm_call_info`s, `InternalSystemActionFinished x`) -/
def Rail.accepted (r : Rail) : Prop := Seg true r.noise true

def Cfg.accepted (cfg : Cfg) : Prop :=
  (∀ r ∈ cfg.input, r.accepted) ∧ (∀ r ∈ cfg.output, r.accepted) ∧ (∀ r ∈ cfg.retrieval, r.accepted)

theorem runRails_seg (c : Cat) (ty : RailType) (hc : catType c = some ty) : ∀ (rs : List Rail) (i : Nat) (t : String) (c0 : Bool),
    (∀ r ∈ rs, r.accepted) →
    (match (runRails c i rs t).2.2 with
      | .passed _ => Seg c0 (runRails c i rs t).2.1 (if rs.isEmpty then c0 else false)
      | _ => Seg c0 (runRails c i rs t).2.1 true)
  | [], _, _, c0, _ => by simp [runRails, Seg.nil]
  | r :: rs, i, t, c0, hacc => by
    have hr : Seg true r.noise true := hacc r (List.mem_cons_self ..)
    have hrest : ∀ r' ∈ rs, r'.accepted := fun r' h' => hacc r' (List.mem_cons_of_mem _ h')
    have hstart : Seg c0 (startEv c r.name) true := by
      cases c <;> simp_all [catType, startEv, Seg, accepts, accStep]
    have hfin : Seg true (finEv c) false := by
      cases c <;> simp_all [catType, finEv, Seg, accepts, accStep]
    simp only [runRails]
    cases hv : r.verdict t with
    | accept =>
      have ih := runRails_seg c ty hc rs (i + 1) t false hrest
      simp only [List.isEmpty_cons]
      cases ho : (runRails c (i + 1) rs t).2.2 <;> rw [ho] at ih <;> simp only [] at ih ⊢
      · exact ((hstart.append hr).append hfin).append (by simpa using ih)
      · exact ((hstart.append hr).append hfin).append ih
      · exact ((hstart.append hr).append hfin).append ih
    | rewrite t' =>
      have ih := runRails_seg c ty hc rs (i + 1) t' false hrest
      simp only [List.isEmpty_cons]
      cases ho : (runRails c (i + 1) rs t').2.2 <;> rw [ho] at ih <;> simp only [] at ih ⊢
      · exact ((hstart.append hr).append hfin).append (by simpa using ih)
      · exact ((hstart.append hr).append hfin).append ih
      · exact ((hstart.append hr).append hfin).append ih
    | reject => exact hstart.append hr
    | fault => exact hstart.append hr

theorem runRetrieval_seg : ∀ (rs : List Rail) (i : Nat), (∀ r ∈ rs, r.accepted) → Seg true (runRetrieval i rs).2 true
  | [], _, _ => rfl
  | r :: rs, i, h => by
    simp only [runRetrieval]
    exact (h r (List.mem_cons_self ..)).append (runRetrieval_seg rs (i + 1) (fun r' h' => h r' (List.mem_cons_of_mem _ h')))

theorem retrievalPartR_seg (cfg : Cfg) (ha : cfg.accepted) (opts : Option Opts) : Seg true (retrievalPartR cfg opts).2 true := by
  unfold retrievalPartR
  split
  · exact runRetrieval_seg _ _ ha.2.2
  · rfl

theorem botIntentSegR_seg (cfg : Cfg) (ha : cfg.accepted) (opts : Option Opts) (p : Bool) : Seg true (botIntentSegR cfg opts p).2 true := by
  simp only [botIntentSegR, List.append_assoc]
  refine Seg.append (c1 := true) ?_ (Seg.append (retrievalPartR_seg cfg ha opts) ?_)
  · unfold Seg; decide
  · cases p <;> (unfold Seg; decide)

theorem blockedTailR_seg (cfg : Cfg) (ha : cfg.accepted) (opts : Option Opts) (c : Cat) (n : String) :
    Seg true (blockedTailR cfg opts c n).log true := by
  unfold blockedTailR
  split
  · rfl
  · show Seg true ([LogEv.step n [.intent "refuse to respond"]] ++ (botIntentSegR cfg opts true).2) true
    exact Seg.append (c1 := true) (by simp [Seg, accepts, accStep]) (botIntentSegR_seg cfg ha opts true)

/-- the log of this part is accepted whatever `activated_rail` is when it starts -/
def SegAny (L : List LogEv) : Prop := ∀ c, ∃ c', Seg c L c'

theorem SegAny.prepend {a b : List LogEv} (ha : ∀ c, ∃ c', Seg c a c') (hb : SegAny b) : SegAny (a ++ b) := by
  intro c
  obtain ⟨c1, h1⟩ := ha c
  obtain ⟨c2, h2⟩ := hb c1
  exact ⟨c2, h1.append h2⟩

theorem outputPhaseR_seg (cfg : Cfg) (ha : cfg.accepted) (opts : Option Opts) (bm : String) : SegAny (outputPhaseR cfg opts bm).log := by
  intro c0
  unfold outputPhaseR
  have hl := runRails_seg .output .output rfl cfg.output 0 bm c0 ha.2.1
  rcases hr : runRails .output 0 cfg.output bm with ⟨tr, lg, oc⟩
  rw [hr] at hl
  cases oc with
  | passed t => exact ⟨_, hl⟩
  | blocked n => exact ⟨true, by simpa [Out.prepend] using Seg.append hl (blockedTailR_seg cfg ha opts .output n)⟩
  | faulted n => exact ⟨true, hl⟩

theorem processBotMessageR_seg (cfg : Cfg) (ha : cfg.accepted) (opts : Option Opts) (sk : Bool) (bm : String) :
    SegAny (processBotMessageR cfg opts sk bm).log := by
  unfold processBotMessageR
  split
  · exact fun c => ⟨c, rfl⟩
  · split
    · exact outputPhaseR_seg cfg ha opts bm
    · exact fun c => ⟨c, rfl⟩

theorem guiSeg_seg (task : String) (c : Bool) : Seg c (guiSeg task) true := by
  cases c <;> simp [Seg, guiSeg, accepts, accStep, guiFlow, Kg, Generated.C16.ignoredFlows, Generated.C16.ignoredActions]

theorem afterInputR_seg (cfg : Cfg) (ha : cfg.accepted) (opts : Option Opts) (um : String) (bot : Option String) (dlg : Dialog) :
    SegAny (afterInputR cfg opts um bot dlg).log := by
  unfold afterInputR
  split
  · split
    · exact fun c => ⟨c, rfl⟩
    · cases bot with
      | none => exact fun c => ⟨c, rfl⟩
      | some b => exact processBotMessageR_seg cfg ha opts false b
  · cases dlg with
    | general text =>
      exact SegAny.prepend (fun c => ⟨true, guiSeg_seg "general" c⟩) (processBotMessageR_seg cfg ha opts false text)
    | intent flow bi p text =>
      refine SegAny.prepend (fun c => ⟨true, ?_⟩) (processBotMessageR_seg cfg ha opts p text)
      refine Seg.append (Seg.append (c1 := true) (guiSeg_seg _ c) (c2 := true) ?_) (botIntentSegR_seg cfg ha opts p)
      simp [Seg, accepts, accStep]

theorem turnCoreR_seg (cfg : Cfg) (ha : cfg.accepted) (opts : Option Opts) (user : String) (bot : Option String) (dlg : Dialog) :
    ∃ c', Seg false (turnCoreR cfg opts user bot dlg).log c' := by
  unfold turnCoreR
  have hl := runRails_seg .input .input rfl cfg.input 0 user false ha.1
  split
  all_goals rename_i tr1 lg1 x heq
  · have hb : Seg false lg1 true := by
      split at heq
      · rw [heq] at hl; exact hl
      · cases heq
    exact ⟨true, by simpa [Out.prepend] using hb.append (blockedTailR_seg cfg ha opts .input x)⟩
  · have hb : Seg false lg1 true := by
      split at heq
      · rw [heq] at hl; exact hl
      · cases heq
    exact ⟨true, hb⟩
  · have hb : ∃ c1, Seg false lg1 c1 := by
      split at heq
      · rw [heq] at hl; exact ⟨_, hl⟩
      · cases heq; exact ⟨false, rfl⟩
    obtain ⟨c1, h1⟩ := hb
    obtain ⟨c2, h2⟩ := afterInputR_seg cfg ha opts x bot dlg c1
    exact ⟨c2, by simpa [Out.prepend] using h1.append h2⟩

/-- **`compute_generation_log` returns on every log a turn writes** (rails whose own entries are accepted). -/
theorem turn_log_accepted (cfg : Cfg) (ha : cfg.accepted) (opts : Option Opts) (user : String) (bot : Option String) (dlg : Dialog)
    (out : Out) (h : turn Gd cfg opts user bot dlg = some out) : ∃ gl, compute Kg out.log = .ok gl := by
  rw [turn_eq] at h; cases h
  obtain ⟨c', hs⟩ := turnCoreR_seg cfg ha opts user bot dlg
  apply compute_of_accepts Kg _ (by simp) (c', false)
  show accepts Kg (false, false) ([LogEv.other] ++ ((turnCoreR cfg opts user bot dlg).log ++ [LogEv.other])) = some (c', false)
  exact Seg.append (c1 := false) rfl (Seg.append hs rfl)


theorem exCfg_accepted : exCfg.accepted := by
  refine ⟨?_, ?_, ?_⟩ <;> intro r hr <;> simp [exCfg] at hr
  · rcases hr with rfl | rfl <;> (unfold Rail.accepted Seg; decide)
  · subst hr; unfold Rail.accepted Seg; decide
  · subst hr; unfold Rail.accepted Seg; decide

end NemoVerif.PipelineOpts
