/-
  C06 (wave 4) — the activation-count bound along refined CoreVM steps.

  `DomEq` / `domEq_closed`: the iteration order and the domain of the instance table are unchanged by every `.ok` run of
  `_abort_flow` / `_finish_flow` / `EndScope` (generic skeleton of Lemmas/LifetimeGen.lean), hence `OrdInv` is preserved by every
  covered operation (`OrdInv.step_covered`) WITHOUT the action clauses (`CountInv.step` needs `ActInv`, which does not transfer to
  the abstraction of a CoreVM state because `absVM` forgets the outgoing events).
  `corevm_activation_count_partial`: `WF`, `OrdInv`, `LinkInv` and the bound `ActCount` ("activation counter ≤ child-list entries
  held by live instances") of the abstraction are preserved along every sequence of refined CoreVM operation steps — outermost
  `abortFlow` / `finishFlow`, the `EndScope` / label / effect-free elements, `StopFlow` / `FinishFlow` events, and the processing of a
  `StartFlow` event that does not create an instance (`CoreVM.processInternalEvent`: the dropped event of an ended sender, the
  re-activation of an activated reference instance) — the part of the interpreter model seed C06-e lives in.
-/
import NemoVerif.Lemmas.LifetimeAct
import NemoVerif.Lemmas.LifetimeCoreVM9
namespace NemoVerif.Lifetime

def DomEq (s s' : State) : Prop := s'.order = s.order ∧ ∀ v, (s'.flows v).isSome = (s.flows v).isSome

theorem DomEq.refl (s : State) : DomEq s s := ⟨rfl, fun _ => rfl⟩
theorem DomEq.trans {s1 s2 s3 : State} (a : DomEq s1 s2) (b : DomEq s2 s3) : DomEq s1 s3 :=
  ⟨b.1.trans a.1, fun v => (b.2 v).trans (a.2 v)⟩
theorem DomEq.of_flows_eq {s s' : State} (ho : s'.order = s.order) (h : s'.flows = s.flows) : DomEq s s' := ⟨ho, fun v => by rw [h]⟩

theorem domEq_setFlow (s : State) (u : Nat) (f f' : Flow) (hf : s.flows u = some f) : DomEq s (setFlow s u f') := by
  refine ⟨rfl, fun v => ?_⟩
  rw [setFlow_flows]
  split
  · next e => subst e; rw [hf]; rfl
  · rfl

theorem domEq_modFlow (s : State) (u : Nat) (g : Flow → Flow) : DomEq s (modFlow s u g) := by
  unfold modFlow
  split
  · next f hf => exact domEq_setFlow s u f (g f) hf
  · exact DomEq.refl s

theorem OrdInv.of_domEq {s s' : State} (hi : OrdInv s) (h : DomEq s s') : OrdInv s' := hi.of_dom h.1 h.2

theorem removeFromParent_domEq (s : State) (u : Nat) (s' : State) (h : removeFromParent s u = .ok s') : DomEq s s' := by
  refine ⟨removeFromParent_order s u s' h, fun v => ?_⟩
  rcases (removeFromParent_flows s u s' h).2.2.2 v with e | ⟨pf, h1, h2⟩
  · rw [e]
  · rw [h1, h2]; rfl

theorem restart_domEq (s : State) (u : Nat) (d : Bool) (s' : State) (h : restart s u d = .ok s') : DomEq s s' := by
  unfold restart at h
  split at h
  · cases h
  · split at h
    · dsimp only at h
      split at h
      · cases h
      · cases h
        exact (DomEq.of_flows_eq (s' := pushLeft s _) rfl rfl).trans (domEq_modFlow _ _ _)
    · cases h; exact DomEq.refl s

theorem markNoRestart_domEq (s : State) (u : Nat) : DomEq s (markNoRestart s u) := by
  unfold markNoRestart
  split
  · next f hf =>
    split
    · exact domEq_setFlow s u f _ hf
    · exact DomEq.refl s
  · exact DomEq.refl s

theorem abortTail_domEq (s : State) (u : Nat) (d : Bool) (s' : State) (h : abortTail s u d = .ok s') : DomEq s s' := by
  unfold abortTail at h
  split at h
  · cases h
  · split at h
    · cases h
    · next s2 h2 =>
      obtain ⟨ho2, hf2⟩ := stopActions_out_frame _ _ _ h2
      dsimp only at h
      split at h
      · cases h
      · next s4 h4 =>
        exact (DomEq.of_flows_eq ho2 hf2).trans ((domEq_modFlow _ _ _).trans ((removeFromParent_domEq _ _ _ h4).trans
          ((domEq_modFlow _ _ _).trans ((DomEq.of_flows_eq (s' := push _ _) rfl rfl).trans (restart_domEq _ _ _ _ h)))))

theorem finishTail_domEq (s : State) (u : Nat) (d : Bool) (s' : State) (h : finishTail s u d = .ok s') : DomEq s s' := by
  unfold finishTail at h
  split at h
  · cases h
  · split at h
    · cases h
    · next s2 h2 =>
      obtain ⟨ho2, hf2⟩ := stopActions_out_frame _ _ _ h2
      dsimp only at h
      split at h
      · cases h
        exact (DomEq.of_flows_eq ho2 hf2).trans ((domEq_modFlow _ _ _).trans (domEq_modFlow _ _ _))
      · split at h
        · cases h
        · next s5 h5 =>
          exact (DomEq.of_flows_eq ho2 hf2).trans ((domEq_modFlow _ _ _).trans ((domEq_modFlow _ _ _).trans
            ((removeFromParent_domEq _ _ _ h5).trans ((DomEq.of_flows_eq (s' := push _ _) rfl rfl).trans (restart_domEq _ _ _ _ h)))))

/-- order and domain of the instance table are the same as in a fixed state `s0` -/
theorem domEq_closed (s0 : State) : Closed (DomEq s0) where
  decr := fun s u f hi hf => hi.trans (domEq_setFlow s u f _ hf)
  zero := fun s c hi => hi.trans (domEq_modFlow s c _)
  mark := fun s u hi => hi.trans (markNoRestart_domEq s u)
  abortTail := fun s u d s' hi h => hi.trans (abortTail_domEq s u d s' h)
  finishTail := fun s u d s' hi h => hi.trans (finishTail_domEq s u d s' h)
  scopes := fun s u f sc hi hf => hi.trans (domEq_setFlow s u f _ hf)
  stopActions := fun s l s' hi h => by
    obtain ⟨ho, hf⟩ := stopActions_out_frame l s s' h
    exact hi.trans (DomEq.of_flows_eq ho hf)

theorem labelRestart_domEq (s : State) (u : Nat) (s' : State) (h : labelRestart s u = .ok s') : DomEq s s' := by
  unfold labelRestart at h
  split at h
  · cases h
  · split at h
    · cases h; exact DomEq.refl s
    · cases h
      exact (DomEq.of_flows_eq (s' := pushLeft s _) rfl rfl).trans (domEq_modFlow _ _ _)

/-- every covered operation keeps order and domain -/
theorem domEq_step_covered (s : State) (op : IOp) (hc : Refine.Covered op) : DomEq s (applyOp s op) := by
  cases op with
  | abort n u d =>
    simp only [applyOp]
    cases h : abortFlow n s u d with
    | error e => exact DomEq.refl s
    | ok s' => exact abortFlow_closed (domEq_closed s) n s u d s' (DomEq.refl s) h
  | finish n u d =>
    simp only [applyOp]
    cases h : finishFlow n s u d with
    | error e => exact DomEq.refl s
    | ok s' => exact finishFlow_closed (domEq_closed s) n s u d s' (DomEq.refl s) h
  | endScope n u nm =>
    simp only [applyOp]
    cases h : endScope n s u nm with
    | error e => exact DomEq.refl s
    | ok s' => exact endScope_closed (domEq_closed s) n s u nm s' (DomEq.refl s) h
  | startChild c fid p k => exact absurd hc (by simp [Refine.Covered])
  | reactivate fid known act hasInst source pm =>
    simp only [applyOp]
    split
    · next s' r h =>
      rcases processStartFlow_effect s fid known act hasInst source _ s' r h with e | ⟨q, rf, sf, hrf, _, _, _, _, e⟩
      · rw [e]; exact DomEq.refl s
      · rw [e]
        exact (domEq_setFlow s q rf _ hrf).trans ((domEq_modFlow _ _ _).trans (DomEq.of_flows_eq (s' := push _ _) rfl rfl))
    · exact DomEq.refl s
  | status u st =>
    simp only [applyOp]
    split
    · next f hf =>
      split
      · exact domEq_setFlow s u f _ hf
      · exact DomEq.refl s
    · exact DomEq.refl s
  | newAction u a =>
    simp only [applyOp]
    split
    · next f hf ha =>
      split
      · exact (domEq_setFlow s u f _ hf).trans (DomEq.of_flows_eq (s' := setAction _ _ _) rfl rfl)
      · exact DomEq.refl s
    · exact DomEq.refl s
  | startAction a => exact absurd hc (by simp [Refine.Covered])
  | coWin loser a b => exact absurd hc (by simp [Refine.Covered])
  | event e =>
    by_cases hg : eventOk s e = true
    · have happ : applyOp s (.event e) = updateActionStatusByEvent s e := by simp only [applyOp, hg, if_true]
      rw [happ]
      obtain ⟨hf, _, _, ho', _⟩ := update_rel e s
      exact DomEq.of_flows_eq ho' hf
    · have happ : applyOp s (.event e) = s := by simp only [applyOp, hg]; rfl
      rw [happ]; exact DomEq.refl s
  | label u =>
    simp only [applyOp]
    cases h : labelRestart s u with
    | error e => exact DomEq.refl s
    | ok s' => exact labelRestart_domEq s u s' h
  | frame u heads scopes =>
    simp only [applyOp]
    split
    · next f hf => exact domEq_setFlow s u f _ hf
    · exact DomEq.refl s
  | noRestart u => exact absurd hc (by simp [Refine.Covered])

theorem covered_adm (s : State) (op : IOp) (hc : Refine.Covered op) : opAdm s op = true := by
  cases op <;> first | rfl | exact absurd hc (by simp [Refine.Covered])

/-- `OrdInv`, `LinkInv` and the bound along a sequence of covered operations -/
theorem actCount_foldl_covered : ∀ (ops : List IOp) (s : State), (∀ op ∈ ops, Refine.Covered op) → OrdInv s → LinkInv s → ActCount s →
    OrdInv (ops.foldl applyOp s) ∧ LinkInv (ops.foldl applyOp s) ∧ ActCount (ops.foldl applyOp s)
  | [], _, _, ho, hl, hb => ⟨ho, hl, hb⟩
  | op :: ops, s, hc, ho, hl, hb => by
    have hc1 := hc op (List.mem_cons_self ..)
    exact actCount_foldl_covered ops (applyOp s op) (fun o h => hc o (List.mem_cons_of_mem _ h))
      (ho.of_domEq (domEq_step_covered s op hc1)) (LinkInv.step s op hl) (ActCount.step s op ho hl (covered_adm s op hc1) hb)

namespace Refine
open NemoVerif NemoVerif.CoreVM NemoVerif.CoreIndex

variable (ν φ : String → Nat)

/-- sequences of refined CoreVM OPERATION steps (no instance creation) -/
inductive RefinedOpSteps : VM → VM → Prop
  | refl (vm : VM) : RefinedOpSteps vm vm
  | tail {vm vm1 vm2 : VM} : RefinedOpSteps vm vm1 → RefinedOpStep ν φ vm1 vm2 → RefinedOpSteps vm vm2

theorem ordInv_cs {s : State} (h : OrdInv s) : OrdInv (cs s) := h.of_dom rfl (fun _ => rfl)
theorem linkInv_cs {s : State} (h : LinkInv s) : LinkInv (cs s) := h.of_flows_eq rfl
theorem actCount_cs {s : State} (h : ActCount s) : ActCount (cs s) := h.of_flows_eq rfl rfl

theorem corevm_activation_count_partial (hν : Function.Injective ν) (hφ : Function.Injective φ) (vm vm' : VM)
    (hw : WF vm) (ho : OrdInv (absVM ν φ vm)) (hl : LinkInv (absVM ν φ vm)) (hb : ActCount (absVM ν φ vm))
    (h : RefinedOpSteps ν φ vm vm') :
    WF vm' ∧ OrdInv (absVM ν φ vm') ∧ LinkInv (absVM ν φ vm') ∧ ActCount (absVM ν φ vm') := by
  induction h with
  | refl => exact ⟨hw, ho, hl, hb⟩
  | tail _ hstep ih =>
    obtain ⟨w1, o1, l1, b1⟩ := ih
    obtain ⟨w2, ops, hcov, habs⟩ := refinedOpStep_is_op ν φ hν hφ _ _ w1 hstep
    obtain ⟨o2, l2, b2⟩ := actCount_foldl_covered ops _ hcov o1 l1 b1
    rw [habs]
    exact ⟨w2, ordInv_cs o2, linkInv_cs l2, actCount_cs b2⟩

/-! ### non-vacuity -/

theorem vmEx_actCount : ActCount (absVM ν φ vmEx) := by
  intro r f hf ⟨p, pf, hp, _, _⟩
  rw [(vmEx_flows ν φ r f hf).2.1] at hp; cases hp

theorem vmEx_ordInv : OrdInv (absVM ν φ vmEx) := by
  have hord : (absVM ν φ vmEx).order = [ν "a"] := by simp [absVM, vmEx]
  have hsome : ((absVM ν φ vmEx).flows (ν "a")).isSome = true := by simp [absVM, vmEx, List.find?]
  refine ⟨by rw [hord]; simp, ?_, ?_⟩
  · intro v hv
    rw [hord] at hv
    simp only [List.mem_singleton] at hv
    rw [hv]; exact hsome
  · intro v hv
    cases hf : (absVM ν φ vmEx).flows v with
    | none => rw [hf] at hv; cases hv
    | some f => rw [hord, (vmEx_flows ν φ v f hf).2.2.2]; simp

theorem vmEx_opRefined : ∃ vm', RefinedOpSteps ν φ vmEx vm' ∧ RefinedOpStep ν φ vmEx vm' := by
  cases h : CoreVM.abortFlow 3 "a" [] false vmEx with
  | ok u vm' => exact ⟨vm', .tail (.refl _) (.abort 3 "a" [] false _ _ h), .abort 3 "a" [] false _ _ h⟩
  | error e s =>
    have : (match CoreVM.abortFlow 3 "a" [] false vmEx with | .ok _ _ => true | .error _ _ => false) = true := by rfl
    rw [h] at this; cases this

end Refine

end NemoVerif.Lifetime
