/-
  C10 on CoreVM: every head key handed back by `slide` (heads created by a `ForkHead`, the parent head re-activated by a
  `MergeHeads`) belongs to the flow instance whose head is sliding.

  A small calculus for RESULTS of computations in `M` (`Ret P x`: every normal return of `x` returns a value satisfying
  `P`), with a syntax-directed proof search over the unfolded do-block of `slideStep` in the style of `Post` /
  `post_search` of `ErrContainVM.lean`.  The mutable variable `newHeads` is threaded through the join points of the
  do-notation as an argument and through the `for label in labels` loop of `ForkHead` as the accumulator: facts about such
  join points are conditional on the list argument (`RJ3c`).
-/
import NemoVerif.Lemmas.ErrContainVM

set_option linter.unusedSimpArgs false
set_option linter.unusedVariables false

namespace NemoVerif.CoreVM
open NemoVerif NemoVerif.CoreIndex

/-- every key of the list belongs to flow instance `f` -/
def AllF (f : FUid) (l : List Key) : Prop := ∀ k ∈ l, k.1 = f

theorem AllF.nil (f : FUid) : AllF f [] := fun _ h => by cases h

theorem AllF.snoc {f : FUid} {l : List Key} {k : Key} (hl : AllF f l) (hk : k.1 = f) : AllF f (l ++ [k]) := by
  intro k' hk'
  rcases List.mem_append.mp hk' with h | h
  · exact hl k' h
  · rw [List.mem_singleton.mp h]; exact hk

theorem AllF.append {f : FUid} {l l' : List Key} (hl : AllF f l) (hl' : AllF f l') : AllF f (l ++ l') := by
  intro k hk
  rcases List.mem_append.mp hk with h | h
  · exact hl k h
  · exact hl' k h

/-- every normal return of `x` returns a value satisfying `P` -/
structure Ret {α : Type} (P : α → Prop) (x : M α) : Prop where
  app : ∀ s a s', x s = .ok a s' → P a

/-- only the continuation matters -/
theorem Ret.bind {α β : Type} {P : β → Prop} {x : M α} {g : α → M β} (hg : ∀ a, Ret P (g a)) : Ret P (x >>= g) :=
  ⟨fun s b s' h => by obtain ⟨a, s1, _, h2⟩ := bind_ok h; exact (hg a).app s1 b s' h2⟩

/-- the value of the first computation matters -/
theorem Ret.bind2 {α β : Type} {I : α → Prop} {P : β → Prop} {x : M α} {g : α → M β} (hx : Ret I x)
    (hg : ∀ a, I a → Ret P (g a)) : Ret P (x >>= g) :=
  ⟨fun s b s' h => by obtain ⟨a, s1, h1, h2⟩ := bind_ok h; exact (hg a (hx.app s a s1 h1)).app s1 b s' h2⟩

theorem Ret.pure {α : Type} {P : α → Prop} (a : α) (h : P a) : Ret P (pure a : M α) :=
  ⟨fun s a' s' hr => by cases hr; exact h⟩

theorem Ret.throw {α : Type} {P : α → Prop} (e : VMErr) : Ret P (throw e : M α) := ⟨fun s a s' h => by cases h⟩
theorem Ret.pyRaise {α : Type} {P : α → Prop} (c m : String) : Ret P (pyRaise c m : M α) := ⟨fun s a s' h => by cases h⟩
theorem Ret.unsupported {α : Type} {P : α → Prop} (w : String) : Ret P (unsupported w : M α) :=
  ⟨fun s a s' h => by cases h⟩

/-- the property carried by the result of one `slide` iteration -/
def KeysOK (f : FUid) (r : Bool × List Key) : Prop := AllF f r.2

/-- the property carried by the accumulator of a `for` loop over a `List Key` -/
def StepOK (f : FUid) : ForInStep (List Key) → Prop
  | .yield b => AllF f b
  | .done b => AllF f b

theorem Ret.pure_pair {f : FUid} (st : Bool) (nh : List Key) (h : AllF f nh) : Ret (KeysOK f) (Pure.pure (st, nh) : M _) :=
  Ret.pure _ h

theorem Ret.pure_yield {f : FUid} (nh : List Key) (h : AllF f nh) : Ret (StepOK f) (Pure.pure (ForInStep.yield nh) : M _) :=
  Ret.pure _ h

theorem Ret.pure_done {f : FUid} (nh : List Key) (h : AllF f nh) : Ret (StepOK f) (Pure.pure (ForInStep.done nh) : M _) :=
  Ret.pure _ h

theorem Ret.forIn {α : Type} {f : FUid} (xs : List α) (init : List Key) (body : α → List Key → M (ForInStep (List Key)))
    (h0 : AllF f init) (hb : ∀ a b, AllF f b → Ret (StepOK f) (body a b)) : Ret (AllF f) (ForIn.forIn xs init body) := by
  induction xs generalizing init with
  | nil => simp only [List.forIn_nil]; exact Ret.pure _ h0
  | cons a as ih =>
    simp only [List.forIn_cons]
    refine Ret.bind2 (hb a init h0) ?_
    intro r hr
    cases r with
    | done b => exact Ret.pure _ hr
    | yield b => exact ih b hr

/-- a `for` loop whose accumulator is the list of keys, followed by the rest of the block -/
theorem Ret.bind_forIn {α β : Type} {f : FUid} {P : β → Prop} (xs : List α) (init : List Key)
    (body : α → List Key → M (ForInStep (List Key))) (g : List Key → M β)
    (h0 : AllF f init) (hb : ∀ a b, AllF f b → Ret (StepOK f) (body a b)) (hg : ∀ b, AllF f b → Ret P (g b)) :
    Ret P (ForIn.forIn xs init body >>= g) :=
  Ret.bind2 (Ret.forIn xs init body h0 hb) hg

/-- facts about the join points of the do-notation -/
structure RJ1 {A α : Type} (P : α → Prop) (x : A → M α) : Prop where
  app : ∀ a, Ret P (x a)
structure RJ2 {A B α : Type} (P : α → Prop) (x : A → B → M α) : Prop where
  app : ∀ a b, Ret P (x a b)
/-- a join point that carries the list of new heads: its fact is conditional -/
structure RJ3c {A C α : Type} (f : FUid) (P : α → Prop) (x : A → List Key → C → M α) : Prop where
  app : ∀ a nh c, AllF f nh → Ret P (x a nh c)

/-- leaves `AllF f l` / `k.1 = f` -/
syntax "allf" : tactic
macro_rules
  | `(tactic| allf) => `(tactic| first
      | assumption
      | exact AllF.nil _
      | rfl
      | (refine AllF.snoc ?_ ?_
         · allf
         · first | assumption | rfl))

syntax "ret_search " term:max term:max : tactic
syntax "ret_let " term:max term:max : tactic
macro_rules
  | `(tactic| ret_let $f $P) => `(tactic| (
      extract_lets +onlyGivenNames x
      first
        | (have hx : RJ3c $f $P x := ⟨by (intro a b c hb; dsimp only [x]; clear x; ret_search $f $P)⟩
           clear_value x)
        | (have hx : RJ1 $P x := ⟨by (intro a; dsimp only [x]; clear x; ret_search $f $P)⟩
           clear_value x)
        | (have hx : RJ2 $P x := ⟨by (intro a b; dsimp only [x]; clear x; ret_search $f $P)⟩
           clear_value x)
        | (have hx : AllF $f x := by (dsimp only [x]; allf)
           clear_value x)
        | (have hx : Prod.fst (x : Key) = $f := rfl
           clear_value x)
        | clear_value x))
macro_rules
  | `(tactic| ret_search $f $P) => `(tactic| repeat' (first
      | with_reducible exact Ret.pure_pair _ _ (by allf)
      | with_reducible exact Ret.pure_yield _ (by allf)
      | with_reducible exact Ret.pure_done _ (by allf)
      | with_reducible exact Ret.throw _
      | with_reducible exact Ret.pyRaise _ _
      | with_reducible exact Ret.unsupported _
      | with_reducible refine Ret.bind_forIn (f := $f) _ _ _ _ (by allf) ?_ ?_
      | with_reducible apply Ret.bind
      | intro _
      | ret_let $f $P
      | with_reducible exact RJ3c.app (f := $f) (by assumption) _ _ _ (by allf)
      | with_reducible (refine RJ1.app ?_ _; assumption)
      | with_reducible (refine RJ2.app ?_ _ _; assumption)
      | split
      | dsimp only))

set_option maxHeartbeats 1000000 in
/-- **one iteration of `slide` only hands back heads of the sliding flow instance** -/
theorem slideStep_ret (fuel : Nat) (f : FUid) (h : HUid) : Ret (KeysOK f) (slideStep fuel f h) := by
  unfold slideStep
  ret_search f (KeysOK f)

theorem slideStep_keys (fuel : Nat) (f : FUid) (h : HUid) (s s' : VM) (st : Bool) (nh : List Key)
    (hr : slideStep fuel f h s = .ok (st, nh) s') : ∀ k ∈ nh, k.1 = f :=
  (slideStep_ret fuel f h).app s (st, nh) s' hr

theorem slideLoop_keys : ∀ (fuel : Nat) (f : FUid) (h : HUid) (acc : List Key) (s s' : VM) (r : List Key),
    (∀ k ∈ acc, k.1 = f) → slideLoop fuel f h acc s = .ok r s' → ∀ k ∈ r, k.1 = f
  | 0, f, h, acc, s, s', r, _, hr => by
    unfold slideLoop at hr
    cases hr
  | fuel + 1, f, h, acc, s, s', r, hacc, hr => by
    unfold slideLoop at hr
    obtain ⟨⟨st, nh⟩, s1, h1, h2⟩ := bind_ok hr
    have hnh : AllF f nh := slideStep_keys fuel f h s s1 st nh h1
    have hall : AllF f (acc ++ nh) := AllF.append hacc hnh
    dsimp only at h2
    split at h2
    · cases h2
      exact hall
    · exact slideLoop_keys fuel f h (acc ++ nh) s1 s' r hall h2

theorem slide_keys (fuel : Nat) (f : FUid) (h : HUid) (s s' : VM) (r : List Key)
    (hr : slide fuel f h s = .ok r s') : ∀ k ∈ r, k.1 = f :=
  slideLoop_keys fuel f h [] s s' r (AllF.nil f) hr

end NemoVerif.CoreVM
