/-
  C16 phase 4 — the tail of a rejecting check rail at the level of the rounds of `generate_events` (input and output).
-/
import NemoVerif.Lemmas.RailsWhole
import NemoVerif.Lemmas.RailsTail
namespace NemoVerif.RailsInterp
open NemoVerif.V1Interp
set_option linter.unusedSimpArgs false
set_option linter.unusedVariables false

def KT : List String := ["i", "config.rails.retrieval.flows"]

theorem forall_KT (p : String → Prop) (h1 : p "i") (h2 : p "config.rails.retrieval.flows") : ∀ k ∈ KT, p k := by
  intro k hk
  simp only [KT, List.mem_cons, List.mem_nil_iff, or_false] at hk
  rcases hk with rfl | rfl <;> assumption

macro "keysT_tac" : tactic => `(tactic| (apply forall_KT <;> plain_tac))

/-- replaying `startAction` + the result events of an action whose single result key is `rk`: the state the final
    `actionFinished` event meets (the `ContextUpdate` is there only if the value changes) -/
theorem replay_result (cfgs : Cfgs) (st : State) (name rk : String) (v : V) (rest : List Event) :
    ∃ σ' nx u', replay true cfgs (.startAction :: (resultEvents st.ctx name [(rk, v)] ++ rest)) st
      = replay true cfgs (.actionFinished name true :: rest) { ctx := σ', flows := st.flows, next := nx, upd := u', ctr := st.ctr } ∧
      σ'.get rk = v ∧ ∀ k, k ≠ rk → σ'.get k = st.ctx.get k := by
  rw [resultEvents_single]
  by_cases h : st.ctx.get rk = v
  · refine ⟨st.ctx, st.next, st.upd, ?_, h, fun _ _ => rfl⟩
    simp only [h, if_true, List.nil_append, List.cons_append]
    rw [replay_cons_ok _ _ _ _ _ (cns_start _ _) (by simp)]
  · refine ⟨st.ctx.set rk v, none, [], ?_, by rw [get_set, if_pos rfl], fun k hk => by rw [get_set, if_neg hk]⟩
    simp only [h, if_false, List.cons_append, List.nil_append]
    rw [replay_cons_ok _ _ _ _ _ (cns_start _ _) (by simp), replay_cons_ok _ _ _ _ _ (cns_ctx _ _ _) (by simp)]
    rfl

theorem noHide_result' (σ : Ctx) (name : String) (upd : Ctx) (rest : List Event) (h : noHideB rest = true) :
    NoHide (.startAction :: (resultEvents σ name upd ++ rest)) := by
  have := (noHide_result σ name upd).append (noHide_of_B rest h)
  simpa using this

theorem isStop_cons_other (es : List Event) (ty : String) (ps : List (String × V)) : isStop (es ++ [.other ty ps]) = false := by
  rw [isStop_append _ _ (by simp)]; simp [isStop]

/-- **the tail of a rejecting input rail** (drive level): from the state in which the check rail's action is requested and
    answers `False` on the text `um`: the action is executed, then `bot refuse to respond`, `retrieve_relevant_chunks`,
    `generate_bot_message` (predefined message, no LLM call), the refusal is uttered WITHOUT output rails, `bot stop` ends the turn -/
theorem reject_runs (s : Setup) (hwf : s.WF) (σ : Ctx) (c u0 u1 : Nat) (h01 : u0 < u1) (h1c : u1 < c) (k : Nat) (r : IRail) (a : String → Bool)
    (hk : s.input[k]? = some r) (hkind : r.kind = .check a) (um : V) (hrej : a (strOf um) = false)
    (hum : σ.get "user_message" = um) (ki : Nat) (hi : σ.get "i" = .int ki) (hret : σ.get "config.rails.retrieval.flows" = .strs []) :
    Runs s (base ++ s.rails) (callState σ c u0 u1 r) [Obs.railCall "input" k r.name (strOf um), Obs.utter s.refusal] := by
  have hok := hwf.railOK_in r (List.mem_of_getElem? hk)
  have hfind : Cfgs.find (base ++ s.rails) r.name = some (checkCfg r.name r.action) := by rw [hok.1, checkCfg_eq _ r a hkind]
  have hsub := s.rails_sub
  have hrk : resultKey r = "allowed" := by simp [resultKey, hkind]
  have hres : railResult r (strOf um) = .bool false := by simp [railResult, hkind, hrej]
  -- round 1: the rail's action
  have e1 := roundB_events s hwf k r hk σ c u0 u1
  rw [hum, hrk, hres] at e1
  obtain ⟨σ1, nx1, u1', r1, hal1, hk1⟩ := replay_result (base ++ s.rails) (callState σ c u0 u1 r) r.action "allowed" (.bool false) []
  simp only [List.append_nil] at r1
  have hr1 : replay true (base ++ s.rails) (.startAction :: resultEvents σ r.action [("allowed", .bool false)]) (callState σ c u0 u1 r)
      = .ok { ctx := σ1.withEvent (.actionFinished r.action true), flows := [railFS c r.name 2, fsRIRint u1 c, fsPUIint u0 u1],
              next := some { elem := utterRefuse, uid := c, prio := 10000 }, upd := [], ctr := c + 1 } := by
    have := r1
    simp only [callState] at this ⊢
    rw [this]
    exact replay_cons_ok _ _ [] _ _ (TR_reject s.rails hsub σ1 _ (c + 1) u0 u1 c h01 h1c _ r.name r.action hal1 hfind hok.2) (by simp)
  have R1 := RunsTo.one (s := s) (cfgs := base ++ s.rails) _ _ _ _ e1
    (decisions_ne_of_act _ _ _ _ _ _ rfl rfl (fun e => absurd e hok.2)) (noHide_result _ _ _) (isStop_result _ _ _) (by simp) hr1
  -- the facts carried along
  have hKa : Keep KT σ (σ1.withEvent (.actionFinished r.action true)) := by
    refine Keep.withEvent (fun k hk => ?_) _ (by keysT_tac)
    exact hk1 k (by revert hk; simp only [KT, List.mem_cons, List.mem_nil_iff, or_false]; rintro (rfl | rfl) <;> decide)
  -- round 2: `bot refuse to respond`
  let stA : State := { ctx := σ1.withEvent (.actionFinished r.action true), flows := [railFS c r.name 2, fsRIRint u1 c, fsPUIint u0 u1], next := some { elem := utterRefuse, uid := c, prio := 10000 }, upd := [], ctr := c + 1 }
  have e2 : roundEvents s stA = some ([.botIntent "refuse to respond"], []) := by
    simp [roundEvents, stepDecision, stA, utterRefuse, stepToEvent, roundPre]
  have hr2 := replay_cons_ok (base ++ s.rails) _ [] _ _
    (TR_refuse s.rails hsub (σ1.withEvent (.actionFinished r.action true)) [] (c + 1) u0 u1 c h01 h1c (by omega)
      (some { elem := utterRefuse, uid := c, prio := 10000 }) r.name r.action hfind) (by simp)
  have R2 := RunsTo.one (s := s) (cfgs := base ++ s.rails) stA _ _ _ e2
    (decisions_ne_of_act _ _ _ _ _ _ rfl rfl (by simp [utterRefuse])) (noHide_of_B _ rfl) (by simp [isStop]) (by simp) hr2
  -- round 3: `retrieve_relevant_chunks`
  let σB := (σ1.withEvent (.actionFinished r.action true)).withEvent (.botIntent "refuse to respond")
  have hKb : Keep KT σ σB := hKa.withEvent _ (by keysT_tac)
  let stB : State := { ctx := σB, flows := [railFS c r.name 3, fsRIRint u1 c, fsPUIint u0 u1, { uid := c + 1, flowId := "generate bot message", head := 1 }], next := some { elem := rrcAction, uid := c + 1, prio := 1000000 }, upd := [], ctr := c + 1 + 1 }
  have e3 : roundEvents s stB = some (.startAction :: resultEvents σB "retrieve_relevant_chunks" [("relevant_chunks", .str "\n")], []) := by
    simp [roundEvents, stepDecision, stB, rrcAction, stepToEvent, roundPre, roundCtx, actionEvents]
  obtain ⟨σ3, nx3, u3', r3, _, hk3⟩ := replay_result (base ++ s.rails) stB "retrieve_relevant_chunks" "relevant_chunks" (.str "\n") []
  simp only [List.append_nil] at r3
  have hKc0 : Keep KT σ σ3 := fun k hk => (hk3 k (by revert hk; simp only [KT, List.mem_cons, List.mem_nil_iff, or_false]; rintro (rfl | rfl) <;> decide)).trans (hKb k hk)
  have hr3 : replay true (base ++ s.rails) (.startAction :: resultEvents σB "retrieve_relevant_chunks" [("relevant_chunks", .str "\n")]) stB
      = .ok { ctx := σ3.withEvent (.actionFinished "retrieve_relevant_chunks" true), flows := [railInt c (c + 1) r.name, fsRIRint u1 c, fsPUIint u0 u1, { uid := c + 1, flowId := "generate bot message", head := 5 }], next := some { elem := gbmAction, uid := c + 1, prio := 1000000 }, upd := [], ctr := c + 1 + 1 } := by
    rw [r3]
    exact replay_cons_ok _ _ [] _ _ (TR_rrc s.rails hsub σ3 _ _ u0 u1 c (c + 1) h01 h1c (by omega) _ r.name r.action hfind
      ((hKc0 _ (by simp [KT])).trans hret)) (by simp)
  have R3 := RunsTo.one (s := s) (cfgs := base ++ s.rails) stB _ _ _ e3
    (decisions_ne_of_act _ _ _ _ _ _ rfl rfl (by simp [rrcAction])) (noHide_result _ _ _) (isStop_result _ _ _) (by simp) hr3
  -- round 4: `generate_bot_message` (predefined refusal) and the `BotMessage` it returns
  let σC := σ3.withEvent (.actionFinished "retrieve_relevant_chunks" true)
  have hKc : Keep KT σ σC := hKc0.withEvent _ (by keysT_tac)
  let stC : State := { ctx := σC, flows := [railInt c (c + 1) r.name, fsRIRint u1 c, fsPUIint u0 u1, { uid := c + 1, flowId := "generate bot message", head := 5 }], next := some { elem := gbmAction, uid := c + 1, prio := 1000000 }, upd := [], ctr := c + 1 + 1 }
  have e4 : roundEvents s stC = some (.startAction :: (resultEvents σC "generate_bot_message" [("skip_output_rails", .bool true)] ++ [.other "BotMessage" [("text", .str s.refusal)]]), []) := by
    simp [roundEvents, stepDecision, stC, gbmAction, stepToEvent, roundPre, roundCtx, actionEvents]
  obtain ⟨σ4, nx4, u4', r4, hsk4, hk4⟩ := replay_result (base ++ s.rails) stC "generate_bot_message" "skip_output_rails" (.bool true) [.other "BotMessage" [("text", .str s.refusal)]]
  have hKd0 : Keep KT σ σ4 := fun k hk => (hk4 k (by revert hk; simp only [KT, List.mem_cons, List.mem_nil_iff, or_false]; rintro (rfl | rfl) <;> decide)).trans (hKc k hk)
  let σD := (((σ4.withEvent (.actionFinished "generate_bot_message" true)).withEvent (.other "BotMessage" [("text", .str s.refusal)])).set "bot_message" (.str s.refusal)).set "skip_output_rails" (.bool false)
  have hr4 : replay true (base ++ s.rails) (.startAction :: (resultEvents σC "generate_bot_message" [("skip_output_rails", .bool true)] ++ [.other "BotMessage" [("text", .str s.refusal)]])) stC
      = .ok { ctx := σD, flows := [railFS c r.name 3, fsRIRint u1 c, fsPUIint u0 u1, { uid := c + 1 + 1, flowId := "process bot message", head := 12 }], next := some { elem := createSubaBot, uid := c + 1 + 1, prio := 1000000 }, upd := [("skip_output_rails", .bool false), ("bot_message", .str s.refusal)], ctr := c + 1 + 1 + 1 } := by
    rw [r4, replay_cons_ok _ _ _ _ _ (TR_gbm_fin s.rails hsub σ4 _ _ u0 u1 c (c + 1) h01 h1c (by omega) _ r.name r.action hfind) (by simp)]
    exact replay_cons_ok _ _ [] _ _ (TR_bm s.rails hsub _ _ (c + 1 + 1) u0 u1 c h01 h1c (by omega) _ r.name r.action (.str s.refusal) _ rfl (by simp [find_gbm]) hfind
      (by rw [get_withEvent_plain _ _ _ (by plain_tac), hsk4]; rfl)) (by simp)
  have R4 := RunsTo.one (s := s) (cfgs := base ++ s.rails) stC _ _ _ e4
    (decisions_ne_of_act _ _ _ _ _ _ rfl rfl (by simp [gbmAction])) (noHide_result' _ _ _ _ rfl) (by
      have := isStop_cons_other (.startAction :: resultEvents σC "generate_bot_message" [("skip_output_rails", .bool true)]) "BotMessage" [("text", .str s.refusal)]
      simpa using this) (by simp) hr4
  -- round 5: the refusal is uttered (no output rails: `$skip_output_rails` was set)
  let stD : State := { ctx := σD, flows := [railFS c r.name 3, fsRIRint u1 c, fsPUIint u0 u1, { uid := c + 1 + 1, flowId := "process bot message", head := 12 }], next := some { elem := createSubaBot, uid := c + 1 + 1, prio := 1000000 }, upd := [("skip_output_rails", .bool false), ("bot_message", .str s.refusal)], ctr := c + 1 + 1 + 1 }
  have hbm : (roundCtx stD).get "bot_message" = .str s.refusal := by
    simp only [roundCtx, stD, List.isEmpty_cons, Bool.false_eq_true, if_false, Ctx.update, List.foldl]
    ctx_norm
  have hKd : Keep KT σ (roundCtx stD) := by
    apply forall_KT <;>
    · simp only [roundCtx, stD, σD, List.isEmpty_cons, Bool.false_eq_true, if_false, Ctx.update, List.foldl]
      ctx_norm
      exact hKd0 _ (by simp [KT])
  obtain ⟨nx5, u5', hpre5⟩ := replay_pre (base ++ s.rails) stD [.startAction, .actionFinished "create_event" true, .other "StartUtteranceBotAction" [("script", (roundCtx stD).get "bot_message")]]
  let σE := ((roundCtx stD).withEvent (.actionFinished "create_event" true)).withEvent (.other "StartUtteranceBotAction" [("script", (roundCtx stD).get "bot_message")])
  have hKe : Keep KT σ σE := (hKd.withEvent _ (by keysT_tac)).withEvent _ (by keysT_tac)
  let stE : State := { ctx := σE, flows := [railFS c r.name 3, fsRIRint u1 c, fsPUIint u0 u1], next := some { elem := utterStop, uid := c, prio := 9000 }, upd := [], ctr := c + 1 + 1 + 1 }
  have R5 := RunsTo.ce (s := s) (cfgs := base ++ s.rails) stD stE _ (c + 1 + 1) 1000000 "StartUtteranceBotAction" [("script", (roundCtx stD).get "bot_message")] rfl
    (by simp [createdEvent]) (by
      rw [hpre5]
      exact replay_two _ _ _ _ _ _ (TR_ce s.rails hsub _ _ _ u0 u1 c (c + 1 + 1) h01 h1c (by omega) _ r.name r.action hfind)
        (TR_suba s.rails hsub _ _ _ u0 u1 c h01 h1c _ r.name r.action _ _ rfl (by simp [find_pbm]) hfind) (by simp) (by simp))
  simp only [ceObs, if_true, List.lookup, beq_self_eq_true, Option.getD, hbm, strOf] at R5
  -- round 6: `bot stop`
  have e6 : roundEvents s stE = some ([.botIntent "stop"], []) := by
    simp [roundEvents, stepDecision, stE, utterStop, stepToEvent, roundPre]
  have hok6 : ∃ st', replay true (base ++ s.rails) [.botIntent "stop"] stE = .ok st' := by
    have := TR_stop s.rails hsub σE [] (c + 1 + 1 + 1) u0 u1 c h01 h1c (by omega) (some { elem := utterStop, uid := c, prio := 9000 }) r.name r.action ki
      ((hKe _ (by simp [KT])).trans hi) hfind
    simp only [replay]
    cases hc : computeNextState true (base ++ s.rails) stE (.botIntent "stop") with
    | error e => simp only [stE] at hc; rw [hc] at this; simp at this
    | ok st' => exact ⟨_, rfl⟩
  obtain ⟨st6, hr6⟩ := hok6
  have R6 : Runs s (base ++ s.rails) stE [] :=
    Runs.stop stE st6 _ _ e6 (decisions_ne_of_act _ _ _ _ _ _ rfl rfl (by simp [utterStop])) (noHide_of_B _ rfl) (by simp [isStop]) hr6
  have := (((R1.trans R2).trans R3).trans R4).trans R5 |>.then R6
  simpa using this




/-- **the tail of a rejecting output rail** (drive level): from the state in which the check rail's action is requested and
    answers `False` on the text `um`: the action is executed, then `bot refuse to respond`, `retrieve_relevant_chunks`,
    `generate_bot_message` (predefined message, no LLM call), the refusal is uttered without re-running the output rails, `bot stop` ends the turn -/
theorem rejectO_runs (s : Setup) (hwf : s.WF) (σ : Ctx) (c u0 u1 : Nat) (h01 : u0 < u1) (h1c : u1 < c) (k : Nat) (r : IRail) (a : String → Bool)
    (hk : s.output[k]? = some r) (hkind : r.kind = .check a) (um : V) (hrej : a (strOf um) = false)
    (hum : σ.get "bot_message" = um) (ki : Nat) (hi : σ.get "i" = .int ki) (hret : σ.get "config.rails.retrieval.flows" = .strs []) :
    Runs s (base ++ s.rails) (callStateO σ c u0 u1 r) [Obs.railCall "output" k r.name (strOf um), Obs.utter s.refusal] := by
  have hok := hwf.railOK_out r (List.mem_of_getElem? hk)
  have hfind : Cfgs.find (base ++ s.rails) r.name = some (checkCfg r.name r.action) := by rw [hok.1, checkCfg_eq _ r a hkind]
  have hsub := s.rails_sub
  have hrk : resultKeyO r = "allowed" := by simp [resultKeyO, hkind]
  have hres : railResult r (strOf um) = .bool false := by simp [railResult, hkind, hrej]
  -- round 1: the rail's action
  have e1 := roundBO_events s hwf k r hk σ c u0 u1
  rw [hum, hrk, hres] at e1
  obtain ⟨σ1, nx1, u1', r1, hal1, hk1⟩ := replay_result (base ++ s.rails) (callStateO σ c u0 u1 r) r.action "allowed" (.bool false) []
  simp only [List.append_nil] at r1
  have hr1 : replay true (base ++ s.rails) (.startAction :: resultEvents σ r.action [("allowed", .bool false)]) (callStateO σ c u0 u1 r)
      = .ok { ctx := σ1.withEvent (.actionFinished r.action true), flows := [railFS c r.name 2, fsRORint u1 c, fsPBMint u0 u1],
              next := some { elem := utterRefuse, uid := c, prio := 10000 }, upd := [], ctr := c + 1 } := by
    have := r1
    simp only [callStateO] at this ⊢
    rw [this]
    exact replay_cons_ok _ _ [] _ _ (TRO_reject s.rails hsub σ1 _ (c + 1) u0 u1 c h01 h1c _ r.name r.action hal1 hfind hok.2) (by simp)
  have R1 := RunsTo.one (s := s) (cfgs := base ++ s.rails) _ _ _ _ e1
    (decisions_ne_of_act _ _ _ _ _ _ rfl rfl (fun e => absurd e hok.2)) (noHide_result _ _ _) (isStop_result _ _ _) (by simp) hr1
  -- the facts carried along
  have hKa : Keep KT σ (σ1.withEvent (.actionFinished r.action true)) := by
    refine Keep.withEvent (fun k hk => ?_) _ (by keysT_tac)
    exact hk1 k (by revert hk; simp only [KT, List.mem_cons, List.mem_nil_iff, or_false]; rintro (rfl | rfl) <;> decide)
  -- round 2: `bot refuse to respond`
  let stA : State := { ctx := σ1.withEvent (.actionFinished r.action true), flows := [railFS c r.name 2, fsRORint u1 c, fsPBMint u0 u1], next := some { elem := utterRefuse, uid := c, prio := 10000 }, upd := [], ctr := c + 1 }
  have e2 : roundEvents s stA = some ([.botIntent "refuse to respond"], []) := by
    simp [roundEvents, stepDecision, stA, utterRefuse, stepToEvent, roundPre]
  have hr2 := replay_cons_ok (base ++ s.rails) _ [] _ _
    (TRO_refuse s.rails hsub (σ1.withEvent (.actionFinished r.action true)) [] (c + 1) u0 u1 c h01 h1c (by omega)
      (some { elem := utterRefuse, uid := c, prio := 10000 }) r.name r.action hfind) (by simp)
  have R2 := RunsTo.one (s := s) (cfgs := base ++ s.rails) stA _ _ _ e2
    (decisions_ne_of_act _ _ _ _ _ _ rfl rfl (by simp [utterRefuse])) (noHide_of_B _ rfl) (by simp [isStop]) (by simp) hr2
  -- round 3: `retrieve_relevant_chunks`
  let σB := (σ1.withEvent (.actionFinished r.action true)).withEvent (.botIntent "refuse to respond")
  have hKb : Keep KT σ σB := hKa.withEvent _ (by keysT_tac)
  let stB : State := { ctx := σB, flows := [railFS c r.name 3, fsRORint u1 c, fsPBMint u0 u1, { uid := c + 1, flowId := "generate bot message", head := 1 }], next := some { elem := rrcAction, uid := c + 1, prio := 1000000 }, upd := [], ctr := c + 1 + 1 }
  have e3 : roundEvents s stB = some (.startAction :: resultEvents σB "retrieve_relevant_chunks" [("relevant_chunks", .str "\n")], []) := by
    simp [roundEvents, stepDecision, stB, rrcAction, stepToEvent, roundPre, roundCtx, actionEvents]
  obtain ⟨σ3, nx3, u3', r3, _, hk3⟩ := replay_result (base ++ s.rails) stB "retrieve_relevant_chunks" "relevant_chunks" (.str "\n") []
  simp only [List.append_nil] at r3
  have hKc0 : Keep KT σ σ3 := fun k hk => (hk3 k (by revert hk; simp only [KT, List.mem_cons, List.mem_nil_iff, or_false]; rintro (rfl | rfl) <;> decide)).trans (hKb k hk)
  have hr3 : replay true (base ++ s.rails) (.startAction :: resultEvents σB "retrieve_relevant_chunks" [("relevant_chunks", .str "\n")]) stB
      = .ok { ctx := σ3.withEvent (.actionFinished "retrieve_relevant_chunks" true), flows := [railInt c (c + 1) r.name, fsRORint u1 c, fsPBMint u0 u1, { uid := c + 1, flowId := "generate bot message", head := 5 }], next := some { elem := gbmAction, uid := c + 1, prio := 1000000 }, upd := [], ctr := c + 1 + 1 } := by
    rw [r3]
    exact replay_cons_ok _ _ [] _ _ (TRO_rrc s.rails hsub σ3 _ _ u0 u1 c (c + 1) h01 h1c (by omega) _ r.name r.action hfind
      ((hKc0 _ (by simp [KT])).trans hret)) (by simp)
  have R3 := RunsTo.one (s := s) (cfgs := base ++ s.rails) stB _ _ _ e3
    (decisions_ne_of_act _ _ _ _ _ _ rfl rfl (by simp [rrcAction])) (noHide_result _ _ _) (isStop_result _ _ _) (by simp) hr3
  -- round 4: `generate_bot_message` (predefined refusal) and the `BotMessage` it returns
  let σC := σ3.withEvent (.actionFinished "retrieve_relevant_chunks" true)
  have hKc : Keep KT σ σC := hKc0.withEvent _ (by keysT_tac)
  let stC : State := { ctx := σC, flows := [railInt c (c + 1) r.name, fsRORint u1 c, fsPBMint u0 u1, { uid := c + 1, flowId := "generate bot message", head := 5 }], next := some { elem := gbmAction, uid := c + 1, prio := 1000000 }, upd := [], ctr := c + 1 + 1 }
  have e4 : roundEvents s stC = some (.startAction :: (resultEvents σC "generate_bot_message" [("skip_output_rails", .bool true)] ++ [.other "BotMessage" [("text", .str s.refusal)]]), []) := by
    simp [roundEvents, stepDecision, stC, gbmAction, stepToEvent, roundPre, roundCtx, actionEvents]
  obtain ⟨σ4, nx4, u4', r4, hsk4, hk4⟩ := replay_result (base ++ s.rails) stC "generate_bot_message" "skip_output_rails" (.bool true) [.other "BotMessage" [("text", .str s.refusal)]]
  have hKd0 : Keep KT σ σ4 := fun k hk => (hk4 k (by revert hk; simp only [KT, List.mem_cons, List.mem_nil_iff, or_false]; rintro (rfl | rfl) <;> decide)).trans (hKc k hk)
  let σD := (((σ4.withEvent (.actionFinished "generate_bot_message" true)).withEvent (.other "BotMessage" [("text", .str s.refusal)])).set "bot_message" (.str s.refusal)).set "skip_output_rails" (.bool false)
  have hr4 : replay true (base ++ s.rails) (.startAction :: (resultEvents σC "generate_bot_message" [("skip_output_rails", .bool true)] ++ [.other "BotMessage" [("text", .str s.refusal)]])) stC
      = .ok { ctx := σD, flows := [railFS c r.name 3, fsRORint u1 c, fsPBMint u0 u1, { uid := c + 1 + 1, flowId := "process bot message", head := 12 }], next := some { elem := createSubaBot, uid := c + 1 + 1, prio := 1000000 }, upd := [("skip_output_rails", .bool false), ("bot_message", .str s.refusal)], ctr := c + 1 + 1 + 1 } := by
    rw [r4, replay_cons_ok _ _ _ _ _ (TRO_gbm_fin s.rails hsub σ4 _ _ u0 u1 c (c + 1) h01 h1c (by omega) _ r.name r.action hfind) (by simp)]
    exact replay_cons_ok _ _ [] _ _ (TRO_bm s.rails hsub _ _ (c + 1 + 1) u0 u1 c h01 h1c (by omega) _ r.name r.action (.str s.refusal) _ rfl (by simp [find_gbm]) hfind
      (by rw [get_withEvent_plain _ _ _ (by plain_tac), hsk4]; rfl)) (by simp)
  have R4 := RunsTo.one (s := s) (cfgs := base ++ s.rails) stC _ _ _ e4
    (decisions_ne_of_act _ _ _ _ _ _ rfl rfl (by simp [gbmAction])) (noHide_result' _ _ _ _ rfl) (by
      have := isStop_cons_other (.startAction :: resultEvents σC "generate_bot_message" [("skip_output_rails", .bool true)]) "BotMessage" [("text", .str s.refusal)]
      simpa using this) (by simp) hr4
  -- round 5: the refusal is uttered (no output rails: `$skip_output_rails` was set)
  let stD : State := { ctx := σD, flows := [railFS c r.name 3, fsRORint u1 c, fsPBMint u0 u1, { uid := c + 1 + 1, flowId := "process bot message", head := 12 }], next := some { elem := createSubaBot, uid := c + 1 + 1, prio := 1000000 }, upd := [("skip_output_rails", .bool false), ("bot_message", .str s.refusal)], ctr := c + 1 + 1 + 1 }
  have hbm : (roundCtx stD).get "bot_message" = .str s.refusal := by
    simp only [roundCtx, stD, List.isEmpty_cons, Bool.false_eq_true, if_false, Ctx.update, List.foldl]
    ctx_norm
  have hKd : Keep KT σ (roundCtx stD) := by
    apply forall_KT <;>
    · simp only [roundCtx, stD, σD, List.isEmpty_cons, Bool.false_eq_true, if_false, Ctx.update, List.foldl]
      ctx_norm
      exact hKd0 _ (by simp [KT])
  obtain ⟨nx5, u5', hpre5⟩ := replay_pre (base ++ s.rails) stD [.startAction, .actionFinished "create_event" true, .other "StartUtteranceBotAction" [("script", (roundCtx stD).get "bot_message")]]
  let σE := ((roundCtx stD).withEvent (.actionFinished "create_event" true)).withEvent (.other "StartUtteranceBotAction" [("script", (roundCtx stD).get "bot_message")])
  have hKe : Keep KT σ σE := (hKd.withEvent _ (by keysT_tac)).withEvent _ (by keysT_tac)
  let stE : State := { ctx := σE, flows := [railFS c r.name 3, fsRORint u1 c, fsPBMint u0 u1], next := some { elem := utterStop, uid := c, prio := 9000 }, upd := [], ctr := c + 1 + 1 + 1 }
  have R5 := RunsTo.ce (s := s) (cfgs := base ++ s.rails) stD stE _ (c + 1 + 1) 1000000 "StartUtteranceBotAction" [("script", (roundCtx stD).get "bot_message")] rfl
    (by simp [createdEvent]) (by
      rw [hpre5]
      exact replay_two _ _ _ _ _ _ (TRO_ce s.rails hsub _ _ _ u0 u1 c (c + 1 + 1) h01 h1c (by omega) _ r.name r.action hfind)
        (TRO_suba s.rails hsub _ _ _ u0 u1 c h01 h1c _ r.name r.action _ _ rfl (by simp [find_pbm]) hfind) (by simp) (by simp))
  simp only [ceObs, if_true, List.lookup, beq_self_eq_true, Option.getD, hbm, strOf] at R5
  -- round 6: `bot stop`
  have e6 : roundEvents s stE = some ([.botIntent "stop"], []) := by
    simp [roundEvents, stepDecision, stE, utterStop, stepToEvent, roundPre]
  have hok6 : ∃ st', replay true (base ++ s.rails) [.botIntent "stop"] stE = .ok st' := by
    have := TRO_stop s.rails hsub σE [] (c + 1 + 1 + 1) u0 u1 c h01 h1c (by omega) (some { elem := utterStop, uid := c, prio := 9000 }) r.name r.action ki
      ((hKe _ (by simp [KT])).trans hi) hfind
    simp only [replay]
    cases hc : computeNextState true (base ++ s.rails) stE (.botIntent "stop") with
    | error e => simp only [stE] at hc; rw [hc] at this; simp at this
    | ok st' => exact ⟨_, rfl⟩
  obtain ⟨st6, hr6⟩ := hok6
  have R6 : Runs s (base ++ s.rails) stE [] :=
    Runs.stop stE st6 _ _ e6 (decisions_ne_of_act _ _ _ _ _ _ rfl rfl (by simp [utterStop])) (noHide_of_B _ rfl) (by simp [isStop]) hr6
  have := (((R1.trans R2).trans R3).trans R4).trans R5 |>.then R6
  simpa using this




end NemoVerif.RailsInterp
