/-
  Lemmas about V1Annot: the annotated compiler projects onto `V1Struct.compile`, its dicts are coherent, and
  `slide` on coherent dicts is `V1Interp.slide` on the projection (the loop keys on every other element type are
  never read by the code as it is).
-/
import NemoVerif.Models.V1Annot
import NemoVerif.Lemmas.V1Struct
namespace NemoVerif.V1Annot
open NemoVerif.V1Interp NemoVerif.V1Struct

def AllCoherent (code : List AElem) : Prop := ∀ a ∈ code, Coherent a

theorem plain_el (e : Elem) : (plain e).el = e := by cases e <;> rfl

/-- a freshly extracted element: `break` / `continue` carry no loop key yet -/
def Fresh : Elem → Prop
  | .breakE (some _) => False
  | .continueE (some _) => False
  | _ => True

theorem fresh_elemOf (s : Step) : Fresh (elemOf s) := by cases s <;> simp [elemOf, Fresh]

theorem coherent_plain (e : Elem) (h : Fresh e) : Coherent (plain e) := by
  cases e <;> simp [plain, Coherent]
  all_goals (rename_i o; cases o <;> simp_all [Fresh])

theorem coherent_annA (n j : Nat) (a : AElem) (h : Coherent a) : Coherent (annA n j a) := by
  obtain ⟨el, brk, cnt⟩ := a
  cases brk with
  | some b => simpa [annA] using h
  | none =>
    cases el <;> simp_all [annA, Coherent]

theorem annA_el (n j : Nat) (a : AElem) (h : Coherent a) : (annA n j a).el = annElem n j a.el := by
  obtain ⟨el, brk, cnt⟩ := a
  cases brk with
  | some b =>
    cases el <;> simp_all [annA, Coherent, annElem]
    all_goals (rename_i o; cases o <;> simp_all)
  | none =>
    cases el <;> simp_all [annA, Coherent, annElem]
    all_goals (rename_i o; cases o <;> simp_all)
    all_goals (obtain ⟨h1, h2⟩ := h; rw [h1] at h2; cases h2)

theorem annotateA_proj (n : Nat) : ∀ (j : Nat) (as : List AElem), AllCoherent as →
    proj (annotateA n j as) = annotate n j (proj as)
  | _, [], _ => rfl
  | j, a :: as, h => by
    have ha := annA_el n j a (h a (by simp))
    have := annotateA_proj n (j + 1) as (fun x hx => h x (by simp [hx]))
    simp only [proj] at this ⊢
    simp [annotateA, annotate, ha, this]

theorem annotateA_coherent (n : Nat) : ∀ (j : Nat) (as : List AElem), AllCoherent as → AllCoherent (annotateA n j as)
  | _, [], _ => by intro a ha; simp [annotateA] at ha
  | j, a :: as, h => by
    intro x hx
    simp only [annotateA, List.mem_cons] at hx
    rcases hx with rfl | hx
    · exact coherent_annA n j a (h a (by simp))
    · exact annotateA_coherent n (j + 1) as (fun y hy => h y (by simp [hy])) x hx

theorem allCoherent_cons {a : AElem} {as : List AElem} (ha : Coherent a) (h : AllCoherent as) : AllCoherent (a :: as) := by
  intro x hx
  simp only [List.mem_cons] at hx
  rcases hx with rfl | hx
  · exact ha
  · exact h x hx

theorem allCoherent_append {as bs : List AElem} (ha : AllCoherent as) (hb : AllCoherent bs) : AllCoherent (as ++ bs) := by
  intro x hx
  simp only [List.mem_append] at hx
  rcases hx with hx | hx
  · exact ha x hx
  · exact hb x hx

theorem compileA_coherent : ∀ p : Prog, AllCoherent (compileA p)
  | .nil => by intro a ha; simp [compileA] at ha
  | .step s r => allCoherent_cons (coherent_plain _ (fresh_elemOf s)) (compileA_coherent r)
  | .set k e r => allCoherent_cons (coherent_plain _ (by simp [Fresh])) (compileA_coherent r)
  | .brk r => allCoherent_cons (coherent_plain _ (by simp [Fresh])) (compileA_coherent r)
  | .cont r => allCoherent_cons (coherent_plain _ (by simp [Fresh])) (compileA_coherent r)
  | .ite c t e r => by
    simp only [compileA]
    split
    · exact allCoherent_cons (coherent_plain _ (by simp [Fresh])) (allCoherent_append (compileA_coherent t) (compileA_coherent r))
    · exact allCoherent_cons (coherent_plain _ (by simp [Fresh])) (allCoherent_append (compileA_coherent t)
        (allCoherent_cons (coherent_plain _ (by simp [Fresh])) (allCoherent_append (compileA_coherent e) (compileA_coherent r))))
  | .while c b r => by
    simp only [compileA]
    exact allCoherent_cons (coherent_plain _ (by simp [Fresh])) (allCoherent_append (annotateA_coherent _ 0 _ (compileA_coherent b))
      (allCoherent_cons (coherent_plain _ (by simp [Fresh])) (compileA_coherent r)))

theorem proj_length (code : List AElem) : (proj code).length = code.length := by simp [proj]

theorem proj_cons (a : AElem) (as : List AElem) : proj (a :: as) = a.el :: proj as := rfl

theorem proj_append (as bs : List AElem) : proj (as ++ bs) = proj as ++ proj bs := by simp [proj]

/-- **the annotated compiler projects onto `compile`** -/
theorem compileA_proj : ∀ p : Prog, proj (compileA p) = compile p
  | .nil => rfl
  | .step s r => by simp [compileA, compile, proj_cons, plain_el, compileA_proj r]
  | .set k e r => by simp [compileA, compile, proj_cons, plain_el, compileA_proj r]
  | .brk r => by simp [compileA, compile, proj_cons, plain_el, compileA_proj r]
  | .cont r => by simp [compileA, compile, proj_cons, plain_el, compileA_proj r]
  | .ite c t e r => by
    have ht := compileA_proj t
    have he := compileA_proj e
    have hr := compileA_proj r
    have lt : (compileA t).length = (compile t).length := by rw [← ht, proj_length]
    have le : (compileA e).length = (compile e).length := by rw [← he, proj_length]
    simp only [compileA, compile]
    rw [le]
    split
    · simp [proj_cons, proj_append, plain_el, ht, hr, lt]
    · simp [proj_cons, proj_append, plain_el, ht, he, hr, lt]
  | .while c b r => by
    have hb := compileA_proj b
    have hr := compileA_proj r
    have lb : (compileA b).length = (compile b).length := by rw [← hb, proj_length]
    simp only [compileA, compile]
    simp [proj_cons, proj_append, plain_el, annotateA_proj _ 0 _ (compileA_coherent b), hb, hr, lb]

theorem proj_getElem? (code : List AElem) (i : Nat) : (proj code)[i]? = (code[i]?).map (·.el) := by
  simp [proj]

/-- On coherent dicts one `slide` iteration is the model's `sstep` on the projection. -/
theorem sstepA_eq (code : List AElem) (hc : AllCoherent code) (st : SSt) (h : Int) :
    sstepA code st h = sstep (proj code) st h := by
  unfold sstepA sstep
  rw [proj_getElem?]
  cases hget : code[h.toNat]? with
  | none => rfl
  | some a =>
    have hco := hc a (List.mem_of_getElem? hget)
    obtain ⟨el, brk, cnt⟩ := a
    cases el <;> simp_all [Coherent]
    all_goals (try (split <;> simp_all))
    all_goals (try (split <;> rfl))

theorem slideA_eq_slide (code : List AElem) (hc : AllCoherent code) :
    ∀ (f : Nat) (st : SSt) (h prev : Int), slideA f code st h prev = slide f (proj code) st h prev
  | 0, _, _, _ => rfl
  | f + 1, st, h, prev => by
    simp only [slideA, slide, proj_length, sstepA_eq code hc]
    split
    · rfl
    · cases sstep (proj code) st h with
      | next st' h' => exact slideA_eq_slide code hc f st' h' h
      | stop => rfl
      | err => rfl

/-- `Slides` for the element dicts with their loop keys. -/
def SlidesA (code : List AElem) (st : SSt) (pos : Int) (r : ARes) : Prop :=
  ∃ f, ∀ prev, absRes (slideA f code st pos prev) = some r

theorem slidesA_iff (p : Prog) (st : SSt) (pos : Int) (r : ARes) :
    SlidesA (compileA p) st pos r ↔ Slides (compile p) st pos r := by
  unfold SlidesA Slides
  simp only [slideA_eq_slide _ (compileA_coherent p), compileA_proj]

end NemoVerif.V1Annot
