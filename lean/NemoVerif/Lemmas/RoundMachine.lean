/-
  Lemmas about `Models/RoundMachine.lean` (core Lean only).
-/
import NemoVerif.Models.RoundMachine

namespace NemoVerif.RoundMachine
open NemoVerif.SlideGraph

theorem sumPot_append (P : RProg) (p : Pot) (A B : List Token) : sumPot P p (A ++ B) = sumPot P p A + sumPot P p B := by
  simp [sumPot, List.map_append, List.sum_append]

theorem sumPot_cons (P : RProg) (p : Pot) (t : Token) (A : List Token) : sumPot P p (t :: A) = pot P p t + sumPot P p A := by
  simp [sumPot]

theorem pot_le_sumPot (P : RProg) (p : Pot) {t : Token} : ∀ {A : List Token}, t ∈ A → pot P p t ≤ sumPot P p A := by
  intro A
  induction A with
  | nil => intro h; simp at h
  | cons a as ih =>
    intro h
    rw [sumPot_cons]
    simp only [List.mem_cons] at h
    rcases h with h | h
    · subst h; omega
    · have := ih h; omega

/-- behind the end of a flow a head can only die: same outcomes, same table entry as AT the end -/
theorem headOutcomes_beyond (P : RProg) (f u : Nat) (b w : Bool) (hu : flowLen P f ≤ u) :
    headOutcomes P f u b w = headOutcomes P f (flowLen P f) b w := by
  unfold headOutcomes flowLen at *
  cases hp : P[f]? with
  | none => rfl
  | some fl =>
    simp only [hp] at hu ⊢
    have h1 : fl.ctl[u]? = none := List.getElem?_eq_none_iff.mpr hu
    have h2 : fl.ctl[fl.ctl.length]? = none := List.getElem?_eq_none_iff.mpr (Nat.le_refl _)
    rw [h1, h2]

theorem tget_beyond (t : List (List (Nat × Nat))) (P : RProg) (f u : Nat) (b : Bool) (hu : flowLen P f ≤ u) :
    tget t P f u b = tget t P f (flowLen P f) b := by
  unfold tget
  rw [Nat.min_eq_right hu, Nat.min_self]

theorem potOk_head {P : RProg} {p : Pot} (hk : potOk P p = true) (f u : Nat) (b : Bool) :
    (∀ o ∈ headOutcomes P f u b false, sumPot P p o + 1 ≤ tget p.hp P f u b) ∧
    (∀ o ∈ headOutcomes P f u b true, sumPot P p o + 1 ≤ tget p.xp P f u b) := by
  by_cases hf : f < P.length
  · -- reduce to a position inside the checked range
    have key : ∀ u', u' ≤ flowLen P f →
        (∀ o ∈ headOutcomes P f u' b false, sumPot P p o + 1 ≤ tget p.hp P f u' b) ∧
        (∀ o ∈ headOutcomes P f u' b true, sumPot P p o + 1 ≤ tget p.xp P f u' b) := by
      intro u' hu'
      unfold potOk at hk
      simp only [List.all_eq_true, Bool.and_eq_true, decide_eq_true_eq] at hk
      have h := hk f (List.mem_range.mpr hf) u' (List.mem_range.mpr (Nat.lt_succ_of_le hu')) b (by cases b <;> simp)
      exact ⟨fun o ho => h.1 o ho, fun o ho => h.2 o ho⟩
    by_cases hu : u ≤ flowLen P f
    · exact key u hu
    · have hu' : flowLen P f ≤ u := by omega
      rw [headOutcomes_beyond P f u b false hu', headOutcomes_beyond P f u b true hu', tget_beyond _ P f u b hu',
        tget_beyond _ P f u b hu']
      exact key _ (Nat.le_refl _)
  · have hn : P[f]? = none := List.getElem?_eq_none_iff.mpr (by omega)
    have ho : ∀ w, headOutcomes P f u b w = [[]] := by intro w; unfold headOutcomes; rw [hn]
    have ht : ∀ t, tget t P f u b = 1 := by intro t; unfold tget; rw [hn]
    constructor <;> (intro o hmem; rw [ho] at hmem; simp only [List.mem_singleton] at hmem; subst hmem; rw [ht]; simp [sumPot])

/-- the certificate makes every outcome of every token cost at least one unit of potential -/
theorem outcome_cost {P : RProg} {p : Pot} (hk : potOk P p = true) (tok : Token) :
    ∀ o ∈ tokOutcomes P tok, sumPot P p o + 1 ≤ pot P p tok := by
  cases tok with
  | ev k =>
    cases k with
    | start g =>
      intro o ho
      simp only [tokOutcomes, popOutcomes, List.mem_cons, List.mem_nil_iff, or_false] at ho
      rcases ho with h | h | h | h | h | h <;> subst h <;> simp [sumPot, pot] <;> omega
    | plain =>
      intro o ho
      simp only [tokOutcomes, popOutcomes, List.mem_cons, List.mem_nil_iff, or_false] at ho
      rcases ho with h | h <;> subst h <;> simp [sumPot, pot]
    | unhandled =>
      intro o ho
      simp only [tokOutcomes, popOutcomes, List.mem_cons, List.mem_nil_iff, or_false] at ho
      subst ho; simp [sumPot, pot]
  | head f u b => exact (potOk_head hk f u b).1
  | xhead f u b => exact (potOk_head hk f u b).2

theorem step_decreases {P : RProg} {p : Pot} (hk : potOk P p = true) {T T' : List Token} (hs : Step P T T') :
    sumPot P p T' + 1 ≤ sumPot P p T := by
  obtain ⟨T1, tok, T2, o, e1, ho, e2⟩ := hs
  subst e1; subst e2
  have := outcome_cost hk tok o ho
  simp only [sumPot_append, sumPot_cons]
  omega

theorem run_bound {P : RProg} {p : Pot} (hk : potOk P p = true) {k : Nat} {T T' : List Token} (hr : Run P k T T') :
    k + sumPot P p T' ≤ sumPot P p T := by
  induction hr with
  | done T => omega
  | step hs _ ih => have := step_decreases hk hs; omega

/-! ### the hypotheses as graph statements -/

/-- `tok'` can appear when `tok` makes one step -/
def Produces (P : RProg) (tok tok' : Token) : Prop := ∃ o ∈ tokOutcomes P tok, tok' ∈ o

inductive ProducesPlus (P : RProg) : Token → Token → Prop where
  | one {a b : Token} : Produces P a b → ProducesPlus P a b
  | more {a b c : Token} : Produces P a b → ProducesPlus P b c → ProducesPlus P a c

theorem produces_pot {P : RProg} {p : Pot} (hk : potOk P p = true) {a b : Token} (h : Produces P a b) :
    pot P p b < pot P p a := by
  obtain ⟨o, ho, hb⟩ := h
  have h1 := outcome_cost hk a o ho
  have h2 := pot_le_sumPot P p hb
  omega

theorem producesPlus_pot {P : RProg} {p : Pot} (hk : potOk P p = true) {a b : Token} (h : ProducesPlus P a b) :
    pot P p b < pot P p a := by
  induction h with
  | one h => exact produces_pot hk h
  | more h _ ih => have := produces_pot hk h; omega

end NemoVerif.RoundMachine
