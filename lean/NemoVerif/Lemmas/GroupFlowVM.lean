/-
  Helper lemmas for C07 (T3): the flow-level machine `GroupFlow` against its specification in terms of what is
  known about the flows (`Know`): which have finished, which have failed.
-/
import NemoVerif.Models.GroupFlowVM
import NemoVerif.Lemmas.Dnf
namespace NemoVerif.GroupFlow
open NemoVerif.Dnf

/-- the state of one clause as a function of what is known -/
def absClause (K : Know) (c : List Nat) : Option (List Nat) :=
  if c.any (fun a => K.fa.contains a) then none else some (c.filter fun a => !K.fi.contains a)

/-- some clause has all its flows finished and none failed -/
def satK (d : Clauses) (K : Know) : Bool := d.any fun c => !c.any (fun a => K.fa.contains a) && c.all (fun a => K.fi.contains a)
/-- every clause has a failed flow -/
def unsatK (d : Clauses) (K : Know) : Bool := d.all fun c => c.any (fun a => K.fa.contains a)

def verdict (d : Clauses) (K : Know) : Out :=
  if satK d K then .marker else if unsatK d K then .failed else .quiet

/-- specification run: depends on the knowledge only -/
def specRun (d : Clauses) : Know → Bool → List FEv → List Out
  | _, _, [] => []
  | K, false, _ :: es => .quiet :: specRun d K false es
  | K, true, e :: es => verdict d (K.upd e) :: specRun d (K.upd e) (verdict d (K.upd e) == .quiet) es

theorem absClause_dead (K : Know) (c : List Nat) (h : c.any (fun a => K.fa.contains a) = true) : absClause K c = none := by
  unfold absClause; rw [if_pos h]

theorem absClause_live (K : Know) (c : List Nat) (h : c.any (fun a => K.fa.contains a) = false) :
    absClause K c = some (c.filter fun a => !K.fi.contains a) := by
  unfold absClause; rw [if_neg (by rw [h]; exact Bool.false_ne_true)]

theorem any_fa_cons (K : Know) (c : List Nat) (a : Nat) :
    c.any (fun x => (a :: K.fa).contains x) = (c.contains a || c.any (fun x => K.fa.contains x)) := by
  rw [Bool.eq_iff_iff]
  simp only [List.any_eq_true, Bool.or_eq_true, List.contains_eq_mem, List.mem_cons, decide_eq_true_eq]
  constructor
  · rintro ⟨x, hx, rfl | hxa⟩
    · exact Or.inl hx
    · exact Or.inr ⟨x, hx, hxa⟩
  · rintro (h | ⟨x, hx, hxa⟩)
    · exact ⟨a, h, Or.inl rfl⟩
    · exact ⟨x, hx, Or.inr hxa⟩

theorem mem_filter_fi (K : Know) (c : List Nat) (a : Nat) :
    (c.filter fun x => !K.fi.contains x).contains a = (c.contains a && !K.fi.contains a) := by
  rw [Bool.eq_iff_iff]
  simp [List.mem_filter]

theorem not_mem_of_any_false (c : List Nat) (l : List Nat) (a : Nat)
    (h : c.any (fun x => l.contains x) = false) (ha : l.contains a = true) : c.contains a = false := by
  cases hc : c.contains a with
  | false => rfl
  | true =>
    have hm : a ∈ c := by simpa using hc
    have : c.any (fun x => l.contains x) = true := List.any_eq_true.2 ⟨a, hm, ha⟩
    rw [h] at this; cases this

theorem filter_ne_of_not_mem (l : List Nat) (a : Nat) (h : l.contains a = false) : l.filter (fun x => x != a) = l := by
  apply List.filter_eq_self.2
  intro x hx
  have : x ≠ a := by
    rintro rfl
    have : l.contains x = true := by simpa using hx
    rw [h] at this; cases this
  simpa using this

theorem stepClause_abs (K : Know) (e : FEv) (c : List Nat) :
    stepClause e (absClause K c) = absClause (K.upd e) c := by
  cases hany : c.any (fun x => K.fa.contains x) with
  | true =>
    -- the clause is dead and stays dead
    rw [absClause_dead K c hany]
    have hdead : ∀ K' : Know, (∀ x, K.fa.contains x = true → K'.fa.contains x = true) → absClause K' c = none := by
      intro K' hm
      obtain ⟨x, hx, hxa⟩ := List.any_eq_true.1 hany
      exact absClause_dead K' c (List.any_eq_true.2 ⟨x, hx, hm x hxa⟩)
    cases e with
    | fin a =>
      simp only [stepClause, Know.upd]
      split
      all_goals first
        | exact (hdead K fun _ h => h).symm
        | exact (hdead { K with fi := a :: K.fi } fun _ h => h).symm
    | fail a =>
      simp only [stepClause, Know.upd]
      split
      all_goals first
        | exact (hdead K fun _ h => h).symm
        | exact (hdead { K with fa := a :: K.fa } fun x h => by
            show (a :: K.fa).contains x = true
            rw [List.contains_cons, h]; simp).symm
  | false =>
    rw [absClause_live K c hany]
    cases e with
    | fin a =>
      simp only [stepClause, Know.upd]
      cases hfa : K.fa.contains a with
      | true =>
        simp only [Bool.true_or, if_true]
        rw [absClause_live K c hany]
        congr 1
        apply filter_ne_of_not_mem
        rw [mem_filter_fi, not_mem_of_any_false c K.fa a hany hfa]; rfl
      | false =>
        cases hfi : K.fi.contains a with
        | true =>
          simp only [Bool.or_true, if_true]
          rw [absClause_live K c hany]
          congr 1
          apply filter_ne_of_not_mem
          rw [mem_filter_fi, hfi]; simp
        | false =>
          simp only [Bool.or_false, Bool.false_eq_true, if_false]
          rw [absClause_live _ c (by simpa using hany)]
          congr 1
          rw [List.filter_filter]
          apply List.filter_congr
          intro x _
          simp only [List.contains_cons]
          by_cases hxa : x = a
          · subst hxa; simp
          · have : (x == a) = false := by simpa using hxa
            simp [this, hxa]
    | fail a =>
      simp only [stepClause, Know.upd, mem_filter_fi]
      cases hfi : K.fi.contains a with
      | true =>
        simp only [Bool.true_or, if_true, Bool.not_true, Bool.and_false, Bool.false_eq_true, if_false]
        rw [absClause_live K c hany]
      | false =>
        cases hfa : K.fa.contains a with
        | true =>
          simp only [Bool.or_true, if_true, Bool.not_false, Bool.and_true]
          rw [not_mem_of_any_false c K.fa a hany hfa, absClause_live K c hany]
          simp
        | false =>
          simp only [Bool.or_false, Bool.false_eq_true, if_false, Bool.not_false, Bool.and_true]
          cases hmem : c.contains a with
          | true =>
            simp only [if_true]
            rw [absClause_dead]
            show c.any (fun x => (a :: K.fa).contains x) = true
            rw [any_fa_cons, hmem]; rfl
          | false =>
            simp only [Bool.false_eq_true, if_false]
            rw [absClause_live]
            show c.any (fun x => (a :: K.fa).contains x) = false
            rw [any_fa_cons, hmem, hany]; rfl

theorem map_stepClause_abs (K : Know) (e : FEv) (d : Clauses) :
    (d.map (absClause K)).map (stepClause e) = d.map (absClause (K.upd e)) := by
  simp [List.map_map, Function.comp_def, stepClause_abs]

theorem any_complete (d : Clauses) (K : Know) :
    (d.map (absClause K)).any (fun c => c == some []) = satK d K := by
  simp only [satK, List.any_map, Function.comp_def]
  congr 1
  funext c
  cases hany : c.any (fun x => K.fa.contains x) with
  | true => rw [absClause_dead K c hany]; rfl
  | false =>
    rw [absClause_live K c hany]
    simp only [Bool.not_false, Bool.true_and]
    rw [show (some (List.filter (fun a => !K.fi.contains a) c) == some []) = (List.filter (fun a => !K.fi.contains a) c).isEmpty from by
      cases List.filter (fun a => !K.fi.contains a) c <;> rfl]
    rw [Bool.eq_iff_iff]
    simp [List.isEmpty_iff, List.filter_eq_nil_iff]

theorem all_dead (d : Clauses) (K : Know) :
    (d.map (absClause K)).all (fun c => c == none) = unsatK d K := by
  simp only [unsatK, List.all_map, Function.comp_def]
  congr 1
  funext c
  cases hany : c.any (fun x => K.fa.contains x) with
  | true => rw [absClause_dead K c hany]; rfl
  | false => rw [absClause_live K c hany]; rfl

theorem run_dead (cs : List (Option (List Nat))) (ch : List (Nat × Nat)) :
    ∀ es : List FEv, run { clauses := cs, children := ch, live := false } es = es.map fun _ => Out.quiet := by
  intro es
  induction es with
  | nil => rfl
  | cons e es ih => simp [run, step, ih]

theorem specRun_dead (d : Clauses) (K : Know) : ∀ es : List FEv, specRun d K false es = es.map fun _ => Out.quiet := by
  intro es
  induction es with
  | nil => rfl
  | cons e es ih => simp [specRun, ih]

/-- the machine computes the specification run -/
theorem run_eq_specRun (d : Clauses) : ∀ (es : List FEv) (K : Know) (ch : List (Nat × Nat)),
    run { clauses := d.map (absClause K), children := ch, live := true } es = specRun d K true es := by
  intro es
  induction es with
  | nil => intro K ch; rfl
  | cons e es ih =>
    intro K ch
    have hm : (Out.marker == Out.quiet) = false := by decide
    have hf : (Out.failed == Out.quiet) = false := by decide
    have hq : (Out.quiet == Out.quiet) = true := by decide
    simp only [run, step, Bool.not_true, Bool.false_eq_true, if_false, map_stepClause_abs, any_complete, all_dead, specRun, verdict]
    by_cases hs : satK d (K.upd e) = true
    · simp [hs, run_dead, specRun_dead, hm]
    · have hs' : satK d (K.upd e) = false := by simpa using hs
      by_cases hu : unsatK d (K.upd e) = true
      · simp [hs', hu, run_dead, specRun_dead, hf]
      · have hu' : unsatK d (K.upd e) = false := by simpa using hu
        simp [hs', hu', ih, hq]

theorem absClause_empty (c : List Nat) : absClause {} c = some c := by
  simp [absClause]

theorem init_abs (d : Clauses) : init d = { clauses := d.map (absClause {}), children := childrenOf 0 d, live := true } := by
  simp only [init]
  congr 1
  apply List.map_congr_left
  intro c _
  exact (absClause_empty c).symm

/-! ### the specification run, index by index -/

theorem knowFrom_cons (K : Know) (e : FEv) (es : List FEv) : knowFrom K (e :: es) = knowFrom (K.upd e) es := rfl

theorem specRun_quiet_getElem (d : Clauses) (K : Know) (es : List FEv) (k : Nat) (o : Out) (ho : o ≠ .quiet) :
    (specRun d K false es)[k]? ≠ some o := by
  rw [specRun_dead]
  simp only [List.getElem?_map]
  cases es[k]? <;> simp [Ne.symm ho]

/-- `specRun` emits `o ≠ quiet` at index `k` iff the verdict after `es[0..k]` is `o` and every earlier verdict is `quiet` -/
theorem specRun_spec (d : Clauses) (o : Out) (ho : o ≠ .quiet) : ∀ (es : List FEv) (K : Know) (k : Nat),
    (specRun d K true es)[k]? = some o ↔
      (k < es.length ∧ verdict d (knowFrom K (es.take (k + 1))) = o ∧
        ∀ j, j < k → verdict d (knowFrom K (es.take (j + 1))) = .quiet) := by
  intro es
  induction es with
  | nil => intro K k; simp [specRun]
  | cons e es ih =>
    intro K k
    cases k with
    | zero =>
      simp only [specRun, List.getElem?_cons_zero, Option.some.injEq, List.length_cons, Nat.zero_lt_succ, true_and,
        Nat.zero_add, List.take_succ_cons, List.take_zero, knowFrom_cons]
      simp [knowFrom]
    | succ k =>
      simp only [specRun, List.getElem?_cons_succ, List.length_cons, Nat.add_lt_add_iff_right, List.take_succ_cons, knowFrom_cons]
      by_cases hq : verdict d (K.upd e) = .quiet
      · simp only [hq, beq_self_eq_true]
        rw [ih (K.upd e) k]
        constructor
        · rintro ⟨hk, hv, hall⟩
          refine ⟨hk, hv, ?_⟩
          intro j hj
          cases j with
          | zero => simpa [knowFrom] using hq
          | succ j => simpa [List.take_succ_cons, knowFrom_cons] using hall j (Nat.lt_of_succ_lt_succ hj)
        · rintro ⟨hk, hv, hall⟩
          refine ⟨hk, hv, ?_⟩
          intro j hj
          have := hall (j + 1) (Nat.succ_lt_succ hj)
          simpa [List.take_succ_cons, knowFrom_cons] using this
      · have hb : (verdict d (K.upd e) == Out.quiet) = false := by
          cases h : verdict d (K.upd e) <;> simp_all
        simp only [hb]
        constructor
        · intro h; exact absurd h (specRun_quiet_getElem d _ es k o ho)
        · rintro ⟨_, _, hall⟩
          have := hall 0 (Nat.succ_pos k)
          simp [knowFrom] at this
          exact absurd this hq

/-! ### knowledge only grows; finished and failed stay apart -/

def Know.Disj (K : Know) : Prop := ∀ a, K.fi.contains a = true → K.fa.contains a = false

theorem upd_disj (K : Know) (e : FEv) (h : K.Disj) : (K.upd e).Disj := by
  intro x hx
  cases e with
  | fin a =>
    simp only [Know.upd] at hx ⊢
    by_cases hc : (K.fa.contains a || K.fi.contains a) = true
    · rw [if_pos hc] at hx ⊢; exact h x hx
    · rw [if_neg hc] at hx ⊢
      have hc' : K.fa.contains a = false ∧ K.fi.contains a = false := by
        cases h1 : K.fa.contains a <;> cases h2 : K.fi.contains a <;> simp_all
      show K.fa.contains x = false
      have hx' : (a :: K.fi).contains x = true := hx
      rw [List.contains_cons] at hx'
      by_cases hxa : x = a
      · subst hxa; exact hc'.1
      · have : (x == a) = false := by simpa using hxa
        rw [this, Bool.false_or] at hx'
        exact h x hx'
  | fail a =>
    simp only [Know.upd] at hx ⊢
    by_cases hc : (K.fi.contains a || K.fa.contains a) = true
    · rw [if_pos hc] at hx ⊢; exact h x hx
    · rw [if_neg hc] at hx ⊢
      have hc' : K.fi.contains a = false ∧ K.fa.contains a = false := by
        cases h1 : K.fa.contains a <;> cases h2 : K.fi.contains a <;> simp_all
      have hx' : K.fi.contains x = true := hx
      show (a :: K.fa).contains x = false
      rw [List.contains_cons, h x hx', Bool.or_false]
      by_cases hxa : x = a
      · subst hxa; rw [hc'.1] at hx'; cases hx'
      · simpa using hxa

theorem knowFrom_disj : ∀ (es : List FEv) (K : Know), K.Disj → (knowFrom K es).Disj := by
  intro es
  induction es with
  | nil => intro K h; exact h
  | cons e es ih => intro K h; exact ih _ (upd_disj K e h)

theorem upd_mono (K : Know) (e : FEv) :
    (∀ a, K.fi.contains a = true → (K.upd e).fi.contains a = true) ∧
    (∀ a, K.fa.contains a = true → (K.upd e).fa.contains a = true) := by
  cases e with
  | fin a =>
    simp only [Know.upd]
    split
    · exact ⟨fun _ h => h, fun _ h => h⟩
    · exact ⟨fun x h => by simp only [List.contains_eq_mem, List.mem_cons, decide_eq_true_eq] at h ⊢; exact Or.inr h, fun _ h => h⟩
  | fail a =>
    simp only [Know.upd]
    split
    · exact ⟨fun _ h => h, fun _ h => h⟩
    · exact ⟨fun _ h => h, fun x h => by simp only [List.contains_eq_mem, List.mem_cons, decide_eq_true_eq] at h ⊢; exact Or.inr h⟩

theorem knowFrom_mono : ∀ (es : List FEv) (K : Know),
    (∀ a, K.fi.contains a = true → (knowFrom K es).fi.contains a = true) ∧
    (∀ a, K.fa.contains a = true → (knowFrom K es).fa.contains a = true) := by
  intro es
  induction es with
  | nil => intro K; exact ⟨fun _ h => h, fun _ h => h⟩
  | cons e es ih =>
    intro K
    have h1 := upd_mono K e
    have h2 := ih (K.upd e)
    exact ⟨fun a h => h2.1 a (h1.1 a h), fun a h => h2.2 a (h1.2 a h)⟩

theorem knowFrom_append (K : Know) (es fs : List FEv) : knowFrom K (es ++ fs) = knowFrom (knowFrom K es) fs := by
  simp [knowFrom, List.foldl_append]

/-- the knowledge at a later index extends the knowledge at an earlier one -/
theorem know_mono (K : Know) (es : List FEv) (j k : Nat) (h : j ≤ k) :
    (∀ a, (knowFrom K (es.take (j + 1))).fi.contains a = true → (knowFrom K (es.take (k + 1))).fi.contains a = true) ∧
    (∀ a, (knowFrom K (es.take (j + 1))).fa.contains a = true → (knowFrom K (es.take (k + 1))).fa.contains a = true) := by
  have hsplit : es.take (k + 1) = es.take (j + 1) ++ (es.take (k + 1)).drop (j + 1) := by
    have : es.take (j + 1) = (es.take (k + 1)).take (j + 1) := by
      rw [List.take_take]; congr 1; omega
    rw [this, List.take_append_drop]
  rw [hsplit, knowFrom_append]
  exact knowFrom_mono _ _

theorem satK_eq (d : Clauses) (K : Know) (h : K.Disj) : satK d K = evalDnf d K.finished := by
  simp only [satK, evalDnf]
  congr 1
  funext c
  show (!c.any (fun a => K.fa.contains a) && c.all (fun a => K.fi.contains a)) = c.all (fun a => K.fi.contains a)
  cases hall : c.all (fun a => K.fi.contains a) with
  | false => rw [Bool.and_false]
  | true =>
    have : c.any (fun a => K.fa.contains a) = false := by
      apply Bool.eq_false_iff.2
      intro hany
      obtain ⟨x, hx, hxa⟩ := List.any_eq_true.1 hany
      have := h x (List.all_eq_true.1 hall x hx)
      rw [this] at hxa; cases hxa
    rw [this]; rfl

theorem any_eq_not_all_not (c : List Nat) (p : Nat → Bool) : c.any p = !c.all (fun a => !p a) := by
  induction c with
  | nil => rfl
  | cons x c ih => simp only [List.any_cons, List.all_cons, ih, Bool.not_and, Bool.not_not]

theorem unsatK_eq (d : Clauses) (K : Know) : unsatK d K = !evalDnf d K.possible := by
  simp only [unsatK, evalDnf, Know.possible]
  induction d with
  | nil => rfl
  | cons c d ih =>
    simp only [List.all_cons, List.any_cons, ih, Bool.not_or]
    congr 1
    exact any_eq_not_all_not c _

/-- a satisfied formula is not unsatisfiable -/
theorem sat_not_unsat (d : Clauses) (K : Know) (hs : satK d K = true) : unsatK d K = false := by
  apply Bool.eq_false_iff.2
  intro hu
  obtain ⟨c, hc, hcs⟩ := List.any_eq_true.1 hs
  have := List.all_eq_true.1 hu c hc
  simp only [Bool.and_eq_true, Bool.not_eq_true'] at hcs
  rw [hcs.1] at this; cases this

theorem satK_mono (d : Clauses) (K K' : Know) (hd : K'.Disj)
    (hfi : ∀ a, K.fi.contains a = true → K'.fi.contains a = true) (hs : satK d K = true) : satK d K' = true := by
  obtain ⟨c, hc, hcs⟩ := List.any_eq_true.1 hs
  simp only [Bool.and_eq_true, Bool.not_eq_true'] at hcs
  apply List.any_eq_true.2
  refine ⟨c, hc, ?_⟩
  have hall : c.all (fun a => K'.fi.contains a) = true :=
    List.all_eq_true.2 fun x hx => hfi x (List.all_eq_true.1 hcs.2 x hx)
  have hany : c.any (fun a => K'.fa.contains a) = false := by
    apply Bool.eq_false_iff.2
    intro hany
    obtain ⟨x, hx, hxa⟩ := List.any_eq_true.1 hany
    have := hd x (List.all_eq_true.1 hall x hx)
    rw [this] at hxa; cases hxa
  show (!c.any (fun a => K'.fa.contains a) && c.all (fun a => K'.fi.contains a)) = true
  rw [hany, hall]; rfl

theorem unsatK_mono (d : Clauses) (K K' : Know)
    (hfa : ∀ a, K.fa.contains a = true → K'.fa.contains a = true) (hu : unsatK d K = true) : unsatK d K' = true := by
  apply List.all_eq_true.2
  intro c hc
  obtain ⟨x, hx, hxa⟩ := List.any_eq_true.1 (List.all_eq_true.1 hu c hc)
  exact List.any_eq_true.2 ⟨x, hx, hfa x hxa⟩

/-! ### the child flows -/

theorem stateAfter_dead (s : FSt) (h : s.live = false) : ∀ es : List FEv, stateAfter s es = s := by
  intro es
  induction es with
  | nil => rfl
  | cons e es ih =>
    have : (step s e).1 = s := by simp [step, h]
    simp only [stateAfter, this, ih]

theorem step_children_of_dead (s : FSt) (e : FEv) (hl : s.live = true) (hd : (step s e).1.live = false) :
    (step s e).1.children = [] := by
  simp only [step, hl, Bool.not_true, Bool.false_eq_true, if_false] at hd ⊢
  split
  · rfl
  · split
    · rfl
    · rename_i h1 h2
      simp only [h1, h2, if_false] at hd
      cases hd

/-- once the statement has completed or failed, no child flow of the group is running any more -/
theorem stateAfter_children_nil : ∀ (es : List FEv) (s : FSt), s.live = true → (stateAfter s es).live = false →
    (stateAfter s es).children = [] := by
  intro es
  induction es with
  | nil => intro s hl hd; simp only [stateAfter] at hd; rw [hl] at hd; cases hd
  | cons e es ih =>
    intro s hl hd
    simp only [stateAfter] at hd ⊢
    cases hstep : (step s e).1.live with
    | true => exact ih _ hstep hd
    | false =>
      rw [stateAfter_dead _ hstep]
      exact step_children_of_dead s e hl hstep

theorem run_length : ∀ (es : List FEv) (s : FSt), (run s es).length = es.length := by
  intro es
  induction es with
  | nil => intro s; rfl
  | cons e es ih => intro s; simp [run, ih]

theorem step_out_live (s : FSt) (e : FEv) (hl : s.live = true) :
    ((step s e).2 = .quiet ↔ (step s e).1.live = true) := by
  simp only [step, hl, Bool.not_true, Bool.false_eq_true, if_false]
  split
  · simp
  · split <;> simp

/-- the state is dead after `es` iff some output along `es` was a marker or a failure -/
theorem stateAfter_live_iff : ∀ (es : List FEv) (s : FSt), s.live = true →
    ((stateAfter s es).live = true ↔ ∀ o ∈ run s es, o = .quiet) := by
  intro es
  induction es with
  | nil => intro s hl; simp [stateAfter, run, hl]
  | cons e es ih =>
    intro s hl
    simp only [stateAfter, run, List.mem_cons, forall_eq_or_imp]
    cases hstep : (step s e).1.live with
    | true =>
      rw [ih _ hstep]
      have := (step_out_live s e hl).2 hstep
      simp [this]
    | false =>
      rw [stateAfter_dead _ hstep, hstep]
      have : (step s e).2 ≠ .quiet := fun h => by
        have := (step_out_live s e hl).1 h
        rw [hstep] at this; cases this
      simp [this]

/-! ### sequences without failures -/

theorem knowFrom_fin (es : List Nat) : ∀ (K : Know), K.fa = [] →
    (knowFrom K (es.map FEv.fin)).fa = [] ∧ ∀ a, (knowFrom K (es.map FEv.fin)).fi.contains a = (K.fi.contains a || es.contains a) := by
  induction es with
  | nil => intro K h; exact ⟨h, fun a => by simp [knowFrom]⟩
  | cons e es ih =>
    intro K h
    simp only [List.map_cons, knowFrom_cons]
    have hupd : (K.upd (.fin e)).fa = [] ∧ ∀ a, (K.upd (.fin e)).fi.contains a = (K.fi.contains a || a == e) := by
      simp only [Know.upd, h, List.contains_nil, Bool.false_or]
      split
      · rename_i hc
        refine ⟨h, fun a => ?_⟩
        by_cases hae : a = e
        · subst hae; rw [hc]; rfl
        · have : (a == e) = false := by simpa using hae
          rw [this, Bool.or_false]
      · refine ⟨by simpa using h, fun a => ?_⟩
        simp only [List.contains_cons, Bool.or_comm]
    obtain ⟨h1, h2⟩ := ih (K.upd (.fin e)) hupd.1
    refine ⟨h1, fun a => ?_⟩
    rw [h2 a, hupd.2 a, List.contains_cons, Bool.or_assoc]

end NemoVerif.GroupFlow
