/-
  T2 for C06: the lifetime invariant over the operation-sequence semantics (`Models/LifetimeOps.lean`).
-/
import NemoVerif.Lemmas.LifetimeInv
import NemoVerif.Models.LifetimeOps
namespace NemoVerif.Lifetime

abbrev NoEx : Nat → Prop := fun _ => False

/-- the part of the invariant that concerns the instance hierarchy -/
structure FlowInv (s : State) : Prop where
  dc : DC NoEx s
  sfc : SFC s
  noMainChild : ∀ p pf c cf, s.flows p = some pf → c ∈ pf.children → s.flows c = some cf → cf.isMain = false
  mainRoot : ∀ v f, s.flows v = some f → f.isMain = true → f.parent = none
  dom : ∀ v f, s.flows v = some f → v ∈ s.order

/-- the part that concerns actions: a running action that has not been sent a Stop has scope count ≥ 1;
    a STOPPING action has been sent its Stop -/
structure ActInv (s : State) : Prop where
  act1 : ∀ a x, s.actions a = some x → x.status.running = true → stops a s.out = 0 → 1 ≤ x.count
  act0 : ∀ a x, s.actions a = some x → x.status = .stopping → 1 ≤ stops a s.out

theorem FlowInv.of_good {s s' : State} (hi : FlowInv s) (g : Good NoEx s s') : FlowInv s' := by
  obtain ⟨hord, _, _⟩ := g.steps.flows_rel
  refine ⟨g.dc hi.sfc hi.dc, g.steps.sfc hi.sfc, ?_, ?_, ?_⟩
  · intro p pf' c cf' hp hc hcf
    obtain ⟨pf, hp0, hu⟩ := g.steps.flows_back p pf' hp
    obtain ⟨cf, hc0, hcu⟩ := g.steps.flows_back c cf' hcf
    rw [hcu.isMain]; exact hi.noMainChild p pf c cf hp0 (hu.children c hc) hc0
  · intro v f' hv hm
    obtain ⟨f, h0, hu⟩ := g.steps.flows_back v f' hv
    rw [hu.parent]; exact hi.mainRoot v f h0 (by rw [← hu.isMain]; exact hm)
  · intro v f' hv
    obtain ⟨f, h0, _⟩ := g.steps.flows_back v f' hv
    rw [hord]; exact hi.dom v f h0

/-- the fields of an instance record the hierarchy invariant talks about -/
def core (f : Flow) : Nat × Option Nat × List Nat × FStatus × Nat × Bool :=
  (f.flowId, f.parent, f.children, f.status, f.activated, f.isMain)

theorem core_back {s s' : State} (hc : ∀ v, (s'.flows v).map core = (s.flows v).map core) (v : Nat) (f' : Flow)
    (hv : s'.flows v = some f') : ∃ f, s.flows v = some f ∧ core f = core f' := by
  have := hc v
  rw [hv] at this
  cases h : s.flows v with
  | none => rw [h] at this; cases this
  | some f => rw [h] at this; simp at this; exact ⟨f, rfl, this.symm⟩

theorem FlowInv.congr {s s' : State} (hi : FlowInv s) (hord : ∀ v, v ∈ s.order → v ∈ s'.order)
    (hc : ∀ v, (s'.flows v).map core = (s.flows v).map core) : FlowInv s' := by
  refine ⟨?_, ?_, ?_, ?_, ?_⟩
  · intro p pf' c cf' hp hcm hcf he ha hl
    obtain ⟨pf, hp0, ep⟩ := core_back hc p pf' hp
    obtain ⟨cf, hc0, ec⟩ := core_back hc c cf' hcf
    simp only [core, Prod.mk.injEq] at ep ec
    have := hi.dc p pf c cf hp0 (by rw [ep.2.2.1]; exact hcm) hc0 he (by rw [ec.2.2.2.2.1]; exact ha) (by rw [ec.2.2.2.1]; exact hl)
    rw [← ep.2.2.2.1]; exact this
  · intro p pf' c cf' hp hcm hcf hid
    obtain ⟨pf, hp0, ep⟩ := core_back hc p pf' hp
    obtain ⟨cf, hc0, ec⟩ := core_back hc c cf' hcf
    simp only [core, Prod.mk.injEq] at ep ec
    rw [← ec.2.1]
    exact hi.sfc p pf c cf hp0 (by rw [ep.2.2.1]; exact hcm) hc0 (by rw [ec.1, ep.1]; exact hid)
  · intro p pf' c cf' hp hcm hcf
    obtain ⟨pf, hp0, ep⟩ := core_back hc p pf' hp
    obtain ⟨cf, hc0, ec⟩ := core_back hc c cf' hcf
    simp only [core, Prod.mk.injEq] at ep ec
    rw [← ec.2.2.2.2.2]
    exact hi.noMainChild p pf c cf hp0 (by rw [ep.2.2.1]; exact hcm) hc0
  · intro v f' hv hm
    obtain ⟨f, h0, e⟩ := core_back hc v f' hv
    simp only [core, Prod.mk.injEq] at e
    rw [← e.2.1]; exact hi.mainRoot v f h0 (by rw [e.2.2.2.2.2]; exact hm)
  · intro v f' hv
    obtain ⟨f, h0, _⟩ := core_back hc v f' hv
    exact hord v (hi.dom v f h0)

theorem restart_core (s : State) (u : Nat) (d : Bool) (s' : State) (h : restart s u d = .ok s') :
    s'.order = s.order ∧ ∀ v, (s'.flows v).map core = (s.flows v).map core := by
  obtain ⟨f, hf, hcase⟩ := restart_spec s u d s' h
  obtain ⟨_, _, ho⟩ := restart_frame s u d s' h
  refine ⟨ho, ?_⟩
  rcases hcase with ⟨_, _, _, _, hu, hne⟩ | ⟨_, e⟩
  · intro v
    by_cases hv : v = u
    · subst hv; rw [hu, hf]; rfl
    · rw [hne v hv]
  · intro v; rw [e]

/-- `_abort_flow` (outermost, any `deactivate_flow`) preserves the hierarchy invariant -/
theorem abort_flowInv {s : State} (hi : FlowInv s) (n u : Nat) (d : Bool) (s' : State) (h : abortFlow n s u d = .ok s') :
    FlowInv s' := by
  cases hfu : s.flows u with
  | none =>
    cases n with
    | zero => simp [abortFlow] at h
    | succ n => simp [abortFlow, deactivatePhase, hfu] at h
  | some f =>
  rcases abort_ends_instance n s u d s' f hfu h with ⟨_, _, e, hne⟩ | ⟨f', hf', hl', _⟩
  · rw [e]
    exact hi.of_good (Good.setFlow_keep hfu ⟨rfl, rfl, fun h => h, rfl, rfl, Or.inl rfl, fun _ h => h, by simp⟩ rfl
      (Or.inr (fun ha _ => absurd ha hne)))
  · obtain ⟨s6, g, tail⟩ := abortFlow_good_any n NoEx s u d s' hi.sfc h
    rcases tail with e | hr
    · subst e
      exact hi.of_good (g.unexempt (fun g' hg' => by rw [hf'] at hg'; cases hg'; exact hl'))
    · obtain ⟨ho, hc⟩ := restart_core _ _ _ _ hr
      have hnl : ∀ f6, s6.flows u = some f6 → f6.status.listening = false := by
        intro f6 h6
        have := hc u
        rw [hf', h6] at this
        simp [core] at this
        rw [← this.2.2.2.1]; exact hl'
      exact (hi.of_good (g.unexempt hnl)).congr (fun v hv => by rw [ho]; exact hv) hc


/-- DC under an update of `u` that keeps children / activated (status, heads, scopes, nis, actions may change) -/
theorem dc_setShape {E : Nat → Prop} {s : State} {u : Nat} {f f' : Flow} (hd : DC E s) (hf : s.flows u = some f)
    (hch : f'.children = f.children) (hac : f'.activated = f.activated)
    (keep : (f.status.listening = true ∨ f.status = .stopping) → (f'.status.listening = true ∨ f'.status = .stopping))
    (hin : f'.status.listening = true → f.status.listening = true ∨ E u) : DC E (setFlow s u f') := by
  intro p pf' c cf' hp hc hcf he ha hl
  have hc0 : ∃ cf, s.flows c = some cf ∧ cf.activated = 0 ∧ cf.status.listening = true := by
    rw [setFlow_flows] at hcf
    split at hcf
    · next e =>
      subst e; cases hcf
      rcases hin hl with h | h
      · exact ⟨f, hf, by rw [← hac]; exact ha, h⟩
      · exact absurd h he
    · exact ⟨cf', hcf, ha, hl⟩
  obtain ⟨cf, hcf0, ha0, hl0⟩ := hc0
  rw [setFlow_flows] at hp
  split at hp
  · next e =>
    subst e; cases hp
    exact keep (hd p f c cf hf (by rw [← hch]; exact hc) hcf0 he ha0 hl0)
  · exact hd p pf' c cf hp hc hcf0 he ha0 hl0

theorem struct_setShape {s : State} {u : Nat} {f f' : Flow} (hi : FlowInv s) (hf : s.flows u = some f)
    (hch : f'.children = f.children) (hid : f'.flowId = f.flowId) (hp : f'.parent = f.parent) (hm : f'.isMain = f.isMain) :
    SFC (setFlow s u f') ∧
    (∀ p pf c cf, (setFlow s u f').flows p = some pf → c ∈ pf.children → (setFlow s u f').flows c = some cf → cf.isMain = false) ∧
    (∀ v g, (setFlow s u f').flows v = some g → g.isMain = true → g.parent = none) ∧
    (∀ v g, (setFlow s u f').flows v = some g → v ∈ (setFlow s u f').order) := by
  have back : ∀ v g, (setFlow s u f').flows v = some g → ∃ g0, s.flows v = some g0 ∧ g0.children = g.children ∧
      g0.flowId = g.flowId ∧ g0.parent = g.parent ∧ g0.isMain = g.isMain := by
    intro v g hv
    rw [setFlow_flows] at hv
    split at hv
    · next e => subst e; cases hv; exact ⟨f, hf, hch.symm, hid.symm, hp.symm, hm.symm⟩
    · exact ⟨g, hv, rfl, rfl, rfl, rfl⟩
  refine ⟨?_, ?_, ?_, ?_⟩
  · intro p pf c cf h1 h2 h3 h4
    obtain ⟨pf0, a1, a2, a3, _, _⟩ := back p pf h1
    obtain ⟨cf0, b1, _, b3, b4, _⟩ := back c cf h3
    rw [← b4]; exact hi.sfc p pf0 c cf0 a1 (by rw [a2]; exact h2) b1 (by rw [b3, a3]; exact h4)
  · intro p pf c cf h1 h2 h3
    obtain ⟨pf0, a1, a2, _, _, _⟩ := back p pf h1
    obtain ⟨cf0, b1, _, _, _, b5⟩ := back c cf h3
    rw [← b5]; exact hi.noMainChild p pf0 c cf0 a1 (by rw [a2]; exact h2) b1
  · intro v g h1 h2
    obtain ⟨g0, a1, _, _, a4, a5⟩ := back v g h1
    rw [← a4]; exact hi.mainRoot v g0 a1 (by rw [a5]; exact h2)
  · intro v g h1
    obtain ⟨g0, a1, _⟩ := back v g h1
    exact hi.dom v g0 a1

/-- `_finish_flow` (outermost, any `deactivate_flow`, main flow included) preserves the hierarchy invariant -/
theorem finish_flowInv {s : State} (hi : FlowInv s) (n u : Nat) (d : Bool) (s' : State) (h : finishFlow n s u d = .ok s') :
    FlowInv s' := by
  obtain ⟨s6, g, tail⟩ := finishFlow_good_any n NoEx s u d s' hi.sfc h
  rcases tail with ⟨t, nl⟩ | ⟨f6, h6, hm, e⟩
  · have hi6 := hi.of_good (g.unexempt' nl)
    rcases t with e | hr
    · rw [e]; exact hi6
    · obtain ⟨ho, hc⟩ := restart_core _ _ _ _ hr
      exact hi6.congr (fun v hv => by rw [ho]; exact hv) hc
  · -- main flow: it becomes WAITING again; nothing lists the main flow as a child
    have hd' : DC (fun v => NoEx v ∨ v = u) s := fun p pf c cf hp hc hcf he' => hi.dc p pf c cf hp hc hcf (fun e => he' (Or.inl e))
    have hd6 := g.dc hi.sfc hd'
    -- structural clauses at s6
    obtain ⟨hord, _, _⟩ := g.steps.flows_rel
    have hi6 : FlowInv s6 := by
      refine ⟨?_, g.steps.sfc hi.sfc, ?_, ?_, ?_⟩
      · intro p pf c cf hp hc hcf he ha hl
        by_cases hcu : c = u
        · subst hcu
          -- `u` is the main flow: it is nobody's child
          obtain ⟨pf0, hp0, hu0⟩ := g.steps.flows_back p pf hp
          obtain ⟨cf0, hc0, hcu0⟩ := g.steps.flows_back c cf hcf
          have := hi.noMainChild p pf0 c cf0 hp0 (hu0.children c hc) hc0
          rw [h6] at hcf; cases hcf
          rw [← hcu0.isMain, hm] at this; cases this
        · exact hd6 p pf c cf hp hc hcf (fun e => e.elim id hcu) ha hl
      · intro p pf' c cf' hp hc hcf
        obtain ⟨pf, hp0, hu⟩ := g.steps.flows_back p pf' hp
        obtain ⟨cf, hc0, hcu⟩ := g.steps.flows_back c cf' hcf
        rw [hcu.isMain]; exact hi.noMainChild p pf c cf hp0 (hu.children c hc) hc0
      · intro v f' hv hm'
        obtain ⟨f, h0, hu⟩ := g.steps.flows_back v f' hv
        rw [hu.parent]; exact hi.mainRoot v f h0 (by rw [← hu.isMain]; exact hm')
      · intro v f' hv
        obtain ⟨f, h0, _⟩ := g.steps.flows_back v f' hv
        rw [hord]; exact hi.dom v f h0
    rw [e]
    obtain ⟨ca, cb, cc, cd⟩ := struct_setShape (f' := { f6 with heads := 1, status := .waiting }) hi6 h6 rfl rfl rfl rfl
    refine ⟨?_, ca, cb, cc, cd⟩
    -- DC: the only new listening instance is `u`, which nobody lists
    intro p pf c cf hp hc hcf he ha hl
    by_cases hcu : c = u
    · subst hcu
      have := cb p pf c cf hp hc hcf
      rw [setFlow_flows_same] at hcf; cases hcf
      simp [hm] at this
    · have hcf' := hcf
      rw [setFlow_flows_ne _ _ _ _ hcu] at hcf'
      by_cases hpu : p = u
      · subst hpu
        rw [setFlow_flows_same] at hp; cases hp
        exact Or.inl rfl
      · rw [setFlow_flows_ne _ _ _ _ hpu] at hp
        exact hi6.dc p pf c cf hp hc hcf' he ha hl


/-! ### the other operations -/

theorem FlowInv.of_core {s s' : State} (hi : FlowInv s) (ho : s'.order = s.order)
    (hc : ∀ v, (s'.flows v).map core = (s.flows v).map core) : FlowInv s' :=
  hi.congr (fun v hv => by rw [ho]; exact hv) hc

theorem FlowInv.of_flows_eq {s s' : State} (hi : FlowInv s) (ho : s'.order = s.order) (hf : s'.flows = s.flows) : FlowInv s' :=
  hi.of_core ho (fun v => by rw [hf])

theorem core_setFlow (s : State) (u : Nat) (f f' : Flow) (hf : s.flows u = some f) (hc : core f' = core f) (v : Nat) :
    ((setFlow s u f').flows v).map core = (s.flows v).map core := by
  rw [setFlow_flows]; split
  · next e => subst e; rw [hf]; simp [hc]
  · rfl

theorem scopeFlowLoop_flowInv (n : Nat) : ∀ (l : List Nat) (s s' : State), FlowInv s →
    scopeFlowLoop (fun s c => abortFlow n s c false) s l = .ok s' → FlowInv s'
  | [], s, s', hi, h => by simp [scopeFlowLoop] at h; subst h; exact hi
  | c :: cs, s, s', hi, h => by
    simp only [scopeFlowLoop] at h
    split at h
    · exact scopeFlowLoop_flowInv n cs s s' hi h
    · split at h
      · split at h
        · next s1 h1 => exact scopeFlowLoop_flowInv n cs s1 s' (abort_flowInv hi n c false s1 h1) h
        · cases h
      · exact scopeFlowLoop_flowInv n cs s s' hi h

theorem endScope_flowInv {s : State} (hi : FlowInv s) (n u nm : Nat) (s' : State) (h : endScope n s u nm = .ok s') : FlowInv s' := by
  unfold endScope at h
  split at h
  · cases h
  · next f hf =>
    split at h
    · cases h
    · dsimp only at h
      split at h
      · cases h
      · next s2 h2 =>
        have h1 : FlowInv (setFlow s u { f with scopes := scopeErase nm f.scopes }) :=
          hi.of_core rfl (core_setFlow s u f _ hf rfl)
        have h2' := scopeFlowLoop_flowInv n _ _ _ h1 h2
        obtain ⟨e1, _, e3⟩ := stopActions_frame _ _ _ h
        exact h2'.of_flows_eq e3 e1

theorem getRefActivated_spec (s : State) (fid : Nat) (pm : Nat → Bool) : ∀ (l : List Nat) (r : Nat),
    getRefActivated s fid pm l = some r → ∃ f, s.flows r = some f ∧ f.flowId = fid ∧ isReferenceCandidate s f = true
  | [], r, h => by simp [getRefActivated] at h
  | u :: us, r, h => by
    simp only [getRefActivated] at h
    split at h
    · exact getRefActivated_spec s fid pm us r h
    · next f hf =>
      split at h
      · next hc =>
        cases h
        simp only [Bool.and_eq_true, beq_iff_eq] at hc
        exact ⟨f, hf, hc.1.1, hc.1.2⟩
      · exact getRefActivated_spec s fid pm us r h

/-- effect of the `StartFlow` branch on the state: nothing, or the re-activation of a reference instance -/
theorem processStartFlow_effect (s : State) (fid : Nat) (known act hasInst : Bool) (source : Nat) (pm : Nat → Bool)
    (s' : State) (res : StartRes) (h : processStartFlow s fid known act hasInst source pm = .ok (s', res)) :
    s' = s ∨ ∃ r rf sf, s.flows r = some rf ∧ s.flows source = some sf ∧ rf.flowId = fid ∧ fid ≠ sf.flowId ∧
      isReferenceCandidate s rf = true ∧
      s' = push (modFlow (setFlow s r { rf with activated := rf.activated + 1 }) source
        (fun f => { f with children := f.children ++ [r] })) (.flowStarted r) := by
  unfold processStartFlow at h
  split at h
  · cases h; exact Or.inl rfl
  · dsimp only at h
    split at h
    · cases h
    · next sf hsf =>
      split at h
      · cases h; exact Or.inl rfl
      · split at h
        · next r hr =>
          split at h
          · next hnc =>
            split at h
            · cases h
            · next rf hrf =>
              cases h
              right
              have hr' : getRefActivated s fid pm s.order = some r := by
                split at hr
                · exact hr
                · cases hr
              obtain ⟨f, hf, h1, h2⟩ := getRefActivated_spec s fid pm _ _ hr'
              rw [hrf] at hf; cases hf
              refine ⟨r, rf, sf, hrf, hsf, h1, ?_, h2, rfl⟩
              simpa using hnc
          · cases h; exact Or.inl rfl
        · cases h; exact Or.inl rfl


theorem isReferenceCandidate_parent (s : State) (f : Flow) (h : isReferenceCandidate s f = true) : f.parent ≠ none := by
  intro hp
  simp [isReferenceCandidate, hp] at h

theorem reactivate_flowInv {s : State} (hi : FlowInv s) (fid : Nat) (known act hasInst : Bool) (source : Nat) (pm : Nat → Bool)
    (s' : State) (res : StartRes) (h : processStartFlow s fid known act hasInst source pm = .ok (s', res)) : FlowInv s' := by
  rcases processStartFlow_effect s fid known act hasInst source pm s' res h with e | ⟨r, rf, sf, hrf, hsf, hid, hne, hcand, e⟩
  · rw [e]; exact hi
  · have hsr : source ≠ r := by
      intro e'; subst e'; rw [hrf] at hsf; cases hsf; exact hne hid.symm
    have hnm : rf.isMain = false := by
      cases hm : rf.isMain with
      | false => rfl
      | true => exact absurd (hi.mainRoot r rf hrf hm) (isReferenceCandidate_parent s rf hcand)
    -- step 1: reference count + 1
    have h1 : FlowInv (setFlow s r { rf with activated := rf.activated + 1 }) := by
      obtain ⟨ca, cb, cc, cd⟩ := struct_setShape (f' := { rf with activated := rf.activated + 1 }) hi hrf rfl rfl rfl rfl
      refine ⟨?_, ca, cb, cc, cd⟩
      intro p pf c cf hp hc hcf he ha hl
      by_cases hcr : c = r
      · subst hcr; rw [setFlow_flows_same] at hcf; cases hcf; simp at ha
      · rw [setFlow_flows_ne _ _ _ _ hcr] at hcf
        by_cases hpr : p = r
        · subst hpr; rw [setFlow_flows_same] at hp; cases hp
          exact hi.dc p rf c cf hrf hc hcf he ha hl
        · rw [setFlow_flows_ne _ _ _ _ hpr] at hp
          exact hi.dc p pf c cf hp hc hcf he ha hl
    -- step 2: the new activator lists the reference instance
    have hsf1 : (setFlow s r { rf with activated := rf.activated + 1 }).flows source = some sf := by
      rw [setFlow_flows_ne _ _ _ _ hsr]; exact hsf
    rw [e, modFlow_some _ _ _ _ hsf1]
    refine FlowInv.of_flows_eq ?_ rfl rfl
    generalize hs1 : setFlow s r { rf with activated := rf.activated + 1 } = s1 at h1 hsf1
    have hr1 : s1.flows r = some { rf with activated := rf.activated + 1 } := by rw [← hs1]; exact setFlow_flows_same _ _ _
    have recs : ∀ v g, (setFlow s1 source { sf with children := sf.children ++ [r] }).flows v = some g →
        ∃ g0, s1.flows v = some g0 ∧ g0.flowId = g.flowId ∧ g0.parent = g.parent ∧ g0.isMain = g.isMain ∧
          g0.status = g.status ∧ g0.activated = g.activated ∧ (∀ x, x ∈ g.children → x ∈ g0.children ∨ (v = source ∧ x = r)) := by
      intro v g hv
      rw [setFlow_flows] at hv
      split at hv
      · next e' =>
        subst e'; cases hv
        refine ⟨sf, hsf1, rfl, rfl, rfl, rfl, rfl, ?_⟩
        intro x hx
        rcases List.mem_append.1 hx with h | h
        · exact Or.inl h
        · simp at h; exact Or.inr ⟨rfl, h⟩
      · exact ⟨g, hv, rfl, rfl, rfl, rfl, rfl, fun x hx => Or.inl hx⟩
    refine ⟨?_, ?_, ?_, ?_, ?_⟩
    · intro p pf c cf hp hc hcf he ha hl
      obtain ⟨pf0, a1, _, _, _, a5, _, a7⟩ := recs p pf hp
      obtain ⟨cf0, b1, _, _, _, b5, b6, _⟩ := recs c cf hcf
      rcases a7 c hc with h | ⟨_, h⟩
      · rw [← a5]; exact h1.dc p pf0 c cf0 a1 h b1 he (by rw [b6]; exact ha) (by rw [b5]; exact hl)
      · subst h; rw [hr1] at b1; cases b1; simp at b6; omega
    · intro p pf c cf hp hc hcf hid'
      obtain ⟨pf0, a1, a2, _, _, _, _, a7⟩ := recs p pf hp
      obtain ⟨cf0, b1, b2, b3, _, _, _, _⟩ := recs c cf hcf
      rcases a7 c hc with h | ⟨hps, h⟩
      · rw [← b3]; exact h1.sfc p pf0 c cf0 a1 h b1 (by rw [b2, a2]; exact hid')
      · subst h; subst hps
        rw [hr1] at b1; cases b1
        rw [hsf1] at a1; cases a1
        exfalso; apply hne
        rw [← hid, a2]; simpa using b2.trans hid'
    · intro p pf c cf hp hc hcf
      obtain ⟨pf0, a1, _, _, _, _, _, a7⟩ := recs p pf hp
      obtain ⟨cf0, b1, _, _, b4, _, _, _⟩ := recs c cf hcf
      rcases a7 c hc with h | ⟨_, h⟩
      · rw [← b4]; exact h1.noMainChild p pf0 c cf0 a1 h b1
      · subst h; rw [hr1] at b1; cases b1; rw [← b4]; exact hnm
    · intro v g hv hm
      obtain ⟨g0, a1, _, a3, a4, _, _, _⟩ := recs v g hv
      rw [← a3]; exact h1.mainRoot v g0 a1 (by rw [a4]; exact hm)
    · intro v g hv
      obtain ⟨g0, a1, _⟩ := recs v g hv
      exact h1.dom v g0 a1

theorem status_flowInv {s : State} (hi : FlowInv s) (u : Nat) (f : Flow) (st : FStatus) (hf : s.flows u = some f)
    (hok : statusStepOk f.status st = true) : FlowInv (setFlow s u { f with status := st }) := by
  obtain ⟨ca, cb, cc, cd⟩ := struct_setShape (f' := { f with status := st }) hi hf rfl rfl rfl rfl
  refine ⟨dc_setShape hi.dc hf rfl rfl ?_ ?_, ca, cb, cc, cd⟩
  · intro _
    cases hs : f.status <;> cases st <;> simp [statusStepOk, hs, FStatus.listening] at hok ⊢
  · intro hl
    left
    cases hs : f.status <;> cases st <;> simp [statusStepOk, hs, FStatus.listening] at hok hl ⊢

theorem unlisted_spec (s : State) (c : Nat) (h : unlisted s c = true) (q : Nat) (qf : Flow) (hq : q ∈ s.order)
    (hqf : s.flows q = some qf) : c ∉ qf.children := by
  unfold unlisted at h
  rw [List.all_eq_true] at h
  have := h q hq
  rw [hqf] at this
  simpa using this

theorem startChild_flowInv {s : State} (hi : FlowInv s) (c fid p k : Nat) (pf : Flow) (hc : s.flows c = none)
    (hp : s.flows p = some pf) (hun : unlisted s c = true) (hcp : c ≠ p)
    (hg : pf.status.listening = true ∨ 0 < k) :
    FlowInv (setFlow { setFlow s c { freshFlow fid with parent := some p, activated := k } with order := s.order ++ [c] } p
      { pf with children := pf.children ++ [c] }) := by
  have hpc : p ≠ c := fun e => hcp e.symm
  -- records of the new state in terms of the old one
  have recs : ∀ v g, (setFlow { setFlow s c { freshFlow fid with parent := some p, activated := k } with order := s.order ++ [c] } p
      { pf with children := pf.children ++ [c] }).flows v = some g →
      (v = c ∧ g = { freshFlow fid with parent := some p, activated := k }) ∨
      (v ≠ c ∧ ∃ g0, s.flows v = some g0 ∧ g0.flowId = g.flowId ∧ g0.parent = g.parent ∧ g0.isMain = g.isMain ∧
        g0.status = g.status ∧ g0.activated = g.activated ∧ (∀ x, x ∈ g.children → x ∈ g0.children ∨ (v = p ∧ x = c))) := by
    intro v g hv
    rw [setFlow_flows] at hv
    split at hv
    · next e =>
      subst e; cases hv
      refine Or.inr ⟨hpc, pf, hp, rfl, rfl, rfl, rfl, rfl, ?_⟩
      intro x hx
      rcases List.mem_append.1 hx with h | h
      · exact Or.inl h
      · simp at h; exact Or.inr ⟨rfl, h⟩
    · have hv' : (setFlow s c { freshFlow fid with parent := some p, activated := k }).flows v = some g := hv
      rw [setFlow_flows] at hv'
      split at hv'
      · next e => subst e; cases hv'; exact Or.inl ⟨rfl, rfl⟩
      · next e => exact Or.inr ⟨e, g, hv', rfl, rfl, rfl, rfl, rfl, fun x hx => Or.inl hx⟩
  -- nobody but `p` lists `c`
  have only_p : ∀ q qf, (setFlow { setFlow s c { freshFlow fid with parent := some p, activated := k } with order := s.order ++ [c] } p
      { pf with children := pf.children ++ [c] }).flows q = some qf → c ∈ qf.children → q = p := by
    intro q qf hq hcq
    rcases recs q qf hq with ⟨_, e⟩ | ⟨_, q0, a1, _, _, _, _, _, a7⟩
    · subst e; simp [freshFlow] at hcq
    · rcases a7 c hcq with h | ⟨h, _⟩
      · exact absurd h (unlisted_spec s c hun q q0 (hi.dom q q0 a1) a1)
      · exact h
  refine ⟨?_, ?_, ?_, ?_, ?_⟩
  · intro q qf x xf hq hx hxf he ha hl
    rcases recs x xf hxf with ⟨e1, e2⟩ | ⟨hxc, x0, b1, _, _, _, b5, b6, _⟩
    · subst e1
      have := only_p q qf hq hx
      subst this
      rcases recs q qf hq with ⟨e, _⟩ | ⟨_, q0, a1, _, _, _, a5, _, _⟩
      · exact absurd e hpc
      · rw [hp] at a1; cases a1
        subst e2
        simp at ha
        rcases hg with h | h
        · left; rw [← a5]; exact h
        · omega
    · rcases recs q qf hq with ⟨_, e⟩ | ⟨_, q0, a1, _, _, _, a5, _, a7⟩
      · subst e; simp [freshFlow] at hx
      · rcases a7 x hx with h | ⟨_, h⟩
        · rw [← a5]; exact hi.dc q q0 x x0 a1 h b1 he (by rw [b6]; exact ha) (by rw [b5]; exact hl)
        · exact absurd h hxc
  · intro q qf x xf hq hx hxf hid
    rcases recs x xf hxf with ⟨e1, e2⟩ | ⟨hxc, x0, b1, b2, b3, _, _, _, _⟩
    · subst e1
      have := only_p q qf hq hx
      subst this; subst e2; rfl
    · rcases recs q qf hq with ⟨_, e⟩ | ⟨_, q0, a1, a2, _, _, _, _, a7⟩
      · subst e; simp [freshFlow] at hx
      · rcases a7 x hx with h | ⟨_, h⟩
        · rw [← b3]; exact hi.sfc q q0 x x0 a1 h b1 (by rw [b2, a2]; exact hid)
        · exact absurd h hxc
  · intro q qf x xf hq hx hxf
    rcases recs x xf hxf with ⟨_, e2⟩ | ⟨hxc, x0, b1, _, _, b4, _, _, _⟩
    · subst e2; rfl
    · rcases recs q qf hq with ⟨_, e⟩ | ⟨_, q0, a1, _, _, _, _, _, a7⟩
      · subst e; simp [freshFlow] at hx
      · rcases a7 x hx with h | ⟨_, h⟩
        · rw [← b4]; exact hi.noMainChild q q0 x x0 a1 h b1
        · exact absurd h hxc
  · intro v g hv hm
    rcases recs v g hv with ⟨_, e⟩ | ⟨_, g0, a1, _, a3, a4, _, _, _⟩
    · subst e; simp [freshFlow] at hm
    · rw [← a3]; exact hi.mainRoot v g0 a1 (by rw [a4]; exact hm)
  · intro v g hv
    show v ∈ s.order ++ [c]
    rcases recs v g hv with ⟨e, _⟩ | ⟨_, g0, a1, _⟩
    · subst e; simp
    · exact List.mem_append_left _ (hi.dom v g0 a1)


/-! ### the action part of the invariant -/

theorem ActInv.congr {s s' : State} (hi : ActInv s) (ha : s'.actions = s.actions) (ho : ∀ a, stops a s'.out = stops a s.out) :
    ActInv s' :=
  ⟨fun a x hx hr h0 => hi.act1 a x (by rw [← ha]; exact hx) hr (by rw [← ho]; exact h0),
   fun a x hx hs => by rw [ho]; exact hi.act0 a x (by rw [← ha]; exact hx) hs⟩

theorem stopAction1_actInv {s : State} {a : Nat} {t : State} (hi : ActInv s) (h : stopAction1 s a = .ok t) : ActInv t := by
  obtain ⟨x, hx, _, _, _, hne, hcase⟩ := stopAction1_spec s a t h
  have hst : ∀ b, b ≠ a → stops b t.out = stops b s.out := by
    intro b hb
    rcases hcase with ⟨_, _, ho⟩ | ⟨_, _, _, ho⟩ | ⟨_, _, _, ho⟩
    · rw [ho]
    · rw [ho]
    · rw [ho, stops_append_stop]; simp; exact fun h => hb h.symm
  refine ⟨?_, ?_⟩
  · intro b y hy hr h0
    by_cases hb : b = a
    · subst hb
      rcases hcase with ⟨_, hxa, ho⟩ | ⟨hr', hc, hxa, ho⟩ | ⟨_, _, hxa, _⟩
      · rw [hxa] at hy; cases hy; rw [ho] at h0; exact hi.act1 b _ hx hr h0
      · rw [hxa] at hy; cases hy
        rw [ho] at h0
        have := hi.act1 b x hx hr' h0
        simp; omega
      · rw [hxa] at hy; cases hy; simp [AStatus.running] at hr
    · rw [hne b hb] at hy; rw [hst b hb] at h0; exact hi.act1 b y hy hr h0
  · intro b y hy hs
    by_cases hb : b = a
    · subst hb
      rcases hcase with ⟨_, hxa, ho⟩ | ⟨_, _, hxa, ho⟩ | ⟨_, _, _, ho⟩
      · rw [hxa] at hy; cases hy; rw [ho]; exact hi.act0 b _ hx hs
      · rw [hxa] at hy; cases hy; rw [ho]; exact hi.act0 b x hx hs
      · rw [ho, stops_append_stop]; simp
    · rw [hne b hb] at hy; rw [hst b hb]; exact hi.act0 b y hy hs

theorem Steps.actInv {x : Bool} {s t : State} (hi : ActInv s) (h : Steps x s t) : ActInv t := by
  induction h with
  | refl => exact hi
  | cons hs _ ih =>
    apply ih
    rcases hs.cases_actions with ⟨ha, ho⟩ | ⟨a, h⟩
    · exact hi.congr ha (fun a => by rw [ho])
    · exact stopAction1_actInv hi h

theorem processEvent_ext (x : Action) (b : Nat) (e : AEv) (he : (e.started || e.updated || e.finished) = true) :
    processEvent x b e = x ∨ processEvent x b e = { x with status := .started } ∨ processEvent x b e = ⟨.finished, 0⟩ := by
  unfold processEvent
  by_cases h0 : (e.isAction && e.uid == b) = true
  · simp only [h0, if_true]
    by_cases h1 : e.started = true
    · simp [h1]
    · by_cases h2 : e.updated = true
      · simp [h1, h2]
      · by_cases h3 : e.finished = true
        · simp [h1, h2, h3]
        · simp [h1, h2, h3] at he
  · simp [h0]

theorem update_actInv {s : State} (hi : ActInv s) (e : AEv) (he : (e.started || e.updated || e.finished) = true)
    (hni : ∀ x, s.actions e.uid = some x → x.status ≠ .initialized) : ActInv (updateActionStatusByEvent s e) := by
  obtain ⟨_, ho, _, _, ha⟩ := update_rel e s
  refine ⟨?_, ?_⟩
  · intro b y hy hr h0
    rw [ho] at h0
    rcases ha b with e1 | ⟨x, hx, hxf, ht⟩
    · rw [e1] at hy; exact hi.act1 b y hy hr h0
    · rw [ht] at hy; cases hy
      by_cases hb : e.uid = b
      · subst hb
        rcases processEvent_ext x e.uid e he with h | h | h
        · rw [h] at hr ⊢; exact hi.act1 _ x hx hr h0
        · rw [h]
          show 1 ≤ x.count
          cases hs : x.status with
          | initialized => exact absurd hs (hni x hx)
          | starting => exact hi.act1 _ x hx (by simp [hs, AStatus.running]) h0
          | started => exact hi.act1 _ x hx (by simp [hs, AStatus.running]) h0
          | stopping => have := hi.act0 _ x hx hs; omega
          | finished => exact absurd hs hxf
        · rw [h] at hr; simp [AStatus.running] at hr
      · rw [processEvent_other _ _ _ hb] at hr ⊢; exact hi.act1 b x hx hr h0
  · intro b y hy hs
    rw [ho]
    rcases ha b with e1 | ⟨x, hx, hxf, ht⟩
    · rw [e1] at hy; exact hi.act0 b y hy hs
    · rw [ht] at hy; cases hy
      rcases processEvent_ext x b e he with h | h | h
      · rw [h] at hs; exact hi.act0 b x hx hs
      · rw [h] at hs; cases hs
      · rw [h] at hs; cases hs

theorem startAction_actInv {s : State} (hi : ActInv s) (a : Nat) : ActInv (generateUmim s (.start a) (AEv.startOf a)) := by
  unfold generateUmim
  obtain ⟨_, ho, _, _, ha⟩ := update_rel (AEv.startOf a) (emit s (.start a))
  have hst : ∀ b, stops b (updateActionStatusByEvent (emit s (.start a)) (AEv.startOf a)).out = stops b s.out := by
    intro b; rw [ho, emit_out, stops_append_start]
  refine ⟨?_, ?_⟩
  · intro b y hy hr h0
    rw [hst] at h0
    rcases ha b with e1 | ⟨x, hx, _, ht⟩
    · rw [e1] at hy; exact hi.act1 b y hy hr h0
    · rw [ht] at hy; cases hy
      by_cases hb : a = b
      · subst hb; simp [processEvent, AEv.startOf]
      · rw [processEvent_other _ _ _ (by simpa [AEv.startOf] using hb)] at hr ⊢
        exact hi.act1 b x hx hr h0
  · intro b y hy hs
    rw [hst]
    rcases ha b with e1 | ⟨x, hx, _, ht⟩
    · rw [e1] at hy; exact hi.act0 b y hy hs
    · rw [ht] at hy; cases hy
      by_cases hb : a = b
      · subst hb; simp [processEvent, AEv.startOf] at hs
      · rw [processEvent_other _ _ _ (by simpa [AEv.startOf] using hb)] at hs
        exact hi.act0 b x hx hs

end NemoVerif.Lifetime
