/-
  Lemmas for C14 phase 4, goal 2: the decision rule of `compute_next_state` with several flows
  (`_record_next_step` priorities, aborted / completed flows, interruption and resumption), as facts about the
  functions of `V1Interp` for ARBITRARY flow lists.
-/
import NemoVerif.Lemmas.V1Sub
namespace NemoVerif.V1Multi
open NemoVerif.V1Interp NemoVerif.V1Struct NemoVerif.V1Follow NemoVerif.V1Sub

/-! ### the priority rule of `_record_next_step` -/

/-- a candidate decision: the element at a flow's head, the flow state's uid, the flow's priority (hundredths) -/
structure Cand where
  el : Elem
  uid : Nat
  prio : Nat
  deriving Repr, DecidableEq

def Cand.toNext (c : Cand) : NextStep := { elem := c.el, uid := c.uid, prio := c.prio * 100 }

/-- `_record_next_step` (modifier 1.0) called for the candidates in order -/
def recAll (old : Option NextStep) : List Cand → Option NextStep
  | [] => old
  | c :: r => recAll (recNext old c.el c.uid c.prio) r

/-- specification: the FIRST actionable candidate of MAXIMAL priority (a later one wins only if strictly greater) -/
def best : List Cand → Option Cand
  | [] => none
  | c :: r =>
    if isActionable c.el then
      (match best r with
       | some d => if c.prio < d.prio then some d else some c
       | none => some c)
    else best r

/-- what is recorded when `b` is the best new candidate and `old` was recorded before -/
def pick (old : Option NextStep) (b : Option Cand) : Option NextStep :=
  match b with
  | none => old
  | some d => match old with
    | none => some d.toNext
    | some n => if n.prio < d.prio * 100 then some d.toNext else some n

theorem recAll_rule : ∀ (cands : List Cand) (old : Option NextStep), recAll old cands = pick old (best cands) := by
  intro cands
  induction cands with
  | nil => intro old; cases old <;> rfl
  | cons c r ih =>
    intro old
    simp only [recAll, ih, best, recNext]
    by_cases ha : isActionable c.el = true
    · simp only [ha, Bool.and_true, if_true]
      cases old with
      | none =>
        simp only [if_true]
        cases hb : best r with
        | none => simp [pick, Cand.toNext]
        | some d =>
          simp only [pick, Cand.toNext]
          by_cases hlt : c.prio < d.prio
          · have : c.prio * 100 < d.prio * 100 := by omega
            simp [hlt, this]
          · have : ¬ c.prio * 100 < d.prio * 100 := by omega
            simp [hlt, this]
      | some n =>
        simp only [decide_eq_true_eq]
        by_cases hf : n.prio < c.prio * 100
        · simp only [hf, if_true]
          cases hb : best r with
          | none => simp [pick, hf, Cand.toNext]
          | some d =>
            simp only [pick, Cand.toNext]
            by_cases hlt : c.prio < d.prio
            · have h1 : c.prio * 100 < d.prio * 100 := by omega
              have h2 : n.prio < d.prio * 100 := by omega
              simp [hlt, h1, h2]
            · have h1 : ¬ c.prio * 100 < d.prio * 100 := by omega
              simp [hlt, h1, hf]
        · simp only [hf, if_false]
          cases hb : best r with
          | none => simp [pick, hf]
          | some d =>
            simp only [pick]
            by_cases hlt : c.prio < d.prio
            · simp [hlt]
            · have h2 : ¬ n.prio < d.prio * 100 := by omega
              simp [hlt, h2, hf]
    · simp only [ha, Bool.and_false, Bool.false_eq_true, if_false]

/-- the best candidate is an actionable candidate of maximal priority, and every candidate before it has a
    strictly smaller priority (or is not actionable): ties are resolved by flow order -/
theorem best_spec : ∀ (cands : List Cand) (b : Cand), best cands = some b →
    ∃ l1 l2, cands = l1 ++ b :: l2 ∧ isActionable b.el = true ∧
      (∀ c ∈ l1, isActionable c.el = true → c.prio < b.prio) ∧
      (∀ c ∈ l2, isActionable c.el = true → c.prio ≤ b.prio) := by
  intro cands
  induction cands with
  | nil => intro b h; simp [best] at h
  | cons c r ih =>
    intro b h
    simp only [best] at h
    by_cases ha : isActionable c.el = true
    · simp only [ha, if_true] at h
      cases hb : best r with
      | none =>
        simp only [hb, Option.some.injEq] at h
        subst h
        refine ⟨[], r, rfl, ha, by simp, ?_⟩
        intro d hd hda
        -- no actionable candidate in r
        exfalso
        clear ih
        induction r with
        | nil => cases hd
        | cons e r' ih' =>
          simp only [best] at hb
          by_cases hea : isActionable e.el = true
          · simp only [hea, if_true] at hb
            cases hb' : best r' <;> simp [hb'] at hb
            split at hb <;> simp at hb
          · simp only [hea, Bool.false_eq_true, if_false] at hb
            rcases List.mem_cons.1 hd with rfl | hd'
            · exact hea hda
            · exact ih' hb hd'
      | some d =>
        simp only [hb] at h
        obtain ⟨l1, l2, hr, hda, h1, h2⟩ := ih d hb
        by_cases hlt : c.prio < d.prio
        · simp only [hlt, if_true, Option.some.injEq] at h
          subst h
          refine ⟨c :: l1, l2, by simp [hr], hda, ?_, h2⟩
          intro e he hea
          rcases List.mem_cons.1 he with rfl | he'
          · exact hlt
          · exact h1 e he' hea
        · simp only [hlt, if_false, Option.some.injEq] at h
          subst h
          refine ⟨[], r, rfl, ha, by simp, ?_⟩
          intro e he hea
          rw [hr] at he
          rcases List.mem_append.1 he with he1 | he2
          · have := h1 e he1 hea; omega
          · rcases List.mem_cons.1 he2 with rfl | he3
            · omega
            · have := h2 e he3 hea; omega
    · simp only [ha, Bool.false_eq_true, if_false] at h
      obtain ⟨l1, l2, hr, hda, h1, h2⟩ := ih b h
      refine ⟨c :: l1, l2, by simp [hr], hda, ?_, h2⟩
      intro e he hea
      rcases List.mem_cons.1 he with rfl | he'
      · exact absurd hea ha
      · exact h1 e he' hea

/-- `_record_next_step` with modifier 1.0 as `recNext` (any flow, any element list) -/
theorem record_eq (ns : State) (fs : FS) (cfg : FlowCfg) (el : Elem) (h : pyIndex cfg.elems fs.head = some el) :
    recordNextStep ns fs cfg false = { ns with next := recNext ns.next el fs.uid cfg.prio } := by
  obtain ⟨ctx, flows, next, upd, ctr⟩ := ns
  simp only [recordNextStep, h, recNext]
  cases next with
  | none => by_cases ha : isActionable el = true <;> simp [ha]
  | some n =>
    by_cases hf : n.prio < cfg.prio * 100 <;> by_cases ha : isActionable el = true <;> simp [hf, ha]

/-- a step recorded with modifier 0.9 (its flow was not triggered by the event) has recorded priority `prio * 90` -/
theorem record_waiting (ns : State) (fs : FS) (cfg : FlowCfg) (el : Elem) (h : pyIndex cfg.elems fs.head = some el)
    (hfree : ns.next = none) (ha : isActionable el = true) :
    (recordNextStep ns fs cfg true).next = some { elem := el, uid := fs.uid, prio := cfg.prio * 90 } := by
  simp [recordNextStep, h, hfree, ha]

/-! ### aborted and completed flows never decide -/

theorem advanceAll_append (r : Bool) (cfgs : Cfgs) (ev : Event) : ∀ (l1 l2 : List FS) (ns : State) (ext : Bool),
    advanceAll r cfgs ev (l1 ++ l2) ns ext =
      (match advanceAll r cfgs ev l1 ns ext with
       | .error e => .error e
       | .ok (ns', ext') => advanceAll r cfgs ev l2 ns' ext') := by
  intro l1
  induction l1 with
  | nil => intro l2 ns ext; rfl
  | cons fs l ih =>
    intro l2 ns ext
    simp only [List.cons_append, advanceAll]
    cases advanceOne r cfgs ev ns ext fs with
    | error e => rfl
    | ok x => obtain ⟨ns', ext'⟩ := x; exact ih l2 ns' ext'

theorem advanceOne_dead (r : Bool) (cfgs : Cfgs) (ev : Event) (ns : State) (ext : Bool) (fs : FS) (cfg : FlowCfg)
    (hf : cfgs.find fs.flowId = some cfg) (hd : fs.status = .aborted ∨ fs.status = .completed) :
    advanceOne r cfgs ev ns ext fs = .ok (ns, ext) := by
  rcases hd with h | h <;> simp [advanceOne, hf, h]

/-! ### an interrupted flow keeps its position and resumes at its own statement -/

theorem advanceOne_interrupted (r : Bool) (cfgs : Cfgs) (ev : Event) (ns : State) (ext : Bool) (fs : FS) (cfg : FlowCfg)
    (hf : cfgs.find fs.flowId = some cfg) (hi : fs.status = .interrupted) :
    advanceOne r cfgs ev ns ext fs = .ok ({ ns with flows := ns.flows ++ [fs] }, ext) := by
  simp [advanceOne, hf, hi]

/-- an ACTIVE flow waiting at a non-actionable element (a `user` statement) that the triggering event does not
    match is INTERRUPTED — with its head unchanged -/
theorem advanceOne_interrupts (r : Bool) (cfgs : Cfgs) (ev : Event) (ns : State) (ext : Bool) (fs : FS) (cfg : FlowCfg) (el : Elem)
    (hf : cfgs.find fs.flowId = some cfg) (ha : fs.status = .active) (hel : pyIndex cfg.elems fs.head = some el)
    (htr : ev.triggers cfg.triggers = true) (hm : isMatch el ev = false) (hna : isActionable el = false)
    (hint : cfg.isInterruptible = true) :
    advanceOne r cfgs ev ns ext fs = .ok ({ ns with flows := ns.flows ++ [{ fs with status := .interrupted }] }, ext) := by
  simp [advanceOne, hf, ha, hel, htr, hm, hna, hint]

/-- an ACTIVE flow waiting at an actionable element (`bot …` / `execute …`) that the triggering event does not
    match is ABORTED -/
theorem advanceOne_aborts (r : Bool) (cfgs : Cfgs) (ev : Event) (ns : State) (ext : Bool) (fs : FS) (cfg : FlowCfg) (el : Elem)
    (hf : cfgs.find fs.flowId = some cfg) (ha : fs.status = .active) (hel : pyIndex cfg.elems fs.head = some el)
    (htr : ev.triggers cfg.triggers = true) (hm : isMatch el ev = false) (hact : isActionable el = true) :
    advanceOne r cfgs ev ns ext fs = .ok ({ ns with flows := ns.flows ++ [{ fs with status := .aborted }] }, ext) := by
  simp [advanceOne, hf, ha, hel, htr, hm, hact]

/-- sliding a flow that stands at a `user` statement moves nothing and decides nothing -/
theorem slideWS_at_user (g : Nat) (cfgs : Cfgs) (ns : State) (fs : FS) (cfg : FlowCfg) (n : Nat) (i : String)
    (hf : cfgs.find fs.flowId = some cfg) (hh : fs.head = (n : Int)) (hel : cfg.elems[n]? = some (.userIntent i)) :
    slideWithSubflows true (g + 1) cfgs ns fs = .ok (ns, fs) := by
  have hlt : n < cfg.elems.length := by
    rcases Nat.lt_or_ge n cfg.elems.length with h | h
    · exact h
    · rw [List.getElem?_eq_none h] at hel; cases hel
  have hs : slide SLIDE_FUEL cfg.elems ⟨ns.ctx, ns.upd⟩ fs.head (initPrev cfg.elems fs.head) = .at ⟨ns.ctx, ns.upd⟩ fs.head := by
    rw [hh]
    exact slide_stop_now 4999 _ _ _ _ (by omega) (by simp [sstep, hel])
  have he : cfg.elems[fs.head.toNat]? = some (.userIntent i) := by rw [hh]; simpa using hel
  rw [slideWS_step g cfgs ns fs cfg _ _ _ hf hs he (by simp) (by simp)]
  have hidx : pyIndex cfg.elems fs.head = some (.userIntent i) := by rw [hh, pyIndex_nat]; exact hel
  simp [recordNextStep, hidx, isActionable]

end NemoVerif.V1Multi
