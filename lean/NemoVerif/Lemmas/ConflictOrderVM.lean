/-
  C05 on CoreVM, order part: the exact score comparison of the interpreter model (`Score.lt`: integer cross-multiplication of
  `prio · 0.9^k`) is the order of the rational values, `scoresLt` is the lexicographic order of the value lists, `sortDesc`
  (the model of `sorted(..., reverse=True)`) sorts — hence the head `_resolve_action_conflicts` picks has a maximal padded
  score vector (`corevm_picked_is_max`), and a head with an exactly smaller score at the first differing position is never picked.
-/
import NemoVerif.Models.CoreVM
import Mathlib.Tactic.FieldSimp
import Mathlib.Tactic.Ring
import Mathlib.Tactic.Positivity
import Mathlib.Tactic.Linarith
import Mathlib.Data.Rat.Defs
import Mathlib.Algebra.Order.Field.Basic
namespace NemoVerif.CoreVM

/-- the number a score stands for -/
def Score.val (s : Score) : ℚ := (s.num.1 : ℚ) / (2 : ℚ) ^ s.num.2 * ((9 : ℚ) / 10) ^ s.k.toNat

theorem Score.lt_iff (a b : Score) : a.lt b = true ↔ a.val < b.val := by
  unfold Score.lt Score.val
  simp only [decide_eq_true_eq]
  rw [div_pow, div_pow]
  rw [div_mul_div_comm, div_mul_div_comm]
  rw [div_lt_div_iff₀ (by positivity) (by positivity)]
  constructor
  · intro h
    have h' : ((a.num.1 * (2 : Int) ^ b.num.2 * (9 : Int) ^ a.k.toNat * (10 : Int) ^ b.k.toNat : Int) : ℚ) <
        ((b.num.1 * (2 : Int) ^ a.num.2 * (9 : Int) ^ b.k.toNat * (10 : Int) ^ a.k.toNat : Int) : ℚ) := by exact_mod_cast h
    push_cast at h'
    nlinarith [h']
  · intro h
    have h' : ((a.num.1 * (2 : Int) ^ b.num.2 * (9 : Int) ^ a.k.toNat * (10 : Int) ^ b.k.toNat : Int) : ℚ) <
        ((b.num.1 * (2 : Int) ^ a.num.2 * (9 : Int) ^ b.k.toNat * (10 : Int) ^ a.k.toNat : Int) : ℚ) := by
      push_cast
      nlinarith [h]
    exact_mod_cast h'
end NemoVerif.CoreVM

namespace NemoVerif.CoreVM
open List

theorem scoresLt_iff : ∀ a b : List Score, scoresLt a b = true ↔ a.map Score.val < b.map Score.val
  | [], [] => by simp [scoresLt]
  | [], _ :: _ => by simp [scoresLt]
  | _ :: _, [] => by simp [scoresLt]
  | a :: as, b :: bs => by
    have ih := scoresLt_iff as bs
    simp only [scoresLt, map_cons, cons_lt_cons_iff]
    by_cases h1 : a.lt b = true
    · simp [h1, (Score.lt_iff a b).1 h1]
    · by_cases h2 : b.lt a = true
      · have hv := (Score.lt_iff b a).1 h2
        simp only [h1, h2, if_false, if_true]
        constructor
        · intro h; cases h
        · rintro (h | ⟨h, _⟩)
          · exact absurd h (not_lt.2 hv.le)
          · rw [h] at hv; exact absurd hv (lt_irrefl _)
      · have e1 : ¬ a.val < b.val := fun h => h1 ((Score.lt_iff a b).2 h)
        have e2 : ¬ b.val < a.val := fun h => h2 ((Score.lt_iff b a).2 h)
        have e : a.val = b.val := le_antisymm (not_lt.1 e2) (not_lt.1 e1)
        simp [h1, h2, ih, e]

end NemoVerif.CoreVM

namespace NemoVerif.CoreVM
open List

section sort
variable {α : Type} (key : α → List Score)

/-- descending: an earlier element is never smaller than a later one -/
def Desc (l : List α) : Prop := l.Pairwise (fun u v => scoresLt (key u) (key v) = false)

theorem scoresLt_false_iff (a b : List Score) : scoresLt a b = false ↔ ¬ a.map Score.val < b.map Score.val := by
  rw [← scoresLt_iff]; cases scoresLt a b <;> simp

theorem mem_ins (x y : α) : ∀ acc : List α, y ∈ sortDesc.ins key x acc ↔ y = x ∨ y ∈ acc
  | [] => by simp [sortDesc.ins]
  | z :: zs => by
    unfold sortDesc.ins
    split
    · simp
    · simp only [mem_cons, mem_ins x y zs]
      constructor
      · rintro (h | h | h)
        · exact Or.inr (Or.inl h)
        · exact Or.inl h
        · exact Or.inr (Or.inr h)
      · rintro (h | h | h)
        · exact Or.inr (Or.inl h)
        · exact Or.inl h
        · exact Or.inr (Or.inr h)

theorem desc_ins (x : α) : ∀ acc : List α, Desc key acc → Desc key (sortDesc.ins key x acc)
  | [], _ => by simp [sortDesc.ins, Desc]
  | y :: ys, h => by
    unfold sortDesc.ins
    have hy := (pairwise_cons.1 h)
    split
    · rename_i hlt
      refine pairwise_cons.2 ⟨fun v hv => ?_, h⟩
      have hyx := (scoresLt_iff _ _).1 hlt
      rw [scoresLt_false_iff]
      rcases mem_cons.1 hv with rfl | hv
      · exact not_lt.2 hyx.le
      · have := (scoresLt_false_iff _ _).1 (hy.1 v hv)
        intro hxv
        exact this (lt_trans hyx hxv)
    · rename_i hnlt
      refine pairwise_cons.2 ⟨fun v hv => ?_, desc_ins x ys hy.2⟩
      rcases (mem_ins key x v ys).1 hv with rfl | hv
      · cases h' : scoresLt (key y) (key v) with
        | true => exact absurd h' hnlt
        | false => rfl
      · exact hy.1 v hv

theorem desc_foldl : ∀ (xs acc : List α), Desc key acc → Desc key (xs.foldl (fun acc x => sortDesc.ins key x acc) acc)
  | [], acc, h => h
  | x :: xs, acc, h => desc_foldl xs _ (desc_ins key x acc h)

theorem desc_sortDesc (xs : List α) : Desc key (sortDesc key xs) := by
  unfold sortDesc; exact desc_foldl key xs [] Pairwise.nil

theorem mem_foldl_ins_iff (y : α) : ∀ (xs acc : List α),
    y ∈ xs.foldl (fun acc x => sortDesc.ins key x acc) acc ↔ y ∈ acc ∨ y ∈ xs
  | [], acc => by simp
  | x :: xs, acc => by
    simp only [foldl_cons, mem_foldl_ins_iff y xs, mem_ins, mem_cons]
    constructor
    · rintro ((h | h) | h)
      · exact Or.inr (Or.inl h)
      · exact Or.inl h
      · exact Or.inr (Or.inr h)
    · rintro (h | h | h)
      · exact Or.inl (Or.inr h)
      · exact Or.inl (Or.inl h)
      · exact Or.inr h

theorem mem_sortDesc_iff (xs : List α) (y : α) : y ∈ sortDesc key xs ↔ y ∈ xs := by
  unfold sortDesc; simp [mem_foldl_ins_iff]

/-- a stable descending sort puts a maximum first -/
theorem head_sortDesc_max {xs : List α} {h0 : α} {rest : List α} (e : sortDesc key xs = h0 :: rest) :
    ∀ z ∈ xs, scoresLt (key h0) (key z) = false := by
  intro z hz
  have hd := desc_sortDesc key xs
  rw [e] at hd
  have hz' : z ∈ h0 :: rest := by rw [← e]; exact (mem_sortDesc_iff key xs z).2 hz
  rcases mem_cons.1 hz' with rfl | hz'
  · rw [scoresLt_false_iff]; exact lt_irrefl _
  · exact (pairwise_cons.1 hd).1 z hz'
end sort
end NemoVerif.CoreVM

namespace NemoVerif.CoreVM
open List NemoVerif.CoreIndex

theorem takeWhile_getElem_true {α : Type} (p : α → Bool) : ∀ (l : List α) (i : Nat) (h : i < (l.takeWhile p).length),
    ∃ h' : i < l.length, p l[i] = true
  | [], i, h => by simp at h
  | x :: xs, i, h => by
    simp only [takeWhile_cons] at h
    split at h
    · rename_i hp
      cases i with
      | zero => exact ⟨by simp, by simpa using hp⟩
      | succ j =>
        obtain ⟨h', e⟩ := takeWhile_getElem_true p xs j (by simpa using h)
        exact ⟨by simp; omega, by simpa using e⟩
    · simp at h

/-- exact ties carry the same values, hence the same padded values -/
theorem scoresEq_val {a b : List Score} (h : scoresEq a b = true) : a.map Score.val = b.map Score.val := by
  unfold scoresEq at h
  simp only [Bool.and_eq_true, Bool.not_eq_true'] at h
  have h1 := (scoresLt_false_iff a b).1 h.1
  have h2 := (scoresLt_false_iff b a).1 h.2
  exact le_antisymm (not_lt.1 h2) (not_lt.1 h1)

theorem padScores_val (a : List Score) (n : Nat) :
    (padScores a n).map Score.val = a.map Score.val ++ replicate (n - (a.map Score.val).length) (1 : ℚ) := by
  simp [padScores, Score.val, Score.num]

theorem scoresEq_pad {a b : List Score} (h : scoresEq a b = true) (n : Nat) :
    (padScores a n).map Score.val = (padScores b n).map Score.val := by
  rw [padScores_val, padScores_val, scoresEq_val h]

/-- **`winner_is_max` on the terms of `CoreVM.resolveActionConflicts`**: the head the interpreter model binds to `picked`
    (`ordered[c]!`, `c` any outcome of the tie-break among the `equalPrefixLen` candidates) has a padded score vector that is
    not smaller than the padded vector of any head of its loop group — compared exactly (`scoresLt` = lexicographic order of the
    rational values `prio · 0.9^k`, `scoresLt_iff`). -/
theorem corevm_picked_is_max (scoresOf : Key → List Score) (group : List Key) (c : Nat)
    (hc : c < equalPrefixLen scoresOf
      (sortDesc (fun kk => padScores (scoresOf kk) (group.foldl (fun m kk => max m (scoresOf kk).length) 0)) group)) :
    ∀ z ∈ group,
      scoresLt (padScores (scoresOf (sortDesc (fun kk => padScores (scoresOf kk) (group.foldl (fun m kk => max m (scoresOf kk).length) 0)) group)[c]!)
                  (group.foldl (fun m kk => max m (scoresOf kk).length) 0))
               (padScores (scoresOf z) (group.foldl (fun m kk => max m (scoresOf kk).length) 0)) = false := by
  intro z hz
  generalize group.foldl (fun m kk => max m (scoresOf kk).length) 0 = n at hc ⊢
  generalize ho : sortDesc (fun kk => padScores (scoresOf kk) n) group = ordered at hc ⊢
  cases ordered with
  | nil => simp [equalPrefixLen] at hc
  | cons k0 rest =>
    have hmax := head_sortDesc_max (fun kk => padScores (scoresOf kk) n) ho z hz
    cases c with
    | zero => simpa using hmax
    | succ j =>
      simp only [equalPrefixLen] at hc
      obtain ⟨hj, hp⟩ := takeWhile_getElem_true (fun k => scoresEq (scoresOf k) (scoresOf k0)) rest j (by omega)
      have hidx : (k0 :: rest)[j + 1]! = rest[j] := by
        rw [getElem!_pos (k0 :: rest) (j + 1) (by simp; omega)]; rfl
      rw [hidx, scoresLt_false_iff, scoresEq_pad hp n, ← scoresLt_false_iff]
      exact hmax

end NemoVerif.CoreVM

namespace NemoVerif.CoreVM
open List NemoVerif.CoreIndex

/-- fewer unmentioned parameters under the same positive priority: strictly larger score -/
theorem Score.lt_of_more_unmentioned (a b : Score) (hp : a.prio = b.prio) (hpos : 0 < a.num.1) (hk0 : 0 ≤ a.k) (hk : a.k < b.k) :
    b.lt a = true := by
  rw [Score.lt_iff]
  unfold Score.val
  have hn : b.num = a.num := by simp [Score.num, hp]
  rw [hn]
  have hm : (0 : ℚ) < (a.num.1 : ℚ) / (2 : ℚ) ^ a.num.2 := by
    apply div_pos
    · exact_mod_cast hpos
    · positivity
  apply mul_lt_mul_of_pos_left _ hm
  apply pow_lt_pow_right_of_lt_one₀ (by norm_num) (by norm_num)
  omega

theorem scoresLt_prefix (pre : List Score) {a b : Score} (h : b.lt a = true) (ta tb : List Score) :
    scoresLt (pre ++ b :: tb) (pre ++ a :: ta) = true := by
  induction pre with
  | nil => simp [scoresLt, h]
  | cons x xs ih =>
    have hx : x.lt x = false := by
      cases hh : x.lt x with
      | false => rfl
      | true => exact absurd ((Score.lt_iff x x).1 hh) (lt_irrefl _)
    simp only [cons_append, scoresLt, hx, Bool.false_eq_true, if_false]
    exact ih

/-- `better_score_wins` on the terms of `CoreVM.resolveActionConflicts`: if at the first position where the score vectors of two
    heads A, B of one loop group differ A's score is exactly greater, then B is never bound to `picked`. -/
theorem corevm_better_score_wins (scoresOf : Key → List Score) (group : List Key) (c : Nat)
    (hc : c < equalPrefixLen scoresOf
      (sortDesc (fun kk => padScores (scoresOf kk) (group.foldl (fun m kk => max m (scoresOf kk).length) 0)) group))
    (A B : Key) (hA : A ∈ group) (pre : List Score) (a b : Score) (ta tb : List Score)
    (hsa : scoresOf A = pre ++ a :: ta) (hsb : scoresOf B = pre ++ b :: tb) (hab : b.lt a = true) :
    (sortDesc (fun kk => padScores (scoresOf kk) (group.foldl (fun m kk => max m (scoresOf kk).length) 0)) group)[c]! ≠ B := by
  intro e
  have h := corevm_picked_is_max scoresOf group c hc A hA
  rw [e, hsa, hsb] at h
  simp only [padScores, append_assoc, cons_append] at h
  rw [scoresLt_prefix pre hab] at h
  cases h

theorem scoresEq_refl (a : List Score) : scoresEq a a = true := by
  unfold scoresEq
  have : scoresLt a a = false := (scoresLt_false_iff a a).2 (lt_irrefl _)
  simp [this]

/-- the picked head is among the EXACT ties of the best head: its unpadded score vector equals (value by value, same length)
    the vector of the first head in the descending order -/
theorem corevm_picked_among_exact_ties (scoresOf : Key → List Score) (ordered : List Key) (c : Nat)
    (hc : c < equalPrefixLen scoresOf ordered) : scoresEq (scoresOf ordered[c]!) (scoresOf ordered[0]!) = true := by
  cases ordered with
  | nil => simp [equalPrefixLen] at hc
  | cons k0 rest =>
    cases c with
    | zero => exact scoresEq_refl _
    | succ j =>
      simp only [equalPrefixLen] at hc
      obtain ⟨hj, hp⟩ := takeWhile_getElem_true (fun k => scoresEq (scoresOf k) (scoresOf k0)) rest j (by omega)
      have hidx : (k0 :: rest)[j + 1]! = rest[j] := by
        rw [getElem!_pos (k0 :: rest) (j + 1) (by simp; omega)]; rfl
      have h0 : (k0 :: rest)[0]! = k0 := rfl
      rw [hidx, h0]; exact hp

end NemoVerif.CoreVM
