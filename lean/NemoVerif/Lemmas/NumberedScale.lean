/-
  C13, Colang 1.0: `get_numbered_lines` commutes with uniform scaling of the indentation (`numbered_scale`).
  Property theorems are in Theorems/C13.lean.
-/
import NemoVerif.Lemmas.NumberedLines
namespace NemoVerif.NumberedLines

def scaleSt (k : Nat) (st : St) : St :=
  { st with inString := st.inString.map (fun p => (p.1, k * p.2)), pending := st.pending.map (fun p => (p.1, k * p.2)) }

theorem lead_le_length (l : Str) : lead l ≤ l.length := by
  induction l with
  | nil => simp [lead]
  | cons c r ih => by_cases hc : c = ' ' <;> simp [lead, hc]; omega

theorem lstrip_replicate_sp (n : Nat) (r : Str) : lstrip (List.replicate n ' ' ++ r) = lstrip r := by
  apply lstrip_allws
  intro c hc
  rw [List.mem_replicate] at hc
  rw [hc.2]; decide

theorem split_lead (l : Str) : l = List.replicate (lead l) ' ' ++ l.drop (lead l) := by
  induction l with
  | nil => simp [lead]
  | cons c r ih =>
    by_cases hc : c = ' '
    · subst hc
      simp only [lead, if_true, List.replicate_succ, List.cons_append, List.drop_succ_cons]
      rw [← ih]
    · simp [lead, hc]

theorem lead_drop_lead (l : Str) : lead (l.drop (lead l)) = 0 := by
  induction l with
  | nil => simp [lead]
  | cons c r ih =>
    by_cases hc : c = ' '
    · subst hc
      simpa [lead] using ih
    · simp [lead, hc]

theorem lead_replicate_append (n : Nat) (r : Str) : lead (List.replicate n ' ' ++ r) = n + lead r := by
  induction n with
  | zero => simp
  | succ n ih => simp [List.replicate_succ, lead, ih]; omega

theorem strip_scaleLine (k : Nat) (l : Str) : strip (scaleLine k l) = strip l := by
  unfold strip scaleLine
  rw [lstrip_replicate_sp]
  conv => rhs; rw [split_lead l, lstrip_replicate_sp]

theorem lead_scaleLine (k : Nat) (l : Str) : lead (scaleLine k l) = k * lead l := by
  unfold scaleLine
  rw [lead_replicate_append, lead_drop_lead]; simp

theorem length_scaleLine (k : Nat) (l : Str) : (scaleLine k l).length = k * lead l + (l.length - lead l) := by
  simp [scaleLine]

theorem settle_scale (k : Nat) (st : St) (text : Str) (ind : Nat) :
    settle (scaleSt k st) text (k * ind) = (scaleSt k (settle st text ind).1, (settle st text ind).2.map (scaleRec k)) := by
  unfold settle
  by_cases h : wantsMore text = true
  · simp [h, scaleSt]
  · simp [h, scaleSt, scaleRec]

def liftRes (k : Nat) : Except Err (St × List Rec) → Except Err (St × List Rec)
  | .error e => .error e
  | .ok p => .ok (scaleSt k p.1, p.2.map (scaleRec k))

theorem liftRes_ite (k : Nat) (c : Prop) [Decidable c] (a b : Except Err (St × List Rec)) :
    liftRes k (if c then a else b) = if c then liftRes k a else liftRes k b := by
  split <;> rfl

theorem liftRes_ok (k : Nat) (p : St × List Rec) : liftRes k (.ok p) = .ok (scaleSt k p.1, p.2.map (scaleRec k)) := rfl
theorem liftRes_error (k : Nat) (e : Err) : liftRes k (.error e) = .error e := rfl

theorem stepV_scale (k : Nat) (st : St) (s : Str) (ld len len' : Nat)
    (hlen : isOpener s = true → len' - s.length = k * (len - s.length)) :
    stepV (scaleSt k st) s (k * ld) len' = liftRes k (stepV st s ld len) := by
  unfold stepV
  cases hp : st.pending with
  | some p =>
    obtain ⟨text, ind⟩ := p
    have key : ∀ X, settle (scaleSt k st) X (k * ind) = (scaleSt k (settle st X ind).1, (settle st X ind).2.map (scaleRec k)) :=
      fun X => settle_scale k st X ind
    simp only [scaleSt, hp, Option.map_some] at key ⊢
    simp only [liftRes_ite, liftRes_ok, liftRes_error, key, scaleSt]
  | none =>
    have key : ∀ X i, settle (scaleSt k st) X (k * i) = (scaleSt k (settle st X i).1, (settle st X i).2.map (scaleRec k)) :=
      fun X i => settle_scale k st X i
    cases hs : st.inString with
    | some q =>
      obtain ⟨cur, mind⟩ := q
      simp only [scaleSt, hp, hs, Option.map_some, Option.map_none]
      split <;> simp [liftRes, scaleSt, scaleRec]
    | none =>
      simp only [scaleSt, hp, hs, Option.map_none] at key ⊢
      by_cases ho : isOpener s = true
      · simp [ho, liftRes, scaleSt, hlen ho]
      · have hf : isOpener s = false := by simpa using ho
        simp only [hf, Bool.false_eq_true, if_false]
        simp only [liftRes_ite, liftRes_ok, key, scaleSt, hp, hs, Option.map_none, List.map_nil]
        cases st.comment <;> simp [liftRes_ite, liftRes_ok, liftRes_error, scaleSt]

theorem step_scale (k : Nat) (st : St) (l : Str) (h : openerTight l = true) :
    step (scaleSt k st) (scaleLine k l) = liftRes k (step st l) := by
  unfold step
  rw [strip_scaleLine, lead_scaleLine]
  apply stepV_scale
  intro ho
  have hl : l.length = lead l + (strip l).length := by
    simpa [openerTight, ho] using h
  rw [length_scaleLine, hl, Nat.add_sub_cancel_left, Nat.add_sub_cancel, Nat.add_sub_cancel]

theorem finish_scale (k : Nat) (st : St) : finish (scaleSt k st) = (finish st).map (List.map (scaleRec k)) := by
  unfold finish
  cases hp : st.pending with
  | some p =>
    obtain ⟨text, ind⟩ := p
    simp only [scaleSt, hp, Option.map_some]
    split <;> simp [Except.map, scaleRec]
  | none => simp [scaleSt, hp, Except.map]

theorem run_scale (k : Nat) (ls : List Str) (h : ∀ l ∈ ls, openerTight l = true) : ∀ st : St,
    run (scaleSt k st) (ls.map (scaleLine k)) = (run st ls).map (List.map (scaleRec k)) := by
  induction ls with
  | nil => intro st; simpa [run] using finish_scale k st
  | cons l ls ih =>
    intro st
    simp only [List.map_cons, run, step_scale k st l (h l (by simp))]
    cases hstep : step st l with
    | error e => simp [liftRes, Except.map]
    | ok p =>
      simp only [liftRes, ih (fun l' hl' => h l' (by simp [hl'])) p.1]
      cases run p.1 ls with
      | error e => simp [Except.map]
      | ok r => simp [Except.map]

theorem scaleSt_init (k : Nat) : scaleSt k St.init = St.init := rfl

/-- Scaling the leading spaces of every line by any factor `k` multiplies every record's `indentation` by `k` and changes
    nothing else (texts, comments, number of records, the error raised), provided every first line of a multi-line string
    is tight. -/
theorem numbered_scale (k : Nat) (ls : List Str) (h : ∀ l ∈ ls, openerTight l = true) :
    numbered (ls.map (scaleLine k)) = (numbered ls).map (List.map (scaleRec k)) := by
  unfold numbered
  have := run_scale k ls h St.init
  rwa [scaleSt_init] at this

end NemoVerif.NumberedLines
