/-
  C13, Colang 1.0: `get_numbered_lines` commutes with uniform scaling of the indentation (`numbered_scale`).
  Property theorems are in Theorems/C13.lean.
-/
import NemoVerif.Lemmas.NumberedLines
namespace NemoVerif.NumberedLines

def scaleSt (k : Nat) (st : St) : St :=
  { st with inString := st.inString.map (fun p => (p.1, k * p.2)), pending := st.pending.map (fun p => (p.1, k * p.2)) }

theorem lead_le_length (l : Str) : lead l ≤ l.length := by
  induction l with
  | nil => simp [lead]
  | cons c r ih => by_cases hc : c = ' ' <;> simp [lead, hc]; omega

theorem lstrip_replicate_sp (n : Nat) (r : Str) : lstrip (List.replicate n ' ' ++ r) = lstrip r := by
  apply lstrip_allws
  intro c hc
  rw [List.mem_replicate] at hc
  rw [hc.2]; decide

theorem split_lead (l : Str) : l = List.replicate (lead l) ' ' ++ l.drop (lead l) := by
  induction l with
  | nil => simp [lead]
  | cons c r ih =>
    by_cases hc : c = ' '
    · subst hc
      simp only [lead, if_true, List.replicate_succ, List.cons_append, List.drop_succ_cons]
      rw [← ih]
    · simp [lead, hc]

theorem lead_drop_lead (l : Str) : lead (l.drop (lead l)) = 0 := by
  induction l with
  | nil => simp [lead]
  | cons c r ih =>
    by_cases hc : c = ' '
    · subst hc
      simpa [lead] using ih
    · simp [lead, hc]

theorem lead_replicate_append (n : Nat) (r : Str) : lead (List.replicate n ' ' ++ r) = n + lead r := by
  induction n with
  | zero => simp
  | succ n ih => simp [List.replicate_succ, lead, ih]; omega

theorem strip_scaleLine (k : Nat) (l : Str) : strip (scaleLine k l) = strip l := by
  unfold strip scaleLine
  rw [lstrip_replicate_sp]
  conv => rhs; rw [split_lead l, lstrip_replicate_sp]

theorem lead_scaleLine (k : Nat) (l : Str) : lead (scaleLine k l) = k * lead l := by
  unfold scaleLine
  rw [lead_replicate_append, lead_drop_lead]; simp

theorem length_scaleLine (k : Nat) (l : Str) : (scaleLine k l).length = k * lead l + (l.length - lead l) := by
  simp [scaleLine]

theorem settle_scale (k : Nat) (st : St) (text : Str) (ind : Nat) :
    settle (scaleSt k st) text (k * ind) = (scaleSt k (settle st text ind).1, (settle st text ind).2.map (scaleRec k)) := by
  unfold settle
  by_cases h : wantsMore text = true
  · simp [h, scaleSt]
  · simp [h, scaleSt, scaleRec]

def liftRes (k : Nat) : Except Err (St × List Rec) → Except Err (St × List Rec)
  | .error e => .error e
  | .ok p => .ok (scaleSt k p.1, p.2.map (scaleRec k))

theorem liftRes_ite (k : Nat) (c : Prop) [Decidable c] (a b : Except Err (St × List Rec)) :
    liftRes k (if c then a else b) = if c then liftRes k a else liftRes k b := by
  split <;> rfl

theorem liftRes_ok (k : Nat) (p : St × List Rec) : liftRes k (.ok p) = .ok (scaleSt k p.1, p.2.map (scaleRec k)) := rfl
theorem liftRes_error (k : Nat) (e : Err) : liftRes k (.error e) = .error e := rfl

theorem stepV_scale (k : Nat) (st : St) (s : Str) (ld len len' : Nat)
    (hlen : isOpener s = true → len' - s.length = k * (len - s.length)) :
    stepV (scaleSt k st) s (k * ld) len' = liftRes k (stepV st s ld len) := by
  unfold stepV
  cases hp : st.pending with
  | some p =>
    obtain ⟨text, ind⟩ := p
    have key : ∀ X, settle (scaleSt k st) X (k * ind) = (scaleSt k (settle st X ind).1, (settle st X ind).2.map (scaleRec k)) :=
      fun X => settle_scale k st X ind
    simp only [scaleSt, hp, Option.map_some] at key ⊢
    simp only [liftRes_ite, liftRes_ok, liftRes_error, key, scaleSt]
  | none =>
    have key : ∀ X i, settle (scaleSt k st) X (k * i) = (scaleSt k (settle st X i).1, (settle st X i).2.map (scaleRec k)) :=
      fun X i => settle_scale k st X i
    cases hs : st.inString with
    | some q =>
      obtain ⟨cur, mind⟩ := q
      simp only [scaleSt, hp, hs, Option.map_some, Option.map_none]
      split <;> simp [liftRes, scaleSt, scaleRec]
    | none =>
      simp only [scaleSt, hp, hs, Option.map_none] at key ⊢
      by_cases ho : isOpener s = true
      · simp [ho, liftRes, scaleSt, hlen ho]
      · have hf : isOpener s = false := by simpa using ho
        simp only [hf, Bool.false_eq_true, if_false]
        simp only [liftRes_ite, liftRes_ok, key, scaleSt, hp, hs, Option.map_none, List.map_nil]
        cases st.comment <;> simp [liftRes_ite, liftRes_ok, liftRes_error, scaleSt]

theorem step_scale (k : Nat) (st : St) (l : Str) (h : openerTight l = true) :
    step (scaleSt k st) (scaleLine k l) = liftRes k (step st l) := by
  unfold step
  rw [strip_scaleLine, lead_scaleLine]
  apply stepV_scale
  intro ho
  have hl : l.length = lead l + (strip l).length := by
    simpa [openerTight, ho] using h
  rw [length_scaleLine, hl, Nat.add_sub_cancel_left, Nat.add_sub_cancel, Nat.add_sub_cancel]

theorem finish_scale (k : Nat) (st : St) : finish (scaleSt k st) = (finish st).map (List.map (scaleRec k)) := by
  unfold finish
  cases hp : st.pending with
  | some p =>
    obtain ⟨text, ind⟩ := p
    simp only [scaleSt, hp, Option.map_some]
    split <;> simp [Except.map, scaleRec]
  | none => simp [scaleSt, hp, Except.map]

theorem run_scale (k : Nat) (ls : List Str) (h : ∀ l ∈ ls, openerTight l = true) : ∀ st : St,
    run (scaleSt k st) (ls.map (scaleLine k)) = (run st ls).map (List.map (scaleRec k)) := by
  induction ls with
  | nil => intro st; simpa [run] using finish_scale k st
  | cons l ls ih =>
    intro st
    simp only [List.map_cons, run, step_scale k st l (h l (by simp))]
    cases hstep : step st l with
    | error e => simp [liftRes, Except.map]
    | ok p =>
      simp only [liftRes, ih (fun l' hl' => h l' (by simp [hl'])) p.1]
      cases run p.1 ls with
      | error e => simp [Except.map]
      | ok r => simp [Except.map]

theorem scaleSt_init (k : Nat) : scaleSt k St.init = St.init := rfl

/-- Scaling the leading spaces of every line by any factor `k` multiplies every record's `indentation` by `k` and changes
    nothing else (texts, comments, number of records, the error raised), provided every first line of a multi-line string
    is tight. -/
theorem numbered_scale (k : Nat) (ls : List Str) (h : ∀ l ∈ ls, openerTight l = true) :
    numbered (ls.map (scaleLine k)) = (numbered ls).map (List.map (scaleRec k)) := by
  unfold numbered
  have := run_scale k ls h St.init
  rwa [scaleSt_init] at this

/-! ### up to the indentation numbers, scaling changes nothing - unconditionally -/

def eraseSt (st : St) : St :=
  { st with inString := st.inString.map (fun p => (p.1, 0)), pending := st.pending.map (fun p => (p.1, 0)) }

def eraseRes : Except Err (St × List Rec) → Except Err (St × List Rec)
  | .error e => .error e
  | .ok p => .ok (eraseSt p.1, p.2.map eraseRec)

theorem eraseRes_ite (c : Prop) [Decidable c] (a b : Except Err (St × List Rec)) :
    eraseRes (if c then a else b) = if c then eraseRes a else eraseRes b := by
  split <;> rfl
theorem eraseRes_ok (p : St × List Rec) : eraseRes (.ok p) = .ok (eraseSt p.1, p.2.map eraseRec) := rfl
theorem eraseRes_error (e : Err) : eraseRes (.error e) = .error e := rfl

theorem settle_erase (mlc : Bool) (cm : Option Str) (ins pend ins' pend' : Option (Str × Nat)) (text : Str) (ind ind' : Nat)
    (hi : ins.map (fun p => (p.1, 0)) = ins'.map (fun p => (p.1, 0))) :
    eraseRes (.ok (settle ⟨mlc, cm, ins, pend⟩ text ind)) = eraseRes (.ok (settle ⟨mlc, cm, ins', pend'⟩ text ind')) := by
  unfold settle
  by_cases h : wantsMore text = true
  · simp [h, eraseRes, eraseSt, hi]
  · simp [h, eraseRes, eraseSt, eraseRec, hi]

/-- a step, up to indentation numbers, does not depend on the indentation numbers (state, leading spaces, raw length) -/
theorem stepV_erase (st : St) (s : Str) (ld len ld' len' : Nat) :
    eraseRes (stepV st s ld len) = eraseRes (stepV (eraseSt st) s ld' len') := by
  obtain ⟨mlc, cm, ins, pend⟩ := st
  cases pend with
  | some p =>
    obtain ⟨text, ind⟩ := p
    have key : ∀ X, eraseRes (.ok (settle ⟨mlc, cm, ins, some (text, ind)⟩ X ind)) =
        eraseRes (.ok (settle ⟨mlc, cm, ins.map (fun p => (p.1, 0)), some (text, 0)⟩ X 0)) :=
      fun X => settle_erase mlc cm ins _ _ _ X ind 0 (by cases ins <;> rfl)
    simp only [stepV, eraseSt, Option.map_some, eraseRes_ite, eraseRes_error, key]
  | none =>
    cases ins with
    | some q =>
      obtain ⟨cur, mind⟩ := q
      simp only [stepV, eraseSt, Option.map_some, Option.map_none]
      split <;> simp [eraseRes, eraseSt, eraseRec]
    | none =>
      have he : eraseSt ⟨mlc, cm, none, none⟩ = ⟨mlc, cm, none, none⟩ := rfl
      rw [he]
      simp only [stepV]
      by_cases ho : isOpener s = true
      · simp [ho, eraseRes, eraseSt]
      · have hf : isOpener s = false := by simpa using ho
        have key : ∀ X, eraseRes (.ok (settle ⟨mlc, cm, none, none⟩ X ld)) = eraseRes (.ok (settle ⟨mlc, cm, none, none⟩ X ld')) :=
          fun X => settle_erase mlc cm none none none none X ld ld' rfl
        simp only [hf, Bool.false_eq_true, if_false, eraseRes_ite, key]

theorem step_erase_scale (k : Nat) (st st' : St) (l : Str) (h : eraseSt st = eraseSt st') :
    eraseRes (step st' (scaleLine k l)) = eraseRes (step st l) := by
  unfold step
  rw [strip_scaleLine, stepV_erase st' _ _ _ 0 0, stepV_erase st _ _ _ 0 0, h]

theorem finish_erase (st st' : St) (h : eraseSt st = eraseSt st') : eraseOut (finish st) = eraseOut (finish st') := by
  obtain ⟨a, b, c, d⟩ := st
  obtain ⟨a', b', c', d'⟩ := st'
  simp only [eraseSt, St.mk.injEq] at h
  obtain ⟨h1, h2, _, h4⟩ := h
  subst h1; subst h2
  cases d with
  | none =>
    cases d' with
    | none => rfl
    | some p' => simp at h4
  | some p =>
    cases d' with
    | none => simp at h4
    | some p' =>
      obtain ⟨t, i⟩ := p
      obtain ⟨t', i'⟩ := p'
      simp only [Option.map_some, Option.some.injEq, Prod.mk.injEq, and_true] at h4
      subst h4
      simp only [finish, eraseOut]
      by_cases ho : endsWith t orSuffix = true
      · simp [ho, Except.map]
      · simp [ho, Except.map, eraseRec]

theorem run_erase_scale (k : Nat) (ls : List Str) : ∀ (st st' : St), eraseSt st = eraseSt st' →
    eraseOut (run st' (ls.map (scaleLine k))) = eraseOut (run st ls) := by
  induction ls with
  | nil => intro st st' h; simpa [run] using (finish_erase st st' h).symm
  | cons l ls ih =>
    intro st st' h
    have hs := step_erase_scale k st st' l h
    simp only [List.map_cons, run]
    cases h1 : step st' (scaleLine k l) with
    | error e =>
      cases h2 : step st l with
      | error e2 => simp [h1, h2, eraseRes] at hs; simp [eraseOut, Except.map, hs]
      | ok p => simp [h1, h2, eraseRes] at hs
    | ok p' =>
      cases h2 : step st l with
      | error e2 => simp [h1, h2, eraseRes] at hs
      | ok p =>
        simp only [h1, h2, eraseRes, Except.ok.injEq, Prod.mk.injEq] at hs
        have := ih p.1 p'.1 hs.1.symm
        simp only []
        cases h3 : run p'.1 (ls.map (scaleLine k)) <;> cases h4 : run p.1 ls <;>
          simp_all [eraseOut, Except.map]

/-- UNCONDITIONAL: scaling the leading spaces of every line by any factor never changes the texts, the comments, the number of records or the
    error raised - only indentation NUMBERS can change (how: `numbered_scale`). -/
theorem numbered_scale_erased (k : Nat) (ls : List Str) :
    eraseOut (numbered (ls.map (scaleLine k))) = eraseOut (numbered ls) :=
  run_erase_scale k ls St.init St.init rfl

end NemoVerif.NumberedLines
