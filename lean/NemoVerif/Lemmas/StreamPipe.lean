/-
  C18 — the `pipe_to` consumer view.  The piped (unconfigured) handler stops listening after the first end
  marker (`""` / `None`); the producer never forwards text after an end marker, so the consumer sees
  exactly the text the producer delivered.
-/
import NemoVerif.Lemmas.Stream
set_option linter.unusedSimpArgs false
namespace NemoVerif.Stream

/-- after the first end marker only end markers follow -/
def okOut : List (Option Str) → Prop
  | [] => True
  | x :: xs => if isEnd x = true then (∀ y ∈ xs, isEnd y = true) else okOut xs

/-- the items up to and including the first end marker -/
def takeThrough : List (Option Str) → List (Option Str)
  | [] => []
  | x :: xs => if isEnd x = true then [x] else x :: takeThrough xs

def deliveredOf (items : List (Option Str)) : Str := (items.map (fun o => o.getD [])).flatten

theorem isEnd_getD {y : Option Str} (h : isEnd y = true) : y.getD [] = [] := by
  cases y with
  | none => rfl
  | some c => simpa [isEnd] using h

theorem okOut_append_of_noend : ∀ {out : List (Option Str)} (y : Option Str), (∀ x ∈ out, isEnd x = false) → okOut (out ++ [y])
  | [], y, _ => by
    by_cases h : isEnd y = true <;> simp [okOut, h]
  | x :: xs, y, h => by
    have hx : isEnd x = false := h x (by simp)
    simp only [List.cons_append, okOut, hx, Bool.false_eq_true, if_false]
    exact okOut_append_of_noend y (fun z hz => h z (by simp [hz]))

theorem okOut_append_end : ∀ {out : List (Option Str)} {y : Option Str}, okOut out → isEnd y = true → okOut (out ++ [y])
  | [], y, _, hy => by simp [okOut, hy]
  | x :: xs, y, h, hy => by
    by_cases hx : isEnd x = true
    · simp only [okOut, hx, if_true] at h
      simp only [List.cons_append, okOut, hx, if_true]
      intro z hz
      rcases List.mem_append.1 hz with hz | hz
      · exact h z hz
      · simp at hz; subst hz; exact hy
    · simp only [okOut, hx, if_false] at h
      simp only [List.cons_append, okOut, hx, if_false]
      exact okOut_append_end h hy

theorem deliveredOf_all_end : ∀ {xs : List (Option Str)}, (∀ y ∈ xs, isEnd y = true) → deliveredOf xs = []
  | [], _ => rfl
  | x :: xs, h => by
    have := deliveredOf_all_end (xs := xs) (fun y hy => h y (by simp [hy]))
    simp only [deliveredOf] at this ⊢
    simp [isEnd_getD (h x (by simp)), this]

theorem deliveredOf_takeThrough : ∀ {items : List (Option Str)}, okOut items → deliveredOf (takeThrough items) = deliveredOf items
  | [], _ => rfl
  | x :: xs, h => by
    by_cases hx : isEnd x = true
    · simp only [okOut, hx, if_true] at h
      have := deliveredOf_all_end h
      simp only [deliveredOf] at this ⊢
      simp [takeThrough, hx, this]
    · simp only [okOut, hx, if_false] at h
      have := deliveredOf_takeThrough h
      simp only [deliveredOf] at this ⊢
      simp [takeThrough, hx, this]

/-! #### the piped handler -/

def c0 : Cfg := { pfx := [], suffix := [], stop := [] }

theorem push_c0 (t : St) (hp : t.pfx = []) (hf : t.finished = false) (it : Option Str) :
    (push c0 t it).out = t.out ++ [it] ∧ (push c0 t it).pfx = [] ∧ (push c0 t it).finished = isEnd it := by
  cases it with
  | none => simp [push, hf, hp, pushBody, c0, process, forward, isEnd]
  | some c =>
    by_cases hc : c = []
    · simp [push, hf, hp, pushBody, c0, process, processStr, cutStop_no_stops, forward, isEnd, hc]
    · simp [push, hf, hp, pushBody, c0, process, processStr, cutStop_no_stops, forward, isEnd, hc]

theorem foldl_push_finished (cfg : Cfg) : ∀ (items : List (Option Str)) (t : St), t.finished = true → items.foldl (push cfg) t = t
  | [], _, _ => rfl
  | it :: items, t, hf => by
    have : push cfg t it = t := by simp [push, hf]
    simp only [List.foldl_cons, this]
    exact foldl_push_finished cfg items t hf

theorem foldl_push_c0 : ∀ (items : List (Option Str)) (t : St), t.pfx = [] → t.finished = false →
    (items.foldl (push c0) t).out = t.out ++ takeThrough items
  | [], t, _, _ => by simp [takeThrough]
  | it :: items, t, hp, hf => by
    obtain ⟨h1, h2, h3⟩ := push_c0 t hp hf it
    simp only [List.foldl_cons, takeThrough]
    by_cases he : isEnd it = true
    · rw [foldl_push_finished c0 items _ (h3.trans he), h1]
      simp [he]
    · have he' : isEnd it = false := by simpa using he
      rw [foldl_push_c0 items _ h2 (h3.trans he'), h1]
      simp [he]

theorem pipeTarget_eq (items : List (Option Str)) : pipeTarget items = takeThrough items := by
  have := foldl_push_c0 items (init c0) rfl rfl
  simpa [pipeTarget, c0, init] using this

/-! #### the producer never forwards text after an end marker -/

structure J (cfg : Cfg) (s : St) : Prop where
  ok : okOut s.out
  noend : s.finished = false → ∀ x ∈ s.out, isEnd x = false
  curfin : s.finished = true → s.cur = []
  mode : cfg.suffix = [] → cfg.stop = [] → s.pfx = [] → s.cur = []

/-- what `_process(str)` can do to the queue -/
theorem processStr_cases (cfg : Cfg) (s : St) (x : Str) :
    ((processStr cfg s x).finished = true ∧ (processStr cfg s x).cur = [] ∧
        ((processStr cfg s x).out = s.out ∨ ∃ n, n ≠ [] ∧ x ≠ [] ∧ (processStr cfg s x).out = s.out ++ [some n])) ∨
    ((processStr cfg s x).out = s.out ++ [some x] ∧ (processStr cfg s x).cur = s.cur ∧
        (processStr cfg s x).finished = (s.finished || decide (x = []))) := by
  cases h : cutStop cfg.stop (s.completion ++ x) with
  | some u =>
    left
    simp only [processStr, h]
    by_cases hl : (stripSuffix cfg.suffix u).length > s.completion.length
    · have hx : x ≠ [] := by
        intro hx
        have h1 : (stripSuffix cfg.suffix u).length ≤ u.length := (stripSuffix_prefix _ _).length_le
        have h2 : u.length ≤ (s.completion ++ x).length := (cutStop_prefix h).length_le
        simp [hx] at h2
        omega
      have hn : (stripSuffix cfg.suffix u).drop s.completion.length ≠ [] := by
        intro e
        have := congrArg List.length e
        simp at this
        omega
      simp only [hl, if_true, forward]
      exact ⟨trivial, trivial, Or.inr ⟨_, hn, hx, rfl⟩⟩
    · simp only [hl, if_false]
      exact ⟨trivial, trivial, Or.inl trivial⟩
  | none =>
    right
    have := processStr_nostop cfg s x h
    simp only [processStr, h]
    by_cases hx : x = [] <;> simp [hx, forward]

theorem j_release {cfg : Cfg} {s : St} (hj : J cfg s) (x : Str) (hfx : s.finished = false ∨ x = []) : J cfg (release cfg s x) := by
  unfold release
  rcases processStr_cases cfg s x with ⟨h1, _, h3⟩ | ⟨h1, _, h3⟩
  · refine ⟨?_, ?_, fun _ => rfl, fun _ _ _ => rfl⟩
    · show okOut (processStr cfg s x).out
      rcases h3 with h3 | ⟨n, _, hx, h3⟩
      · rw [h3]; exact hj.ok
      · rw [h3]
        rcases hfx with hf | hx'
        · exact okOut_append_of_noend _ (hj.noend hf)
        · exact absurd hx' hx
    · intro hf
      have : (processStr cfg s x).finished = false := hf
      rw [h1] at this; cases this
  · refine ⟨?_, ?_, fun _ => rfl, fun _ _ _ => rfl⟩
    · show okOut (processStr cfg s x).out
      rw [h1]
      by_cases hf : s.finished = false
      · exact okOut_append_of_noend _ (hj.noend hf)
      · rcases hfx with hf' | hx
        · exact absurd hf' hf
        · exact okOut_append_end hj.ok (by simp [isEnd, hx])
    · intro hf
      have hf' : (processStr cfg s x).finished = false := hf
      rw [h3] at hf'
      have hsf : s.finished = false := by cases hs : s.finished <;> simp [hs] at hf' ⊢
      have hx : x ≠ [] := by intro hx; simp [hx] at hf'
      show ∀ y ∈ (processStr cfg s x).out, isEnd y = false
      rw [h1]
      intro y hy
      rcases List.mem_append.1 hy with hy | hy
      · exact hj.noend hsf y hy
      · simp at hy; subst hy; simp [isEnd, hx]

theorem j_pushBody {cfg : Cfg} {s : St} (hj : J cfg s) (hf : s.finished = false) (hp : s.pfx = []) (chunk : Option Str) :
    J cfg (pushBody cfg s chunk) := by
  unfold pushBody
  by_cases hm : cfg.suffix ≠ [] ∨ cfg.stop ≠ []
  · simp only [hm, if_true]
    split
    · refine ⟨hj.ok, hj.noend, fun h => ?_, fun h1 h2 _ => ?_⟩
      · have : s.finished = true := h
        rw [hf] at this; cases this
      · rcases hm with h | h
        · exact absurd h1 h
        · exact absurd h2 h
    · exact j_release hj _ (Or.inl hf)
  · simp only [hm, if_false]
    have hm' : cfg.suffix = [] ∧ cfg.stop = [] := by
      constructor
      · exact Classical.byContradiction fun h => hm (Or.inl h)
      · exact Classical.byContradiction fun h => hm (Or.inr h)
    have hcur := hj.mode hm'.1 hm'.2 hp
    cases chunk with
    | none =>
      simp only [process]
      refine ⟨?_, ?_, fun _ => hcur, fun _ _ _ => hcur⟩
      · show okOut (s.out ++ [none])
        exact okOut_append_of_noend _ (hj.noend hf)
      · intro h; cases h
    | some c =>
      have hrel := j_release hj c (Or.inl hf)
      simp only [process]
      have hc2 : (processStr cfg s c).cur = [] := by
        rcases processStr_cases cfg s c with ⟨_, h2, _⟩ | ⟨_, h2, _⟩
        · exact h2
        · rw [h2, hcur]
      exact ⟨hrel.ok, hrel.noend, fun _ => hc2, fun _ _ _ => hc2⟩

theorem j_push {cfg : Cfg} {s : St} (hj : J cfg s) (chunk : Option Str) : J cfg (push cfg s chunk) := by
  obtain ⟨spfx, scur, scomp, sout, sfin⟩ := s
  unfold push
  cases sfin with
  | true => simpa using hj
  | false =>
    simp only [Bool.false_eq_true, if_false]
    by_cases hp : spfx = []
    · subst hp
      simp only [ne_eq, not_true_eq_false, if_false]
      exact j_pushBody hj rfl rfl chunk
    · simp only [hp, ne_eq, not_false_eq_true, if_true]
      split
      · exact ⟨hj.ok, hj.noend, fun h => (by cases h), fun _ _ h => absurd h hp⟩
      · have hj1 : J cfg ⟨[], [], scomp, sout, false⟩ := ⟨hj.ok, hj.noend, fun _ => rfl, fun _ _ _ => rfl⟩
        split
        · exact hj1
        · exact j_pushBody hj1 rfl rfl _

theorem j_feed {cfg : Cfg} : ∀ (cs : List Str) {s : St}, J cfg s → J cfg (feed cfg s cs)
  | [], _, h => h
  | c :: cs, _, h => by
    simp only [feed, List.foldl_cons]
    exact j_feed cs (j_push h (some c))

theorem j_endLlm_ok {cfg : Cfg} {s : St} (hj : J cfg s) : okOut (endLlm cfg s).out := by
  unfold endLlm
  have hj1 : J cfg (if s.cur ≠ [] then release cfg s (removeSuffixAtEnd cfg s.completion s.cur) else s) := by
    by_cases hc : s.cur = []
    · simp only [hc, ne_eq, not_true_eq_false, if_false]; exact hj
    · simp only [hc, ne_eq, not_false_eq_true, if_true]
      have hf : s.finished = false := by
        cases h : s.finished with
        | false => rfl
        | true => exact absurd (hj.curfin h) hc
      exact j_release hj _ (Or.inl hf)
  exact (j_release hj1 [] (Or.inr rfl)).ok

theorem run_okOut (cfg : Cfg) (cs : List Str) (e : EndProto) : okOut (run cfg cs e).out := by
  have h0 : J cfg (init cfg) := ⟨trivial, fun _ x hx => (by cases hx), fun h => (by cases h), fun _ _ _ => rfl⟩
  have hf := j_feed cs h0 (cfg := cfg)
  unfold run
  cases e with
  | empty => exact (j_push hf _).ok
  | none => exact (j_push hf _).ok
  | llmEnd => exact j_endLlm_ok hf
  | emptyLlmEnd => exact j_endLlm_ok (j_push hf _)

end NemoVerif.Stream
