/-
  C06 / refinement CoreVM → Lifetime, part 9b: a whole `slide` call.  For a flow whose elements are scope elements, labels,
  effect-free elements and (stopping) match / other-op elements, every iteration of `CoreVM.slideLoop` is a refined step or leaves
  the state alone: `slide` IS a sequence of refined steps, hence keeps the hierarchy part of the lifetime invariant.
-/
import NemoVerif.Lemmas.LifetimeCoreVM9
namespace NemoVerif.Lifetime.Refine
open NemoVerif NemoVerif.CoreVM NemoVerif.CoreIndex NemoVerif.Lifetime

theorem slideStep_match (fuel : Nat) (f : FUid) (h : HUid) (vm : VM) (cfg : FlowCfg) (hd : Head) (spec : Spec) (b : Bool)
    (hcfg : cfgOfInst f vm = .ok cfg vm) (hhd : getHead? (f, h) vm = .ok (some hd) vm)
    (hpos : ¬ (hd.pos ≥ cfg.elements.size ∨ hd.status = .inactive))
    (hel : cfg.elements[hd.pos]! = .matchOp spec b) :
    slideStep fuel f h vm = .ok (true, []) vm := by
  unfold slideStep
  simp only [bind, EStateM.bind, hcfg, hhd]
  have hp : (decide (hd.pos ≥ cfg.elements.size) || decide (hd.status = HeadStatus.inactive)) = false := by
    cases hb : (decide (hd.pos ≥ cfg.elements.size) || decide (hd.status = HeadStatus.inactive)) with
    | false => rfl
    | true => exact absurd (by simpa using hb) hpos
  rw [hp, hel]
  rfl

theorem slideStep_otherOp (fuel : Nat) (f : FUid) (h : HUid) (vm : VM) (cfg : FlowCfg) (hd : Head) (op : String)
    (hcfg : cfgOfInst f vm = .ok cfg vm) (hhd : getHead? (f, h) vm = .ok (some hd) vm)
    (hpos : ¬ (hd.pos ≥ cfg.elements.size ∨ hd.status = .inactive))
    (hel : cfg.elements[hd.pos]! = .otherOp op) :
    slideStep fuel f h vm = .ok (true, []) vm := by
  unfold slideStep
  simp only [bind, EStateM.bind, hcfg, hhd]
  have hp : (decide (hd.pos ≥ cfg.elements.size) || decide (hd.status = HeadStatus.inactive)) = false := by
    cases hb : (decide (hd.pos ≥ cfg.elements.size) || decide (hd.status = HeadStatus.inactive)) with
    | false => rfl
    | true => exact absurd (by simpa using hb) hpos
  rw [hp, hel]
  rfl

theorem slideStep_end (fuel : Nat) (f : FUid) (h : HUid) (vm : VM) (cfg : FlowCfg) (hd : Head)
    (hcfg : cfgOfInst f vm = .ok cfg vm) (hhd : getHead? (f, h) vm = .ok (some hd) vm)
    (hpos : (hd.pos ≥ cfg.elements.size ∨ hd.status = .inactive)) :
    slideStep fuel f h vm = .ok (true, []) vm := by
  unfold slideStep
  simp only [bind, EStateM.bind, hcfg, hhd]
  have hp : (decide (hd.pos ≥ cfg.elements.size) || decide (hd.status = HeadStatus.inactive)) = true := by
    simpa using hpos
  rw [hp]
  rfl

theorem slideStep_nohead (fuel : Nat) (f : FUid) (h : HUid) (vm : VM) (cfg : FlowCfg)
    (hcfg : cfgOfInst f vm = .ok cfg vm) (hhd : getHead? (f, h) vm = .ok none vm) :
    slideStep fuel f h vm = .ok (true, []) vm := by
  unfold slideStep
  simp only [bind, EStateM.bind, hcfg, hhd]
  rfl

theorem slideStep_nocfg (fuel : Nat) (f : FUid) (h : HUid) (vm : VM) (e : VMErr) (s : VM)
    (hcfg : cfgOfInst f vm = .error e s) : slideStep fuel f h vm = .error e s := by
  unfold slideStep
  simp only [bind, EStateM.bind, hcfg]

/-- the elements `slide` may meet in flow `f`: scope elements, labels, `send` elements, conditional jumps, assignments, effect-free elements, and the
    elements that stop the slide -/
def SlideElem : Prim → Prop
  | .endScope _ | .beginScope _ | .label _ | .other | .matchOp _ _ | .otherOp _ | .sendOp _ | .goto _ _ | .assign _ _ => True
  | _ => False

variable (ν φ : String → Nat)

/-- hypotheses on flow `f`, for every state: its elements are `SlideElem`s, its scope dict has unique keys, the name oracle of every
    position, the event construction of every `send` element and every expression evaluation are frames -/
structure SlideHyp (f : FUid) : Prop where
  elems : ∀ vm cfg, cfgOfInst f vm = .ok cfg vm → ∀ pos, pos < cfg.elements.size → SlideElem cfg.elements[pos]!
  scopes : ∀ (vm : VM) x, OMap.lookup f vm.r.fx = some x → (x.scopes.map (·.1)).Nodup
  names : ∀ p, NameRO f p
  events : ∀ spec, EventFrame f spec
  exprs : ∀ e, ExprFrame f e

/-- one iteration of `slideLoop` is a refined step, or leaves the state alone -/
theorem slideStep_refined (f : FUid) (h : HUid) (hyp : SlideHyp f) (fuel : Nat) (vm vm' : VM) (r : Bool × List Key)
    (hrun : slideStep fuel f h vm = .ok r vm') : vm' = vm ∨ RefinedStep ν φ vm vm' := by
  cases hcfg : cfgOfInst f vm with
  | error e s => rw [slideStep_nocfg fuel f h vm e s hcfg] at hrun; cases hrun
  | ok cfg s =>
    have hs := readOnly_cfgOfInst f vm cfg s hcfg
    subst hs
    have hhd : getHead? (f, h) s = .ok ((findInst s.ixs.ix f).bind (·.findHead h)) s := rfl
    cases hh : (findInst s.ixs.ix f).bind (·.findHead h) with
    | none =>
      rw [hh] at hhd
      rw [slideStep_nohead fuel f h s cfg hcfg hhd] at hrun
      cases hrun; exact Or.inl rfl
    | some hd =>
      rw [hh] at hhd
      by_cases hpos : (hd.pos ≥ cfg.elements.size ∨ hd.status = .inactive)
      · rw [slideStep_end fuel f h s cfg hd hcfg hhd hpos] at hrun
        cases hrun; exact Or.inl rfl
      · have hlt : hd.pos < cfg.elements.size := by
          have := fun hge => hpos (Or.inl hge)
          omega
        have hel := hyp.elems s cfg hcfg hd.pos hlt
        cases hprim : cfg.elements[hd.pos]! with
        | endScope name =>
          exact Or.inr (.op (.endScope fuel f h cfg hd name r s vm' hcfg hhd hpos hprim (hyp.scopes s) (hyp.names _) hrun))
        | beginScope name =>
          exact Or.inr (.op (.beginScope fuel f h cfg hd name r s vm' hcfg hhd hpos hprim (hyp.names _) hrun))
        | label name =>
          by_cases hn : name = "start_new_flow_instance"
          · subst hn
            exact Or.inr (.op (.label fuel f h cfg hd r s vm' hcfg hhd hpos hprim (hyp.names _) hrun))
          · exact Or.inr (.op (.labelOther fuel f h cfg hd name r s vm' hcfg hhd hpos hprim hn (hyp.names _) hrun))
        | other =>
          exact Or.inr (.op (.other fuel f h cfg hd r s vm' hcfg hhd hpos hprim (hyp.names _) hrun))
        | sendOp spec =>
          exact Or.inr (.op (.send fuel f h cfg hd spec r s vm' hcfg hhd hpos hprim (hyp.events spec) (hyp.names _) hrun))
        | goto e label =>
          exact Or.inr (.op (.goto fuel f h cfg hd e label r s vm' hcfg hhd hpos hprim (hyp.exprs e) hyp.names hrun))
        | assign key e =>
          exact Or.inr (.op (.assign fuel f h cfg hd key e r s vm' hcfg hhd hpos hprim (hyp.exprs e) (hyp.names _) hrun))
        | matchOp spec b =>
          rw [slideStep_match fuel f h s cfg hd spec b hcfg hhd hpos hprim] at hrun
          cases hrun; exact Or.inl rfl
        | otherOp op =>
          rw [slideStep_otherOp fuel f h s cfg hd op hcfg hhd hpos hprim] at hrun
          cases hrun; exact Or.inl rfl
        | _ => rw [hprim] at hel; exact absurd hel (by simp [SlideElem])

theorem RefinedSteps.trans' {vm1 vm2 vm3 : VM} (a : RefinedSteps ν φ vm1 vm2) (b : RefinedSteps ν φ vm2 vm3) : RefinedSteps ν φ vm1 vm3 := by
  induction b with
  | refl => exact a
  | tail _ st ih => exact .tail ih st

/-- **a whole `slide` call IS a sequence of refined steps** -/
theorem slideLoop_refined (f : FUid) (h : HUid) (hyp : SlideHyp f) : ∀ (fuel : Nat) (acc : List Key) (vm vm' : VM) (r : List Key),
    slideLoop fuel f h acc vm = .ok r vm' → RefinedSteps ν φ vm vm'
  | 0, _, _, _, _, hrun => by simp only [slideLoop] at hrun; cases hrun
  | fuel + 1, acc, vm, vm', r, hrun => by
    simp only [slideLoop, bind, EStateM.bind] at hrun
    cases hst : slideStep fuel f h vm with
    | error e s => rw [hst] at hrun; cases hrun
    | ok res vm1 =>
      rw [hst] at hrun
      obtain ⟨stop, nh⟩ := res
      simp only at hrun
      have h1 : RefinedSteps ν φ vm vm1 := by
        rcases slideStep_refined ν φ f h hyp fuel vm vm1 _ hst with e | st
        · rw [e]; exact .refl _
        · exact .tail (.refl _) st
      cases stop with
      | true =>
        simp only [if_true, pure, EStateM.pure] at hrun
        cases hrun
        exact h1
      | false =>
        simp only [Bool.false_eq_true, if_false] at hrun
        exact RefinedSteps.trans' ν φ h1 (slideLoop_refined f h hyp fuel _ vm1 vm' r hrun)

/-- `slide` keeps the hierarchy part of the lifetime invariant (under `SlideHyp`) -/
theorem corevm_slide_hierarchy_inv (hν : Function.Injective ν) (hφ : Function.Injective φ) (f : FUid) (h : HUid) (hyp : SlideHyp f)
    (fuel : Nat) (vm vm' : VM) (r : List Key) (hw : WF vm) (hf : FlowInv (absVM ν φ vm)) (hl : LinkInv (absVM ν φ vm))
    (hrun : slide fuel f h vm = .ok r vm') :
    WF vm' ∧ FlowInv (absVM ν φ vm') ∧ LinkInv (absVM ν φ vm') :=
  corevm_hierarchy_invariant_partial ν φ hν hφ vm vm' hw hf hl (slideLoop_refined ν φ f h hyp fuel [] vm vm' r hrun)

end NemoVerif.Lifetime.Refine
