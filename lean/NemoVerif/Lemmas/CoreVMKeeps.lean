/-
  C09 / CoreVM — one preservation lemma per model function for an arbitrary state invariant (`StInv`):
  which index operations a function may emit is the only thing that matters.
    * `EndOp`  — the operations of `_abort_flow` / `_finish_flow` / `add_new_flow_instance`
    * every operation except `flow_state.status = STOPPING` — everything else; the `Abort` element of `slide`
      is the only place that emits that one.
-/
import NemoVerif.Lemmas.CoreVMHoare

open NemoVerif NemoVerif.CoreIndex
open Std.Do
set_option mvcgen.warning false

namespace NemoVerif.CoreVM

attribute [local spec] applyOp_keeps forInL_keeps mapM_keeps getRest_keeps getIx_keeps pyRaise_keeps unsupported_keeps modifyRest_keeps freshUid_keeps getInst?_keeps getInst_keeps getInstX?_keeps getInstX_keeps modInstX_keeps ctxHolder_keeps getCtx_keeps setCtxVar_keeps getHead?_keeps getHeadX_keeps modHeadX_keeps getCfg_keeps cfgOfInst_keeps getAction?_keeps setAction_keeps pushEvent_keeps pushLeftEvent_keeps valueErr_keeps lookupVar_keeps attrOf_keeps evalExpr_keeps evalIn_keeps evalEmpty_keeps evalArgs_keeps

/-- operations emitted by `_abort_flow`, `_finish_flow` and their helpers -/
def EndOp : Op → Prop
  | .dropHeads _ => True
  | .setFlowStatus _ st => st = .stopped ∨ st = .finished
  | .mainRestart _ _ _ => True
  | _ => False

/-- every operation except `flow_state.status = STOPPING` -/
def NotStoppingOp : Op → Prop
  | .setFlowStatus _ st => st ≠ .stopping
  | _ => True

theorem EndOp.notStopping {op : Op} (h : EndOp op) : NotStoppingOp op := by
  cases op <;> simp_all [EndOp, NotStoppingOp]
  rcases h with h | h <;> simp [h]

section events
variable (I : StInv)

theorem attemptPy_keeps {α} (x : M α) (hx : Keeps I x) : Keeps I (attemptPy x) := by
  unfold attemptPy; mvcgen [hx]
attribute [local spec] attemptPy_keeps

theorem instanceArguments_keeps (c a) : Keeps I (instanceArguments c a) := by
  unfold instanceArguments; simp only [forIn_eq_forInL]; mvcgen
attribute [local spec] instanceArguments_keeps
theorem flowObjOf_keeps (f) : Keeps I (flowObjOf f) := by
  unfold flowObjOf; mvcgen
attribute [local spec] flowObjOf_keeps
theorem flowStartEvent_keeps (o a) : Keeps I (flowStartEvent o a) := by
  unfold flowStartEvent; mvcgen
attribute [local spec] flowStartEvent_keeps
theorem flowGetEvent_keeps (o n a) : Keeps I (flowGetEvent o n a) := by
  unfold flowGetEvent; mvcgen
attribute [local spec] flowGetEvent_keeps
theorem actionGetEvent_keeps (o n a) : Keeps I (actionGetEvent o n a) := by
  unfold actionGetEvent; mvcgen
attribute [local spec] actionGetEvent_keeps
theorem tempAction_keeps (n a) : Keeps I (tempAction n a) := by
  unfold tempAction; mvcgen
attribute [local spec] tempAction_keeps
theorem tempFlowObj_keeps (n) : Keeps I (tempFlowObj n) := by
  unfold tempFlowObj; mvcgen
attribute [local spec] tempFlowObj_keeps
theorem resolveRef_keeps (f s v) : Keeps I (resolveRef f s v) := by
  unfold resolveRef; mvcgen
attribute [local spec] resolveRef_keeps
theorem getEventName_keeps (f s) : Keeps I (getEventName f s) := by
  unfold getEventName; mvcgen
attribute [local spec] getEventName_keeps
theorem getEvent_keeps (f s b) : Keeps I (getEvent f s b) := by
  unfold getEvent; mvcgen
attribute [local spec] getEvent_keeps
theorem eventMatchingScore_keeps (f s e) : Keeps I (eventMatchingScore f s e) := by
  unfold eventMatchingScore; mvcgen
attribute [local spec] eventMatchingScore_keeps
theorem updateActionStatusByEvent_keeps (e) : Keeps I (updateActionStatusByEvent e) := by
  unfold updateActionStatusByEvent; simp only [forIn_eq_forInL]; mvcgen
attribute [local spec] updateActionStatusByEvent_keeps
theorem generateUmimEvent_keeps (e) : Keeps I (generateUmimEvent e) := by
  unfold generateUmimEvent; mvcgen
  all_goals rest_frame
attribute [local spec] generateUmimEvent_keeps
theorem releaseAction_keeps (a) : Keeps I (releaseAction a) := by
  unfold releaseAction; mvcgen
attribute [local spec] releaseAction_keeps

end events

/-! ### `_abort_flow`, `_finish_flow` and helpers: only `EndOp`s -/
section endops
attribute [local spec] attemptPy_keeps instanceArguments_keeps flowObjOf_keeps flowStartEvent_keeps flowGetEvent_keeps actionGetEvent_keeps tempAction_keeps tempFlowObj_keeps resolveRef_keeps getEventName_keeps getEvent_keeps eventMatchingScore_keeps updateActionStatusByEvent_keeps generateUmimEvent_keeps releaseAction_keeps
variable (I : StInv) (hend : ∀ op, EndOp op → I.okOp op)
include hend

theorem setFlowStatus_end_keeps (f st) (h : st = .stopped ∨ st = .finished) : Keeps I (setFlowStatus f st) := by
  unfold setFlowStatus; mvcgen
  · exact hend _ h
  · rest_frame
theorem dropHeads_keeps (f) : Keeps I (dropHeads f) := by
  unfold dropHeads; mvcgen
  · exact hend _ trivial
  · rest_frame
omit hend in
theorem isReferenceActivated_keeps (f) : Keeps I (isReferenceActivated f) := by
  unfold isReferenceActivated; mvcgen
attribute [local spec] isReferenceActivated_keeps
omit hend in
theorem deactivatesRef_keeps (d f) : Keeps I (deactivatesRef d f) := by
  unfold deactivatesRef; mvcgen
attribute [local spec] deactivatesRef_keeps
omit hend in
theorem isChildActivated_keeps (f) : Keeps I (isChildActivated f) := by
  unfold isChildActivated; mvcgen
attribute [local spec] isChildActivated_keeps
omit hend in
theorem failedEvent_keeps (f sc) : Keeps I (failedEvent f sc) := by
  unfold failedEvent; mvcgen
attribute [local spec] failedEvent_keeps
omit hend in
theorem restartActivated_keeps (f sc d) : Keeps I (restartActivated f sc d) := by
  unfold restartActivated; mvcgen
  all_goals rest_frame
attribute [local spec] restartActivated_keeps

theorem abortFlow_keeps : ∀ fuel f sc d, Keeps I (abortFlow fuel f sc d)
  | 0, f, sc, d => by unfold abortFlow; mvcgen
  | fuel + 1, f, sc, d => by
    have ih := abortFlow_keeps fuel
    unfold abortFlow
    simp only [forIn_eq_forInL]
    mvcgen [ih, setFlowStatus_end_keeps, dropHeads_keeps]
    all_goals (first | exact hend | rest_frame | (intros; simp))

omit hend in
theorem flowHierarchy_keeps : ∀ fuel f, Keeps I (flowHierarchy fuel f)
  | 0, f => by unfold flowHierarchy; mvcgen
  | fuel + 1, f => by
    have ih := flowHierarchy_keeps fuel
    unfold flowHierarchy; mvcgen [ih]
omit hend in
theorem logActionOrIntents_keeps (fuel f sc) : Keeps I (logActionOrIntents fuel f sc) := by
  unfold logActionOrIntents; simp only [forIn_eq_forInL]; mvcgen [flowHierarchy_keeps]
attribute [local spec] logActionOrIntents_keeps

theorem finishFlow_keeps (fuel f sc d) : Keeps I (finishFlow fuel f sc d) := by
  unfold finishFlow
  simp only [forIn_eq_forInL]
  mvcgen [abortFlow_keeps, setFlowStatus_end_keeps, dropHeads_keeps]
  all_goals (first | exact hend | rest_frame | (intros; simp [EndOp]) | (intros; apply hend; simp [EndOp]))

end endops

/-- closes the side conditions left by `mvcgen` for a `Keeps` goal: frame conditions and admissible operations -/
macro "keeps_side" h:term : tactic => `(tactic| (
  intros
  first
  | rest_frame
  | (apply $h; simp [NotStoppingOp, EndOp])
  | assumption
  | simp))

/-! ### everything that moves heads: any operation except `status = STOPPING` -/
section moves
attribute [local spec] attemptPy_keeps instanceArguments_keeps flowObjOf_keeps flowStartEvent_keeps flowGetEvent_keeps actionGetEvent_keeps tempAction_keeps tempFlowObj_keeps resolveRef_keeps getEventName_keeps getEvent_keeps eventMatchingScore_keeps updateActionStatusByEvent_keeps generateUmimEvent_keeps releaseAction_keeps isReferenceActivated_keeps deactivatesRef_keeps isChildActivated_keeps failedEvent_keeps restartActivated_keeps logActionOrIntents_keeps
variable (I : StInv) (hall : ∀ op, NotStoppingOp op → I.okOp op)
include hall

theorem hend_of_hall : ∀ op, EndOp op → I.okOp op := fun op h => hall op h.notStopping

omit hall in
theorem nameFor_keeps (f p st) : Keeps I (nameFor f p st) := by
  unfold nameFor; mvcgen
attribute [local spec] nameFor_keeps
theorem setHeadPos_keeps (k p) : Keeps I (setHeadPos k p) := by
  unfold setHeadPos; mvcgen
  all_goals keeps_side hall
theorem setHeadStatus_keeps (k p) : Keeps I (setHeadStatus k p) := by
  unfold setHeadStatus; mvcgen
  all_goals keeps_side hall
omit hall in
theorem setFlowStatus_keeps (f st) (h : I.okOp (.setFlowStatus f st)) : Keeps I (setFlowStatus f st) := by
  unfold setFlowStatus; mvcgen
  all_goals (first | (intros; exact h) | rest_frame)
omit hall in
theorem headScores_keeps (k) : Keeps I (headScores k) := by
  unfold headScores; mvcgen
attribute [local spec] headScores_keeps
omit hall in
theorem headKeyScores_keeps (k) : Keeps I (headKeyScores k) := by
  unfold headKeyScores; mvcgen
attribute [local spec] headKeyScores_keeps
omit hall in
theorem labelPos_keeps (c l) : Keeps I (labelPos c l) := by
  unfold labelPos; mvcgen
attribute [local spec] labelPos_keeps
omit hall in
theorem childHeadUids_keeps : ∀ fuel f h, Keeps I (childHeadUids fuel f h)
  | 0, f, h => by unfold childHeadUids; mvcgen
  | fuel + 1, f, h => by
    have ih := childHeadUids_keeps fuel
    unfold childHeadUids; simp only [forIn_eq_forInL]; mvcgen [ih]
omit hall in
theorem pickChoice_keeps (n) : Keeps I (pickChoice n) := by
  unfold pickChoice; mvcgen
  all_goals rest_frame
attribute [local spec] pickChoice_keeps

/-- `slide`, one step: the `Abort` element is the only place that writes `status = STOPPING` (for the flow `f` itself) -/
theorem slideStep_keeps (fuel f h) (hstop : I.okOp (.setFlowStatus f .stopping)) : Keeps I (slideStep fuel f h) := by
  have hend := hend_of_hall I hall
  unfold slideStep
  simp only [forIn_eq_forInL]
  mvcgen [abortFlow_keeps, childHeadUids_keeps, setHeadPos_keeps, setHeadStatus_keeps, setFlowStatus_keeps, dropHeads_keeps]
  all_goals (first | (intros; exact hstop) | keeps_side hall)

theorem slideLoop_keeps (f h) (hstop : I.okOp (.setFlowStatus f .stopping)) : ∀ fuel acc, Keeps I (slideLoop fuel f h acc)
  | 0, acc => by unfold slideLoop; mvcgen
  | fuel + 1, acc => by
    have ih := slideLoop_keeps f h hstop fuel
    unfold slideLoop; mvcgen [ih, slideStep_keeps]
    all_goals (first | (intros; exact hstop) | keeps_side hall)

theorem slide_keeps (fuel f h) (hstop : I.okOp (.setFlowStatus f .stopping)) : Keeps I (slide fuel f h) := by
  unfold slide; exact slideLoop_keeps I hall f h hstop fuel []

end moves

end NemoVerif.CoreVM
