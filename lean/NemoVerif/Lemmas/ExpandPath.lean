/-
  C12 (Colang 2.x) — path-level safety of ALL expansions of `when`-free programs:
  every generated piece carries a state annotation (handler stack + open scopes per position, one state per position);
  `Lemmas/Closed.lean::annot_sound` turns a consistent annotation into safety on every execution.
  Part 1: algebra of annotated pieces.
-/
import NemoVerif.Lemmas.Expand
namespace NemoVerif.Expand
open NemoVerif.Closed

abbrev S := St Lbl
abbrev AP := APrim Lbl

/-- `ext`: labels outside the piece that it may jump to, each with the state the head has when it jumps -/
def ExtOK (R : Lbl → S → Prop) (ext : List (Lbl × S)) : Prop := ∀ x ∈ ext, R x.1 x.2

/-- every label occurrence of the annotated piece is accepted by `R` with its annotation -/
def OwnOK (R : Lbl → S → Prop) (ap : List AP) : Prop := ∀ l st, (Prim.label l, st) ∈ ap → R l st

/-- the innermost failure handler of the entry state is one of the allowed external targets -/
def TopIn (ext : List (Lbl × S)) (st : S) : Prop := ∀ l rest, st.h = l :: rest → (l, st) ∈ ext

/-- annotated piece: entered in `st`, left (at its end) in `st'` -/
structure PathIO (ext : List (Lbl × S)) (st st' : S) (out : List (Prim Lbl)) (ap : List AP) : Prop where
  erase : ap.map Prod.fst = out
  entry : entryOf ap st' = st
  chain : ∀ R : Lbl → S → Prop, OwnOK R ap → ExtOK R ext → Chain R ap st'
  /-- all occurrences of a label carry the same annotation -/
  lc : ∀ l s1 s2, (Prim.label l, s1) ∈ ap → (Prim.label l, s2) ∈ ap → s1 = s2

theorem chain_append (R : Lbl → S → Prop) : ∀ (a b : List AP) (ex : S),
    Chain R (a ++ b) ex ↔ Chain R a (entryOf b ex) ∧ Chain R b ex := by
  intro a
  induction a with
  | nil => intro b ex; simp [Chain]
  | cons x r ih =>
    intro b ex
    obtain ⟨e, st⟩ := x
    simp only [List.cons_append, Chain, ih]
    have : entryOf (r ++ b) ex = entryOf r (entryOf b ex) := by cases r <;> rfl
    rw [this]
    exact ⟨fun ⟨h1, h2, h3⟩ => ⟨⟨h1, h2⟩, h3⟩, fun ⟨⟨h1, h2⟩, h3⟩ => ⟨h1, h2, h3⟩⟩

theorem mem_erase_label (ap : List AP) (l : Lbl) (st : S) (h : (Prim.label l, st) ∈ ap) :
    Prim.label l ∈ ap.map Prod.fst := List.mem_map.2 ⟨_, h, rfl⟩

theorem path_nil (ext : List (Lbl × S)) (st : S) : PathIO ext st st [] [] :=
  ⟨rfl, rfl, fun _ _ _ => trivial, by simp⟩

theorem path_append (ext : List (Lbl × S)) (s0 s1 s2 : S) (a b : List (Prim Lbl)) (apa apb : List AP)
    (ha : PathIO ext s0 s1 a apa) (hb : PathIO ext s1 s2 b apb)
    (hdis : ∀ l, Prim.label l ∈ a → Prim.label l ∈ b → False) : PathIO ext s0 s2 (a ++ b) (apa ++ apb) := by
  refine ⟨by rw [List.map_append, ha.erase, hb.erase], ?_, ?_, ?_⟩
  · have e1 := ha.entry; have e2 := hb.entry
    cases apa with
    | nil => simp only [entryOf] at e1; simp only [List.nil_append]; rw [e2, e1]
    | cons x r => exact e1
  · intro R hown hext
    rw [chain_append]
    refine ⟨?_, hb.chain R (fun l st h => hown l st (List.mem_append_right _ h)) hext⟩
    rw [hb.entry]
    exact ha.chain R (fun l st h => hown l st (List.mem_append_left _ h)) hext
  · intro l x y hx hy
    rcases List.mem_append.1 hx with hx | hx <;> rcases List.mem_append.1 hy with hy | hy
    · exact ha.lc l x y hx hy
    · exact absurd (hdis l (ha.erase ▸ mem_erase_label _ _ _ hx) (hb.erase ▸ mem_erase_label _ _ _ hy)) id
    · exact absurd (hdis l (ha.erase ▸ mem_erase_label _ _ _ hy) (hb.erase ▸ mem_erase_label _ _ _ hx)) id
    · exact hb.lc l x y hx hy

theorem path_ext_mono (ext ext' : List (Lbl × S)) (h : ∀ x ∈ ext, x ∈ ext') (s0 s1 : S) (out : List (Prim Lbl)) (ap : List AP)
    (hp : PathIO ext s0 s1 out ap) : PathIO ext' s0 s1 out ap :=
  ⟨hp.erase, hp.entry, fun R ho he => hp.chain R ho (fun x hx => he x (h x hx)), hp.lc⟩

/-- an external target that the piece itself defines (with that state) need not be provided from outside -/
theorem path_resolve (l : Lbl) (sl : S) (ext : List (Lbl × S)) (s0 s1 : S) (out : List (Prim Lbl)) (ap : List AP)
    (hp : PathIO ((l, sl) :: ext) s0 s1 out ap) (hl : (Prim.label l, sl) ∈ ap) : PathIO ext s0 s1 out ap :=
  ⟨hp.erase, hp.entry, fun R ho he => hp.chain R ho (by
      intro x hx
      rcases List.mem_cons.1 hx with hx | hx
      · subst hx; exact ho l sl hl
      · exact he x hx), hp.lc⟩

/-- one element that is executed in state `st` and leaves `st'` -/
theorem path_single (ext : List (Lbl × S)) (st st' : S) (e : Prim Lbl)
    (hok : ∀ R : Lbl → S → Prop, OwnOK R [(e, st)] → ExtOK R ext → okStep R e st st') :
    PathIO ext st st' [e] [(e, st)] := by
  refine ⟨rfl, rfl, ?_, ?_⟩
  · intro R ho he; simp only [Chain, entryOf]; exact ⟨hok R ho he, trivial⟩
  · intro l x y hx hy; simp at hx hy; rw [hx.2, hy.2]

theorem path_label (ext : List (Lbl × S)) (st : S) (l : Lbl) : PathIO ext st st [.label l] [(.label l, st)] :=
  path_single ext st st _ (fun R _ _ => by simp [okStep])

theorem path_goto (ext : List (Lbl × S)) (st : S) (l : Lbl) (h : (l, st) ∈ ext) : PathIO ext st st [.goto l] [(.goto l, st)] :=
  path_single ext st st _ (fun R _ he => by simp only [okStep]; exact ⟨he _ h, trivial⟩)

/-- an unconditional jump (`Goto` whose expression is the constant True): the state of the NEXT element is not
    constrained by it — here it is left as `st` (the templates of `when`-free programs continue in the same state) -/
theorem path_jump (ext : List (Lbl × S)) (st : S) (l : Lbl) (h : (l, st) ∈ ext) : PathIO ext st st [.jump l] [(.jump l, st)] :=
  path_single ext st st _ (fun R _ he => by simp only [okStep]; exact he _ h)

/-- leaves executed in one state (a failing spec op / abort goes to the innermost handler of that state) -/
theorem path_leaves (ext : List (Lbl × S)) (st : S) (htop : TopIn ext st) : ∀ (ps : List (Prim Lbl)), ps.all leaf = true →
    PathIO ext st st ps (ps.map fun e => (e, st)) := by
  intro ps
  induction ps with
  | nil => intro _; exact path_nil ext st
  | cons e r ih =>
    intro h
    simp only [List.all_cons, Bool.and_eq_true] at h
    have hr := ih h.2
    have he : PathIO ext st st [e] [(e, st)] := by
      apply path_single
      intro R _ hext
      have hl := h.1
      cases e <;> simp [leaf] at hl <;> simp only [okStep]
      · intro l rest hh; exact hext _ (htop l rest hh)
      · exact ⟨trivial, fun l rest hh => hext _ (htop l rest hh)⟩
    have := path_append ext st st st [e] r _ _ he hr (by
      intro l hl _
      simp at hl; subst hl; simp [leaf] at h)
    simpa using this

/-! ### Part 2: fork templates -/

def ScopesBelow (st : S) (c : Nat) : Prop := ∀ n ∈ st.s, n.2 < c

/-- a generator without external jumps: annotated for every entry state whose innermost handler is allowed -/
def GenPathAll (g : Gen) : Prop :=
  ∀ (ext : List (Lbl × S)) (c : Nat) (st : S), ScopesBelow st c → TopIn ext st → ∃ ap, PathIO ext st st (g c).1 ap

theorem itemLabels_nodup (pre : Nat → String) (b : Nat) : ∀ (n i : Nat), (itemLabels pre b i n).Nodup := by
  intro n
  induction n with
  | zero => intro i; simp [itemLabels]
  | succ n ih =>
    intro i
    simp only [itemLabels, List.nodup_cons]
    refine ⟨?_, ih (i + 1)⟩
    intro hmem
    have := (itemLabels_spec pre b n (i + 1)).2 _ hmem
    simp only at this
    omega

theorem forkItems_path (e : Lbl) : ∀ (ls : List Lbl) (gens : List Gen) (c : Nat), ls.length = gens.length →
    (∀ g ∈ gens, GenOK [] g ∧ GenPathAll g) → ls.Nodup → (∀ l ∈ ls, l.2 < c) →
    ∀ (ext : List (Lbl × S)) (st1 : S), ScopesBelow st1 c → TopIn ext st1 → (e, st1) ∈ ext →
    ∃ ap, PathIO ext st1 st1 (forkItems e ls gens c).1 ap ∧ ∀ l ∈ ls, (Prim.label l, st1) ∈ ap := by
  intro ls
  induction ls with
  | nil =>
    intro gens c _ _ _ _ ext st1 _ _ _
    refine ⟨[], ?_, by simp⟩
    cases gens <;> simpa [forkItems] using path_nil ext st1
  | cons l ls ih =>
    intro gens c hlen hg hnd hlt ext st1 hsb htop he
    cases gens with
    | nil => simp at hlen
    | cons g gs =>
      simp only [forkItems, List.cons_append]
      obtain ⟨hgo, hgp⟩ := hg g (by simp)
      have hinv := hgo c
      have hitems := forkItems_inv [] e ls gs (g c).2 (by simpa using hlen) (fun g' hg' => (hg g' (List.mem_cons_of_mem _ hg')).1)
      have m1 := hinv.mono
      obtain ⟨apb, hb⟩ := hgp ext c st1 hsb htop
      obtain ⟨apr, hr, hrl⟩ := ih gs (g c).2 (by simpa using hlen) (fun g' hg' => hg g' (List.mem_cons_of_mem _ hg'))
        (List.nodup_cons.1 hnd).2 (fun x hx => by have := hlt x (List.mem_cons_of_mem _ hx); omega) ext st1
        (fun n hn => by have := hsb n hn; omega) htop he
      have p1 := path_label ext st1 l
      have p3 := path_jump ext st1 e he
      have a1 := path_append ext st1 st1 st1 _ _ _ _ p1 hb (by
        intro x hx hy
        simp at hx; subst hx
        have := hinv.fresh _ hy
        have := hlt x (by simp)
        omega)
      have a2 := path_append ext st1 st1 st1 _ _ _ _ a1 p3 (by intro x _ hy; simp at hy)
      have a3 := path_append ext st1 st1 st1 _ _ _ _ a2 hr (by
        intro x hx hy
        simp only [List.cons_append, List.nil_append, List.mem_cons, List.mem_append, List.not_mem_nil, or_false] at hx
        rcases hitems.fresh x hy with h2 | h2
        · rcases hx with hx | hx | hx
          · cases hx; exact (List.nodup_cons.1 hnd).1 h2
          · have := hinv.fresh x hx; have := hlt x (List.mem_cons_of_mem _ h2); omega
          · cases hx
        · rcases hx with hx | hx | hx
          · cases hx; have := hlt l (by simp); omega
          · have := hinv.fresh x hx; omega
          · cases hx)
      refine ⟨_, by simpa [List.append_assoc] using a3, ?_⟩
      intro x hx
      rcases List.mem_cons.1 hx with hx | hx
      · subst hx; simp
      · have := hrl x hx; simp [this]

def st1Of (v : Variant) (f sc : Lbl) (st : S) : S :=
  ⟨f :: st.h, match v with | .scopedV => sc :: st.s | _ => st.s⟩

def hdrAP (v : Variant) (u f sc : Lbl) (ls : List Lbl) (st : S) : List AP :=
  (match v with | .scopedV => [(.beginScope sc, st), (.catchFail (some f), ⟨st.h, sc :: st.s⟩)] | _ => [(.catchFail (some f), st)]) ++
    [(.fork u ls, st1Of v f sc st)]

def trAP (v : Variant) (u f e sc : Lbl) (n : Nat) (st : S) : List AP :=
  let s1 := st1Of v f sc st
  match v with
  | .andV => [(.label f, s1), (.merge u, s1), (.catchFail none, s1), (.abort, st), (.label e, s1), (.waitHeads n, s1), (.merge u, s1),
      (.catchFail none, s1)]
  | .orV => [(.label f, s1), (.waitHeads n, s1), (.merge u, s1), (.catchFail none, s1), (.abort, st), (.label e, s1), (.merge u, s1),
      (.catchFail none, s1)]
  | .scopedV => [(.label f, s1), (.waitHeads n, s1), (.catchFail none, s1), (.endScope sc, ⟨st.h, sc :: st.s⟩), (.abort, st), (.label e, s1),
      (.merge u, s1), (.catchFail none, s1), (.endScope sc, ⟨st.h, sc :: st.s⟩)]

theorem hdrAP_erase (v : Variant) (u f sc : Lbl) (ls : List Lbl) (st : S) : (hdrAP v u f sc ls st).map Prod.fst = header v u f sc ls := by
  cases v <;> rfl

theorem trAP_erase (v : Variant) (u f e sc : Lbl) (n : Nat) (st : S) : (trAP v u f e sc n st).map Prod.fst = trailer v u f e sc n := by
  cases v <;> rfl

theorem forkTemplate_path (v : Variant) (pre : Nat → String) (gens : List Gen)
    (hg : ∀ g ∈ gens, GenOK [] g ∧ GenPathAll g) : GenPathAll (forkTemplate v pre gens) := by
  intro ext c st hsb htop
  unfold forkTemplate
  obtain ⟨hlen, hrange⟩ := itemLabels_spec pre (c + 4) gens.length 0
  have hnd := itemLabels_nodup pre (c + 4) gens.length 0
  have hs1 : ScopesBelow (st1Of v ("failure_label_", c + 1) ("scope_", c + 3) st) (c + 4 + gens.length) := by
    intro n hn
    cases v <;> simp [st1Of] at hn
    · have := hsb n hn; omega
    · have := hsb n hn; omega
    · rcases hn with hn | hn
      · subst hn; simp only; omega
      · have := hsb n hn; omega
  have hi := forkItems_inv [] ("end_label_", c + 2) (itemLabels pre (c + 4) 0 gens.length) gens (c + 4 + gens.length) hlen (fun g hg' => (hg g hg').1)
  obtain ⟨api, hpi, hlab⟩ := forkItems_path ("end_label_", c + 2) (itemLabels pre (c + 4) 0 gens.length) gens (c + 4 + gens.length) hlen hg hnd
    (fun l hl => by have := hrange l hl; omega)
    ((("end_label_", c + 2), st1Of v ("failure_label_", c + 1) ("scope_", c + 3) st) :: (("failure_label_", c + 1), st1Of v ("failure_label_", c + 1) ("scope_", c + 3) st) :: ext) (st1Of v ("failure_label_", c + 1) ("scope_", c + 3) st) hs1
    (by intro l rest hh; simp [st1Of] at hh; rw [← hh.1]; simp) (by simp)
  refine ⟨hdrAP v ("", c) ("failure_label_", c + 1) ("scope_", c + 3) (itemLabels pre (c + 4) 0 gens.length) st ++ api ++ trAP v ("", c) ("failure_label_", c + 1) ("end_label_", c + 2) ("scope_", c + 3) gens.length st, ?_, ?_, ?_, ?_⟩
  · rw [List.map_append, List.map_append, hdrAP_erase, trAP_erase, hpi.erase]
  · cases v <;> rfl
  · intro R hown hext
    have hRe : R ("end_label_", c + 2) (st1Of v ("failure_label_", c + 1) ("scope_", c + 3) st) := hown ("end_label_", c + 2) _ (by cases v <;> simp [trAP])
    have hRf : R ("failure_label_", c + 1) (st1Of v ("failure_label_", c + 1) ("scope_", c + 3) st) := hown ("failure_label_", c + 1) _ (by cases v <;> simp [trAP])
    have hfork : ∀ l ∈ itemLabels pre (c + 4) 0 gens.length, R l (st1Of v ("failure_label_", c + 1) ("scope_", c + 3) st) :=
      fun l hl => hown l _ (by simp only [List.mem_append]; exact Or.inl (Or.inr (hlab l hl)))
    have hab : ∀ l rest, st.h = l :: rest → R l st := fun l rest hh => hext _ (htop l rest hh)
    have hscn : ("scope_", c + 3) ∉ st.s := by intro hin; have := hsb ("scope_", c + 3) hin; simp only at this; omega
    have hci := hpi.chain R (fun l s' hm => hown l s' (by simp only [List.mem_append]; exact Or.inl (Or.inr hm)))
      (by
        intro x hx
        rcases List.mem_cons.1 hx with hx | hx
        · subst hx; exact hRe
        · rcases List.mem_cons.1 hx with hx | hx
          · subst hx; exact hRf
          · exact hext x hx)
    have hent : entryOf (api ++ trAP v ("", c) ("failure_label_", c + 1) ("end_label_", c + 2) ("scope_", c + 3) gens.length st) st = st1Of v ("failure_label_", c + 1) ("scope_", c + 3) st := by
      cases api with
      | nil => cases v <;> rfl
      | cons x r => exact hpi.entry
    have htr : entryOf (trAP v ("", c) ("failure_label_", c + 1) ("end_label_", c + 2) ("scope_", c + 3) gens.length st) st = st1Of v ("failure_label_", c + 1) ("scope_", c + 3) st := by cases v <;> rfl
    rw [List.append_assoc, chain_append, chain_append, hent, htr]
    refine ⟨?_, hci, ?_⟩
    · cases v <;> simp [hdrAP, Chain, okStep, entryOf, st1Of, hscn] <;> exact fun a b h => hfork (a, b) h
    · cases v <;> simp [trAP, Chain, okStep, entryOf, st1Of] <;> exact fun a b rest h => hab (a, b) rest h
  · intro l x y hx hy
    have hI : ∀ z, (Prim.label l, z) ∈ api → c + 4 ≤ l.2 := by
      intro z hz
      have hmem : Prim.label l ∈ (forkItems ("end_label_", c + 2) (itemLabels pre (c + 4) 0 gens.length) gens (c + 4 + gens.length)).1 :=
        hpi.erase ▸ mem_erase_label _ _ _ hz
      rcases hi.fresh l hmem with h1 | h1
      · have := hrange l h1; omega
      · omega
    have hH : ∀ z, (Prim.label l, z) ∈ hdrAP v ("", c) ("failure_label_", c + 1) ("scope_", c + 3) (itemLabels pre (c + 4) 0 gens.length) st → False := by
      intro z hz; cases v <;> simp [hdrAP] at hz
    have hT : ∀ z, (Prim.label l, z) ∈ trAP v ("", c) ("failure_label_", c + 1) ("end_label_", c + 2) ("scope_", c + 3) gens.length st → z = st1Of v ("failure_label_", c + 1) ("scope_", c + 3) st ∧ l.2 < c + 4 := by
      intro z hz
      cases v <;> simp [trAP] at hz <;> rcases hz with ⟨h1, h2⟩ | ⟨h1, h2⟩ <;> subst h1 <;> subst h2 <;> simp
    simp only [List.mem_append] at hx hy
    rcases hx with (hx | hx) | hx
    · exact absurd (hH x hx) id
    · rcases hy with (hy | hy) | hy
      · exact absurd (hH y hy) id
      · exact hpi.lc l x y hx hy
      · have := hI x hx; have := (hT y hy).2; omega
    · rcases hy with (hy | hy) | hy
      · exact absurd (hH y hy) id
      · have := hI y hy; have := (hT x hx).2; omega
      · rw [(hT x hx).1, (hT y hy).1]

/-! ### Part 3: groups, statements, whole flows -/

theorem leaf_nolabel (ps : List (Prim Lbl)) (h : ps.all leaf = true) (l : Lbl) : Prim.label l ∉ ps := by
  intro hm
  have := (List.all_eq_true.1 h) _ hm
  simp [leaf] at this

theorem genConst_path (ps : List (Prim Lbl)) (h : ps.all leaf = true) : GenPathAll (genConst ps) :=
  fun ext _ st _ htop => ⟨_, path_leaves ext st htop ps h⟩

theorem matchClause_path (n : Nat) : GenPathAll (matchClause n) := by
  unfold matchClause
  split
  · exact genConst_path _ (by decide)
  · apply forkTemplate_path
    intro g hg
    rw [List.mem_replicate] at hg
    rw [hg.2]; exact ⟨genConst_ok _ _ (by decide), genConst_path _ (by decide)⟩

theorem orGroup_path (v : Variant) (bodies : List Gen) (h : ∀ g ∈ bodies, GenOK [] g ∧ GenPathAll g) :
    GenPathAll (orGroup v bodies) := by
  unfold orGroup
  split
  · exact (h _ (by simp)).2
  · exact forkTemplate_path v _ _ h

theorem awaitClause_path (cl : Clause) : GenPathAll (awaitClause cl) := by
  intro ext c st hsb htop
  unfold awaitClause
  obtain ⟨apm, hm⟩ := matchClause_path cl.length ext c st hsb htop
  have h1 := path_leaves ext st htop (startAll cl) (startAll_leaf cl)
  have h3 := path_leaves ext st htop (refAssigns cl) (refAssigns_leaf cl)
  have a1 := path_append ext st st st _ _ _ _ h1 hm (fun l hl _ => leaf_nolabel _ (startAll_leaf cl) l hl)
  exact ⟨_, path_append ext st st st _ _ _ _ a1 h3 (fun l _ hl => leaf_nolabel _ (refAssigns_leaf cl) l hl)⟩

def cbExt (cb : Option (Lbl × Lbl)) (st : S) : List (Lbl × S) := (cbList cb).map fun l => (l, st)

theorem topIn_nil (ext : List (Lbl × S)) (st : S) (h : st.h = []) : TopIn ext st := by
  intro l rest hh; rw [h] at hh; cases hh

theorem path_of_all (g : Gen) (hg : GenPathAll g) (ext : List (Lbl × S)) (c : Nat) (st : S) (hsb : ScopesBelow st c) (hh : st.h = []) :
    ∃ ap, PathIO ext st st (g c).1 ap := hg ext c st hsb (topIn_nil ext st hh)

theorem while_path (ext : List (Lbl × S)) (st : S) (c : Nat) (body : List (Prim Lbl) × Nat) (apb : List AP)
    (hinv : Inv [("_while_begin_", c), ("_while_end_", c)] (c + 1) body)
    (hb : PathIO [(("_while_begin_", c), st), (("_while_end_", c), st)] st st body.1 apb) :
    ∃ ap, PathIO ext st st ([.label ("_while_begin_", c), .goto ("_while_end_", c)] ++ body.1 ++
      [.jump ("_while_begin_", c), .label ("_while_end_", c)]) ap := by
  let E : List (Lbl × S) := (("_while_begin_", c), st) :: (("_while_end_", c), st) :: ext
  have hb' : PathIO E st st body.1 apb := path_ext_mono _ E (by
    intro x hx; simp at hx; rcases hx with hx | hx <;> subst hx <;> simp [E]) _ _ _ _ hb
  have p1 := path_label E st ("_while_begin_", c)
  have p2 := path_goto E st ("_while_end_", c) (by simp [E])
  have p4 := path_jump E st ("_while_begin_", c) (by simp [E])
  have p5 := path_label E st ("_while_end_", c)
  have a1 := path_append E st st st _ _ _ _ p1 p2 (by intro l _ h; simp at h)
  have a2 := path_append E st st st _ _ _ _ a1 hb' (by
    intro l hl hm
    simp at hl
    have := hinv.fresh l hm
    rw [hl] at this; simp only at this; omega)
  have a3 := path_append E st st st _ _ _ _ p4 p5 (by intro l h _; simp at h)
  have a4 := path_append E st st st _ _ _ _ a2 a3 (by
    intro l hl hm
    simp at hm
    simp only [List.cons_append, List.nil_append, List.mem_cons, List.mem_append, List.not_mem_nil, or_false] at hl
    rcases hl with hl | hl | hl
    · rw [hm] at hl; simp at hl
    · cases hl
    · have := hinv.fresh l hl; rw [hm] at this; simp only at this; omega)
  have r1 := path_resolve _ _ _ _ _ _ _ a4 (by simp)
  have r2 := path_resolve _ _ _ _ _ _ _ r1 (by simp)
  exact ⟨_, by simpa [List.append_assoc] using r2⟩

theorem if_path_noelse (ext : List (Lbl × S)) (st : S) (c : Nat) (te : List (Prim Lbl) × Nat) (apt : List AP) {e0 : List Lbl}
    (hinv : Inv e0 (c + 2) te) (ht : PathIO ext st st te.1 apt) :
    ∃ ap, PathIO ext st st ([.goto ("if_end_label_", c + 1)] ++ te.1 ++ [.label ("if_end_label_", c + 1)]) ap := by
  let E : List (Lbl × S) := (("if_end_label_", c + 1), st) :: ext
  have ht' := path_ext_mono _ E (fun x hx => List.mem_cons_of_mem _ hx) _ _ _ _ ht
  have p1 := path_goto E st ("if_end_label_", c + 1) (by simp [E])
  have p3 := path_label E st ("if_end_label_", c + 1)
  have a1 := path_append E st st st _ _ _ _ p1 ht' (by intro l h _; simp at h)
  have a2 := path_append E st st st _ _ _ _ a1 p3 (by
    intro l hl hm
    simp at hm
    simp only [List.cons_append, List.nil_append, List.mem_cons] at hl
    rcases hl with hl | hl
    · cases hl
    · have := hinv.fresh l hl; rw [hm] at this; simp only at this; omega)
  exact ⟨_, path_resolve _ _ _ _ _ _ _ a2 (by simp)⟩

theorem if_path_else (ext : List (Lbl × S)) (st : S) (c : Nat) (te fe : List (Prim Lbl) × Nat) (apt apf : List AP) {e0 : List Lbl}
    (hti : Inv e0 (c + 2) te) (hfi : Inv e0 te.2 fe) (ht : PathIO ext st st te.1 apt) (hf : PathIO ext st st fe.1 apf) :
    ∃ ap, PathIO ext st st ([.goto ("if_else_body_label_", c)] ++ te.1 ++
      [.jump ("if_end_label_", c + 1), .label ("if_else_body_label_", c)] ++ fe.1 ++ [.label ("if_end_label_", c + 1)]) ap := by
  let E : List (Lbl × S) := (("if_end_label_", c + 1), st) :: (("if_else_body_label_", c), st) :: ext
  have hsub : ∀ x ∈ ext, x ∈ E := fun x hx => List.mem_cons_of_mem _ (List.mem_cons_of_mem _ hx)
  have ht' := path_ext_mono _ E hsub _ _ _ _ ht
  have hf' := path_ext_mono _ E hsub _ _ _ _ hf
  have m1 := hti.mono
  have p1 := path_goto E st ("if_else_body_label_", c) (by simp [E])
  have p2 := path_jump E st ("if_end_label_", c + 1) (by simp [E])
  have p3 := path_label E st ("if_else_body_label_", c)
  have p5 := path_label E st ("if_end_label_", c + 1)
  have a1 := path_append E st st st _ _ _ _ p1 ht' (by intro l h _; simp at h)
  have a2 := path_append E st st st _ _ _ _ p2 p3 (by intro l h _; simp at h)
  have a3 := path_append E st st st _ _ _ _ a1 a2 (by
    intro l hl hm
    simp at hm
    simp only [List.cons_append, List.nil_append, List.mem_cons] at hl
    rcases hl with hl | hl
    · cases hl
    · have := hti.fresh l hl; rw [hm] at this; simp only at this; omega)
  have a4 := path_append E st st st _ _ _ _ a3 hf' (by
    intro l hl hm
    have h2 := hfi.fresh l hm
    simp only [List.cons_append, List.nil_append, List.mem_cons, List.mem_append, List.not_mem_nil, or_false] at hl
    rcases hl with hl | hl | hl | hl
    · cases hl
    · have := hti.fresh l hl; omega
    · cases hl
    · cases hl; simp only at h2; omega)
  have a5 := path_append E st st st _ _ _ _ a4 p5 (by
    intro l hl hm
    simp at hm
    subst hm
    simp at hl
    rcases hl with hl | hl
    · have := hti.fresh _ hl; simp only at this; omega
    · have := hfi.fresh _ hl; simp only at this; omega)
  have r1 := path_resolve _ _ _ _ _ _ _ a5 (by simp)
  have r2 := path_resolve _ _ _ _ _ _ _ r1 (by simp)
  exact ⟨_, by simpa [List.append_assoc] using r2⟩

theorem matchGroup_path (d : List Nat) : GenPathAll (matchGroup d) := by
  apply orGroup_path; intro g hg; simp only [List.mem_map] at hg; obtain ⟨n, _, rfl⟩ := hg
  exact ⟨matchClause_ok [] n, matchClause_path n⟩

theorem sendGroup_path (d : List Nat) : GenPathAll (sendGroup d) := by
  apply orGroup_path; intro g hg; simp only [List.mem_map] at hg; obtain ⟨n, _, rfl⟩ := hg
  exact ⟨genConst_ok [] _ (replicate_leaf n _ (by decide)), genConst_path _ (replicate_leaf n _ (by decide))⟩

theorem startGroup_path (d : DNF) : GenPathAll (startGroup d) := by
  apply orGroup_path; intro g hg; simp only [List.mem_map] at hg; obtain ⟨cl, _, rfl⟩ := hg
  exact ⟨genConst_ok [] _ (startAll_leaf cl), genConst_path _ (startAll_leaf cl)⟩

theorem awaitGroup_path (d : DNF) : GenPathAll (awaitGroup d) := by
  apply orGroup_path; intro g hg; simp only [List.mem_map] at hg; obtain ⟨cl, _, rfl⟩ := hg
  exact ⟨awaitClause_ok [] cl, awaitClause_path cl⟩

theorem scopesBelow_mono (st : S) (c c' : Nat) (h : ScopesBelow st c) (hc : c ≤ c') : ScopesBelow st c' :=
  fun n hn => Nat.lt_of_lt_of_le (h n hn) hc

theorem jump_path (cb : Option (Lbl × Lbl)) (st : S) (e : Prim Lbl)
    (he : e = .brk (cb.map (·.2)) ∨ e = .cont (cb.map (·.1))) : PathIO (cbExt cb st) st st [e] [(e, st)] := by
  apply path_single
  intro R _ hext
  cases cb with
  | none => rcases he with rfl | rfl <;> simp [okStep]
  | some be =>
    obtain ⟨b, e'⟩ := be
    rcases he with rfl | rfl <;> simp only [Option.map_some, okStep]
    · exact hext (e', st) (by simp [cbExt, cbList])
    · exact hext (b, st) (by simp [cbExt, cbList])

mutual
  theorem expand_path : ∀ (cb : Option (Lbl × Lbl)) (ss : List Stmt) (c : Nat) (st : S), wfList ss = true →
      whenFreeList ss = true → ScopesBelow st c → st.h = [] → ∃ ap, PathIO (cbExt cb st) st st (expand cb ss c).1 ap
    | cb, [], c, st, _, _, _, _ => by unfold expand; exact ⟨[], path_nil _ st⟩
    | cb, s :: r, c, st, hw, hf, hsb, hh => by
      unfold wfList at hw; unfold whenFreeList at hf
      simp only [Bool.and_eq_true] at hw hf
      unfold expand
      have i1 := expandStmt_inv cb s c hw.1
      have i2 := expand_inv cb r (expandStmt cb s c).2 hw.2
      obtain ⟨a, ha⟩ := expandStmt_path cb s c st hw.1 hf.1 hsb hh
      obtain ⟨b, hb⟩ := expand_path cb r (expandStmt cb s c).2 st hw.2 hf.2 (scopesBelow_mono st _ _ hsb i1.mono) hh
      exact ⟨a ++ b, path_append _ st st st _ _ _ _ ha hb (by
        intro l h1 h2
        have := i1.fresh l h1; have := i2.fresh l h2; omega)⟩
  theorem expandStmt_path : ∀ (cb : Option (Lbl × Lbl)) (s : Stmt) (c : Nat) (st : S), wfStmt s = true →
      whenFreeStmt s = true → ScopesBelow st c → st.h = [] → ∃ ap, PathIO (cbExt cb st) st st (expandStmt cb s c).1 ap
    | cb, .send, c, st, _, _, _, hh => by unfold expandStmt; exact ⟨_, path_leaves _ st (topIn_nil _ st hh) _ rfl⟩
    | cb, .matchEv, c, st, _, _, _, hh => by unfold expandStmt; exact ⟨_, path_leaves _ st (topIn_nil _ st hh) _ rfl⟩
    | cb, .assign, c, st, _, _, _, hh => by unfold expandStmt; exact ⟨_, path_leaves _ st (topIn_nil _ st hh) _ rfl⟩
    | cb, .other k, c, st, _, _, _, hh => by unfold expandStmt; exact ⟨_, path_leaves _ st (topIn_nil _ st hh) _ (by simp [leaf])⟩
    | cb, .ret, c, st, _, _, _, hh => by unfold expandStmt; exact ⟨_, path_leaves _ st (topIn_nil _ st hh) _ rfl⟩
    | cb, .abort, c, st, _, _, _, hh => by unfold expandStmt; exact ⟨_, path_leaves _ st (topIn_nil _ st hh) _ rfl⟩
    | cb, .brk, c, st, _, _, _, _ => by unfold expandStmt; exact ⟨_, jump_path cb st _ (Or.inl rfl)⟩
    | cb, .cont, c, st, _, _, _, _ => by unfold expandStmt; exact ⟨_, jump_path cb st _ (Or.inr rfl)⟩
    | cb, .whileS b, c, st, hw, hf, hsb, hh => by
      unfold wfStmt at hw; unfold whenFreeStmt at hf
      unfold expandStmt
      have hinv := expand_inv (some (("_while_begin_", c), ("_while_end_", c))) b (c + 1) hw
      obtain ⟨apb, hb⟩ := expand_path (some (("_while_begin_", c), ("_while_end_", c))) b (c + 1) st hw hf
        (scopesBelow_mono st _ _ hsb (Nat.le_succ _)) hh
      exact while_path _ st c _ apb hinv hb
    | cb, .ifS t f, c, st, hw, hf, hsb, hh => by
      unfold wfStmt at hw; unfold whenFreeStmt at hf
      simp only [Bool.and_eq_true] at hw hf
      unfold expandStmt
      have hti := expand_inv cb t (c + 2) hw.1
      obtain ⟨apt, ht⟩ := expand_path cb t (c + 2) st hw.1 hf.1 (scopesBelow_mono st _ _ hsb (by omega)) hh
      by_cases hfe : f.isEmpty = true
      · simp only [hfe, if_true]
        exact if_path_noelse _ st c _ apt hti ht
      · simp only [hfe]
        have hfi := expand_inv cb f (expand cb t (c + 2)).2 hw.2
        obtain ⟨apf, hf'⟩ := expand_path cb f (expand cb t (c + 2)).2 st hw.2 hf.2
          (scopesBelow_mono st _ _ hsb (by have := hti.mono; omega)) hh
        exact if_path_else _ st c _ _ apt apf hti hfi ht hf'
    | cb, .matchG d, c, st, _, _, hsb, hh => by unfold expandStmt; exact path_of_all _ (matchGroup_path d) _ c st hsb hh
    | cb, .sendG d, c, st, _, _, hsb, hh => by unfold expandStmt; exact path_of_all _ (sendGroup_path d) _ c st hsb hh
    | cb, .startS d, c, st, _, _, hsb, hh => by unfold expandStmt; exact path_of_all _ (startGroup_path d) _ c st hsb hh
    | cb, .awaitOne k rv, c, st, _, _, _, hh => by
      unfold expandStmt
      refine ⟨_, path_leaves _ st (topIn_nil _ st hh) _ ?_⟩
      apply all_leaf_append _ _ (all_leaf_append _ _ (startAtom_leaf k) (by decide))
      cases rv <;> decide
    | cb, .awaitG d, c, st, _, _, hsb, hh => by unfold expandStmt; exact path_of_all _ (awaitGroup_path d) _ c st hsb hh
    | cb, .activateS n, c, st, _, _, _, hh => by
      unfold expandStmt; exact ⟨_, path_leaves _ st (topIn_nil _ st hh) _ (flatten_replicate_leaf n _ (by decide))⟩
    | cb, .deactivateS n, c, st, _, _, _, hh => by
      unfold expandStmt; exact ⟨_, path_leaves _ st (topIn_nil _ st hh) _ (replicate_leaf n _ (by decide))⟩
    | cb, .nld, c, st, _, _, _, hh => by unfold expandStmt; exact ⟨_, path_leaves _ st (topIn_nil _ st hh) _ rfl⟩
    | cb, .whenS specs thens els hasElse, c, st, _, hf, _, _ => by unfold whenFreeStmt at hf; cases hf
end

/-- whole flows: an annotation of `expandFlow ss` that starts and ends in the empty state -/
theorem expandFlow_annotated (ss : List Stmt) (hw : wfList ss = true) (hf : whenFreeList ss = true) :
    ∃ ap : List AP, ap.map Prod.fst = expandFlow ss ∧ Chain (LabSt ap) ap ⟨[], []⟩ ∧ entryOf ap ⟨[], []⟩ = ⟨[], []⟩ := by
  obtain ⟨ap, hp⟩ := expand_path none ss 0 ⟨[], []⟩ hw hf (by intro n hn; simp at hn) rfl
  refine ⟨ap, hp.erase, hp.chain (LabSt ap) ?_ (by intro x hx; simp [cbExt, cbList] at hx), hp.entry⟩
  intro l st hm st' hm'
  exact hp.lc l st' st hm' hm

end NemoVerif.Expand
