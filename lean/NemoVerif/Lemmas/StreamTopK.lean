/-
  C18 — `wait_top_k_nonempty_lines` and the event condition of `_process` (buffering mode).

  1. the character scans `qualCount` / `dropTopK` of `Models/StreamUsage.lean` ARE the line-by-line code
     (`split("\n")`, `strip()`, the loop, `"\n".join`): `qualCount_eq_lines`, `dropTopK_eq_lines`;
  2. the event implies the waiter's precondition (`dropTopK_of_qualCount`, `event_precondition`): the hypothesis
     `hsplit`/`hr0` of `usage_chunk_invariant` is discharged;
  3. the value the waiter returns does not change when more text arrives (`returned_stable`), hence is the
     same for every chunking and schedule (`waiterReturn_eq`).
-/
import NemoVerif.Lemmas.StreamUsage
set_option linter.unusedSimpArgs false
set_option linter.unusedVariables false
namespace NemoVerif.StreamUsage
open NemoVerif.Stream

/-! #### the event implies the waiter's precondition -/

theorem dropTopK_of_qualCount : ∀ (t : Str) (first : Option Char) (k : Nat), 1 ≤ k → qualCount first t > k →
    ∃ r, dropTopK k first t = some r ∧ qualCount none r > 0
  | [], first, k, hk, h => by
    simp only [qualCount] at h
    split at h <;> omega
  | c :: t, first, k, hk, h => by
    simp only [qualCount, dropTopK] at h ⊢
    by_cases hc : c = '\n'
    · simp only [hc, if_true] at h ⊢
      by_cases hq : qualifies first = true
      · simp only [hq, if_true] at h ⊢
        by_cases hk1 : k ≤ 1
        · simp only [hk1, if_true]
          exact ⟨t, rfl, by omega⟩
        · simp only [hk1, if_false]
          exact dropTopK_of_qualCount t none (k - 1) (by omega) (by omega)
      · simp only [hq, if_false, Bool.false_eq_true] at h ⊢
        exact dropTopK_of_qualCount t none k hk (by omega)
    · simp only [hc, if_false] at h ⊢
      exact dropTopK_of_qualCount t _ k hk h

theorem qualCount_pos_ne_nil {r : Str} (h : qualCount none r > 0) : r ≠ [] := by
  intro e
  subst e
  simp [qualCount, qualifies] at h

/-! #### `split("\n")` / `"\n".join` -/

theorem splitNl_ne_nil (t : Str) : splitNl t ≠ [] := by
  cases t with
  | nil => simp [splitNl]
  | cons c t =>
    simp only [splitNl]
    split
    · simp
    · split <;> simp

theorem splitNl_cons_eq (t : Str) : splitNl t = (splitNl t).headD [] :: (splitNl t).tail := by
  cases h : splitNl t with
  | nil => exact absurd h (splitNl_ne_nil t)
  | cons l ls => rfl

/-- a line prefix without `\n` is glued to the first line of what follows -/
theorem splitNl_pre : ∀ (pre : Str), (∀ c ∈ pre, c ≠ '\n') → ∀ (t : Str),
    splitNl (pre ++ t) = (pre ++ (splitNl t).headD []) :: (splitNl t).tail
  | [], _, t => by simpa using splitNl_cons_eq t
  | c :: pre, h, t => by
    have hc : c ≠ '\n' := h c (by simp)
    have ih := splitNl_pre pre (fun d hd => h d (by simp [hd])) t
    simp only [List.cons_append, splitNl, hc, if_false, ih]

theorem splitNl_pre_nl (pre : Str) (h : ∀ c ∈ pre, c ≠ '\n') (t : Str) :
    splitNl (pre ++ '\n' :: t) = pre :: splitNl t := by
  rw [splitNl_pre pre h]
  simp [splitNl]

theorem splitNl_pre_only (pre : Str) (h : ∀ c ∈ pre, c ≠ '\n') : splitNl pre = [pre] := by
  have := splitNl_pre pre h []
  simpa [splitNl] using this

theorem joinNl_splitNl : ∀ (t : Str), joinNl (splitNl t) = t
  | [] => by simp [splitNl, joinNl]
  | c :: t => by
    have ih := joinNl_splitNl t
    rw [splitNl_cons_eq t] at ih
    simp only [splitNl]
    by_cases hc : c = '\n'
    · simp only [hc, if_true]
      rw [splitNl_cons_eq t]
      simp only [joinNl, List.nil_append, ih]
    · simp only [hc, if_false]
      rw [splitNl_cons_eq t]
      simp only
      cases hl : (splitNl t).tail with
      | nil =>
        rw [hl] at ih
        simp only [joinNl] at ih ⊢
        rw [ih]
      | cons m ls =>
        rw [hl] at ih
        simp only [joinNl] at ih ⊢
        rw [List.cons_append, ih]

/-! #### `strip()` and the line test -/

theorem foldl_noteChar_some (f : Char) : ∀ (l : Str), l.foldl noteChar (some f) = some f
  | [] => rfl
  | c :: l => by simp only [List.foldl_cons, noteChar]; exact foldl_noteChar_some f l

theorem foldl_noteChar_none : ∀ (l : Str), l.foldl noteChar none = (l.dropWhile isWs).head?
  | [] => rfl
  | c :: l => by
    by_cases hw : isWs c = true
    · simp only [List.foldl_cons, noteChar, hw, if_true, List.dropWhile_cons_of_pos hw]
      exact foldl_noteChar_none l
    · have hw' : isWs c = false := by simpa using hw
      simp [List.foldl_cons, noteChar, hw', foldl_noteChar_some, List.dropWhile_cons_of_neg]

theorem dropWhile_head_not {p : Char → Bool} : ∀ {l : Str} {c : Char} {m : Str}, l.dropWhile p = c :: m → p c = false
  | [], _, _, h => by simp at h
  | x :: l, c, m, h => by
    by_cases hx : p x = true
    · rw [List.dropWhile_cons_of_pos hx] at h
      exact dropWhile_head_not h
    · rw [List.dropWhile_cons_of_neg hx] at h
      cases h
      simpa using hx

theorem dropWhile_snoc_not {p : Char → Bool} {c : Char} (hc : p c = false) :
    ∀ (xs : Str), ∃ zs, (xs ++ [c]).dropWhile p = zs ++ [c]
  | [] => ⟨[], by simp [List.dropWhile, hc]⟩
  | x :: xs => by
    by_cases hx : p x = true
    · obtain ⟨zs, h⟩ := dropWhile_snoc_not hc xs
      exact ⟨zs, by rw [List.cons_append, List.dropWhile_cons_of_pos hx, h]⟩
    · exact ⟨x :: xs, by rw [List.cons_append, List.dropWhile_cons_of_neg hx]⟩

theorem strip_head (l : Str) : (strip l).head? = (l.dropWhile isWs).head? := by
  unfold strip
  cases h : l.dropWhile isWs with
  | nil => simp
  | cons c m =>
    have hc := dropWhile_head_not h
    obtain ⟨zs, hz⟩ := dropWhile_snoc_not hc m.reverse
    simp [List.reverse_cons, hz, List.reverse_append]

/-- `len(line.strip()) > 0 and line.strip()[0] != "#"` is the scan's test on the first non-blank character -/
theorem lineQual_eq (l : Str) : lineQual l = qualifies (l.foldl noteChar none) := by
  rw [foldl_noteChar_none, ← strip_head]
  unfold lineQual
  cases strip l <;> simp [qualifies]

/-! #### the scans are the line-by-line code -/

theorem append_snoc_assoc (pre : Str) (c : Char) (t : Str) : pre ++ [c] ++ t = pre ++ c :: t := by simp

theorem mem_snoc_nl {pre : Str} {c : Char} (h : ∀ d ∈ pre, d ≠ '\n') (hc : c ≠ '\n') : ∀ d ∈ pre ++ [c], d ≠ '\n' := by
  intro d hd
  rcases List.mem_append.1 hd with hd | hd
  · exact h d hd
  · simp at hd; subst hd; exact hc

/-- `_process`: the number of non-empty, non-comment lines of the buffer -/
theorem qualCount_eq_lines_aux : ∀ (t pre : Str), (∀ c ∈ pre, c ≠ '\n') →
    qualLines (pre ++ t) = qualCount (pre.foldl noteChar none) t
  | [], pre, h => by
    simp only [List.append_nil, qualLines, splitNl_pre_only pre h, qualCount, List.filter_cons, List.filter_nil, lineQual_eq]
    split <;> simp
  | c :: t, pre, h => by
    by_cases hc : c = '\n'
    · subst hc
      have ih := qualCount_eq_lines_aux t [] (by simp)
      simp only [List.nil_append, List.foldl_nil] at ih
      simp only [qualLines, splitNl_pre_nl pre h, qualCount, if_true, List.filter_cons, lineQual_eq] at ih ⊢
      split
      · simp only [List.length_cons, ih]; omega
      · simp only [ih]; omega
    · have ih := qualCount_eq_lines_aux t (pre ++ [c]) (mem_snoc_nl h hc)
      rw [append_snoc_assoc] at ih
      simp only [qualCount, hc, if_false]
      simpa [List.foldl_append] using ih

theorem qualCount_eq_lines (buf : Str) : qualCount none buf = qualLines buf := by
  have := qualCount_eq_lines_aux buf [] (by simp)
  simpa using this.symm

/-- `wait_top_k_nonempty_lines`: what is left in the buffer -/
theorem dropTopK_eq_lines_aux : ∀ (t pre : Str) (k : Nat), (∀ c ∈ pre, c ≠ '\n') →
    joinNl (scanTop k (splitNl (pre ++ t))).2 = (dropTopK k (pre.foldl noteChar none) t).getD []
  | [], pre, k, h => by
    simp only [List.append_nil, splitNl_pre_only pre h, dropTopK, Option.getD_none, scanTop]
    split
    · split <;> simp [joinNl]
    · simp [joinNl]
  | c :: t, pre, k, h => by
    by_cases hc : c = '\n'
    · subst hc
      simp only [splitNl_pre_nl pre h, scanTop, dropTopK, if_true, lineQual_eq]
      by_cases hq : qualifies (pre.foldl noteChar none) = true
      · simp only [hq, if_true]
        by_cases hk : k ≤ 1
        · simp only [hk, if_true, Option.getD_some, joinNl_splitNl]
        · simp only [hk, if_false]
          have ih := dropTopK_eq_lines_aux t [] (k - 1) (by simp)
          simpa using ih
      · simp only [hq, if_false]
        have ih := dropTopK_eq_lines_aux t [] k (by simp)
        simpa using ih
    · have ih := dropTopK_eq_lines_aux t (pre ++ [c]) k (mem_snoc_nl h hc)
      rw [append_snoc_assoc] at ih
      simp only [dropTopK, hc, if_false]
      simpa [List.foldl_append] using ih

theorem dropTopK_eq_lines (k : Nat) (buf : Str) : (dropTopK k none buf).getD [] = restBuffer k buf := by
  have := dropTopK_eq_lines_aux buf [] k (by simp)
  simpa [restBuffer] using this.symm

/-- once the k-th non-empty line is terminated, the lines the waiter returns no longer depend on what follows -/
theorem scanTop_stable_aux : ∀ (t pre : Str) (k : Nat) (r : Str), (∀ c ∈ pre, c ≠ '\n') →
    dropTopK k (pre.foldl noteChar none) t = some r → ∀ x : Str,
    (scanTop k (splitNl (pre ++ (t ++ x)))).1 = (scanTop k (splitNl (pre ++ t))).1
  | [], pre, k, r, h, hd, x => by simp [dropTopK] at hd
  | c :: t, pre, k, r, h, hd, x => by
    by_cases hc : c = '\n'
    · subst hc
      simp only [dropTopK, if_true] at hd
      simp only [List.cons_append, splitNl_pre_nl pre h, scanTop, lineQual_eq]
      by_cases hq : qualifies (pre.foldl noteChar none) = true
      · simp only [hq, if_true] at hd ⊢
        by_cases hk : k ≤ 1
        · simp only [hk, if_true]
        · simp only [hk, if_false] at hd ⊢
          have ih := scanTop_stable_aux t [] (k - 1) r (by simp) (by simpa using hd) x
          simp only [List.nil_append] at ih
          rw [ih]
      · simp only [hq, if_false] at hd ⊢
        have ih := scanTop_stable_aux t [] k r (by simp) (by simpa using hd) x
        simpa using ih
    · simp only [dropTopK, hc, if_false] at hd
      have ih := scanTop_stable_aux t (pre ++ [c]) k r (mem_snoc_nl h hc) (by simpa [List.foldl_append] using hd) x
      simpa [append_snoc_assoc] using ih

theorem returned_stable (k : Nat) (buf r x : Str) (h : dropTopK k none buf = some r) :
    returned k (buf ++ x) = returned k buf := by
  have := scanTop_stable_aux buf [] k r (by simp) (by simpa using h) x
  simp only [List.nil_append] at this
  simp only [returned, this]

/-! #### the event (`top_k_nonempty_lines_event`) and what the waiter finds -/

theorem tokens_buffering_state (cs : List Str) (k : Nat) (hne : ∀ c ∈ cs, c ≠ []) :
    ∃ t f, execOps true ([Op.enableBuf, Op.waitBegin k] ++ cs.map Op.token) H0 =
      ⟨⟨[], [], [], [], false⟩, [], [], true, cs.flatten, k, t, f, none, false⟩ := by
  rw [execOps_append]
  have hA : execOps true [Op.enableBuf, Op.waitBegin k] H0 =
      ⟨⟨[], [], [], [], false⟩, [], [], true, [], k, false, true, none, false⟩ := rfl
  rw [hA]
  obtain ⟨t, f, e⟩ := tokens_buffering cs ⟨⟨[], [], [], [], false⟩, [], [], true, [], k, false, true, none, false⟩ rfl rfl hne
  exact ⟨t, f, by rw [e]; simp⟩

/-- if the event is set after the tokens `cs`, some prefix of the buffer had more than k non-empty lines -/
theorem tokens_topk : ∀ (cs : List Str) (h : H), h.buffering = true → h.st.finished = false → (∀ c ∈ cs, c ≠ []) →
    (execOps true (cs.map Op.token) h).topk = true →
    h.topk = true ∨ (h.k > 0 ∧ ∃ p x, h.buffer ++ cs.flatten = p ++ x ∧ qualCount none p > h.k)
  | [], h, _, _, _, ht => Or.inl (by simpa [execOps] using ht)
  | c :: cs, h, hb, hf, hne, ht => by
    have hc : c ≠ [] := hne c (by simp)
    have e := token_buffering h hb hf hc
    simp only [List.map_cons, execOps, List.foldl_cons] at ht
    have ih := tokens_topk cs (execOp true h (Op.token c)) (by rw [e]; exact hb) (by rw [e]; exact hf)
      (fun c' hc' => hne c' (by simp [hc'])) (by simpa [execOps] using ht)
    rw [e] at ih
    simp only at ih
    rcases ih with ih | ⟨hk, p, x, hpx, hq⟩
    · by_cases ht0 : h.topk = true
      · exact Or.inl ht0
      · right
        have ht0' : h.topk = false := by simpa using ht0
        simp only [ht0', Bool.false_or, Bool.and_eq_true, decide_eq_true_eq] at ih
        exact ⟨ih.2, h.buffer ++ c, cs.flatten, by simp, ih.1⟩
    · right
      exact ⟨hk, p, x, by simpa [List.append_assoc] using hpx, hq⟩

/-- EVENT ⇒ PRECONDITION: when the waiter resumes after `a` tokens (the event is set), the k-th non-empty line
    of the buffer is terminated and something follows it -/
theorem event_precondition (site : Site) (cs : List Str) (a : Nat) (hne : ∀ c ∈ cs, c ≠ [])
    (hev : eventSetAt true site cs a = true) :
    ∃ r0, dropTopK site.k none (cs.take a).flatten = some r0 ∧ r0 ≠ [] := by
  have hne1 : ∀ c ∈ cs.take a, c ≠ [] := fun c hc => hne c (List.mem_of_mem_take hc)
  unfold eventSetAt at hev
  rw [execOps_append] at hev
  have hA : execOps true [Op.enableBuf, Op.waitBegin site.k] H0 =
      ⟨⟨[], [], [], [], false⟩, [], [], true, [], site.k, false, true, none, false⟩ := rfl
  rw [hA] at hev
  rcases tokens_topk (cs.take a) _ rfl rfl hne1 hev with h | ⟨hk, p, x, hpx, hq⟩
  · cases h
  · simp only [List.nil_append] at hpx hk hq
    obtain ⟨r, hr, hpos⟩ := dropTopK_of_qualCount p none site.k hk hq
    refine ⟨r ++ x, ?_, ?_⟩
    · rw [hpx]; exact dropTopK_append p _ _ r x hr
    · have := qualCount_pos_ne_nil hpos
      intro e
      exact this (List.append_eq_nil_iff.1 e).1

/-- the value the waiter returns is the same for every chunking and every moment at which it can resume:
    the first k non-empty, non-comment lines of the whole LLM text -/
theorem waiterReturn_eq (site : Site) (cs : List Str) (a : Nat) (hne : ∀ c ∈ cs, c ≠ [])
    (hev : eventSetAt true site cs a = true) :
    waiterReturn true site cs a = returned site.k cs.flatten := by
  have hne1 : ∀ c ∈ cs.take a, c ≠ [] := fun c hc => hne c (List.mem_of_mem_take hc)
  obtain ⟨r0, hr0, _⟩ := event_precondition site cs a hne hev
  obtain ⟨t, f, e⟩ := tokens_buffering_state (cs.take a) site.k hne1
  unfold waiterReturn
  rw [e]
  simp only
  have htext : cs.flatten = (cs.take a).flatten ++ (cs.drop a).flatten := by
    rw [← List.flatten_append, List.take_append_drop]
  rw [htext, returned_stable site.k _ r0 _ hr0]

end NemoVerif.StreamUsage
