/-
  C16 phase 4 — from the history-based `drive` (the loop of `generate_events`: every iteration re-runs
  `compute_next_steps` on the WHOLE history) to an incremental, state-based description: `roundEvents` = the events one
  iteration appends, as a function of the interpreter state after the history; `Runs` = big-step runs of rounds.
  Program-independent (holds for any flow configuration).
-/
import NemoVerif.Lemmas.RailsInterpOut
namespace NemoVerif.RailsInterp
open NemoVerif.V1Interp

def NoHide (H : List Event) : Prop := ∀ e ∈ H, e ≠ .hidePrevTurn

theorem NoHide.append {a b : List Event} (ha : NoHide a) (hb : NoHide b) : NoHide (a ++ b) := by
  intro e he
  rcases List.mem_append.mp he with h | h
  · exact ha e h
  · exact hb e h

theorem applyHide_noHide : ∀ (H acc : List Event), NoHide H → applyHide H acc = some (acc ++ H)
  | [], acc, _ => by simp [applyHide]
  | e :: rest, acc, h => by
    have he : e ≠ .hidePrevTurn := h e (List.mem_cons_self ..)
    have hr : NoHide rest := fun x hx => h x (List.mem_cons_of_mem _ hx)
    cases e <;> first | exact absurd rfl he | (simp only [applyHide]; rw [applyHide_noHide rest _ hr]; simp)

theorem replay_append (cfgs : Cfgs) : ∀ (a b : List Event) (st : State),
    replay true cfgs (a ++ b) st = (match replay true cfgs a st with | .ok st' => replay true cfgs b st' | .error e => .error e)
  | [], _, _ => rfl
  | ev :: rest, b, st => by
    simp only [List.cons_append, replay]
    cases computeNextState true cfgs st ev with
    | error e => rfl
    | ok st' => exact replay_append cfgs rest b _

theorem replay_append_ok (cfgs : Cfgs) (a b : List Event) (st st' : State) (h : replay true cfgs a st = .ok st') :
    replay true cfgs (a ++ b) st = replay true cfgs b st' := by
  rw [replay_append, h]

/-- the step decision of a state (the `next_step` of `compute_next_steps`) -/
def stepDecision (st : State) : Option Decision := st.next.bind fun n => stepToEvent n.elem

/-- the context an action started in this round sees: the round's own `ContextUpdate` is already in the history -/
def roundCtx (st : State) : Ctx := if st.upd.isEmpty then st.ctx else st.ctx.update st.upd

def roundPre (st : State) : List Event := if st.upd.isEmpty then [] else [Event.contextUpdate st.upd]

/-- the events ONE iteration of `generate_events` appends when the interpreter state after the history is `st`, and the
    observable steps; `none` = unscripted action -/
def roundEvents (s : Setup) (st : State) : Option (List Event × List Obs) :=
  match stepDecision st with
  | none => some (roundPre st, [])
  | some (.bot i) => some (roundPre st ++ [.botIntent i], [])
  | some (.act name params rk) =>
    (actionEvents s (roundCtx st) name params rk).map fun p => (roundPre st ++ .startAction :: p.1, p.2)
  | some (.ctx d) => some (roundPre st ++ [.contextUpdate d], [])

theorem decisionsOf_eq (st : State) :
    decisionsOf st = (if st.upd.isEmpty then [] else [Decision.ctx st.upd]) ++ (stepDecision st).toList := by
  unfold decisionsOf stepDecision
  cases st.next with
  | none => rfl
  | some n => simp only [Option.bind]; cases stepToEvent n.elem <;> rfl

theorem stepToEvent_not_ctx (e : Elem) (d : Ctx) : stepToEvent e ≠ some (.ctx d) := by
  unfold stepToEvent
  split
  · split
    · split <;> simp
    · simp
  · simp

theorem ctxAfter_of (cfgs : Cfgs) (config : Ctx) (H : List Event) (st : State) (h : replay true cfgs H { ctx := config } = .ok st) :
    ctxAfter cfgs config H = st.ctx := by
  unfold ctxAfter; rw [h]

theorem applyDecisions_round (s : Setup) (cfgs : Cfgs) (config : Ctx) (H : List Event) (tr : List Obs) (st : State)
    (hrep : replay true cfgs H { ctx := config } = .ok st) :
    applyDecisions s cfgs config (decisionsOf st) H tr = (roundEvents s st).map fun p => (H ++ p.1, tr ++ p.2) := by
  rw [decisionsOf_eq]
  unfold roundEvents roundPre roundCtx
  have hact : ∀ (H0 : List Event) (σ : Ctx) (name params : String) (rk : Option String),
      ctxAfter cfgs config (H0 ++ [.startAction]) = σ →
      applyDecisions s cfgs config [.act name params rk] H0 tr =
        (actionEvents s σ name params rk).map fun p => (H0 ++ .startAction :: p.1, tr ++ p.2) := by
    intro H0 σ name params rk hσ
    simp only [applyDecisions, hσ]
    cases actionEvents s σ name params rk with
    | none => rfl
    | some p => obtain ⟨es, obs⟩ := p; simp [applyDecisions, List.append_assoc]
  cases hd : stepDecision st with
  | none =>
    by_cases hu : st.upd.isEmpty = true
    · simp [hu, applyDecisions]
    · simp [hu, applyDecisions]
  | some d =>
    cases d with
    | ctx d' =>
      exfalso
      unfold stepDecision at hd
      cases hn : st.next with
      | none => rw [hn] at hd; simp at hd
      | some n => rw [hn] at hd; exact stepToEvent_not_ctx _ _ hd
    | bot i =>
      by_cases hu : st.upd.isEmpty = true
      · simp [hu, applyDecisions]
      · simp [hu, applyDecisions]
    | act name params rk =>
      by_cases hu : st.upd.isEmpty = true
      · have hσ : ctxAfter cfgs config (H ++ [.startAction]) = st.ctx := by
          have : replay true cfgs (H ++ [.startAction]) { ctx := config } = .ok st := by
            rw [replay_append_ok _ _ _ _ _ hrep]; rfl
          exact ctxAfter_of _ _ _ _ this
        simp only [hu, if_true, Option.toList, List.nil_append]
        rw [hact H _ _ _ _ hσ]
        cases actionEvents s st.ctx name params rk with
        | none => rfl
        | some p => rfl
      · have hσ : ctxAfter cfgs config ((H ++ [.contextUpdate st.upd]) ++ [.startAction]) = st.ctx.update st.upd := by
          have : replay true cfgs ((H ++ [.contextUpdate st.upd]) ++ [.startAction]) { ctx := config }
              = .ok { st with ctx := st.ctx.update st.upd, upd := [], next := none } := by
            rw [List.append_assoc, replay_append_ok _ _ _ _ _ hrep]; rfl
          exact ctxAfter_of _ _ _ _ this
        simp only [hu, Bool.false_eq_true, if_false, Option.toList, List.cons_append, List.nil_append, applyDecisions, hσ]
        cases actionEvents s (st.ctx.update st.upd) name params rk with
        | none => rfl
        | some p => obtain ⟨es, obs⟩ := p; simp [applyDecisions, List.append_assoc]


def isStop (H : List Event) : Bool := H.getLast? == some (.botIntent "stop")

theorem drive_unfold (s : Setup) (cfgs : Cfgs) (config : Ctx) (f : Nat) (H : List Event) (tr : List Obs) :
    drive s cfgs config (f + 1) H tr =
      (match computeNextSteps true cfgs H config with
      | .ok [] => .done tr (H ++ [.other "Listen"])
      | .ok ds =>
        match applyDecisions s cfgs config ds H tr with
        | some (H', tr') => drive s cfgs config f H' tr'
        | none => .stuck "unscripted action" tr
      | .exprErr => .stuck "expression error" tr
      | .oof => .oof
      | .otherErr e => .stuck e tr) := rfl

/-- one iteration of `drive`, in terms of the state after the history -/
theorem drive_succ (s : Setup) (cfgs : Cfgs) (config : Ctx) (f : Nat) (H : List Event) (tr : List Obs) (st : State)
    (hH : NoHide H) (hrep : replay true cfgs H { ctx := config } = .ok st) :
    drive s cfgs config (f + 1) H tr =
      if isStop H = true ∨ decisionsOf st = [] then .done tr (H ++ [.other "Listen"])
      else match roundEvents s st with
        | some p => drive s cfgs config f (H ++ p.1) (tr ++ p.2)
        | none => .stuck "unscripted action" tr := by
  have hcns : computeNextSteps true cfgs H config = if isStop H then .ok [] else .ok (decisionsOf st) := by
    unfold computeNextSteps isStop
    rw [applyHide_noHide H [] hH]
    simp only [List.nil_append, hrep]
  rw [drive_unfold, hcns]
  by_cases hs : isStop H = true
  · simp [hs]
  · simp only [hs, Bool.false_eq_true, if_false, false_or]
    cases hds : decisionsOf st with
    | nil => simp
    | cons d ds =>
      simp only [reduceCtorEq, if_false]
      rw [← hds, applyDecisions_round s cfgs config H tr st hrep]
      cases roundEvents s st with
      | none => rfl
      | some p => rfl

/-- Big-step runs of the state-based driver: from interpreter state `st` (history not ending in `bot stop`) the loop of
    `generate_events` terminates (with `Listen`) after executing the observable steps `obs`. -/
inductive Runs (s : Setup) (cfgs : Cfgs) : State → List Obs → Prop
  | done (st : State) (h : decisionsOf st = []) : Runs s cfgs st []
  | stop (st st' : State) (es : List Event) (obs : List Obs) (h : roundEvents s st = some (es, obs)) (hne : decisionsOf st ≠ [])
      (hh : NoHide es) (hl : isStop es = true) (hr : replay true cfgs es st = .ok st') : Runs s cfgs st obs
  | step (st st' : State) (es : List Event) (obs obs' : List Obs) (h : roundEvents s st = some (es, obs)) (hne : decisionsOf st ≠ [])
      (hh : NoHide es) (hl : isStop es = false) (hne' : es ≠ []) (hr : replay true cfgs es st = .ok st')
      (hrest : Runs s cfgs st' obs') : Runs s cfgs st (obs ++ obs')

theorem isStop_append (H es : List Event) (hne : es ≠ []) : isStop (H ++ es) = isStop es := by
  unfold isStop
  rw [List.getLast?_append]
  cases h : es.getLast? with
  | none => exact absurd (List.getLast?_eq_none_iff.mp h) hne
  | some e => simp

/-- soundness of `Runs` for the real (history-based) loop: with enough fuel `drive` ends with exactly that trace -/
theorem drive_of_runs (s : Setup) (cfgs : Cfgs) (config : Ctx) (st : State) (obs : List Obs) (hruns : Runs s cfgs st obs) :
    ∀ (H : List Event) (tr : List Obs), NoHide H → replay true cfgs H { ctx := config } = .ok st → isStop H = false →
      ∃ N, ∀ f, N ≤ f → ∃ H', drive s cfgs config f H tr = .done (tr ++ obs) H' := by
  induction hruns with
  | done st h =>
    intro H tr hH hrep hs
    refine ⟨1, fun f hf => ?_⟩
    obtain ⟨f', rfl⟩ : ∃ f', f = f' + 1 := ⟨f - 1, by omega⟩
    rw [drive_succ s cfgs config f' H tr st hH hrep]
    simp [h]
  | stop st st' es obs h hne hh hl hr =>
    intro H tr hH hrep hs
    refine ⟨2, fun f hf => ?_⟩
    obtain ⟨f', rfl⟩ : ∃ f', f = f' + 2 := ⟨f - 2, by omega⟩
    rw [drive_succ s cfgs config (f' + 1) H tr st hH hrep]
    simp only [hs, Bool.false_eq_true, hne, or_self, if_false, h]
    have hne' : es ≠ [] := by intro h0; rw [h0] at hl; simp [isStop] at hl
    rw [drive_succ s cfgs config f' (H ++ es) (tr ++ obs) st' (hH.append hh) (by rw [replay_append_ok _ _ _ _ _ hrep]; exact hr)]
    simp [isStop_append H es hne', hl]
  | step st st' es obs obs' h hne hh hl hne' hr hrest ih =>
    intro H tr hH hrep hs
    obtain ⟨N, hN⟩ := ih (H ++ es) (tr ++ obs) (hH.append hh) (by rw [replay_append_ok _ _ _ _ _ hrep]; exact hr)
      (by rw [isStop_append H es hne']; exact hl)
    refine ⟨N + 1, fun f hf => ?_⟩
    obtain ⟨f', rfl⟩ : ∃ f', f = f' + 1 := ⟨f - 1, by omega⟩
    rw [drive_succ s cfgs config f' H tr st hH hrep]
    simp only [hs, Bool.false_eq_true, hne, or_self, if_false, h]
    obtain ⟨H', hd⟩ := hN f' (by omega)
    exact ⟨H', by rw [hd, List.append_assoc]⟩

/-- prefix runs: rounds that lead from `st` to `st'` -/
inductive RunsTo (s : Setup) (cfgs : Cfgs) : State → List Obs → State → Prop
  | refl (st : State) : RunsTo s cfgs st [] st
  | step (st st' st'' : State) (es : List Event) (obs obs' : List Obs) (h : roundEvents s st = some (es, obs)) (hne : decisionsOf st ≠ [])
      (hh : NoHide es) (hl : isStop es = false) (hne' : es ≠ []) (hr : replay true cfgs es st = .ok st')
      (hrest : RunsTo s cfgs st' obs' st'') : RunsTo s cfgs st (obs ++ obs') st''

theorem RunsTo.trans {s : Setup} {cfgs : Cfgs} {a b c : State} {o1 o2 : List Obs} (h1 : RunsTo s cfgs a o1 b) (h2 : RunsTo s cfgs b o2 c) :
    RunsTo s cfgs a (o1 ++ o2) c := by
  induction h1 with
  | refl st => exact h2
  | step st st' st'' es obs obs' h hne hh hl hne' hr hrest ih =>
    rw [List.append_assoc]; exact .step st st' _ es obs _ h hne hh hl hne' hr (ih h2)

theorem RunsTo.then {s : Setup} {cfgs : Cfgs} {a b : State} {o1 o2 : List Obs} (h1 : RunsTo s cfgs a o1 b) (h2 : Runs s cfgs b o2) :
    Runs s cfgs a (o1 ++ o2) := by
  induction h1 with
  | refl st => exact h2
  | step st st' st'' es obs obs' h hne hh hl hne' hr hrest ih =>
    rw [List.append_assoc]; exact .step st st' es obs _ h hne hh hl hne' hr (ih h2)

/-- one round as a `RunsTo` -/
theorem RunsTo.one {s : Setup} {cfgs : Cfgs} (st st' : State) (es : List Event) (obs : List Obs) (h : roundEvents s st = some (es, obs))
    (hne : decisionsOf st ≠ []) (hh : NoHide es) (hl : isStop es = false) (hne' : es ≠ []) (hr : replay true cfgs es st = .ok st') :
    RunsTo s cfgs st obs st' := by
  have := RunsTo.step st st' st' es obs [] h hne hh hl hne' hr (.refl st')
  simpa using this

end NemoVerif.RailsInterp
