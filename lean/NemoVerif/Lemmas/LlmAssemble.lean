/-
  Lemmas about the response assembly of `LLMRails.generate_async` (Models/LlmAssemble.lean).
-/
import NemoVerif.Models.LlmAssemble

namespace NemoVerif.LlmAssemble
open NemoVerif.Py NemoVerif.Py.Str

/-- decidable equality of outcomes (for the finite witnesses) -/
instance instDecEqExcept {ε α : Type} [DecidableEq ε] [DecidableEq α] : DecidableEq (Except ε α)
  | .ok a, .ok b => if h : a = b then isTrue (by rw [h]) else isFalse (fun h' => by cases h'; exact h rfl)
  | .error a, .error b => if h : a = b then isTrue (by rw [h]) else isFalse (fun h' => by cases h'; exact h rfl)
  | .ok _, .error _ => isFalse (fun h => by cases h)
  | .error _, .ok _ => isFalse (fun h => by cases h)

/-- the exception the 1.0 loop ends with: the LAST event that is not an utterance and whose type ends with the suffix -/
def specExcStep (sp : Spec) (acc : Option Ev) (e : Ev) : Option Ev :=
  if e.type = sp.utterType then acc else if endsWith e.type sp.excSuffix then some e else acc

def specException (sp : Spec) (evs : List Ev) : Option Ev := evs.foldl (specExcStep sp) none

theorem removeLast_slice (rs : List Str) : removeLast .sliceDropLast rs = .ok rs.dropLast := rfl

theorem removeLast_pop_nil : removeLast .pop [] = .error .indexError := rfl

theorem removeLast_pop_ne (rs : List Str) (h : rs ≠ []) : removeLast .pop rs = .ok rs.dropLast := by
  cases rs with
  | nil => exact absurd rfl h
  | cons a t => rfl

/-- one step with the slice: total given the script key, and equal to the specification steps -/
theorem step1_slice (sp : Spec) (h : sp.removeOp = .sliceDropLast) (st : St1) (e : Ev)
    (hs : e.type = sp.utterType → e.script.isSome = true) :
    step1 sp st e = .ok { responses := specStep sp st.responses e, exception := specExcStep sp st.exception e } := by
  unfold step1 specStep specExcStep
  by_cases ht : e.type = sp.utterType
  · have := hs ht
    cases hsc : e.script with
    | none => simp [hsc] at this
    | some s =>
      by_cases hr : s = sp.removeScript
      · simp [ht, hr, h, removeLast_slice]
      · simp [ht, hr]
  · by_cases hx : endsWith e.type sp.excSuffix = true
    · simp [ht, hx]
    · simp [ht, hx]

theorem loop1_slice (sp : Spec) (h : sp.removeOp = .sliceDropLast) :
    ∀ (evs : List Ev) (st : St1), scriptsPresent sp evs →
      loop1 sp st evs = .ok { responses := evs.foldl (specStep sp) st.responses, exception := evs.foldl (specExcStep sp) st.exception }
  | [], st, _ => by simp [loop1]
  | e :: es, st, hp => by
    have he : e.type = sp.utterType → e.script.isSome = true := hp e (by simp)
    have hes : scriptsPresent sp es := fun x hx => hp x (by simp [hx])
    simp only [loop1, step1_slice sp h st e he, List.foldl_cons]
    exact loop1_slice sp h es _ hes

/-- without the key hypothesis the only possible exception of the slice version is the KeyError of `event["script"]` -/
theorem step1_slice_err (sp : Spec) (h : sp.removeOp = .sliceDropLast) (st : St1) (e : Ev) (x : PyErr)
    (hx : step1 sp st e = .error x) : x = .keyError := by
  unfold step1 at hx
  split at hx
  · split at hx
    · cases hx; rfl
    · split at hx
      · simp [h, removeLast_slice] at hx
      · cases hx
  · split at hx <;> cases hx

theorem loop1_slice_err (sp : Spec) (h : sp.removeOp = .sliceDropLast) :
    ∀ (evs : List Ev) (st : St1) (x : PyErr), loop1 sp st evs = .error x → x = .keyError
  | [], st, x, hx => by simp [loop1] at hx
  | e :: es, st, x, hx => by
    simp only [loop1] at hx
    split at hx
    · exact loop1_slice_err sp h es _ x hx
    · rename_i y hy
      cases hx
      exact step1_slice_err sp h st e _ hy

/-- scripts of the utterance events, in order -/
def utterScripts (sp : Spec) (evs : List Ev) : List Str :=
  evs.filterMap (fun e => if e.type = sp.utterType then e.script else none)

theorem foldl_specStep_no_control (sp : Spec) :
    ∀ (evs : List Ev) (acc : List Str), (∀ e ∈ evs, e.type = sp.utterType → e.script ≠ some sp.removeScript) →
      evs.foldl (specStep sp) acc = acc ++ utterScripts sp evs
  | [], acc, _ => by simp [utterScripts]
  | e :: es, acc, hn => by
    have he := hn e (by simp)
    have hes : ∀ x ∈ es, x.type = sp.utterType → x.script ≠ some sp.removeScript := fun x hx => hn x (by simp [hx])
    rw [List.foldl_cons, foldl_specStep_no_control sp es _ hes]
    unfold specStep utterScripts
    by_cases ht : e.type = sp.utterType
    · cases hsc : e.script with
      | none => simp [ht, hsc]
      | some s =>
        have : s ≠ sp.removeScript := fun hh => he ht (by rw [hsc, hh])
        simp [ht, hsc, this]
    · simp [ht]

theorem foldl_specExc_mem (sp : Spec) :
    ∀ (evs : List Ev) (acc : Option Ev) (e : Ev), evs.foldl (specExcStep sp) acc = some e →
      acc = some e ∨ (e ∈ evs ∧ e.type ≠ sp.utterType ∧ endsWith e.type sp.excSuffix = true)
  | [], acc, e, h => by left; simpa using h
  | a :: as, acc, e, h => by
    rw [List.foldl_cons] at h
    rcases foldl_specExc_mem sp as _ e h with h1 | ⟨hm, h2⟩
    · unfold specExcStep at h1
      split at h1
      · left; exact h1
      · split at h1
        · rename_i hne hend
          cases h1
          right; exact ⟨by simp, hne, hend⟩
        · left; exact h1
    · right; exact ⟨by simp [hm], h2⟩

theorem foldl_specExc_none (sp : Spec) :
    ∀ (evs : List Ev), (∀ e ∈ evs, e.type ≠ sp.utterType → endsWith e.type sp.excSuffix = false) →
      evs.foldl (specExcStep sp) none = none
  | [], _ => rfl
  | a :: as, hn => by
    have ha := hn a (by simp)
    have has : ∀ e ∈ as, e.type ≠ sp.utterType → endsWith e.type sp.excSuffix = false := fun x hx => hn x (by simp [hx])
    rw [List.foldl_cons]
    have : specExcStep sp none a = none := by
      unfold specExcStep
      by_cases ht : a.type = sp.utterType
      · simp [ht]
      · simp [ht, ha ht]
    rw [this]
    exact foldl_specExc_none sp as has

/-! ### 2.x -/

theorem step2_ok (sp : Spec) (st : St2) (e : Ev)
    (h1 : (startActionName e.type).isSome = true → e.actionUid.isSome = true)
    (h2 : (startActionName e.type).isSome = false → e.type = sp.finishedType → e.finalScript.isSome = true) :
    ∃ st', step2 sp st e = .ok st' := by
  unfold step2
  cases hn : startActionName e.type with
  | some name =>
    have := h1 (by simp [hn])
    cases hu : e.actionUid with
    | none => simp [hu] at this
    | some uid => exact ⟨_, rfl⟩
  | none =>
    by_cases hf : e.type = sp.finishedType
    · have := h2 (by simp [hn]) hf
      cases hs : e.finalScript with
      | none => simp [hs] at this
      | some s => simp [hf]
    · simp [hf]

theorem loop2_ok (sp : Spec) : ∀ (evs : List Ev) (st : St2), keysPresent sp evs → ∃ st', loop2 sp st evs = .ok st'
  | [], st, _ => ⟨st, rfl⟩
  | e :: es, st, hk => by
    obtain ⟨h1, h2⟩ := hk e (by simp)
    obtain ⟨st', hst⟩ := step2_ok sp st e h1 h2
    simp only [loop2, hst]
    exact loop2_ok sp es st' (fun x hx => hk x (by simp [hx]))

theorem step2_err (sp : Spec) (st : St2) (e : Ev) (x : PyErr) (hx : step2 sp st e = .error x) : x = .keyError := by
  unfold step2 at hx
  split at hx
  · split at hx <;> cases hx; rfl
  · split at hx
    · split at hx <;> cases hx; rfl
    · cases hx

theorem loop2_err (sp : Spec) : ∀ (evs : List Ev) (st : St2) (x : PyErr), loop2 sp st evs = .error x → x = .keyError
  | [], st, x, hx => by simp [loop2] at hx
  | e :: es, st, x, hx => by
    simp only [loop2] at hx
    split at hx
    · exact loop2_err sp es _ x hx
    · rename_i y hy
      cases hx
      exact step2_err sp st e _ hy

/-! ### the `Start(.*Action)` match -/

theorem longestPrefixEnding_sound (pat : Str) : ∀ (s p : Str), longestPrefixEnding pat s = some p → p <+: s ∧ pat <:+ p
  | [], p, h => by
    simp only [longestPrefixEnding] at h
    split at h
    · cases h
      rename_i he
      have : pat = [] := by simpa using he
      subst this
      exact ⟨List.prefix_refl _, List.suffix_refl _⟩
    · cases h
  | c :: cs, p, h => by
    simp only [longestPrefixEnding] at h
    split at h
    · rename_i q hq
      cases h
      obtain ⟨h1, h2⟩ := longestPrefixEnding_sound pat cs q hq
      exact ⟨List.cons_prefix_cons.mpr ⟨rfl, h1⟩, List.IsSuffix.trans h2 (List.suffix_cons c q)⟩
    · split at h
      · rename_i hp
        cases h
        exact ⟨List.isPrefixOf_iff_prefix.mp hp, List.suffix_refl _⟩
      · cases h

theorem longestPrefixEnding_none_absurd (pat : Str) : ∀ (s q : Str), longestPrefixEnding pat s = none → q <+: s → pat <:+ q → False
  | [], q, h, hq, hs => by
    have hq' : q = [] := List.prefix_nil.mp hq
    subst hq'
    have hp : pat = [] := List.suffix_nil.mp hs
    subst hp
    simp [longestPrefixEnding] at h
  | c :: cs, q, h, hq, hs => by
    simp only [longestPrefixEnding] at h
    split at h
    · cases h
    · rename_i hnone
      split at h
      · cases h
      · rename_i hp
        cases q with
        | nil =>
          have : pat = [] := List.suffix_nil.mp hs
          subst this
          simp at hp
        | cons d ds =>
          have hcd := (List.cons_prefix_cons.mp hq)
          rcases List.suffix_cons_iff.mp hs with h1 | h1
          · subst h1
            exact hp (List.isPrefixOf_iff_prefix.mpr hq)
          · exact longestPrefixEnding_none_absurd pat cs ds hnone hcd.2 h1

/-- greedy: no longer prefix of `s` ends with `pat` -/
theorem longestPrefixEnding_greedy (pat : Str) : ∀ (s p q : Str), longestPrefixEnding pat s = some p → q <+: s → pat <:+ q → q.length ≤ p.length
  | [], p, q, h, hq, _ => by
    have : q = [] := List.prefix_nil.mp hq
    subst this; simp
  | c :: cs, p, q, h, hq, hs => by
    simp only [longestPrefixEnding] at h
    split at h
    · rename_i r hr
      cases h
      cases q with
      | nil => simp
      | cons d ds =>
        have hds : ds <+: cs := (List.cons_prefix_cons.mp hq).2
        by_cases hpat : pat <:+ ds
        · have := longestPrefixEnding_greedy pat cs r ds hr hds hpat
          simp; omega
        · -- pat is a suffix of d :: ds but not of ds: pat = d :: ds
          have : pat = d :: ds := by
            rcases List.suffix_cons_iff.mp hs with h1 | h1
            · exact h1
            · exact absurd h1 hpat
          have hle := (longestPrefixEnding_sound pat cs r hr)
          have : pat.length ≤ r.length := hle.2.length_le
          simp_all; omega
    · split at h
      · rename_i hnone hp
        cases h
        cases q with
        | nil => simp
        | cons d ds =>
          have hds : ds <+: cs := (List.cons_prefix_cons.mp hq).2
          by_cases hpat : pat <:+ ds
          · exfalso
            exact longestPrefixEnding_none_absurd pat cs ds hnone hds hpat
          · have : pat = d :: ds := by
              rcases List.suffix_cons_iff.mp hs with h1 | h1
              · exact h1
              · exact absurd h1 hpat
            simp [this]
      · cases h

theorem mem_takeWhile_pred {α} (p : α → Bool) : ∀ (l : List α) (x : α), x ∈ l.takeWhile p → p x = true
  | [], x, h => by simp at h
  | a :: as, x, h => by
    by_cases ha : p a = true
    · simp only [List.takeWhile_cons, ha, if_true, List.mem_cons] at h
      rcases h with rfl | h
      · exact ha
      · exact mem_takeWhile_pred p as x h
    · simp [ha] at h

/-- the greedy match of `Start(.*Action)`: the name follows `Start` literally, ends with `Action`, contains no newline -/
theorem startActionName_sound (t n : Str) (h : startActionName t = some n) :
    ("Start".toList ++ n) <+: t ∧ "Action".toList <:+ n ∧ '\n' ∉ n := by
  unfold startActionName at h
  split at h
  · rename_i hp
    obtain ⟨h1, h2⟩ := longestPrefixEnding_sound _ _ _ h
    have hpre : "Start".toList <+: t := List.isPrefixOf_iff_prefix.mp hp
    obtain ⟨r, hr⟩ := hpre
    have hdrop : t.drop 5 = r := by rw [← hr]; simp
    have hline : n <+: t.drop 5 := List.IsPrefix.trans h1 (List.takeWhile_prefix _)
    refine ⟨?_, h2, ?_⟩
    · rw [← hr, ← hdrop]
      exact (List.prefix_append_right_inj _).mpr hline
    · intro hmem
      have := mem_takeWhile_pred _ _ _ (h1.subset hmem)
      simp at this
  · cases h

/-- … and it is the LONGEST such name on the first line (greedy `.*`) -/
theorem startActionName_greedy (t n q : Str) (h : startActionName t = some n)
    (hq : q <+: (t.drop 5).takeWhile (· != '\n')) (hs : "Action".toList <:+ q) : q.length ≤ n.length := by
  unfold startActionName at h
  split at h
  · exact longestPrefixEnding_greedy _ _ _ _ h hq hs
  · cases h

/-- no match: the type does not start with `Start`, or no prefix of the rest of its first line ends with `Action` -/
theorem startActionName_none (t q : Str) (h : startActionName t = none) (hp : "Start".toList <+: t)
    (hq : q <+: (t.drop 5).takeWhile (· != '\n')) : ¬ "Action".toList <:+ q := by
  unfold startActionName at h
  rw [if_pos (List.isPrefixOf_iff_prefix.mpr hp)] at h
  exact fun hs => longestPrefixEnding_none_absurd _ _ _ h hq hs

end NemoVerif.LlmAssemble
