/-
  Helper lemmas for the C08 model (`Models/Bind.lean`).
-/
import NemoVerif.Models.Bind

namespace NemoVerif.Bind

theorem lookup_set_eq (k : Key) (v : Val) (c : Ctx) : lookup k (set k v c) = some v := by
  induction c with
  | nil => simp [set, lookup]
  | cons kv r ih =>
    obtain ⟨k', v'⟩ := kv
    by_cases h : k' = k
    · simp [set, lookup, h]
    · simp [set, lookup, h, ih]

theorem lookup_set_ne (k k' : Key) (v : Val) (c : Ctx) (h : k' ≠ k) : lookup k' (set k v c) = lookup k' c := by
  induction c with
  | nil => simp [set, lookup, Ne.symm h]
  | cons kv r ih =>
    obtain ⟨k'', v''⟩ := kv
    by_cases h1 : k'' = k
    · subst h1
      simp [set, lookup, Ne.symm h]
    · by_cases h2 : k'' = k'
      · subst h2
        simp [set, lookup, h]
      · simp [set, lookup, h1, h2, ih]

end NemoVerif.Bind
