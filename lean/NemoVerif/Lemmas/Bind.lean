/-
  Helper lemmas for the C08 model (`Models/Bind.lean`): association-list dictionaries, the three
  loops of `create_flow_instance`, the loop of `_start_flow`, frame lemmas of the mini interpreter.
-/
import NemoVerif.Models.Bind

namespace NemoVerif.Bind

/-! ### insertion-ordered dictionaries -/

theorem lookup_set_eq (k : Key) (v : Val) (c : Ctx) : lookup k (set k v c) = some v := by
  induction c with
  | nil => simp [set, lookup]
  | cons kv r ih =>
    obtain ⟨k', v'⟩ := kv
    by_cases h : k' = k
    · simp [set, lookup, h]
    · simp [set, lookup, h, ih]

theorem lookup_set_ne (k k' : Key) (v : Val) (c : Ctx) (h : k' ≠ k) : lookup k' (set k v c) = lookup k' c := by
  induction c with
  | nil => simp [set, lookup, Ne.symm h]
  | cons kv r ih =>
    obtain ⟨k'', v''⟩ := kv
    by_cases h1 : k'' = k
    · subst h1
      simp [set, lookup, Ne.symm h]
    · by_cases h2 : k'' = k'
      · subst h2
        simp [set, lookup, h]
      · simp [set, lookup, h1, h2, ih]

theorem lookup_eq_none_iff (k : Key) (c : Ctx) : lookup k c = none ↔ k ∉ keys c := by
  induction c with
  | nil => simp [lookup, keys]
  | cons kv r ih =>
    obtain ⟨k', v'⟩ := kv
    by_cases h : k' = k
    · simp [lookup, keys, h]
    · simp only [lookup, h, if_false, keys, List.map_cons, List.mem_cons, not_or]
      constructor
      · intro hn; exact ⟨fun e => h e.symm, by simpa [keys] using ih.1 hn⟩
      · intro hn; exact ih.2 (by simpa [keys] using hn.2)

theorem has_eq_false_iff (k : Key) (c : Ctx) : has k c = false ↔ k ∉ keys c := by
  rw [← lookup_eq_none_iff]
  unfold has
  cases lookup k c <;> simp

theorem has_eq_true_iff (k : Key) (c : Ctx) : has k c = true ↔ k ∈ keys c := by
  have := has_eq_false_iff k c
  cases h : has k c <;> simp_all

theorem keys_set_of_mem (k : Key) (v : Val) (c : Ctx) (h : k ∈ keys c) : keys (set k v c) = keys c := by
  induction c with
  | nil => simp [keys] at h
  | cons kv r ih =>
    obtain ⟨k', v'⟩ := kv
    by_cases h1 : k' = k
    · simp [set, keys, h1]
    · have : k ∈ keys r := by
        simp only [keys, List.map_cons, List.mem_cons] at h
        rcases h with h | h
        · exact absurd h.symm h1
        · exact h
      simp only [set, h1, if_false, keys, List.map_cons] at ih ⊢
      rw [ih this]

theorem keys_set_of_not_mem (k : Key) (v : Val) (c : Ctx) (h : k ∉ keys c) : keys (set k v c) = keys c ++ [k] := by
  induction c with
  | nil => simp [set, keys]
  | cons kv r ih =>
    obtain ⟨k', v'⟩ := kv
    simp only [keys, List.map_cons, List.mem_cons, not_or] at h
    have h1 : ¬ k' = k := fun e => h.1 e.symm
    simp only [set, h1, if_false, keys, List.map_cons, List.cons_append] at ih ⊢
    rw [ih h.2]

/-- `d[k] = v` never reorders existing keys: the old key list is a prefix of the new one. -/
theorem keys_set_prefix (k : Key) (v : Val) (c : Ctx) : ∃ rest, keys (set k v c) = keys c ++ rest ∧ ∀ x ∈ rest, x = k := by
  by_cases h : k ∈ keys c
  · exact ⟨[], by simp [keys_set_of_mem k v c h], by simp⟩
  · exact ⟨[k], keys_set_of_not_mem k v c h, by simp⟩

theorem mem_keys_set (k k' : Key) (v : Val) (c : Ctx) : k' ∈ keys (set k v c) ↔ k' = k ∨ k' ∈ keys c := by
  by_cases h : k ∈ keys c
  · rw [keys_set_of_mem k v c h]
    constructor
    · exact Or.inr
    · rintro (e | e)
      · exact e ▸ h
      · exact e
  · rw [keys_set_of_not_mem k v c h]
    simp [or_comm]

/-! ### keys of parameters -/

theorem argKey_inj {a b : String} (h : argKey a = argKey b) : a = b := by
  unfold argKey at h
  by_cases ha : a ∈ reservedNames <;> by_cases hb : b ∈ reservedNames <;> simp [ha, hb] at h <;> exact h

theorem argKey_ne_pos (a : String) (i : Nat) : argKey a ≠ Key.pos i := by
  unfold argKey; by_cases ha : a ∈ reservedNames <;> simp [ha]

theorem paramOfKey_argKey (a : String) : paramOfKey (argKey a) = Key.name a := by
  unfold argKey; by_cases ha : a ∈ reservedNames <;> simp [ha, paramOfKey]

/-- the parameter key never collides with a key the interpreter sets itself -/
theorem argKey_ne_reserved (a r : String) (hr : r ∈ reservedNames) : argKey a ≠ Key.name r := by
  unfold argKey
  by_cases ha : a ∈ reservedNames
  · simp [ha]
  · simp only [ha, if_false]; intro e; injection e with e; exact ha (e ▸ hr)

/-! ### the loops of `create_flow_instance` -/

/-- value the first loop of `create_flow_instance` gives a parameter -/
def namedVal (ev : Ctx) (p : Param) : Val :=
  match lookup (argKey p.name) ev with
  | some v => v
  | none => p.dfltVal

def pnames (ps : List Param) : List String := ps.map (·.name)

theorem bindNamed_args_other (ev : Ctx) (k : Key) : ∀ (ps : List Param) (a c : Ctx),
    (∀ p ∈ ps, argKey p.name ≠ k) → lookup k (bindNamed ev ps (a, c)).1 = lookup k a
  | [], a, c, _ => by simp [bindNamed]
  | p :: ps, a, c, h => by
    have hp : k ≠ argKey p.name := fun e => h p (by simp) e.symm
    have ih := bindNamed_args_other ev k ps (set (argKey p.name) (namedVal ev p) a) (set (.name p.name) (namedVal ev p) c)
      (fun q hq => h q (by simp [hq]))
    simp only [bindNamed]
    rw [lookup_set_ne _ _ _ _ hp] at ih
    exact ih

theorem bindNamed_ctx_other (ev : Ctx) (k : Key) : ∀ (ps : List Param) (a c : Ctx),
    (∀ p ∈ ps, Key.name p.name ≠ k) → lookup k (bindNamed ev ps (a, c)).2 = lookup k c
  | [], a, c, _ => by simp [bindNamed]
  | p :: ps, a, c, h => by
    have hp : k ≠ Key.name p.name := fun e => h p (by simp) e.symm
    have ih := bindNamed_ctx_other ev k ps (set (argKey p.name) (namedVal ev p) a) (set (.name p.name) (namedVal ev p) c)
      (fun q hq => h q (by simp [hq]))
    simp only [bindNamed]
    rw [lookup_set_ne _ _ _ _ hp] at ih
    exact ih

theorem bindNamed_lookup_mem (ev : Ctx) : ∀ (ps : List Param) (a c : Ctx), (pnames ps).Nodup →
    ∀ p ∈ ps, lookup (argKey p.name) (bindNamed ev ps (a, c)).1 = some (namedVal ev p) ∧
              lookup (.name p.name) (bindNamed ev ps (a, c)).2 = some (namedVal ev p)
  | [], _, _, _, p, hp => by simp at hp
  | q :: ps, a, c, hnd, p, hp => by
    simp only [pnames, List.map_cons, List.nodup_cons] at hnd
    simp only [bindNamed]
    by_cases hq : p.name = q.name
    · have hnot : ∀ r ∈ ps, r.name ≠ q.name := fun r hr e => hnd.1 (e ▸ List.mem_map_of_mem hr)
      have h1 := bindNamed_args_other ev (argKey q.name) ps (set (argKey q.name) (namedVal ev q) a) (set (.name q.name) (namedVal ev q) c)
        (fun r hr e => hnot r hr (argKey_inj e))
      have h2 := bindNamed_ctx_other ev (.name q.name) ps (set (argKey q.name) (namedVal ev q) a) (set (.name q.name) (namedVal ev q) c)
        (fun r hr e => hnot r hr (by injection e))
      rw [lookup_set_eq] at h1 h2
      rcases List.mem_cons.1 hp with e | e
      · subst e; exact ⟨h1, h2⟩
      · exact absurd (hq ▸ List.mem_map_of_mem e : q.name ∈ ps.map (·.name)) hnd.1
    · rcases List.mem_cons.1 hp with e | e
      · exact absurd (e ▸ rfl) hq
      · exact bindNamed_lookup_mem ev ps _ _ hnd.2 p e

theorem bindNamed_keys (ev : Ctx) : ∀ (ps : List Param) (a c : Ctx), (pnames ps).Nodup →
    (∀ p ∈ ps, argKey p.name ∉ keys a) →
    keys (bindNamed ev ps (a, c)).1 = keys a ++ (pnames ps).map argKey
  | [], a, c, _, _ => by simp [bindNamed, pnames]
  | q :: ps, a, c, hnd, hdis => by
    simp only [pnames, List.map_cons, List.nodup_cons] at hnd
    simp only [bindNamed]
    have hq : argKey q.name ∉ keys a := hdis q (by simp)
    rw [bindNamed_keys ev ps _ _ hnd.2]
    · rw [keys_set_of_not_mem _ _ _ hq]; simp [pnames]
    · intro p hp hmem
      rw [mem_keys_set] at hmem
      rcases hmem with e | e
      · exact hnd.1 (argKey_inj e ▸ List.mem_map_of_mem hp)
      · exact hdis p (by simp [hp]) e

/-- the second loop only appends `$i` keys: the key order of `arguments` keeps the parameter keys in front -/
theorem bindPos_keys (ev : Ctx) : ∀ (ps : List Param) (i : Nat) (a : Ctx),
    (∀ p ∈ ps, argKey p.name ∈ keys a) →
    ∃ rest, keys (bindPos ev ps i a) = keys a ++ rest ∧ ∀ x ∈ rest, ∃ j, x = Key.pos j
  | [], _, a, _ => ⟨[], by simp [bindPos], by simp⟩
  | p :: ps, i, a, h => by
    simp only [bindPos]
    cases hl : lookup (.pos i) ev with
    | none => exact bindPos_keys ev ps (i + 1) a (fun q hq => h q (by simp [hq]))
    | some v =>
      simp only
      have hp : argKey p.name ∈ keys a := h p (by simp)
      have h1 : keys (set (argKey p.name) v a) = keys a := keys_set_of_mem _ _ _ hp
      obtain ⟨r1, hr1, hr1'⟩ := keys_set_prefix (.pos i) v (set (argKey p.name) v a)
      obtain ⟨r2, hr2, hr2'⟩ := bindPos_keys ev ps (i + 1) (set (.pos i) v (set (argKey p.name) v a))
        (fun q hq => by rw [hr1, h1]; exact List.mem_append_left _ (h q (by simp [hq])))
      refine ⟨r1 ++ r2, by rw [hr2, hr1, h1, List.append_assoc], ?_⟩
      intro x hx
      rcases List.mem_append.1 hx with hx | hx
      · exact ⟨i, hr1' x hx⟩
      · exact hr2' x hx

theorem bindPos_lookup_name_other (ev : Ctx) (x : String) : ∀ (ps : List Param) (i : Nat) (a : Ctx), x ∉ pnames ps →
    lookup (argKey x) (bindPos ev ps i a) = lookup (argKey x) a
  | [], _, _, _ => by simp [bindPos]
  | p :: ps, i, a, h => by
    simp only [pnames, List.map_cons, List.mem_cons, not_or] at h
    simp only [bindPos]
    cases hl : lookup (.pos i) ev with
    | none => exact bindPos_lookup_name_other ev x ps (i + 1) a h.2
    | some v =>
      simp only
      rw [bindPos_lookup_name_other ev x ps (i + 1) _ h.2, lookup_set_ne _ _ _ _ (argKey_ne_pos x i),
        lookup_set_ne _ _ _ _ (fun e => h.1 (argKey_inj e))]

/-- `arguments[flow_argument_key(name)]` after the second loop -/
theorem bindPos_lookup_name (ev : Ctx) : ∀ (ps : List Param) (i : Nat) (a : Ctx), (pnames ps).Nodup →
    ∀ (j : Nat) (hj : j < ps.length),
    lookup (argKey ps[j].name) (bindPos ev ps i a) =
      (match lookup (.pos (i + j)) ev with | some v => some v | none => lookup (argKey ps[j].name) a)
  | [], _, _, _, j, hj => by simp at hj
  | p :: ps, i, a, hnd, j, hj => by
    simp only [pnames, List.map_cons, List.nodup_cons] at hnd
    cases j with
    | zero =>
      simp only [List.getElem_cons_zero, Nat.add_zero, bindPos]
      cases hl : lookup (.pos i) ev with
      | none => simp only; exact bindPos_lookup_name_other ev p.name ps (i + 1) a hnd.1
      | some v =>
        simp only
        rw [bindPos_lookup_name_other ev p.name ps (i + 1) _ hnd.1, lookup_set_ne _ _ _ _ (argKey_ne_pos _ _), lookup_set_eq]
    | succ j =>
      have hj' : j < ps.length := by simpa using hj
      have hne : ps[j].name ≠ p.name := fun e => hnd.1 (e ▸ List.mem_map_of_mem (List.getElem_mem hj'))
      simp only [List.getElem_cons_succ, bindPos]
      have hidx : i + (j + 1) = (i + 1) + j := by omega
      cases hl : lookup (.pos i) ev with
      | none => simp only; rw [bindPos_lookup_name ev ps (i + 1) a hnd.2 j hj', hidx]
      | some v =>
        simp only
        rw [bindPos_lookup_name ev ps (i + 1) _ hnd.2 j hj', hidx, lookup_set_ne _ _ _ _ (argKey_ne_pos _ _),
          lookup_set_ne _ _ _ _ (fun e => hne (argKey_inj e))]

theorem bindRet_lookup_other (k : Key) : ∀ (ms : List Param) (c : Ctx), (∀ m ∈ ms, Key.name m.name ≠ k) →
    lookup k (bindRet ms c) = lookup k c
  | [], _, _ => by simp [bindRet]
  | m :: ms, c, h => by
    simp only [bindRet]
    rw [bindRet_lookup_other k ms _ (fun q hq => h q (by simp [hq])), lookup_set_ne _ _ _ _ (fun e => h m (by simp) e.symm)]

/-! ### the loop of `_start_flow` -/

theorem startLoop_lookup_not_mem (ev : Ctx) (k : Key) : ∀ (ks : List Key) (idx : Nat) (c : Ctx), k ∉ ks.map paramOfKey →
    lookup k (startLoop ev ks idx c).1 = lookup k c
  | [], _, _, _ => by simp [startLoop]
  | a :: ks, idx, c, h => by
    simp only [List.map_cons, List.mem_cons, not_or] at h
    simp only [startLoop]
    cases hl : lookup (.pos idx) ev with
    | none => rfl
    | some v =>
      simp only
      rw [startLoop_lookup_not_mem ev k ks (idx + 1) _ h.2, lookup_set_ne _ _ _ _ h.1]

/-- `last_idx + 1` never falls below the number of contiguous positionals consumed -/
theorem startLoop_next_ge (ev : Ctx) : ∀ (ks : List Key) (idx : Nat) (c : Ctx), idx ≤ (startLoop ev ks idx c).2
  | [], _, _ => by simp [startLoop]
  | a :: ks, idx, c => by
    simp only [startLoop]
    cases hl : lookup (.pos idx) ev with
    | none => simp
    | some v => simp only; exact Nat.le_trans (Nat.le_succ idx) (startLoop_next_ge ev ks (idx + 1) _)

/-- with `m` contiguous positionals from `idx` on and none at `idx+m`, `last_idx + 1 ≥ idx + m` -/
theorem startLoop_next_ge' (ev : Ctx) : ∀ (ks : List Key) (idx m : Nat) (c : Ctx),
    (∀ j, j < m → (lookup (.pos (idx + j)) ev).isSome) → m ≤ ks.length → idx + m ≤ (startLoop ev ks idx c).2
  | [], idx, m, c, _, hm => by simp at hm; simp [startLoop, hm]
  | a :: ks, idx, m, c, hp, hm => by
    cases m with
    | zero => exact startLoop_next_ge ev _ idx c
    | succ m =>
      simp only [startLoop]
      have h0 := hp 0 (by omega)
      simp only [Nat.add_zero] at h0
      cases hl : lookup (.pos idx) ev with
      | none => rw [hl] at h0; simp at h0
      | some v =>
        simp only
        have := startLoop_next_ge' ev ks (idx + 1) m (set (paramOfKey a) v c) (fun j hj => by
          have := hp (j + 1) (by omega)
          rwa [show idx + (j + 1) = idx + 1 + j by omega] at this) (by simpa using hm)
        omega

/-- Main lemma about `_start_flow`'s loop: the keys are the parameter keys followed by `$i` keys;
    `m` positionals are present from `idx` on and `$idx+m` is absent. -/
theorem startLoop_names (ev : Ctx) (rest : List Key) (hrest : ∀ x ∈ rest, ∃ j, x = Key.pos j) :
    ∀ (ns : List String) (idx m : Nat) (c : Ctx), ns.Nodup → m ≤ ns.length →
    (∀ j, j < m → (lookup (.pos (idx + j)) ev).isSome) → lookup (.pos (idx + m)) ev = none →
    ∀ (i : Nat) (hi : i < ns.length),
      lookup (.name ns[i]) (startLoop ev (ns.map argKey ++ rest) idx c).1 =
        if i < m then lookup (.pos (idx + i)) ev else lookup (.name ns[i]) c
  | [], _, _, _, _, _, _, _, i, hi => by simp at hi
  | x :: ns, idx, m, c, hnd, hm, hp, hn, i, hi => by
    simp only [List.nodup_cons] at hnd
    simp only [List.map_cons, List.cons_append, startLoop]
    cases m with
    | zero =>
      simp only [Nat.add_zero] at hn
      simp [hn]
    | succ m =>
      have h0 := hp 0 (by omega)
      simp only [Nat.add_zero] at h0
      cases hl : lookup (.pos idx) ev with
      | none => rw [hl] at h0; simp at h0
      | some v =>
        simp only [paramOfKey_argKey]
        have hp' : ∀ j, j < m → (lookup (.pos (idx + 1 + j)) ev).isSome := fun j hj => by
          have := hp (j + 1) (by omega)
          rwa [show idx + (j + 1) = idx + 1 + j by omega] at this
        have hn' : lookup (.pos (idx + 1 + m)) ev = none := by
          rwa [show idx + (m + 1) = idx + 1 + m by omega] at hn
        cases i with
        | zero =>
          simp only [List.getElem_cons_zero, Nat.add_zero, Nat.zero_lt_succ, if_true]
          rw [startLoop_lookup_not_mem ev (.name x) _ (idx + 1) _ ?_, lookup_set_eq, hl]
          intro hmem
          rw [List.map_append] at hmem
          rcases List.mem_append.1 hmem with hmem | hmem
          · rcases List.mem_map.1 hmem with ⟨y, hy, e⟩
            rcases List.mem_map.1 hy with ⟨z, hz, e2⟩
            subst e2
            rw [paramOfKey_argKey] at e
            injection e with e
            exact hnd.1 (e ▸ hz)
          · rcases List.mem_map.1 hmem with ⟨y, hy, e⟩
            obtain ⟨j, e2⟩ := hrest _ hy
            subst e2
            simp [paramOfKey] at e
        | succ i =>
          have hi' : i < ns.length := by simpa using hi
          have hne : ns[i] ≠ x := fun e => hnd.1 (e ▸ List.getElem_mem hi')
          simp only [List.getElem_cons_succ]
          rw [startLoop_names ev rest hrest ns (idx + 1) m (set (.name x) v c) hnd.2 (by simpa using hm) hp' hn' i hi',
            lookup_set_ne _ _ _ _ (by intro e; injection e with e; exact hne e)]
          have : idx + (i + 1) = idx + 1 + i := by omega
          simp only [this, Nat.succ_lt_succ_iff]

/-! ### specification-level definitions used by the property theorems -/

/-- The property's binding rule for parameter `i` of a call with `k` positional arguments. -/
def specVal (ev : Ctx) (k i : Nat) (p : Param) : Val :=
  if i < k then (lookup (.pos i) ev).getD .none else namedVal ev p

/-- A call the statement speaks about: distinct parameter names, `k ≤ n` contiguous positionals,
    parent link keys present, no shared `context`, return members not named like parameters. -/
structure WellFormed (params rets : List Param) (ev : Ctx) (k : Nat) : Prop where
  nodup : (pnames params).Nodup
  noCtx : lookup (.name "context") ev = none
  retsDisjoint : ∀ m ∈ rets, m.name ∉ pnames params
  parentUid : (lookup (.name "source_flow_instance_uid") ev).isSome
  parentHead : (lookup (.name "source_head_uid") ev).isSome
  kle : k ≤ params.length
  pos : ∀ i, i < k → (lookup (.pos i) ev).isSome
  nopos : ∀ i, k ≤ i → lookup (.pos i) ev = none

theorem bind_spec_core (fid : String) (params rets : List Param) (ev : Ctx) (k : Nat)
    (h : WellFormed params rets ev k) :
    ∃ f0 f, createFlowInstance fid params rets ev = .ok f0 ∧ startFlow false ev f0 = .ok f ∧
      (∀ i (hi : i < params.length), lookup (.name params[i].name) f.context = some (specVal ev k i params[i])) ∧
      (∀ i (hi : i < params.length), lookup (argKey params[i].name) f.arguments = some (specVal ev k i params[i])) := by
  obtain ⟨hnd, hctx, hrets, hpu, hph, hk, hpos, hnopos⟩ := h
  have hcreate : createFlowInstance fid params rets ev =
      .ok { flowId := fid, arguments := bindPos ev params 0 (bindNamed ev params ([], [])).1,
            context := bindRet rets (bindNamed ev params ([], [])).2 } := by
    simp [createFlowInstance, startCtx, hctx]
  have hk1 : keys (bindNamed ev params ([], [])).1 = (pnames params).map argKey := by
    have := bindNamed_keys ev params [] [] hnd (by simp [keys])
    simpa [keys] using this
  obtain ⟨rest, hkeys, hrest⟩ := bindPos_keys ev params 0 (bindNamed ev params ([], [])).1 (by
    intro p hp; rw [hk1]; exact List.mem_map_of_mem (List.mem_map_of_mem hp))
  rw [hk1] at hkeys
  obtain ⟨pu, hpu'⟩ := Option.isSome_iff_exists.1 hpu
  obtain ⟨ph, hph'⟩ := Option.isSome_iff_exists.1 hph
  have hlen : (pnames params).length = params.length := by simp [pnames]
  have hnext : has (.pos (startLoop ev ((pnames params).map argKey ++ rest) 0 (bindRet rets (bindNamed ev params ([], [])).2)).2) ev = false := by
    have hge := startLoop_next_ge' ev ((pnames params).map argKey ++ rest) 0 k (bindRet rets (bindNamed ev params ([], [])).2)
      (fun j hj => by simpa using hpos j hj) (by simp [hlen]; omega)
    rw [has_eq_false_iff, ← lookup_eq_none_iff]
    exact hnopos _ (by omega)
  refine ⟨_, { flowId := fid, arguments := bindPos ev params 0 (bindNamed ev params ([], [])).1,
               context := (startLoop ev ((pnames params).map argKey ++ rest) 0 (bindRet rets (bindNamed ev params ([], [])).2)).1,
               parent := some pu }, hcreate, ?_, ?_, ?_⟩
  · simp [startFlow, hpu', hph', hkeys, hnext]
  · intro i hi
    have hi' : i < (pnames params).length := by omega
    have hname : (pnames params)[i] = params[i].name := by simp [pnames]
    have := startLoop_names ev rest hrest (pnames params) 0 k (bindRet rets (bindNamed ev params ([], [])).2) hnd (by omega)
      (fun j hj => by simpa using hpos j hj) (by simpa using hnopos k (Nat.le_refl k)) i hi'
    simp only [hname, Nat.zero_add] at this
    simp only [this, specVal]
    by_cases hik : i < k
    · simp only [hik, if_true]
      obtain ⟨v, hv⟩ := Option.isSome_iff_exists.1 (hpos i hik)
      simp [hv]
    · simp only [hik, if_false]
      rw [bindRet_lookup_other _ rets _ (fun m hm e => hrets m hm (by
        injection e with e
        exact e ▸ List.mem_map_of_mem (List.getElem_mem hi)))]
      exact (bindNamed_lookup_mem ev params [] [] hnd params[i] (List.getElem_mem hi)).2
  · intro i hi
    have := bindPos_lookup_name ev params 0 (bindNamed ev params ([], [])).1 hnd i hi
    simp only [Nat.zero_add] at this
    simp only [this, specVal]
    by_cases hik : i < k
    · obtain ⟨v, hv⟩ := Option.isSome_iff_exists.1 (hpos i hik)
      simp [hik, hv]
    · rw [hnopos i (by omega)]
      simp only [hik, if_false]
      exact (bindNamed_lookup_mem ev params [] [] hnd params[i] (List.getElem_mem hi)).1

/-! ### call level: the StartFlow event built by the expansion / `slide` -/

theorem startArgs_lookup_pos (ua : Ctx) (form : CallForm) (flow : String) (n caller i : Nat) :
    lookup (.pos i) (startArgs ua form flow n caller) = lookup (.pos i) ua := by
  unfold startArgs matchArgs
  by_cases hf : form = .activate <;> simp [hf, lookup_set_ne]

/-- keys that are none of the interpreter's own survive `startArgs` untouched -/
theorem startArgs_lookup_other (ua : Ctx) (form : CallForm) (flow : String) (n caller : Nat) (k : Key)
    (hk : ∀ r ∈ reservedNames, k ≠ Key.name r) : lookup k (startArgs ua form flow n caller) = lookup k ua := by
  have h1 := hk "flow_id" (by decide)
  have h2 := hk "flow_instance_uid" (by decide)
  have h3 := hk "activated" (by decide)
  have h4 := hk "source_flow_instance_uid" (by decide)
  have h5 := hk "source_head_uid" (by decide)
  have h6 := hk "flow_hierarchy_position" (by decide)
  unfold startArgs matchArgs
  by_cases hf : form = .activate <;>
    simp only [hf, if_true, if_false] <;>
    simp only [lookup_set_ne _ _ _ _ h1, lookup_set_ne _ _ _ _ h2, lookup_set_ne _ _ _ _ h3,
      lookup_set_ne _ _ _ _ h4, lookup_set_ne _ _ _ _ h5, lookup_set_ne _ _ _ _ h6]

/-- the repaired binding: a parameter's argument key is never one of the interpreter's own keys -/
theorem startArgs_lookup_argKey (ua : Ctx) (form : CallForm) (flow : String) (n caller : Nat) (x : String) :
    lookup (argKey x) (startArgs ua form flow n caller) = lookup (argKey x) ua :=
  startArgs_lookup_other ua form flow n caller (argKey x) (fun r hr => argKey_ne_reserved x r hr)

theorem startArgs_parent (ua : Ctx) (form : CallForm) (flow : String) (n caller : Nat) :
    (lookup (.name "source_flow_instance_uid") (startArgs ua form flow n caller)).isSome ∧
    (lookup (.name "source_head_uid") (startArgs ua form flow n caller)).isSome := by
  unfold startArgs
  have ne : ∀ {a b : String}, a ≠ b → Key.name a ≠ Key.name b := fun h e => h (by injection e)
  constructor
  · rw [lookup_set_ne _ _ _ _ (ne (by decide)), lookup_set_ne _ _ _ _ (ne (by decide)), lookup_set_eq]; rfl
  · rw [lookup_set_ne _ _ _ _ (ne (by decide)), lookup_set_eq]; rfl

/-- A call as the user wrote it (`ua` = evaluated user arguments). No restriction on parameter names. -/
structure WellFormedCall (params rets : List Param) (ua : Ctx) (k : Nat) : Prop where
  nodup : (pnames params).Nodup
  noCtx : lookup (.name "context") ua = none
  retsDisjoint : ∀ m ∈ rets, m.name ∉ pnames params
  kle : k ≤ params.length
  pos : ∀ i, i < k → (lookup (.pos i) ua).isSome
  nopos : ∀ i, k ≤ i → lookup (.pos i) ua = none

theorem wellFormed_of_call (params rets : List Param) (ua : Ctx) (k : Nat) (form : CallForm) (flow : String)
    (n caller : Nat) (h : WellFormedCall params rets ua k) : WellFormed params rets (startArgs ua form flow n caller) k := by
  obtain ⟨hnd, hctx, hrets, hk, hpos, hnopos⟩ := h
  refine ⟨hnd, ?_, hrets, (startArgs_parent ua form flow n caller).1, (startArgs_parent ua form flow n caller).2, hk, ?_, ?_⟩
  · rw [startArgs_lookup_other _ _ _ _ _ _ (by
      intro r hr e; injection e with e; subst e; revert hr; decide)]
    exact hctx
  · intro i hi; rw [startArgs_lookup_pos]; exact hpos i hi
  · intro i hi; rw [startArgs_lookup_pos]; exact hnopos i hi

theorem specVal_startArgs (ua : Ctx) (k : Nat) (form : CallForm) (flow : String) (n caller : Nat)
    (i : Nat) (p : Param) :
    specVal (startArgs ua form flow n caller) k i p = specVal ua k i p := by
  simp only [specVal, namedVal, startArgs_lookup_pos, startArgs_lookup_argKey]

/-! ### return path -/

theorem globalKey_ne_name (x : String) : globalKey x ≠ Key.name x := by
  intro e
  simp only [globalKey] at e
  injection e with e
  have := congrArg String.length e
  simp [String.length_append] at this

theorem lookup_return_finishedArgs (uid : Val) (f : Inst) (v : Val) :
    lookup (.name "return_value") (finishedArgs uid { f with context := returnCtx v f.context }) = some v := by
  simp [finishedArgs, returnCtx, lookup_set_eq]

theorem evalVar_assignCtx (x : String) (v : Val) (g c : Ctx) :
    evalVar (assignCtx x v g c).1 (assignCtx x v g c).2 x = v := by
  unfold assignCtx evalVar
  by_cases h : has (globalKey x) c = true
  · simp [h, lookup_set_eq]
  · have h' : has (globalKey x) (set (.name x) v c) = false := by
      simp only [Bool.not_eq_true] at h
      rw [has_eq_false_iff] at h ⊢
      intro hm
      rw [mem_keys_set] at hm
      rcases hm with e | e
      · exact globalKey_ne_name x e
      · exact h e
    simp [h, h', lookup_set_eq]

/-! ### frame lemmas for the multi-instance state -/

theorem findInst_replace_ne (u w : Nat) (f : Inst) (hw : w ≠ u) : ∀ l : List (Nat × Inst),
    findInst w (replaceInst u f l) = findInst w l
  | [] => rfl
  | (u', f') :: r => by
    by_cases h : u' = u
    · subst h
      simp [replaceInst, findInst, Ne.symm hw]
    · by_cases h2 : u' = w
      · subst h2
        simp [replaceInst, findInst, hw]
      · simp [replaceInst, findInst, h, h2, findInst_replace_ne u w f hw r]

theorem findInst_append_ne (n w : Nat) (f : Inst) (hw : w ≠ n) : ∀ l : List (Nat × Inst),
    findInst w (l ++ [(n, f)]) = findInst w l
  | [] => by simp [findInst, Ne.symm hw]
  | (u', f') :: r => by
    by_cases h2 : u' = w
    · simp [findInst, h2]
    · simp [findInst, h2, findInst_append_ne n w f hw r]

def uids (l : List (Nat × Inst)) : List Nat := l.map (·.1)

theorem uids_replace (u : Nat) (f : Inst) : ∀ l : List (Nat × Inst), uids (replaceInst u f l) = uids l
  | [] => rfl
  | (u', f') :: r => by
    by_cases h : u' = u
    · simp [replaceInst, uids, h]
    · have := uids_replace u f r
      simp only [uids] at this
      simp [replaceInst, uids, h, this]

/-- every instance uid was handed out by the counter -/
def Fresh (s : St) : Prop := ∀ x ∈ uids s.insts, x < s.next

theorem setCtx_frame (s : St) (u w : Nat) (g c : Ctx) (hw : w ≠ u) :
    findInst w (s.setCtx u g c).insts = findInst w s.insts := by
  unfold St.setCtx
  cases h : findInst u s.insts with
  | none => rfl
  | some f => simp only; exact findInst_replace_ne u w _ hw _

theorem setCtx_next (s : St) (u : Nat) (g c : Ctx) : (s.setCtx u g c).next = s.next := by
  unfold St.setCtx
  cases h : findInst u s.insts <;> rfl

theorem setCtx_fresh (s : St) (u : Nat) (g c : Ctx) (h : Fresh s) : Fresh (s.setCtx u g c) := by
  unfold Fresh
  rw [setCtx_next]
  unfold St.setCtx
  cases hf : findInst u s.insts with
  | none => exact h
  | some f => simp only [uids_replace]; exact h


/-- `s'` was reached from `s` without touching instance `w`, keeping uids fresh -/
def Good (w : Nat) (s s' : St) : Prop :=
  findInst w s'.insts = findInst w s.insts ∧ Fresh s' ∧ s.next ≤ s'.next

theorem Good.refl (w : Nat) (s : St) (h : Fresh s) : Good w s s := ⟨rfl, h, Nat.le_refl _⟩

theorem Good.trans {w : Nat} {a b c : St} (h1 : Good w a b) (h2 : Good w b c) : Good w a c :=
  ⟨h2.1.trans h1.1, h2.2.1, Nat.le_trans h1.2.2 h2.2.2⟩

theorem good_setCtx (w u : Nat) (s : St) (g c : Ctx) (h : Fresh s) (hw : w ≠ u) : Good w s (s.setCtx u g c) :=
  ⟨setCtx_frame s u w g c hw, setCtx_fresh s u g c h, by rw [setCtx_next]; exact Nat.le_refl _⟩

theorem good_add (w : Nat) (s : St) (f : Inst) (h : Fresh s) (hw : w < s.next) :
    Good w s { s with insts := s.insts ++ [(s.next, f)], next := s.next + 1 } := by
  refine ⟨findInst_append_ne _ _ _ (Nat.ne_of_lt hw) _, ?_, Nat.le_succ _⟩
  intro x hx
  simp only [uids, List.map_append, List.map_cons, List.map_nil, List.mem_append, List.mem_singleton] at hx
  rcases hx with hx | hx
  · exact Nat.lt_succ_of_lt (h x hx)
  · simp [hx]

/-- Frame theorem of the mini interpreter: whatever instance `u` executes — including everything the
    flows it calls (transitively) execute — no other existing instance `w` is changed. -/
theorem exec_good (flows : List (String × FlowDef)) : ∀ (fuel : Nat) (s : St) (u : Nat) (body : List Stmt) (w : Nat),
    Fresh s → w ≠ u → w < s.next → Good w s (exec flows fuel s u body).1
  | 0, s, u, body, w, hf, _, _ => by simp only [exec]; exact Good.refl w s hf
  | fuel + 1, s, u, [], w, hf, _, _ => by simp only [exec]; exact Good.refl w s hf
  | fuel + 1, s, u, stmt :: rest, w, hf, hw, hlt => by
    cases stmt with
    | assign k e =>
      simp only [exec]
      have g1 := good_setCtx w u s (assignCtx k (s.evalIn u e) s.globals (s.ctxOf u)).1 (assignCtx k (s.evalIn u e) s.globals (s.ctxOf u)).2 hf hw
      exact g1.trans (exec_good flows fuel _ u rest w g1.2.1 hw (Nat.lt_of_lt_of_le hlt g1.2.2))
    | global x =>
      simp only [exec]
      have g1 := good_setCtx w u s (globalCtx x s.globals (s.ctxOf u)).1 (globalCtx x s.globals (s.ctxOf u)).2 hf hw
      exact g1.trans (exec_good flows fuel _ u rest w g1.2.1 hw (Nat.lt_of_lt_of_le hlt g1.2.2))
    | ret e =>
      simp only [exec]
      exact good_setCtx w u s _ _ hf hw
    | send name args =>
      simp only [exec]
      exact exec_good flows fuel { s with out := _ } u rest w hf hw hlt
    | block => simp only [exec]; exact Good.refl w s hf
    | call form retVar flow pos named =>
      simp only [exec]
      split
      · exact Good.refl w s hf
      · rename_i d _
        split
        · exact Good.refl w s hf
        · rename_i f0 _
          split
          · exact good_add w s f0 hf hlt
          · rename_i f1 _
            have g1 := good_add w s f1 hf hlt
            have hne : w ≠ s.next := Nat.ne_of_lt hlt
            have g2 := g1.trans (exec_good flows fuel _ s.next d.body w g1.2.1 hne (Nat.lt_of_lt_of_le hlt g1.2.2))
            have hlt2 := Nat.lt_of_lt_of_le hlt g2.2.2
            split
            · exact g2
            · exact g2
            · exact g2
            · split
              · exact g2
              · split
                · exact g2.trans (exec_good flows fuel _ u rest w g2.2.1 hw hlt2)
                · split
                  · exact g2
                  · split
                    · exact g2
                    · split
                      · exact g2.trans (exec_good flows fuel _ u rest w g2.2.1 hw hlt2)
                      · split
                        · exact g2
                        · rename_i g c _
                          have g3 := g2.trans (good_setCtx w u _ g c g2.2.1 hw)
                          exact g3.trans (exec_good flows fuel _ u rest w g3.2.1 hw (Nat.lt_of_lt_of_le hlt g3.2.2))

/-! ### frame of the GLOBAL context over whole executions -/

/-- some instance of the state has declared `k` global (`_global_k` is in its context) -/
def DeclaredIn (s : St) (k : String) : Prop :=
  ∃ w f, findInst w s.insts = some f ∧ has (globalKey k) f.context = true

/-- instances persist and their contexts only gain keys -/
def KeysGrow (l l' : List (Nat × Inst)) : Prop :=
  ∀ w f, findInst w l = some f → ∃ f', findInst w l' = some f' ∧ ∀ K, has K f.context = true → has K f'.context = true

/-- `s'` was reached from `s` keeping all instances/keys, and every global variable that no
    instance of `s'` has declared global has the value it had in `s` -/
def GStep (s s' : St) : Prop :=
  KeysGrow s.insts s'.insts ∧ ∀ k, ¬ DeclaredIn s' k → lookup (.name k) s'.globals = lookup (.name k) s.globals

theorem KeysGrow.refl (l : List (Nat × Inst)) : KeysGrow l l := fun _ f h => ⟨f, h, fun _ hk => hk⟩

theorem KeysGrow.trans {a b c : List (Nat × Inst)} (h1 : KeysGrow a b) (h2 : KeysGrow b c) : KeysGrow a c := by
  intro w f hf
  obtain ⟨f', hf', hk'⟩ := h1 w f hf
  obtain ⟨f'', hf'', hk''⟩ := h2 w f' hf'
  exact ⟨f'', hf'', fun K hK => hk'' K (hk' K hK)⟩

theorem declared_mono {s s' : St} (h : KeysGrow s.insts s'.insts) {k : String} (hd : DeclaredIn s k) : DeclaredIn s' k := by
  obtain ⟨w, f, hf, hk⟩ := hd
  obtain ⟨f', hf', hk'⟩ := h w f hf
  exact ⟨w, f', hf', hk' _ hk⟩

theorem GStep.refl (s : St) : GStep s s := ⟨KeysGrow.refl _, fun _ _ => rfl⟩

theorem GStep.trans {a b c : St} (h1 : GStep a b) (h2 : GStep b c) : GStep a c :=
  ⟨h1.1.trans h2.1, fun k hk => (h2.2 k hk).trans (h1.2 k (fun hd => hk (declared_mono h2.1 hd)))⟩

theorem findInst_replace_eq (u : Nat) (f f0 : Inst) : ∀ l : List (Nat × Inst), findInst u l = some f0 →
    findInst u (replaceInst u f l) = some f
  | [], h => by simp [findInst] at h
  | (u', f') :: r, h => by
    by_cases h1 : u' = u
    · simp [replaceInst, findInst, h1]
    · simp only [findInst, h1, if_false] at h
      simp [replaceInst, findInst, h1, findInst_replace_eq u f f0 r h]

theorem findInst_append_some (w : Nat) (f : Inst) (x : Nat × Inst) : ∀ l : List (Nat × Inst), findInst w l = some f →
    findInst w (l ++ [x]) = some f
  | [], h => by simp [findInst] at h
  | (u', f') :: r, h => by
    by_cases h1 : u' = w
    · simpa [findInst, h1] using h
    · simp only [findInst, h1, if_false] at h
      simp [findInst, h1, findInst_append_some w f x r h]

theorem findInst_append_self (n : Nat) (f : Inst) : ∀ l : List (Nat × Inst), (findInst n (l ++ [(n, f)])).isSome
  | [] => by simp [findInst]
  | (u', f') :: r => by
    by_cases h1 : u' = n
    · simp [findInst, h1]
    · simpa [findInst, h1] using findInst_append_self n f r

theorem ctxOf_of_find {s : St} {u : Nat} {f : Inst} (h : findInst u s.insts = some f) : s.ctxOf u = f.context := by
  simp [St.ctxOf, h]

/-- `setCtx` with a context that keeps all keys of the old one -/
theorem keysGrow_setCtx (s : St) (u : Nat) (g c : Ctx) (hc : ∀ K, has K (s.ctxOf u) = true → has K c = true) :
    KeysGrow s.insts (s.setCtx u g c).insts := by
  intro w f hf
  unfold St.setCtx
  cases hu : findInst u s.insts with
  | none => exact ⟨f, hf, fun _ h => h⟩
  | some fu =>
    simp only
    by_cases hw : w = u
    · subst hw
      rw [hu] at hf; cases hf
      refine ⟨_, findInst_replace_eq w _ f _ hu, fun K hK => ?_⟩
      exact hc K (by rw [ctxOf_of_find hu]; exact hK)
    · exact ⟨f, by rw [findInst_replace_ne u w _ hw]; exact hf, fun _ h => h⟩

theorem has_set_of_has (K k : Key) (v : Val) (c : Ctx) (h : has K c = true) : has K (set k v c) = true := by
  rw [has_eq_true_iff] at h ⊢
  rw [mem_keys_set]; exact Or.inr h

theorem find_setCtx_self (s : St) (u : Nat) (g c : Ctx) (f : Inst) (hu : findInst u s.insts = some f) :
    findInst u (s.setCtx u g c).insts = some { f with context := c } := by
  unfold St.setCtx
  rw [hu]
  exact findInst_replace_eq u _ f _ hu

theorem setCtx_globals (s : St) (u : Nat) (g c : Ctx) : (s.setCtx u g c).globals = g := by
  unfold St.setCtx
  cases findInst u s.insts <;> rfl

theorem name_ne_of_ne {a b : String} (h : a ≠ b) : Key.name a ≠ Key.name b := fun e => h (by injection e)

/-- one `Assignment` (also the return-value assignment of `$x = await f`) -/
theorem gstep_assign (s : St) (u : Nat) (f : Inst) (hu : findInst u s.insts = some f) (key : String) (v : Val) :
    GStep s (s.setCtx u (assignCtx key v s.globals (s.ctxOf u)).1 (assignCtx key v s.globals (s.ctxOf u)).2) := by
  refine ⟨keysGrow_setCtx s u _ _ ?_, ?_⟩
  · intro K hK
    unfold assignCtx
    by_cases hg : has (globalKey key) (s.ctxOf u) = true
    · simpa [hg] using hK
    · simp only [hg]; exact has_set_of_has K _ v _ hK
  · intro k hk
    rw [setCtx_globals]
    unfold assignCtx
    by_cases hg : has (globalKey key) (s.ctxOf u) = true
    · simp only [hg, if_true]
      by_cases hkk : k = key
      · subst hkk
        exfalso; apply hk
        refine ⟨u, _, find_setCtx_self s u _ _ f hu, ?_⟩
        simpa [assignCtx, hg] using hg
      · exact lookup_set_ne _ _ _ _ (name_ne_of_ne hkk)
    · simp [hg]

/-- one `global $x` statement -/
theorem gstep_global (s : St) (u : Nat) (f : Inst) (hu : findInst u s.insts = some f) (x : String) :
    GStep s (s.setCtx u (globalCtx x s.globals (s.ctxOf u)).1 (globalCtx x s.globals (s.ctxOf u)).2) := by
  refine ⟨keysGrow_setCtx s u _ _ (fun K hK => has_set_of_has K _ _ _ hK), ?_⟩
  intro k hk
  rw [setCtx_globals]
  by_cases hkk : k = x
  · subst hkk
    exfalso; apply hk
    refine ⟨u, _, find_setCtx_self s u _ _ f hu, ?_⟩
    simp only [globalCtx]
    rw [has_eq_true_iff, mem_keys_set]; exact Or.inl rfl
  · simp only [globalCtx]
    by_cases hh : has (Key.name x) s.globals = true
    · simp [hh]
    · simp only [hh]; exact lookup_set_ne _ _ _ _ (name_ne_of_ne hkk)

theorem gstep_ret (s : St) (u : Nat) (v : Val) : GStep s (s.setCtx u s.globals (returnCtx v (s.ctxOf u))) :=
  ⟨keysGrow_setCtx s u _ _ (fun K hK => has_set_of_has K _ _ _ hK), fun k _ => by rw [setCtx_globals]⟩

theorem gstep_add (s : St) (n : Nat) (f : Inst) : GStep s { s with insts := s.insts ++ [(n, f)], next := n + 1 } :=
  ⟨fun w f' hf => ⟨f', findInst_append_some w f' _ _ hf, fun _ h => h⟩, fun _ _ => rfl⟩

theorem exists_of_gstep {s s' : St} (h : GStep s s') {u : Nat} (hu : (findInst u s.insts).isSome) :
    ∃ f, findInst u s'.insts = some f := by
  obtain ⟨f, hf⟩ := Option.isSome_iff_exists.1 hu
  obtain ⟨f', hf', _⟩ := h.1 u f hf
  exact ⟨f', hf'⟩

/-- Frame theorem for the global context over whole executions. -/
theorem exec_gstep (flows : List (String × FlowDef)) : ∀ (fuel : Nat) (s : St) (u : Nat) (body : List Stmt),
    (findInst u s.insts).isSome → GStep s (exec flows fuel s u body).1
  | 0, s, u, body, _ => by simp only [exec]; exact GStep.refl s
  | fuel + 1, s, u, [], _ => by simp only [exec]; exact GStep.refl s
  | fuel + 1, s, u, stmt :: rest, hu => by
    obtain ⟨fu, hfu⟩ := Option.isSome_iff_exists.1 hu
    have cont : ∀ s', GStep s s' → GStep s (exec flows fuel s' u rest).1 := fun s' g1 =>
      g1.trans (exec_gstep flows fuel s' u rest (by obtain ⟨f', hf'⟩ := exists_of_gstep g1 hu; simp [hf']))
    cases stmt with
    | assign k e => simp only [exec]; exact cont _ (gstep_assign s u fu hfu k _)
    | global x => simp only [exec]; exact cont _ (gstep_global s u fu hfu x)
    | ret e => simp only [exec]; exact gstep_ret s u _
    | send name args => simp only [exec]; exact cont { s with out := _ } ⟨KeysGrow.refl _, fun _ _ => rfl⟩
    | block => simp only [exec]; exact GStep.refl s
    | call form retVar flow pos named =>
      simp only [exec]
      split
      · exact GStep.refl s
      · rename_i d _
        split
        · exact GStep.refl s
        · rename_i f0 _
          split
          · exact gstep_add s s.next f0
          · rename_i f1 _
            have g1 := gstep_add s s.next f1
            have g2 := g1.trans (exec_gstep flows fuel _ s.next d.body (findInst_append_self _ _ _))
            obtain ⟨fu2, hfu2⟩ := exists_of_gstep g2 hu
            have cont2 : ∀ s', GStep s s' → GStep s (exec flows fuel s' u rest).1 := cont
            split
            · exact g2
            · exact g2
            · exact g2
            · split
              · exact g2
              · split
                · exact cont2 _ g2
                · split
                  · exact g2
                  · split
                    · exact g2
                    · split
                      · exact cont2 _ g2
                      · split
                        · exact g2
                        · rename_i g c hcap
                          refine cont2 _ (g2.trans ?_)
                          simp only [captureReturn] at hcap
                          split at hcap
                          · rename_i v _
                            have e := Option.some.inj hcap
                            have e1 := congrArg Prod.fst e
                            have e2 := congrArg Prod.snd e
                            simp only at e1 e2
                            rw [← e1, ← e2]
                            exact gstep_assign _ u fu2 hfu2 _ v
                          · cases hcap

end NemoVerif.Bind

namespace NemoVerif.Bind.Heap
open NemoVerif

theorem cell_updCell_ne (a b : Nat) (v : Val) (h : b ≠ a) : ∀ hp : List (Nat × List Val), cell b (updCell a v hp) = cell b hp
  | [] => rfl
  | (a', l) :: r => by
    by_cases h1 : a' = a
    · subst h1
      simp [updCell, cell, Ne.symm h, cell_updCell_ne a' b v h r]
    · by_cases h2 : a' = b
      · subst h2
        simp [updCell, cell, h]
      · simp [updCell, cell, h1, h2, cell_updCell_ne a b v h r]


/-- without sharing, an in-place append in `(u, x)` is invisible through any other variable `(w, y)` -/
theorem read_appendInPlace_of_no_sharing (s : HSt) (u w : Nat) (x y : String) (v : Val)
    (h : addrOf w y s.vars ≠ addrOf u x s.vars) : read (appendInPlace s u x v) w y = read s w y := by
  unfold appendInPlace read
  cases hu : addrOf u x s.vars with
  | none => rfl
  | some a =>
    simp only
    cases hw : addrOf w y s.vars with
    | none => rfl
    | some b =>
      simp only
      exact cell_updCell_ne a b v (by intro e; apply h; rw [hu, hw, e]) _

end NemoVerif.Bind.Heap
