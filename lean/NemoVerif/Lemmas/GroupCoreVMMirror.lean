/-
  C07 (T2') — the slide-level theorem for pure and-groups stated for the MIRRORED GENERATOR'S output: `and_group_of_mirror` discharges
  every program hypothesis of `and_group_from_start` (catch / fork elements, labels, plain matches, gotos, the end of the clause) from
  `ContainsAt cfg spec B (expandAnd c k).1` and the resolution of the template's labels.
-/
import NemoVerif.Lemmas.GroupCoreVMOrStart
import NemoVerif.Lemmas.GroupCoreVMTemplate
set_option linter.unusedSimpArgs false
namespace NemoVerif.CoreVM
open NemoVerif NemoVerif.CoreIndex
open NemoVerif.GroupExpand (andItems freshLabels andTrailer expandAnd freshLabels_length)

open NemoVerif.GroupExpand in
theorem andItems_label (e : Nat) : ∀ (ls c : List Nat) (j : Nat), ls.length = c.length → j < c.length →
    (andItems e ls c).getD (3 * j) .other = .label (ls.getD j 0) := by
  intro ls
  induction ls with
  | nil => intro c j h hj; cases c with
    | nil => simp at hj
    | cons a c => simp at h
  | cons l ls ih =>
    intro c j h hj
    cases c with
    | nil => simp at h
    | cons a c =>
      cases j with
      | zero => simp [andItems]
      | succ j =>
        have := ih c j (by simpa using h) (by simpa using hj)
        simp only [andItems]
        rw [show 3 * (j + 1) = (3 * j) + 3 from by omega]
        simpa [List.getD_cons_succ] using this

open NemoVerif.GroupExpand in
theorem andItems_match (e : Nat) : ∀ (ls c : List Nat) (j : Nat), ls.length = c.length → j < c.length →
    (andItems e ls c).getD (3 * j + 1) .other = .matchEv (c.getD j 0) := by
  intro ls
  induction ls with
  | nil => intro c j h hj; cases c with
    | nil => simp at hj
    | cons a c => simp at h
  | cons l ls ih =>
    intro c j h hj
    cases c with
    | nil => simp at h
    | cons a c =>
      cases j with
      | zero => simp [andItems]
      | succ j =>
        have := ih c j (by simpa using h) (by simpa using hj)
        simp only [andItems]
        rw [show 3 * (j + 1) + 1 = (3 * j + 1) + 3 from by omega]
        simpa [List.getD_cons_succ] using this

theorem freshLabels_getD (k n j : Nat) (hj : j < n) : (freshLabels k n).getD j 0 = k + j := by
  simp [freshLabels, List.getD_eq_getElem?_getD, hj]


theorem uidOf_ne_nmOf (m k : Nat) : uidOf m ≠ nmOf k := by
  intro e
  have := congrArg String.toList e
  simp only [uidOf, nmOf, toString, String.toList_append] at this
  cases this

/-- the fork labels of the mirror's and-template with the positions of their label elements -/
def mirrorLps (B k n : Nat) : List (String × Nat) := (List.range n).map fun j => (nmOf (k + 3 + j), B + 2 + 3 * j)

/-- **A pure and-group as the mirrored code generator emits it, from its first element to completion.**  The flow configuration contains
    `GroupExpand.expandAnd c k` (|c| ≥ 2; the and-template of `_expand_match_element`) at offset `B`, translated element by element
    (`toCore`; atoms are plain events), and its label table resolves the template's labels to the positions of their label elements.
    The root head is the only head of the instance, ACTIVE on the template's first element.  Then for EVERY event sequence the
    slide-level driver outputs `Dnf.run` on the clause `c`: completion exactly at the first event after which every atom of `c` has
    been received.  (All program hypotheses of `and_group_from_start` are discharged from the shape of `expandAnd`.) -/
theorem and_group_of_mirror (fuel : Nat) (s : VM) (f : FUid) (h : HUid) (i : Inst) (x : InstX) (cfg : FlowCfg) (hd : Head)
    (spec : Nat → Spec) (B k : Nat) (c : List Nat) (a0 : HeadX) (h2 : 2 ≤ c.length)
    (H : HeadAt s f h i x cfg hd) (hB : hd.pos = B) (hact : hd.status = .active) (hlis : i.status.listening = true)
    (hc : ContainsAt cfg spec B (expandAnd c k).1)
    (hlab : ∀ j, j < c.length → cfg.label (nmOf (k + 3 + j)) = some (B + 2 + 3 * j))
    (hlabE : cfg.label (nmOf (k + 2)) = some (B + 2 + 3 * c.length + 4))
    (hspec : ∀ a, ∃ n, PlainSpec (spec a) n)
    (hroot : hview i = [(h, hd.pos, HeadStatus.active)])
    (hfresh : ∀ m, m > s.r.nextUid → uidOf m ∉ i.headUids) (hown : x.ctxOwner = none)
    (ha0 : OMap.lookup (f, h) s.r.hx = some a0) (ha0c : a0.childHeadUids = [])
    (hfx0 : ∀ m, m > s.r.nextUid → OMap.lookup (f, uidOf m) s.r.hx = none) (es : List Nat) :
    ∃ s1 s2 s3, slide (fuel + 2) f h s = .ok (newKeys f s.r.nextUid c.length) s1 ∧
      runMembers (fuel + 1) f ((newKeys f s.r.nextUid c.length).map (·.2)) s1 = .ok () s2 ∧
      andDriver fuel f ((newsOf s.r.nextUid ((mirrorLps B k c.length).map (·.2))).map fun q => (q.1, q.2 + 1)) c.length
        (allAtMatch c) false es s2 = .ok (Dnf.run { branches := [c], done := false } es) s3 := by
  obtain ⟨hsz, hel⟩ := hc
  rw [expandAnd_template c k h2] at hsz hel
  have hfl : (freshLabels (k + 3) c.length).length = c.length := freshLabels_length _ _
  have hil := andItems_length (k + 2) (freshLabels (k + 3) c.length) c hfl
  have hlen : ([GroupExpand.Prim.catchPF (some (k + 1)), .fork k (freshLabels (k + 3) c.length)] ++
      andItems (k + 2) (freshLabels (k + 3) c.length) c ++ andTrailer k (k + 1) (k + 2) c.length).length = 2 + 3 * c.length + 8 := by
    simp only [List.length_append, List.length_cons, List.length_nil, andTrailer, hil]
  rw [hlen] at hsz hel
  -- an element of the item part
  have hitem : ∀ q, q < 3 * c.length → ([GroupExpand.Prim.catchPF (some (k + 1)), .fork k (freshLabels (k + 3) c.length)] ++
      andItems (k + 2) (freshLabels (k + 3) c.length) c ++ andTrailer k (k + 1) (k + 2) c.length).getD (2 + q) .other
        = (andItems (k + 2) (freshLabels (k + 3) c.length) c).getD q .other := by
    intro q hq
    simp only [List.getD_eq_getElem?_getD]
    rw [List.getElem?_append_left (by simp only [List.length_append, List.length_cons, List.length_nil, hil]; omega)]
    rw [List.getElem?_append_right (by simp)]
    simp
  have hlpsLen : (mirrorLps B k c.length).length = c.length := by simp [mirrorLps]
  have hmem : ∀ lp ∈ mirrorLps B k c.length, ∃ j, j < c.length ∧ lp = (nmOf (k + 3 + j), B + 2 + 3 * j) := by
    intro lp hlp
    simp only [mirrorLps, List.mem_map, List.mem_range] at hlp
    obtain ⟨j, hj, rfl⟩ := hlp
    exact ⟨j, hj, rfl⟩
  have hcatch : cfg.elements[hd.pos]! = .catchFail (some (nmOf (k + 1))) := by
    have := hel 0 (by omega)
    rw [hB]
    simpa [toCore] using this
  have hfork : cfg.elements[hd.pos + 1]! = .fork (nmOf k) ((mirrorLps B k c.length).map (·.1)) := by
    have := hel 1 (by omega)
    rw [hB]
    simp only [List.cons_append, List.nil_append, List.getD_cons_succ, List.getD_cons_zero, toCore] at this
    rw [this]
    simp [mirrorLps, freshLabels, List.map_map, Function.comp_def]
  obtain ⟨C, _⟩ := shapes_of_expandAnd cfg spec B k c h2 (List.replicate c.length "") (by simp)
    ⟨by rw [expandAnd_template c k h2, hlen]; exact hsz, by rw [expandAnd_template c k h2, hlen]; exact hel⟩ hlabE
  have := and_group_from_start fuel s f h i x cfg hd (nmOf (k + 1)) (nmOf k) (nmOf (k + 2)) (mirrorLps B k c.length) c
    (B + 2 + 3 * c.length + 4) a0 H hact hlis hcatch (by rw [hB]; omega) hfork
    (by
      intro lp hlp
      obtain ⟨j, hj, rfl⟩ := hmem lp hlp
      refine ⟨hlab j hj, by omega, ?_⟩
      have h1 := hel (2 + 3 * j) (by omega)
      rw [hitem (3 * j) (by omega), andItems_label (k + 2) _ c j hfl hj] at h1
      exact notMatchAt_of cfg (B + 2 + 3 * j) _ (by omega) (by rw [show B + 2 + 3 * j = B + (2 + 3 * j) from by omega, h1]) rfl)
    (by
      intro lp hlp
      obtain ⟨j, hj, rfl⟩ := hmem lp hlp
      have h1 := hel (2 + (3 * j + 1)) (by omega)
      rw [hitem (3 * j + 1) (by omega), andItems_match (k + 2) _ c j hfl hj] at h1
      obtain ⟨n, hn⟩ := hspec (c.getD j 0)
      refine ⟨by show B + 2 + 3 * j + 1 < cfg.elements.size; omega, spec (c.getD j 0), false, n, ?_, hn⟩
      show cfg.elements[B + 2 + 3 * j + 1]! = _
      rw [show B + 2 + 3 * j + 1 = B + (2 + (3 * j + 1)) from by omega, h1]; rfl)
    hroot hfresh hown ha0 ha0c hfx0 (fun m => uidOf_ne_nmOf m k) (by rw [hlpsLen]; exact C)
    (by
      intro lp hlp
      obtain ⟨j, hj, rfl⟩ := hmem lp hlp
      have h1 := hel (2 + (3 * j + 2)) (by omega)
      rw [hitem (3 * j + 2) (by omega), andItems_goto (k + 2) _ c j hfl hj] at h1
      refine ⟨?_, by show B + 2 + 3 * j + 1 + 1 < B + 2 + 3 * c.length + 4 + 1; omega⟩
      show cfg.elements[B + 2 + 3 * j + 1 + 1]! = _
      rw [show B + 2 + 3 * j + 1 + 1 = B + (2 + (3 * j + 2)) from by omega, h1]; rfl)
    (by rw [hB]; omega) (by rw [hlpsLen]) (by intro e; subst e; simp at h2) es
  simpa only [hlpsLen] using this

end NemoVerif.CoreVM
