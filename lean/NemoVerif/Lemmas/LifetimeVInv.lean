/-
  C06 — the children-form lifetime clause `DC` through the REPAIRED recursion (visited set), on EVERY hierarchy.

  Same skeleton as Lemmas/LifetimeInv.lean (`Good E`, induction on the fuel), with one more invariant: every uid in
  `in_progress` is exempt or not listening (`BusyInv`).  A re-entered instance is skipped only if it is in
  `in_progress` while still listening or STOPPING — then it is an instance whose own call is in progress further up the
  stack, i.e. exempt.
-/
import NemoVerif.Lemmas.LifetimeVEq
import NemoVerif.Lemmas.LifetimeT2
namespace NemoVerif.Lifetime

/-- the instance is not listening (or does not exist) -/
def deadL (s : State) (v : Nat) : Prop := ∀ f, s.flows v = some f → f.status.listening = false

/-- every uid in `in_progress` is exempt or not listening -/
def BusyInv (F : Nat → Prop) (s : State) : Prop := ∀ v, s.busy.contains v = true → F v ∨ deadL s v

theorem deadL_steps {s t : State} (h : Steps false s t) (v : Nat) (hd : deadL s v) : deadL t v := by
  intro f' hf'
  obtain ⟨f, hf, hu⟩ := h.flows_back v f' hf'
  exact hu.not_listening (hd f hf)

theorem BusyInv.of_steps {F : Nat → Prop} {s t : State} (h : Steps false s t) (hb : t.busy = s.busy) (hi : BusyInv F s) : BusyInv F t :=
  fun v hv => (hi v (by rw [← hb]; exact hv)).imp id (deadL_steps h v)

theorem BusyInv.mono {F F' : Nat → Prop} {s : State} (hi : BusyInv F s) (h : ∀ v, F v → F' v) : BusyInv F' s :=
  fun v hv => (hi v hv).imp (h v) id

/-! ### steps of the repaired recursion -/

theorem abortBodyV_steps {x : Bool} (rec : State → Nat → Except Err State)
    (hrec : ∀ s c s', rec s c = .ok s' → Steps x s s') (s : State) (u : Nat) (d : Bool) (s' : State)
    (h : abortBodyV rec s u d = .ok s') :
    Steps x s s' ∨ ∃ s1, Steps x s s1 ∧ restart s1 u d = .ok s' := by
  unfold abortBodyV at h
  split at h
  · cases h
  · split at h
    · cases h; exact Or.inl (.refl _)
    · split at h
      · cases h; exact Or.inl (.refl _)
      · rcases abortBody_steps rec hrec _ u d s' h with e | ⟨s1, st, hr⟩
        · rw [e]; exact Or.inl (.single (.busy _))
        · exact Or.inr ⟨s1, (Steps.single (.busy _)).trans st, hr⟩

theorem abortFlowV_true_steps : ∀ (n : Nat) (s : State) (u : Nat) (s' : State),
    abortFlowV n s u true = .ok s' → Steps false s s'
  | 0, _, _, _, h => by simp [abortFlowV] at h
  | n + 1, s, u, s', h => by
    have hrec : ∀ s c s', (fun s c => abortFlowV n s c true) s c = .ok s' → Steps false s s' :=
      fun s c s' h => abortFlowV_true_steps n s c s' h
    simp only [abortFlowV] at h
    split at h
    · cases h
    · next s1 h1 => cases h; exact deactivatePhase_steps _ hrec _ _ _ _ _ h1
    · next s1 h1 =>
      refine (deactivatePhase_steps _ hrec _ _ _ _ _ h1).trans ?_
      rcases abortBodyV_steps _ hrec _ _ _ _ h with st | ⟨s2, hs, hr⟩
      · exact st
      · rw [restart_true _ _ _ hr]; exact hs

theorem abortFlowV_rec_steps (n : Nat) : ∀ s c s', recV n s c = .ok s' → Steps false s s' :=
  fun s c s' h => abortFlowV_true_steps n s c s' h

/-- what a repaired call does to its own instance: (a) only the reference count changed (still held),
    (b) the instance is not listening afterwards, or (c) it is in `in_progress` (skipped: its own call is further up the stack) -/
theorem abortV_ends (n : Nat) (s : State) (u : Nat) (s' : State) (f : Flow) (hf : s.flows u = some f)
    (h : abortFlowV n s u true = .ok s') :
    (isRefActivated s f = .ok true ∧ s' = setFlow s u { f with activated := f.activated - 1 } ∧ f.activated - 1 ≠ 0) ∨
    (∃ f', s'.flows u = some f' ∧ f'.status.listening = false) ∨
    s'.busy.contains u = true := by
  cases n with
  | zero => simp [abortFlowV] at h
  | succ n =>
    simp only [abortFlowV] at h
    split at h
    · cases h
    · next s1 h1 =>
      cases h
      left
      obtain ⟨e, hne⟩ := deactivatePhase_true _ s u true f hf _ h1
      refine ⟨?_, e, hne⟩
      unfold deactivatePhase at h1
      simp only [hf, if_true] at h1
      split at h1
      · cases h1
      · cases h1
      · next hr => exact hr
    · next s1 h1 =>
      right
      obtain ⟨_, _, hrel⟩ := (deactivatePhase_steps _ (abortFlowV_rec_steps n) _ _ _ _ _ h1).flows_rel
      obtain ⟨f1, hf1, hu⟩ := hrel u f hf
      unfold abortBodyV at h
      simp only [hf1] at h
      split at h
      · next hg =>
        cases h
        left
        refine ⟨f1, hf1, ?_⟩
        simp only [Bool.and_eq_true, Bool.not_eq_true'] at hg
        exact hg.1
      · next hg =>
        split at h
        · next hb => cases h; exact Or.inr hb
        · left
          have hl : f1.status.listening = true ∨ f1.status = .stopping := by
            cases hls : f1.status.listening with
            | true => exact Or.inl rfl
            | false =>
              right
              simp only [hls, Bool.not_false, Bool.true_and, bne_iff_ne, ne_eq, Decidable.not_not] at hg
              exact hg
          have hf1' : (markBusy s1 u).flows u = some f1 := hf1
          obtain ⟨_, _, _, s6, f6, _, _, _, _, _, _, hf6, st6, _, _, _, _, _, hr⟩ := abortBody_post _ (markBusy s1 u) u true s' f1 hf1' hl h
          rw [restart_true _ _ _ hr]
          exact ⟨f6, hf6, by simp [st6, FStatus.listening]⟩

/-! ### `Good` through the loops of the repaired recursion -/

/-- contract of a repaired call at fuel `n` -/
def RecGoodV (n : Nat) : Prop :=
  ∀ (E : Nat → Prop) (s : State) (c : Nat) (s' : State), SFC s → BusyInv E s → abortFlowV n s c true = .ok s' →
    Good E s s' ∧ ∀ F : Nat → Prop, BusyInv F s → BusyInv F s'

theorem childLoop_goodV (n : Nat) (hrec : RecGoodV n) (E : Nat → Prop) : ∀ (l : List Nat) (s s' : State), SFC s → BusyInv E s →
    childLoop (recV n) s l = .ok s' → Good E s s' ∧ ∀ F : Nat → Prop, BusyInv F s → BusyInv F s'
  | [], s, s', _, _, h => by simp [childLoop] at h; subst h; exact ⟨Good.refl E s, fun _ hb => hb⟩
  | c :: cs, s, s', hs, hb, h => by
    simp only [childLoop] at h
    split at h
    · exact childLoop_goodV n hrec E cs s s' hs hb h
    · split at h
      · split at h
        · next s1 h1 =>
          obtain ⟨g1, b1⟩ := hrec E s c s1 hs hb h1
          obtain ⟨g2, b2⟩ := childLoop_goodV n hrec E cs s1 s' (g1.steps.sfc hs) (b1 E hb) h
          exact ⟨g1.trans g2, fun F hF => b2 F (b1 F hF)⟩
        · cases h
      · exact childLoop_goodV n hrec E cs s s' hs hb h

/-- after the child loop of the repaired recursion every listed non-activated child that is not exempt is not listening -/
theorem children_stoppedV (n : Nat) (hrec : RecGoodV n) (E : Nat → Prop) : ∀ (l : List Nat) (s s1 : State), SFC s → BusyInv E s →
    childLoop (recV n) s l = .ok s1 →
    ∀ c ∈ l, ∀ cf, s.flows c = some cf → cf.activated = 0 → ¬ E c →
      ∃ cf', s1.flows c = some cf' ∧ cf'.status.listening = false ∧ cf'.activated = 0
  | [], _, _, _, _, _, c, hc, _, _, _, _ => by simp at hc
  | c0 :: cs, s, s1, hs, hb, h, c, hc, cf, hcf, hact, hne => by
    simp only [childLoop] at h
    split at h
    · next hnone =>
      rcases List.mem_cons.1 hc with e | e
      · subst e; rw [hcf] at hnone; cases hnone
      · exact children_stoppedV n hrec E cs s s1 hs hb h c e cf hcf hact hne
    · next cf0 hcf0 =>
      split at h
      · split at h
        · next s2 h2 =>
          obtain ⟨g2, b2⟩ := hrec E s c0 s2 hs hb h2
          have hst := g2.steps
          obtain ⟨_, _, hrel⟩ := hst.flows_rel
          obtain ⟨cf2, hcf2, hu2⟩ := hrel c cf hcf
          have hact2 : cf2.activated = 0 := by have := hu2.activated; omega
          by_cases e : c = c0
          · subst e
            have hnl2 : cf2.status.listening = false := by
              rcases abortV_ends n s c s2 cf hcf h2 with ⟨_, _, hne'⟩ | ⟨f', hf', hl'⟩ | hbz
              · rw [hact] at hne'; simp at hne'
              · rw [hcf2] at hf'; cases hf'; exact hl'
              · rcases b2 E hb c hbz with he | hd
                · exact absurd he hne
                · exact hd cf2 hcf2
            obtain ⟨gl, _⟩ := childLoop_goodV n hrec E cs s2 s1 (hst.sfc hs) (b2 E hb) h
            obtain ⟨_, _, hrel'⟩ := gl.steps.flows_rel
            obtain ⟨f'', hf'', hu''⟩ := hrel' c cf2 hcf2
            exact ⟨f'', hf'', hu''.not_listening hnl2, by have := hu''.activated; omega⟩
          · have hc' : c ∈ cs := by
              rcases List.mem_cons.1 hc with e' | e'
              · exact absurd e' e
              · exact e'
            exact children_stoppedV n hrec E cs s2 s1 (hst.sfc hs) (b2 E hb) h c hc' cf2 hcf2 hact2 hne
        · cases h
      · next hca =>
        rcases List.mem_cons.1 hc with e | e
        · subst e
          rw [hcf] at hcf0; cases hcf0
          simp [isChildActivated, hact] at hca
        · exact children_stoppedV n hrec E cs s s1 hs hb h c e cf hcf hact hne

theorem deactLoop_goodV (n : Nat) (hrec : RecGoodV n) (E : Nat → Prop) (u fid : Nat) : ∀ (l : List Nat) (s s' : State), SFC s → BusyInv E s →
    (∃ uf, s.flows u = some uf ∧ uf.flowId = fid) →
    (∀ c ∈ l, ∀ cf, s.flows c = some cf → cf.flowId = fid → cf.parent = some u) →
    deactLoop (recV n) fid s l = .ok s' → Good E s s' ∧ ∀ F : Nat → Prop, BusyInv F s → BusyInv F s'
  | [], s, s', _, _, _, _, h => by simp [deactLoop] at h; subst h; exact ⟨Good.refl E s, fun _ hb => hb⟩
  | c :: cs, s, s', hs, hb, huf, hpar, h => by
    simp only [deactLoop] at h
    split at h
    · cases h
    · next cf hcf =>
      split at h
      · next hid =>
        split at h
        · next s1 h1 =>
          have hid' : cf.flowId = fid := by simpa using hid
          obtain ⟨uf, huf1, huf2⟩ := huf
          have hp := hpar c (by simp) cf hcf hid'
          obtain ⟨g1, b1⟩ := hrec E s c s1 hs hb h1
          obtain ⟨_, _, hrel1⟩ := g1.steps.flows_rel
          obtain ⟨cf1, hcf1, _⟩ := hrel1 c cf hcf
          -- the restarted instance is not a reference instance: stopped, or exempt (its own call is in progress)
          have hnl : cf1.status.listening = false ∨ E c := by
            rcases abortV_ends n s c s1 cf hcf h1 with ⟨hr, _, _⟩ | ⟨g, hg1, hg2⟩ | hbz
            · rw [isRefActivated_same_flow s cf uf u hp huf1 (by rw [huf2, hid'])] at hr; cases hr
            · rw [hcf1] at hg1; cases hg1; exact Or.inl hg2
            · rcases b1 E hb c hbz with he | hd
              · exact Or.inr he
              · exact Or.inl (hd cf1 hcf1)
          have hz : modFlow s1 c (fun f => { f with activated := 0 }) = setFlow s1 c { cf1 with activated := 0 } :=
            modFlow_some _ _ _ _ hcf1
          have g2 : Good E s1 (setFlow s1 c { cf1 with activated := 0 }) :=
            Good.setFlow_keep hcf1 ⟨rfl, rfl, fun h => h, rfl, rfl, Or.inl rfl, fun _ h => h, by simp⟩ rfl
              (hnl.elim (fun hl1 => Or.inr (fun _ hl => by rw [hl1] at hl; cases hl)) Or.inl)
          have g := g1.trans g2
          have bz : ∀ F : Nat → Prop, BusyInv F s1 → BusyInv F (setFlow s1 c { cf1 with activated := 0 }) :=
            fun F hF => hF.of_steps g2.steps rfl
          rw [hz] at h
          obtain ⟨g3, b3⟩ := deactLoop_goodV n hrec E u fid cs _ s' (g.steps.sfc hs) (bz E (b1 E hb)) (by
            obtain ⟨_, _, hr⟩ := g.steps.flows_rel
            obtain ⟨uf', h1', h2'⟩ := hr u uf huf1
            exact ⟨uf', h1', by rw [h2'.flowId]; exact huf2⟩) (by
            intro c' hc' cf' hcf' hid''
            obtain ⟨cf0, h0, hu0⟩ := g.steps.flows_back c' cf' hcf'
            rw [hu0.parent]
            exact hpar c' (List.mem_cons_of_mem _ hc') cf0 h0 (by rw [← hu0.flowId]; exact hid'')) h
          exact ⟨g.trans g3, fun F hF => b3 F (bz F (b1 F hF))⟩
        · cases h
      · exact deactLoop_goodV n hrec E u fid cs s s' hs hb huf (fun c' hc' => hpar c' (List.mem_cons_of_mem _ hc')) h

theorem deactivatePhase_goodV (n : Nat) (hrec : RecGoodV n) (E : Nat → Prop) (u : Nat) (hE : E u) (s : State) (d : Bool)
    (s1 : State) (b : Bool) (hs : SFC s) (hb : BusyInv E s) (h : deactivatePhase (recV n) s u d = .ok (s1, b)) :
    Good E s s1 ∧ ∀ F : Nat → Prop, BusyInv F s → BusyInv F s1 := by
  unfold deactivatePhase at h
  split at h
  · cases h
  · next f hf =>
    split at h
    · cases h
    · cases h; exact ⟨Good.refl E s, fun _ hF => hF⟩
    · dsimp only at h
      have g0 : Good E s (setFlow s u { f with activated := f.activated - 1 }) :=
        Good.setFlow_keep hf ⟨rfl, rfl, fun h => h, rfl, rfl, Or.inl rfl, fun _ h => h, by simp⟩ rfl (Or.inl hE)
      have b0 : ∀ F : Nat → Prop, BusyInv F s → BusyInv F (setFlow s u { f with activated := f.activated - 1 }) :=
        fun F hF => hF.of_steps g0.steps rfl
      split at h
      · split at h
        · next s2 h2 =>
          cases h
          obtain ⟨g2, b2⟩ := deactLoop_goodV n hrec E u f.flowId f.children _ _ (g0.steps.sfc hs) (b0 E hb)
            ⟨_, setFlow_flows_same _ _ _, rfl⟩ (by
              intro c hc cf hcf hid
              by_cases hcu : c = u
              · subst hcu
                rw [setFlow_flows_same] at hcf; cases hcf
                exact hs c f c f hf hc hf rfl
              · rw [setFlow_flows_ne _ _ _ _ hcu] at hcf
                exact hs u f c cf hf hc hcf hid) h2
          exact ⟨g0.trans g2, fun F hF => b2 F (b0 F hF)⟩
        · cases h
      · cases h; exact ⟨g0, b0⟩

/-! ### the bodies, generic in the recursive-call parameter -/

/-- what the child loop over `l` from `s0` guarantees (supplied by the instance of the recursion) -/
def LoopOK (rec : State → Nat → Except Err State) (E : Nat → Prop) (s0 : State) (l : List Nat) : Prop :=
  ∀ s1, childLoop rec s0 l = .ok s1 →
    Good E s0 s1 ∧
    ∀ c ∈ l, ∀ cf, s0.flows c = some cf → cf.activated = 0 → ¬ E c →
      ∃ cf', s1.flows c = some cf' ∧ cf'.status.listening = false ∧ cf'.activated = 0

theorem body_prefix_goodG (rec : State → Nat → Except Err State) (E : Nat → Prop) (u : Nat) (s : State) (f : Flow)
    (hf : s.flows u = some f) (hL : LoopOK rec E s f.children) (s1 : State) (h1 : childLoop rec s f.children = .ok s1)
    (f1 : Flow) (hf1 : s1.flows u = some f1) (s2 : State) (h2 : stopActions s1 f1.actionUids = .ok s2) :
    Good E s (setFlow s2 u { f1 with heads := 0 }) ∧
    (∀ c cf, c ∈ f1.children → s1.flows c = some cf → ¬ E c → cf.activated = 0 → cf.status.listening = false) := by
  obtain ⟨g1, hkids⟩ := hL s1 h1
  obtain ⟨e1, _, _⟩ := stopActions_frame _ _ _ h2
  have g2 : Good E s1 s2 := Good.of_flows_eq (stopActions_steps _ _ _ h2) e1
  have hs2u : s2.flows u = some f1 := by rw [e1]; exact hf1
  have g3 : Good E s2 (setFlow s2 u { f1 with heads := 0 }) :=
    Good.setFlow_keep hs2u ⟨rfl, rfl, fun h => h, rfl, rfl, Or.inl rfl, fun _ h => h, by simp⟩ rfl (Or.inr (fun ha _ => ha))
  refine ⟨g1.trans (g2.trans g3), ?_⟩
  intro c cf hc hcf he ha
  cases hl : cf.status.listening with
  | false => rfl
  | true =>
    obtain ⟨cf0, h0, ha0⟩ := g1.lz c cf hcf he hl ha
    obtain ⟨f0, hf0, hu0⟩ := g1.steps.flows_back u f1 hf1
    rw [hf] at hf0; cases hf0
    obtain ⟨cf', hcf', hl', _⟩ := hkids c (hu0.children c hc) cf0 h0 ha0 he
    rw [hcf] at hcf'; cases hcf'
    rw [hl] at hl'; cases hl'

theorem abortBody_goodG (rec : State → Nat → Except Err State) (E : Nat → Prop) (u : Nat) (s : State) (d : Bool) (s' : State)
    (hL : ∀ f0, (markNoRestart s u).flows u = some f0 → LoopOK rec E (markNoRestart s u) f0.children)
    (h : abortBody rec s u d = .ok s') :
    ∃ s6, Good E s s6 ∧ (s' = s6 ∨ restart s6 u d = .ok s') := by
  unfold abortBody at h
  split at h
  · cases h
  · next f hf =>
    split at h
    · cases h; exact ⟨s, Good.refl E s, Or.inl rfl⟩
    · split at h
      · cases h
      · next s1 h1 =>
        split at h
        · cases h
        · next f1 hf1 =>
          split at h
          · cases h
          · next s2 h2 =>
            dsimp only at h
            obtain ⟨e1, _, _⟩ := stopActions_frame _ _ _ h2
            have hs2u : s2.flows u = some f1 := by rw [e1]; exact hf1
            rw [modFlow_some _ _ _ _ hs2u] at h
            split at h
            · cases h
            · next s4 h4 =>
              have gm := markNoRestart_good E s u
              obtain ⟨f0, hf0, hch0, _⟩ := markNoRestart_self s u f hf
              obtain ⟨g3', hk⟩ := body_prefix_goodG rec E u (markNoRestart s u) f0 hf0 (hL f0 hf0) s1
                (by rw [hch0]; exact h1) f1 hf1 s2 h2
              have g3 := gm.trans g3'
              have g4 := removeFromParent_good E _ _ _ h4
              obtain ⟨_, _, _, fl4⟩ := removeFromParent_flows _ _ _ h4
              have hu4 : ∃ f4, s4.flows u = some f4 ∧ ∀ c, c ∈ f4.children → c ∈ f1.children := by
                rcases fl4 u with e | ⟨pf, e, e'⟩
                · rw [setFlow_flows_same] at e; exact ⟨_, e, fun _ h => h⟩
                · rw [setFlow_flows_same] at e; cases e
                  exact ⟨_, e', fun c hc => List.mem_of_mem_erase hc⟩
              obtain ⟨f4, hf4, hch4⟩ := hu4
              rw [modFlow_some _ _ _ _ hf4] at h
              have g5 : Good E s4 (setFlow s4 u { f4 with status := .stopped }) := by
                refine Good.setFlow_end hf4 ⟨rfl, rfl, fun h => h, rfl, rfl, Or.inr (Or.inl rfl), fun _ h => h, by simp⟩ rfl ?_
                intro c cf hc hcf he hcu ha
                have hc1 : ∃ cf1, s1.flows c = some cf1 ∧ cf1.activated = cf.activated ∧ cf1.status = cf.status := by
                  rcases fl4 c with e | ⟨pf, e, e'⟩
                  · rw [setFlow_flows_ne _ _ _ _ hcu, e1] at e
                    exact ⟨cf, by rw [← e]; exact hcf, rfl, rfl⟩
                  · rw [setFlow_flows_ne _ _ _ _ hcu, e1] at e
                    rw [hcf] at e'; cases e'
                    exact ⟨pf, e, rfl, rfl⟩
                obtain ⟨cf1, hcf1, ea, es⟩ := hc1
                rw [← es]
                exact hk c cf1 (hch4 c hc) hcf1 he (by rw [ea]; exact ha)
              refine ⟨_, g3.trans (g4.trans (g5.trans (Good.of_flows_eq (.single (.push (.flowFailed u) rfl)) rfl))), Or.inr h⟩

theorem finishBody_goodG (rec : State → Nat → Except Err State) (E : Nat → Prop) (u : Nat) (s : State) (d : Bool) (s' : State)
    (hL : ∀ f0, s.flows u = some f0 → LoopOK rec E s f0.children)
    (h : finishBody rec s u d = .ok s') :
    ∃ s6, Good E s s6 ∧ (((s' = s6 ∨ restart s6 u d = .ok s') ∧ ∀ f6, s6.flows u = some f6 → f6.status.listening = false) ∨
      ∃ f6, s6.flows u = some f6 ∧ f6.isMain = true ∧ s' = setFlow s6 u { f6 with heads := 1, status := .waiting }) := by
  unfold finishBody at h
  split at h
  · cases h
  · next f hf =>
    split at h
    · next hg =>
      cases h
      exact ⟨s, Good.refl E s, Or.inl ⟨Or.inl rfl, fun f6 h6 => by rw [hf] at h6; cases h6; simpa using hg⟩⟩
    · split at h
      · cases h
      · next s1 h1 =>
        split at h
        · cases h
        · next f1 hf1 =>
          split at h
          · cases h
          · next s2 h2 =>
            dsimp only at h
            obtain ⟨e1, _, _⟩ := stopActions_frame _ _ _ h2
            have hs2u : s2.flows u = some f1 := by rw [e1]; exact hf1
            rw [modFlow_some _ _ _ _ hs2u] at h
            obtain ⟨g3, hk⟩ := body_prefix_goodG rec E u s f hf (hL f hf) s1 h1 f1 hf1 s2 h2
            split at h
            · next hm =>
              cases h
              refine ⟨_, g3, Or.inr ⟨{ f1 with heads := 0 }, setFlow_flows_same _ _ _, hm, ?_⟩⟩
              rw [modFlow_some _ _ _ _ (setFlow_flows_same _ _ _)]
            · rw [modFlow_some _ _ _ _ (setFlow_flows_same _ _ _)] at h
              split at h
              · cases h
              · next s5 h5 =>
                have g4 : Good E (setFlow s2 u { f1 with heads := 0 })
                    (setFlow (setFlow s2 u { f1 with heads := 0 }) u { f1 with heads := 0, status := .finished }) := by
                  refine Good.setFlow_end (setFlow_flows_same _ _ _) ⟨rfl, rfl, fun h => h, rfl, rfl, Or.inr (Or.inr rfl), fun _ h => h, by simp⟩ rfl ?_
                  intro c cf hc hcf he hcu ha
                  rw [setFlow_flows_ne _ _ _ _ hcu, e1] at hcf
                  exact hk c cf hc hcf he ha
                have g5 := removeFromParent_good E _ _ _ h5
                obtain ⟨_, _, _, fl5⟩ := removeFromParent_flows _ _ _ h5
                refine ⟨_, g3.trans (g4.trans (g5.trans (Good.of_flows_eq (.single (.push (.flowFinished u) rfl)) rfl))), Or.inl ⟨Or.inr h, ?_⟩⟩
                intro f6 h6
                rw [push_flows] at h6
                rcases fl5 u with e | ⟨pf, e, e'⟩
                · rw [setFlow_flows_same] at e; rw [h6] at e; cases e; rfl
                · rw [setFlow_flows_same] at e; cases e
                  rw [h6] at e'; cases e'; rfl

/-! ### `BusyInv` through the bodies -/

theorem deadL_restart {s t : State} {u : Nat} {d : Bool} (h : restart s u d = .ok t) (v : Nat) (hd : deadL s v) : deadL t v := by
  intro f' hf'
  obtain ⟨f, hf, h1 | h1⟩ := restart_spec s u d t h
  · obtain ⟨_, _, _, _, hu, hne⟩ := h1
    by_cases hv : v = u
    · subst hv; rw [hu] at hf'; cases hf'; exact hd f hf
    · rw [hne v hv] at hf'; exact hd f' hf'
  · rw [h1.2] at hf'; exact hd f' hf'

theorem abortTail_busyInv (F : Nat → Prop) (s : State) (u : Nat) (d : Bool) (s' : State) (h : abortTail s u d = .ok s')
    (hF : BusyInv F s) : BusyInv F s' := by
  obtain ⟨sx, stx, hr⟩ := abortTail_steps s u d s' h
  have hb : s'.busy = s.busy := (abortTail_actEq s u d s' h).2.1
  intro v hv
  rw [hb] at hv
  exact (hF v hv).imp id (fun hd => deadL_restart hr v (deadL_steps stx v hd))

theorem finishTail_busyInv (F : Nat → Prop) (s : State) (u : Nat) (d : Bool) (s' : State) (h : finishTail s u d = .ok s')
    (hF : BusyInv F s) (hu : F u ∨ ¬ s.busy.contains u = true) : BusyInv F s' := by
  -- the main flow goes back to WAITING: it must be exempt (or not in the set)
  have hb : s'.busy = s.busy := (finishTail_actEq s u d s' h).2.1
  intro v hv
  rw [hb] at hv
  by_cases hvu : v = u
  · subst hvu
    rcases hu with h1 | h1
    · exact Or.inl h1
    · exact absurd hv h1
  · refine (hF v hv).imp id (fun hd => ?_)
    -- the record of `v ≠ u` keeps its status or only loses children
    intro f' hf'
    unfold finishTail at h
    split at h
    · cases h
    · next f1 hf1 =>
      split at h
      · cases h
      · next s2 h2 =>
        dsimp only at h
        have e2 := (stopActions_frame _ _ _ h2).1
        split at h
        · cases h
          rw [modFlow_flows_ne _ _ _ _ hvu, modFlow_flows_ne _ _ _ _ hvu, e2] at hf'
          exact hd f' hf'
        · split at h
          · cases h
          · next s5 h5 =>
            obtain ⟨g, hg, est⟩ : ∃ g, s5.flows v = some g ∧ g.status = f'.status := by
              obtain ⟨f0, hf0, h1 | h1⟩ := restart_spec _ u d s' h
              · obtain ⟨_, _, _, _, _, hne⟩ := h1
                rw [hne v hvu] at hf'; exact ⟨f', hf', rfl⟩
              · rw [h1.2] at hf'; exact ⟨f', hf', rfl⟩
            rcases (removeFromParent_flows _ _ _ h5).2.2.2 v with e | ⟨pf, e1, e2'⟩
            · rw [hg] at e
              rw [modFlow_flows_ne _ _ _ _ hvu, modFlow_flows_ne _ _ _ _ hvu, e2] at e
              rw [← est]; exact hd g e.symm
            · rw [hg] at e2'; cases e2'
              rw [modFlow_flows_ne _ _ _ _ hvu, modFlow_flows_ne _ _ _ _ hvu, e2] at e1
              rw [← est]; exact hd pf e1

theorem Good.of_iff {E E' : Nat → Prop} {s s' : State} (h : Good E s s') (hiff : ∀ v, E v ↔ E' v) : Good E' s s' := by
  have : E = E' := funext fun v => propext (hiff v)
  rw [← this]; exact h

theorem sfc_of_flows_eq {s t : State} (h : t.flows = s.flows) (hs : SFC s) : SFC t := by
  intro p pf c cf hp hc hcf hid
  rw [h] at hp hcf
  exact hs p pf c cf hp hc hcf hid

/-- **the induction on the fuel for the repaired recursion** -/
theorem abortFlowV_good : ∀ (n : Nat), RecGoodV n
  | 0, _, _, _, _, _, _, h => by simp [abortFlowV] at h
  | n + 1, E, s, u, s', hs, hb, h => by
    have hrec : RecGoodV n := abortFlowV_good n
    cases hfu : s.flows u with
    | none => simp [abortFlowV, deactivatePhase, hfu] at h
    | some f =>
    simp only [abortFlowV] at h
    split at h
    · cases h
    · next s1 h1 =>
      cases h
      obtain ⟨e, hne⟩ := deactivatePhase_true _ s u true f hfu _ h1
      rw [e]
      have g : Good E s (setFlow s u { f with activated := f.activated - 1 }) :=
        Good.setFlow_keep hfu ⟨rfl, rfl, fun h => h, rfl, rfl, Or.inl rfl, fun _ h => h, by simp⟩ rfl
          (Or.inr (fun ha _ => absurd ha hne))
      exact ⟨g, fun F hF => hF.of_steps g.steps rfl⟩
    · next s1 h1 =>
      obtain ⟨gd, bd⟩ := deactivatePhase_goodV n hrec (fun v => E v ∨ v = u) u (Or.inr rfl) s true s1 false hs
        (hb.mono (fun _ h => Or.inl h)) h1
      have hs1 : SFC s1 := gd.steps.sfc hs
      unfold abortBodyV at h
      split at h
      · cases h
      · next f1 hf1 =>
        split at h
        · next hg =>
          cases h
          refine ⟨gd.unexempt (fun g' hg' => ?_), bd⟩
          rw [hf1] at hg'; cases hg'
          simp only [Bool.and_eq_true, Bool.not_eq_true'] at hg
          exact hg.1
        · next hg =>
          have hl : f1.status.listening = true ∨ f1.status = .stopping := by
            cases hls : f1.status.listening with
            | true => exact Or.inl rfl
            | false =>
              right
              simp only [hls, Bool.not_false, Bool.true_and, bne_iff_ne, ne_eq, Decidable.not_not] at hg
              exact hg
          split at h
          · next hbz =>
            -- skipped: the instance is in `in_progress`, hence exempt or not listening
            cases h
            refine ⟨?_, bd⟩
            rcases bd E hb u hbz with he | hd
            · exact gd.of_iff (fun v => ⟨fun h => h.elim id (fun e => e ▸ he), Or.inl⟩)
            · exact gd.unexempt (fun g' hg' => hd g' hg')
          · -- the body proper
            have hsM : SFC (markBusy s1 u) := sfc_of_flows_eq rfl hs1
            have gM : Good (fun v => E v ∨ v = u) s1 (markBusy s1 u) := Good.of_flows_eq (.single (.busy _)) rfl
            have hbM : ∀ F : Nat → Prop, BusyInv F s1 → BusyInv (fun v => F v ∨ v = u) (markBusy s1 u) := by
              intro F hF v hv
              simp only [markBusy, List.contains_cons, Bool.or_eq_true, beq_iff_eq] at hv
              rcases hv with e | hv
              · exact Or.inl (Or.inr e)
              · exact (hF v hv).imp Or.inl id
            have gmr := markNoRestart_good (fun v => E v ∨ v = u) (markBusy s1 u) u
            have hsR : SFC (markNoRestart (markBusy s1 u) u) := gmr.steps.sfc hsM
            have hbR : ∀ F : Nat → Prop, BusyInv F s1 → BusyInv (fun v => F v ∨ v = u) (markNoRestart (markBusy s1 u) u) :=
              fun F hF => (hbM F hF).of_steps gmr.steps (markNoRestart_actEq _ u).2.1
            have hL : ∀ f0, (markNoRestart (markBusy s1 u) u).flows u = some f0 →
                LoopOK (recV n) (fun v => E v ∨ v = u) (markNoRestart (markBusy s1 u) u) f0.children :=
              fun f0 _ s2 hloop =>
                ⟨(childLoop_goodV n hrec _ _ _ _ hsR (hbR E (bd E hb)) hloop).1,
                 children_stoppedV n hrec _ _ _ _ hsR (hbR E (bd E hb)) hloop⟩
            obtain ⟨s6, g6, hr⟩ := abortBody_goodG (recV n) (fun v => E v ∨ v = u) u (markBusy s1 u) true s' hL h
            have hs' : s' = s6 := by
              rcases hr with e | e
              · exact e
              · exact restart_true _ _ _ e
            subst hs'
            -- the instance is STOPPED afterwards
            have hf1' : (markBusy s1 u).flows u = some f1 := hf1
            obtain ⟨_, _, _, s7, f7, _, _, _, _, _, _, hf7, st7, _, _, _, _, _, hr7⟩ := abortBody_post _ (markBusy s1 u) u true s' f1 hf1' hl h
            have hdead : deadL s' u := by
              rw [restart_true _ _ _ hr7]
              intro g hg'
              rw [hf7] at hg'; cases hg'
              simp [st7, FStatus.listening]
            refine ⟨(gd.trans (gM.trans g6)).unexempt (fun g' hg' => hdead g' hg'), ?_⟩
            intro F hF
            -- `BusyInv` through the body, with `u` exempt, then `u` is dead
            have hbody : BusyInv (fun v => F v ∨ v = u) s' := by
              rw [abortBody_eq] at h
              simp only [hf1'] at h
              split at h
              · cases h
                exact hbM F (bd F hF)
              · split at h
                · cases h
                · next s2 hloop =>
                  have b2 := (childLoop_goodV n hrec _ _ _ _ hsR (hbR E (bd E hb)) hloop).2 _ (hbR F (bd F hF))
                  exact abortTail_busyInv _ s2 u true s' h b2
            intro v hv
            rcases hbody v hv with (h1' | h1') | h1'
            · exact Or.inl h1'
            · subst h1'; exact Or.inr hdead
            · exact Or.inr h1'

/-! ### the hierarchy invariant `FlowInv` through the outermost repaired calls -/

theorem busyInv_nil (F : Nat → Prop) (s : State) (h : s.busy = []) : BusyInv F s := by
  intro v hv; rw [h] at hv; simp at hv

/-- outermost repaired `_abort_flow` (any `deactivate_flow`) from a state with an empty `in_progress` -/
theorem abortFlowV_flowInv {s : State} (hi : FlowInv s) (hb0 : s.busy = []) (n u : Nat) (d : Bool) (s' : State)
    (h : abortFlowV n s u d = .ok s') : FlowInv s' := by
  cases n with
  | zero => simp [abortFlowV] at h
  | succ n =>
  have hrec : RecGoodV n := abortFlowV_good n
  cases hfu : s.flows u with
  | none => simp [abortFlowV, deactivatePhase, hfu] at h
  | some f =>
  simp only [abortFlowV] at h
  split at h
  · cases h
  · next s1 h1 =>
    cases h
    obtain ⟨e, hne⟩ := deactivatePhase_true _ s u d f hfu _ h1
    rw [e]
    exact hi.of_good (Good.setFlow_keep hfu ⟨rfl, rfl, fun h => h, rfl, rfl, Or.inl rfl, fun _ h => h, by simp⟩ rfl
      (Or.inr (fun ha _ => absurd ha hne)))
  · next s1 h1 =>
    obtain ⟨gd, bd⟩ := deactivatePhase_goodV n hrec (fun v => NoEx v ∨ v = u) u (Or.inr rfl) s d s1 false hi.sfc
      (busyInv_nil _ s hb0) h1
    have hs1 : SFC s1 := gd.steps.sfc hi.sfc
    unfold abortBodyV at h
    split at h
    · cases h
    · next f1 hf1 =>
      split at h
      · next hg =>
        cases h
        refine hi.of_good (gd.unexempt (fun g' hg' => ?_))
        rw [hf1] at hg'; cases hg'
        simp only [Bool.and_eq_true, Bool.not_eq_true'] at hg
        exact hg.1
      · next hg =>
        have hl : f1.status.listening = true ∨ f1.status = .stopping := by
          cases hls : f1.status.listening with
          | true => exact Or.inl rfl
          | false =>
            right
            simp only [hls, Bool.not_false, Bool.true_and, bne_iff_ne, ne_eq, Decidable.not_not] at hg
            exact hg
        split at h
        · next hbz =>
          cases h
          rcases bd NoEx (busyInv_nil _ s hb0) u hbz with he | hd
          · exact absurd he (fun x => x)
          · exact hi.of_good (gd.unexempt (fun g' hg' => hd g' hg'))
        · have hsM : SFC (markBusy s1 u) := sfc_of_flows_eq rfl hs1
          have gM : Good (fun v => NoEx v ∨ v = u) s1 (markBusy s1 u) := Good.of_flows_eq (.single (.busy _)) rfl
          have hbM : BusyInv (fun v => NoEx v ∨ v = u) (markBusy s1 u) := by
            intro v hv
            simp only [markBusy, List.contains_cons, Bool.or_eq_true, beq_iff_eq] at hv
            rcases hv with e | hv
            · exact Or.inl (Or.inr e)
            · exact (bd NoEx (busyInv_nil _ s hb0) v hv).imp Or.inl id
          have gmr := markNoRestart_good (fun v => NoEx v ∨ v = u) (markBusy s1 u) u
          have hsR : SFC (markNoRestart (markBusy s1 u) u) := gmr.steps.sfc hsM
          have hbR : BusyInv (fun v => NoEx v ∨ v = u) (markNoRestart (markBusy s1 u) u) :=
            hbM.of_steps gmr.steps (markNoRestart_actEq _ u).2.1
          have hL : ∀ f0, (markNoRestart (markBusy s1 u) u).flows u = some f0 →
              LoopOK (recV n) (fun v => NoEx v ∨ v = u) (markNoRestart (markBusy s1 u) u) f0.children :=
            fun f0 _ s2 hloop =>
              ⟨(childLoop_goodV n hrec _ _ _ _ hsR hbR hloop).1, children_stoppedV n hrec _ _ _ _ hsR hbR hloop⟩
          obtain ⟨s6, g6, hr⟩ := abortBody_goodG (recV n) (fun v => NoEx v ∨ v = u) u (markBusy s1 u) d s' hL h
          -- the instance is STOPPED afterwards
          have hf1' : (markBusy s1 u).flows u = some f1 := hf1
          obtain ⟨_, _, _, s7, f7, _, _, _, _, _, _, hf7, st7, _, _, _, _, _, hr7⟩ := abortBody_post _ (markBusy s1 u) u d s' f1 hf1' hl h
          have hl' : ∀ f', s'.flows u = some f' → f'.status.listening = false := by
            intro f' hf'
            obtain ⟨g, hg', hcase⟩ := restart_spec _ _ _ _ hr7
            rw [hf7] at hg'; cases hg'
            rcases hcase with ⟨_, _, _, _, hu', _⟩ | ⟨_, e⟩
            · rw [hu'] at hf'; cases hf'; simp [st7, FStatus.listening]
            · rw [e, hf7] at hf'; cases hf'; simp [st7, FStatus.listening]
          have g := gd.trans (gM.trans g6)
          rcases hr with e | hr
          · subst e
            exact hi.of_good (g.unexempt hl')
          · obtain ⟨ho, hc⟩ := restart_core _ _ _ _ hr
            have hnl : ∀ f6, s6.flows u = some f6 → f6.status.listening = false := by
              intro f6 h6
              have := hc u
              rw [h6] at this
              cases hu' : s'.flows u with
              | none => rw [hu'] at this; cases this
              | some f' =>
                rw [hu'] at this
                simp [core] at this
                rw [← this.2.2.2.1]; exact hl' f' hu'
            exact (hi.of_good (g.unexempt hnl)).congr (fun v hv => by rw [ho]; exact hv) hc

theorem FlowInv.wb' {s : State} (hi : FlowInv s) (b : List Nat) : FlowInv { s with busy := b } :=
  hi.of_flows_eq rfl rfl

theorem abortTopV_flowInv {s : State} (hi : FlowInv s) (n u : Nat) (d : Bool) (s' : State)
    (h : abortTopV n s u d = .ok s') : FlowInv s' :=
  abortFlowV_flowInv (hi.wb' []) rfl n u d s' h

/-- the second half of `finish_flowInv`, for any run that ends the way `_finish_flow` does -/
theorem flowInv_of_finish_tail {s : State} (hi : FlowInv s) (u : Nat) (d : Bool) (s6 s' : State)
    (g : Good (fun v => NoEx v ∨ v = u) s s6)
    (tail : ((s' = s6 ∨ restart s6 u d = .ok s') ∧ ∀ f6, s6.flows u = some f6 → f6.status.listening = false ∨ f6.activated ≠ 0) ∨
      ∃ f6, s6.flows u = some f6 ∧ f6.isMain = true ∧ s' = setFlow s6 u { f6 with heads := 1, status := .waiting }) :
    FlowInv s' := by
  rcases tail with ⟨t, nl⟩ | ⟨f6, h6, hm, e⟩
  · have hi6 := hi.of_good (g.unexempt' nl)
    rcases t with e | hr
    · rw [e]; exact hi6
    · obtain ⟨ho, hc⟩ := restart_core _ _ _ _ hr
      exact hi6.congr (fun v hv => by rw [ho]; exact hv) hc
  · have hd' : DC (fun v => NoEx v ∨ v = u) s := fun p pf c cf hp hc hcf he' => hi.dc p pf c cf hp hc hcf (fun e => he' (Or.inl e))
    have hd6 := g.dc hi.sfc hd'
    obtain ⟨hord, _, _⟩ := g.steps.flows_rel
    have hi6 : FlowInv s6 := by
      refine ⟨?_, g.steps.sfc hi.sfc, ?_, ?_, ?_⟩
      · intro p pf c cf hp hc hcf he ha hl
        by_cases hcu : c = u
        · subst hcu
          obtain ⟨pf0, hp0, hu0⟩ := g.steps.flows_back p pf hp
          obtain ⟨cf0, hc0, hcu0⟩ := g.steps.flows_back c cf hcf
          have := hi.noMainChild p pf0 c cf0 hp0 (hu0.children c hc) hc0
          rw [h6] at hcf; cases hcf
          rw [← hcu0.isMain, hm] at this; cases this
        · exact hd6 p pf c cf hp hc hcf (fun e => e.elim id hcu) ha hl
      · intro p pf' c cf' hp hc hcf
        obtain ⟨pf, hp0, hu⟩ := g.steps.flows_back p pf' hp
        obtain ⟨cf, hc0, hcu⟩ := g.steps.flows_back c cf' hcf
        rw [hcu.isMain]; exact hi.noMainChild p pf c cf hp0 (hu.children c hc) hc0
      · intro v f' hv hm'
        obtain ⟨f, h0, hu⟩ := g.steps.flows_back v f' hv
        rw [hu.parent]; exact hi.mainRoot v f h0 (by rw [← hu.isMain]; exact hm')
      · intro v f' hv
        obtain ⟨f, h0, _⟩ := g.steps.flows_back v f' hv
        rw [hord]; exact hi.dom v f h0
    rw [e]
    obtain ⟨ca, cb, cc, cd⟩ := struct_setShape (f' := { f6 with heads := 1, status := .waiting }) hi6 h6 rfl rfl rfl rfl
    refine ⟨?_, ca, cb, cc, cd⟩
    intro p pf c cf hp hc hcf he ha hl
    by_cases hcu : c = u
    · subst hcu
      have := cb p pf c cf hp hc hcf
      rw [setFlow_flows_same] at hcf; cases hcf
      simp [hm] at this
    · have hcf' := hcf
      rw [setFlow_flows_ne _ _ _ _ hcu] at hcf'
      by_cases hpu : p = u
      · subst hpu
        rw [setFlow_flows_same] at hp; cases hp
        exact Or.inl rfl
      · rw [setFlow_flows_ne _ _ _ _ hpu] at hp
        exact hi6.dc p pf c cf hp hc hcf' he ha hl

theorem finishFlowV_flowInv {s : State} (hi : FlowInv s) (n u : Nat) (d : Bool) (s' : State)
    (h : finishFlowV n s u d = .ok s') : FlowInv s' := by
  have hrec : RecGoodV n := abortFlowV_good n
  have hi0 : FlowInv ({ s with busy := [u] } : State) := hi.wb' [u]
  have hb0 : BusyInv (fun v => NoEx v ∨ v = u) ({ s with busy := [u] } : State) := by
    intro v hv
    have : v = u := by simpa using hv
    exact Or.inl (Or.inr this)
  unfold finishFlowV at h
  split at h
  · cases h
  · next s1 h1 =>
    obtain ⟨g, _⟩ := deactivatePhase_goodV n hrec (fun v => NoEx v ∨ v = u) u (Or.inr rfl) _ d s1 true hi0.sfc hb0 h1
    cases h
    refine flowInv_of_finish_tail hi0 u d _ _ g (Or.inl ⟨Or.inl rfl, ?_⟩)
    intro f6 h6
    cases hfu : s.flows u with
    | none =>
      simp [deactivatePhase, hfu] at h1
    | some f =>
      have hfu' : ({ s with busy := [u] } : State).flows u = some f := hfu
      obtain ⟨e, hne⟩ := deactivatePhase_true _ _ u d f hfu' _ h1
      rw [e, setFlow_flows_same] at h6; cases h6
      exact Or.inr hne
  · next s1 h1 =>
    obtain ⟨gd, bd⟩ := deactivatePhase_goodV n hrec (fun v => NoEx v ∨ v = u) u (Or.inr rfl) _ d s1 false hi0.sfc hb0 h1
    have hs1 : SFC s1 := gd.steps.sfc hi0.sfc
    have hb1 := bd _ hb0
    have hL : ∀ f0, s1.flows u = some f0 → LoopOK (recV n) (fun v => NoEx v ∨ v = u) s1 f0.children :=
      fun f0 _ s2 hloop =>
        ⟨(childLoop_goodV n hrec _ _ _ _ hs1 hb1 hloop).1, children_stoppedV n hrec _ _ _ _ hs1 hb1 hloop⟩
    obtain ⟨s6, g6, hr⟩ := finishBody_goodG (recV n) (fun v => NoEx v ∨ v = u) u s1 d s' hL h
    refine flowInv_of_finish_tail hi0 u d s6 s' (gd.trans g6) ?_
    rcases hr with ⟨t, nl⟩ | m
    · exact Or.inl ⟨t, fun f6 h6 => Or.inl (nl f6 h6)⟩
    · exact Or.inr m

theorem scopeFlowLoopV_flowInv (n : Nat) : ∀ (l : List Nat) (s s' : State), FlowInv s →
    scopeFlowLoop (fun s c => abortTopV n s c false) s l = .ok s' → FlowInv s'
  | [], s, s', hi, h => by simp [scopeFlowLoop] at h; subst h; exact hi
  | c :: cs, s, s', hi, h => by
    simp only [scopeFlowLoop] at h
    split at h
    · exact scopeFlowLoopV_flowInv n cs s s' hi h
    · split at h
      · split at h
        · next s1 h1 => exact scopeFlowLoopV_flowInv n cs s1 s' (abortTopV_flowInv hi n c false s1 h1) h
        · cases h
      · exact scopeFlowLoopV_flowInv n cs s s' hi h

theorem endScopeV_flowInv {s : State} (hi : FlowInv s) (n u nm : Nat) (s' : State) (h : endScopeV n s u nm = .ok s') : FlowInv s' := by
  unfold endScopeV at h
  split at h
  · cases h
  · next f hf =>
    split at h
    · cases h
    · dsimp only at h
      split at h
      · cases h
      · next s2 h2 =>
        have h1 : FlowInv (setFlow s u { f with scopes := scopeErase nm f.scopes }) :=
          hi.of_core rfl (core_setFlow s u f _ hf rfl)
        have h2' := scopeFlowLoopV_flowInv n _ _ _ h1 h2
        obtain ⟨e1, _, e3⟩ := stopActions_frame _ _ _ h
        exact h2'.of_flows_eq e3 e1

/-! ### the outermost repaired calls are sequences of primitive steps (for `StopInv` / `stop_at_most_once`) -/

theorem abortFlowV_steps (n : Nat) (s : State) (u : Nat) (d : Bool) (s' : State) (h : abortFlowV n s u d = .ok s') :
    Steps true s s' := by
  cases n with
  | zero => simp [abortFlowV] at h
  | succ n =>
    have hrec : ∀ s c s', recV n s c = .ok s' → Steps true s s' := fun s c s' h => (abortFlowV_true_steps n s c s' h).mono
    simp only [abortFlowV] at h
    split at h
    · cases h
    · next s1 h1 => cases h; exact deactivatePhase_steps _ hrec _ _ _ _ _ h1
    · next s1 h1 =>
      refine (deactivatePhase_steps _ hrec _ _ _ _ _ h1).trans ?_
      rcases abortBodyV_steps _ hrec _ _ _ _ h with st | ⟨s2, hs, hr⟩
      · exact st
      · exact hs.trans (restart_steps _ _ _ _ hr)

theorem abortTopV_steps (n : Nat) (s : State) (u : Nat) (d : Bool) (s' : State) (h : abortTopV n s u d = .ok s') :
    Steps true s s' :=
  (Steps.single (.busy [])).trans (abortFlowV_steps n _ u d s' h)

theorem finishFlowV_steps (n : Nat) (s : State) (u : Nat) (d : Bool) (s' : State) (h : finishFlowV n s u d = .ok s') :
    Steps true s s' := by
  have hrec : ∀ s c s', recV n s c = .ok s' → Steps true s s' := fun s c s' h => (abortFlowV_true_steps n s c s' h).mono
  refine (Steps.single (.busy [u])).trans ?_
  unfold finishFlowV at h
  split at h
  · cases h
  · next s1 h1 => cases h; exact deactivatePhase_steps _ hrec _ _ _ _ _ h1
  · next s1 h1 => exact (deactivatePhase_steps _ hrec _ _ _ _ _ h1).trans (finishBody_steps _ hrec _ _ _ _ h)

theorem endScopeV_steps (n : Nat) (s : State) (u nm : Nat) (s' : State) (h : endScopeV n s u nm = .ok s') :
    Steps true s s' := by
  unfold endScopeV at h
  split at h
  · cases h
  · next f hf =>
    split at h
    · cases h
    · dsimp only at h
      split at h
      · cases h
      · next s2 h2 =>
        refine .cons (.flow (f' := { f with scopes := scopeErase nm f.scopes }) hf ⟨rfl, rfl, fun h => h, rfl, rfl, Or.inl rfl, fun _ h => h, by simp⟩) ?_
        exact (scopeFlowLoop_steps _ (fun s c s' h => abortTopV_steps n s c false s' h) _ _ _ h2).trans (stopActions_steps _ _ _ h)

end NemoVerif.Lifetime
