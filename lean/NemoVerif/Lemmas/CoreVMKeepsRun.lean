/-
  C09 / CoreVM — preservation lemmas (arbitrary state invariant) for the helpers of `run_to_completion` (Run.lean).
-/
import NemoVerif.Lemmas.CoreVMKeeps

open NemoVerif NemoVerif.CoreIndex
open Std.Do
set_option mvcgen.warning false

namespace NemoVerif.CoreVM

theorem lookup_append_of_some {κ α} [DecidableEq κ] (k : κ) (v : α) (l l' : List (κ × α)) (h : OMap.lookup k l = some v) :
    OMap.lookup k (l ++ l') = some v := by
  induction l with
  | nil => cases h
  | cons e rest ih =>
    obtain ⟨k', v'⟩ := e
    simp only [OMap.lookup, List.cons_append] at *
    split <;> simp_all

theorem restFrame_append (g : Rest → Rest) (h : ∀ r, (g r).prog = r.prog ∧ ∃ l, (g r).fx = r.fx ++ l) : RestFrame g := by
  intro r
  refine ⟨(h r).1, ?_⟩
  intro f id hh
  obtain ⟨l, hl⟩ := (h r).2
  simp only [flowIds, hl, List.map_append] at *
  exact lookup_append_of_some _ _ _ _ hh

/-! ### `run_to_completion`'s helpers (Run.lean): any operation except `status = STOPPING` -/
section run
attribute [local spec] applyOp_keeps forInL_keeps mapM_keeps getRest_keeps getIx_keeps pyRaise_keeps unsupported_keeps modifyRest_keeps freshUid_keeps getInst?_keeps getInst_keeps getInstX?_keeps getInstX_keeps modInstX_keeps ctxHolder_keeps getCtx_keeps setCtxVar_keeps getHead?_keeps getHeadX_keeps modHeadX_keeps getCfg_keeps cfgOfInst_keeps getAction?_keeps setAction_keeps pushEvent_keeps pushLeftEvent_keeps valueErr_keeps lookupVar_keeps attrOf_keeps evalExpr_keeps evalIn_keeps evalEmpty_keeps evalArgs_keeps attemptPy_keeps instanceArguments_keeps flowObjOf_keeps flowStartEvent_keeps flowGetEvent_keeps actionGetEvent_keeps tempAction_keeps tempFlowObj_keeps resolveRef_keeps getEventName_keeps getEvent_keeps eventMatchingScore_keeps updateActionStatusByEvent_keeps generateUmimEvent_keeps releaseAction_keeps isReferenceActivated_keeps deactivatesRef_keeps isChildActivated_keeps failedEvent_keeps restartActivated_keeps logActionOrIntents_keeps nameFor_keeps headScores_keeps headKeyScores_keeps labelPos_keeps pickChoice_keeps
variable (I : StInv) (hall : ∀ op, NotStoppingOp op → I.okOp op)
include hall


set_option maxHeartbeats 4000000 in
theorem addNewFlowInstance_keeps (uid cfg hp args) : Keeps I (addNewFlowInstance uid cfg hp args) := by
  unfold addNewFlowInstance
  mvcgen
  all_goals (first
    | (apply restFrame_append; intro r; exact ⟨rfl, _, rfl⟩)
    | keeps_side hall
    | skip)


omit hall in
theorem argStr_keeps (a k) : Keeps I (argStr a k) := by
  unfold argStr; mvcgen
attribute [local spec] argStr_keeps
omit hall in
theorem referenceActivatedInstance_keeps (f a) : Keeps I (referenceActivatedInstance f a) := by
  unfold referenceActivatedInstance; simp only [forIn_eq_forInL]; mvcgen
attribute [local spec] referenceActivatedInstance_keeps

set_option maxHeartbeats 2000000 in
theorem processInternalEvent_keeps (fuel e) : Keeps I (processInternalEvent fuel e) := by
  have hend := hend_of_hall I hall
  have h1 := abortFlow_keeps I hend fuel
  have h2 := finishFlow_keeps I hend fuel
  have h3 := addNewFlowInstance_keeps I hall
  unfold processInternalEvent
  simp only [forIn_eq_forInL]
  mvcgen [h1, h2, h3]
  all_goals (first | keeps_side hall | skip)

omit hall in
theorem getAllHeadCandidates_keeps (n) : Keeps I (getAllHeadCandidates n) := by
  unfold getAllHeadCandidates; simp only [forIn_eq_forInL]; mvcgen
omit hall in
theorem actionFromEvent_keeps (e u) : Keeps I (actionFromEvent e u) := by
  unfold actionFromEvent; mvcgen
attribute [local spec] actionFromEvent_keeps
omit hall in
theorem createEventReference_keeps (f sp r e) : Keeps I (createEventReference f sp r e) := by
  unfold createEventReference; mvcgen
  all_goals (first | rest_frame | skip)
attribute [local spec] createEventReference_keeps
omit hall in
theorem startFlow_keeps (f a) : Keeps I (startFlow f a) := by
  unfold startFlow; simp only [forIn_eq_forInL]; mvcgen
  all_goals (first | rest_frame | skip)
attribute [local spec] startFlow_keeps
omit hall in
theorem handleMatch_keeps (e k cfg hd) : Keeps I (handleMatch e k cfg hd) := by
  unfold handleMatch; simp only [forIn_eq_forInL]; mvcgen
  all_goals (first | rest_frame | skip)
omit hall in
theorem handleEventMatching_keeps (e hs) : Keeps I (handleEventMatching e hs) := by
  unfold handleEventMatching; simp only [forIn_eq_forInL]; mvcgen
  all_goals (first | rest_frame | exact handleMatch_keeps I e _ _ _ | skip)
omit hall in
theorem generateActionEvent_keeps (k) : Keeps I (generateActionEvent k) := by
  unfold generateActionEvent; mvcgen
  all_goals (first | rest_frame | skip)
attribute [local spec] generateActionEvent_keeps

set_option maxHeartbeats 20000000 in
theorem resolveActionConflicts_keeps (fuel acts) : Keeps I (resolveActionConflicts fuel acts) := by
  have hend := hend_of_hall I hall
  have h1 := abortFlow_keeps I hend fuel
  have h2 := setHeadPos_keeps I hall
  unfold resolveActionConflicts
  simp only [forIn_eq_forInL]
  mvcgen [h1, h2]
  all_goals (first | keeps_side hall | skip)

end run


end NemoVerif.CoreVM
