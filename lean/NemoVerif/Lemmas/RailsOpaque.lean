/-
  C16 wave 4 — the caller's texts are OPAQUE to the interpreter on the generated llm_flows.co program.

  `Renamed φ s s'`: the set-up `s'` is the set-up `s` seen through a re-encoding `φ : String → String` of the texts — same rail
  names and actions, every verdict function transported along `φ` (a check rail of `s'` says on `φ t` what the rail of `s` says
  on `t`; a rewriting rail of `s'` maps `φ t` to `φ (f t)`), the predefined refusal and the LLM's answer re-encoded.  `φ` is
  ARBITRARY (not injective, no syntactic condition): it may turn a harmless text into one that starts with `$`, names a context
  variable, contains `{{ … }}`, quotes, newlines, is empty …

  `specTrace_natural`: the documented trace commutes with `φ`.  Together with `interp_trace_is_spec` (the interpreter loop executes
  the documented trace, for ALL texts) this gives `interp_text_is_opaque` in `Theorems/C16.lean`.
-/
import NemoVerif.Lemmas.RailsRefine
namespace NemoVerif.RailsInterp
open NemoVerif.V1Interp

def Obs.mapText (φ : String → String) : Obs → Obs
  | .railCall c i n t => .railCall c i n (φ t)
  | .llmCall => .llmCall
  | .utter t => .utter (φ t)

/-- rail lists that differ only by the re-encoding `φ` of the texts their verdict functions see / produce -/
inductive RailsRel (φ : String → String) : List IRail → List IRail → Prop
  | nil : RailsRel φ [] []
  | check (n a : String) (al al' : String → Bool) (h : ∀ t, al' (φ t) = al t) {rs rs' : List IRail} (hr : RailsRel φ rs rs') :
      RailsRel φ (⟨n, a, .check al⟩ :: rs) (⟨n, a, .check al'⟩ :: rs')
  | rewrite (n a : String) (f f' : String → String) (h : ∀ t, f' (φ t) = φ (f t)) {rs rs' : List IRail} (hr : RailsRel φ rs rs') :
      RailsRel φ (⟨n, a, .rewrite f⟩ :: rs) (⟨n, a, .rewrite f'⟩ :: rs')

structure Renamed (φ : String → String) (s s' : Setup) : Prop where
  input : RailsRel φ s.input s'.input
  output : RailsRel φ s.output s'.output
  refusal : s'.refusal = φ s.refusal
  llmText : s'.llmText = φ s.llmText

theorem RailsRel.isEmpty {φ : String → String} {rs rs' : List IRail} (h : RailsRel φ rs rs') : rs'.isEmpty = rs.isEmpty := by
  cases h <;> rfl

theorem RailsRel.names {φ : String → String} {rs rs' : List IRail} (h : RailsRel φ rs rs') :
    rs'.map (·.name) = rs.map (·.name) ∧ rs'.map (·.action) = rs.map (·.action) := by
  induction h with
  | nil => exact ⟨rfl, rfl⟩
  | check n a al al' _ _ ih => exact ⟨by simp [ih.1], by simp [ih.2]⟩
  | rewrite n a f f' _ _ ih => exact ⟨by simp [ih.1], by simp [ih.2]⟩

/-- a renamed set-up is well-formed iff the original is (names and actions are untouched) -/
theorem Renamed.wf {φ : String → String} {s s' : Setup} (h : Renamed φ s s') (hwf : s.WF) : s'.WF := by
  have hn : (s'.input ++ s'.output).map (·.name) = (s.input ++ s.output).map (·.name) := by
    simp [List.map_append, h.input.names.1, h.output.names.1]
  have ha : (s'.input ++ s'.output).map (·.action) = (s.input ++ s.output).map (·.action) := by
    simp [List.map_append, h.input.names.2, h.output.names.2]
  refine ⟨by rw [hn]; exact hwf.names, ?_, by rw [ha]; exact hwf.actions, ?_⟩
  · intro r hr
    have : r.name ∈ (s'.input ++ s'.output).map (·.name) := List.mem_map_of_mem hr
    rw [hn] at this
    obtain ⟨r0, hr0, e⟩ := List.mem_map.mp this
    rw [← e]; exact hwf.namesBase r0 hr0
  · intro r hr
    have : r.action ∈ (s'.input ++ s'.output).map (·.action) := List.mem_map_of_mem hr
    rw [ha] at this
    obtain ⟨r0, hr0, e⟩ := List.mem_map.mp this
    rw [← e]; exact hwf.actionsBuiltin r0 hr0

/-- the rail loop of a category commutes with the re-encoding -/
theorem loopSpec_natural (φ : String → String) (cat : String) {rs rs' : List IRail} (h : RailsRel φ rs rs') :
    ∀ (k : Nat) (t : String), loopSpec cat k rs' (φ t) = ((loopSpec cat k rs t).1.map (Obs.mapText φ), (loopSpec cat k rs t).2.map φ) := by
  induction h with
  | nil => intro k t; rfl
  | check n a al al' hal _ ih =>
    intro k t
    simp only [loopSpec, hal]
    cases al t
    · rfl
    · simp [ih (k + 1) t, Obs.mapText]
  | rewrite n a f f' hf _ ih =>
    intro k t
    simp only [loopSpec, hf]
    simp [ih (k + 1) (f t), Obs.mapText]

theorem pbmSpec_natural (φ : String → String) {s s' : Setup} (h : Renamed φ s s') (o : OptsT) (bm : String) :
    pbmSpec s' o (φ bm) = (pbmSpec s o bm).map (Obs.mapText φ) := by
  unfold pbmSpec
  rw [h.output.isEmpty, loopSpec_natural φ "output" h.output 0 bm]
  by_cases hc : (!s.output.isEmpty && selO o) = true
  · simp only [hc, if_true, List.map_append, List.map_cons, List.map_nil, Obs.mapText]
    cases (loopSpec "output" 0 s.output bm).2 <;> simp [h.refusal]
  · simp [hc, Obs.mapText]

theorem afterSpec_natural (φ : String → String) {s s' : Setup} (h : Renamed φ s s') (o : OptsT) (um : String) (bot : Option String)
    (hb : BotOK o bot) : afterSpec s' o (φ um) (bot.map φ) = (afterSpec s o um bot).map (Obs.mapText φ) := by
  unfold afterSpec
  cases hd : selD o
  · cases ho : selO o
    · simp [Obs.mapText]
    · obtain ⟨b, rfl⟩ : ∃ b, bot = some b := Option.isSome_iff_exists.mp (hb hd ho)
      simp [pbmSpec_natural φ h o b]
  · simp [h.llmText, pbmSpec_natural φ h o s.llmText, Obs.mapText]

/-- **the documented trace commutes with any re-encoding of the texts** -/
theorem specTrace_natural (φ : String → String) {s s' : Setup} (h : Renamed φ s s') (o : OptsT) (user : String) (bot : Option String)
    (hb : BotOK o bot) : specTrace s' o (φ user) (bot.map φ) = (specTrace s o user bot).map (Obs.mapText φ) := by
  unfold specTrace
  rw [h.input.isEmpty, loopSpec_natural φ "input" h.input 0 user]
  by_cases hc : (!s.input.isEmpty && selI o) = true
  · simp only [hc, if_true, List.map_append]
    cases (loopSpec "input" 0 s.input user).2 with
    | none => simp [h.refusal, Obs.mapText]
    | some um => simp [afterSpec_natural φ h o um bot hb]
  · simp only [hc, Bool.false_eq_true, if_false]
    exact afterSpec_natural φ h o user bot hb

theorem BotOK.map {o : OptsT} {bot : Option String} (hb : BotOK o bot) (φ : String → String) : BotOK o (bot.map φ) := by
  intro hd ho; simpa using hb hd ho

end NemoVerif.RailsInterp
