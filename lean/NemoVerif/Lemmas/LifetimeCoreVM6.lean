/-
  C06 / refinement CoreVM → Lifetime, part 6: the `start_new_flow_instance` label of `slide` (`slideStep`, case `.label name`)
  IS `Lifetime.labelRestart` (`IOp.label`).
-/
import NemoVerif.Lemmas.LifetimeCoreVM5
namespace NemoVerif.Lifetime.Refine
open NemoVerif NemoVerif.CoreVM NemoVerif.CoreIndex NemoVerif.Lifetime

/-- the `.label name` branch of `slideStep` -/
def vmLabel (f : FUid) (h : HUid) (name : String) (pos : Nat) : M Unit := do
  if name = "start_new_flow_instance" then
    let i ← getInst f
    if i.status = .started then
      let e ← flowStartEvent (← flowObjOf f) []
      pushLeftEvent { ev := { e with args := setArg "source_flow_instance_uid" (.str f) e.args }, scores := ← headScores (f, h) }
      modInstX f fun x => { x with newInstanceStarted := true }
  setHeadPos (f, h) (pos + 1)

theorem ebind_ite {α β : Type} (c : Prop) [Decidable c] (a b : M α) (k : α → M β) :
    EStateM.bind (if c then a else b) k = if c then EStateM.bind a k else EStateM.bind b k := by
  split <;> rfl

/-- **tie**: on a label element, `slideStep` is `vmLabel` followed by `return (False, [])` -/
theorem slideStep_label (fuel : Nat) (f : FUid) (h : HUid) (vm : VM) (cfg : FlowCfg) (hd : Head) (name : String)
    (hcfg : cfgOfInst f vm = .ok cfg vm) (hhd : getHead? (f, h) vm = .ok (some hd) vm)
    (hpos : ¬ (hd.pos ≥ cfg.elements.size ∨ hd.status = .inactive))
    (hel : cfg.elements[hd.pos]! = .label name) :
    slideStep fuel f h vm = (do vmLabel f h name hd.pos; return (false, [])) vm := by
  unfold slideStep
  simp only [bind, EStateM.bind, hcfg, hhd]
  have hp : (decide (hd.pos ≥ cfg.elements.size) || decide (hd.status = HeadStatus.inactive)) = false := by
    cases hb : (decide (hd.pos ≥ cfg.elements.size) || decide (hd.status = HeadStatus.inactive)) with
    | false => rfl
    | true => exact absurd (by simpa using hb) hpos
  rw [hp, hel]
  simp only [Bool.false_eq_true, if_false]
  unfold vmLabel
  show _ = EStateM.bind _ (fun _ => pure (false, [])) vm
  simp only [bind, ebind_ite, ebind_assoc]


variable (ν φ : String → Nat)

/-- `head.position = p` is invisible to `absVM` and keeps the state well-formed -/
theorem setHeadPos_abs (k : Key) (p : Nat) (vm vm' : VM) (hw : WF vm) (hro : NameRO k.1 p) (h : setHeadPos k p vm = .ok () vm') :
    absVM ν φ vm' = absVM ν φ vm ∧ WF vm' := by
  obtain ⟨b1, b2, b3⟩ := setHeadPos_frame k p vm vm' hro h
  refine ⟨absVM_of_same ν φ vm vm' b2 b1.1 b1.2, ?_, ?_, ?_, ?_⟩
  · intro k a hk; rw [b1.2] at hk; exact hw.a k a hk
  · unfold WFI; rw [b3, b1.1]; exact hw.i
  · intro k a hk; rw [b1.2] at hk; exact hw.g k a hk
  · intro k x hk; rw [b1.1] at hk; exact hw.n k x hk

/-- **the `start_new_flow_instance` label IS `Lifetime.labelRestart`** (up to the queue, which `absVM` does not abstract) -/
theorem corevm_label_is_op (hν : Function.Injective ν) (f : FUid) (h : HUid) (pos : Nat) (vm vm' : VM) (hw : WF vm)
    (hro : NameRO f (pos + 1)) (hrun : vmLabel f h "start_new_flow_instance" pos vm = .ok () vm') :
    ∃ t, labelRestart (absVM ν φ vm) (ν f) = .ok t ∧ absVM ν φ vm' = cs t ∧ WF vm' := by
  unfold vmLabel at hrun
  simp only [if_true, bind, EStateM.bind] at hrun
  cases hfi : findInst vm.ixs.ix f with
  | none => rw [getInst_run_none f vm hfi] at hrun; cases hrun
  | some i =>
  rw [getInst_run_some f vm i hfi] at hrun
  simp only at hrun
  obtain ⟨x, hx⟩ := wfi_lookup vm hw.i f i hfi
  unfold labelRestart
  rw [absVM_flows ν φ hν, hx]
  simp only [Option.map_some]
  have hstat : (absFlow ν φ vm f x).status = absStatus i.status := by simp only [absFlow, hfi]
  by_cases hst : i.status = .started
  · simp only [hst, if_true, EStateM.bind] at hrun
    have hne : ((absFlow ν φ vm f x).status != FStatus.started) = false := by rw [hstat, hst]; rfl
    simp only [hne, Bool.false_eq_true, if_false]
    cases ho : flowObjOf f vm with
    | error e s => rw [ho] at hrun; cases hrun
    | ok o s =>
      have hs := readOnly_flowObjOf f vm o s ho
      subst hs
      rw [ho] at hrun
      simp only at hrun
      obtain ⟨e, he⟩ := flowStartEvent_run o [] s
      rw [he] at hrun
      simp only at hrun
      obtain ⟨sc, hsc⟩ := headScores_run (f, h) (vmFresh s)
      rw [hsc] at hrun
      simp only at hrun
      obtain ⟨vmA, hpush, hA⟩ : ∃ vmA : VM,
          pushLeftEvent { ev := { e with args := setArg "source_flow_instance_uid" (.str f) e.args }, scores := sc } (vmFresh s) = .ok () vmA ∧
          (vmA.ixs = s.ixs ∧ vmA.r.fx = s.r.fx ∧ vmA.r.actions = s.r.actions) :=
        ⟨_, rfl, ⟨rfl, rfl, rfl⟩⟩
      rw [hpush] at hrun
      simp only [modInstX_run] at hrun
      have wA : WF vmA := hw.of_same hA.1 hA.2.1 hA.2.2
      have wB : WF (vmMod vmA f fun x => { x with newInstanceStarted := true }) := wA.vmMod f _ (fun _ h => h)
      obtain ⟨a4, w4⟩ := setHeadPos_abs ν φ (f, h) (pos + 1) _ vm' wB hro hrun
      refine ⟨_, rfl, ?_, w4⟩
      rw [a4, cs_modFlow, cs_pushLeft, cs_absVM,
        absVM_vmMod ν φ hν vmA f (fun x => { x with newInstanceStarted := true }) (fun fl => { fl with nis := true }) (fun u x => rfl),
        absVM_of_same ν φ s vmA (fun u => by rw [hA.1]) hA.2.1 hA.2.2]
  · simp only [hst, if_false] at hrun
    have hne : ((absFlow ν φ vm f x).status != FStatus.started) = true := by
      rw [hstat]
      cases hi : i.status <;> first | rfl | exact absurd hi hst
    simp only [hne, if_true]
    obtain ⟨a4, w4⟩ := setHeadPos_abs ν φ (f, h) (pos + 1) vm vm' hw hro hrun
    exact ⟨_, rfl, by rw [a4, cs_absVM], w4⟩

/-- any other label only moves the head -/
theorem corevm_label_other_frame (f : FUid) (h : HUid) (name : String) (pos : Nat) (vm vm' : VM) (hw : WF vm)
    (hname : name ≠ "start_new_flow_instance") (hro : NameRO f (pos + 1)) (hrun : vmLabel f h name pos vm = .ok () vm') :
    absVM ν φ vm' = absVM ν φ vm ∧ WF vm' := by
  unfold vmLabel at hrun
  simp only [hname, if_false] at hrun
  exact setHeadPos_abs ν φ (f, h) (pos + 1) vm vm' hw hro hrun

end NemoVerif.Lifetime.Refine
