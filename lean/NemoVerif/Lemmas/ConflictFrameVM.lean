/-
  C05 on CoreVM, frame part: `_handle_event_matching` (with `_create_event_reference` and `_start_flow`) and
  `_resolve_action_conflicts` (with `_generate_action_event_from_actionable_element`) of the whole-interpreter model leave
  every flow instance outside the family `G` of the flows they were handed untouched.

  Built on C10's preservation calculus (`Pres`, `pres_search`, `Fr`, Lemmas/ErrFrameVM.lean).  The relation used here,
  `FrM`, is C10's `Fr` with ONE more freedom for an instance outside `G`: its child list may also GROW
  (`_start_flow` appends the started instance to `parent.child_flow_uids`; the parent is the flow that sent `StartFlow`,
  it need not be among the matching flows).
-/
import NemoVerif.Lemmas.ErrFrameAdvVM
import NemoVerif.Lemmas.ErrFrameCorVM

set_option linter.unusedSimpArgs false
set_option linter.unusedVariables false

namespace NemoVerif.CoreVM
open NemoVerif NemoVerif.CoreIndex

/-- an instance record without its list of child flows -/
def dropKids (x : InstX) : InstX := { x with childFlowUids := [] }

/-- what `_handle_event_matching` & co. leave alone OUTSIDE `G` -/
structure FrameM (G : FUid → Prop) (s s' : VM) : Prop where
  /-- flow status, heads, head positions and head statuses -/
  ix : ∀ g, ¬ G g → findInst s'.ixs.ix g = findInst s.ixs.ix g
  /-- matching scores, catch labels, scopes of the heads -/
  hx : ∀ g h, ¬ G g → OMap.lookup (g, h) s'.r.hx = OMap.lookup (g, h) s.r.hx
  /-- context, arguments, priority, loop, activation, scopes, action uids, parent link … (all but the child list) -/
  fx : ∀ g, ¬ G g → (OMap.lookup g s'.r.fx).map dropKids = (OMap.lookup g s.r.fx).map dropKids

/-- if `G` is closed (children, scope flows, no borrowed context) at the start, it is closed at the end and nothing outside changed -/
def FrM (G : FUid → Prop) (s s' : VM) : Prop := Closed G s → Closed G s' ∧ FrameM G s s'

theorem FrameM.refl (G : FUid → Prop) (s : VM) : FrameM G s s := ⟨fun _ _ => rfl, fun _ _ _ => rfl, fun _ _ => rfl⟩
theorem FrameM.trans {G : FUid → Prop} {a b c : VM} (h1 : FrameM G a b) (h2 : FrameM G b c) : FrameM G a c :=
  ⟨fun g hg => by rw [h2.ix g hg, h1.ix g hg], fun g h hg => by rw [h2.hx g h hg, h1.hx g h hg],
   fun g hg => by rw [h2.fx g hg, h1.fx g hg]⟩

theorem frmPO (G : FUid → Prop) : PreOrd (FrM G) where
  refl s := fun hc => ⟨hc, FrameM.refl G s⟩
  trans := by
    intro a b c h1 h2 hc
    obtain ⟨hb, f1⟩ := h1 hc
    obtain ⟨hcc, f2⟩ := h2 hb
    exact ⟨hcc, f1.trans f2⟩

theorem FrameM.of_frameOut {G : FUid → Prop} {s s' : VM} (h : FrameOut G s s') : FrameM G s s' :=
  ⟨h.ix, h.hx, fun g hg => ctx_of_frame h g hg⟩

/-- everything C10 proved for `Fr` holds for `FrM` -/
theorem FrM.of_fr {G : FUid → Prop} {α : Type} {x : M α} (h : Pres (Fr G) x) : Pres (FrM G) x :=
  ⟨fun s hc => by obtain ⟨h1, h2⟩ := h.app s hc; exact ⟨h1, FrameM.of_frameOut h2⟩⟩

section prims
variable {G : FUid → Prop}

/-- a write to the record of a member of `G` that may add members of `G` as child / scope flows -/
theorem FrM.modInstX_in (f : FUid) (u : InstX → InstX) (hG : G f)
    (hu : ∀ x, (∀ c ∈ kids (u x), c ∈ kids x ∨ G c) ∧ (u x).ctxOwner = x.ctxOwner) : Pres (FrM G) (modInstX f u) := by
  refine ⟨fun s hc => ?_⟩
  simp only [outState, CoreVM.modInstX, CoreVM.modifyRest, modify, modifyGet, MonadStateOf.modifyGet, EStateM.modifyGet]
  refine ⟨?_, ⟨fun _ _ => rfl, fun _ _ _ => rfl, fun g' hg' => ?_⟩⟩
  · intro g' x hg hl
    simp only [OMap.lookup_modify] at hl
    split at hl
    · rename_i e; subst e
      cases hx : OMap.lookup g' s.r.fx with
      | none => rw [hx] at hl; cases hl
      | some x0 =>
        rw [hx] at hl; simp only [Option.map_some, Option.some.injEq] at hl; subst hl
        obtain ⟨k0, o0⟩ := hc g' x0 hg hx
        refine ⟨fun c hcm => ?_, by rw [(hu x0).2]; exact o0⟩
        rcases (hu x0).1 c hcm with h | h
        · exact k0 c h
        · exact h
    · exact hc g' x hg hl
  · have hne : g' ≠ f := fun e => hg' (e ▸ hG)
    simp only [OMap.lookup_modify, hne, if_false]

/-- `parent.child_flow_uids.append(f)` for a started instance `f ∈ G` — whoever the parent is -/
theorem FrM.modInstX_addChild (p f : FUid) (hG : G f) :
    Pres (FrM G) (modInstX p fun x => { x with childFlowUids := x.childFlowUids ++ [f] }) := by
  refine ⟨fun s hc => ?_⟩
  simp only [outState, CoreVM.modInstX, CoreVM.modifyRest, modify, modifyGet, MonadStateOf.modifyGet, EStateM.modifyGet]
  refine ⟨?_, ⟨fun _ _ => rfl, fun _ _ _ => rfl, fun g' hg' => ?_⟩⟩
  · intro g' x hg hl
    simp only [OMap.lookup_modify] at hl
    split at hl
    · rename_i e; subst e
      cases hx : OMap.lookup g' s.r.fx with
      | none => rw [hx] at hl; cases hl
      | some x0 =>
        rw [hx] at hl; simp only [Option.map_some, Option.some.injEq] at hl; subst hl
        obtain ⟨k0, o0⟩ := hc g' x0 hg hx
        refine ⟨fun c hcm => ?_, o0⟩
        simp only [kids, scopeFlows, List.mem_append, List.mem_singleton] at hcm
        rcases hcm with (h | h) | h
        · exact k0 c (List.mem_append_left _ h)
        · rw [h]; exact hG
        · exact k0 c (List.mem_append_right _ h)
    · exact hc g' x hg hl
  · simp only [OMap.lookup_modify]
    split
    · rename_i e; subst e
      cases OMap.lookup g' s.r.fx with
      | none => rfl
      | some x => rfl
    · rfl

end prims

end NemoVerif.CoreVM
