/-
  C05 on CoreVM, frame part: `_handle_event_matching` (with `_create_event_reference` and `_start_flow`) and
  `_resolve_action_conflicts` (with `_generate_action_event_from_actionable_element`) of the whole-interpreter model leave
  every flow instance outside the family `G` of the flows they were handed untouched.

  Built on C10's preservation calculus (`Pres`, `pres_search`, `Fr`, Lemmas/ErrFrameVM.lean).  The relation used here,
  `FrM`, is C10's `Fr` with ONE more freedom for an instance outside `G`: its child list may also GROW
  (`_start_flow` appends the started instance to `parent.child_flow_uids`; the parent is the flow that sent `StartFlow`,
  it need not be among the matching flows).
-/
import NemoVerif.Lemmas.ErrFrameAdvVM
import NemoVerif.Lemmas.ErrFrameCorVM

set_option linter.unusedSimpArgs false
set_option linter.unusedVariables false

namespace NemoVerif.CoreVM
open NemoVerif NemoVerif.CoreIndex

/-- an instance record without its list of child flows -/
def dropKids (x : InstX) : InstX := { x with childFlowUids := [] }

/-- what `_handle_event_matching` & co. leave alone OUTSIDE `G` -/
structure FrameM (G : FUid → Prop) (s s' : VM) : Prop where
  /-- flow status, heads, head positions and head statuses -/
  ix : ∀ g, ¬ G g → findInst s'.ixs.ix g = findInst s.ixs.ix g
  /-- matching scores, catch labels, scopes of the heads -/
  hx : ∀ g h, ¬ G g → OMap.lookup (g, h) s'.r.hx = OMap.lookup (g, h) s.r.hx
  /-- context, arguments, priority, loop, activation, scopes, action uids, parent link … (all but the child list) -/
  fx : ∀ g, ¬ G g → (OMap.lookup g s'.r.fx).map dropKids = (OMap.lookup g s.r.fx).map dropKids

/-- if `G` is closed (children, scope flows, no borrowed context) at the start, it is closed at the end and nothing outside changed -/
def FrM (G : FUid → Prop) (s s' : VM) : Prop := Closed G s → Closed G s' ∧ FrameM G s s'

theorem FrameM.refl (G : FUid → Prop) (s : VM) : FrameM G s s := ⟨fun _ _ => rfl, fun _ _ _ => rfl, fun _ _ => rfl⟩
theorem FrameM.trans {G : FUid → Prop} {a b c : VM} (h1 : FrameM G a b) (h2 : FrameM G b c) : FrameM G a c :=
  ⟨fun g hg => by rw [h2.ix g hg, h1.ix g hg], fun g h hg => by rw [h2.hx g h hg, h1.hx g h hg],
   fun g hg => by rw [h2.fx g hg, h1.fx g hg]⟩

theorem frmPO (G : FUid → Prop) : PreOrd (FrM G) where
  refl s := fun hc => ⟨hc, FrameM.refl G s⟩
  trans := by
    intro a b c h1 h2 hc
    obtain ⟨hb, f1⟩ := h1 hc
    obtain ⟨hcc, f2⟩ := h2 hb
    exact ⟨hcc, f1.trans f2⟩

theorem FrameM.of_frameOut {G : FUid → Prop} {s s' : VM} (h : FrameOut G s s') : FrameM G s s' :=
  ⟨h.ix, h.hx, fun g hg => ctx_of_frame h g hg⟩

/-- everything C10 proved for `Fr` holds for `FrM` -/
theorem FrM.of_fr {G : FUid → Prop} {α : Type} {x : M α} (h : Pres (Fr G) x) : Pres (FrM G) x :=
  ⟨fun s hc => by obtain ⟨h1, h2⟩ := h.app s hc; exact ⟨h1, FrameM.of_frameOut h2⟩⟩

section prims
variable {G : FUid → Prop}

/-- a write to the record of a member of `G` that may add members of `G` as child / scope flows -/
theorem FrM.modInstX_in (f : FUid) (u : InstX → InstX) (hG : G f)
    (hu : ∀ x, (∀ c ∈ kids (u x), c ∈ kids x ∨ G c) ∧ (u x).ctxOwner = x.ctxOwner) : Pres (FrM G) (modInstX f u) := by
  refine ⟨fun s hc => ?_⟩
  simp only [outState, CoreVM.modInstX, CoreVM.modifyRest, modify, modifyGet, MonadStateOf.modifyGet, EStateM.modifyGet]
  refine ⟨?_, ⟨fun _ _ => rfl, fun _ _ _ => rfl, fun g' hg' => ?_⟩⟩
  · intro g' x hg hl
    simp only [OMap.lookup_modify] at hl
    split at hl
    · rename_i e; subst e
      cases hx : OMap.lookup g' s.r.fx with
      | none => rw [hx] at hl; cases hl
      | some x0 =>
        rw [hx] at hl; simp only [Option.map_some, Option.some.injEq] at hl; subst hl
        obtain ⟨k0, o0⟩ := hc g' x0 hg hx
        refine ⟨fun c hcm => ?_, by rw [(hu x0).2]; exact o0⟩
        rcases (hu x0).1 c hcm with h | h
        · exact k0 c h
        · exact h
    · exact hc g' x hg hl
  · have hne : g' ≠ f := fun e => hg' (e ▸ hG)
    simp only [OMap.lookup_modify, hne, if_false]

/-- `parent.child_flow_uids.append(f)` for a started instance `f ∈ G` — whoever the parent is -/
theorem FrM.modInstX_addChild (p f : FUid) (hG : G f) :
    Pres (FrM G) (modInstX p fun x => { x with childFlowUids := x.childFlowUids ++ [f] }) := by
  refine ⟨fun s hc => ?_⟩
  simp only [outState, CoreVM.modInstX, CoreVM.modifyRest, modify, modifyGet, MonadStateOf.modifyGet, EStateM.modifyGet]
  refine ⟨?_, ⟨fun _ _ => rfl, fun _ _ _ => rfl, fun g' hg' => ?_⟩⟩
  · intro g' x hg hl
    simp only [OMap.lookup_modify] at hl
    split at hl
    · rename_i e; subst e
      cases hx : OMap.lookup g' s.r.fx with
      | none => rw [hx] at hl; cases hl
      | some x0 =>
        rw [hx] at hl; simp only [Option.map_some, Option.some.injEq] at hl; subst hl
        obtain ⟨k0, o0⟩ := hc g' x0 hg hx
        refine ⟨fun c hcm => ?_, o0⟩
        simp only [kids, scopeFlows, List.mem_append, List.mem_singleton] at hcm
        rcases hcm with (h | h) | h
        · exact k0 c (List.mem_append_left _ h)
        · rw [h]; exact hG
        · exact k0 c (List.mem_append_right _ h)
    · exact hc g' x hg hl
  · simp only [OMap.lookup_modify]
    split
    · rename_i e; subst e
      cases OMap.lookup g' s.r.fx with
      | none => rfl
      | some x => rfl
    · rfl

end prims

/-! ### `_handle_event_matching` -/

theorem Same.argStr (args : List (String × Val)) (k : String) : Pres Same (argStr args k) := by
  unfold CoreVM.argStr; same_auto

theorem Neutral.actionFromEvent (e : Match.Ev) (uid : String) : Pres Neutral (actionFromEvent e uid) := by
  unfold CoreVM.actionFromEvent; neutral_auto

theorem unsupported_bind {α β : Type} (w : String) (f : α → M β) : (unsupported w : M α) >>= f = unsupported w := rfl
theorem pyRaise_bind {α β : Type} (c m : String) (f : α → M β) : (pyRaise c m : M α) >>= f = pyRaise c m := rfl

section frm
variable {G : FUid → Prop}

syntax "frm_leaf" : tactic
macro_rules | `(tactic| frm_leaf) => `(tactic| first
  | (apply FrM.of_fr; fr_leaf)
  | exact FrM.of_fr (Fr.of_same (Same.argStr _ _))
  | exact FrM.of_fr (Fr.of_neutral (Neutral.actionFromEvent _ _))
  | (refine FrM.of_fr (Fr.setCtxVar _ _ _ ?_); g_mem)
  | (refine FrM.modInstX_addChild _ _ ?_; g_mem))

/-- `_create_event_reference` for a head of a member of `G` -/
theorem FrM.createEventReference (f : FUid) (spec : Spec) (r : String) (event : Event) (hG : G f) :
    Pres (FrM G) (createEventReference f spec r event) := by
  unfold CoreVM.createEventReference
  pres_search (FrM G) (frmPO G) (frm_leaf)

/-- `_start_flow` of an instance in `G` -/
theorem FrM.startFlow (f : FUid) (evArgs : List (String × Val)) (hG : G f) : Pres (FrM G) (startFlow f evArgs) := by
  unfold CoreVM.startFlow
  pres_search (FrM G) (frmPO G) (frm_leaf)

theorem mem_flatMap_modify_fst (sc src c : String) (l : List (String × (List String × List String)))
    (h : c ∈ (OMap.modify sc (fun p => (p.1 ++ [src], p.2)) l).flatMap (fun e => e.2.1)) :
    c ∈ l.flatMap (fun e => e.2.1) ∨ c = src := by
  induction l with
  | nil => exact Or.inl h
  | cons e rest ih =>
    unfold OMap.modify at h
    split at h
    · simp only [List.flatMap_cons, List.mem_append, List.mem_singleton] at h ⊢
      rcases h with (h | h) | h
      · exact Or.inl (Or.inl h)
      · exact Or.inr h
      · rcases ih h with h | h
        · exact Or.inl (Or.inr h)
        · exact Or.inr h
    · simp only [List.flatMap_cons, List.mem_append] at h ⊢
      rcases h with h | h
      · exact Or.inl (Or.inl h)
      · rcases ih h with h | h
        · exact Or.inl (Or.inr h)
        · exact Or.inr h

/-- `flow_state.scopes[scope_uid][0].append(source_flow_instance_uid)` for a member of `G`, the source being in `G` -/
theorem FrM.modInstX_scopeAdd (f : FUid) (sc src : String) (hG : G f) (hs : G src) :
    Pres (FrM G) (modInstX f fun y => { y with scopes := OMap.modify sc (fun p => (p.1 ++ [src], p.2)) y.scopes }) := by
  refine FrM.modInstX_in f _ hG (fun x => ⟨fun c hc => ?_, rfl⟩)
  simp only [kids, scopeFlows, List.mem_append] at hc ⊢
  rcases hc with h | h
  · exact Or.inl (Or.inl h)
  · rcases mem_flatMap_modify_fst sc src c x.scopes h with h | h
    · exact Or.inl (Or.inr h)
    · exact Or.inr (h ▸ hs)

/- NOTE for a change of `CoreVM.handleEventMatching` (error containment around the per-head body, erroring heads returned): this is
   the ONLY theorem of this file that unfolds it.  The script below is syntax-directed (`pres_search` knows `attemptPy` / `tryCatch`,
   `pushEvent`, `modifyRest` on non-instance fields) and the statement is polymorphic in the result type: it was run unchanged on a
   mock of such a function (body wrapped in `attemptPy`, ColangError pushed, erroring heads collected). -/
/-- **Frame theorem for `_handle_event_matching`.**  `G` contains the flows of the heads that matched the event (and, for a
    `FlowStarted` event, the flow that started: it is registered in the open scopes of the matching flows).  Then — for every
    state in which `G` is closed, every event and every list of matching heads — every instance outside `G` keeps its status,
    heads, head positions, matching scores, context, arguments … (all but its child list). -/
theorem FrM.handleMatch (event : Event) (k : Key) (cfg : FlowCfg) (hd : Head) (hGk : G k.1)
    (hsrc : ∀ u, lookupArg "source_flow_instance_uid" event.ev.args = some (.str u) → G u) :
    Pres (FrM G) (handleMatch event k cfg hd) := by
  unfold CoreVM.handleMatch
  dsimp only
  pres_search (FrM G) (frmPO G) (first | frm_leaf | (refine FrM.createEventReference _ _ _ _ ?_; g_mem) | (refine FrM.startFlow _ _ ?_; g_mem) | (refine FrM.modInstX_scopeAdd _ _ _ ?_ ?_; (g_mem); (apply hsrc; assumption)) | (rw [pure_bind]) | (rw [unsupported_bind]) | (rw [pyRaise_bind]))

/-- (synced with fixes/C10-handle-match-error-contained.diff: the per-head work `handleMatch` runs inside the try block, a raise is
    reported as `ColangError` and the head is returned) -/
theorem FrM.handleEventMatching (event : Event) (heads : List Key) (hH : ∀ k ∈ heads, G k.1)
    (hsrc : ∀ u, lookupArg "source_flow_instance_uid" event.ev.args = some (.str u) → G u) :
    Pres (FrM G) (handleEventMatching event heads) := by
  unfold CoreVM.handleEventMatching
  pres_search (FrM G) (frmPO G) (first | frm_leaf | (exact FrM.handleMatch event _ _ _ hGk hsrc) | (rw [pure_bind]) | (rw [unsupported_bind]) | (rw [pyRaise_bind]) | (refine Pres.forIn_mem (frmPO G) _ _ _ ?_; intro k hk b; have hGk := hH k hk))

end frm

/-! ### `_resolve_action_conflicts` -/

theorem pickChoice_lt (n : Nat) (s s' : VM) (c : Nat) (h : pickChoice n s = .ok c s') : c < n := by
  unfold pickChoice at h
  simp only [bind, EStateM.bind, getRest, get, getThe, MonadStateOf.get, EStateM.get, pure, EStateM.pure] at h
  cases hc : s.r.choices with
  | nil => rw [hc] at h; cases h
  | cons c0 rest =>
    rw [hc] at h
    simp only [CoreVM.modifyRest, modify, modifyGet, MonadStateOf.modifyGet, EStateM.modifyGet] at h
    split at h
    · cases h; assumption
    · cases h

theorem mem_sortDesc_ins {α : Type} (key : α → List Score) (x y : α) : ∀ acc : List α, y ∈ sortDesc.ins key x acc → y = x ∨ y ∈ acc
  | [], h => by simp [sortDesc.ins] at h; exact Or.inl h
  | z :: zs, h => by
    unfold sortDesc.ins at h
    split at h
    · simp only [List.mem_cons] at h ⊢; exact h
    · simp only [List.mem_cons] at h ⊢
      rcases h with h | h
      · exact Or.inr (Or.inl h)
      · rcases mem_sortDesc_ins key x y zs h with h | h
        · exact Or.inl h
        · exact Or.inr (Or.inr h)

theorem mem_foldl_ins {α : Type} (key : α → List Score) (y : α) : ∀ (xs acc : List α),
    y ∈ xs.foldl (fun acc x => sortDesc.ins key x acc) acc → y ∈ acc ∨ y ∈ xs
  | [], acc, h => Or.inl h
  | x :: xs, acc, h => by
    simp only [List.foldl_cons] at h
    rcases mem_foldl_ins key y xs _ h with h | h
    · rcases mem_sortDesc_ins key x y acc h with h | h
      · exact Or.inr (h ▸ List.mem_cons_self)
      · exact Or.inl h
    · exact Or.inr (List.mem_cons_of_mem _ h)

theorem mem_sortDesc {α : Type} (key : α → List Score) (xs : List α) (y : α) (h : y ∈ sortDesc key xs) : y ∈ xs := by
  unfold sortDesc at h
  rcases mem_foldl_ins key y xs [] h with h | h
  · cases h
  · exact h

theorem length_takeWhile_le' {α : Type} (p : α → Bool) : ∀ l : List α, (l.takeWhile p).length ≤ l.length
  | [] => Nat.le_refl _
  | x :: xs => by
    simp only [List.takeWhile_cons]
    split
    · simp only [List.length_cons]; exact Nat.succ_le_succ (length_takeWhile_le' p xs)
    · simp

theorem equalPrefixLen_le (sc : Key → List Score) (l : List Key) : equalPrefixLen sc l ≤ l.length := by
  cases l with
  | nil => simp [equalPrefixLen]
  | cons k rest =>
    simp only [equalPrefixLen, List.length_cons]
    have := length_takeWhile_le' (fun k' => scoresEq (sc k') (sc k)) rest
    omega

theorem pick_mem (sc : Key → List Score) (l : List Key) (c : Nat) (hc : c < equalPrefixLen sc l) : l[c]! ∈ l := by
  have hl : c < l.length := Nat.lt_of_lt_of_le hc (equalPrefixLen_le sc l)
  rw [getElem!_pos l c hl]
  exact List.getElem_mem hl

/-- value of a loop step -/
def stepVal {β : Type} : ForInStep β → β
  | .done b => b
  | .yield b => b

/-- loop invariant on the accumulated value of a `for` loop in `M` (normal returns only) -/
theorem forIn_inv {α β : Type} (P : β → Prop) (body : α → β → M (ForInStep β)) : ∀ (xs : List α) (init : β), P init →
    (∀ a ∈ xs, ∀ b, P b → ∀ s r s', body a b s = .ok r s' → P (stepVal r)) →
    ∀ s r s', (forIn xs init body : M β) s = .ok r s' → P r
  | [], init, h0, _, s, r, s', h => by
    simp only [List.forIn_nil, pure, EStateM.pure] at h
    cases h; exact h0
  | a :: as, init, h0, hb, s, r, s', h => by
    simp only [List.forIn_cons] at h
    obtain ⟨st, s1, h1, h2⟩ := bind_ok h
    have hst := hb a List.mem_cons_self init h0 s st s1 h1
    cases st with
    | done b =>
      simp only [pure, EStateM.pure] at h2
      cases h2; exact hst
    | yield b =>
      exact forIn_inv P body as b hst (fun a' ha' => hb a' (List.mem_cons_of_mem _ ha')) s1 r s' h2

theorem mem_modify_append {k : Key} {l : String} : ∀ (groups : List (String × List Key)) (e : String × List Key),
    e ∈ OMap.modify l (fun x => x ++ [k]) groups → ∃ e0 ∈ groups, e.2 = e0.2 ∨ e.2 = e0.2 ++ [k]
  | [], e, h => by cases h
  | (l', g) :: rest, e, h => by
    unfold OMap.modify at h
    split at h
    · rcases List.mem_cons.1 h with h | h
      · exact ⟨(l', g), List.mem_cons_self, Or.inr (by rw [h])⟩
      · obtain ⟨e0, he0, hh⟩ := mem_modify_append rest e h
        exact ⟨e0, List.mem_cons_of_mem _ he0, hh⟩
    · rcases List.mem_cons.1 h with h | h
      · exact ⟨(l', g), List.mem_cons_self, Or.inl (by rw [h])⟩
      · obtain ⟨e0, he0, hh⟩ := mem_modify_append rest e h
        exact ⟨e0, List.mem_cons_of_mem _ he0, hh⟩


section frm
variable {G : FUid → Prop}

theorem FrM.generateActionEvent (k : Key) (hG : G k.1) : Pres (FrM G) (generateActionEvent k) := by
  unfold CoreVM.generateActionEvent
  pres_search (FrM G) (frmPO G) (frm_leaf)

theorem flatMap_map_acts (g : List String → List String) (l : List (String × (List String × List String))) :
    (l.map fun x => match x with | (n, fl, al) => (n, fl, g al)).flatMap (fun e => e.2.1) = l.flatMap (fun e => e.2.1) := by
  induction l with
  | nil => rfl
  | cons e rest ih => obtain ⟨n, fl, al⟩ := e; simp only [List.map_cons, List.flatMap_cons, ih]

/-- scopes that registered the replaced action refer to the winning one: scope FLOWS stay -/
theorem FrM.modInstX_scopeActs (f : FUid) (g : List String → List String) (hG : G f) :
    Pres (FrM G) (modInstX f fun y => { y with scopes := y.scopes.map fun x => match x with | (n, fl, al) => (n, fl, g al) }) := by
  refine FrM.modInstX_in f _ hG (fun x => ⟨fun c hc => ?_, rfl⟩)
  simp only [kids, scopeFlows, flatMap_map_acts] at hc ⊢
  exact Or.inl hc

theorem FrM.resolveActionConflicts (fuel : Nat) (actionable : List Key) (hH : ∀ k ∈ actionable, G k.1) :
    Pres (FrM G) (resolveActionConflicts fuel actionable) := by
  unfold CoreVM.resolveActionConflicts
  split
  · exact Pres.pure (frmPO G) _
  · have hk := hH _ List.mem_cons_self
    pres_search (FrM G) (frmPO G) (first | frm_leaf | exact FrM.generateActionEvent _ hk)
  · extract_lets +onlyGivenNames groups0
    refine Pres.bind_ret (frmPO G) (fun groups => ∀ lg ∈ groups, ∀ k ∈ lg.2, k ∈ actionable) ?hx (fun s groups s' h => ?hP) ?hf
    case hx => pres_search (FrM G) (frmPO G) (frm_leaf)
    case hP =>
      refine forIn_inv (fun groups => ∀ lg ∈ groups, ∀ k ∈ lg.2, k ∈ actionable) _ actionable [] (fun _ h => by cases h) ?_ s groups s' h
      intro a ha b hb s0 r s1 hr
      obtain ⟨x, s2, _, h2⟩ := bind_ok hr
      simp only at h2
      cases hl : x.loopId with
      | some l =>
        rw [hl] at h2
        simp only [pure_bind] at h2
        simp only [pure, EStateM.pure] at h2
        cases h2
        simp only [stepVal]
        split
        · intro lg hlg k hk
          obtain ⟨e0, he0, hh⟩ := mem_modify_append b lg hlg
          rcases hh with hh | hh
          · exact hb e0 he0 k (hh ▸ hk)
          · rw [hh] at hk
            rcases List.mem_append.1 hk with hk | hk
            · exact hb e0 he0 k hk
            · rw [List.mem_singleton.1 hk]; exact ha
        · intro lg hlg k hk
          rcases List.mem_append.1 hlg with hlg | hlg
          · exact hb lg hlg k hk
          · rw [List.mem_singleton.1 hlg] at hk
            rw [List.mem_singleton.1 hk]; exact ha
      | none =>
        rw [hl] at h2
        simp only [pyRaise_bind] at h2
        cases h2
    case hf =>
      intro groups hgroups
      extract_lets +onlyGivenNames groups1 advancing0
      apply Pres.bind (frmPO G)
      · refine Pres.forIn_mem (frmPO G) _ _ _ ?_
        intro lg hlg adv
        obtain ⟨l, group⟩ := lg
        have hgr : ∀ k ∈ group, G k.1 := fun k hk => hH k (hgroups _ hlg k hk)
        dsimp -zeta only
        apply Pres.bind (frmPO G) (Pres.getRest (frmPO G))
        intro r
        extract_lets +onlyGivenNames scoresOf maxLen ordered nEq
        refine Pres.bind_ret (frmPO G) (fun c => c < nEq) (FrM.of_fr (Fr.of_neutral (Neutral.pickChoice _))) (fun s c s' h => pickChoice_lt _ _ _ _ h) ?_
        intro c hc
        extract_lets +onlyGivenNames picked
        have hord : ∀ k ∈ ordered, G k.1 := fun k hk => hgr k (mem_sortDesc _ _ _ hk)
        have hGp : G picked.1 := hord _ (pick_mem scoresOf ordered c hc)
        clear_value picked ordered nEq maxLen scoresOf
        pres_search (FrM G) (frmPO G) (first | frm_leaf | (refine FrM.generateActionEvent _ ?_; g_mem) | (refine FrM.modInstX_scopeActs _ _ ?_; g_mem) | (refine FrM.of_fr (Fr.setHeadPos _ _ ?_); g_mem) | (refine FrM.of_fr (Fr.abortFlow _ _ _ _ ?_); g_mem) | (refine Pres.forIn_mem (frmPO G) _ _ _ ?_; intro k hk b; have hGk := hord k hk))
      · intro adv
        exact Pres.pure (frmPO G) _
end frm
end NemoVerif.CoreVM
