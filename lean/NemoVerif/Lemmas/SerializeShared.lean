import NemoVerif.Models.SerializeShared
import NemoVerif.Lemmas.SerializeRefs

namespace NemoVerif.Shared
open NemoVerif.Serialize NemoVerif.Refs

/-! ### encoder: the concrete encoder writes the JSON text of the abstract encoding -/
mutual
theorem encodeC_refines : (t : CV) → (refs : List Nat) →
    encodeC refs t = (render (encodeS refs t).1, (encodeS refs t).2)
  | .leaf s, refs => by simp [encodeC, encodeS, render]
  | .seq xs, refs => by
    have ih := encodeCList_refines xs refs
    simp [encodeC, encodeS, render, ih]
  | .node i tag kids, refs => by
    have ih := encodeCList_refines kids refs
    by_cases h : i ∈ refs
    · simp [encodeC, encodeS, render, h]
    · simp [encodeC, encodeS, render, h, ih]
theorem encodeCList_refines : (xs : List CV) → (refs : List Nat) →
    encodeCList refs xs = (renderList (encodeSList refs xs).1, (encodeSList refs xs).2)
  | [], refs => by simp [encodeCList, encodeSList, renderList]
  | x :: xs, refs => by
    have h1 := encodeC_refines x refs
    have h2 := encodeCList_refines xs (encodeS refs x).2
    simp [encodeCList, encodeSList, renderList, h1, h2]
end

/-! ### decoder: on the JSON text of a well-formed abstract encoding the concrete decoder is the abstract one -/

theorem isMarkedList_single_false (y : CE) (h : WfEnc y = true) : isMarkedList [render y] = false := by
  cases y with
  | leaf s => cases s <;> simp [render, Scalar.toJ, isMarkedList]
  | seq ys => simp [render, isMarkedList]
  | ref i => simp [render, refJ, isMarkedList, typeTag]
  | defn i tag ys =>
    cases tag with
    | list => simp [render, wrapDef, isMarkedList]
    | data cls keys =>
      simp only [WfEnc, tagOk, Bool.and_eq_true, Bool.not_eq_true'] at h
      have hb := h.2.2
      have : cls ≠ "list" := by
        intro e; subst e; simp [isBuiltinTag] at hb
      simp [render, wrapDef, isMarkedList, typeTag, Tag.tyName, this]
    | _ => simp [render, wrapDef, isMarkedList, typeTag, Tag.tyName]

theorem isMarkedList_renderList_false : (ys : List CE) → WfEncList ys = true → isMarkedList (renderList ys) = false
  | [], _ => by simp [renderList, isMarkedList]
  | [y], h => by
    simp only [WfEncList, Bool.and_eq_true] at h
    simpa [renderList] using isMarkedList_single_false y h.1
  | y :: z :: rest, _ => by
    simp [renderList, isMarkedList]


theorem renderList_length : (ys : List CE) → (renderList ys).length = ys.length
  | [] => rfl
  | _ :: ys => by simp [renderList, renderList_length ys]

theorem zipKeys_keys : (keys : List String) → (js : List J) → keys.length = js.length →
    (zipKeys keys js).map (·.1) = keys
  | [], [], _ => rfl
  | [], _ :: _, h => by simp at h
  | _ :: _, [], h => by simp at h
  | k :: ks, j :: js, h => by simp [zipKeys, zipKeys_keys ks js (by simpa using h)]

theorem builtin_ne (cls : String) (h : isBuiltinTag cls = false) :
    cls ≠ "ref" ∧ cls ≠ "list" ∧ cls ≠ "tuple" ∧ cls ≠ "set" ∧ cls ≠ "deque" ∧ cls ≠ "dict" ∧ cls ≠ "enum"
    ∧ cls ≠ "datetime" ∧ cls ≠ "SpecType" ∧ cls ≠ "regex" ∧ cls ≠ "comparison" := by
  simp [isBuiltinTag] at h
  exact h

theorem fin_eq (i : Nat) (tag : Tag) (r : Option (List CV × Tbl)) :
    (match r with
      | some r => some (Lab.node i tag r.1, (i, Lab.node i tag r.1) :: r.2)
      | none => none)
    = (match r with
      | some r => some (Lab.node i tag r.1, (i, Lab.node i tag r.1) :: r.2)
      | none => (none : Option (CV × Tbl))) := rfl

mutual
theorem decodeC_render : (e : CE) → (tbl : Tbl) → WfEnc e = true → decodeC tbl (render e) = decodeS tbl e
  | .leaf s, tbl, _ => by cases s <;> simp [render, Scalar.toJ, decodeC, decodeS]
  | .ref i, tbl, _ => by
    simp [render, refJ, decodeC, decodeS, typeTag, natField]
    cases lookup tbl i <;> rfl
  | .seq ys, tbl, h => by
    simp only [WfEnc] at h
    have ih := decodeCList_render ys tbl h
    have hm := isMarkedList_renderList_false ys h
    simp only [render, decodeC, decodeS, ih, hm]
    cases decodeSList tbl ys <;> simp
  | .defn i tag ys, tbl, h => by
    simp only [WfEnc, tagOk, Bool.and_eq_true] at h
    obtain ⟨hys, htag⟩ := h
    have ih := decodeCList_render ys tbl hys
    cases tag with
    | list =>
      simp only [render, wrapDef, decodeC, decodeCList, Tag.tyName, Tag.body, List.cons_append, List.nil_append]
      simp [decodeC, typeTag, natField, decodeArrAtValue, ih, isMarkedList, decodeS]
      cases decodeSList tbl ys <;> simp
    | tuple =>
      simp [render, wrapDef, decodeC, typeTag, natField, decodeArrAtValue, Tag.tyName, Tag.body, ih, decodeS]
      cases decodeSList tbl ys <;> simp
    | set =>
      simp [render, wrapDef, decodeC, typeTag, natField, decodeArrAtValue, Tag.tyName, Tag.body, ih, decodeS]
      cases decodeSList tbl ys <;> simp
    | deque =>
      simp [render, wrapDef, decodeC, typeTag, natField, decodeArrAtValue, Tag.tyName, Tag.body, ih, decodeS]
      cases decodeSList tbl ys <;> simp
    | dictStr keys =>
      have hl : keys.length = ys.length := by simpa using htag
      have ih2 := decodeObjVals_render keys ys tbl hys hl
      simp [render, wrapDef, decodeC, typeTag, natField, hasKey, decodeObjAtValue, valueKeys, Tag.tyName, Tag.body, ih2, decodeS,
        zipKeys_keys keys (renderList ys) (by simpa [renderList_length] using hl)]
      cases decodeSList tbl ys <;> simp
    | dictItems =>
      have hl : ys.length % 2 = 0 := by simpa using htag
      have ih2 := decodePairsC_render ys tbl hys hl
      simp [render, wrapDef, decodeC, typeTag, natField, hasKey, decodePairsAtItemsC, Tag.tyName, Tag.body, ih2, decodeS]
      cases decodeSList tbl ys <;> simp
    | data cls keys =>
      simp only [Bool.and_eq_true, Bool.not_eq_true', beq_iff_eq] at htag
      obtain ⟨⟨hl, hc⟩, hb⟩ := htag
      have ih2 := decodeObjVals_render keys ys tbl hys hl
      have hne := builtin_ne cls hb
      obtain ⟨n1, n2, n3, n4, n5, n6, n7, n8, n9, n10, n11⟩ := hne
      simp [render, wrapDef, decodeC, typeTag, natField, decodeObjAtValue, valueKeys, Tag.tyName, Tag.body, ih2, decodeS, hc,
        n1, n2, n3, n4, n5, n6, n7, n8, n9, n10, n11,
        zipKeys_keys keys (renderList ys) (by simpa [renderList_length] using hl)]
      cases decodeSList tbl ys <;> simp
    | enum cls name =>
      have : ys = [] := by simpa using htag
      subst this
      simp [render, wrapDef, decodeC, typeTag, natField, strField, Tag.tyName, Tag.body, decodeS, decodeSList, renderList]
    | datetime iso =>
      have : ys = [] := by simpa using htag
      subst this
      simp [render, wrapDef, decodeC, typeTag, natField, strField, Tag.tyName, Tag.body, decodeS, decodeSList, renderList]
    | specType v =>
      have : ys = [] := by simpa using htag
      subst this
      simp [render, wrapDef, decodeC, typeTag, natField, strField, Tag.tyName, Tag.body, decodeS, decodeSList, renderList]
    | regex p f =>
      have : ys = [] := by simpa using htag
      subst this
      simp [render, wrapDef, decodeC, typeTag, natField, strField, intField, Tag.tyName, Tag.body, decodeS, decodeSList, renderList]
    | cmp op v =>
      have : ys = [] := by simpa using htag
      subst this
      cases v <;>
      simp [render, wrapDef, decodeC, typeTag, natField, strField, fieldJ, scalarOfJ, Scalar.toJ, Tag.tyName, Tag.body, decodeS, decodeSList, renderList]
theorem decodeCList_render : (ys : List CE) → (tbl : Tbl) → WfEncList ys = true →
    decodeCList tbl (renderList ys) = decodeSList tbl ys
  | [], tbl, _ => by simp [renderList, decodeCList, decodeSList]
  | y :: ys, tbl, h => by
    simp only [WfEncList, Bool.and_eq_true] at h
    have h1 := decodeC_render y tbl h.1
    simp only [renderList, decodeCList, decodeSList, h1]
    cases hd : decodeS tbl y with
    | none => rfl
    | some r =>
      simp only [decodeCList_render ys r.2 h.2]
      cases decodeSList r.2 ys <;> rfl
theorem decodeObjVals_render : (keys : List String) → (ys : List CE) → (tbl : Tbl) → WfEncList ys = true →
    keys.length = ys.length → decodeObjVals tbl (zipKeys keys (renderList ys)) = decodeSList tbl ys
  | [], [], tbl, _, _ => by simp [renderList, zipKeys, decodeObjVals, decodeSList]
  | [], _ :: _, _, _, hl => by simp at hl
  | _ :: _, [], _, _, hl => by simp at hl
  | k :: keys, y :: ys, tbl, h, hl => by
    simp only [WfEncList, Bool.and_eq_true] at h
    have h1 := decodeC_render y tbl h.1
    simp only [renderList, zipKeys, decodeObjVals, decodeSList, h1]
    cases hd : decodeS tbl y with
    | none => rfl
    | some r =>
      simp only [decodeObjVals_render keys ys r.2 h.2 (by simpa using hl)]
      cases decodeSList r.2 ys <;> rfl
theorem decodePairsC_render : (ys : List CE) → (tbl : Tbl) → WfEncList ys = true → ys.length % 2 = 0 →
    decodePairsC tbl (pairUp (renderList ys)) = decodeSList tbl ys
  | [], tbl, _, _ => by simp [renderList, pairUp, decodePairsC, decodeSList]
  | [_], _, _, hl => by simp at hl
  | k :: v :: rest, tbl, h, hl => by
    simp only [WfEncList, Bool.and_eq_true] at h
    have h1 := decodeC_render k tbl h.1
    simp only [renderList, pairUp, decodePairsC, decodeSList, h1]
    cases hk : decodeS tbl k with
    | none => rfl
    | some r1 =>
      have h2 := decodeC_render v r1.2 h.2.1
      simp only [h2]
      cases hv : decodeS r1.2 v with
      | none => rfl
      | some r2 =>
        have h3 := decodePairsC_render rest r2.2 h.2.2 (by simp [List.length_cons] at hl; omega)
        simp only [h3]
        cases decodeSList r2.2 rest <;> rfl
end


/-! ### well-formedness is kept by the encoder -/
mutual
theorem encodeS_wf : (t : CV) → (refs : List Nat) → WfCV t = true → WfEnc (encodeS refs t).1 = true
  | .leaf _, _, _ => by simp [encodeS, WfEnc]
  | .seq xs, refs, h => by
    simp only [WfCV] at h
    simpa [encodeS, WfEnc] using (encodeSList_wf xs refs h).1
  | .node i tag kids, refs, h => by
    simp only [WfCV, Bool.and_eq_true] at h
    obtain ⟨h1, h2⟩ := encodeSList_wf kids refs h.1
    by_cases hi : i ∈ refs
    · simp [encodeS, hi, WfEnc]
    · simp [encodeS, hi, WfEnc, h1, h2, h.2]
theorem encodeSList_wf : (xs : List CV) → (refs : List Nat) → WfCVList xs = true →
    WfEncList (encodeSList refs xs).1 = true ∧ (encodeSList refs xs).1.length = xs.length
  | [], _, _ => by simp [encodeSList, WfEncList]
  | x :: xs, refs, h => by
    simp only [WfCVList, Bool.and_eq_true] at h
    have h1 := encodeS_wf x refs h.1
    obtain ⟨h2, h3⟩ := encodeSList_wf xs (encodeS refs x).2 h.2
    simp [encodeSList, WfEncList, h1, h2, h3]
end

/-- T2 for the concrete encoder/decoder: the refinement lemmas carry `Refs.roundtrip` over. -/
theorem roundtrip_shared (H : Nat → CV) (t : CV) (refs : List Nat) (tbl : Tbl)
    (hc : Consistent H t) (hw : WfCV t = true) (ha : Agree H refs tbl) :
    ∃ tbl', decodeC tbl (encodeC refs t).1 = some (t, tbl') ∧ Agree H (encodeC refs t).2 tbl' := by
  obtain ⟨tbl', h1, h2⟩ := Refs.roundtrip H t refs tbl hc ha
  refine ⟨tbl', ?_, ?_⟩
  · rw [encodeC_refines, decodeC_render _ _ (encodeS_wf t refs hw)]; exact h1
  · rw [encodeC_refines]; exact h2

end NemoVerif.Shared
