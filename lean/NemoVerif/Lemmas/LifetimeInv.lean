/-
  Invariant machinery for C06 (T2): the children-form lifetime clause `DC`, with an exempt set for instances
  that are in the middle of being stopped, is carried through the whole recursion of `_abort_flow` /
  `_finish_flow` (`Good`), by induction on the fuel.
-/
import NemoVerif.Lemmas.Lifetime
namespace NemoVerif.Lifetime

/-- children-form lifetime clause: a listening non-activated child (not in the exempt set `E`) has a parent that
    is listening or just being stopped -/
def DC (E : Nat → Prop) (s : State) : Prop :=
  ∀ p pf c cf, s.flows p = some pf → c ∈ pf.children → s.flows c = some cf → ¬ E c →
    cf.activated = 0 → cf.status.listening = true → pf.status.listening = true ∨ pf.status = .stopping

/-- a child of the same flow as its parent is a restarted instance: its `parent_uid` is that parent -/
def SFC (s : State) : Prop :=
  ∀ p pf c cf, s.flows p = some pf → c ∈ pf.children → s.flows c = some cf → cf.flowId = pf.flowId → cf.parent = some p

/-- "listening with activation count 0 afterwards ⇒ count 0 before" (outside `E`) -/
def LZ (E : Nat → Prop) (s s' : State) : Prop :=
  ∀ v f', s'.flows v = some f' → ¬ E v → f'.status.listening = true → f'.activated = 0 →
    ∃ f, s.flows v = some f ∧ f.activated = 0

theorem Steps.flows_back {s t : State} (h : Steps false s t) (v : Nat) (f' : Flow) (hv : t.flows v = some f') :
    ∃ f, s.flows v = some f ∧ FlowUpd f f' := by
  obtain ⟨_, hn, hr⟩ := h.flows_rel
  cases hs : s.flows v with
  | none => rw [hn v hs] at hv; cases hv
  | some f =>
    obtain ⟨f'', h1, h2⟩ := hr v f hs
    rw [hv] at h1; cases h1
    exact ⟨f, rfl, h2⟩

theorem FlowUpd.listening_back {f f' : Flow} (h : FlowUpd f f') (hl : f'.status.listening = true) : f'.status = f.status := by
  rcases h.status with e | e | e
  · exact e
  · rw [e] at hl; cases hl
  · rw [e] at hl; cases hl

theorem Steps.sfc {s t : State} (h : Steps false s t) (hs : SFC s) : SFC t := by
  intro p pf' c cf' hp hc hcf hid
  obtain ⟨pf, hp0, hu⟩ := h.flows_back p pf' hp
  obtain ⟨cf, hc0, hcu⟩ := h.flows_back c cf' hcf
  have := hs p pf c cf hp0 (hu.children c hc) hc0 (by rw [← hcu.flowId, ← hu.flowId]; exact hid)
  rw [hcu.parent]; exact this

structure Good (E : Nat → Prop) (s s' : State) : Prop where
  steps : Steps false s s'
  lz : LZ E s s'
  dc : SFC s → DC E s → DC E s'

theorem Good.refl (E : Nat → Prop) (s : State) : Good E s s :=
  ⟨.refl s, fun v f' hv _ _ ha => ⟨f', hv, ha⟩, fun _ h => h⟩

theorem Good.trans {E : Nat → Prop} {s1 s2 s3 : State} (a : Good E s1 s2) (b : Good E s2 s3) : Good E s1 s3 := by
  refine ⟨a.steps.trans b.steps, ?_, fun hs hd => b.dc (a.steps.sfc hs) (a.dc hs hd)⟩
  intro v f3 hv he hl ha
  obtain ⟨f2, h2, ha2⟩ := b.lz v f3 hv he hl ha
  obtain ⟨g2, hg2, hu⟩ := b.steps.flows_back v f3 hv
  rw [h2] at hg2; cases hg2
  have : f2.status.listening = true := by rw [← hu.listening_back hl]; exact hl
  exact a.lz v f2 h2 he this ha2

theorem Good.of_flows_eq {E : Nat → Prop} {s s' : State} (st : Steps false s s') (h : s'.flows = s.flows) : Good E s s' := by
  refine ⟨st, ?_, ?_⟩
  · intro v f' hv _ _ ha; rw [h] at hv; exact ⟨f', hv, ha⟩
  · intro _ hd p pf c cf hp hc hcf; rw [h] at hp hcf; exact hd p pf c cf hp hc hcf

/-- a record update that keeps "listening or stopping" and does not zero the count of a listening instance -/
theorem Good.setFlow_keep {E : Nat → Prop} {s : State} {u : Nat} {f f' : Flow} (hf : s.flows u = some f)
    (hu : FlowUpd f f') (hst : f'.status = f.status)
    (hz : E u ∨ (f'.activated = 0 → f'.status.listening = true → f.activated = 0)) : Good E s (setFlow s u f') := by
  refine ⟨.single (.flow hf hu), ?_, ?_⟩
  · intro v g hv he hl ha
    rw [setFlow_flows] at hv
    split at hv
    · next e =>
      subst e; cases hv
      rcases hz with hz | hz
      · exact absurd hz he
      · exact ⟨f, hf, hz ha hl⟩
    · exact ⟨g, hv, ha⟩
  · intro _ hd p pf' c cf' hp hc hcf he ha hl
    -- old records
    have hp0 : ∃ pf, s.flows p = some pf ∧ (∀ x, x ∈ pf'.children → x ∈ pf.children) ∧ pf'.status = pf.status := by
      rw [setFlow_flows] at hp
      split at hp
      · next e => subst e; cases hp; exact ⟨f, hf, hu.children, hst⟩
      · exact ⟨pf', hp, fun _ h => h, rfl⟩
    have hc0 : ∃ cf, s.flows c = some cf ∧ cf.activated = 0 ∧ cf.status.listening = true := by
      rw [setFlow_flows] at hcf
      split at hcf
      · next e =>
        subst e; cases hcf
        rcases hz with hz | hz
        · exact absurd hz he
        · exact ⟨f, hf, hz ha hl, by rw [← hst]; exact hl⟩
      · exact ⟨cf', hcf, ha, hl⟩
    obtain ⟨pf, hpf, hch, hs'⟩ := hp0
    obtain ⟨cf, hcf0, ha0, hl0⟩ := hc0
    rw [hs']
    exact hd p pf c cf hpf (hch c hc) hcf0 he ha0 hl0

/-- a record update that ends the instance: its non-activated children must not be listening -/
theorem Good.setFlow_end {E : Nat → Prop} {s : State} {u : Nat} {f f' : Flow} (hf : s.flows u = some f)
    (hu : FlowUpd f f') (hend : f'.status.listening = false)
    (hkids : ∀ c cf, c ∈ f'.children → s.flows c = some cf → ¬ E c → c ≠ u → cf.activated = 0 → cf.status.listening = false) :
    Good E s (setFlow s u f') := by
  refine ⟨.single (.flow hf hu), ?_, ?_⟩
  · intro v g hv he hl ha
    rw [setFlow_flows] at hv
    split at hv
    · next e => subst e; cases hv; rw [hend] at hl; cases hl
    · exact ⟨g, hv, ha⟩
  · intro _ hd p pf' c cf' hp hc hcf he ha hl
    by_cases hcu : c = u
    · subst hcu
      rw [setFlow_flows_same] at hcf; cases hcf
      rw [hend] at hl; cases hl
    · rw [setFlow_flows_ne _ _ _ _ hcu] at hcf
      by_cases hpu : p = u
      · subst hpu
        rw [setFlow_flows_same] at hp; cases hp
        have := hkids c cf' hc hcf he hcu ha
        rw [this] at hl; cases hl
      · rw [setFlow_flows_ne _ _ _ _ hpu] at hp
        exact hd p pf' c cf' hp hc hcf he ha hl

theorem Good.mono {E E' : Nat → Prop} {s s' : State} (h : Good E s s') (hE : ∀ v, E v → E' v)
    (hdc : SFC s → DC E' s → DC E' s') : Good E' s s' :=
  ⟨h.steps, fun v f' hv he hl ha => h.lz v f' hv (fun e => he (hE v e)) hl ha, hdc⟩

/-- `_abort_flow` ends the instance unless it is a deactivation of a reference instance that other activators
    still hold (then ONLY the reference count changes): afterwards the instance is not listening, for every
    `deactivate_flow` value, every hierarchy and every fuel. -/
theorem abort_ends_instance (n : Nat) (s : State) (u : Nat) (d : Bool) (s' : State) (f : Flow) (hf : s.flows u = some f)
    (h : abortFlow n s u d = .ok s') :
    (d = true ∧ isRefActivated s f = .ok true ∧ s' = setFlow s u { f with activated := f.activated - 1 } ∧ f.activated - 1 ≠ 0) ∨
    ∃ f', s'.flows u = some f' ∧ f'.status.listening = false ∧ f'.status ≠ .stopping := by
  cases n with
  | zero => simp [abortFlow] at h
  | succ n =>
    simp only [abortFlow] at h
    split at h
    · cases h
    · next s1 h1 =>
      cases h
      left
      unfold deactivatePhase at h1
      simp only [hf] at h1
      split at h1
      · cases h1
      · cases h1
      · next hr =>
        split at h1
        · split at h1 <;> cases h1
        · next hne =>
          cases h1
          cases d
          · simp at hr
          · exact ⟨rfl, by simpa using hr, rfl, by simpa using hne⟩
    · next s1 h1 =>
      right
      obtain ⟨_, _, hrel⟩ := (deactivatePhase_steps _ (abortFlow_rec_steps n) _ _ _ _ _ h1).flows_rel
      obtain ⟨f1, hf1, hu⟩ := hrel u f hf
      by_cases hg : f1.status.listening = true ∨ f1.status = .stopping
      · obtain ⟨_, _, _, s6, f6, _, _, _, _, _, _, hf6, st6, _, _, _, _, _, hr⟩ := abortBody_post _ s1 u d s' f1 hf1 hg h
        obtain ⟨g, hg', hcase⟩ := restart_spec _ _ _ _ hr
        rw [hf6] at hg'; cases hg'
        rcases hcase with ⟨_, _, _, _, hu', _⟩ | ⟨_, e⟩
        · exact ⟨_, hu', by simp [st6, FStatus.listening], by simp [st6]⟩
        · rw [e]; exact ⟨_, hf6, by simp [st6, FStatus.listening], by simp [st6]⟩
      · unfold abortBody at h
        simp only [hf1] at h
        have hg1 : ¬ f1.status.listening = true := fun e => hg (Or.inl e)
        have hg2 : ¬ f1.status = .stopping := fun e => hg (Or.inr e)
        have hc : (!f1.status.listening && f1.status != .stopping) = true := by
          simp [hg1, hg2]
        rw [if_pos hc] at h
        cases h
        exact ⟨f1, hf1, by simpa using hg1, hg2⟩


/-- the child loop of `_abort_flow` / `_finish_flow` stops every non-activated child that is listed:
    "every still-running flow it started has stopped" (one level; nested levels by the same theorem applied to the
    nested calls, `ended_stays_ended` keeps them stopped) -/
theorem children_stopped (n : Nat) : ∀ (l : List Nat) (s s1 : State),
    childLoop (fun s c => abortFlow n s c true) s l = .ok s1 →
    ∀ c ∈ l, ∀ cf, s.flows c = some cf → cf.activated = 0 →
      ∃ cf', s1.flows c = some cf' ∧ cf'.status.listening = false ∧ cf'.activated = 0
  | [], _, _, _, c, hc, _, _, _ => by simp at hc
  | c0 :: cs, s, s1, h, c, hc, cf, hcf, hact => by
    simp only [childLoop] at h
    split at h
    · next hnone =>
      rcases List.mem_cons.1 hc with e | e
      · subst e; rw [hcf] at hnone; cases hnone
      · exact children_stopped n cs s s1 h c e cf hcf hact
    · next cf0 hcf0 =>
      split at h
      · split at h
        · next s2 h2 =>
          have hst := abortFlow_true_steps n s c0 s2 h2
          obtain ⟨_, _, hrel⟩ := hst.flows_rel
          obtain ⟨cf2, hcf2, hu2⟩ := hrel c cf hcf
          have hact2 : cf2.activated = 0 := by have := hu2.activated; omega
          by_cases e : c = c0
          · subst e
            rcases abort_ends_instance n s c true s2 cf hcf h2 with ⟨_, _, _, hne⟩ | ⟨f', hf', hl', _⟩
            · rw [hact] at hne; simp at hne
            · obtain ⟨_, _, hrel'⟩ := (childLoop_steps _ (abortFlow_rec_steps n) _ _ _ h).flows_rel
              obtain ⟨f'', hf'', hu''⟩ := hrel' c f' hf'
              rw [hcf2] at hf'; cases hf'
              exact ⟨f'', hf'', hu''.not_listening hl', by have := hu''.activated; omega⟩
          · have hc' : c ∈ cs := by
              rcases List.mem_cons.1 hc with e' | e'
              · exact absurd e' e
              · exact e'
            exact children_stopped n cs s2 s1 h c hc' cf2 hcf2 hact2
        · cases h
      · next hca =>
        rcases List.mem_cons.1 hc with e | e
        · subst e
          rw [hcf] at hcf0; cases hcf0
          simp [isChildActivated, hact] at hca
        · exact children_stopped n cs s s1 h c e cf hcf hact



/-! ### `Good` through the loops and the recursion -/

theorem Good.unexempt' {E : Nat → Prop} {u : Nat} {s s' : State} (h : Good (fun v => E v ∨ v = u) s s')
    (hu : ∀ f', s'.flows u = some f' → f'.status.listening = false ∨ f'.activated ≠ 0) : Good E s s' := by
  refine ⟨h.steps, ?_, ?_⟩
  · intro v f' hv he hl ha
    by_cases hvu : v = u
    · subst hvu
      rcases hu f' hv with e | e
      · rw [e] at hl; cases hl
      · exact absurd ha e
    · exact h.lz v f' hv (fun e => e.elim he hvu) hl ha
  · intro hs hd p pf c cf hp hc hcf he ha hl
    have hd' : DC (fun v => E v ∨ v = u) s := fun p pf c cf hp hc hcf he' => hd p pf c cf hp hc hcf (fun e => he' (Or.inl e))
    by_cases hcu : c = u
    · subst hcu
      rcases hu cf hcf with e | e
      · rw [e] at hl; cases hl
      · exact absurd ha e
    · exact h.dc hs hd' p pf c cf hp hc hcf (fun e => e.elim he hcu) ha hl

theorem Good.unexempt {E : Nat → Prop} {u : Nat} {s s' : State} (h : Good (fun v => E v ∨ v = u) s s')
    (hu : ∀ f', s'.flows u = some f' → f'.status.listening = false) : Good E s s' :=
  h.unexempt' (fun f' hf' => Or.inl (hu f' hf'))

abbrev recA (n : Nat) : State → Nat → Except Err State := fun s c => abortFlow n s c true

/-- induction hypothesis of the fuel induction -/
def RecGood (n : Nat) : Prop := ∀ (E : Nat → Prop) (s : State) (c : Nat) (s' : State), SFC s → abortFlow n s c true = .ok s' → Good E s s'

theorem childLoop_good (n : Nat) (hrec : RecGood n) (E : Nat → Prop) : ∀ (l : List Nat) (s s' : State), SFC s →
    childLoop (recA n) s l = .ok s' → Good E s s'
  | [], s, s', _, h => by simp [childLoop] at h; subst h; exact Good.refl E s
  | c :: cs, s, s', hs, h => by
    simp only [childLoop] at h
    split at h
    · exact childLoop_good n hrec E cs s s' hs h
    · split at h
      · split at h
        · next s1 h1 =>
          have g1 := hrec E s c s1 hs h1
          exact g1.trans (childLoop_good n hrec E cs s1 s' (g1.steps.sfc hs) h)
        · cases h
      · exact childLoop_good n hrec E cs s s' hs h

theorem isRefActivated_same_flow (s : State) (cf uf : Flow) (u : Nat) (hp : cf.parent = some u) (hu : s.flows u = some uf)
    (hid : uf.flowId = cf.flowId) : isRefActivated s cf = .ok false := by
  unfold isRefActivated
  split
  · simp [hp, hu, hid]
  · rfl

theorem deactLoop_good (n : Nat) (hrec : RecGood n) (E : Nat → Prop) (u fid : Nat) : ∀ (l : List Nat) (s s' : State), SFC s →
    (∃ uf, s.flows u = some uf ∧ uf.flowId = fid) →
    (∀ c ∈ l, ∀ cf, s.flows c = some cf → cf.flowId = fid → cf.parent = some u) →
    deactLoop (recA n) fid s l = .ok s' → Good E s s'
  | [], s, s', _, _, _, h => by simp [deactLoop] at h; subst h; exact Good.refl E s
  | c :: cs, s, s', hs, huf, hpar, h => by
    simp only [deactLoop] at h
    split at h
    · cases h
    · next cf hcf =>
      split at h
      · next hid =>
        split at h
        · next s1 h1 =>
          have hid' : cf.flowId = fid := by simpa using hid
          obtain ⟨uf, huf1, huf2⟩ := huf
          have hp := hpar c (by simp) cf hcf hid'
          have g1 := hrec E s c s1 hs h1
          -- the restarted instance is not a reference instance: it has been stopped
          have hnl : ∃ cf1, s1.flows c = some cf1 ∧ cf1.status.listening = false := by
            rcases abort_ends_instance n s c true s1 cf hcf h1 with ⟨_, hr, _, _⟩ | ⟨g, hg1, hg2, _⟩
            · rw [isRefActivated_same_flow s cf uf u hp huf1 (by rw [huf2, hid'])] at hr; cases hr
            · exact ⟨g, hg1, hg2⟩
          obtain ⟨cf1, hcf1, hl1⟩ := hnl
          have hz : modFlow s1 c (fun f => { f with activated := 0 }) = setFlow s1 c { cf1 with activated := 0 } :=
            modFlow_some _ _ _ _ hcf1
          have g2 : Good E s1 (setFlow s1 c { cf1 with activated := 0 }) :=
            Good.setFlow_keep hcf1 ⟨rfl, rfl, fun h => h, rfl, rfl, Or.inl rfl, fun _ h => h, by simp⟩ rfl
              (Or.inr (fun _ hl => by rw [hl1] at hl; cases hl))
          have g := g1.trans g2
          rw [hz] at h
          refine g.trans (deactLoop_good n hrec E u fid cs _ s' (g.steps.sfc hs) ?_ ?_ h)
          · obtain ⟨_, _, hr⟩ := g.steps.flows_rel
            obtain ⟨uf', h1', h2'⟩ := hr u uf huf1
            exact ⟨uf', h1', by rw [h2'.flowId]; exact huf2⟩
          · intro c' hc' cf' hcf' hid''
            obtain ⟨cf0, h0, hu0⟩ := g.steps.flows_back c' cf' hcf'
            rw [hu0.parent]
            exact hpar c' (List.mem_cons_of_mem _ hc') cf0 h0 (by rw [← hu0.flowId]; exact hid'')
        · cases h
      · exact deactLoop_good n hrec E u fid cs s s' hs huf (fun c' hc' => hpar c' (List.mem_cons_of_mem _ hc')) h


theorem removeFromParent_good (E : Nat → Prop) (s : State) (u : Nat) (s' : State) (h : removeFromParent s u = .ok s') :
    Good E s s' := by
  unfold removeFromParent at h
  split at h
  · cases h
  · split at h
    · split at h
      · cases h; exact Good.refl E s
      · split at h
        · cases h; exact Good.refl E s
        · next pf hpf =>
          split at h
          · cases h
            exact Good.setFlow_keep (f' := { pf with children := pf.children.erase u }) hpf
              ⟨rfl, rfl, fun h => h, rfl, rfl, Or.inl rfl, fun c hc => List.mem_of_mem_erase hc, by simp⟩ rfl (Or.inr (fun ha _ => ha))
          · cases h
    · cases h; exact Good.refl E s

theorem markNoRestart_good (E : Nat → Prop) (s : State) (u : Nat) : Good E s (markNoRestart s u) := by
  unfold markNoRestart
  split
  · next f hf =>
    split
    · exact Good.setFlow_keep (f' := { f with nis := true }) hf ⟨rfl, rfl, fun _ => rfl, rfl, rfl, Or.inl rfl, fun _ h => h, by simp⟩ rfl
        (Or.inr (fun ha _ => ha))
    · exact Good.refl E s
  · exact Good.refl E s

/-- the part of `_abort_flow` / `_finish_flow` up to (excluding) the status change: child loop, stop-actions loop,
    heads cleared — and what is then known about the children of `u` -/
theorem body_prefix_good (n : Nat) (hrec : RecGood n) (E : Nat → Prop) (u : Nat) (s : State) (f : Flow)
    (hf : s.flows u = some f) (hs : SFC s) (s1 : State) (h1 : childLoop (recA n) s f.children = .ok s1)
    (f1 : Flow) (hf1 : s1.flows u = some f1) (s2 : State) (h2 : stopActions s1 f1.actionUids = .ok s2) :
    Good E s (setFlow s2 u { f1 with heads := 0 }) ∧
    (∀ c cf, c ∈ f1.children → s1.flows c = some cf → ¬ E c → cf.activated = 0 → cf.status.listening = false) := by
  have g1 := childLoop_good n hrec E _ _ _ hs h1
  obtain ⟨e1, _, _⟩ := stopActions_frame _ _ _ h2
  have g2 : Good E s1 s2 := Good.of_flows_eq (stopActions_steps _ _ _ h2) e1
  have hs2u : s2.flows u = some f1 := by rw [e1]; exact hf1
  have g3 : Good E s2 (setFlow s2 u { f1 with heads := 0 }) :=
    Good.setFlow_keep hs2u ⟨rfl, rfl, fun h => h, rfl, rfl, Or.inl rfl, fun _ h => h, by simp⟩ rfl (Or.inr (fun ha _ => ha))
  refine ⟨g1.trans (g2.trans g3), ?_⟩
  intro c cf hc hcf he ha
  cases hl : cf.status.listening with
  | false => rfl
  | true =>
    obtain ⟨cf0, h0, ha0⟩ := g1.lz c cf hcf he hl ha
    obtain ⟨f0, hf0, hu0⟩ := g1.steps.flows_back u f1 hf1
    rw [hf] at hf0; cases hf0
    obtain ⟨cf', hcf', hl', _⟩ := children_stopped n f.children s s1 h1 c (hu0.children c hc) cf0 h0 ha0
    rw [hcf] at hcf'; cases hcf'
    rw [hl] at hl'; cases hl'

theorem abortBody_good (n : Nat) (hrec : RecGood n) (E : Nat → Prop) (u : Nat) (s : State) (d : Bool) (s' : State)
    (hs : SFC s) (h : abortBody (recA n) s u d = .ok s') :
    ∃ s6, Good E s s6 ∧ (s' = s6 ∨ restart s6 u d = .ok s') := by
  unfold abortBody at h
  split at h
  · cases h
  · next f hf =>
    split at h
    · cases h; exact ⟨s, Good.refl E s, Or.inl rfl⟩
    · split at h
      · cases h
      · next s1 h1 =>
        split at h
        · cases h
        · next f1 hf1 =>
          split at h
          · cases h
          · next s2 h2 =>
            dsimp only at h
            obtain ⟨e1, _, _⟩ := stopActions_frame _ _ _ h2
            have hs2u : s2.flows u = some f1 := by rw [e1]; exact hf1
            rw [modFlow_some _ _ _ _ hs2u] at h
            split at h
            · cases h
            · next s4 h4 =>
              have gm := markNoRestart_good E s u
              obtain ⟨f0, hf0, hch0, _⟩ := markNoRestart_self s u f hf
              obtain ⟨g3', hk⟩ := body_prefix_good n hrec E u (markNoRestart s u) f0 hf0 (gm.steps.sfc hs) s1
                (by rw [hch0]; exact h1) f1 hf1 s2 h2
              have g3 := gm.trans g3'
              have g4 := removeFromParent_good E _ _ _ h4
              obtain ⟨_, _, _, fl4⟩ := removeFromParent_flows _ _ _ h4
              -- the record of `u` after the removal from the parent's list
              have hu4 : ∃ f4, s4.flows u = some f4 ∧ ∀ c, c ∈ f4.children → c ∈ f1.children := by
                rcases fl4 u with e | ⟨pf, e, e'⟩
                · rw [setFlow_flows_same] at e; exact ⟨_, e, fun _ h => h⟩
                · rw [setFlow_flows_same] at e; cases e
                  exact ⟨_, e', fun c hc => List.mem_of_mem_erase hc⟩
              obtain ⟨f4, hf4, hch4⟩ := hu4
              rw [modFlow_some _ _ _ _ hf4] at h
              have g5 : Good E s4 (setFlow s4 u { f4 with status := .stopped }) := by
                refine Good.setFlow_end hf4 ⟨rfl, rfl, fun h => h, rfl, rfl, Or.inr (Or.inl rfl), fun _ h => h, by simp⟩ rfl ?_
                intro c cf hc hcf he hcu ha
                -- the record of `c` is the one after the child loop, up to its children list
                have hc1 : ∃ cf1, s1.flows c = some cf1 ∧ cf1.activated = cf.activated ∧ cf1.status = cf.status := by
                  rcases fl4 c with e | ⟨pf, e, e'⟩
                  · rw [setFlow_flows_ne _ _ _ _ hcu, e1] at e
                    exact ⟨cf, by rw [← e]; exact hcf, rfl, rfl⟩
                  · rw [setFlow_flows_ne _ _ _ _ hcu, e1] at e
                    rw [hcf] at e'; cases e'
                    exact ⟨pf, e, rfl, rfl⟩
                obtain ⟨cf1, hcf1, ea, es⟩ := hc1
                rw [← es]
                exact hk c cf1 (hch4 c hc) hcf1 he (by rw [ea]; exact ha)
              refine ⟨_, g3.trans (g4.trans (g5.trans (Good.of_flows_eq (.single (.push (.flowFailed u) rfl)) rfl))), Or.inr h⟩

theorem deactivatePhase_flag (rec : State → Nat → Except Err State) (s : State) (u : Nat) (f : Flow) (hf : s.flows u = some f)
    (hr : isRefActivated s f = .ok true) (hne : f.activated - 1 ≠ 0) (s1 : State) (b : Bool)
    (h : deactivatePhase rec s u true = .ok (s1, b)) : b = true := by
  unfold deactivatePhase at h
  simp only [hf, if_true, hr] at h
  have : (f.activated - 1 == 0) = false := by simp [hne]
  simp only [this] at h
  cases h; rfl

theorem deactivatePhase_good (n : Nat) (hrec : RecGood n) (E : Nat → Prop) (u : Nat) (hE : E u) (s : State) (d : Bool)
    (s1 : State) (b : Bool) (hs : SFC s) (h : deactivatePhase (recA n) s u d = .ok (s1, b)) : Good E s s1 := by
  unfold deactivatePhase at h
  split at h
  · cases h
  · next f hf =>
    split at h
    · cases h
    · cases h; exact Good.refl E s
    · dsimp only at h
      have g0 : Good E s (setFlow s u { f with activated := f.activated - 1 }) :=
        Good.setFlow_keep hf ⟨rfl, rfl, fun h => h, rfl, rfl, Or.inl rfl, fun _ h => h, by simp⟩ rfl (Or.inl hE)
      split at h
      · split at h
        · next s2 h2 =>
          cases h
          refine g0.trans (deactLoop_good n hrec E u f.flowId f.children _ _ (g0.steps.sfc hs) ⟨_, setFlow_flows_same _ _ _, rfl⟩ ?_ h2)
          intro c hc cf hcf hid
          by_cases hcu : c = u
          · subst hcu
            rw [setFlow_flows_same] at hcf; cases hcf
            exact hs c f c f hf hc hf rfl
          · rw [setFlow_flows_ne _ _ _ _ hcu] at hcf
            exact hs u f c cf hf hc hcf hid
        · cases h
      · cases h; exact g0

theorem abortFlow_good : ∀ (n : Nat), RecGood n
  | 0, _, _, _, _, _, h => by simp [abortFlow] at h
  | n + 1, E, s, u, s', hs, h => by
    have hrec : RecGood n := abortFlow_good n
    cases hfu : s.flows u with
    | none => simp [abortFlow, deactivatePhase, hfu] at h
    | some f =>
    have hend := abort_ends_instance (n + 1) s u true s' f hfu h
    simp only [abortFlow] at h
    split at h
    · cases h
    · next s1 h1 =>
      -- early return: the whole call is the deactivation block; `u` may be exempted because its count stays > 0
      -- or it is not listening
      have g := deactivatePhase_good n hrec (fun v => E v ∨ v = u) u (Or.inr rfl) s true s1 true hs h1
      cases h
      rcases hend with ⟨_, _, e, hne⟩ | ⟨f', hf', hl', _⟩
      · rw [e]
        exact Good.setFlow_keep hfu ⟨rfl, rfl, fun h => h, rfl, rfl, Or.inl rfl, fun _ h => h, by simp⟩ rfl
          (Or.inr (fun ha _ => absurd ha hne))
      · exact g.unexempt (fun g' hg' => by rw [hf'] at hg'; cases hg'; exact hl')
    · next s1 h1 =>
      have hnl : ∀ f', s'.flows u = some f' → f'.status.listening = false := by
        rcases hend with ⟨_, hr, _, hne⟩ | ⟨f', hf', hl', _⟩
        · have := deactivatePhase_flag _ s u f hfu hr hne s1 false h1
          cases this
        · intro g hg; rw [hf'] at hg; cases hg; exact hl'
      apply Good.unexempt (u := u) _ hnl
      have gd := deactivatePhase_good n hrec (fun v => E v ∨ v = u) u (Or.inr rfl) s true s1 false hs h1
      obtain ⟨s6, g6, hr⟩ := abortBody_good n hrec (fun v => E v ∨ v = u) u s1 true s' (gd.steps.sfc hs) h
      rcases hr with e | e
      · rw [e]; exact gd.trans g6
      · rw [restart_true _ _ _ e]; exact gd.trans g6


/-- an outermost `_abort_flow` call (any `deactivate_flow`): a `Good` run with `u` exempted, then possibly the restart -/
theorem abortFlow_good_any (n : Nat) (E : Nat → Prop) (s : State) (u : Nat) (d : Bool) (s' : State) (hs : SFC s)
    (h : abortFlow n s u d = .ok s') :
    ∃ s6, Good (fun v => E v ∨ v = u) s s6 ∧ (s' = s6 ∨ restart s6 u d = .ok s') := by
  cases n with
  | zero => simp [abortFlow] at h
  | succ n =>
    have hrec : RecGood n := abortFlow_good n
    simp only [abortFlow] at h
    split at h
    · cases h
    · next s1 h1 =>
      have g := deactivatePhase_good n hrec (fun v => E v ∨ v = u) u (Or.inr rfl) s d s1 true hs h1
      cases h
      exact ⟨_, g, Or.inl rfl⟩
    · next s1 h1 =>
      have gd := deactivatePhase_good n hrec (fun v => E v ∨ v = u) u (Or.inr rfl) s d s1 false hs h1
      obtain ⟨s6, g6, hr⟩ := abortBody_good n hrec (fun v => E v ∨ v = u) u s1 d s' (gd.steps.sfc hs) h
      exact ⟨s6, gd.trans g6, hr⟩

theorem finishBody_good (n : Nat) (hrec : RecGood n) (E : Nat → Prop) (u : Nat) (s : State) (d : Bool) (s' : State)
    (hs : SFC s) (h : finishBody (recA n) s u d = .ok s') :
    ∃ s6, Good E s s6 ∧ (((s' = s6 ∨ restart s6 u d = .ok s') ∧ ∀ f6, s6.flows u = some f6 → f6.status.listening = false) ∨
      ∃ f6, s6.flows u = some f6 ∧ f6.isMain = true ∧ s' = setFlow s6 u { f6 with heads := 1, status := .waiting }) := by
  unfold finishBody at h
  split at h
  · cases h
  · next f hf =>
    split at h
    · next hg =>
      cases h
      exact ⟨s, Good.refl E s, Or.inl ⟨Or.inl rfl, fun f6 h6 => by rw [hf] at h6; cases h6; simpa using hg⟩⟩
    · split at h
      · cases h
      · next s1 h1 =>
        split at h
        · cases h
        · next f1 hf1 =>
          split at h
          · cases h
          · next s2 h2 =>
            dsimp only at h
            obtain ⟨e1, _, _⟩ := stopActions_frame _ _ _ h2
            have hs2u : s2.flows u = some f1 := by rw [e1]; exact hf1
            rw [modFlow_some _ _ _ _ hs2u] at h
            obtain ⟨g3, hk⟩ := body_prefix_good n hrec E u s f hf hs s1 h1 f1 hf1 s2 h2
            split at h
            · next hm =>
              cases h
              refine ⟨_, g3, Or.inr ⟨{ f1 with heads := 0 }, setFlow_flows_same _ _ _, hm, ?_⟩⟩
              rw [modFlow_some _ _ _ _ (setFlow_flows_same _ _ _)]
            · rw [modFlow_some _ _ _ _ (setFlow_flows_same _ _ _)] at h
              split at h
              · cases h
              · next s5 h5 =>
                have g4 : Good E (setFlow s2 u { f1 with heads := 0 })
                    (setFlow (setFlow s2 u { f1 with heads := 0 }) u { f1 with heads := 0, status := .finished }) := by
                  refine Good.setFlow_end (setFlow_flows_same _ _ _) ⟨rfl, rfl, fun h => h, rfl, rfl, Or.inr (Or.inr rfl), fun _ h => h, by simp⟩ rfl ?_
                  intro c cf hc hcf he hcu ha
                  rw [setFlow_flows_ne _ _ _ _ hcu, e1] at hcf
                  exact hk c cf hc hcf he ha
                have g5 := removeFromParent_good E _ _ _ h5
                obtain ⟨_, _, _, fl5⟩ := removeFromParent_flows _ _ _ h5
                refine ⟨_, g3.trans (g4.trans (g5.trans (Good.of_flows_eq (.single (.push (.flowFinished u) rfl)) rfl))), Or.inl ⟨Or.inr h, ?_⟩⟩
                intro f6 h6
                rw [push_flows] at h6
                rcases fl5 u with e | ⟨pf, e, e'⟩
                · rw [setFlow_flows_same] at e; rw [h6] at e; cases e; rfl
                · rw [setFlow_flows_same] at e; cases e
                  rw [h6] at e'; cases e'; rfl

theorem deactivatePhase_true (rec : State → Nat → Except Err State) (s : State) (u : Nat) (d : Bool) (f : Flow)
    (hf : s.flows u = some f) (s1 : State) (h : deactivatePhase rec s u d = .ok (s1, true)) :
    s1 = setFlow s u { f with activated := f.activated - 1 } ∧ f.activated - 1 ≠ 0 := by
  unfold deactivatePhase at h
  simp only [hf] at h
  split at h
  · cases h
  · cases h
  · split at h
    · split at h <;> cases h
    · next hne => cases h; exact ⟨rfl, by simpa using hne⟩

theorem finishFlow_good_any (n : Nat) (E : Nat → Prop) (s : State) (u : Nat) (d : Bool) (s' : State) (hs : SFC s)
    (h : finishFlow n s u d = .ok s') :
    ∃ s6, Good (fun v => E v ∨ v = u) s s6 ∧
      (((s' = s6 ∨ restart s6 u d = .ok s') ∧ ∀ f6, s6.flows u = some f6 → f6.status.listening = false ∨ f6.activated ≠ 0) ∨
      ∃ f6, s6.flows u = some f6 ∧ f6.isMain = true ∧ s' = setFlow s6 u { f6 with heads := 1, status := .waiting }) := by
  have hrec : RecGood n := abortFlow_good n
  simp only [finishFlow] at h
  split at h
  · cases h
  · next s1 h1 =>
    have g := deactivatePhase_good n hrec (fun v => E v ∨ v = u) u (Or.inr rfl) s d s1 true hs h1
    cases h
    refine ⟨_, g, Or.inl ⟨Or.inl rfl, ?_⟩⟩
    intro f6 h6
    cases hfu : s.flows u with
    | none => simp [deactivatePhase, hfu] at h1
    | some f =>
      obtain ⟨e, hne⟩ := deactivatePhase_true _ s u d f hfu _ h1
      rw [e, setFlow_flows_same] at h6; cases h6
      exact Or.inr hne
  · next s1 h1 =>
    have gd := deactivatePhase_good n hrec (fun v => E v ∨ v = u) u (Or.inr rfl) s d s1 false hs h1
    obtain ⟨s6, g6, hr⟩ := finishBody_good n hrec (fun v => E v ∨ v = u) u s1 d s' (gd.steps.sfc hs) h
    refine ⟨s6, gd.trans g6, ?_⟩
    rcases hr with ⟨t, nl⟩ | m
    · exact Or.inl ⟨t, fun f6 h6 => Or.inl (nl f6 h6)⟩
    · exact Or.inr m


/-! ### fuel: on an acyclic child graph the number of levels suffices; on a cyclic one no fuel does -/

/-- a rank function that strictly decreases along `child_flow_uids` (exists iff the child graph is acyclic) -/
def Ranked (r : Nat → Nat) (s : State) : Prop :=
  ∀ p pf c, s.flows p = some pf → c ∈ pf.children → s.flows c ≠ none → r c < r p

theorem Steps.ranked {r : Nat → Nat} {s t : State} (h : Steps false s t) (hr : Ranked r s) : Ranked r t := by
  intro p pf' c hp hc hcn
  obtain ⟨pf, hp0, hu⟩ := h.flows_back p pf' hp
  obtain ⟨_, hn, _⟩ := h.flows_rel
  exact hr p pf c hp0 (hu.children c hc) (fun e => hcn (hn c e))

theorem stopActions_no_fuel : ∀ (l : List Nat) (s : State), stopActions s l ≠ .error .fuel
  | [], s => by simp [stopActions]
  | a :: as, s => by
    simp only [stopActions]
    split
    · exact stopActions_no_fuel as _
    · next e he =>
      intro h; cases h
      unfold stopAction1 at he
      split at he
      · cases he
      · split at he
        · dsimp only at he
          split at he <;> cases he
        · cases he

theorem removeFromParent_no_fuel (s : State) (u : Nat) : removeFromParent s u ≠ .error .fuel := by
  unfold removeFromParent
  split
  · simp
  · split
    · split
      · simp
      · split
        · simp
        · split <;> simp
    · simp

theorem restart_no_fuel (s : State) (u : Nat) (d : Bool) : restart s u d ≠ .error .fuel := by
  unfold restart
  split
  · simp
  · split
    · dsimp only
      split
      · next e he =>
        split at he
        · cases he
        · split at he
          · cases he; simp
          · cases he
      · simp
    · simp

/-- the nested calls do not run out of fuel -/
def RecFuel (r : Nat → Nat) (n : Nat) : Prop :=
  ∀ (s : State) (c : Nat), Ranked r s → r c < n → abortFlow n s c true ≠ .error .fuel

theorem childLoop_no_fuel (r : Nat → Nat) (n : Nat) (hF : RecFuel r n) : ∀ (l : List Nat) (s : State), Ranked r s →
    (∀ c ∈ l, s.flows c ≠ none → r c < n) → childLoop (recA n) s l ≠ .error .fuel
  | [], s, _, _ => by simp [childLoop]
  | c :: cs, s, hr, hl => by
    simp only [childLoop]
    split
    · exact childLoop_no_fuel r n hF cs s hr (fun c' hc' => hl c' (List.mem_cons_of_mem _ hc'))
    · next cf hcf =>
      split
      · split
        · next s1 h1 =>
          have st := abortFlow_true_steps n s c s1 h1
          obtain ⟨_, hn, _⟩ := st.flows_rel
          exact childLoop_no_fuel r n hF cs s1 (st.ranked hr)
            (fun c' hc' hne => hl c' (List.mem_cons_of_mem _ hc') (fun e => hne (hn c' e)))
        · next e he =>
          intro h; cases h
          exact hF s c hr (hl c (by simp) (by rw [hcf]; simp)) he
      · exact childLoop_no_fuel r n hF cs s hr (fun c' hc' => hl c' (List.mem_cons_of_mem _ hc'))

theorem deactLoop_no_fuel (r : Nat → Nat) (n : Nat) (hF : RecFuel r n) (fid : Nat) : ∀ (l : List Nat) (s : State), Ranked r s →
    (∀ c ∈ l, s.flows c ≠ none → r c < n) → deactLoop (recA n) fid s l ≠ .error .fuel
  | [], s, _, _ => by simp [deactLoop]
  | c :: cs, s, hr, hl => by
    simp only [deactLoop]
    split
    · simp
    · next cf hcf =>
      split
      · split
        · next s1 h1 =>
          have st := abortFlow_true_steps n s c s1 h1
          have st2 : Steps false s (modFlow s1 c fun f => { f with activated := 0 }) :=
            st.trans (Steps.modFlow s1 c (fun f => { f with activated := 0 }) (fun f => ⟨rfl, rfl, fun h => h, rfl, rfl, Or.inl rfl, fun _ h => h, by simp⟩))
          obtain ⟨_, hn, _⟩ := st2.flows_rel
          exact deactLoop_no_fuel r n hF fid cs _ (st2.ranked hr)
            (fun c' hc' hne => hl c' (List.mem_cons_of_mem _ hc') (fun e => hne (hn c' e)))
        · next e he =>
          intro h; cases h
          exact hF s c hr (hl c (by simp) (by rw [hcf]; simp)) he
      · exact deactLoop_no_fuel r n hF fid cs s hr (fun c' hc' => hl c' (List.mem_cons_of_mem _ hc'))


theorem isRefActivated_no_fuel (s : State) (f : Flow) : isRefActivated s f ≠ .error .fuel := by
  unfold isRefActivated
  split
  · split
    · simp
    · split <;> simp
  · simp

theorem deactivatePhase_no_fuel (r : Nat → Nat) (n : Nat) (hF : RecFuel r n) (s : State) (u : Nat) (d : Bool)
    (hr : Ranked r s) (hu : r u ≤ n) : deactivatePhase (recA n) s u d ≠ .error .fuel := by
  intro h
  unfold deactivatePhase at h
  split at h
  · cases h
  · next f hf =>
    split at h
    · next e he =>
      cases h
      cases d
      · simp at he
      · exact isRefActivated_no_fuel s f (by simpa using he)
    · cases h
    · dsimp only at h
      split at h
      · split at h
        · cases h
        · next e he =>
          cases h
          have st : Steps false s (setFlow s u { f with activated := f.activated - 1 }) :=
            .single (.flow (f' := { f with activated := f.activated - 1 }) hf ⟨rfl, rfl, fun h => h, rfl, rfl, Or.inl rfl, fun _ h => h, by simp⟩)
          obtain ⟨_, hn, _⟩ := st.flows_rel
          refine deactLoop_no_fuel r n hF f.flowId f.children _ (st.ranked hr) ?_ he
          intro c hc hne
          exact Nat.lt_of_lt_of_le (hr u f c hf hc (fun e => hne (hn c e))) hu
      · cases h

theorem abortBody_no_fuel (r : Nat → Nat) (n : Nat) (hF : RecFuel r n) (s : State) (u : Nat) (d : Bool)
    (hr : Ranked r s) (hu : r u ≤ n) : abortBody (recA n) s u d ≠ .error .fuel := by
  intro h
  unfold abortBody at h
  split at h
  · cases h
  · next f hf =>
    split at h
    · cases h
    · split at h
      · next e he =>
        cases h
        have st : Steps false s (markNoRestart s u) := markNoRestart_steps s u
        obtain ⟨_, hn, _⟩ := st.flows_rel
        exact childLoop_no_fuel r n hF f.children _ (st.ranked hr)
          (fun c hc hne => Nat.lt_of_lt_of_le (hr u f c hf hc (fun e => hne (hn c e))) hu) he
      · split at h
        · cases h
        · split at h
          · next e he => cases h; exact stopActions_no_fuel _ _ he
          · dsimp only at h
            split at h
            · next e he => cases h; exact removeFromParent_no_fuel _ _ he
            · exact restart_no_fuel _ _ _ h

/-- `abort_fuel_sufficient`: if the child graph is acyclic (ranked), fuel larger than the rank of the instance —
    e.g. the number of instances — is never exhausted, for any `deactivate_flow` -/
theorem abortFlow_no_fuel (r : Nat → Nat) : ∀ (n : Nat) (s : State) (u : Nat) (d : Bool), Ranked r s → r u < n →
    abortFlow n s u d ≠ .error .fuel
  | 0, _, _, _, _, h => absurd h (Nat.not_lt_zero _)
  | n + 1, s, u, d, hr, hu => by
    have hF : RecFuel r n := fun s c hr hc => abortFlow_no_fuel r n s c true hr hc
    have hu' : r u ≤ n := Nat.lt_succ_iff.1 hu
    intro h
    simp only [abortFlow] at h
    split at h
    · next e he => cases h; exact deactivatePhase_no_fuel r n hF s u d hr hu' he
    · cases h
    · next s1 h1 =>
      have st := deactivatePhase_steps (x := false) _ (abortFlow_rec_steps n) _ _ _ _ _ h1
      exact abortBody_no_fuel r n hF s1 u d (st.ranked hr) hu' h

/-- the same for `_finish_flow` (fuel `n` bounds the nested `_abort_flow` calls) -/
theorem finishFlow_no_fuel (r : Nat → Nat) (n : Nat) (s : State) (u : Nat) (d : Bool) (hr : Ranked r s) (hu : r u ≤ n) :
    finishFlow n s u d ≠ .error .fuel := by
  have hF : RecFuel r n := fun s c hr hc => abortFlow_no_fuel r n s c true hr hc
  intro h
  simp only [finishFlow] at h
  split at h
  · next e he => cases h; exact deactivatePhase_no_fuel r n hF s u d hr hu he
  · cases h
  · next s1 h1 =>
    have st := deactivatePhase_steps (x := false) _ (abortFlow_rec_steps n) _ _ _ _ _ h1
    have hr1 := st.ranked hr
    unfold finishBody at h
    split at h
    · cases h
    · next f hf =>
      split at h
      · cases h
      · split at h
        · next e he =>
          cases h
          exact childLoop_no_fuel r n hF f.children s1 hr1
            (fun c hc hne => Nat.lt_of_lt_of_le (hr1 u f c hf hc hne) hu) he
        · split at h
          · cases h
          · split at h
            · next e he => cases h; exact stopActions_no_fuel _ _ he
            · dsimp only at h
              split at h
              · cases h
              · split at h
                · next e he => cases h; exact removeFromParent_no_fuel _ _ he
                · exact restart_no_fuel _ _ _ h

end NemoVerif.Lifetime
