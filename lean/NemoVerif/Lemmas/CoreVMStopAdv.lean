/-
  C09 / CoreVM — `no_stopping_at_exit`, second part: `_advance_head_front`.
    * the heads handed back by `slide` belong to the sliding flow (`slide_heads`);
    * `_advance_head_front` over heads of a flow that is not listening changes nothing (`advanceHeadFront_noop`);
    * `_abort_flow(f)` leaves `f` not STOPPING (`abortFlow_clears`);
    * one iteration of `_advance_head_front`, and the function itself, restore "nobody is STOPPING".
-/
import NemoVerif.Lemmas.CoreVMStop
import NemoVerif.Lemmas.CoreVMKeepsAdv
import NemoVerif.Lemmas.CoreVM
open NemoVerif NemoVerif.CoreIndex
open Std.Do
set_option mvcgen.warning false
namespace NemoVerif.CoreVM


/-- the trivial invariant (for purely value-level facts) -/
def tInv : StInv where
  J _ := True
  okOp _ := True
  frame := fun _ _ _ _ => trivial
  step := fun _ _ _ _ _ => trivial

/-- the loops of `slide` that collect head keys (under a name of their own, see `forInL`) -/
def forInK (l : List String) (init : List Key) (f : String → List Key → M (ForInStep (List Key))) : M (List Key) := forInL l init f
theorem forInL_eq_forInK (l : List String) (init : List Key) (f : String → List Key → M (ForInStep (List Key))) :
    forInL l init f = forInK l init f := rfl

section s1
attribute [local spec] forInL_keeps mapM_keeps getRest_keeps getIx_keeps pyRaise_keeps unsupported_keeps modifyRest_keeps freshUid_keeps getInst?_keeps getInst_keeps getInstX?_keeps getInstX_keeps modInstX_keeps ctxHolder_keeps getCtx_keeps setCtxVar_keeps getHead?_keeps getHeadX_keeps modHeadX_keeps getCfg_keeps cfgOfInst_keeps getAction?_keeps setAction_keeps pushEvent_keeps pushLeftEvent_keeps valueErr_keeps lookupVar_keeps attrOf_keeps evalExpr_keeps evalIn_keeps evalEmpty_keeps evalArgs_keeps
attribute [local spec] attemptPy_keeps instanceArguments_keeps flowObjOf_keeps flowStartEvent_keeps flowGetEvent_keeps actionGetEvent_keeps tempAction_keeps tempFlowObj_keeps resolveRef_keeps getEventName_keeps getEvent_keeps eventMatchingScore_keeps updateActionStatusByEvent_keeps generateUmimEvent_keeps releaseAction_keeps isReferenceActivated_keeps deactivatesRef_keeps isChildActivated_keeps failedEvent_keeps restartActivated_keeps logActionOrIntents_keeps nameFor_keeps headScores_keeps headKeyScores_keeps labelPos_keeps pickChoice_keeps applyOp_keeps

set_option maxHeartbeats 4000000 in
/-- every head handed back by one step of `slide` (forked heads, the re-activated parent of a merge) belongs to the sliding flow -/
theorem tInv_J (s : VM) : tInv.J s := True.intro
theorem tInv_ok (op : Op) : tInv.okOp op := True.intro

set_option maxHeartbeats 4000000 in
theorem slideStep_heads (fuel : Nat) (f : FUid) (h : HUid) :
    ⦃fun s => ⌜tInv.J s⌝⦄ slideStep fuel f h
    ⦃post⟨fun r s => ⌜tInv.J s ∧ ∀ k ∈ r.2, k.1 = f⌝, fun _ s => ⌜tInv.J s⌝⟩⦄ := by
  have hall : ∀ op, NotStoppingOp op → tInv.okOp op := fun op _ => tInv_ok op
  have hend := hend_of_hall _ hall
  have hab := fun fuel => abortFlow_keeps _ hend fuel
  have hch := fun fuel => childHeadUids_keeps tInv fuel
  have hsp := setHeadPos_keeps _ hall
  have hss := setHeadStatus_keeps _ hall
  have hsf := fun f st => setFlowStatus_keeps tInv f st (tInv_ok _)
  have hloop : ∀ (l : List String) (init : List Key) (body : String → List Key → M (ForInStep (List Key))),
      (∀ a b, ⦃fun s => ⌜tInv.J s ∧ ∀ k ∈ b, k.1 = f⌝⦄ body a b ⦃post⟨fun r s => ⌜tInv.J s ∧ ∀ k ∈ ForInStep.val r, k.1 = f⌝, fun _ s => ⌜tInv.J s⌝⟩⦄) →
      ⦃fun s => ⌜tInv.J s ∧ ∀ k ∈ init, k.1 = f⌝⦄ forInK l init body ⦃post⟨fun b s => ⌜tInv.J s ∧ ∀ k ∈ b, k.1 = f⌝, fun _ s => ⌜tInv.J s⌝⟩⦄ :=
    fun l init body hf => forInL_inv (fun (b : List Key) (s : VM) => tInv.J s ∧ ∀ k ∈ b, k.1 = f) (fun _ s => tInv.J s) l init body hf
  unfold slideStep
  simp only [forIn_eq_forInL, forInL_eq_forInK]
  mvcgen [hab, hch, hsp, hss, hsf, hloop]
  all_goals (first | exact tInv_J _ | (intros; exact tInv_J _) | keeps_side hall | skip)
  all_goals (first | grind [ForInStep.val] | (simp only [ForInStep.val]; grind))
end s1

theorem slideLoop_heads (f : FUid) (h : HUid) : ∀ (fuel : Nat) (acc : List Key) (s s' : VM) (r : List Key),
    (∀ k ∈ acc, k.1 = f) → slideLoop fuel f h acc s = .ok r s' → ∀ k ∈ r, k.1 = f
  | 0, acc, s, s', r, _, heq => by simp [slideLoop, throw, throwThe, MonadExceptOf.throw, EStateM.throw] at heq
  | fuel + 1, acc, s, s', r, hacc, heq => by
    unfold slideLoop at heq
    cases hst : slideStep fuel f h s with
    | error e s1 => rw [bind_eval_err hst] at heq; cases heq
    | ok r1 s1 =>
      rw [bind_eval_ok hst] at heq
      have h1 := ((fn_of_triple (slideStep_heads fuel f h)).1 s r1 s1 (tInv_J s) hst).2
      obtain ⟨stop, nh⟩ := r1
      have hacc' : ∀ k ∈ acc ++ nh, k.1 = f := by
        intro k hk
        rcases List.mem_append.mp hk with hk | hk
        · exact hacc k hk
        · exact h1 k hk
      simp only at heq
      split at heq
      · cases heq; exact hacc'
      · exact slideLoop_heads f h fuel (acc ++ nh) s1 s' r hacc' heq

/-- every head handed back by `slide` belongs to the sliding flow -/
theorem slide_heads (fuel : Nat) (f : FUid) (h : HUid) (s s' : VM) (r : List Key)
    (heq : slide fuel f h s = .ok r s') : ∀ k ∈ r, k.1 = f :=
  slideLoop_heads f h fuel [] s s' r (by simp) heq



theorem forIn_noop {α β} (l : List α) (body : α → β → M (ForInStep β)) (s : VM) (P : α → Prop)
    (hl : ∀ a ∈ l, P a) (hb : ∀ a b, P a → body a b s = .ok (.yield b) s) : ∀ init, forIn l init body s = .ok init s := by
  induction l with
  | nil => intro init; rfl
  | cons a rest ih =>
    intro init
    rw [List.forIn_cons, bind_eval_ok (hb a init (hl a List.mem_cons_self))]
    exact ih (fun x hx => hl x (List.mem_cons_of_mem _ hx)) init

theorem getInst?_eval (f : FUid) (s : VM) : getInst? f s = .ok (findInst s.ixs.ix f) s := rfl
theorem getRest_eval (s : VM) : getRest s = .ok s.r s := rfl
theorem getIx_eval (s : VM) : getIx s = .ok s.ixs.ix s := rfl

/-- `_advance_head_front` over heads of a flow that is not listening (e.g. STOPPING) changes nothing -/
theorem advanceHeadFront_noop (fuel : Nat) (f : FUid) (heads : List Key) (s : VM) (cfg : FlowCfg) (i : Inst)
    (hk : ∀ k ∈ heads, k.1 = f) (hi : findInst s.ixs.ix f = some i) (hl : i.status.listening = false)
    (hc : cfgOfInst f s = .ok cfg s) : ∃ r, advanceHeadFront (fuel + 1) heads s = .ok r s := by
  unfold advanceHeadFront
  rw [bind_eval_ok (forIn_noop heads _ s (fun k => k.1 = f) hk ?hb [])]
  · rw [bind_eval_ok (getIx_eval s)]
    exact ⟨_, rfl⟩
  · intro k acc hkf
    obtain ⟨kf, kh⟩ := k
    simp only at hkf
    subst hkf
    dsimp only
    rw [bind_eval_ok (getInst?_eval kf s), hi]
    dsimp only
    rw [bind_eval_ok hc]
    try dsimp only
    rw [bind_eval_ok (getHead?_eval (kf, kh) s)]
    try dsimp only
    cases hh : (findInst s.ixs.ix kf).bind (·.findHead kh) with
    | none =>
      dsimp only
      rw [bind_eval_ok (getRest_eval s)]
      simp only [hl, Bool.false_and, Bool.false_eq_true, if_false]
      rfl
    | some hd =>
      dsimp only
      rw [bind_eval_ok (show (pure hd : M Head) s = .ok hd s from rfl)]
      simp only [hl, Bool.not_false, Bool.or_true, if_true]
      rfl



theorem stopSub_clear {A l f st} (h : StopSub (f :: A) l) (hst : st ≠ FlowStatus.stopping) :
    StopSub A (stepInsts l (.setFlowStatus f st)) := by
  intro i' hi' hs
  simp only [stepInsts] at hi'
  obtain ⟨i, hi, e⟩ := mem_mapInst hi'
  subst e
  split at hs
  · exact absurd hs hst
  · rename_i hf
    rw [if_neg hf]
    have := h i hi hs
    simp only [List.mem_cons] at this
    rcases this with h1 | h1
    · exact absurd h1 hf
    · exact h1

/-- with unique instance uids: if the instance found under `f` is not STOPPING, `f` can be dropped from the STOPPING set -/
theorem stopSub_drop {A : List FUid} {ix : IState} {f : FUid} {i : Inst} (hu : UidsUnique ix) (h : StopSub (f :: A) ix.insts)
    (hi : findInst ix f = some i) (hs : i.status ≠ .stopping) : StopSub A ix.insts := by
  intro j hj hjs
  have := h j hj hjs
  simp only [List.mem_cons] at this
  rcases this with h1 | h1
  · have hmem := findInst_mem hi
    have hiu := findInst_uid hi
    have : j = i := eq_of_mem_of_nodup_map (fun x : Inst => x.uid) ix.insts hu.1 j hj i hmem (by simp [h1, hiu])
    subst this
    exact absurd hjs hs
  · exact h1

section clears
attribute [local spec] forInL_keeps mapM_keeps getRest_keeps getIx_keeps modifyRest_keeps freshUid_keeps getInst?_keeps getInstX?_keeps getInstX_keeps modInstX_keeps ctxHolder_keeps getCtx_keeps setCtxVar_keeps getHead?_keeps getHeadX_keeps modHeadX_keeps getCfg_keeps cfgOfInst_keeps getAction?_keeps setAction_keeps pushEvent_keeps pushLeftEvent_keeps valueErr_keeps lookupVar_keeps attrOf_keeps evalExpr_keeps evalIn_keeps evalEmpty_keeps evalArgs_keeps
attribute [local spec] attemptPy_keeps instanceArguments_keeps flowObjOf_keeps flowStartEvent_keeps flowGetEvent_keeps actionGetEvent_keeps tempAction_keeps tempFlowObj_keeps resolveRef_keeps getEventName_keeps getEvent_keeps eventMatchingScore_keeps updateActionStatusByEvent_keeps generateUmimEvent_keeps releaseAction_keeps isReferenceActivated_keeps deactivatesRef_keeps isChildActivated_keeps failedEvent_keeps restartActivated_keeps logActionOrIntents_keeps nameFor_keeps headScores_keeps headKeyScores_keeps labelPos_keeps pickChoice_keeps

theorem getInst_precise (I : StInv) (f : FUid) :
    ⦃fun s => ⌜I.J s⌝⦄ getInst f ⦃post⟨fun i s => ⌜I.J s ∧ findInst s.ixs.ix f = some i⌝, fun _ s => ⌜I.J s⌝⟩⦄ := by
  unfold getInst getInst? getIx
  mvcgen [pyRaise]

theorem setFlowStatus_clear (A : List FUid) (f : FUid) (st : FlowStatus) (hst : st ≠ .stopping) :
    ⦃fun s => ⌜(stopInv (f :: A)).J s⌝⦄ setFlowStatus f st
    ⦃post⟨fun _ s => ⌜(stopInv A).J s⌝, fun _ s => ⌜StopSub (f :: A) s.ixs.ix.insts⌝⟩⦄ := by
  have hspec := applyOp_wp (.setFlowStatus f st) (fun s => (stopInv (f :: A)).J s) (fun s => (stopInv A).J s)
    (fun s => StopSub (f :: A) s.ixs.ix.insts)
    (by intro s hg h1; show StopSub A (step s.ixs.ix _).insts; rw [insts_step]; exact stopSub_clear h1 hst)
    (by intro s h1; exact h1)
  unfold setFlowStatus
  mvcgen [hspec, pyRaise, unsupported]
  all_goals (first | rest_frame | (intro hh; exact stopSub_mono hh (fun _ ha => List.mem_cons_of_mem _ ha)) | skip)

/-- `_abort_flow(f)` (not a deactivation): afterwards `f` is not STOPPING any more -/
theorem abortFlow_clears (A : List FUid) (f : FUid) (fuel : Nat) (sc : List Score) :
    ⦃fun s => ⌜(stopInv (f :: A)).J s⌝⦄ abortFlow fuel f sc false
    ⦃post⟨fun _ s => ⌜(stopInv A).J s⌝, fun _ s => ⌜StopSub (f :: A) s.ixs.ix.insts⌝⟩⦄ := by
  cases fuel with
  | zero => unfold abortFlow; mvcgen
  | succ fuel =>
    have hallF : ∀ op, NotStoppingOp op → (stopInv (f :: A)).okOp op := stopInv_hall _
    have hendF := hend_of_hall _ hallF
    have hab := abortFlow_keeps _ hendF fuel
    have hdrop := dropHeads_keeps _ hendF
    have hgi := getInst_precise (stopInv (f :: A)) f
    have hclr := setFlowStatus_clear A f .stopped (by decide)
    unfold abortFlow
    simp only [forIn_eq_forInL, deactivatesRef_false, pure_bind, Bool.false_eq_true, if_false]
    mvcgen [hab, hdrop, hgi, hclr, pyRaise, unsupported]
    all_goals (first
      | (intro hh; exact hh)
      | (intro hh; exact stopSub_mono hh (fun _ ha => List.mem_cons_of_mem _ ha))
      | (intros; trivial)
      | (rename_i s0 hh; exact hh.1)
      | (rename_i r0 hns s0 hh
         refine stopSub_drop (indexOK_of_vm s0).uids hh.1 hh.2 ?_
         intro hst; rw [hst] at hns; simp at hns)
      | skip)
end clears


end NemoVerif.CoreVM
