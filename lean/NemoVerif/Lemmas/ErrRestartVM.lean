/-
  C10 on CoreVM: the RESTART GUARD.  `_abort_flow(deactivate_flow=False)` on an instance whose `new_instance_started` flag is set
  (as the `except` branch of `_advance_head_front` does for an activated flow that was still STARTING) queues no `StartFlow` —
  for any children, actions and outcome.  Relation `RG` (flag kept, number of queued StartFlow events not increased), which every
  primitive but the restart itself preserves; `_abort_flow(deactivate_flow=True)` (how children are aborted) preserves it
  unconditionally; conditional calculus `HR` for the flagged root.
-/
import NemoVerif.Lemmas.ErrLeafVM
set_option linter.unusedSimpArgs false
set_option linter.unusedVariables false
namespace NemoVerif.CoreVM
open NemoVerif NemoVerif.CoreIndex

/-! ### restart guard on CoreVM: a flagged instance is not restarted by `_abort_flow` -/

/-- number of queued `StartFlow` events -/
def startCount (s : VM) : Nat := (s.r.queue.filter fun e => e.ev.name = "StartFlow").length

/-- `new_instance_started` of instance `f` is set -/
def Flagged (f : FUid) (s : VM) : Prop := ∃ x, OMap.lookup f s.r.fx = some x ∧ x.newInstanceStarted = true

/-- the flag of `f` stays set and no `StartFlow` event is added -/
def RG (f : FUid) (s s' : VM) : Prop := (Flagged f s → Flagged f s') ∧ startCount s' ≤ startCount s
theorem rgPO (f : FUid) : PreOrd (RG f) :=
  ⟨fun _ => ⟨fun h => h, Nat.le_refl _⟩, fun h1 h2 => ⟨fun h => h2.1 (h1.1 h), Nat.le_trans h2.2 h1.2⟩⟩

theorem RG.uid (f : FUid) (s : VM) (n : Nat) : RG f s { s with r := { s.r with nextUid := n } } := ⟨fun h => h, Nat.le_refl _⟩
theorem RG.of_same {f : FUid} {α : Type} {x : M α} (h : Pres Same x) : Pres (RG f) x := Pres.of_same (RG.uid f) h

/-- a write to `Rest` that touches neither the queue nor `fx` -/
theorem RG.modifyRest_other (f : FUid) (g : Rest → Rest) (hq : ∀ r, (g r).queue = r.queue) (hfx : ∀ r, (g r).fx = r.fx) :
    Pres (RG f) (CoreVM.modifyRest g) := by
  refine ⟨fun s => ?_⟩
  simp only [outState, CoreVM.modifyRest, modify, modifyGet, MonadStateOf.modifyGet, EStateM.modifyGet]
  unfold RG Flagged startCount
  simp only [hq, hfx]
  exact ⟨fun h => h, Nat.le_refl _⟩

theorem RG.applyOp (f : FUid) (op : Op) : Pres (RG f) (applyOp op) := by
  refine ⟨fun s => ?_⟩
  unfold CoreVM.applyOp
  split
  · exact ⟨fun h => h, Nat.le_refl _⟩
  · exact (rgPO f).refl s

/-- a record update that never resets the flag -/
theorem RG.modInstX (f g : FUid) (u : InstX → InstX) (hu : ∀ x, x.newInstanceStarted = true → (u x).newInstanceStarted = true) :
    Pres (RG f) (modInstX g u) := by
  refine ⟨fun s => ?_⟩
  simp only [outState, CoreVM.modInstX, CoreVM.modifyRest, modify, modifyGet, MonadStateOf.modifyGet, EStateM.modifyGet]
  refine ⟨fun h => ?_, Nat.le_refl _⟩
  obtain ⟨x, hx, hf⟩ := h
  unfold Flagged
  simp only [OMap.lookup_modify]
  by_cases e : f = g
  · subst e; exact ⟨u x, by simp [hx], hu x hf⟩
  · exact ⟨x, by simp [e, hx], hf⟩

/-- pushing (right or left) an event that is not a `StartFlow` -/
theorem RG.pushEvent (f : FUid) (e : Event) (he : e.ev.name ≠ "StartFlow") : Pres (RG f) (pushEvent e) := by
  refine ⟨fun s => ?_⟩
  simp only [outState, CoreVM.pushEvent, CoreVM.modifyRest, modify, modifyGet, MonadStateOf.modifyGet, EStateM.modifyGet]
  refine ⟨fun h => h, ?_⟩
  unfold startCount
  simp [List.filter_append, he]


syntax "rg_leaf" : tactic
macro_rules | `(tactic| rg_leaf) => `(tactic| first
  | (apply RG.of_same; same_leaf)
  | exact RG.applyOp _ _
  | (refine RG.modInstX _ _ _ ?_; intro x h; first | exact h | rfl)
  | (refine RG.modifyRest_other _ _ ?_ ?_ <;> (intro r; rfl)))

theorem RG.setAction (f : FUid) (a : Action) : Pres (RG f) (setAction a) :=
  RG.modifyRest_other f _ (fun _ => rfl) (fun _ => rfl)
theorem RG.freshUid (f : FUid) : Pres (RG f) freshUid := RG.of_same Same.freshUid
theorem RG.updateActionStatusByEvent (f : FUid) (e : Match.Ev) : Pres (RG f) (updateActionStatusByEvent e) := by
  unfold CoreVM.updateActionStatusByEvent
  pres_search (RG f) (rgPO f) (first | rg_leaf | exact RG.setAction _ _)
theorem RG.generateUmimEvent (f : FUid) (e : Match.Ev) : Pres (RG f) (generateUmimEvent e) := by
  unfold CoreVM.generateUmimEvent
  pres_search (RG f) (rgPO f) (first | rg_leaf | exact RG.updateActionStatusByEvent _ _ | exact RG.freshUid _)
theorem RG.releaseAction (f : FUid) (au : String) : Pres (RG f) (releaseAction au) := by
  unfold CoreVM.releaseAction
  pres_search (RG f) (rgPO f) (first | rg_leaf | exact RG.setAction _ _ | exact RG.generateUmimEvent _ _)
theorem RG.dropHeads (f g : FUid) : Pres (RG f) (dropHeads g) := by
  unfold CoreVM.dropHeads; pres_search (RG f) (rgPO f) (rg_leaf)
theorem RG.setFlowStatus (f g : FUid) (st : FlowStatus) : Pres (RG f) (setFlowStatus g st) := by
  unfold CoreVM.setFlowStatus; pres_search (RG f) (rgPO f) (rg_leaf)

/-- with `deactivate_flow=True` the restart branch is dead -/
theorem RG.restartActivated_true (f g : FUid) (sc : List Score) : Pres (RG f) (restartActivated g sc true) := by
  unfold CoreVM.restartActivated
  simp only [Bool.not_true, Bool.false_and, Bool.false_eq_true, if_false]
  pres_search (RG f) (rgPO f) (rg_leaf)

theorem failedEvent_name (g : FUid) (sc : List Score) (s s' : VM) (e : Event) (h : failedEvent g sc s = .ok e s') :
    e.ev.name = "FlowFailed" := by
  unfold CoreVM.failedEvent at h
  obtain ⟨o, s1, _, h⟩ := bind_ok h
  simp only [pure, EStateM.pure] at h
  cases h; rfl

/-- `_abort_flow(deactivate_flow=True)` — the form in which child flows are aborted — never queues a `StartFlow` and never resets
    a `new_instance_started` flag, for any instance, any outcome -/
theorem RG.abortFlow_true (f : FUid) : ∀ (fuel : Nat) (g : FUid) (sc : List Score), Pres (RG f) (abortFlow fuel g sc true)
  | 0, g, sc => by unfold CoreVM.abortFlow; exact Pres.throw (rgPO f) _
  | fuel + 1, g, sc => by
    unfold CoreVM.abortFlow
    have ih := RG.abortFlow_true f fuel
    pres_search (RG f) (rgPO f) (first | rg_leaf | exact ih _ _ | exact RG.releaseAction _ _ | exact RG.dropHeads _ _ | exact RG.setFlowStatus _ _ _ | exact RG.restartActivated_true _ _ _ | (refine Pres.bind_ret (rgPO f) (fun e => e.ev.name = "FlowFailed") (RG.of_same (Same.failedEvent _ _)) (fun s a s' h => failedEvent_name _ _ s s' a h) ?_; intro e he) | (refine RG.pushEvent _ _ ?_; rw [he]; decide))


/-- under the flag of `f`, `RG f` holds along `x` (closed under sequencing because `RG` carries the flag) -/
structure HR (f : FUid) {α : Type} (x : M α) : Prop where
  app : ∀ s, Flagged f s → RG f s (outState (x s))

theorem HR.of_pres {f : FUid} {α : Type} {x : M α} (h : Pres (RG f) x) : HR f x := ⟨fun s _ => h.app s⟩
theorem HR.pure {f : FUid} {α : Type} (a : α) : HR f (Pure.pure a : M α) := ⟨fun s _ => (rgPO f).refl s⟩
theorem HR.bind {f : FUid} {α β : Type} {x : M α} {k : α → M β} (hx : HR f x) (hk : ∀ a, HR f (k a)) : HR f (x >>= k) := by
  refine ⟨fun s hf => ?_⟩
  have h1 := hx.app s hf
  cases hxs : x s with
  | ok a s1 =>
    rw [bind_ok_eq hxs]
    rw [hxs] at h1
    exact (rgPO f).trans h1 ((hk a).app s1 (h1.1 hf))
  | error e s1 =>
    rw [bind_err_eq hxs]
    rw [hxs] at h1
    exact h1
theorem HR.bind_ret {f : FUid} {α β : Type} {x : M α} {k : α → M β} (P : α → Prop) (hx : HR f x)
    (hP : ∀ s a s', x s = .ok a s' → P a) (hk : ∀ a, P a → HR f (k a)) : HR f (x >>= k) := by
  refine ⟨fun s hf => ?_⟩
  have h1 := hx.app s hf
  cases hxs : x s with
  | ok a s1 =>
    rw [bind_ok_eq hxs]
    rw [hxs] at h1
    exact (rgPO f).trans h1 ((hk a (hP s a s1 hxs)).app s1 (h1.1 hf))
  | error e s1 =>
    rw [bind_err_eq hxs]
    rw [hxs] at h1
    exact h1
theorem HR.ite {f : FUid} {α : Type} {c : Prop} [Decidable c] {x y : M α} (hx : HR f x) (hy : HR f y) :
    HR f (if c then x else y) := by
  split <;> assumption
theorem HR.forIn {f : FUid} {α β : Type} (xs : List α) (init : β) (body : α → β → M (ForInStep β))
    (hb : ∀ a b, HR f (body a b)) : HR f (ForIn.forIn xs init body) := by
  induction xs generalizing init with
  | nil => simp only [List.forIn_nil]; exact HR.pure _
  | cons a as ih =>
    simp only [List.forIn_cons]
    apply HR.bind (hb a init)
    intro r
    cases r with
    | done b => exact HR.pure _
    | yield b => exact ih b

structure HJ1 (f : FUid) {A α : Type} (x : A → M α) : Prop where
  app : ∀ a, HR f (x a)

syntax "hr_search " term:max tactic:max : tactic
syntax "hr_let " term:max tactic:max : tactic
macro_rules
  | `(tactic| hr_let $f $leaf) => `(tactic| (
      extract_lets +onlyGivenNames x
      first
        | (have hx : HJ1 $f x := ⟨by (intro a; dsimp only [x]; clear x; hr_search $f $leaf)⟩
           clear_value x)
        | clear_value x))
macro_rules
  | `(tactic| hr_search $f $leaf) => `(tactic| repeat' (first
      | with_reducible ($leaf:tactic)
      | with_reducible exact HR.pure _
      | with_reducible exact HR.of_pres (Pres.throw (rgPO $f) _)
      | with_reducible exact HR.of_pres (Pres.pyRaise (rgPO $f) _ _)
      | with_reducible exact HR.of_pres (Pres.unsupported (rgPO $f) _)
      | with_reducible apply HR.bind
      | with_reducible apply HR.forIn
      | intro _
      | hr_let $f $leaf
      | with_reducible (refine HJ1.app ?_ _; assumption)
      | with_reducible apply HR.ite
      | split
      | dsimp only))

/-- the restart at the end of `_abort_flow(deactivate_flow=False)` does nothing for a flagged instance -/
theorem HR.restartActivated_flagged (f : FUid) (sc : List Score) : HR f (restartActivated f sc false) := by
  refine ⟨fun s hf => ?_⟩
  obtain ⟨x, hx, hflag⟩ := hf
  unfold CoreVM.restartActivated
  rw [bind_ok_eq (eval_getInstX hx)]
  simp only [hflag, Bool.not_true, Bool.and_false, Bool.false_eq_true, if_false]
  exact (rgPO f).refl s

/-- **restart guard on CoreVM**: `_abort_flow(deactivate_flow=False)` on a flagged instance (any children, any actions, any
    outcome) adds no `StartFlow` event to the queue -/
theorem HR.abortFlow_flagged (f : FUid) (fuel : Nat) (sc : List Score) : HR f (abortFlow (fuel + 1) f sc false) := by
  unfold CoreVM.abortFlow
  hr_search f (first | exact HR.restartActivated_flagged _ _ | (apply HR.of_pres; first | rg_leaf | exact RG.abortFlow_true _ _ _ _ | exact RG.releaseAction _ _ | exact RG.dropHeads _ _ | exact RG.setFlowStatus _ _ _) | (refine HR.bind_ret (fun e => e.ev.name = "FlowFailed") (HR.of_pres (RG.of_same (Same.failedEvent _ _))) (fun s a s' h => failedEvent_name _ _ s s' a h) ?_; intro e he) | (refine HR.of_pres (RG.pushEvent _ _ ?_); rw [he]; decide))


theorem RG.pushColangError (f : FUid) (c m : String) : Pres (RG f) (CoreVM.pushEvent (colangErrorEvent c m)) :=
  RG.pushEvent f _ (by show "ColangError" ≠ "StartFlow"; decide)

theorem RG.errPrefix (f : FUid) (k : Key) (c m : String) (b : Bool) : Pres (RG f) (errPrefix k c m b) := by
  unfold CoreVM.errPrefix
  pres_search (RG f) (rgPO f) (first | rg_leaf | exact RG.pushColangError _ _ _ | exact RG.of_same (Same.headScores _))

/-- after the prefix of the `except` branch for a flow that was STARTING and is activated, the instance is flagged -/
theorem errPrefix_flags (k : Key) (c m : String) (s2 s3 : VM) (sc : List Score) (x : InstX)
    (hx : OMap.lookup k.1 s2.r.fx = some x) (hact : x.activated > 0)
    (h : errPrefix k c m true s2 = .ok sc s3) : Flagged k.1 s3 := by
  unfold CoreVM.errPrefix at h
  obtain ⟨_, sa, h1, h⟩ := bind_ok h
  obtain ⟨_, sb, h2, h⟩ := bind_ok h
  have hfx : sb.r.fx = s2.r.fx := by
    have e1 : sa.r.fx = s2.r.fx := by
      simp only [CoreVM.pushEvent, CoreVM.modifyRest, modify, modifyGet, MonadStateOf.modifyGet, EStateM.modifyGet] at h1
      cases h1; rfl
    have e2 : sb.r.fx = sa.r.fx := by
      simp only [CoreVM.modifyRest, modify, modifyGet, MonadStateOf.modifyGet, EStateM.modifyGet] at h2
      cases h2; rfl
    rw [e2, e1]
  have hxb : OMap.lookup k.1 sb.r.fx = some x := by rw [hfx]; exact hx
  rw [bind_ok_eq (eval_getInstX hxb)] at h
  have hc : (true && decide (x.activated > 0)) = true := by simp [hact]
  simp only [hc, if_true] at h
  obtain ⟨_, sc', h3, h⟩ := bind_ok h
  have hflag : Flagged k.1 sc' := by
    simp only [CoreVM.modInstX, CoreVM.modifyRest, modify, modifyGet, MonadStateOf.modifyGet, EStateM.modifyGet] at h3
    cases h3
    exact ⟨{ x with newInstanceStarted := true }, by simp [OMap.lookup_modify, hxb], rfl⟩
  exact (ok_of_pres (RG.of_same (f := k.1) (Same.headScores k)) h).1 hflag

/-- **restart guard on CoreVM** (`vm_restart_guard` in Theorems/C10.lean): the `except` branch for a flow that was still STARTING
    and is activated adds no `StartFlow` event to the queue — whatever its children, actions and outcome -/
theorem errHandler_restart_guard (fuel : Nat) (k : Key) (c m : String) (s2 : VM) (x : InstX)
    (hx : OMap.lookup k.1 s2.r.fx = some x) (hact : x.activated > 0) :
    startCount (outState (errHandler (fuel + 1) k c m true s2)) ≤ startCount s2 := by
  rw [errHandler_eq]
  cases hp : errPrefix k c m true s2 with
  | error e s3 =>
    rw [bind_err_eq hp]
    exact (err_of_pres (RG.errPrefix k.1 k c m true) hp).2
  | ok sc s3 =>
    rw [bind_ok_eq hp]
    have h3 : startCount s3 ≤ startCount s2 := (ok_of_pres (RG.errPrefix k.1 k c m true) hp).2
    have hf : Flagged k.1 s3 := errPrefix_flags k c m s2 s3 sc x hx hact hp
    have hr : HR k.1 (do
        abortFlow (fuel + 1) k.1 sc false
        let _ ← getIx
        return ([] : List Key)) :=
      HR.bind (HR.abortFlow_flagged k.1 fuel sc) (fun _ => HR.bind (HR.of_pres (Pres.getIx (rgPO k.1))) (fun _ => HR.pure _))
    exact Nat.le_trans (hr.app s3 hf).2 h3

end NemoVerif.CoreVM
