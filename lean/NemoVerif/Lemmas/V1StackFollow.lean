/-
  Lemmas for C14 phase 4, goal 1 (whole histories with BLOCKING subflow calls): the bookkeeping of
  `computeNextState` along a stack of frames, on top of `V1Stack.resume_chain`.
-/
import NemoVerif.Lemmas.V1Stack
import NemoVerif.Lemmas.V1Multi
import NemoVerif.Lemmas.V1FollowDo
namespace NemoVerif.V1StackFollow
open NemoVerif.V1Interp NemoVerif.V1Struct NemoVerif.V1Follow NemoVerif.V1Sub NemoVerif.V1Stack NemoVerif.V1Multi NemoVerif.V1FollowDo

/-! ### the shape does not depend on the order of the flow states -/

theorem shape_perm {cfgs : Cfgs} {ns ns' : State} {stk : List SFrame} (hS : Shape cfgs ns stk)
    (hp : ns'.flows.Perm ns.flows) (hc : ns.ctr ≤ ns'.ctr) : Shape cfgs ns' stk := by
  have toIdx : ∀ x : FS, x ∈ ns.flows → ∃ j : Nat, ns'.flows[j]? = some x := fun x hx => List.getElem?_of_mem (hp.mem_iff.2 hx)
  have fromIdx : ∀ (j : Nat) (x : FS), ns'.flows[j]? = some x → ∃ j' : Nat, ns.flows[j']? = some x :=
    fun j x hj => List.getElem?_of_mem (hp.mem_iff.1 (List.mem_of_getElem? hj))
  refine ⟨?_, ?_, ?_, ?_, hS.snodup, hS.known, ?_⟩
  · intro fr hfr
    obtain ⟨j, hj⟩ := hS.mem fr hfr
    exact toIdx _ (List.mem_of_getElem? hj)
  · intro j x hj
    obtain ⟨j', hj'⟩ := fromIdx j x hj
    exact hS.others j' x hj'
  · exact ((hp.map (·.uid)).nodup_iff).2 hS.nodup
  · intro j x hj
    obtain ⟨j', hj'⟩ := fromIdx j x hj
    have := hS.bound j' x hj'
    omega
  · intro j x hj
    obtain ⟨j', hj'⟩ := fromIdx j x hj
    exact hS.findable j' x hj'

/-- the live flow states (what the advance loop carries over) -/
def live (l : List FS) : List FS := l.filter (fun x => x.status != .completed)

theorem shape_live {cfgs : Cfgs} {ns : State} {stk : List SFrame} (hS : Shape cfgs ns stk) (c u : Ctx) (nx : Option NextStep) :
    Shape cfgs { ns with ctx := c, upd := u, next := nx, flows := live ns.flows } stk := by
  have sub : ∀ (j : Nat) (x : FS), (live ns.flows)[j]? = some x → ∃ j' : Nat, ns.flows[j']? = some x := by
    intro j x hj
    have := List.mem_of_getElem? hj
    simp only [live, List.mem_filter] at this
    exact List.getElem?_of_mem this.1
  refine ⟨?_, ?_, ?_, ?_, hS.snodup, hS.known, ?_⟩
  · intro fr hfr
    obtain ⟨j, hj⟩ := hS.mem fr hfr
    apply List.getElem?_of_mem
    simp only [live, List.mem_filter]
    refine ⟨List.mem_of_getElem? hj, ?_⟩
    have := (toFS_live fr).1
    simpa using this
  · intro j x hj
    obtain ⟨j', hj'⟩ := sub j x hj
    exact hS.others j' x hj'
  · exact List.Nodup.sublist ((List.filter_sublist).map _) hS.nodup
  · intro j x hj
    obtain ⟨j', hj'⟩ := sub j x hj
    exact hS.bound j' x hj'
  · intro j x hj
    obtain ⟨j', hj'⟩ := sub j x hj
    exact hS.findable j' x hj'

/-! ### the advance loop on dead and interrupted flow states -/

theorem advanceAll_live (r : Bool) (cfgs : Cfgs) (ev : Event) : ∀ (l : List FS) (ns : State) (ext : Bool),
    (∀ x ∈ l, ∃ c, cfgs.find x.flowId = some c) →
    advanceAll r cfgs ev l ns ext = advanceAll r cfgs ev (live l) ns ext := by
  intro l
  induction l with
  | nil => intro ns ext _; rfl
  | cons a rest ih =>
    intro ns ext hf
    obtain ⟨c, hc⟩ := hf a (List.mem_cons_self ..)
    have ih' := fun ns ext => ih ns ext (fun x hx => hf x (List.mem_cons_of_mem _ hx))
    by_cases hd : a.status = .completed
    · have : live (a :: rest) = live rest := by simp [live, List.filter, hd]
      rw [this]
      simp only [advanceAll, advanceOne_dead r cfgs ev ns ext a c hc (.inr hd)]
      exact ih' ns ext
    · have hne : (a.status != Status.completed) = true := by simpa using hd
      have : live (a :: rest) = a :: live rest := by simp [live, List.filter, hne]
      rw [this]
      simp only [advanceAll]
      cases advanceOne r cfgs ev ns ext a with
      | error e => rfl
      | ok x => obtain ⟨ns', ext'⟩ := x; exact ih' ns' ext'

theorem advanceAll_interrupted (r : Bool) (cfgs : Cfgs) (ev : Event) : ∀ (l : List FS) (ns : State) (ext : Bool),
    (∀ x ∈ l, x.status = .interrupted ∧ ∃ c, cfgs.find x.flowId = some c) →
    advanceAll r cfgs ev l ns ext = .ok ({ ns with flows := ns.flows ++ l }, ext) := by
  intro l
  induction l with
  | nil => intro ns ext _; simp [advanceAll]
  | cons a rest ih =>
    intro ns ext h
    obtain ⟨hs, c, hc⟩ := h a (List.mem_cons_self ..)
    simp only [advanceAll, advanceOne_interrupted r cfgs ev ns ext a c hc hs]
    rw [ih _ ext (fun x hx => h x (List.mem_cons_of_mem _ hx))]
    simp


/-! ### the setting -/

structure SetupK (cfgs : Cfgs) (id : String) (p : Prog) (lib : Lib) : Prop where
  shape : ∃ subs, cfgs = mkCfg id p :: subs ∧ ∀ c ∈ subs, c.isSubflow = true ∧ c.triggers = [] ∧ c.isExtension = false
  libok : LibOK cfgs lib

theorem SetupK.toSetup {cfgs id p lib} (h : SetupK cfgs id p lib) : Setup cfgs id p lib := by
  obtain ⟨subs, hc, hs⟩ := h.shape
  exact ⟨⟨subs, hc, fun c hc' => (hs c hc').1⟩, h.libok⟩

theorem find_props {cfgs id p lib} (h : SetupK cfgs id p lib) {n : String} {c : FlowCfg} (hf : cfgs.find n = some c) :
    c.triggers = [] ∧ c.isExtension = false := by
  obtain ⟨subs, hc, hs⟩ := h.shape
  have hm : c ∈ cfgs := List.mem_of_find?_eq_some hf
  rw [hc] at hm
  rcases List.mem_cons.1 hm with rfl | hm
  · exact ⟨rfl, rfl⟩
  · exact ⟨(hs c hm).2.1, (hs c hm).2.2⟩

theorem markInterrupted_noop (ns : State) (h : ∀ x ∈ ns.flows, x.status = .interrupted → x.interruptedBy ≠ none) :
    markInterrupted ns = ns := by
  obtain ⟨ctx, flows, next, upd, ctr⟩ := ns
  simp only [markInterrupted]
  congr 1
  simp only at h
  have : ∀ l : List FS, (∀ x ∈ l, x.status = .interrupted → x.interruptedBy ≠ none) →
      l.map (fun fs => if (fs.status == Status.interrupted && fs.interruptedBy.isNone) = true then { fs with interruptedBy := next.map (·.uid) } else fs) = l := by
    intro l
    induction l with
    | nil => intro _; rfl
    | cons a r ih =>
      intro hl
      have ha := hl a (List.mem_cons_self ..)
      have hr := ih (fun x hx => hl x (List.mem_cons_of_mem _ hx))
      simp only [List.map_cons, hr]
      by_cases hs : a.status = .interrupted
      · have := ha hs
        cases hi : a.interruptedBy with
        | none => exact absurd hi this
        | some u => simp [hi]
      · have : (a.status == Status.interrupted) = false := by simpa using hs
        simp [this]
  exact this flows h

theorem extensionInterrupt_noop (cfgs : Cfgs) (ns : State) (h : ∀ x ∈ ns.flows, x.status ≠ .aborted) :
    extensionInterrupt cfgs ns = ns := by
  have hmap : ∀ (n : NextStep) (l : List FS), (∀ x ∈ l, x.status ≠ .aborted) →
      l.map (fun fs => if (fs.status == Status.aborted && ((cfgs.find fs.flowId).map (·.isInterruptible)).getD true) = true
        then { fs with status := .interrupted, interruptedBy := some n.uid } else fs) = l := by
    intro n l
    induction l with
    | nil => intro _; rfl
    | cons a r ih =>
      intro hl
      have ha : (a.status == Status.aborted) = false := by simpa using hl a (List.mem_cons_self ..)
      simp only [List.map_cons, ih (fun x hx => hl x (List.mem_cons_of_mem _ hx)), ha, Bool.false_and, Bool.false_eq_true, if_false]
  obtain ⟨ctx, flows, next, upd, ctr⟩ := ns
  simp only [extensionInterrupt]
  cases next with
  | none => rfl
  | some n =>
    simp only []
    split
    · rfl
    · split
      · rfl
      · split
        · simp only at h
          rw [hmap n flows h]
        · rfl

theorem unwind_last (lib : Lib) (f : Nat) : ∀ (stk : List SFrame) (st : SSt) (ctr : Nat) (st' : SSt) (c' : Nat) (stk' : List SFrame) (who : Option (Nat × String × Step)),
    unwindS lib f st ctr stk = .done st' c' stk' who → ∀ m', stk'.getLast? = some m' → ∃ m, stk.getLast? = some m ∧ m'.name = m.name := by
  intro stk
  induction stk with
  | nil =>
    intro st ctr st' c' stk' who h m' hm'
    simp only [unwindS, OutU.done.injEq] at h
    obtain ⟨_, _, rfl, _⟩ := h
    simp at hm'
  | cons fr rest ih =>
    intro st ctr st' c' stk' who h m' hm'
    simp only [unwindS] at h
    cases hr : runS lib f SUB_FUEL fr.uid fr.name st ctr fr.body (some fr.addr) with
    | err => rw [hr] at h; cases h
    | oof => rw [hr] at h; cases h
    | bad => rw [hr] at h; cases h
    | fell s2 c2 =>
      rw [hr] at h
      simp only [] at h
      obtain ⟨m, hm, hn⟩ := ih s2 c2 st' c' stk' who h m' hm'
      refine ⟨m, ?_, hn⟩
      cases rest with
      | nil => simp at hm
      | cons a r => simpa using hm
    | wait s2 c2 a callee frames w =>
      rw [hr] at h
      simp only [OutU.done.injEq] at h
      obtain ⟨_, _, rfl, _⟩ := h
      cases rest with
      | nil =>
        refine ⟨fr, by simp, ?_⟩
        rw [List.getLast?_append] at hm'
        simp at hm'
        rw [← hm']
      | cons b r =>
        refine ⟨(b :: r).getLast (by simp), by simp [List.getLast?_eq_some_getLast], ?_⟩
        have : (frames ++ { fr with addr := a, callee := callee } :: b :: r).getLast? = some ((b :: r).getLast (by simp)) := by
          rw [List.getLast?_append]
          simp [List.getLast?_eq_some_getLast]
        rw [this] at hm'
        rw [← Option.some.inj hm']


/-! ### helper facts for one event -/

theorem set_mid (x T : FS) : ∀ (l1 r : List FS), (l1 ++ T :: r).set l1.length x = l1 ++ x :: r := by
  intro l1
  induction l1 with
  | nil => intro r; rfl
  | cons a l ih => intro r; simp only [List.cons_append, List.length_cons, List.set_cons_succ, ih]

theorem get_mid (T : FS) (l1 r : List FS) : (l1 ++ T :: r)[l1.length]? = some T := by
  simp

theorem rest_interrupted {top : SFrame} {rest : List SFrame} (hc : ChainFrom none (top :: rest)) :
    ∀ fr ∈ rest, ∃ u, fr.callee = some u := by
  intro fr hfr
  rcases chain_callee rest (some top.uid) hc.2 fr hfr with h | ⟨fr', _, h⟩
  · exact ⟨_, h⟩
  · exact ⟨_, h⟩

theorem live_split {cfgs : Cfgs} {st : State} {top : SFrame} {rest : List SFrame} (hS : Shape cfgs st (top :: rest))
    (hc : ChainFrom none (top :: rest)) :
    ∃ l1 l2, live st.flows = l1 ++ top.toFS :: l2 ∧
      (∀ x ∈ l1 ++ l2, x.status = .interrupted ∧ ∃ c, cfgs.find x.flowId = some c) := by
  have hSl := shape_live hS st.ctx st.upd st.next
  obtain ⟨j, hj⟩ := hSl.mem top (List.mem_cons_self ..)
  obtain ⟨l1, l2, hl⟩ := List.append_of_mem (List.mem_of_getElem? hj)
  simp only at hl
  refine ⟨l1, l2, hl, ?_⟩
  have hnd := hSl.nodup
  simp only [hl, List.map_append, List.map_cons] at hnd
  have hnot : ∀ x ∈ l1 ++ l2, x.uid ≠ top.toFS.uid := by
    intro x hx hxu
    rw [List.nodup_append] at hnd
    obtain ⟨h1, h2, h3⟩ := hnd
    rw [List.nodup_cons] at h2
    rcases List.mem_append.1 hx with hx | hx
    · exact h3 _ (List.mem_map.2 ⟨x, hx, rfl⟩) _ (List.mem_cons_self ..) hxu
    · exact h2.1 (List.mem_map.2 ⟨x, hx, hxu⟩)
  intro x hx
  have hxl : x ∈ live st.flows := by
    rw [hl]
    rcases List.mem_append.1 hx with h | h
    · exact List.mem_append_left _ h
    · exact List.mem_append_right _ (List.mem_cons_of_mem _ h)
  obtain ⟨jx, hjx⟩ := List.getElem?_of_mem hxl
  have hlive : x.status ≠ .completed := by
    have := hxl
    simp only [live, List.mem_filter] at this
    simpa using this.2
  refine ⟨?_, hSl.findable jx x hjx⟩
  rcases hSl.others jx x hjx with h | ⟨fr, hfr, rfl⟩
  · exact absurd h hlive
  · rcases List.mem_cons.1 hfr with rfl | hfr
    · exact absurd rfl (hnot _ hx)
    · obtain ⟨u, hu⟩ := rest_interrupted hc fr hfr
      simp [SFrame.toFS, hu]

theorem shape_tail_noop {cfgs : Cfgs} {ns : State} {stk : List SFrame} (hS : Shape cfgs ns stk) :
    markInterrupted ns = ns ∧ extensionInterrupt cfgs ns = ns := by
  constructor
  · apply markInterrupted_noop
    intro x hx hs
    obtain ⟨j, hj⟩ := List.getElem?_of_mem hx
    rcases hS.others j x hj with h | ⟨fr, _, rfl⟩
    · rw [h] at hs; cases hs
    · cases hcal : fr.callee with
      | none => simp [SFrame.toFS, hcal] at hs
      | some u => simp [SFrame.toFS, hcal]
  · apply extensionInterrupt_noop
    intro x hx
    obtain ⟨j, hj⟩ := List.getElem?_of_mem hx
    rcases hS.others j x hj with h | ⟨fr, _, rfl⟩
    · rw [h]; decide
    · exact (toFS_live fr).2

theorem startNew_skipK {cfgs id p lib} (h : SetupK cfgs id p lib) (ev : Event) (ns : State)
    (hin : ∃ x ∈ ns.flows, x.flowId = id) : startNew true cfgs ev cfgs ns = .ok ns := by
  rw [startNew_main h.toSetup]
  obtain ⟨x, hx, hid⟩ := hin
  have : (ns.flows.map (·.flowId)).contains id = true := by
    simp only [List.contains_iff_mem, List.mem_map]
    exact ⟨x, hx, hid⟩
  have hex : ∃ a, a ∈ ns.flows ∧ a.flowId = id := ⟨x, hx, hid⟩
  simp [startOne, mkCfg, hex]

/-- the tail of `computeNextState` on a settled stack: nothing happens -/
theorem tail_settled {cfgs : Cfgs} {ns : State} {stk : List SFrame} (hS : Shape cfgs ns stk) (hc : ChainFrom none stk) :
    tailPhases cfgs ns false = .error .oof ∨ tailPhases cfgs ns false = .ok ns := by
  obtain ⟨h1, h2⟩ := shape_tail_noop hS
  simp only [tailPhases, Bool.false_eq_true, if_false, h1, h2]
  rw [show (100 : Nat) = 99 + 1 from rfl, resumeLoop_eq]
  exact settle hS hc 99 1000 0 false


/-! ### the source-level reference with a call stack -/

/-- invariant between the structured stack and the interpreter state -/
def InvK (cfgs : Cfgs) (id : String) (S : SK) (st : State) : Prop :=
  st.ctx = S.ctx ∧ st.ctr = S.ctr ∧ decisionsOf st = S.dec ∧ Shape cfgs st S.stk ∧ ChainFrom none S.stk ∧
  (∀ m, S.stk.getLast? = some m → m.name = id) ∧
  (∀ top, S.stk.head? = some top → top.callee = none)

theorem decisions_next (cfgs : Cfgs) (c upd : Ctx) (fl : List FS) (k : Nat) (w : Nat × String × Step) (cf : FlowCfg)
    (hf : cfgs.find w.2.1 = some cf) :
    decisionsOf { ctx := c, flows := fl, next := nextOf cfgs none w, upd := upd, ctr := k } = ctxDec upd ++ stepDec w.2.2 := by
  simp only [decisionsOf, ctxDec, stepDec, nextOf, hf, recNext]
  by_cases hact : isActionable (elemOf w.2.2) = true
  · simp [hact]
    cases stepToEvent (elemOf w.2.2) <;> simp
  · simp [hact]

theorem unwind_who (lib : Lib) (f : Nat) : ∀ (stk : List SFrame) (st : SSt) (ctr : Nat) (st' : SSt) (c' : Nat) (stk' : List SFrame) (who : Option (Nat × String × Step)),
    unwindS lib f st ctr stk = .done st' c' stk' who → (who = none → stk' = []) ∧ (∀ w, who = some w → stk' ≠ []) := by
  intro stk
  induction stk with
  | nil =>
    intro st ctr st' c' stk' who h
    simp only [unwindS, OutU.done.injEq] at h
    obtain ⟨_, _, rfl, rfl⟩ := h
    exact ⟨fun _ => rfl, fun w hw => by cases hw⟩
  | cons fr rest ih =>
    intro st ctr st' c' stk' who h
    simp only [unwindS] at h
    cases hr : runS lib f SUB_FUEL fr.uid fr.name st ctr fr.body (some fr.addr) with
    | err => rw [hr] at h; cases h
    | oof => rw [hr] at h; cases h
    | bad => rw [hr] at h; cases h
    | fell s2 c2 => rw [hr] at h; exact ih s2 c2 st' c' stk' who h
    | wait s2 c2 a callee frames w =>
      rw [hr] at h
      simp only [OutU.done.injEq] at h
      obtain ⟨_, _, rfl, rfl⟩ := h
      refine ⟨fun hn => (nomatch hn), fun _ _ hnil => ?_⟩
      cases frames <;> simp at hnil

/-- what an `Unwound` result means for the invariant -/
theorem inv_of_unwound {cfgs : Cfgs} {id : String} {res : Except Err State} {st1 : SSt} {c1 : Nat} {stk : List SFrame}
    {who : Option (Nat × String × Step)} {S' : SK}
    (hU : Unwound cfgs none res (.done st1 c1 stk who)) (ho : outcomeK (.done st1 c1 stk who) = some S')
    (hw1 : who = none → stk = []) (hw2 : ∀ w, who = some w → stk ≠ [])
    (hlast : ∀ m, S'.stk.getLast? = some m → m.name = id) :
    ∃ st', res = .ok st' ∧ InvK cfgs id S' st' := by
  simp only [outcomeK, Option.some.injEq] at ho
  subst ho
  obtain ⟨ns', hres, h1, h2, h3, hS, hc, hnx, hin⟩ := hU
  refine ⟨ns', hres, h1, h3, ?_, hS, hc, hlast, ?_⟩
  · obtain ⟨ctx, flows, next, upd, ctr⟩ := ns'
    simp only at h1 h2 h3 hnx
    subst h1 h2 h3
    cases who with
    | none =>
      simp only at hnx
      subst hnx
      simp [decisionsOf, ctxDec, whoDec]
    | some w =>
      simp only at hnx
      subst hnx
      have hi := hin w rfl
      cases hstk : stk with
      | nil => exact absurd hstk (hw2 w rfl)
      | cons hd tl =>
        have := hi hd (by simp [hstk])
        obtain ⟨_, hname, _, _⟩ := this
        obtain ⟨_, cf, hcf, _⟩ := hS.known hd (by simp [hstk])
        simp only [whoDec]
        exact decisions_next cfgs _ _ _ _ w cf (by rw [hname]; exact hcf)
  · intro top htop
    cases who with
    | none => rw [hw1 rfl] at htop; simp at htop
    | some w => exact (hin w rfl top htop).2.2.2


/-! ### the advance loop on the innermost frame -/

theorem advanceOne_nontrig (cfgs : Cfgs) (ev : Event) (ns : State) (ext : Bool) (fs : FS) (cfg : FlowCfg) (el : Elem)
    (hf : cfgs.find fs.flowId = some cfg) (ha : fs.status = .active) (hel : pyIndex cfg.elems fs.head = some el)
    (htr : ev.triggers cfg.triggers = false) :
    advanceOne true cfgs ev ns ext fs = .ok (recordNextStep { ns with flows := ns.flows ++ [fs] } fs cfg true, ext) := by
  simp [advanceOne, hf, ha, hel, htr]

theorem advanceOne_match (cfgs : Cfgs) (ev : Event) (ns : State) (ext : Bool) (fs : FS) (cfg : FlowCfg) (el : Elem)
    (hf : cfgs.find fs.flowId = some cfg) (ha : fs.status = .active) (hel : pyIndex cfg.elems fs.head = some el)
    (htr : ev.triggers cfg.triggers = true) (hm : isMatch el ev = true) (hne : fs.head + 1 ≠ 0) (hext : cfg.isExtension = false) :
    advanceOne true cfgs ev ns ext fs =
      (match slideWithSubflows true SUB_FUEL cfgs ns { fs with head := fs.head + 1 } with
       | .error e => .error e
       | .ok (ns', fs') =>
         if fs'.head < 0 then .ok ({ ns' with flows := ns'.flows ++ [{ fs' with status := .completed }] }, ext)
         else .ok ({ ns' with flows := ns'.flows ++ [fs'] }, ext)) := by
  have hne' : (fs.head + 1 != 0) = true := by simpa using hne
  obtain ⟨uid, fid, head, status, iby⟩ := fs
  simp only at ha
  subst ha
  simp only [advanceOne, hf, hel, htr, hm, hne', hext]
  simp
  rfl

theorem live_nil (l : List FS) (h : ∀ x ∈ l, x.status = .completed) : live l = [] := by
  simp only [live, List.filter_eq_nil_iff]
  intro x hx
  simp [h x hx]

theorem shape_nil_of_completed (cfgs : Cfgs) (ns : State)
    (h1 : ∀ x ∈ ns.flows, x.status = .completed) (h2 : (ns.flows.map (·.uid)).Nodup) (h3 : ∀ x ∈ ns.flows, x.uid < ns.ctr)
    (h4 : ∀ x ∈ ns.flows, ∃ c, cfgs.find x.flowId = some c) : Shape cfgs ns [] :=
  ⟨fun fr h => (nomatch h), fun j x hj => Or.inl (h1 x (List.mem_of_getElem? hj)), h2, fun j x hj => h3 x (List.mem_of_getElem? hj),
   List.nodup_nil, fun fr h => (nomatch h), fun j x hj => h4 x (List.mem_of_getElem? hj)⟩

theorem shape_single (cfgs : Cfgs) (ns : State) (fr : SFrame) (hfl : ns.flows = [fr.toFS]) (hb : fr.uid < ns.ctr)
    (hk : size fr.body ≠ 0 ∧ ∃ c, cfgs.find fr.name = some c ∧ c.elems = compile fr.body) : Shape cfgs ns [fr] := by
  refine ⟨?_, ?_, ?_, ?_, by simp, ?_, ?_⟩
  · intro x hx
    simp only [List.mem_singleton] at hx
    subst hx
    exact ⟨0, by simp [hfl]⟩
  · intro j x hj
    rw [hfl] at hj
    have := List.mem_of_getElem? hj
    simp only [List.mem_singleton] at this
    exact .inr ⟨fr, by simp, this⟩
  · simp [hfl]
  · intro j x hj
    rw [hfl] at hj
    have := List.mem_of_getElem? hj
    simp only [List.mem_singleton] at this
    rw [this, toFS_uid]; exact hb
  · intro x hx
    simp only [List.mem_singleton] at hx
    subst hx
    exact hk
  · intro j x hj
    rw [hfl] at hj
    have := List.mem_of_getElem? hj
    simp only [List.mem_singleton] at this
    rw [this, toFS_flowId]
    obtain ⟨_, c, hc, _⟩ := hk
    exact ⟨c, hc⟩


/-! ### one event: the idle flow -/

theorem step_idle {cfgs : Cfgs} {id i0 : String} {r : Prog} {lib : Lib} (hK : SetupK cfgs id (.step (.user i0) r) lib)
    (f : Nat) (S S' : SK) (st : State) (ev : Event) (hinv : InvK cfgs id S st) (hstk : S.stk = [])
    (hstep : (if isMatch (.userIntent i0) ev then
        outcomeK (unwindS lib f ⟨S.ctx.withEvent ev, []⟩ (S.ctr + 1) [{ uid := S.ctr, name := id, body := .step (.user i0) r, addr := .here, callee := none }])
      else some { S with ctx := S.ctx.withEvent ev, dec := [] }) = some S') :
    generalBody cfgs st ev = .error .oof ∨ ∃ st', generalBody cfgs st ev = .ok st' ∧ InvK cfgs id S' st' := by
  obtain ⟨hctx, hctr, hdec, hSh, hch, hlast, hhead⟩ := hinv
  obtain ⟨sctx, sctr, sstk, sdec⟩ := S
  obtain ⟨ctx0, flows0, next0, upd0, ctr0⟩ := st
  simp only at hctx hctr hstk hSh hstep
  subst hctx hctr hstk
  have hp0 : size (Prog.step (.user i0) r) ≠ 0 := by simp [size]
  have hfm := find_main hK.toSetup
  have hall : ∀ x ∈ flows0, x.status = .completed := by
    intro x hx
    obtain ⟨j, hj⟩ := List.getElem?_of_mem hx
    rcases hSh.others j x hj with h | ⟨fr, hfr, _⟩
    · exact h
    · cases hfr
  have hadv : ∀ ns : State, advanceAll true cfgs ev flows0 ns false = .ok (ns, false) := by
    intro ns
    rw [advanceAll_live true cfgs ev flows0 ns false (fun x hx => by
      obtain ⟨j, hj⟩ := List.getElem?_of_mem hx
      exact hSh.findable j x hj), live_nil _ hall]
    rfl
  simp only [generalBody, hadv, startNew_main hK.toSetup]
  rw [startOne_idleD cfgs id i0 r ev _ rfl]
  by_cases hm : isMatch (.userIntent i0) ev = true
  · simp only [hm, if_true] at hstep ⊢
    simp only [unwindS] at hstep
    have hsim := slideWS_sim cfgs lib hK.libok f SUB_FUEL
      { ctx := ctx0.withEvent ev, flows := [{ uid := ctr0, flowId := id, head := 0 + 1 }], next := none, upd := [], ctr := ctr0 + 1 }
      { uid := ctr0, flowId := id, head := 0 + 1 } (mkCfg id (.step (.user i0) r)) (.step (.user i0) r) (some .here) hfm rfl hp0 (by simp [startPos, off])
    have hok := runS_ok lib f SUB_FUEL ctr0 id ⟨ctx0.withEvent ev, []⟩ (ctr0 + 1) (.step (.user i0) r) (some .here)
    rcases hsim with hoof | hag
    · left; rw [hoof]
    · simp only [] at hag
      cases hrun : runS lib f SUB_FUEL ctr0 id ⟨ctx0.withEvent ev, []⟩ (ctr0 + 1) (.step (.user i0) r) (some .here) with
      | err => rw [hrun] at hstep; simp [outcomeK] at hstep
      | oof => rw [hrun] at hstep; simp [outcomeK] at hstep
      | bad => rw [hrun] at hstep; simp [outcomeK] at hstep
      | fell st1 c1 =>
        rw [hrun] at hstep hag hok
        simp only [unwindS, outcomeK, Option.some.injEq] at hstep
        subst hstep
        obtain ⟨hd, hneg, hres⟩ := hag
        simp only [RunOK] at hok
        rw [hres]
        simp only [hneg, decide_true, Bool.and_true, if_true, setAt, List.set]
        have hS2 : Shape cfgs { ctx := st1.ctx, flows := [{ uid := ctr0, flowId := id, head := hd, status := .completed, interruptedBy := none }], next := none, upd := st1.upd, ctr := c1 } [] := by
          apply shape_nil_of_completed
          · intro x hx; simp only [List.mem_singleton] at hx; rw [hx]
          · simp
          · intro x hx; simp only [List.mem_singleton] at hx; rw [hx]; show ctr0 < c1; omega
          · intro x hx; simp only [List.mem_singleton] at hx; rw [hx]; exact ⟨_, hfm⟩
        rcases tail_settled hS2 trivial with h | h
        · left; exact h
        · right
          refine ⟨_, h, rfl, rfl, ?_, hS2, trivial, by intro m hm'; simp at hm', by intro t ht; simp at ht⟩
          simp [decisionsOf, ctxDec, whoDec]
      | wait st1 c1 a callee frames who =>
        rw [hrun] at hstep hag hok
        obtain ⟨hres, _, _⟩ := hag
        obtain ⟨hk, hfr, hnd, hchn, hcal, hin⟩ := hok
        rw [hres]
        have hfs : callerFS { uid := ctr0, flowId := id, head := 0 + 1 } (.step (.user i0) r) a callee
            = SFrame.toFS { uid := ctr0, name := id, body := .step (.user i0) r, addr := a, callee := callee } := by
          cases callee <;> rfl
        have hnn : ¬ (SFrame.toFS { uid := ctr0, name := id, body := .step (.user i0) r, addr := a, callee := callee }).head < 0 := by
          cases callee <;> simp [SFrame.toFS] <;> omega
        simp only [hfs, hnn, decide_false, Bool.and_false, Bool.false_eq_true, if_false]
        -- the shape of the result, through a virtual state that holds the frame the flow starts from
        have hSv : Shape cfgs { ctx := ctx0.withEvent ev, flows := [SFrame.toFS { uid := ctr0, name := id, body := .step (.user i0) r, addr := .here, callee := none }], next := none, upd := [], ctr := ctr0 + 1 }
            [{ uid := ctr0, name := id, body := .step (.user i0) r, addr := .here, callee := none }] :=
          shape_single cfgs _ _ rfl (by show ctr0 < ctr0 + 1; omega) ⟨hp0, _, hfm, rfl⟩
        have hS2 := shape_wait hK.libok hSv 0 rfl st1.ctx st1.upd (nextOf cfgs none who) c1 a callee frames hk hfr hnd
        have hc2 : ChainFrom none (frames ++ [{ uid := ctr0, name := id, body := .step (.user i0) r, addr := a, callee := callee }]) := by
          rw [chain_append]; exact ⟨hchn, hcal, trivial⟩
        have hfl : setAt ([{ uid := ctr0, flowId := id, head := 0 + 1 }] ++ frames.map SFrame.toFS) 0 (SFrame.toFS { uid := ctr0, name := id, body := .step (.user i0) r, addr := a, callee := callee })
            = setAt ([SFrame.toFS { uid := ctr0, name := id, body := .step (.user i0) r, addr := .here, callee := none }] ++ frames.map SFrame.toFS) 0 (SFrame.toFS { uid := ctr0, name := id, body := .step (.user i0) r, addr := a, callee := callee }) := by
          simp [setAt]
        rw [hfl]
        rcases tail_settled hS2 hc2 with h | h
        · left; exact h
        · right
          have hU : Unwound cfgs none (.ok _) (.done st1 c1 (frames ++ [{ uid := ctr0, name := id, body := .step (.user i0) r, addr := a, callee := callee }]) (some who)) :=
            ⟨_, rfl, rfl, rfl, rfl, hS2, hc2, rfl, fun w hw => by cases hw; exact hin⟩
          obtain ⟨st', hst', hinv'⟩ := inv_of_unwound (id := id) hU hstep (fun h => nomatch h) (fun _ _ hnil => by cases frames <;> simp at hnil)
            (by
              intro m hm'
              have : S'.stk = frames ++ [{ uid := ctr0, name := id, body := .step (.user i0) r, addr := a, callee := callee }] := by
                simp only [outcomeK, Option.some.injEq] at hstep; rw [← hstep]
              rw [this, List.getLast?_append] at hm'
              simp at hm'
              rw [← hm'])
          exact ⟨st', by rw [h]; exact hst', hinv'⟩
  · simp only [hm, Bool.false_eq_true, if_false, Option.some.injEq] at hstep ⊢
    subst hstep
    have hS2 : Shape cfgs { ctx := ctx0.withEvent ev, flows := [], next := none, upd := [], ctr := ctr0 } [] :=
      shape_nil_of_completed cfgs _ (fun x h => nomatch h) List.nodup_nil (fun x h => nomatch h) (fun x h => nomatch h)
    rcases tail_settled hS2 trivial with h | h
    · left; exact h
    · right
      exact ⟨_, h, rfl, rfl, by simp [decisionsOf], hS2, trivial, by intro m hm'; simp at hm', by intro t ht; simp at ht⟩


/-! ### one event: a flow waiting inside its stack -/

theorem record_nine (ns : State) (fs : FS) (cfg : FlowCfg) (el : Elem) (hn : ns.next = none) (hel : pyIndex cfg.elems fs.head = some el) :
    recordNextStep ns fs cfg true =
      { ns with next := if isActionable el then some { elem := el, uid := fs.uid, prio := cfg.prio * 90 } else none } := by
  obtain ⟨ctx, flows, next, upd, ctr⟩ := ns
  simp only at hn
  subst hn
  simp only [recordNextStep, hel]
  by_cases ha : isActionable el = true <;> simp [ha]

theorem has_main {cfgs : Cfgs} {ns : State} {stk : List SFrame} {id : String} (hS : Shape cfgs ns stk) (hne : stk ≠ [])
    (hlast : ∀ m, stk.getLast? = some m → m.name = id) : ∃ x ∈ ns.flows, x.flowId = id := by
  have hm : stk.getLast? = some (stk.getLast hne) := List.getLast?_eq_some_getLast hne
  have hmem : stk.getLast hne ∈ stk := List.getLast_mem hne
  obtain ⟨j, hj⟩ := hS.mem _ hmem
  exact ⟨_, List.mem_of_getElem? hj, by rw [toFS_flowId]; exact hlast _ hm⟩

theorem perm_mid (l1 l2 F : List FS) (x : FS) : (l1 ++ F ++ [x] ++ l2).Perm (l1 ++ x :: (l2 ++ F)) := by
  have h1 : l1 ++ F ++ [x] ++ l2 = l1 ++ (F ++ (x :: l2)) := by simp
  have h2 : l1 ++ x :: (l2 ++ F) = l1 ++ ((x :: l2) ++ F) := by simp
  rw [h1, h2]
  exact List.Perm.append_left l1 List.perm_append_comm

theorem last_name_wait (frames : List SFrame) (top top' : SFrame) (rest : List SFrame) (id : String) (hn : top'.name = top.name)
    (hlast : ∀ m, (top :: rest).getLast? = some m → m.name = id) :
    ∀ m, (frames ++ top' :: rest).getLast? = some m → m.name = id := by
  intro m hm
  rw [List.getLast?_append] at hm
  cases rest with
  | nil =>
    simp at hm
    rw [← hm, hn]
    exact hlast top (by simp)
  | cons b r =>
    have h1 : (top' :: b :: r).getLast? = (b :: r).getLast? := by simp [List.getLast?_cons_cons]
    have h2 : (top :: b :: r).getLast? = (b :: r).getLast? := by simp [List.getLast?_cons_cons]
    rw [h1] at hm
    have : (b :: r).getLast? = some m := by
      cases hb : (b :: r).getLast? with
      | none => simp at hb
      | some z => rw [hb] at hm; simpa using hm
    exact hlast m (by rw [h2]; exact this)


theorem step_top {cfgs : Cfgs} {id i0 : String} {r : Prog} {lib : Lib} (hK : SetupK cfgs id (.step (.user i0) r) lib)
    (f : Nat) (S S' : SK) (st : State) (ev : Event) (top : SFrame) (rest : List SFrame) (s : Step)
    (hinv : InvK cfgs id S st) (hstk : S.stk = top :: rest) (hs : stepAt top.body top.addr = some s)
    (hstep : (if ev.triggers [] then
        (if isMatch (elemOf s) ev then outcomeK (unwindS lib f ⟨S.ctx.withEvent ev, []⟩ S.ctr (top :: rest)) else none)
      else some { S with ctx := S.ctx.withEvent ev, dec := stepDec s }) = some S') :
    generalBody cfgs st ev = .error .oof ∨ ∃ st', generalBody cfgs st ev = .ok st' ∧ InvK cfgs id S' st' := by
  obtain ⟨hctx, hctr, hdec, hSh, hch, hlast, hhead⟩ := hinv
  obtain ⟨sctx, sctr, sstk, sdec⟩ := S
  obtain ⟨ctx0, flows0, next0, upd0, ctr0⟩ := st
  simp only at hctx hctr hstk hSh hstep hch hlast hhead
  subst hctx hctr hstk
  have hcal : top.callee = none := hhead top rfl
  have hT : top.toFS = { uid := top.uid, flowId := top.name, head := ((off top.body top.addr : Nat) : Int), status := .active, interruptedBy := none } := by
    simp [SFrame.toFS, hcal]
  obtain ⟨l1, l2, hl, hint⟩ := live_split hSh hch
  simp only at hl
  rw [hT] at hl
  obtain ⟨hp, c, hfc, hce⟩ := hSh.known top (List.mem_cons_self ..)
  obtain ⟨htrg, hextn⟩ := find_props hK hfc
  have hidx : pyIndex c.elems ((off top.body top.addr : Nat) : Int) = some (elemOf s) := by
    rw [hce, pyIndex_nat]; exact landing top.body top.addr s hs
  have hfind : ∀ x ∈ flows0, ∃ c, cfgs.find x.flowId = some c := by
    intro x hx
    obtain ⟨j, hj⟩ := List.getElem?_of_mem hx
    exact hSh.findable j x hj
  have hint1 : ∀ x ∈ l1, x.status = .interrupted ∧ ∃ c, cfgs.find x.flowId = some c := fun x hx => hint x (List.mem_append_left _ hx)
  have hint2 : ∀ x ∈ l2, x.status = .interrupted ∧ ∃ c, cfgs.find x.flowId = some c := fun x hx => hint x (List.mem_append_right _ hx)
  -- the state the advance loop hands to the innermost frame
  have hadv : advanceAll true cfgs ev flows0 { ctx := ctx0.withEvent ev, flows := [], next := none, upd := [], ctr := ctr0 } false =
      (match advanceOne true cfgs ev { ctx := ctx0.withEvent ev, flows := l1, next := none, upd := [], ctr := ctr0 } false { uid := top.uid, flowId := top.name, head := ((off top.body top.addr : Nat) : Int), status := .active, interruptedBy := none } with
       | .error e => .error e
       | .ok (ns', ext') => advanceAll true cfgs ev l2 ns' ext') := by
    rw [advanceAll_live true cfgs ev flows0 _ false hfind, hl, advanceAll_append, advanceAll_interrupted true cfgs ev l1 _ false hint1]
    rfl
  -- the virtual state: the live flow states in their order
  have hSv : Shape cfgs { ctx := ctx0.withEvent ev, flows := l1 ++ top.toFS :: l2, next := none, upd := [], ctr := ctr0 } (top :: rest) := by
    rw [hT]
    have := shape_live hSh (ctx0.withEvent ev) [] none
    simp only [hl] at this
    exact this
  have hne : (top :: rest) ≠ [] := by simp
  by_cases htr : ev.triggers [] = true
  · -- the event is processed by the flows
    simp only [htr, if_true] at hstep
    by_cases hm : isMatch (elemOf s) ev = true
    · simp only [hm, if_true] at hstep
      have htr' : ev.triggers c.triggers = true := by rw [htrg]; exact htr
      have hmatch := advanceOne_match cfgs ev { ctx := ctx0.withEvent ev, flows := l1, next := none, upd := [], ctr := ctr0 } false
        { uid := top.uid, flowId := top.name, head := ((off top.body top.addr : Nat) : Int), status := .active, interruptedBy := none } c (elemOf s)
        hfc rfl hidx htr' hm (by simp; omega) hextn
      have hsim := slideWS_sim cfgs lib hK.libok f SUB_FUEL { ctx := ctx0.withEvent ev, flows := l1, next := none, upd := [], ctr := ctr0 }
        { uid := top.uid, flowId := top.name, head := ((off top.body top.addr : Nat) : Int) + 1, status := .active, interruptedBy := none } c top.body (some top.addr) hfc hce hp (by simp [startPos])
      have hok := runS_ok lib f SUB_FUEL top.uid top.name ⟨ctx0.withEvent ev, []⟩ ctr0 top.body (some top.addr)
      simp only [generalBody, hadv, hmatch]
      rcases hsim with hoof | hag
      · left; rw [hoof]
      · simp only [] at hag
        simp only [unwindS] at hstep
        cases hrun : runS lib f SUB_FUEL top.uid top.name ⟨ctx0.withEvent ev, []⟩ ctr0 top.body (some top.addr) with
        | err => rw [hrun] at hstep; simp [outcomeK] at hstep
        | oof => rw [hrun] at hstep; simp [outcomeK] at hstep
        | bad => rw [hrun] at hstep; simp [outcomeK] at hstep
        | fell st1 c1 =>
          rw [hrun] at hstep hag hok
          simp only [] at hstep
          obtain ⟨hd, hneg, hres⟩ := hag
          simp only [RunOK] at hok
          rw [hres]
          simp only [hneg, if_true]
          rw [advanceAll_interrupted true cfgs ev l2 _ false hint2]
          simp only []
          -- the shape after the innermost flow ran to its end
          have hS2 := shape_fell hSv l1.length (get_mid _ _ _) st1.ctx st1.upd c1 hok hd
          simp only [setAt, set_mid] at hS2
          have hfl : l1 ++ [({ uid := top.uid, flowId := top.name, head := hd, status := Status.completed, interruptedBy := none } : FS)] ++ l2
              = l1 ++ ({ uid := top.uid, flowId := top.name, head := hd, status := .completed, interruptedBy := none } : FS) :: l2 := by
            simp
          rw [hfl]
          have hmain : ∃ x ∈ l1 ++ ({ uid := top.uid, flowId := top.name, head := hd, status := .completed, interruptedBy := none } : FS) :: l2, x.flowId = id := by
            cases hrest : rest with
            | nil =>
              refine ⟨_, List.mem_append_right _ (List.mem_cons_self ..), ?_⟩
              exact hlast top (by rw [hrest]; simp)
            | cons b r' =>
              have hne' : rest ≠ [] := by rw [hrest]; simp
              have := has_main (id := id) hS2 hne' (by
                intro m hm'
                apply hlast m
                rw [hrest] at hm' ⊢
                simpa [List.getLast?_cons_cons] using hm')
              exact this
          rw [startNew_skipK hK ev _ hmain]
          obtain ⟨t1, t2⟩ := shape_tail_noop hS2
          simp only [tailPhases, Bool.false_eq_true, if_false, t1, t2]
          rw [show (100 : Nat) = 99 + 1 from rfl, resumeLoop_eq]
          have hchain := resume_chain cfgs lib hK.libok f rest 99 1000 _ 0 false top.uid l1.length _ hS2 hch.2 (get_mid _ _ _) rfl rfl
            (.inr (fun _ _ _ _ => Nat.zero_le _))
          rcases hchain with h | h
          · left; exact h
          · simp only [] at h
            cases hu : unwindS lib f st1 c1 rest with
            | stuck => rw [hu] at hstep; simp [outcomeK] at hstep
            | done st2 c2 stk2 who2 =>
              rw [hu] at hstep
              have h' := h
              rw [show (⟨st1.ctx, st1.upd⟩ : SSt) = st1 from rfl, hu] at h'
              obtain ⟨w1, w2⟩ := unwind_who lib f rest st1 c1 st2 c2 stk2 who2 hu
              right
              refine inv_of_unwound (id := id) h' hstep w1 w2 ?_
              intro m' hm'
              have hS'stk : S'.stk = stk2 := by
                simp only [outcomeK, Option.some.injEq] at hstep; rw [← hstep]
              rw [hS'stk] at hm'
              obtain ⟨m, hm1, hm2⟩ := unwind_last lib f rest st1 c1 st2 c2 stk2 who2 hu m' hm'
              rw [hm2]
              apply hlast m
              cases hrest : rest with
              | nil => rw [hrest] at hm1; simp at hm1
              | cons b r' => rw [hrest] at hm1; simpa [List.getLast?_cons_cons] using hm1
        | wait st1 c1 a callee frames who =>
          rw [hrun] at hstep hag hok
          simp only [] at hstep
          obtain ⟨hres, _, _⟩ := hag
          obtain ⟨hk, hfr, hnd, hchn, hcalE, hin⟩ := hok
          rw [hres]
          have hfs : callerFS { uid := top.uid, flowId := top.name, head := ((off top.body top.addr : Nat) : Int) + 1, status := .active, interruptedBy := none } top.body a callee
              = SFrame.toFS { top with addr := a, callee := callee } := by
            cases callee <;> rfl
          have hnn : ¬ (SFrame.toFS { top with addr := a, callee := callee }).head < 0 := by
            cases callee <;> simp [SFrame.toFS] <;> omega
          simp only [hfs, hnn, if_false]
          rw [advanceAll_interrupted true cfgs ev l2 _ false hint2]
          simp only []
          have hS2v := shape_wait hK.libok hSv l1.length (get_mid _ _ _) st1.ctx st1.upd (nextOf cfgs none who) c1 a callee frames hk hfr hnd
          have hsetv : setAt (l1 ++ top.toFS :: l2 ++ frames.map SFrame.toFS) l1.length (SFrame.toFS { top with addr := a, callee := callee })
              = l1 ++ SFrame.toFS { top with addr := a, callee := callee } :: (l2 ++ frames.map SFrame.toFS) := by
            have : l1 ++ top.toFS :: l2 ++ frames.map SFrame.toFS = l1 ++ top.toFS :: (l2 ++ frames.map SFrame.toFS) := by simp
            rw [this]; exact set_mid _ _ _ _
          simp only [hsetv] at hS2v
          have hS2 : Shape cfgs { ctx := st1.ctx, flows := l1 ++ frames.map SFrame.toFS ++ [SFrame.toFS { top with addr := a, callee := callee }] ++ l2, next := nextOf cfgs none who, upd := st1.upd, ctr := c1 } (frames ++ { top with addr := a, callee := callee } :: rest) :=
            shape_perm hS2v (perm_mid _ _ _ _) (Nat.le_refl _)
          have hc2 : ChainFrom none (frames ++ { top with addr := a, callee := callee } :: rest) := by
            rw [chain_append]; exact ⟨hchn, hcalE, hch.2⟩
          have hlast2 := last_name_wait frames top { top with addr := a, callee := callee } rest id rfl hlast
          have hmain := has_main (id := id) hS2 (by cases frames <;> simp) hlast2
          rw [startNew_skipK hK ev _ hmain]
          simp only []
          rcases tail_settled hS2 hc2 with h | h
          · left; exact h
          · right
            have hU : Unwound cfgs none (.ok _) (.done st1 c1 (frames ++ { top with addr := a, callee := callee } :: rest) (some who)) :=
              ⟨_, rfl, rfl, rfl, rfl, hS2, hc2, rfl, fun w hw => by cases hw; exact innerOK_extend _ _ _ _ hin⟩
            obtain ⟨st', hst', hinv'⟩ := inv_of_unwound (id := id) hU hstep (fun h => nomatch h) (fun _ _ hnil => by cases frames <;> simp at hnil)
              (by
                intro m hm'
                have : S'.stk = frames ++ { top with addr := a, callee := callee } :: rest := by
                  simp only [outcomeK, Option.some.injEq] at hstep; rw [← hstep]
                rw [this] at hm'
                exact hlast2 m hm')
            exact ⟨st', by rw [h]; exact hst', hinv'⟩
    · simp [hm] at hstep
  · -- an event of a type that does not trigger flows: the pending statement is decided again (modifier 0.9)
    have htr0 : ev.triggers [] = false := by simpa using htr
    simp only [htr0, Bool.false_eq_true, if_false, Option.some.injEq] at hstep
    subst hstep
    have htr' : ev.triggers c.triggers = false := by rw [htrg]; exact htr0
    have hnon := advanceOne_nontrig cfgs ev { ctx := ctx0.withEvent ev, flows := l1, next := none, upd := [], ctr := ctr0 } false
      { uid := top.uid, flowId := top.name, head := ((off top.body top.addr : Nat) : Int), status := .active, interruptedBy := none } c (elemOf s)
      hfc rfl hidx htr'
    simp only [generalBody, hadv, hnon]
    rw [record_nine _ _ _ (elemOf s) rfl hidx]
    rw [advanceAll_interrupted true cfgs ev l2 _ false hint2]
    simp only []
    have hfl : l1 ++ [({ uid := top.uid, flowId := top.name, head := ((off top.body top.addr : Nat) : Int), status := .active, interruptedBy := none } : FS)] ++ l2 = l1 ++ top.toFS :: l2 := by rw [hT]; simp
    rw [hfl]
    have hS2 : Shape cfgs { ctx := ctx0.withEvent ev, flows := l1 ++ top.toFS :: l2, next := (if isActionable (elemOf s) = true then some { elem := elemOf s, uid := top.uid, prio := c.prio * 90 } else none), upd := [], ctr := ctr0 } (top :: rest) := by
      have := shape_live hSh (ctx0.withEvent ev) [] (if isActionable (elemOf s) = true then some { elem := elemOf s, uid := top.uid, prio := c.prio * 90 } else none)
      simp only [hl] at this
      rw [hT]
      exact this
    have hmain := has_main (id := id) hS2 hne hlast
    rw [startNew_skipK hK ev _ hmain]
    simp only []
    rcases tail_settled hS2 hch with h | h
    · left; exact h
    · right
      refine ⟨_, h, rfl, rfl, ?_, hS2, hch, hlast, hhead⟩
      simp only [decisionsOf, stepDec]
      by_cases hact : isActionable (elemOf s) = true
      · simp [hact]
        cases stepToEvent (elemOf s) <;> simp
      · simp [hact]


/-! ### every event, whole histories -/

theorem step_generalK {cfgs : Cfgs} {id i0 : String} {r : Prog} {lib : Lib} (hK : SetupK cfgs id (.step (.user i0) r) lib)
    (f : Nat) (S S' : SK) (st : State) (ev : Event)
    (hinv : InvK cfgs id S st) (hstep : followGeneralK lib id (.step (.user i0) r) i0 f S ev = some S') :
    generalBody cfgs st ev = .error .oof ∨ ∃ st', generalBody cfgs st ev = .ok st' ∧ InvK cfgs id S' st' := by
  obtain ⟨sctx, sctr, sstk, sdec⟩ := S
  simp only [followGeneralK] at hstep
  by_cases hstop : (ev == Event.botIntent "stop") = true
  · simp [hstop] at hstep
  simp only [hstop, Bool.false_eq_true, if_false] at hstep
  cases sstk with
  | nil =>
    simp only at hstep
    exact step_idle hK f _ S' st ev hinv rfl hstep
  | cons top rest =>
    simp only at hstep
    cases hs : stepAt top.body top.addr with
    | none => simp [hs] at hstep
    | some s =>
      simp only [hs] at hstep
      exact step_top hK f _ S' st ev top rest s hinv rfl hs hstep

theorem follow_ok_eventK {lib : Lib} {id : String} {p : Prog} {i0 : String} {f : Nat} {S S' : SK} {ev : Event}
    (h : followStepK lib id p i0 f S ev = some S') : ev ≠ .hidePrevTurn ∧ ev ≠ .botIntent "stop" := by
  constructor
  · intro he; subst he; simp [followStepK] at h
  · intro he; subst he; simp [followStepK, followGeneralK] at h

theorem step_invK {cfgs : Cfgs} {id i0 : String} {r : Prog} {lib : Lib} (hK : SetupK cfgs id (.step (.user i0) r) lib)
    (f : Nat) (S S' : SK) (st : State) (ev : Event)
    (hinv : InvK cfgs id S st) (hstep : followStepK lib id (.step (.user i0) r) i0 f S ev = some S') :
    computeNextState true cfgs st ev = .error .oof ∨
    ∃ st', computeNextState true cfgs st ev = .ok st' ∧ InvK cfgs id S' st' := by
  cases ev with
  | startAction =>
    simp only [followStepK, Option.some.injEq] at hstep
    subst hstep
    exact .inr ⟨st, rfl, hinv⟩
  | contextUpdate d =>
    simp only [followStepK, Option.some.injEq] at hstep
    subst hstep
    obtain ⟨hctx, hctr, _, hSh, hch, hlast, hhead⟩ := hinv
    refine .inr ⟨_, rfl, ?_, hctr, ?_, ?_, hch, hlast, hhead⟩
    · simp [hctx]
    · simp [decisionsOf]
    · exact ⟨hSh.mem, hSh.others, hSh.nodup, hSh.bound, hSh.snodup, hSh.known, hSh.findable⟩
  | hidePrevTurn => simp [followStepK] at hstep
  | userIntent i =>
    rw [cns_general _ _ _ (by simp) (by simp)]
    exact step_generalK hK f S S' st _ hinv hstep
  | botIntent i =>
    rw [cns_general _ _ _ (by simp) (by simp)]
    exact step_generalK hK f S S' st _ hinv hstep
  | actionFinished n ok =>
    rw [cns_general _ _ _ (by simp) (by simp)]
    exact step_generalK hK f S S' st _ hinv hstep
  | other ty ps =>
    rw [cns_general _ _ _ (by simp) (by simp)]
    exact step_generalK hK f S S' st _ hinv hstep

theorem replay_followK {cfgs : Cfgs} {id i0 : String} {r : Prog} {lib : Lib} (hK : SetupK cfgs id (.step (.user i0) r) lib) (f : Nat) :
    ∀ (H : List Event) (S S' : SK) (st : State), InvK cfgs id S st →
      followAllK lib id (.step (.user i0) r) i0 f S H = some S' →
      replay true cfgs H st = .error .oof ∨
      ∃ st', replay true cfgs H st = .ok st' ∧ InvK cfgs id S' st' := by
  intro H
  induction H with
  | nil =>
    intro S S' st hinv hf
    simp only [followAllK, Option.some.injEq] at hf
    subst hf
    exact .inr ⟨st, rfl, hinv⟩
  | cons ev rest ih =>
    intro S S' st hinv hf
    simp only [followAllK] at hf
    cases hfs : followStepK lib id (.step (.user i0) r) i0 f S ev with
    | none => simp [hfs] at hf
    | some S1 =>
      simp only [hfs] at hf
      have hns := (follow_ok_eventK hfs).2
      have hb : (ev == Event.botIntent "stop") = false := by simpa using hns
      rcases step_invK hK f S S1 st ev hinv hfs with h | ⟨st1, h, hinv1⟩
      · left; simp [replay, h]
      · simp only [replay, h, hb, Bool.false_eq_true, if_false]
        exact ih S1 S' st1 hinv1 hf

theorem follow_eventsK {lib : Lib} {id : String} {p : Prog} {i0 : String} {f : Nat} : ∀ (H : List Event) (S S' : SK),
    followAllK lib id p i0 f S H = some S' → ∀ ev ∈ H, ev ≠ .hidePrevTurn ∧ ev ≠ .botIntent "stop" := by
  intro H
  induction H with
  | nil => intro S S' _ ev hev; cases hev
  | cons e rest ih =>
    intro S S' hf ev hev
    simp only [followAllK] at hf
    cases hfs : followStepK lib id p i0 f S e with
    | none => simp [hfs] at hf
    | some S1 =>
      simp only [hfs] at hf
      rcases List.mem_cons.1 hev with h | h
      · subst h; exact follow_ok_eventK hfs
      · exact ih S1 S' hf ev h

/-- **Whole histories, flows with subflow calls that may block.** -/
theorem follow_decidesK {cfgs : Cfgs} {id i0 : String} {r : Prog} {lib : Lib} (hK : SetupK cfgs id (.step (.user i0) r) lib)
    (f : Nat) (H : List Event) (S : SK)
    (hf : followAllK lib id (.step (.user i0) r) i0 f { ctx := [], ctr := 0, stk := [], dec := [] } H = some S) :
    computeNextSteps true cfgs H = .oof ∨ computeNextSteps true cfgs H = .ok S.dec := by
  have hev := follow_eventsK H _ _ hf
  have hh := applyHide_nohide H [] (fun ev h => (hev ev h).1)
  simp only [List.nil_append] at hh
  have hinv0 : InvK cfgs id { ctx := [], ctr := 0, stk := [], dec := [] } { ctx := [] } :=
    ⟨rfl, rfl, by simp [decisionsOf],
     shape_nil_of_completed cfgs _ (fun x h => nomatch h) List.nodup_nil (fun x h => nomatch h) (fun x h => nomatch h),
     trivial, by intro m hm; simp at hm, by intro t ht; simp at ht⟩
  simp only [computeNextSteps, hh]
  rcases replay_followK hK f H _ S _ hinv0 hf with h | ⟨st, h, hinv⟩
  · left; rw [h]
  · right
    rw [h]
    have hlast : (H.getLast? == some (Event.botIntent "stop")) = false := by
      cases hl : H.getLast? with
      | none => rfl
      | some e =>
        have hmem : e ∈ H := List.mem_of_getLast? hl
        have := (hev e hmem).2
        simpa using this
    simp only [hlast, Bool.false_eq_true, if_false]
    rw [hinv.2.2.1]

end NemoVerif.V1StackFollow
