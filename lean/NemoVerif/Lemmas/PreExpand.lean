/-
  Helper lemmas about the `PreExpand` model (C13).  Property theorems are in Theorems/C13.lean.
-/
import NemoVerif.Models.PreExpand
import NemoVerif.Lemmas.NumberedLines

namespace NemoVerif.PreExpand
open NemoVerif.NumberedLines

theorem strip_nil_allws (b : Str) (h : strip b = []) : ∀ c ∈ b, isPyWs c = true := by
  unfold strip rstrip at h
  have h1 : lstrip (lstrip b).reverse = [] := by simpa using h
  have h2 := (lstrip_nil_iff _).1 h1
  have h3 : ∀ c ∈ lstrip b, isPyWs c = true := fun c hc => h2 c (by simpa using hc)
  -- a non-empty `lstrip b` starts with a non-blank
  have h4 : lstrip b = [] := by
    generalize hb : lstrip b = y at h3
    clear h h1 h2
    induction b with
    | nil => simp [lstrip] at hb; exact hb
    | cons c r ih =>
      by_cases hc : isPyWs c = true
      · simp only [lstrip, hc, if_true] at hb; exact ih hb
      · simp only [lstrip, hc] at hb
        subst hb
        exact absurd (h3 c (by simp)) hc
  exact (lstrip_nil_iff b).1 h4

theorem splitSpaces_snd_mem (x : Str) : ∀ c ∈ (splitSpaces x).2, c ∈ x := by
  induction x with
  | nil => simp [splitSpaces]
  | cons a r ih =>
    by_cases ha : a = ' '
    · subst ha; simp only [splitSpaces]; intro c hc; exact List.mem_cons_of_mem _ (ih c hc)
    · intro c hc
      have : splitSpaces (a :: r) = ([], a :: r) := by
        unfold splitSpaces; split
        · rename_i h; cases h; exact absurd rfl ha
        · rfl
      rw [this] at hc; exact hc

theorem splitSpaces_not_space (a : Char) (r : Str) (ha : a ≠ ' ') : splitSpaces (a :: r) = ([], a :: r) := by
  unfold splitSpaces; split
  · rename_i h; cases h; exact absurd rfl ha
  · rfl

/-- appending blanks does not create or destroy a `^( +)\.\.\.` match; it only extends what follows the dots -/
theorem splitSpaces_append (l ws : Str) (h : (splitSpaces l).2 ≠ []) :
    splitSpaces (l ++ ws) = ((splitSpaces l).1, (splitSpaces l).2 ++ ws) := by
  induction l with
  | nil => simp [splitSpaces] at h
  | cons a r ih =>
    by_cases ha : a = ' '
    · subst ha
      simp only [splitSpaces] at h
      simp only [List.cons_append, splitSpaces, ih h]
    · simp [splitSpaces_not_space a _ ha]

theorem dot_not_ws : isPyWs '.' = false := by decide

theorem dropDots_succ_ne (n : Nat) (a : Char) (r : Str) (ha : a ≠ '.') : dropDots (n + 1) (a :: r) = none := by
  unfold dropDots
  split
  · rename_i h; cases h
  · rename_i h1 h2; cases h2; exact absurd rfl ha
  · rfl

theorem dropDots_succ_nil (n : Nat) : dropDots (n + 1) [] = none := by
  unfold dropDots; rfl

theorem dropDots_append (ws : Str) (hws : ∀ c ∈ ws, isPyWs c = true) : ∀ (n : Nat) (r : Str),
    dropDots n (r ++ ws) = (dropDots n r).map (· ++ ws) := by
  intro n
  induction n with
  | zero => intro r; simp [dropDots]
  | succ n ih =>
    intro r
    cases r with
    | nil =>
      cases ws with
      | nil => simp [dropDots_succ_nil]
      | cons w ws' =>
        have hw : w ≠ '.' := by
          intro e; have := hws w (by simp); rw [e, dot_not_ws] at this; cases this
        simp [dropDots_succ_nil, dropDots_succ_ne n w ws' hw]
    | cons a r1 =>
      by_cases ha : a = '.'
      · subst ha; simp only [List.cons_append, dropDots]; exact ih r1
      · simp [dropDots_succ_ne n a _ ha]

theorem spaces_of_snd_nil : ∀ (y : Str), (splitSpaces y).2 = [] → ∀ c ∈ y, c = ' ' := by
  intro y
  induction y with
  | nil => simp
  | cons a r ih =>
    intro hy c hc
    by_cases ha : a = ' '
    · subst ha
      simp only [splitSpaces] at hy
      rcases List.mem_cons.1 hc with rfl | hc'
      · rfl
      · exact ih hy c hc'
    · rw [splitSpaces_not_space a r ha] at hy; cases hy

theorem dropDots_allws (x : Str) (h : ∀ c ∈ x, isPyWs c = true) (n : Nat) : dropDots (n + 1) x = none := by
  have := dropDots_append x h (n + 1) []
  simpa [dropDots] using this

theorem matchDots_allws (x : Str) (h : ∀ c ∈ x, isPyWs c = true) : matchDots x = none := by
  unfold matchDots
  have : dropDots 3 (splitSpaces x).2 = none :=
    dropDots_allws _ (fun c hc => h c (splitSpaces_snd_mem x c hc)) 2
  simp [this]

theorem matchDots_append (l ws : Str) (hws : ∀ c ∈ ws, isPyWs c = true) :
    matchDots (l ++ ws) = (matchDots l).map (fun p => (p.1, p.2 ++ ws)) := by
  by_cases h : (splitSpaces l).2 = []
  · have hl : matchDots l = none := by simp [matchDots, h, dropDots]
    have hall : ∀ c ∈ l ++ ws, isPyWs c = true := by
      intro c hc
      rcases List.mem_append.1 hc with h1 | h2
      · rw [spaces_of_snd_nil l h c h1]; decide
      · exact hws c h2
    rw [hl, matchDots_allws _ hall]; rfl
  · unfold matchDots
    rw [splitSpaces_append l ws h]
    by_cases hs : (splitSpaces l).1.isEmpty = true
    · simp [hs]
    · simp only [hs, dropDots_append ws hws]
      cases dropDots 3 (splitSpaces l).2 <;> simp

theorem appendLast_append (ws : Str) (a : List Str) (l : Str) : appendLast ws (a ++ [l]) = a ++ [l ++ ws] := by
  induction a with
  | nil => rfl
  | cons x r ih =>
    cases r with
    | nil => simp [appendLast]
    | cons y r' => simp only [List.cons_append, appendLast] at ih ⊢; rw [ih]

theorem subLine_append (l ws : Str) (hws : ∀ c ∈ ws, isPyWs c = true) :
    subLine (l ++ ws) = appendLast ws (subLine l) := by
  unfold subLine
  rw [matchDots_append l ws hws]
  cases matchDots l with
  | none => simp [appendLast]
  | some p =>
    simp only [Option.map_some]
    have := appendLast_append ws ([] :: expansion.map (p.1 ++ ·)) p.2
    simpa using this.symm

theorem step_trailing (d : Bool) (l ws : Str) (hws : ∀ c ∈ ws, isPyWs c = true) :
    step d (l ++ ws) = ((step d l).1, appendLast ws (step d l).2) := by
  unfold step
  rw [strip_append_ws l ws hws]
  unfold stepS
  split
  · simp [appendLast]
  · split
    · simp [appendLast]
    · split
      · simp [appendLast]
      · split
        · simp [appendLast]
        · simp [subLine_append l ws hws]

theorem step_blank (d : Bool) (b : Str) (hb : strip b = []) : step d b = (d, [b]) := by
  unfold step stepS
  have hm : matchDots b = none := matchDots_allws b (strip_nil_allws b hb)
  cases d <;> simp [hb, startsWith, endsWith, q3, subLine, hm]

theorem run_append (pre X : List Str) : ∀ d, run d (pre ++ X) = (runPre d pre).2 ++ run (runPre d pre).1 X := by
  induction pre with
  | nil => intro d; simp [runPre]
  | cons l ls ih => intro d; simp [run, runPre, ih, List.append_assoc]

/-- every line is rewritten to at least one line (so the decomposition `X0 ++ [xl]` asked for by `source_trailing` always exists) -/
theorem step_snd_split (d : Bool) (l : Str) : ∃ X0 xl, (step d l).2 = X0 ++ [xl] := by
  unfold step stepS
  split
  · exact ⟨[], l, rfl⟩
  · split
    · exact ⟨[], l, rfl⟩
    · split
      · exact ⟨[], l, rfl⟩
      · split
        · exact ⟨[], l, rfl⟩
        · simp only [subLine]
          cases matchDots l with
          | none => exact ⟨[], l, rfl⟩
          | some p => exact ⟨[] :: expansion.map (p.1 ++ ·), p.2, by simp⟩

end NemoVerif.PreExpand
